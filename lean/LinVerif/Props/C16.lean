/-
C16 — Ingestion canonicalises rows and routes them deterministically.

Property theorems over the models `Model/Row.lean` (validateMetric, deDupTags, XXHashOfKeyValues,
MarshalProtoMetricV1) and `Model/Route.lean` (EvictOutOfTimeRange, shard and family iterators,
WriteTo). Go's `sort.Sort`, xxhash, the jump hash and the interval calculator are parameters with
explicit hypotheses (`SortSpec`, `jump k n < n`, `CalcSpec`); every theorem quantifies over all of
them, over all metrics / batches / shard counts / windows.

Two regions where the code violates the property are excluded by explicit hypotheses and refuted
on witnesses under `namespace Neg`:
  * a repeated tag key carrying different values (`Consistent` fails)  — the surviving value and
    with it the series hash and the shard depend on the order the tags were sent in;
  * a batch object reused from the pool whose slot still carries an IsOutOfTimeRange mark
    (`stale` ≠ all-false) — a row inside the write window is dropped.
-/
import LinVerif.Lemmas.C16Row
import LinVerif.Lemmas.C16Valid
import LinVerif.Lemmas.C16Route
import LinVerif.Lemmas.C16Escape
import LinVerif.Lemmas.C16Influx
import LinVerif.Lemmas.C16FlatAgree
import LinVerif.Lemmas.C16Ident
import LinVerif.Lemmas.C16RoutePerm
import LinVerif.Lemmas.C16ProtoConv
import LinVerif.Lemmas.C16InfluxStream
import LinVerif.Generated.C16

namespace LinVerif.Props.C16
open LinVerif.Row LinVerif.Route LinVerif.Lemmas.C16

/-! ## canonical form of an accepted metric -/

/-- the tags a metric is converted with: its own (nil pointers make it invalid) plus the request's
enriched tags -/
def sentTags (c : Cfg) (m : PMetric) : List Tag := (m.tags ++ c.enriched.map some).filterMap id

theorem mem_sentTags (c : Cfg) (m : PMetric) (t : Tag) :
    t ∈ sentTags c m ↔ (some t ∈ m.tags ∨ t ∈ c.enriched) := by
  simp [sentTags, List.mem_filterMap]

/-- **canonical**: an accepted metric is stored with tags sorted by key, keys pairwise distinct
(strictly increasing), every stored pair is a pair that was sent, every sent key is stored;
name / namespace (sanitized: '|' ↦ '_'), timestamp (0 ↦ now), simple fields (in order, values
untouched, reserved names escaped) and the compound field are the ones sent; the stored tags hash is
the hash of the stored tags. Holds for every conforming `sort`, every hash function, both variants
of Less. -/
theorem canonical (tb : Bool) {sort : List Tag → List Tag} (hs : SortSpec (less tb) sort)
    (H : String → Nat) (c : Cfg) (m : PMetric) (s : Stored)
    (h : convert tb sort H c (some m) = .ok s) :
    s.tags.Pairwise (fun a b => a.key < b.key) ∧
    (∀ t ∈ s.tags, some t ∈ m.tags ∨ t ∈ c.enriched) ∧
    (∀ t, (some t ∈ m.tags ∨ t ∈ c.enriched) → ∃ t' ∈ s.tags, t'.key = t.key) ∧
    s.name = sanitizeName m.name ∧
    s.ns = sanitizeName (if c.reqNs ≠ "" then c.reqNs else m.ns) ∧
    s.ts = (if m.ts = 0 then c.now else m.ts) ∧
    m.fields = (m.fields.filterMap id).map some ∧
    s.fields = (m.fields.filterMap id).map
      (fun f => { name := sanitizeFieldName f.name, ftype := mapType f.ftype, value := f.value }) ∧
    s.compound = m.compound ∧
    s.hash = H (concatKVs s.tags) ∧
    s.nameHash = H (s.ns ++ s.name) := by
  unfold convert at h
  cases hv : validate c (some m) with
  | error e => rw [hv] at h; cases h
  | ok v =>
    rw [hv] at h
    obtain ⟨hvalid, rfl⟩ := valid_of_validate c m v hv
    have hs' : s = build tb sort H (vmetricOf c m) := (Except.ok.inj h).symm
    subst hs'
    refine ⟨deDupTags_strict tb hs _, ?_, ?_, rfl, rfl, rfl, ?_, ?_, rfl, kvsHash_deDup tb hs H _, rfl⟩
    · intro t ht
      exact (mem_sentTags c m t).1 (deDupTags_sub tb hs _ t ht)
    · intro t ht
      exact deDupTags_keys tb hs _ t ((mem_sentTags c m t).2 ht)
    · obtain ⟨r, hr, _⟩ := (all_some_iff (FieldOk c.limits) _).1 hvalid.fields_ok
      rw [hr, filterMap_id_map_some]
    · simp [build, vmetricOf, sanitizeField, List.map_map, Function.comp_def]

/-- the known field types are stored as sent -/
theorem canonical_field_type (t : Nat) (h : 1 ≤ t ∧ t ≤ 5) : mapType t = t := by
  simp [mapType, h]

/-! ## independence of tag order and of the rest of the batch -/

/-- **order_independent**: two metrics that differ only in the order of their tags, whose repeated
keys (if any) carry one value — in particular: pairwise distinct keys — are accepted together and
stored as the same row with the same tags hash, whichever conforming sorts run. With the tie-break
on the value (`tb = true`) the hypothesis on repeated keys is not needed. -/
theorem order_independent (tb : Bool) {s₁ s₂ : List Tag → List Tag}
    (h₁ : SortSpec (less tb) s₁) (h₂ : SortSpec (less tb) s₂) (H : String → Nat) (c : Cfg)
    (m₁ m₂ : PMetric) (hp : m₁.tags.Perm m₂.tags)
    (hrest : m₂ = { m₁ with tags := m₂.tags })
    (hc : tb = true ∨ Consistent (sentTags c m₁))
    (r : Stored) (h : convert tb s₁ H c (some m₁) = .ok r) :
    convert tb s₂ H c (some m₂) = .ok r := by
  unfold convert at h ⊢
  cases hv : validate c (some m₁) with
  | error e => rw [hv] at h; cases h
  | ok v =>
    rw [hv] at h
    obtain ⟨hvalid, rfl⟩ := valid_of_validate c m₁ v hv
    have pall : (m₁.tags ++ c.enriched.map some).Perm (m₂.tags ++ c.enriched.map some) :=
      hp.append_right _
    have hvalid₂ : Valid c m₂ := by
      rw [hrest]
      exact ⟨hvalid.name_ne, hvalid.name_len, hvalid.has_field,
        by simpa [← pall.length_eq] using hvalid.tags_count,
        fun t ht => hvalid.tags_ok t (pall.symm.subset ht),
        hvalid.fields_count, hvalid.fields_ok, hvalid.compound_ok⟩
    rw [validate_of_valid c m₂ hvalid₂]
    have ptags : (vmetricOf c m₁).tags.Perm (vmetricOf c m₂).tags := pall.filterMap id
    have hd : deDupTags s₁ (vmetricOf c m₁).tags = deDupTags s₂ (vmetricOf c m₂).tags :=
      deDupTags_perm tb h₁ h₂ ptags hc
    have hr : r = build tb s₁ H (vmetricOf c m₁) := (Except.ok.inj h).symm
    have hother : vmetricOf c m₂ = { vmetricOf c m₁ with tags := (vmetricOf c m₂).tags } := by
      rw [hrest]; rfl
    rw [hr]
    simp only [build]
    rw [hother]
    simp only
    rw [← hd, kvsHash_deDup tb h₁ H, hd, kvsHash_deDup tb h₂ H]

/-- pairwise distinct keys are a special case of `Consistent` -/
theorem order_independent_distinct_keys (tb : Bool) {s₁ s₂ : List Tag → List Tag}
    (h₁ : SortSpec (less tb) s₁) (h₂ : SortSpec (less tb) s₂) (H : String → Nat) (c : Cfg)
    (m₁ m₂ : PMetric) (hp : m₁.tags.Perm m₂.tags) (hrest : m₂ = { m₁ with tags := m₂.tags })
    (hk : ((sentTags c m₁).map Tag.key).Nodup)
    (r : Stored) (h : convert tb s₁ H c (some m₁) = .ok r) :
    convert tb s₂ H c (some m₂) = .ok r :=
  order_independent tb h₁ h₂ H c m₁ m₂ hp hrest (Or.inr (consistent_of_keys_nodup hk)) r h

/-- the shard is a function of the stored hash alone, so it is order-independent as well -/
theorem shard_order_independent (tb : Bool) {s₁ s₂ : List Tag → List Tag}
    (h₁ : SortSpec (less tb) s₁) (h₂ : SortSpec (less tb) s₂) (H : String → Nat) (c : Cfg)
    (jump : Nat → Nat → Nat) (n : Nat)
    (m₁ m₂ : PMetric) (hp : m₁.tags.Perm m₂.tags) (hrest : m₂ = { m₁ with tags := m₂.tags })
    (hc : tb = true ∨ Consistent (sentTags c m₁))
    (r₁ r₂ : Stored) (e₁ : convert tb s₁ H c (some m₁) = .ok r₁) (e₂ : convert tb s₂ H c (some m₂) = .ok r₂) :
    jump r₁.hash n = jump r₂.hash n := by
  have := order_independent tb h₁ h₂ H c m₁ m₂ hp hrest hc r₁ e₁
  rw [e₂] at this
  rw [Except.ok.inj this]

/-- **independent of the other rows of the batch**: the rows a batch produces are the rows its
metrics produce one by one, in order; what precedes or follows a metric changes nothing in its row. -/
theorem row_independent_of_batch (tb : Bool) (sort : List Tag → List Tag) (H : String → Nat) (c : Cfg)
    (pre post : List (Option PMetric)) (m : Option PMetric) :
    convertBatch tb sort H c (pre ++ m :: post) =
      convertBatch tb sort H c pre ++ convertBatch tb sort H c [m] ++ convertBatch tb sort H c post := by
  rw [show pre ++ m :: post = pre ++ [m] ++ post by simp]
  simp only [convertBatch, List.filterMap_append]

theorem row_of_accepted (tb : Bool) (sort : List Tag → List Tag) (H : String → Nat) (c : Cfg)
    (m : Option PMetric) (s : Stored) (h : convert tb sort H c m = .ok s) :
    convertBatch tb sort H c [m] = [s] := by
  simp [convertBatch, h]

/-! ## invalid metrics -/

/-- **invalid_rejected_whole**: a metric that breaks any rule of `Valid` (or is nil) is rejected,
and the batch it was sent in produces exactly the rows it would produce without it — nothing of
the rejected metric is stored. Conversely every metric satisfying `Valid` is accepted
(`validate_ok_iff`). -/
theorem invalid_rejected_whole (tb : Bool) (sort : List Tag → List Tag) (H : String → Nat) (c : Cfg)
    (pre post : List (Option PMetric)) (m : PMetric) (hbad : ¬ Valid c m) :
    (∃ e, convert tb sort H c (some m) = .error e) ∧
    convertBatch tb sort H c (pre ++ some m :: post) = convertBatch tb sort H c (pre ++ post) := by
  have herr : ∃ e, convert tb sort H c (some m) = .error e := by
    unfold convert
    cases hv : validate c (some m) with
    | error e => exact ⟨e, rfl⟩
    | ok v => exact absurd (valid_of_validate c m v hv).1 hbad
  refine ⟨herr, ?_⟩
  obtain ⟨e, he⟩ := herr
  rw [row_independent_of_batch]
  simp [convertBatch, he, List.filterMap_append]

theorem nil_rejected (tb : Bool) (sort : List Tag → List Tag) (H : String → Nat) (c : Cfg) :
    convert tb sort H c none = .error .nilMetric := rfl

theorem accepted_iff_valid (tb : Bool) (sort : List Tag → List Tag) (H : String → Nat) (c : Cfg)
    (m : PMetric) : (∃ s, convert tb sort H c (some m) = .ok s) ↔ Valid c m := by
  unfold convert
  constructor
  · rintro ⟨s, h⟩
    cases hv : validate c (some m) with
    | error e => rw [hv] at h; cases h
    | ok v => exact (valid_of_validate c m v hv).1
  · intro h
    rw [validate_of_valid c m h]
    exact ⟨_, rfl⟩

/-! ## routing -/

/-- **partition**: for every shard count `n` with `jump k n < n`, every conforming pair of sorts
and every conforming calculator, the (shard, family, rows) groups of a batch
 (1) hold every row of the batch exactly once (their concatenation is a permutation of the batch
     with shards assigned),
 (2) have a shard below `n`, which is the jump hash of each member's tags hash,
 (3) are non-empty, and every member's own family time is the group's family time and its own
     family range contains its timestamp. -/
theorem partition (jump : Nat → Nat → Nat) (C : Calc) (hC : CalcSpec C)
    {sortShard sortTs : List BRow → List BRow}
    (hss : SortSpec lessShard sortShard) (hst : SortSpec lessTs sortTs)
    (n : Nat) (hj : ∀ k, jump k n < n) (rows : List BRow) :
    let gs := route jump C sortShard sortTs n rows
    (gs.flatMap (fun g => g.rows)).Perm (assignShards jump n rows) ∧
    (∀ g ∈ gs, g.shard < n ∧ g.rows ≠ [] ∧
      ∀ r ∈ g.rows, r.shard = g.shard ∧ r.shard = jump r.row.hash n ∧
        C.famTime r.row.ts = g.famTime ∧ contains (C.range r.row.ts) r.row.ts = true) := by
  intro gs
  have hassign : ∀ r ∈ assignShards jump n rows, r.shard = jump r.row.hash n := by
    intro r hr
    obtain ⟨r₀, _, rfl⟩ := List.mem_map.1 hr
    rfl
  have hsorted_mem : ∀ r ∈ sortShard (assignShards jump n rows), r.shard = jump r.row.hash n :=
    fun r hr => hassign r ((hss.perm _).subset hr)
  constructor
  · -- (1)
    show ((route jump C sortShard sortTs n rows).flatMap (fun g => g.rows)).Perm _
    unfold route
    rw [List.flatMap_assoc]
    have step : ∀ g ∈ runs sameShard (sortShard (assignShards jump n rows)),
        (((familyGroups C sortTs (g.1 :: g.2)).map
            (fun fg => (⟨g.1.shard, fg.1, fg.2⟩ : Group))).flatMap (fun g => g.rows)).Perm (g.1 :: g.2) := by
      intro g _
      rw [List.flatMap_map]
      exact familyGroups_perm C hst (g.1 :: g.2)
    refine (List.Perm.flatMap_left _ step).trans ?_
    rw [runs_flatten]
    exact hss.perm _
  · -- (2), (3)
    intro g hg
    unfold gs route at hg
    obtain ⟨sg, hsg, hg'⟩ := List.mem_flatMap.1 hg
    obtain ⟨fg, hfg, rfl⟩ := List.mem_map.1 hg'
    have hhead : sg.1 ∈ sortShard (assignShards jump n rows) :=
      runs_mem _ _ sg hsg sg.1 List.mem_cons_self
    obtain ⟨hne, hfam⟩ := familyGroups_family C hC (sortTs := sortTs) (sg.1 :: sg.2) fg hfg
    refine ⟨?_, hne, ?_⟩
    · show sg.1.shard < n
      rw [hsorted_mem _ hhead]
      exact hj _
    · intro r hr
      have hr' : r ∈ sg.1 :: sg.2 := by
        have := (familyGroups_perm C hst (sg.1 :: sg.2)).subset
          (List.mem_flatMap.2 ⟨fg, hfg, hr⟩)
        exact this
      have hrs : r ∈ sortShard (assignShards jump n rows) := runs_mem _ _ sg hsg r hr'
      have hsh : r.shard = sg.1.shard := by
        rcases List.mem_cons.1 hr' with rfl | hr''
        · rfl
        · have := runs_related sameShard _ sg hsg r hr''
          simpa [sameShard] using this
      exact ⟨hsh, hsorted_mem r hrs, (hfam r hr).1, (hfam r hr).2⟩

/-- **partition**, second half of "exactly one": no two groups have the same (shard, family), i.e. the
rows of one shard and one family are never split over two FamilyChannel.Write calls. -/
theorem groups_distinct (jump : Nat → Nat → Nat) (C : Calc) (hC : CalcSpec C)
    {sortShard sortTs : List BRow → List BRow}
    (hss : SortSpec lessShard sortShard) (hst : SortSpec lessTs sortTs) (n : Nat) (rows : List BRow) :
    (route jump C sortShard sortTs n rows).Pairwise
      (fun g₁ g₂ => ¬ (g₁.shard = g₂.shard ∧ g₁.famTime = g₂.famTime)) := by
  unfold route
  rw [List.pairwise_flatMap]
  constructor
  · intro sg _
    rw [List.pairwise_map]
    exact (familyGroups_distinct C hC hst _).imp (fun {a b} h hab => h hab.2)
  · have hsorted : (sortShard (assignShards jump n rows)).Pairwise (fun x y => x.shard ≤ y.shard) :=
      (hss.ordered _).imp (fun {x y} h => by simpa [lessShard] using h)
    have hun := runs_heads_unrelated sameShard (fun x y => x.shard ≤ y.shard) ?_ _ hsorted
    · refine hun.imp ?_
      intro g₁ g₂ h x hx y hy hxy
      obtain ⟨fx, _, rfl⟩ := List.mem_map.1 hx
      obtain ⟨fy, _, rfl⟩ := List.mem_map.1 hy
      simp only [sameShard, beq_eq_false_iff_ne, ne_eq] at h
      exact h hxy.1.symm
    · intro a x b hax hxb hp
      simp only [sameShard, beq_iff_eq] at hp ⊢
      omega

/-- **route_group_is_key_class**: a group handed to a family channel is EXACTLY the class of its key: the
rows of the batch (shards assigned) whose shard `jump hash n` and family time are the group's — all of them,
each once. So what a row is grouped with is decided by its own (shard, family) alone. -/
theorem route_group_is_key_class (jump : Nat → Nat → Nat) (C : Calc) (hC : CalcSpec C)
    {sortShard sortTs : List BRow → List BRow}
    (hss : SortSpec lessShard sortShard) (hst : SortSpec lessTs sortTs)
    (n : Nat) (hj : ∀ k, jump k n < n) (rows : List BRow)
    (g : Group) (hg : g ∈ route jump C sortShard sortTs n rows) :
    g.rows.Perm ((assignShards jump n rows).filter
      (fun r => decide (r.shard = g.shard ∧ C.famTime r.row.ts = g.famTime))) := by
  obtain ⟨hperm, hgroups⟩ := partition jump C hC hss hst n hj rows
  have hd := groups_distinct jump C hC hss hst n rows
  let k : BRow → Bool := fun r => decide (r.shard = g.shard ∧ C.famTime r.row.ts = g.famTime)
  have h1 := hperm.filter k
  rw [List.filter_flatMap] at h1
  have hkey : (route jump C sortShard sortTs n rows).Pairwise
      (fun a b => (fun x : Group => (x.shard, x.famTime)) a ≠ (fun x : Group => (x.shard, x.famTime)) b) :=
    hd.imp (fun {a b} h e => h ⟨congrArg Prod.fst e, congrArg Prod.snd e⟩)
  have h2 := flatMap_single_key (fun x : Group => (x.shard, x.famTime)) (fun a => a.rows.filter k)
    (route jump C sortShard sortTs n rows) hkey g hg (by
      intro a ha hne
      rw [List.filter_eq_nil_iff]
      intro r hr hk
      obtain ⟨e1, _, e3, _⟩ := (hgroups a ha).2.2 r hr
      simp only [k, decide_eq_true_eq] at hk
      exact hne (by rw [← e1, ← e3, hk.1, hk.2]))
  have h3 : g.rows.filter k = g.rows := by
    rw [List.filter_eq_self]
    intro r hr
    obtain ⟨e1, _, e3, _⟩ := (hgroups g hg).2.2 r hr
    simp [k, e1, e3]
  rw [h2, h3] at h1
  exact h1

/-- **route_permutation_invariant** (the whole `route`, not just a row's placement): two batches holding the
same rows in ANY order — shuffled by the client, by the pool, by `sort.Sort`'s choices among equal shards or
timestamps (any two conforming pairs of sorts) — are routed into the same groups: every (shard, family)
group of one has a group of the other with the same shard, the same family time and the same rows up to
order. By symmetry the correspondence goes both ways. -/
theorem route_permutation_invariant (jump : Nat → Nat → Nat) (C : Calc) (hC : CalcSpec C)
    {ss₁ st₁ ss₂ st₂ : List BRow → List BRow}
    (h₁s : SortSpec lessShard ss₁) (h₁t : SortSpec lessTs st₁)
    (h₂s : SortSpec lessShard ss₂) (h₂t : SortSpec lessTs st₂)
    (n : Nat) (hj : ∀ k, jump k n < n) (rows₁ rows₂ : List BRow) (hp : rows₁.Perm rows₂)
    (g₁ : Group) (hg₁ : g₁ ∈ route jump C ss₁ st₁ n rows₁) :
    ∃ g₂ ∈ route jump C ss₂ st₂ n rows₂,
      g₂.shard = g₁.shard ∧ g₂.famTime = g₁.famTime ∧ g₁.rows.Perm g₂.rows := by
  obtain ⟨hperm₁, hgroups₁⟩ := partition jump C hC h₁s h₁t n hj rows₁
  obtain ⟨hperm₂, hgroups₂⟩ := partition jump C hC h₂s h₂t n hj rows₂
  have hL : (assignShards jump n rows₁).Perm (assignShards jump n rows₂) := hp.map _
  obtain ⟨_, hne, hmem⟩ := hgroups₁ g₁ hg₁
  obtain ⟨r, hr⟩ := List.exists_mem_of_ne_nil _ hne
  have hr1 : r ∈ assignShards jump n rows₁ := hperm₁.subset (List.mem_flatMap.2 ⟨g₁, hg₁, hr⟩)
  have hr2 : r ∈ (route jump C ss₂ st₂ n rows₂).flatMap (fun g => g.rows) := hperm₂.symm.subset (hL.subset hr1)
  obtain ⟨g₂, hg₂, hr₂⟩ := List.mem_flatMap.1 hr2
  obtain ⟨a1, _, a3, _⟩ := hmem r hr
  obtain ⟨b1, _, b3, _⟩ := (hgroups₂ g₂ hg₂).2.2 r hr₂
  have es : g₂.shard = g₁.shard := by rw [← a1, ← b1]
  have ef : g₂.famTime = g₁.famTime := by rw [← a3, ← b3]
  refine ⟨g₂, hg₂, es, ef, ?_⟩
  have c1 := route_group_is_key_class jump C hC h₁s h₁t n hj rows₁ g₁ hg₁
  have c2 := route_group_is_key_class jump C hC h₂s h₂t n hj rows₂ g₂ hg₂
  rw [es, ef] at c2
  exact c1.trans ((hL.filter _).trans c2.symm)

/-- **routing does not depend on which shard channels exist**: the groups are formed with the
configured shard count `n`; with an arbitrary set `present` of existing channels
 (1) what is delivered, over all groups, is exactly the rows whose shard `jump hash n` is present — each once;
 (2) every delivered group has a present shard below `n`, the jump hash of each member;
 (3) channel-not-found is returned only if some row of the batch belongs to an absent shard
 (by (1) such rows are delivered nowhere and the rows of present shards all are). The converse of (3)
 does not hold in the code: a later successful family write overwrites the error
 (`Neg.channel_not_found_error_overwritten`); C16 does not speak about the error, so this is recorded
 as an observation, not as a finding. -/
theorem absent_shards_isolated (jump : Nat → Nat → Nat) (C : Calc) (hC : CalcSpec C)
    {sortShard sortTs : List BRow → List BRow}
    (hss : SortSpec lessShard sortShard) (hst : SortSpec lessTs sortTs)
    (n : Nat) (hj : ∀ k, jump k n < n) (present : Nat → Bool) (rows : List BRow) :
    let d := deliver present (route jump C sortShard sortTs n rows)
    (d.1.flatMap (fun g => g.rows)).Perm ((assignShards jump n rows).filter (fun r => present r.shard)) ∧
    (∀ g ∈ d.1, g.shard < n ∧ present g.shard = true ∧ ∀ r ∈ g.rows, r.shard = g.shard ∧ r.shard = jump r.row.hash n) ∧
    (d.2 = true → ∃ r ∈ rows, present (jump r.row.hash n) = false) := by
  intro d
  obtain ⟨hperm, hgroups⟩ := partition jump C hC hss hst n hj rows
  have hshard : ∀ g ∈ route jump C sortShard sortTs n rows, ∀ r ∈ g.rows, r.shard = g.shard :=
    fun g hg r hr => ((hgroups g hg).2.2 r hr).1
  have hflat : ∀ (gs : List Group), (∀ g ∈ gs, ∀ r ∈ g.rows, r.shard = g.shard) →
      (gs.filter (fun g => present g.shard)).flatMap (fun g => g.rows) =
        (gs.flatMap (fun g => g.rows)).filter (fun r => present r.shard) := by
    intro gs
    induction gs with
    | nil => intro _; rfl
    | cons g rest ih =>
      intro h
      have ih' := ih (fun g' hg' => h g' (List.mem_cons_of_mem _ hg'))
      have hg : ∀ r ∈ g.rows, r.shard = g.shard := h g List.mem_cons_self
      simp only [List.filter_cons, List.flatMap_cons, List.filter_append]
      by_cases hp : present g.shard = true
      · have : g.rows.filter (fun r => present r.shard) = g.rows := by
          apply List.filter_eq_self.2
          intro r hr
          rw [hg r hr]; exact hp
        simp only [hp, if_true, List.flatMap_cons, ih', this]
      · have : g.rows.filter (fun r => present r.shard) = [] := by
          apply List.filter_eq_nil_iff.2
          intro r hr
          rw [hg r hr]; exact hp
        simp only [hp, this, List.nil_append, Bool.false_eq_true, if_false]
        exact ih'
  refine ⟨?_, ?_, ?_⟩
  · show ((route jump C sortShard sortTs n rows).filter (fun g => present g.shard)).flatMap (fun g => g.rows) |>.Perm _
    rw [hflat _ hshard]
    exact hperm.filter _
  · intro g hg
    have hg' := List.mem_filter.1 hg
    obtain ⟨hlt, _, hmem⟩ := hgroups g hg'.1
    exact ⟨hlt, hg'.2, fun r hr => ⟨(hmem r hr).1, (hmem r hr).2.1⟩⟩
  · intro hd
    have hany : ∃ g ∈ route jump C sortShard sortTs n rows, present g.shard = false := by
      have key : ∀ (gs : List Group) (b : Bool), gs.foldl (fun _ g => !present g.shard) b = true →
          b = true ∨ ∃ g ∈ gs, present g.shard = false := by
        intro gs
        induction gs with
        | nil => intro b h; exact Or.inl h
        | cons g rest ih =>
          intro b h
          rcases ih _ h with h1 | ⟨g', hg', hp⟩
          · exact Or.inr ⟨g, List.mem_cons_self, by simpa using h1⟩
          · exact Or.inr ⟨g', List.mem_cons_of_mem _ hg', hp⟩
      rcases key _ false hd with h | h
      · cases h
      · exact h
    obtain ⟨g, hg, hp⟩ := hany
    obtain ⟨_, hne, hmem⟩ := hgroups g hg
    obtain ⟨r, hr⟩ := List.exists_mem_of_ne_nil _ hne
    have hrin : r ∈ assignShards jump n rows := hperm.subset (List.mem_flatMap.2 ⟨g, hg, hr⟩)
    obtain ⟨r₀, hr₀, rfl⟩ := List.mem_map.1 hrin
    refine ⟨r₀, hr₀, ?_⟩
    have := (hmem _ hr).1
    simp only at this
    rw [this]
    exact hp

/-- **evict_exact** (row level): in a batch whose slots carry no stale mark, a row is marked
— and therefore not written — iff its timestamp is outside the write window; the returned count is
the number of such rows; nothing else about a row changes. -/
theorem evict_exact (behind ahead now : Int) (rows : List BRow) (hfresh : ∀ r ∈ rows, r.oor = false) :
    (∀ r' ∈ evict behind ahead now rows, ∃ r ∈ rows, r'.id = r.id ∧ r'.row = r.row ∧
        (r'.oor = true ↔ outside behind ahead now r.row.ts = true)) ∧
    (evict behind ahead now rows).length = rows.length ∧
    evictedCount behind ahead now rows =
      ((evict behind ahead now rows).filter (fun r => r.oor)).length := by
  refine ⟨?_, by simp [evict], ?_⟩
  · intro r' hr'
    obtain ⟨r, hr, hid, hrow, _, hoor⟩ := evict_oor behind ahead now rows r' hr'
    refine ⟨r, hr, hid, hrow, ?_⟩
    rw [hoor, hfresh r hr]
    simp
  · unfold evictedCount evict
    rw [List.filter_map, List.length_map]
    congr 1
    apply List.filter_congr
    intro r hr
    by_cases ho : outside behind ahead now r.row.ts = true
    · simp [ho]
    · simp [ho, hfresh r hr]

theorem filter_assign_evict (jump : Nat → Nat → Nat) (n : Nat) (behind ahead now : Int) (rows : List BRow)
    (hfresh : ∀ r ∈ rows, r.oor = false) :
    (assignShards jump n (evict behind ahead now rows)).filter (fun r => !r.oor) =
      assignShards jump n (rows.filter (fun r => !outside behind ahead now r.row.ts)) := by
  induction rows with
  | nil => rfl
  | cons r rest ih =>
    have hr := hfresh r List.mem_cons_self
    have ih' := ih (fun x hx => hfresh x (List.mem_cons_of_mem _ hx))
    by_cases ho : outside behind ahead now r.row.ts = true
    · simp [assignShards, evict, ho] at ih' ⊢
      exact ih'
    · simp [assignShards, evict, ho, hr] at ih' ⊢
      exact ih'

/-- **evict_exact** (batch level): what the family channels receive, over all groups, is exactly the
in-window rows of the batch — each once — and nothing of the out-of-window rows. -/
theorem evict_exact_written (jump : Nat → Nat → Nat) (C : Calc)
    {sortShard sortTs : List BRow → List BRow}
    (hss : SortSpec lessShard sortShard) (hst : SortSpec lessTs sortTs)
    (n : Nat) (behind ahead now : Int) (rows : List BRow) (hfresh : ∀ r ∈ rows, r.oor = false) :
    ((route jump C sortShard sortTs n (evict behind ahead now rows)).flatMap written).Perm
      (assignShards jump n (rows.filter (fun r => !outside behind ahead now r.row.ts))) := by
  have hperm : ((route jump C sortShard sortTs n (evict behind ahead now rows)).flatMap (fun g => g.rows)).Perm
      (assignShards jump n (evict behind ahead now rows)) := by
    unfold route
    rw [List.flatMap_assoc]
    have step : ∀ g ∈ runs sameShard (sortShard (assignShards jump n (evict behind ahead now rows))),
        (((familyGroups C sortTs (g.1 :: g.2)).map
            (fun fg => (⟨g.1.shard, fg.1, fg.2⟩ : Group))).flatMap (fun g => g.rows)).Perm (g.1 :: g.2) := by
      intro g _
      rw [List.flatMap_map]
      exact familyGroups_perm C hst (g.1 :: g.2)
    refine (List.Perm.flatMap_left _ step).trans ?_
    rw [runs_flatten]
    exact hss.perm _
  have hw : (route jump C sortShard sortTs n (evict behind ahead now rows)).flatMap written =
      ((route jump C sortShard sortTs n (evict behind ahead now rows)).flatMap (fun g => g.rows)).filter
        (fun r => !r.oor) := by
    rw [List.filter_flatMap]
    rfl
  rw [hw]
  refine (hperm.filter _).trans ?_
  apply List.Perm.of_eq
  exact filter_assign_evict jump n behind ahead now rows hfresh

/-- a batch that was never pooled, or an append path that clears the mark, starts fresh -/
theorem appendAll_fresh (clears : Bool) (stale : List Bool) (rows : List Stored)
    (h : clears = true ∨ ∀ b ∈ stale, b = false) : ∀ r ∈ appendAll clears stale rows, r.oor = false := by
  have key : ∀ (st : List Bool) (i : Nat) (rs : List Stored), (∀ b ∈ st, b = false) →
      ∀ r ∈ appendAll.go st i rs, r.oor = false := by
    intro st i rs
    induction rs generalizing st i with
    | nil => intro _ r hr; simp [appendAll.go] at hr
    | cons x xs ih =>
      intro hst r hr
      cases st with
      | nil =>
        simp only [appendAll.go, List.mem_cons] at hr
        rcases hr with rfl | hr
        · rfl
        · exact ih [] (i + 1) (by simp) r hr
      | cons b bs =>
        simp only [appendAll.go, List.mem_cons] at hr
        rcases hr with rfl | hr
        · exact hst b List.mem_cons_self
        · exact ih bs (i + 1) (fun y hy => hst y (List.mem_cons_of_mem _ hy)) r hr
  unfold appendAll
  rcases h with rfl | h
  · exact key [] 0 rows (by simp)
  · cases clears
    · exact key stale 0 rows h
    · exact key [] 0 rows (by simp)

/-! ## the pooled batch object -/

/-- **pooled_batch_independent_of_stale_state**: whatever a BrokerBatchRows taken from the pool still
holds — any number of slots of earlier requests with arbitrary rows, shard indexes and out-of-range
marks, any old rowCount — after `reset` and any sequence of TryAppend calls (accepted and rejected
rows in any order) the rows the request sees are exactly the accepted rows, in order, unmarked, and
after NewShardGroupIterator's shard assignment they equal those of a never-used batch; so do the
routed groups and what is written. Nothing of the stale state can reach a later request. -/
theorem pooled_batch_independent_of_stale_state (b : PBatch) (rs : List (Except Err Stored))
    (jump : Nat → Nat → Nat) (C : Calc) (sortShard sortTs : List BRow → List BRow) (n : Nat) :
    let rows := (b.reset.appendMany rs).rows
    let fresh := appendAll true [] (accepted rs)
    rows.length = (accepted rs).length ∧
    (∀ r ∈ rows, r.oor = false) ∧
    rows.map (fun r => r.row) = accepted rs ∧
    assignShards jump n rows = assignShards jump n fresh ∧
    route jump C sortShard sortTs n rows = route jump C sortShard sortTs n fresh := by
  intro rows fresh
  have hs : rows.map strip = fresh.map strip := by
    have := appendMany_cur rs b.reset
    simpa [PBatch.rows, PBatch.reset, appendAll, rows, fresh] using this
  have hassign := assignShards_of_strip jump n hs
  have hfresh_go : ∀ (i : Nat) (l : List Stored),
      (appendAll.go [] i l).map (fun r => r.row) = l ∧ ∀ r ∈ appendAll.go [] i l, r.oor = false := by
    intro i l
    induction l generalizing i with
    | nil => simp [appendAll.go]
    | cons x xs ih =>
      obtain ⟨h1, h2⟩ := ih (i + 1)
      refine ⟨by simp [appendAll.go, h1], ?_⟩
      intro r hr
      simp only [appendAll.go, List.mem_cons] at hr
      rcases hr with rfl | hr
      · rfl
      · exact h2 r hr
  have hfresh := hfresh_go 0 (accepted rs)
  have hrow : rows.map (fun r => r.row) = accepted rs := by
    have h1 : rows.map (fun r => r.row) = (rows.map strip).map (fun t => t.2.1) := by
      simp [strip, List.map_map, Function.comp_def]
    have h2 : fresh.map (fun r => r.row) = (fresh.map strip).map (fun t => t.2.1) := by
      simp [strip, List.map_map, Function.comp_def]
    rw [h1, hs, ← h2]
    simpa [fresh, appendAll] using hfresh.1
  refine ⟨?_, ?_, hrow, hassign, ?_⟩
  · have := congrArg List.length hrow
    simpa using this
  · intro r hr
    have hmem : strip r ∈ fresh.map strip := hs ▸ List.mem_map_of_mem (f := strip) hr
    obtain ⟨r', hr', he⟩ := List.mem_map.1 hmem
    have hoor : r'.oor = false := hfresh.2 r' (by simpa [fresh, appendAll] using hr')
    have : r.oor = r'.oor := by
      have := congrArg (fun t => t.2.2) he
      simpa [strip] using this.symm
    rw [this, hoor]
  · unfold route
    rw [hassign]

/-! ## ties to the regenerated facts -/

/-- the rule order and the conditions of validateMetric the model mirrors -/
theorem validateRules_expected : Generated.C16.validateRules = [
  ("m == nil", "ErrMetricPBNilMetric"),
  ("m.Name == \"\"", "ErrMetricPBEmptyMetricName"),
  ("rc.limits.EnableMetricNameLengthCheck() && len(m.Name) > rc.limits.MaxMetricNameLength", "constants.ErrMetricNameTooLong"),
  ("len(m.SimpleFields) == 0 && m.CompoundField == nil", "ErrMetricPBEmptyField"),
  ("rc.limits.EnableTagsCheck() && tags > rc.limits.MaxTagsPerMetric", "constants.ErrTooManyTagKeys"),
  ("m.Tags[idx] == nil", "ErrMetricEmptyTagKeyValue"),
  ("m.Tags[idx].Key == \"\" || m.Tags[idx].Value == \"\"", "ErrMetricEmptyTagKeyValue"),
  ("rc.limits.EnableTagNameLengthCheck() && len(m.Tags[idx].Key) > rc.limits.MaxTagNameLength", "constants.ErrTagKeyTooLong"),
  ("rc.limits.EnableTagValueLengthCheck() && len(m.Tags[idx].Value) > rc.limits.MaxTagValueLength", "constants.ErrTagValueTooLong"),
  ("rc.limits.EnableFieldsCheck() && len(m.SimpleFields) > rc.limits.MaxFieldsPerMetric", "constants.ErrTooManyFields"),
  ("m.SimpleFields[idx] == nil", "ErrBadMetricPBFormat"),
  ("m.SimpleFields[idx].Name == \"\"", "ErrMetricEmptyFieldName"),
  ("rc.limits.EnableFieldNameLengthCheck() && len(m.SimpleFields[idx].Name) > rc.limits.MaxFieldNameLength", "constants.ErrFieldNameTooLong"),
  ("m.SimpleFields[idx].Type == protoMetricsV1.SimpleFieldType_SIMPLE_UNSPECIFIED", "ErrBadMetricPBFormat"),
  ("math.IsNaN(v)", "ErrMetricNanField"),
  ("math.IsInf(v, 0)", "ErrMetricInfField"),
  ("m.CompoundField == nil", "accept"),
  ("len(m.CompoundField.Values) != len(m.CompoundField.ExplicitBounds) || len(m.CompoundField.Values) <= 2", "ErrBadMetricPBFormat"),
  ("(m.CompoundField.Max < 0) || m.CompoundField.Min < 0 || m.CompoundField.Sum < 0 || m.CompoundField.Count < 0", "ErrBadMetricPBFormat"),
  ("m.CompoundField.Values[idx] < 0 || m.CompoundField.ExplicitBounds[idx] < 0", "ErrBadMetricPBFormat"),
  ("idx >= 1 && m.CompoundField.ExplicitBounds[idx] < m.CompoundField.ExplicitBounds[idx-1]", "ErrBadMetricPBFormat"),
  ("idx == len(m.CompoundField.ExplicitBounds)-1 && !math.IsInf(m.CompoundField.ExplicitBounds[idx], 1)", "ErrBadMetricPBFormat")] := rfl

theorem limitEnableRules_expected : Generated.C16.limitEnableRules = [
  ("EnableMetricNameLengthCheck", "return l.MaxMetricNameLength > 0"),
  ("EnableFieldNameLengthCheck", "return l.MaxFieldNameLength > 0"),
  ("EnableFieldsCheck", "return l.MaxFieldsPerMetric > 0"),
  ("EnableTagNameLengthCheck", "return l.MaxTagNameLength > 0"),
  ("EnableTagValueLengthCheck", "return l.MaxTagValueLength > 0"),
  ("EnableTagsCheck", "return l.MaxTagsPerMetric > 0"),
  ("EnableNamespaceLengthCheck", "return l.MaxNamespaceLength > 0")] := rfl

/-- deDupTags: sort, then the keep-last 2-pointer loop (`dedupRuns`) -/
theorem deDupTags_expected : Generated.C16.deDupTagsSrc =
  "kvs := tag.KeyValues(m.Tags) ; if len(kvs) < 2 { return } ; sort.Sort(kvs) ; slow := 0 ; for high := 1; high < len(m.Tags); high++ { if m.Tags[slow].Key != m.Tags[high].Key { slow++ } m.Tags[slow] = m.Tags[high] } ; m.Tags = m.Tags[:slow+1]" := rfl

theorem tagDeDup_expected : Generated.C16.tagDeDupSrc =
  "if len(kvs) < 2 { return kvs } ; sort.Sort(kvs) ; var ( fast = 1 slow = 0 ) ; for fast < kvs.Len() { if kvs[fast].Key != kvs[slow].Key { slow++ } kvs[slow] = kvs[fast] fast++ } ; return kvs[:slow+1]" := rfl

/-- the switch `mapType` mirrors: five known types, no default branch -/
theorem typeSwitch_expected : Generated.C16.typeSwitch = [
  ("protoMetricsV1.SimpleFieldType_DELTA_SUM", "flatMetricsV1.SimpleFieldTypeDeltaSum"),
  ("protoMetricsV1.SimpleFieldType_LAST", "flatMetricsV1.SimpleFieldTypeLast"),
  ("protoMetricsV1.SimpleFieldType_Max", "flatMetricsV1.SimpleFieldTypeMax"),
  ("protoMetricsV1.SimpleFieldType_Min", "flatMetricsV1.SimpleFieldTypeMin"),
  ("protoMetricsV1.SimpleFieldType_FIRST", "flatMetricsV1.SimpleFieldTypeFirst")] := rfl

/-- `build`: validate, de-duplicate, then hash the de-duplicated tags -/
theorem marshalPipeline_expected : Generated.C16.marshalPipeline =
  ["rc.resetForNextConverter", "rc.validateMetric", "rc.deDupTags", "flatMetricsV1.MetricAddNamespace", "flatMetricsV1.MetricAddName",
   "rc.hashOfName", "flatMetricsV1.MetricAddTimestamp", "tag.XXHashOfKeyValues", "flatMetricsV1.MetricAddKvsHash"] := rfl

/-- `kvsHash`: IsSorted, else Sort, then the concatenation hash -/
theorem xxHashOfKeyValuesCalls_expected : Generated.C16.xxHashOfKeyValuesCalls =
  ["sort.IsSorted", "sort.Sort", "xxHashOfSortedKeyValuesOnSlice", "xxHashOfSortedKeyValuesOnSlice"] := rfl

/-- `outside` / `evict` -/
theorem evict_expected : Generated.C16.evictSrc =
  "now := fasttime.UnixMilliseconds() ; for idx := 0; idx < br.Len(); idx++ { if (behind > 0 && br.rows[idx].m.Timestamp() < now-behind) || (ahead > 0 && br.rows[idx].m.Timestamp() > now+ahead) { br.rows[idx].IsOutOfTimeRange = true evicted++ } } ; return evicted" := rfl

/-- `lessShard`, `lessTs`, `written`, `contains` -/
theorem batchLess_expected : Generated.C16.batchLessSrc = "return br.rows[i].shardIdx < br.rows[j].shardIdx" := rfl
theorem familyLess_expected : Generated.C16.familyLessSrc = "return fr[i].m.Timestamp() < fr[j].m.Timestamp()" := rfl
theorem writeTo_expected : Generated.C16.writeToSrc =
  "if row.IsOutOfTimeRange { return 0, nil } ; return writer.Write(row.buffer)" := rfl
theorem contains_expected : Generated.C16.containsSrc = "return timestamp >= r.Start && timestamp <= r.End" := rfl

/-- `assignShards`, `runs sameShard` -/
theorem newShardGroupIterator_expected : Generated.C16.newShardGroupIteratorSrc =
  "for i := 0; i < br.Len(); i++ { br.rows[i].shardIdx = int(jump.Hash(br.rows[i].m.KvsHash(), numOfShards)) } ; br.shardGroupIterator.batch = br ; br.shardGroupIterator.Reset() ; return &br.shardGroupIterator" := rfl
theorem hasRowsForNextShard_expected : Generated.C16.hasRowsForNextShardSrc =
  "if itr.groupEnd >= itr.batch.Len() || itr.groupStart > itr.groupEnd { return false } ; itr.groupShardIdx = itr.batch.rows[itr.groupEnd].shardIdx ; itr.groupStart = itr.groupEnd ; for itr.groupEnd < itr.batch.Len() { if itr.batch.rows[itr.groupEnd].shardIdx != itr.groupShardIdx { break } itr.groupEnd++ } ; return itr.groupStart < itr.groupEnd" := rfl

/-- `familyGroups`: fast path, else sort by timestamp and scan with the first row's range -/
theorem familyReset_expected : Generated.C16.familyResetSrc =
  "itr.groupEnd = 0 ; itr.groupStart = 0 ; itr.rows = rows ; itr.intervalCalc = interval.Calculator() ; itr.groupFamilyTime = 0 ; itr.rows = rows ; if itr.sameFamily = itr.isSameFamily(); itr.sameFamily { return } ; sort.Sort(itr.rows)" := rfl
theorem isSameFamily_expected : Generated.C16.isSameFamilySrc =
  "if len(itr.rows) == 0 { return true } ; firstTimestamp := itr.rows[0].m.Timestamp() ; itr.groupFamilyTime = itr.familyTimeOfTimestamp(firstTimestamp) ; timeRange := itr.timeRangeOfTimestamp(firstTimestamp) ; for i := 1; i < len(itr.rows); i++ { if !timeRange.Contains(itr.rows[i].m.Timestamp()) { return false } } ; return true" := rfl
theorem hasNextFamily_expected : Generated.C16.hasNextFamilySrc =
  "if itr.groupEnd >= len(itr.rows) || itr.groupStart > itr.groupEnd { return false } ; if itr.sameFamily { itr.groupEnd = len(itr.rows) itr.groupStart = 0 return true } ; firstTimestamp := itr.rows[itr.groupEnd].m.Timestamp() ; timeRange := itr.timeRangeOfTimestamp(firstTimestamp) ; itr.groupStart = itr.groupEnd ; itr.groupFamilyTime = itr.familyTimeOfTimestamp(firstTimestamp) ; for itr.groupEnd < len(itr.rows) { if !timeRange.Contains(itr.rows[itr.groupEnd].m.Timestamp()) { break } itr.groupEnd++ } ; return itr.groupStart < itr.groupEnd" := rfl

/-- `route` / `deliver`: evict, shard groups (by the CONFIGURED shard count `dc.numOfShard`, not by
the channels that happen to exist), channel lookup per shard group, family groups, write — in this order -/
theorem channelWriteCalls_expected : Generated.C16.channelWriteCalls =
  ["brokerBatchRows.EvictOutOfTimeRange", "brokerBatchRows.NewShardGroupIterator", "shardingIterator.HasRowsForNextShard",
   "shardingIterator.FamilyRowsForNextShard", "dc.getChannelByShardID", "familyIterator.HasNextFamily", "familyIterator.NextFamily",
   "channel.GetOrCreateFamilyChannel", "familyChannel.Write"] := rfl
theorem channelWriteShardCountArg_expected : Generated.C16.channelWriteShardCountArg = "dc.numOfShard.Load()" := rfl
theorem channelWriteChannelLookup_expected : Generated.C16.channelWriteChannelLookup = "dc.getChannelByShardID(shardID)" := rfl
theorem getChannelByShardID_expected : Generated.C16.getChannelByShardIDSrc =
  "ch, ok := dc.shardChannels.value.Load().(shard2Channel)[shardID] ; return ch, ok" := rfl

/-- flat decoder: every row starts from an empty builder and empty histogram scratch slices, whatever
happened to the previous row (accepted, rejected at any point) — the flat counterpart of
`row_independent_of_batch`, which is only correspondence-tested -/
theorem flatResetForNextDecode_expected : Generated.C16.flatResetForNextDecodeSrc =
  "itr.rowBuilder.Reset() ; itr.compoundValues = itr.compoundValues[:0] ; itr.compoundBounds = itr.compoundBounds[:0]" := rfl
theorem flatDecodeToCalls_expected : Generated.C16.flatDecodeToCalls =
  ["itr.resetForNextDecode", "itr.rebuild", "rowBuilder.Build", "row.FromBlock"] := rfl
theorem flatRebuildCalls_expected : Generated.C16.flatRebuildCalls =
  ["rowBuilder.AddTag", "rowBuilder.AddTag", "rowBuilder.AddSimpleField", "append", "append",
   "rowBuilder.AddCompoundFieldData", "rowBuilder.AddCompoundFieldMMSC", "rowBuilder.AddMetricName",
   "rowBuilder.AddTimestamp", "rowBuilder.AddNameSpace"] := rfl

/-! ## line-protocol escaping (format agreement of the influx form) -/

open LinVerif.Escape in
theorem escape_nil (s : List Char) : escape [] s = s := by
  induction s with
  | nil => rfl
  | cons a rest ih => simp [escape, ih]

open LinVerif.Escape in
/-- **influx_unescape_escape**: for EVERY string, the unescape passes of the parser (`,` then blank then `=`
for tag keys, tag values and field keys; `,` then blank for the measurement) undo the conformant escaping. -/
theorem influx_unescape_escape_tag (s : List Char) :
    unescape [',', ' ', '='] (escape [',', ' ', '='] s) = s := by
  simp only [unescape, List.foldl]
  rw [unescapeOne_escape ',' [' ', '='] (by decide) (by decide) (by decide),
    unescapeOne_escape ' ' ['='] (by decide) (by decide) (by decide),
    unescapeOne_escape '=' [] (by decide) (by decide) (by decide), escape_nil]

open LinVerif.Escape in
theorem influx_unescape_escape_name (s : List Char) :
    unescape [',', ' '] (escape [',', ' '] s) = s := by
  simp only [unescape, List.foldl]
  rw [unescapeOne_escape ',' [' '] (by decide) (by decide) (by decide),
    unescapeOne_escape ' ' [] (by decide) (by decide) (by decide), escape_nil]

open LinVerif.Escape in
/-- **influx_scanner_stops_at_structural_delimiter**: for every representable string (every backslash run
directly before one of its delimiter characters, and the run at its end, is even), whatever follows,
walkToUnescapedChar for a delimiter `c` of the position walks over the whole escaped text and stops
exactly at the structural `c` after it. Together with `influx_unescape_escape_*`: the token the
parser extracts and unescapes is the string that was sent. -/
theorem influx_scanner_stops_at_structural_delimiter (c : Char) (ds : List Char)
    (hc : ds.contains c = true) (hbs : ds.contains bs = false) (s tail : List Char)
    (hs : representable ds 0 s = true) :
    splitAtUnescaped c 0 (escape ds s ++ c :: tail) = some (escape ds s, tail) :=
  splitAtUnescaped_escape c ds hc hbs tail s 0 hs

open LinVerif.Escape in
/-- the restriction is necessary: a tag value ending in ONE backslash is not representable — its text
`C:\` followed by the structural comma reads as an escaped comma and the scanner runs on; with TWO
backslashes (`C:\\`) the comma is structural again (the witness of seeded change c16-6). -/
example :
    representable [',', ' ', '='] 0 "C:\\".toList = false ∧
    splitAtUnescaped ',' 0 ("C:\\".toList ++ ",h=a ".toList) = none ∧
    representable [',', ' ', '='] 0 "C:\\\\".toList = true ∧
    splitAtUnescaped ',' 0 (escape [',', ' ', '='] "C:\\\\".toList ++ ",h=a ".toList) = some ("C:\\\\".toList, "h=a ".toList) := by
  decide

/-- the delimiter tables of the parser, in pass order -/
theorem influxTagEscapeCodes_expected : Generated.C16.influxTagEscapeCodes = [',', ' ', '='] := by decide
theorem influxMetricNameEscapeCodes_expected : Generated.C16.influxMetricNameEscapeCodes = [',', ' '] := by decide

/-- `splitAtUnescaped`: a delimiter is escaped iff the backslash run before it (back to the scan start) is odd -/
theorem influxWalkToUnescapedChar_expected : Generated.C16.influxWalkToUnescapedCharSrc =
  "if len(buf) <= startAt { return -1 } ; for { offset := bytes.IndexByte(buf[startAt:], char) if offset < 0 { return -1 } if !isEscaped { return startAt + offset } cursor := offset + startAt for cursor-1 >= startAt && buf[cursor-1] == '\\\\' { cursor-- } if (offset+startAt-cursor)&1 == 1 { startAt += offset + 1 continue } return offset + startAt }" := rfl

/-- `unescape`: one ReplaceAll pass per escape code, nothing else -/
theorem influxUnescapeTag_expected : Generated.C16.influxUnescapeTagSrc =
  "if bytes.IndexByte(in, '\\\\') == -1 { return in } ; for i := range tagEscapeCodes { c := &tagEscapeCodes[i] if bytes.IndexByte(in, c.k[0]) != -1 { in = bytes.ReplaceAll(in, c.esc[:], c.k[:]) } } ; return in" := rfl
theorem influxUnescapeMetricName_expected : Generated.C16.influxUnescapeMetricNameSrc =
  "if bytes.IndexByte(in, '\\\\') == -1 { return in } ; for i := range metricNameEscapeCodes { c := &metricNameEscapeCodes[i] if bytes.IndexByte(in, c.k[0]) != -1 { in = bytes.ReplaceAll(in, c.esc[:], c.k[:]) } } ; return in" := rfl

/-- influx parseField, float branch: a NaN / ±Inf result of ParseFloat is NOT turned into a droppable
"bad field" — it reaches RowBuilder.AddSimpleField, whose NaN/Inf rule (the flat/influx counterpart of
`Err.nanField` / `Err.infField`) rejects the whole line -/
theorem influxParseFieldFloatBranch_expected : Generated.C16.influxParseFieldFloatBranchSrc =
  "v, err := strconv.ParseFloat(lf, 64) ; if err != nil { return nil, ErrBadFields } ; return toLinSimpleField(unescapedKey, v), nil" := rfl

/-! ## the field section of an influx line: rejected as a whole, or every field stored -/

open LinVerif.InfluxField in
/-- **influx_line_rejected_or_every_field_stored**: for a line whose field tokens all have a usable key and
a value that is a literal of a supported type (boolean, integer with i/u suffix, float — the NaN / Inf /
Infinity spellings are floats), under every strconv meeting `StrconvSpec`, every field-count and
field-name limit: the line is rejected as a whole, or EVERY token's fields are stored (in order, reserved
names escaped) and every token contributes at least one field. The drop-and-continue policy of
`parseFields` can only skip tokens that are not literals of any supported type (strings, junk). -/
theorem influx_line_rejected_or_every_field_stored (E : Strconv) (hE : StrconvSpec E)
    (maxFields maxFieldName : Nat) (toks : List (String × String)) (hok : ∀ t ∈ toks, TokenOk E t) :
    lineFields E maxFields maxFieldName toks = .rejected ∨
    (lineFields E maxFields maxFieldName toks =
        .stored ((toks.flatMap (fieldsOf E)).map (fun f => { f with name := sanitizeFieldName f.name })) ∧
      ∀ t ∈ toks, fieldsOf E t ≠ []) := by
  unfold lineFields
  rcases parseFields_all_or_none E hE toks hok with h | ⟨h, hne⟩
  · left; simp [h]
  · simp only [h]
    split_ifs
    · exact Or.inl rfl
    · exact Or.inl rfl
    · exact Or.inl rfl
    · cases hm : (toks.flatMap (fieldsOf E)).mapM addSimpleField with
      | none => exact Or.inl rfl
      | some out =>
        right
        refine ⟨?_, hne⟩
        rw [mapM_addSimpleField _ _ hm]

open LinVerif.InfluxField in
/-- a non-finite float literal invalidates the line: whatever else the line holds -/
theorem influx_non_finite_field_rejects_line (E : Strconv) (maxFields maxFieldName : Nat)
    (pre post : List (String × String)) (k v : String) (x : F)
    (hf : parseField E k v = .fields (toLinSimpleField k x)) (hx : x.isNaN = true ∨ x.isInf = true) :
    lineFields E maxFields maxFieldName (pre ++ (k, v) :: post) = .rejected := by
  have key : ∀ (toks : List (String × String)) (fs : List SField), parseFields E toks = some fs →
      ∀ t ∈ toks, ∀ f ∈ fieldsOf E t, f ∈ fs := by
    intro toks
    induction toks with
    | nil => intro fs _ t ht; simp at ht
    | cons a rest ih =>
      intro fs h t ht f hf'
      obtain ⟨ak, av⟩ := a
      simp only [parseFields] at h
      cases hp : parseField E ak av with
      | rejectLine => simp [hp] at h
      | drop =>
        simp only [hp] at h
        rcases List.mem_cons.1 ht with rfl | ht'
        · simp [fieldsOf, hp] at hf'
        · exact ih fs h t ht' f hf'
      | fields afs =>
        simp only [hp] at h
        cases hr : parseFields E rest with
        | none => simp [hr] at h
        | some r =>
          simp only [hr, Option.map_some, Option.some.injEq] at h
          subst h
          rcases List.mem_cons.1 ht with rfl | ht'
          · simp only [fieldsOf, hp] at hf'
            exact List.mem_append_left _ hf'
          · exact List.mem_append_right _ (ih r hr t ht' f hf')
  unfold lineFields
  cases hp : parseFields E (pre ++ (k, v) :: post) with
  | none => rfl
  | some fs =>
    simp only
    have hmem : ∀ f ∈ toLinSimpleField k x, f ∈ fs := by
      intro f hfm
      exact key _ fs hp (k, v) (by simp) f (by simpa [fieldsOf, hf] using hfm)
    have hbad : ∀ f ∈ toLinSimpleField k x, addSimpleField f = none := by
      intro f hfm
      have hv : f.value = x := by
        unfold toLinSimpleField at hfm
        split_ifs at hfm <;> simp at hfm <;> (try rcases hfm with rfl | rfl) <;> (try subst hfm) <;> rfl
      unfold addSimpleField
      rcases hx with hx | hx <;> simp [hv, hx]
    obtain ⟨f0, hf0⟩ := List.exists_mem_of_ne_nil _ (toLinSimpleField_ne_nil k x)
    have hnone : fs.mapM addSimpleField = none := by
      cases hm : fs.mapM addSimpleField with
      | none => rfl
      | some out =>
        exfalso
        have hall : ∀ f ∈ fs, ∃ g, addSimpleField f = some g := by
          clear hp hmem
          induction fs generalizing out with
          | nil => intro f hf'; simp at hf'
          | cons a rest ih =>
            intro f hf'
            simp only [List.mapM_cons, Option.bind_eq_bind] at hm
            cases ha : addSimpleField a with
            | none => simp [ha] at hm
            | some g =>
              cases hr : rest.mapM addSimpleField with
              | none => simp [ha, hr] at hm
              | some r =>
                rcases List.mem_cons.1 hf' with rfl | hf''
                · exact ⟨g, ha⟩
                · exact ih r hr f hf''
        obtain ⟨g, hg⟩ := hall f0 (hmem f0 hf0)
        rw [hbad f0 hf0] at hg
        cases hg
    split_ifs <;> simp [hnone]

/-- the classification `parseField` / `toLinSimpleField` / `parseFields` mirror -/
theorem influxParseField_expected : Generated.C16.influxParseFieldSrc =
  "if len(value) == 0 { return nil, ErrBadFields } ; unescapedKey := unescapeTag(key) ; if len(unescapedKey) == 0 { return nil, ErrBadFields } ; if len(bytes.TrimSpace(unescapedKey)) == 0 { return nil, ErrBadFields } ; tail := value[len(value)-1] ; switch tail { case 'i', 'I', 'u', 'U': v, err := strconv.ParseInt(strutil.ByteSlice2String(value[0:len(value)-1]), 10, 64) if err != nil { return nil, ErrBadFields } return toLinSimpleField(unescapedKey, float64(v)), nil case 't', 'T': if len(value) == 1 { return []flatSimpleField{{ Name: unescapedKey, Type: flatMetricsV1.SimpleFieldTypeLast, Value: float64(1), }}, nil } return nil, ErrBadFields case 'f', 'F': if len(value) == 1 { return []flatSimpleField{{ Name: unescapedKey, Type: flatMetricsV1.SimpleFieldTypeLast, Value: float64(0), }}, nil } if v, err := strconv.ParseFloat(strutil.ByteSlice2String(value), 64); err == nil && math.IsInf(v, 0) { return nil, ErrInfField } return nil, ErrBadFields default: lf := strutil.ByteSlice2String(value) switch lf { case \"false\", \"False\", \"FALSE\": return []flatSimpleField{{ Name: unescapedKey, Type: flatMetricsV1.SimpleFieldTypeLast, Value: float64(0), }}, nil case \"true\", \"True\", \"TRUE\": return []flatSimpleField{{ Name: unescapedKey, Type: flatMetricsV1.SimpleFieldTypeLast, Value: float64(1), }}, nil default: v, err := strconv.ParseFloat(lf, 64) if err != nil { return nil, ErrBadFields } return toLinSimpleField(unescapedKey, v), nil } }" := rfl

theorem influxToLinSimpleField_expected : Generated.C16.influxToLinSimpleFieldSrc =
  "switch { case bytes.HasSuffix(key, []byte(\"last\")): return []flatSimpleField{{ Name: key, Type: flatMetricsV1.SimpleFieldTypeLast, Value: value, }} case bytes.HasSuffix(key, []byte(\"first\")): return []flatSimpleField{{ Name: key, Type: flatMetricsV1.SimpleFieldTypeFirst, Value: value, }} case bytes.HasSuffix(key, []byte(\"sum\")): return []flatSimpleField{{ Name: key, Type: flatMetricsV1.SimpleFieldTypeDeltaSum, Value: value, }} default: return []flatSimpleField{ { Name: []byte(string(key) + \"_sum\"), Type: flatMetricsV1.SimpleFieldTypeDeltaSum, Value: value, }, { Name: []byte(string(key) + \"_last\"), Type: flatMetricsV1.SimpleFieldTypeLast, Value: value, }, } }" := rfl

theorem influxParseFields_expected : Generated.C16.influxParseFieldsSrc =
  "WalkBeforeComma: { if startAt >= endAt-1 { if len(fields) == 0 { return fields, ErrBadFields } return fields, nil } commaAt := walkToUnescapedChar(buf, ',', startAt, isEscaped) equalAt := walkToUnescapedChar(buf, '=', startAt, isEscaped) if equalAt <= startAt || equalAt+1 >= endAt { return fields, ErrBadFields } boundaryAt := endAt if commaAt > 0 && commaAt <= endAt { boundaryAt = commaAt } if equalAt+1 >= boundaryAt { return fields, ErrBadFields } // move to next field pair var ( parsedFields []flatSimpleField ) parsedFields, err = parseField(buf[startAt:equalAt], buf[equalAt+1:boundaryAt]) switch { case err == nil: fields = append(fields, parsedFields...) case errors.Is(err, ErrInfField): return nil, err default: influxIngestionStatistics.DroppedFields.Incr() } startAt = boundaryAt + 1 goto WalkBeforeComma }" := rfl

/-- the pooled batch object: `PBatch.reset`, `PBatch.tryAppend`, `PBatch.rows` -/
theorem batchReset_expected : Generated.C16.batchResetSrc = "br.rowCount = 0" := rfl
theorem batchTryAppend_expected : Generated.C16.batchTryAppendSrc =
  "if len(br.rows) <= br.rowCount { br.rows = append(br.rows, BrokerRow{}) } ; br.rows[br.rowCount].IsOutOfTimeRange = false ; if err := appendFunc(&br.rows[br.rowCount]); err != nil { return err } ; br.rowCount++ ; return nil" := rfl
theorem batchRows_expected : Generated.C16.batchRowsSrc = "return br.rows[:br.rowCount]" := rfl
theorem batchLen_expected : Generated.C16.batchLenSrc = "return br.rowCount" := rfl
theorem batchRelease_expected : Generated.C16.batchReleaseSrc = "brokerBatchRowsPool.Put(br)" := rfl
theorem fromBlock_expected : Generated.C16.fromBlockSrc =
  "row.buffer = encoding.MustCopy(row.buffer, block) ; size := flatbuffers.GetSizePrefix(row.buffer, 0) ; partition := row.buffer[flatbuffers.SizeUOffsetT : flatbuffers.SizeUOffsetT+size] ; row.m.Init(partition, flatbuffers.GetUOffsetT(partition))" := rfl

/-- The variant of KeyValues.Less the code has selects the variant of `less` the driver runs
(`Generated.C16.lessTieBreakOnValue`); the variant of the append path selects `appendAll`'s `clears`
(`Generated.C16.appendClearsMark`). The theorems above hold for both values of both flags; the
negations below are about the value `false` of each. -/
theorem less_variant_known : Generated.C16.lessTieBreakOnValue = true ∨ Generated.C16.lessTieBreakOnValue = false := by
  cases Generated.C16.lessTieBreakOnValue <;> simp

/-! ## the family iterator: fast path ≡ slow path -/

/-- **family_fast_path_equiv_slow_path**: `BrokerBatchShardFamilyIterator.reset` takes a fast path when
`isSameFamily` says every row lies in the first row's family, and otherwise sorts by timestamp and scans.
For EVERY shard group (any rows, any order), every conforming sort and calculator, the groups the iterator
hands out are the groups the slow path alone (`familyGroupsSlow`: always sort, always scan) would hand out:
the same family times in the same order, the same rows in each group up to order. So the fast path is an
optimisation only — it can neither merge two families nor route a row to another family. -/
theorem family_fast_path_equiv_slow_path (C : Calc) (hC : CalcSpec C) {sortTs : List BRow → List BRow}
    (hst : SortSpec lessTs sortTs) (l : List BRow) :
    List.Forall₂ (fun g g' => g.1 = g'.1 ∧ g.2.Perm g'.2)
      (familyGroups C sortTs l) (familyGroupsSlow C sortTs l) :=
  familyGroups_fast_slow C hC hst l

/-! ## the flat path: pooled decoder + RowBuilder refine a function of the row; agreement with protobuf -/

open LinVerif.FlatRow in
/-- **flat_decode_refines_spec** (refinement, for EVERY state of the pooled decoder and of its RowBuilder —
slots beyond the counters, histogram scratch slices, name / namespace / timestamp / mmsc left by any
earlier row, accepted or rejected at any point of `rebuild`): what `DecodeTo` hands to `FromBlock`, or the
error `TryAppend` sees, is `flatSpec` of the row — the rules of `rebuild` and `Build` in source order, and
the stored row. For every sort, every hash, every limit set. -/
theorem flat_decode_refines_spec (fc : FCfg) (sortK : List Tag → List Tag) (H : String → Nat) (d : Dec) (r : FRow) :
    (decodeTo fc sortK H d r).2 = flatSpec fc sortK H r :=
  decodeTo_result fc sortK H d r

open LinVerif.FlatRow in
/-- **flat_stream_no_state_leak** (histories): a request of any length through ONE decoder, whatever the
pool handed out (`d`, `d'` arbitrary), gives row by row what a brand-new decoder gives for that row alone.
No state leaks between rows of a request nor between requests. -/
theorem flat_stream_no_state_leak (fc : FCfg) (sortK : List Tag → List Tag) (H : String → Nat)
    (d d' : Dec) (rows : List FRow) :
    (decodeStream fc sortK H d rows).2 = (decodeStream fc sortK H d' rows).2 ∧
    (decodeStream fc sortK H d rows).2 = rows.map (fun r => (decodeTo fc sortK H Dec.fresh r).2) := by
  refine ⟨by rw [decodeStream_result, decodeStream_result], ?_⟩
  rw [decodeStream_result]
  apply List.map_congr_left
  intro r _
  exact (decodeTo_result fc sortK H Dec.fresh r).symm

open LinVerif.FlatRow in
/-- **flat_row_independent_of_stream**: the verdict and the stored form of a row do not depend on the rows
before or after it in the stream (the flat counterpart of `row_independent_of_batch`; a rejected row changes
nothing for the others — "rejected as a whole") -/
theorem flat_row_independent_of_stream (fc : FCfg) (sortK : List Tag → List Tag) (H : String → Nat)
    (d : Dec) (pre post : List FRow) (r : FRow) :
    (decodeStream fc sortK H d (pre ++ r :: post)).2 =
      (decodeStream fc sortK H d pre).2 ++ (decodeTo fc sortK H Dec.fresh r).2 ::
        (decodeStream fc sortK H Dec.fresh post).2 := by
  simp only [decodeStream_result, decodeTo_result, List.map_append, List.map_cons]

open LinVerif.FlatRow in
/-- **flat_accepted_iff_valid**: a flat row is stored iff no rule of `ValidFlat` fails — the exact
characterisation of rejection on the flat path, for every decoder state -/
theorem flat_accepted_iff_valid (fc : FCfg) (sortK : List Tag → List Tag) (H : String → Nat) (d : Dec) (r : FRow) :
    (∃ s, (decodeTo fc sortK H d r).2 = .ok s) ↔ ValidFlat fc r := by
  rw [decodeTo_result]
  constructor
  · rintro ⟨s, h⟩
    exact (valid_of_flatSpec fc sortK H r s h).1
  · intro h
    exact ⟨_, flatSpec_of_valid fc sortK H r h⟩

open LinVerif.FlatRow in
/-- **flat_canonical**: an accepted flat row is stored with strictly increasing tag keys, only pairs that
were sent (row or enriched), every sent key; name / namespace sanitized (the row's namespace, the request's
when the row has none), timestamp (0 ↦ now), fields in order with values and raw types untouched, reserved
names escaped; tags hash = hash of the stored tags; name hash = hash of namespace ++ name. For every
conforming sort (keys-only order), every hash. -/
theorem flat_canonical (fc : FCfg) {sortK : List Tag → List Tag} (hK : SortSpec (less false) sortK)
    (H : String → Nat) (d : Dec) (r : FRow) (s : Stored) (h : (decodeTo fc sortK H d r).2 = .ok s) :
    s.tags.Pairwise (fun a b => a.key < b.key) ∧
    (∀ t ∈ s.tags, t ∈ r.tags ∨ t ∈ fc.c.enriched) ∧
    (∀ t, (t ∈ r.tags ∨ t ∈ fc.c.enriched) → ∃ t' ∈ s.tags, t'.key = t.key) ∧
    s.name = sanitizeName r.name ∧ s.ns = sanitizeName (nsOf fc r) ∧
    s.ts = (if r.ts = 0 then fc.c.now else r.ts) ∧
    s.fields = r.fields.map (fun f => { f with name := sanitizeFieldName f.name }) ∧
    s.compound = compoundOf r.compound ∧
    s.hash = H (concatKVs s.tags) ∧ s.nameHash = H (s.ns ++ s.name) := by
  rw [decodeTo_result] at h
  obtain ⟨_, rfl⟩ := valid_of_flatSpec fc sortK H r s h
  obtain ⟨p1, p2, p3⟩ := flatDedup_props hK (r.tags ++ fc.c.enriched)
  refine ⟨p1, fun t ht => List.mem_append.1 (p2 t ht), fun t ht => p3 t (List.mem_append.2 ht),
    rfl, rfl, rfl, rfl, rfl, rfl, rfl⟩

open LinVerif.FlatRow in
/-- **flat_proto_agree** ("a row is stored iff valid, identically across formats"): for a metric without nil
entries, sent as protobuf and as a raw flat row, under the hypotheses `Agree` (each one names a recorded
difference between the two validators — see its docstring), for every pair of conforming sorts (protobuf:
key-then-value order, RowBuilder: keys only), every hash and every state of the pooled decoder: both paths
reject, or both accept and store THE SAME row (name, namespace, timestamp, tags, fields, histogram, tags
hash, name hash). Partial in one respect: the equivalence of the two histogram rule sets is a hypothesis
(`Agree.compound_agree`), refuted outside it by `Neg.two_bucket_histogram_formats_disagree` and
`Neg.nan_bucket_value_formats_disagree`. -/
theorem flat_proto_agree (c : Cfg) (maxNs : Nat) {sortP sortK : List Tag → List Tag}
    (hP : SortSpec (less true) sortP) (hK : SortSpec (less false) sortK) (H : String → Nat)
    (m : PMetric) (ts : List Tag) (fs : List SField) (ha : Agree c maxNs m ts fs) (d : Dec) :
    (convert true sortP H c (some m)).toOption =
      (decodeTo ⟨c, maxNs⟩ sortK H d (flatOf m ts fs)).2.toOption := by
  rw [decodeTo_result]
  by_cases hv : Valid c m
  · rw [flatSpec_of_valid _ sortK H _ ((valid_iff_validFlat ha).1 hv)]
    simp only [convert, validate_of_valid c m hv, build_eq_flatStored ha hv hP hK H]
    rfl
  · have h1 : ∃ e, convert true sortP H c (some m) = .error e := by
      unfold convert
      cases hv' : validate c (some m) with
      | error e => exact ⟨e, rfl⟩
      | ok v => exact absurd (valid_of_validate c m v hv').1 hv
    obtain ⟨e, he⟩ := h1
    rw [he]
    cases hf : flatSpec ⟨c, maxNs⟩ sortK H (flatOf m ts fs) with
    | error e' => rfl
    | ok s =>
      exact absurd ((valid_iff_validFlat ha).2 (valid_of_flatSpec _ sortK H _ s hf).1) hv

/-! ## ties of the flat-path model (row_flat_decoder.go, row_readonly.go, lindb/common RowBuilder) -/

/-- `FlatRow.rebuildA` / `rebuildB`: every limit check, loop and builder call of BrokerRowFlatDecoder.rebuild, in order -/
theorem flatRebuildSrc_expected : Generated.C16.flatRebuildSrc =
  "if itr.limits.EnableTagsCheck() && itr.originRow.TagsLen()+len(itr.enrichedTags) > itr.limits.MaxTagsPerMetric { return constants.ErrTooManyTagKeys } ; kvItr := itr.originRow.NewKeyValueIterator() ; for kvItr.HasNext() { tagKey := kvItr.NextKey() if itr.limits.EnableTagNameLengthCheck() && len(tagKey) > itr.limits.MaxTagNameLength { return constants.ErrTagKeyTooLong } tagValue := kvItr.NextValue() if itr.limits.EnableTagValueLengthCheck() && len(tagValue) > itr.limits.MaxTagValueLength { return constants.ErrTagValueTooLong } if err := itr.rowBuilder.AddTag(tagKey, tagValue); err != nil { return err } } ; if len(itr.enrichedTags) > 0 { for i := 0; i < len(itr.enrichedTags); i++ { if err := itr.rowBuilder.AddTag(itr.enrichedTags[i].Key, itr.enrichedTags[i].Value); err != nil { return err } } } ; if itr.limits.EnableFieldsCheck() && itr.originRow.SimpleFieldsLen() > itr.limits.MaxFieldsPerMetric { return constants.ErrTooManyFields } ; simpleFieldItr := itr.originRow.NewSimpleFieldIterator() ; for simpleFieldItr.HasNext() { fieldName := simpleFieldItr.NextRawName() if itr.limits.EnableFieldNameLengthCheck() && len(fieldName) > itr.limits.MaxFieldNameLength { return constants.ErrFieldNameTooLong } if err := itr.rowBuilder.AddSimpleField( simpleFieldItr.NextRawName(), simpleFieldItr.NextRawType(), simpleFieldItr.NextValue(), ); err != nil { return err } } ; compoundFieldItr, ok := itr.originRow.NewCompoundFieldIterator() ; if !ok { goto End } ; for compoundFieldItr.HasNextBucket() { itr.compoundBounds = append(itr.compoundBounds, compoundFieldItr.NextExplicitBound()) itr.compoundValues = append(itr.compoundValues, compoundFieldItr.NextValue()) } ; if err := itr.rowBuilder.AddCompoundFieldData(itr.compoundValues, itr.compoundBounds); err != nil { return err } ; if err := itr.rowBuilder.AddCompoundFieldMMSC( compoundFieldItr.Min(), compoundFieldItr.Max(), compoundFieldItr.Sum(), compoundFieldItr.Count(), ); err != nil { return err } ; End: metricName := itr.originRow.Name() ; if itr.limits.EnableMetricNameLengthCheck() && len(metricName) > itr.limits.MaxMetricNameLength { return constants.ErrMetricNameTooLong } ; itr.rowBuilder.AddMetricName(metricName) ; itr.rowBuilder.AddTimestamp(itr.originRow.Timestamp()) ; ns := itr.originRow.m.Namespace() ; if len(ns) == 0 { ns = itr.namespace } ; if itr.limits.EnableNamespaceLengthCheck() && len(ns) > itr.limits.MaxNamespaceLength { return constants.ErrNamespaceTooLong } ; itr.rowBuilder.AddNameSpace(ns) ; return nil" := rfl

/-- `FlatRow.decodeTo`: reset first, rebuild, Build, FromBlock -/
theorem flatDecodeToSrc_expected : Generated.C16.flatDecodeToSrc =
  "itr.resetForNextDecode() ; if itr.size <= 0 || itr.size > maxRowLength { return fmt.Errorf(\"invalid flat row length: %d\", itr.size) } ; if itr.size > cap(itr.buf) { itr.buf = make([]byte, itr.size) } ; itr.buf = itr.buf[0:itr.size] ; n, err := io.ReadFull(itr.reader, itr.buf) ; if n != itr.size || err != nil { return fmt.Errorf(\"expect length: %d, read length: %d\", itr.size, n) } ; itr.readLen += n ; itr.originRow.m.Init(itr.buf, flatbuffers.GetUOffsetT(itr.buf)) ; if err0 := itr.rebuild(); err0 != nil { return err0 } ; data, err := itr.rowBuilder.Build() ; if err != nil { return err } ; row.FromBlock(data) ; return nil" := rfl

/-- `FlatRow.bucketsOf`: the bucket count is min(len bounds, len values) -/
theorem newCompoundFieldIteratorSrc_expected : Generated.C16.newCompoundFieldIteratorSrc =
  "mr.compoundFieldIterator.idx = -1 ; mr.compoundFieldIterator.m = &mr.m ; if obj := mr.m.CompoundField(&mr.compoundFieldIterator.f); obj == nil { return nil, false } ; mr.compoundFieldIterator.num = mr.compoundFieldIterator.f.ExplicitBoundsLength() ; if mr.compoundFieldIterator.f.ValuesLength() < mr.compoundFieldIterator.num { mr.compoundFieldIterator.num = mr.compoundFieldIterator.f.ValuesLength() } ; return &mr.compoundFieldIterator, true" := rfl

/-- the RowBuilder modelled in `Model/FlatRow.lean` is the one of this pinned version of github.com/lindb/common -/
theorem lindbCommonVersion_expected : Generated.C16.lindbCommonVersion =
  "v0.0.6" := rfl

/-- `RB.reset`: counters zeroed, slices truncated, mmsc zeroed — slots beyond the counters keep their contents -/
theorem rowBuilderResetSrc_expected : Generated.C16.rowBuilderResetSrc =
  "rb.flatBuilder.Reset() ; rb.metricName = rb.metricName[:0] ; rb.nameSpace = rb.nameSpace[:0] ; rb.timestamp = 0 ; rb.rowKVs.kvCount = 0 ; rb.simpleFieldCount = 0 ; rb.exemplarFieldCount = 0 ; rb.compoundFieldValues = rb.compoundFieldValues[:0] ; rb.compoundFieldExplicitValues = rb.compoundFieldExplicitValues[:0] ; rb.compoundFieldMin = 0 ; rb.compoundFieldMax = 0 ; rb.compoundFieldSum = 0 ; rb.compoundFieldCount = 0 ; rb.keys = rb.keys[:0] ; rb.values = rb.values[:0] ; rb.kvs = rb.kvs[:0] ; rb.fieldNames = rb.fieldNames[:0] ; rb.fields = rb.fields[:0] ; rb.exemplarNames = rb.exemplarNames[:0] ; rb.exemplarTraces = rb.exemplarTraces[:0] ; rb.exemplarSpans = rb.exemplarSpans[:0] ; rb.exemplars = rb.exemplars[:0]" := rfl

/-- `RB.addTag` -/
theorem rowBuilderAddTagSrc_expected : Generated.C16.rowBuilderAddTagSrc =
  "if len(key) == 0 || len(value) == 0 { return fmt.Errorf(\"tag[%s: %s] is empty\", string(key), string(value)) } ; rb.rowKVs.kvCount++ ; if rb.rowKVs.kvCount > len(rb.rowKVs.kvs) { rb.rowKVs.kvs = append(rb.rowKVs.kvs, rowKV{}) } ; kvIdx := rb.rowKVs.kvCount - 1 ; rb.rowKVs.kvs[kvIdx].key = append(rb.rowKVs.kvs[kvIdx].key[:0], key...) ; rb.rowKVs.kvs[kvIdx].value = append(rb.rowKVs.kvs[kvIdx].value[:0], value...) ; return nil" := rfl

/-- `simpleFieldErr` / `RB.addSimpleField`: type, Inf, NaN, empty name — in this order; reserved names escaped -/
theorem rowBuilderAddSimpleFieldSrc_expected : Generated.C16.rowBuilderAddSimpleFieldSrc =
  "if fieldType == flatMetricsV1.SimpleFieldTypeUnSpecified { return fmt.Errorf(\"flat field type is unspecified\") } ; if math.IsInf(fieldValue, 0) { return fmt.Errorf(\"fieldValue is Inf :%f\", fieldValue) } ; if math.IsNaN(fieldValue) { return fmt.Errorf(\"fieldValue is NaN :%f\", fieldValue) } ; if len(fieldName) == 0 { return fmt.Errorf(\"fieldName is empty\") } ; if ShouldSanitizeFieldName(fieldName) { fieldName = SanitizeFieldName(fieldName) } ; rb.simpleFieldCount++ ; if rb.simpleFieldCount > len(rb.simpleFields) { rb.simpleFields = append(rb.simpleFields, rowSimpleField{}) } ; sfIdx := rb.simpleFieldCount - 1 ; rb.simpleFields[sfIdx].name = append(rb.simpleFields[sfIdx].name[:0], fieldName...) ; rb.simpleFields[sfIdx].fType = fieldType ; rb.simpleFields[sfIdx].value = fieldValue ; return nil" := rfl

/-- `bucketsErr` / `RB.addCompoundData` -/
theorem rowBuilderAddCompoundFieldDataSrc_expected : Generated.C16.rowBuilderAddCompoundFieldDataSrc =
  "if len(values) != len(bounds) { return fmt.Errorf(\"values's length: %d != explicit-bounds's length: %d\", len(values), len(bounds), ) } ; if len(values) < 2 { return fmt.Errorf(\"compound buckets: %d less than 2\", len(values)) } ; for idx := 1; idx < len(bounds); idx++ { if bounds[idx] < bounds[idx-1] { return fmt.Errorf(\"compound explicit bound is not increasing\") } } ; if !math.IsInf(bounds[len(bounds)-1], 1) { return fmt.Errorf(\"compound last explicit bound: %f is not +Inf\", bounds[len(bounds)-1]) } ; if bounds[0] < 0 { return fmt.Errorf(\"compound first explicit bound: %f < 0\", bounds[0]) } ; for _, v := range values { if math.IsInf(v, 0) { return fmt.Errorf(\"compound value contains Inf: %f\", v) } if v < 0 { return fmt.Errorf(\"compound value less than zero: %f\", v) } if math.IsNaN(v) { return fmt.Errorf(\"compound value contains NaN: %f\", v) } } ; rb.compoundFieldValues = append(rb.compoundFieldValues[:0], values...) ; rb.compoundFieldExplicitValues = append(rb.compoundFieldExplicitValues[:0], bounds...) ; return nil" := rfl

/-- `RB.addMMSC`: assign, then check -/
theorem rowBuilderAddCompoundFieldMMSCSrc_expected : Generated.C16.rowBuilderAddCompoundFieldMMSCSrc =
  "rb.compoundFieldMin = min ; rb.compoundFieldMax = max ; rb.compoundFieldSum = sum ; rb.compoundFieldCount = count ; if !(min >= 0 && max >= 0 && sum >= 0 && count >= 0) { return fmt.Errorf(\"min: %f, max: %f, sum: %f, count: %f should >= 0\", min, max, sum, count) } ; return nil" := rfl

/-- `RB.addMetricName` -/
theorem rowBuilderAddMetricNameSrc_expected : Generated.C16.rowBuilderAddMetricNameSrc =
  "if ShouldSanitizeNamespaceOrMetricName(metricName) { metricName = SanitizeNamespaceOrMetricName(metricName) } ; rb.metricName = append(rb.metricName[:0], metricName...)" := rfl

/-- `RB.addNameSpace` -/
theorem rowBuilderAddNameSpaceSrc_expected : Generated.C16.rowBuilderAddNameSpaceSrc =
  "if ShouldSanitizeNamespaceOrMetricName(namespace) { namespace = SanitizeNamespaceOrMetricName(namespace) } ; rb.nameSpace = append(rb.nameSpace[:0], namespace...)" := rfl

/-- `flatDedup`: sort only when not sorted, de-duplicate only when two neighbours share a key, keep the last of a run -/
theorem rowBuilderDedupSrc_expected : Generated.C16.rowBuilderDedupSrc =
  "if rb.rowKVs.kvCount < 2 { return rb._xxHashOfKVs() } ; if !sort.IsSorted(rb.rowKVs) { sort.Sort(rb.rowKVs) } ; shouldDeDup := false ; for cursor := 1; cursor < rb.rowKVs.kvCount; cursor++ { if bytes.Equal(rb.rowKVs.kvs[cursor].key, rb.rowKVs.kvs[cursor-1].key) { shouldDeDup = true break } } ; if !shouldDeDup { return rb._xxHashOfKVs() } ; slow := 0 ; for high := 1; high < rb.rowKVs.kvCount; high++ { if !bytes.Equal(rb.rowKVs.kvs[slow].key, rb.rowKVs.kvs[high].key) { slow++ } rb.rowKVs.kvs[slow].value = append(rb.rowKVs.kvs[slow].value[:0], rb.rowKVs.kvs[high].value...) rb.rowKVs.kvs[slow].key = append(rb.rowKVs.kvs[slow].key[:0], rb.rowKVs.kvs[high].key...) } ; rb.rowKVs.kvCount = slow + 1 ; return rb._xxHashOfKVs()" := rfl

/-- the RowBuilder orders tags by KEY ONLY (`less false`) -/
theorem rowKVsLessSrc_expected : Generated.C16.rowKVsLessSrc =
  "return bytes.Compare(items.kvs[i].key, items.kvs[j].key) < 0" := rfl

/-- the limit rules of `rebuild` (`errA` / `errB`), in source order -/
theorem flatRebuildRules_expected : Generated.C16.flatRebuildRules = [
  ("itr.limits.EnableTagsCheck() && itr.originRow.TagsLen()+len(itr.enrichedTags) > itr.limits.MaxTagsPerMetric", "constants.ErrTooManyTagKeys"),
  ("itr.limits.EnableTagNameLengthCheck() && len(tagKey) > itr.limits.MaxTagNameLength", "constants.ErrTagKeyTooLong"),
  ("itr.limits.EnableTagValueLengthCheck() && len(tagValue) > itr.limits.MaxTagValueLength", "constants.ErrTagValueTooLong"),
  ("itr.limits.EnableFieldsCheck() && itr.originRow.SimpleFieldsLen() > itr.limits.MaxFieldsPerMetric", "constants.ErrTooManyFields"),
  ("itr.limits.EnableFieldNameLengthCheck() && len(fieldName) > itr.limits.MaxFieldNameLength", "constants.ErrFieldNameTooLong"),
  ("itr.limits.EnableMetricNameLengthCheck() && len(metricName) > itr.limits.MaxMetricNameLength", "constants.ErrMetricNameTooLong"),
  ("itr.limits.EnableNamespaceLengthCheck() && len(ns) > itr.limits.MaxNamespaceLength", "constants.ErrNamespaceTooLong")] := rfl

/-- the two rules of RowBuilder.Build (`RB.build`) -/
theorem rowBuilderBuildRules_expected : Generated.C16.rowBuilderBuildRules = [
  ("len(rb.metricName) == 0", "fmt.Errorf(\"metric-name is empty\")"),
  ("rb.simpleFieldCount == 0 && len(rb.compoundFieldValues) == 0", "fmt.Errorf(\"simple field and compound field are both empty\")")] := rfl

/-! ## non-vacuity -/

def lim0 : Limits := ⟨256, 128, 128, 1024, 32, 256⟩
def cfg0 : Cfg := ⟨lim0, "", [], 1000⟩
def m0 : PMetric :=
  ⟨"cpu|load", "ns", 0, [some ⟨"host", "h1"⟩, some ⟨"dc", "eu"⟩, some ⟨"dc", "eu"⟩],
   [some ⟨"HistogramX", 2, .num 3⟩], none⟩

/-- the hypotheses of `canonical` / `order_independent` are satisfiable by a metric with a
sanitized name, a defaulted timestamp, a repeated (consistent) key and a reserved field name -/
example : convert false (insertionSort (less false)) (fun s => s.length) cfg0 (some m0) =
    .ok ⟨"cpu_load", "ns", 1000, [⟨"dc", "eu"⟩, ⟨"host", "h1"⟩], [⟨"_HistogramX", 2, .num 3⟩], none, 13, 10⟩ := by
  decide

example : Consistent (sentTags cfg0 m0) := by
  intro a ha b hb hk
  simp [sentTags, cfg0, m0] at ha hb
  rcases ha with rfl | rfl <;> rcases hb with rfl | rfl <;> simp_all

example : SortSpec (less false) (insertionSort (less false)) := insertionSort_less_spec false
example : CalcSpec dayCalc := dayCalc_spec
example : CalcSpec monthCalc := monthCalc_spec

/-- the hypotheses of `partition` / `groups_distinct` / `evict_exact_written` are satisfiable:
conforming sorts for both batch orders, a jump function below the shard count -/
theorem lessShard_sort_spec : SortSpec lessShard (insertionSort lessShard) :=
  insertionSort_spec lessShard
    (fun a b c h1 h2 => by simp only [lessShard, decide_eq_false_iff_not, Nat.not_lt] at *; omega)
    (fun a b h => by simp only [lessShard, decide_eq_true_eq, decide_eq_false_iff_not, Nat.not_lt] at *; omega)

theorem lessTs_sort_spec : SortSpec lessTs (insertionSort lessTs) :=
  insertionSort_spec lessTs
    (fun a b c h1 h2 => by simp only [lessTs, decide_eq_false_iff_not, Int.not_lt] at *; omega)
    (fun a b h => by simp only [lessTs, decide_eq_true_eq, decide_eq_false_iff_not, Int.not_lt] at *; omega)

example : ∀ k, (fun k n => k % n) k 7 < 7 := fun k => Nat.mod_lt k (by decide)

/-- a concrete batch: two rows of one series in two hours, one row of another series; 4 shards -/
example :
    let rows := appendAll false [] [⟨"r0", "ns", 3600000, [], [], none, 5, 0⟩, ⟨"r1", "ns", 10, [], [], none, 5, 0⟩,
      ⟨"r2", "ns", 20, [], [], none, 6, 0⟩]
    (route (fun k n => k % n) dayCalc (insertionSort lessShard) (insertionSort lessTs) 4 rows).map
      (fun g => (g.shard, g.famTime, g.rows.map (fun r => r.id))) = [(1, 0, [1]), (1, 3600000, [0]), (2, 0, [2])] := by
  simp [route, runs, familyGroups, appendAll, appendAll.go, assignShards, insertionSort, insertionSort.insertSortedL,
    lessShard, lessTs, sameShard, inFamilyOf, contains, dayCalc, oneDay, oneHour]

/-- the flat theorems are about a non-trivial machine: a decoder left dirty by an earlier histogram row
(scratch slices, builder slots, mmsc) decodes a row with a repeated key and a reserved field name exactly as
a brand-new one does, and accepts it -/
def dirtyDec : FlatRow.Dec :=
  ⟨⟨"old", "oldns", 7, [⟨"z", "1"⟩], [⟨"y", "2"⟩], [⟨"f", 1, .num 1⟩], [], [.num 1, .num 2], [.num 1, .pinf],
    .num 1, .num 2, .num 3, .num 4⟩, [.num 9], [.pinf]⟩
def row0 : FlatRow.FRow :=
  ⟨"cpu|load", "", 0, [⟨"host", "h1"⟩, ⟨"dc", "eu"⟩, ⟨"dc", "eu"⟩], [⟨"HistogramX", 2, .num 3⟩],
   some ⟨.num 0, .num 5, .num 6, .num 3, [.num 1, .num 1, .num 1], [.num 1, .num 2, .pinf]⟩⟩
example :
    (FlatRow.decodeTo ⟨cfg0, 256⟩ (insertionSort (less false)) (fun s => s.length) dirtyDec row0).2 =
      (FlatRow.decodeTo ⟨cfg0, 256⟩ (insertionSort (less false)) (fun s => s.length) FlatRow.Dec.fresh row0).2 ∧
    (FlatRow.decodeTo ⟨cfg0, 256⟩ (insertionSort (less false)) (fun s => s.length) dirtyDec row0).2.toOption.isSome = true := by
  decide

/-! ## the stored identity is a function of the stored spelling — in every format -/

section identity
open LinVerif.C16Ident LinVerif.FlatRow

/-- **proto_identity_of_stored_spelling**: whichever of the SOUND placements of the sanitiser the protobuf
converter uses (in place in validateMetric; or at both uses of the string), an accepted metric is stored
under the sanitised name and namespace — neither contains the storage delimiter '|' — and its NameHash is
the hash of exactly those two stored strings. For every metric, request namespace, hash, sort. -/
theorem proto_identity_of_stored_spelling (fn fs : NameFlow) (hn : fn.sound = true) (hs : fs.sound = true)
    (tb : Bool) (sort : List Tag → List Tag) (H : String → Nat) (c : Cfg) (m : PMetric) (s : Stored)
    (h : convertF fn fs tb sort H c (some m) = .ok s) :
    s.name = sanitizeName m.name ∧ s.ns = sanitizeName (rawNs c m) ∧
    s.nameHash = H (s.ns ++ s.name) ∧ '|' ∉ s.name.toList ∧ '|' ∉ s.ns.toList := by
  simp only [convertF] at h
  cases hv : validate c (some m) with
  | error e => rw [hv] at h; cases h
  | ok v =>
    rw [hv] at h
    have e := (Except.ok.inj h).symm
    subst e
    have h1 := stored_of_sound fn hn m.name
    have h2 := stored_of_sound fs hs (rawNs c m)
    refine ⟨h1, h2, ?_, ?_, ?_⟩
    · show H (fs.hashed (rawNs c m) ++ fn.hashed m.name) = H (fs.stored (rawNs c m) ++ fn.stored m.name)
      rw [hashed_of_sound fn hn, hashed_of_sound fs hs]
    · show '|' ∉ (fn.stored m.name).toList
      rw [h1]; exact sanitizeName_clean _
    · show '|' ∉ (fs.stored (rawNs c m)).toList
      rw [h2]; exact sanitizeName_clean _

/-- the rows any of the format models can store: the protobuf converter (any sound placement of the
sanitiser, any conforming sort), lindb/common's RowBuilder in ANY state that builds (the flat decoder and the
influx line parser both end in `RowBuilder.Build`), the flat decoder in any pool state -/
inductive StoredBy (H : String → Nat) : Stored → Prop
  | proto (fn fs : NameFlow) (hn : fn.sound = true) (hs : fs.sound = true) (tb : Bool)
      (sort : List Tag → List Tag) (hsort : SortSpec (less tb) sort) (c : Cfg) (m : PMetric) (s : Stored)
      (h : convertF fn fs tb sort H c (some m) = .ok s) : StoredBy H s
  | builder (sortK : List Tag → List Tag) (now : Int) (b : RB) (s : Stored)
      (h : (b.build sortK H now).2 = .ok s) : StoredBy H s
  | flat (fc : FCfg) (sortK : List Tag → List Tag) (d : Dec) (r : FRow) (s : Stored)
      (h : (decodeTo fc sortK H d r).2 = .ok s) : StoredBy H s

/-- **stored_hashes_of_stored_spelling**: in every format model the two stored hashes are functions of what
is STORED: NameHash = H(stored namespace ++ stored name), tags hash = H(`k=v,…` of the stored tags) — never
of a spelling that was sent and rewritten on the way. -/
theorem stored_hashes_of_stored_spelling (H : String → Nat) (s : Stored) (h : StoredBy H s) :
    s.nameHash = H (s.ns ++ s.name) ∧ s.hash = H (concatKVs s.tags) := by
  cases h with
  | proto fn fs hn hs tb sort hsort c m s h =>
    rw [convertF_sound fn fs hn hs] at h
    have hc := canonical tb hsort H c m s h
    exact ⟨hc.2.2.2.2.2.2.2.2.2.2, hc.2.2.2.2.2.2.2.2.2.1⟩
  | builder sortK now b s h =>
    unfold RB.build at h
    split at h
    · cases h
    · split at h
      · cases h
      · have e := (Except.ok.inj h).symm
        subst e
        exact ⟨rfl, rfl⟩
  | flat fc sortK d r s h =>
    rw [decodeTo_result] at h
    obtain ⟨_, rfl⟩ := valid_of_flatSpec fc sortK H r s h
    exact ⟨rfl, rfl⟩

/-- **identity_function_of_stored_spelling** (cross-format): two rows stored by ANY two formats under the
same namespace, name and tags carry the same NameHash and the same tags hash, and go to the same shard for
every shard count and every jump function. -/
theorem identity_function_of_stored_spelling (H : String → Nat) (s₁ s₂ : Stored)
    (h₁ : StoredBy H s₁) (h₂ : StoredBy H s₂)
    (hns : s₁.ns = s₂.ns) (hname : s₁.name = s₂.name) (htags : s₁.tags = s₂.tags) :
    s₁.nameHash = s₂.nameHash ∧ s₁.hash = s₂.hash ∧
    ∀ (jump : Nat → Nat → Nat) (n : Nat), jump s₁.hash n = jump s₂.hash n := by
  obtain ⟨a₁, b₁⟩ := stored_hashes_of_stored_spelling H s₁ h₁
  obtain ⟨a₂, b₂⟩ := stored_hashes_of_stored_spelling H s₂ h₂
  have e : s₁.hash = s₂.hash := by rw [b₁, b₂, htags]
  exact ⟨by rw [a₁, a₂, hns, hname], e, fun jump n => by rw [e]⟩

/-- the metric in its sanitised spelling -/
def sanitisedSpelling (m : PMetric) : PMetric := { m with name := sanitizeName m.name, ns := sanitizeName m.ns }
/-- the request with its namespace in the sanitised spelling -/
def sanitisedCfg (c : Cfg) : Cfg := { c with reqNs := sanitizeName c.reqNs }

/-- **identity_spelling_invariant**: a metric whose name / namespace / request namespace contain '|' and the
same metric sent in the sanitised spelling are ONE stored metric: accepted together (the name-length rule
counts bytes, '|' and '_' are one byte each), and stored as the same row — same namespace, name, NameHash,
tags, tags hash, everything. -/
theorem identity_spelling_invariant (tb : Bool) (sort : List Tag → List Tag) (H : String → Nat)
    (c : Cfg) (m : PMetric) :
    convert tb sort H (sanitisedCfg c) (some (sanitisedSpelling m)) = convert tb sort H c (some m) := by
  have hreq : (sanitizeName c.reqNs ≠ "") ↔ (c.reqNs ≠ "") := not_congr (sanitizeName_eq_empty _)
  have hvm : vmetricOf (sanitisedCfg c) (sanitisedSpelling m) = vmetricOf c m := by
    simp only [vmetricOf, sanitisedCfg, sanitisedSpelling, sanitizeName_idem]
    by_cases hr : c.reqNs = ""
    · simp [hr, sanitizeName_idem, (sanitizeName_eq_empty "").2 rfl]
      rfl
    · have hr' : sanitizeName c.reqNs ≠ "" := hreq.2 hr
      simp [hr, hr', sanitizeName_idem]
      rfl
  have hvalid : Valid (sanitisedCfg c) (sanitisedSpelling m) ↔ Valid c m := by
    constructor
    · intro v
      exact ⟨fun e => v.name_ne ((sanitizeName_eq_empty _).2 e),
        by simpa [sanitisedCfg, sanitisedSpelling, blen_sanitizeName] using v.name_len,
        v.has_field, v.tags_count, v.tags_ok, v.fields_count, v.fields_ok, v.compound_ok⟩
    · intro v
      exact ⟨fun e => v.name_ne ((sanitizeName_eq_empty _).1 e),
        by simpa [sanitisedCfg, sanitisedSpelling, blen_sanitizeName] using v.name_len,
        v.has_field, v.tags_count, v.tags_ok, v.fields_count, v.fields_ok, v.compound_ok⟩
  unfold convert
  by_cases hv : Valid c m
  · rw [validate_of_valid c m hv, validate_of_valid _ _ (hvalid.2 hv), hvm]
  · cases h1 : validate c (some m) with
    | ok v => exact absurd (valid_of_validate c m v h1).1 hv
    | error e =>
      cases h2 : validate (sanitisedCfg c) (some (sanitisedSpelling m)) with
      | ok v => exact absurd (hvalid.1 (valid_of_validate _ _ v h2).1) hv
      | error e' =>
        -- the same rule fails: validate reads the two spellings through `= ""` and `blen` only
        have : validate (sanitisedCfg c) (some (sanitisedSpelling m)) = validate c (some m) := by
          simp only [validate, sanitisedCfg, sanitisedSpelling, blen_sanitizeName, sanitizeName_eq_empty]
          by_cases hr : c.reqNs = ""
          · simp [hr, sanitizeName_idem, (sanitizeName_eq_empty "").2 rfl]
            rfl
          · have hr' : sanitizeName c.reqNs ≠ "" := hreq.2 hr
            simp [hr, hr', sanitizeName_idem]
            rfl
        rw [h2, h1] at this
        rw [this]

/-- the placement of the sanitiser the source has NOW (regenerated) is a sound one, for the name … -/
theorem protoNameFlow_sound : (NameFlow.ofTriple Generated.C16.protoNameFlow).sound = true := by decide
/-- … and for the namespace -/
theorem protoNsFlow_sound : (NameFlow.ofTriple Generated.C16.protoNsFlow).sound = true := by decide

/-- hashOfName hashes the namespace (when not empty) followed by the name, as `convertF` does -/
theorem hashOfNameSrc_expected : Generated.C16.hashOfNameSrc =
    "rc.hashBuf.Reset() ; if m.Namespace != \"\" { _, _ = rc.hashBuf.WriteString(m.Namespace) } ; _, _ = rc.hashBuf.WriteString(m.Name) ; return xxhash.Sum64(rc.hashBuf.Bytes())" := rfl

/-- non-vacuity: all three formats store the witness `cpu|load` of namespace `te|am` under one identity -/
example :
    let H : String → Nat := fun s => s.length * 1000 + (s.toList.map Char.toNat).sum
    let mp : PMetric := ⟨"cpu|load", "te|am", 5, [some ⟨"host", "h1"⟩], [some ⟨"f", 1, .num 1⟩], none⟩
    let fr : FRow := ⟨"cpu|load", "te|am", 5, [⟨"host", "h1"⟩], [⟨"f", 1, .num 1⟩], none⟩
    (convertF .current .current true (insertionSort (less true)) H cfg0 (some mp)).toOption.map
        (fun s => (s.ns, s.name, s.nameHash, s.hash)) =
      (decodeTo ⟨cfg0, 256⟩ (insertionSort (less false)) H Dec.fresh fr).2.toOption.map
        (fun s => (s.ns, s.name, s.nameHash, s.hash)) ∧
    (convertF .current .current true (insertionSort (less true)) H cfg0 (some mp)).toOption.map
        (fun s => (s.ns, s.name)) = some ("te_am", "cpu_load") := by
  decide

end identity

/-! ## the pooled protobuf converter: a history of requests on one converter object -/

section protoPool
open LinVerif.C16Ident LinVerif.C16ProtoConv

/-- **proto_converter_refines_convert** (refinement, for EVERY state of the pooled converter — offset slices
left by an accepted row or by a row rejected at any rule, hash buffer, namespace / enriched tags / limits of
the request it serves): what `ConvertTo` hands to `FromBlock`, or the error `TryAppend` sees, is the
stateless conversion of the metric alone under the converter's request context. -/
theorem proto_converter_refines_convert (fn fs : NameFlow) (tb : Bool) (sort : List Tag → List Tag)
    (H : String → Nat) (now : Int) (pc : PC) (m : Option PMetric) :
    (pc.marshal fn fs tb sort H now m).2 = convertF fn fs tb sort H (pc.cfg now) m :=
  marshal_result fn fs tb sort H now pc m

/-- **proto_converter_history_no_state_leak** (histories of any length): requests with their own namespace,
enriched tags, limits and metrics, served one after the other by ONE converter object from the pool — in
whatever state `pc`, `pc'` the pool hands it out — give, request by request and metric by metric, the stateless
conversion under THAT request's context: nothing of an earlier row or an earlier request (tags, field names,
namespace, enriched tags, limits, hashed name) reaches a later one. -/
theorem proto_converter_history_no_state_leak (fn fs : NameFlow) (tb : Bool) (sort : List Tag → List Tag)
    (H : String → Nat) (now : Int) (pc pc' : PC) (reqs : List Req) :
    (PC.history fn fs tb sort H now pc reqs).2 = (PC.history fn fs tb sort H now pc' reqs).2 ∧
    (PC.history fn fs tb sort H now pc reqs).2 =
      reqs.map (fun rq => rq.metrics.map (convertF fn fs tb sort H (rq.cfg now))) := by
  rw [history_result, history_result]
  exact ⟨rfl, rfl⟩

/-- … and with the placement of the sanitiser the source has now, that is `Row.convert`, the function all
the theorems above are about -/
theorem proto_converter_history_is_convert (tb : Bool) (sort : List Tag → List Tag)
    (H : String → Nat) (now : Int) (pc : PC) (reqs : List Req) :
    (PC.history (.ofTriple Generated.C16.protoNameFlow) (.ofTriple Generated.C16.protoNsFlow) tb sort H now pc reqs).2 =
      reqs.map (fun rq => rq.metrics.map (convert tb sort H (rq.cfg now))) := by
  rw [history_result]
  apply List.map_congr_left
  intro rq _
  apply List.map_congr_left
  intro m _
  exact convertF_sound _ _ (by decide) (by decide) tb sort H _ m

/-- ties: what is truncated per metric, what per request, how the pool hands the converter out -/
theorem protoResetForNextSrc_expected : Generated.C16.protoResetForNextSrc =
    "rc.flatBuilder.Reset() ; rc.keys = rc.keys[:0] ; rc.values = rc.values[:0] ; rc.fieldNames = rc.fieldNames[:0] ; rc.kvs = rc.kvs[:0] ; rc.fields = rc.fields[:0]" := rfl
theorem protoResetSrc_expected : Generated.C16.protoResetSrc =
    "rc.resetForNextConverter() ; rc.namespace = rc.namespace[:0] ; rc.enrichedTags = rc.enrichedTags[:0]" := rfl
theorem protoNewConverterSrc_expected : Generated.C16.protoNewConverterSrc =
    "releaseFunc = func(cvt *BrokerRowProtoConverter) { rowConverterPool.Put(cvt) } ; item := rowConverterPool.Get() ; if item == nil { cvt = NewProtoConverter(limits) } else { cvt = item.(*BrokerRowProtoConverter) } ; cvt.Reset() ; cvt.namespace = namespace ; cvt.enrichedTags = enrichedTags ; cvt.limits = limits ; return cvt, releaseFunc" := rfl
theorem protoConvertToSrc_expected : Generated.C16.protoConvertToSrc =
    "block, err := rc.MarshalProtoMetricV1(m) ; if err != nil { return err } ; row.FromBlock(block) ; return nil" := rfl

/-- non-vacuity: a converter left dirty by a many-tag row of another namespace converts the next request's
metric exactly as a brand-new one does, and accepts it -/
example :
    let H : String → Nat := fun s => s.length
    let dirty : PC := ⟨[⟨"z", "9"⟩], [⟨"z", "9"⟩, ⟨"y", "8"⟩], ["old"], [⟨"old", 1, .num 7⟩], "old|ns", [⟨"e", "1"⟩], "oldnsold", lim0⟩
    let rq : Req := ⟨"te|am", [⟨"dc", "eu"⟩], lim0, [some m0, none, some m0]⟩
    (PC.history .current .current true (insertionSort (less true)) H 1000 dirty [rq]).2 =
      (PC.history .current .current true (insertionSort (less true)) H 1000 (PC.fresh lim0) [rq]).2 ∧
    ((PC.history .current .current true (insertionSort (less true)) H 1000 dirty [rq]).2.map
      (fun out => out.map (fun r => r.toOption.isSome))) = [[true, false, true]] := by
  decide

end protoPool

/-! ## proved negations -/
namespace Neg

def mA : PMetric := ⟨"cpu", "ns", 5, [some ⟨"a", "1"⟩, some ⟨"a", "2"⟩], [some ⟨"f", 1, .num 1⟩], none⟩
def mB : PMetric := ⟨"cpu", "ns", 5, [some ⟨"a", "2"⟩, some ⟨"a", "1"⟩], [some ⟨"f", 1, .num 1⟩], none⟩

/-- **Negation of full-strength order independence** (KeyValues.Less compares keys only): the same
metric sent as `[a=1, a=2]` and as `[a=2, a=1]` — a permutation of the tags — is accepted both times
and stored with different tags (`a=2` resp. `a=1`), hence different series hashes for every
injective-enough hash (here: any `H` separating "a=2" from "a=1"). The sort is Go's insertion sort
(what sort.Sort runs for up to 12 elements), which conforms to `SortSpec`. -/
theorem dup_key_order_dependent (H : String → Nat) (hH : H "a=2" ≠ H "a=1") :
    mA.tags.Perm mB.tags ∧
    (∃ r₁ r₂, convert false (insertionSort (less false)) H cfg0 (some mA) = .ok r₁ ∧
      convert false (insertionSort (less false)) H cfg0 (some mB) = .ok r₂ ∧
      r₁.tags = [⟨"a", "2"⟩] ∧ r₂.tags = [⟨"a", "1"⟩] ∧ r₁.hash ≠ r₂.hash) := by
  refine ⟨List.Perm.swap _ _ _, ?_⟩
  have vA : validate cfg0 (some mA) = .ok (vmetricOf cfg0 mA) := by decide
  have vB : validate cfg0 (some mB) = .ok (vmetricOf cfg0 mB) := by decide
  have tA : deDupTags (insertionSort (less false)) (vmetricOf cfg0 mA).tags = [⟨"a", "2"⟩] := by decide
  have tB : deDupTags (insertionSort (less false)) (vmetricOf cfg0 mB).tags = [⟨"a", "1"⟩] := by decide
  refine ⟨build false (insertionSort (less false)) H (vmetricOf cfg0 mA),
    build false (insertionSort (less false)) H (vmetricOf cfg0 mB), ?_, ?_, tA, tB, ?_⟩
  · simp only [convert, vA]
  · simp only [convert, vB]
  · simp only [build]
    rw [tA, tB]
    have e1 : concatKVs [⟨"a", "2"⟩] = "a=2" := by decide
    have e2 : concatKVs [⟨"a", "1"⟩] = "a=1" := by decide
    simp only [kvsHash, e1, e2]
    exact hH

/-- the hypothesis `Consistent` of `order_independent` is exactly what fails on the witness -/
theorem dup_key_witness_not_consistent : ¬ Consistent (sentTags cfg0 mA) := by
  intro h
  have := h ⟨"a", "1"⟩ (by decide) ⟨"a", "2"⟩ (by decide) rfl
  exact absurd this (by decide)

/-- with the tie-break on the value the same witness is order-independent (largest value survives) -/
theorem dup_key_fixed_by_tiebreak :
    (deDupTags (insertionSort (less true)) [⟨"a", "1"⟩, ⟨"a", "2"⟩] = [⟨"a", "2"⟩]) ∧
    (deDupTags (insertionSort (less true)) [⟨"a", "2"⟩, ⟨"a", "1"⟩] = [⟨"a", "2"⟩]) := by
  constructor <;> decide

def rowIn : Stored := ⟨"cpu", "ns", 1000, [], [], none, 0, 0⟩

/-- **Negation of evict_exact without the freshness hypothesis**: a batch object reused from the pool
whose first slot still carries the mark of an evicted row of the previous request: a row INSIDE the
write window (ts = now) is appended into that slot, EvictOutOfTimeRange reports 0 evicted rows,
and yet the row is marked and nothing is written for it. -/
theorem stale_mark_drops_in_window_row :
    let rows := appendAll false [true] [rowIn]
    outside 10 10 1000 rowIn.ts = false ∧
    evictedCount 10 10 1000 rows = 0 ∧
    (evict 10 10 1000 rows).map (fun r => r.oor) = [true] ∧
    ((evict 10 10 1000 rows).filter (fun r => !r.oor)) = [] := by
  decide

/-- and a fresh batch (or an append path that clears the mark) keeps the same row -/
theorem fresh_keeps_in_window_row :
    ((evict 10 10 1000 (appendAll false [] [rowIn])).filter (fun r => !r.oor)).length = 1 ∧
    ((evict 10 10 1000 (appendAll true [true] [rowIn])).filter (fun r => !r.oor)).length = 1 := by
  decide

/-- databaseChannel.Write: shard 1 has no channel, shard 2 has one: the group of shard 1 is skipped, the
group of shard 2 is written, and the returned error is nil (`deliver … .2 = false`) although rows were
dropped for want of a channel. (Observation outside C16's statement.) -/
theorem channel_not_found_error_overwritten :
    deliver (fun s => s == 2) [⟨1, 0, []⟩, ⟨2, 0, []⟩] = ([⟨2, 0, []⟩], false) ∧
    deliver (fun s => s == 1) [⟨1, 0, []⟩, ⟨2, 0, []⟩] = ([⟨1, 0, []⟩], true) := by
  constructor <;> rfl

/-- seeded c16-21's placement — sanitise only where the string is written into the row, hash what
validateMetric left (the raw spelling) — is NOT sound: `cpu|load` is stored under `cpu_load` with the hash of
`cpu|load`, so the stored NameHash is not the hash of the stored spelling, and the same stored metric sent as
`cpu_load` gets another identity. For every hash that tells the two spellings apart. -/
def flowStoreOnly : C16Ident.NameFlow := ⟨false, true, false⟩
def mPipe : PMetric := ⟨"cpu|load", "ns", 5, [], [some ⟨"f", 1, .num 1⟩], none⟩
def mUnderscore : PMetric := ⟨"cpu_load", "ns", 5, [], [some ⟨"f", 1, .num 1⟩], none⟩
theorem hash_of_unsanitised_spelling_splits_identity (H : String → Nat) (hH : H "nscpu|load" ≠ H "nscpu_load") :
    flowStoreOnly.sound = false ∧
    ∃ s₁ s₂,
      C16Ident.convertF flowStoreOnly flowStoreOnly true (insertionSort (less true)) H cfg0 (some mPipe) = .ok s₁ ∧
      C16Ident.convertF flowStoreOnly flowStoreOnly true (insertionSort (less true)) H cfg0 (some mUnderscore) = .ok s₂ ∧
      s₁.name = "cpu_load" ∧ s₁.ns = s₂.ns ∧ s₁.name = s₂.name ∧ s₁.tags = s₂.tags ∧
      s₁.nameHash ≠ H (s₁.ns ++ s₁.name) ∧ s₁.nameHash ≠ s₂.nameHash := by
  have n1 : flowStoreOnly.stored mPipe.name = "cpu_load" := by decide
  have n2 : flowStoreOnly.stored mUnderscore.name = "cpu_load" := by decide
  have s1 : flowStoreOnly.stored (C16Ident.rawNs cfg0 mPipe) = "ns" := by decide
  have s2 : flowStoreOnly.stored (C16Ident.rawNs cfg0 mUnderscore) = "ns" := by decide
  have g1 : (flowStoreOnly.hashed (C16Ident.rawNs cfg0 mPipe) ++ flowStoreOnly.hashed mPipe.name : String) = "nscpu|load" := by
    decide
  have g2 : (flowStoreOnly.hashed (C16Ident.rawNs cfg0 mUnderscore) ++ flowStoreOnly.hashed mUnderscore.name : String) =
      "nscpu_load" := by decide
  have g3 : ("ns" ++ "cpu_load" : String) = "nscpu_load" := by decide
  -- both spellings pass validateMetric and leave the same rewritten metric (closed terms: `decide`)
  have v1 : validate cfg0 (some mPipe) = .ok ⟨"cpu_load", "ns", 5, [], [⟨"f", 1, .num 1⟩], none⟩ := by decide
  have v2 : validate cfg0 (some mUnderscore) = .ok ⟨"cpu_load", "ns", 5, [], [⟨"f", 1, .num 1⟩], none⟩ := by decide
  -- the two stored rows, explicitly: equal but for the name hash
  let S : Nat → Stored := fun nh => ⟨"cpu_load", "ns", 5, [], [⟨"f", 1, .num 1⟩], none, H "", nh⟩
  have c1 : C16Ident.convertF flowStoreOnly flowStoreOnly true (insertionSort (less true)) H cfg0 (some mPipe) =
      .ok (S (H "nscpu|load")) := by
    simp only [C16Ident.convertF, v1]
    rw [n1, s1, g1]
    rfl
  have c2 : C16Ident.convertF flowStoreOnly flowStoreOnly true (insertionSort (less true)) H cfg0 (some mUnderscore) =
      .ok (S (H "nscpu_load")) := by
    simp only [C16Ident.convertF, v2]
    rw [n2, s2, g2]
    rfl
  refine ⟨by decide, S (H "nscpu|load"), S (H "nscpu_load"), c1, c2, rfl, rfl, rfl, rfl, ?_, hH⟩
  show H "nscpu|load" ≠ H ("ns" ++ "cpu_load")
  rw [g3]
  exact hH

/-- the two histogram rule sets differ: a histogram with exactly two buckets is rejected by validateMetric
(`len(Values) <= 2`) and accepted by RowBuilder.AddCompoundFieldData (`len(values) < 2`) — outside
`Agree.compound_agree` (recorded observation, not judged by the harness) -/
def cf2 : Compound := ⟨.num 0, .num 1, .num 1, .num 1, [.num 1, .num 0], [.num 1, .pinf]⟩
theorem two_bucket_histogram_formats_disagree :
    checkCompound cf2 = false ∧ FlatRow.compoundErr (some cf2) = none := by decide

/-- … and a NaN bucket value passes validateMetric (`v < 0` is false for NaN) while RowBuilder rejects it -/
def cfNaN : Compound := ⟨.num 0, .num 1, .num 1, .num 1, [.num 1, .nan, .num 0], [.num 1, .num 2, .pinf]⟩
theorem nan_bucket_value_formats_disagree :
    checkCompound cfNaN = true ∧ FlatRow.compoundErr (some cfNaN) = some .bucketNaN := by decide

end Neg

/-! ## Round 12 — a line-protocol request: every line through ONE shared RowBuilder

`influx.Parse` builds all rows of a request in one pooled `commonseries.RowBuilder`; the line parser
fills it incrementally and returns at the first problem, so a rejected line leaves its tags / fields
behind. With `rowBuilder.Reset()` as the first statement of the loop body (regenerated classification
`influxResetAtLoopTop`) none of that reaches another line. -/

section InfluxRequest
open LinVerif.InfluxStream LinVerif.FlatRow

/-- the rows a request stores, in order -/
def storedRows : List LRes → List Stored
  | [] => []
  | .stored s :: rest => s :: storedRows rest
  | _ :: rest => storedRows rest

/-- **no state leak between the lines of a request**: for every request (any number of lines, any mix
of comment lines, lines rejected at any stage — name, tag section, a tag, field section, a field,
timestamp, Build — and accepted lines), every limit set, request namespace, enriched tags, every sort,
every hash and EVERY state of the pooled builder, the request's results are line by line what a builder
nobody used before gives for that line alone. -/
theorem influx_request_lines_independent (c : ICfg) (sortK : List Tag → List Tag) (H : String → Nat) :
    ∀ (lines : List ILine) (b : RB), (parseReq true c sortK H b lines).2 = aloneReq c sortK H lines
  | [], _ => rfl
  | ln :: rest, b => by
    have h := lineStep_state_independent c sortK H b ln
    simp only [parseReq, aloneReq]
    rcases hX : lineStep true c sortK H b ln with ⟨b', r⟩
    rw [hX] at h
    simp only at h
    rw [← h]
    cases r <;> simp [influx_request_lines_independent c sortK H rest b']

/-- two pool states give the same request results -/
theorem influx_request_independent_of_pool (c : ICfg) (sortK : List Tag → List Tag) (H : String → Nat)
    (lines : List ILine) (b b' : RB) :
    (parseReq true c sortK H b lines).2 = (parseReq true c sortK H b' lines).2 := by
  rw [influx_request_lines_independent, influx_request_lines_independent]

/-- **a rejected line is rejected as a whole**: a line that is not stored when sent alone (comment,
rejected by the parser or by Build) contributes nothing to the request — the rows stored are those of
the request without it, whatever it had put into the builder before it was rejected. -/
theorem influx_rejected_line_leaves_no_trace (c : ICfg) (sortK : List Tag → List Tag) (H : String → Nat)
    (ln : ILine) (rest : List ILine) (b b' : RB)
    (hrej : (lineStep true c sortK H RB.fresh ln).2 = .dropped ∨ (lineStep true c sortK H RB.fresh ln).2 = .skipped) :
    storedRows (parseReq true c sortK H b (ln :: rest)).2 = storedRows (parseReq true c sortK H b' rest).2 := by
  rw [influx_request_lines_independent, influx_request_lines_independent]
  rcases hrej with h | h <;> simp [aloneReq, h, storedRows]

/-- an accepted first line is stored as it is alone, and the rest of the request as without it -/
theorem influx_accepted_line_stored_as_alone (c : ICfg) (sortK : List Tag → List Tag) (H : String → Nat)
    (ln : ILine) (rest : List ILine) (b b' : RB) (s : Stored)
    (hacc : (lineStep true c sortK H RB.fresh ln).2 = .stored s) :
    storedRows (parseReq true c sortK H b (ln :: rest)).2 = s :: storedRows (parseReq true c sortK H b' rest).2 := by
  rw [influx_request_lines_independent, influx_request_lines_independent]
  simp [aloneReq, hacc, storedRows]

/-- the code has the placement the theorems are about -/
theorem influxResetAtLoopTop_expected : Generated.C16.influxResetAtLoopTop = true := by decide

theorem influxParseLoopSteps_expected : Generated.C16.influxParseLoopSteps =
    ["rowBuilder.Reset()", "comment-continue", "parse-line-or-continue", "enriched-tags-or-fail",
     "append-built-row-or-continue"] := by decide

/-- `parseLine` follows these builder calls and scanning steps in this order -/
theorem influxParseLineCalls_expected : Generated.C16.influxParseLineCalls =
    ["builder.AddNameSpace", "scanMetricName", "builder.AddMetricName", "scanTagLine", "parseTags",
     "builder.AddTag", "scanFieldLine", "parseFields", "builder.AddSimpleField", "parseTimestamp",
     "builder.AddTimestamp"] := by decide

/-- … and returns early exactly here (guard, returned value) -/
theorem influxParseLineRules_expected : Generated.C16.influxParseLineRules = [
    ("bytes.HasPrefix(content, []byte{'#'})", "accept"),
    ("err != nil", "accept"),
    ("limits.EnableMetricNameLengthCheck() && len(metricName) > limits.MaxMetricNameLength", "constants.ErrMetricNameTooLong"),
    ("err != nil", "err"),
    ("err != nil", "err"),
    ("limits.EnableTagsCheck() && len(tags)+numOfEnrichedTags > limits.MaxTagsPerMetric", "constants.ErrTooManyTagKeys"),
    ("limits.EnableTagNameLengthCheck() && len(tagKey) > limits.MaxTagNameLength", "constants.ErrTagKeyTooLong"),
    ("limits.EnableTagValueLengthCheck() && len(tagValue) > limits.MaxTagValueLength", "constants.ErrTagValueTooLong"),
    ("err != nil", "err"),
    ("err != nil", "err"),
    ("err != nil && len(fields) == 0", "err"),
    ("limits.EnableFieldsCheck() && len(fields) > limits.MaxFieldsPerMetric", "constants.ErrTooManyFields"),
    ("limits.EnableFieldNameLengthCheck() && len(fieldName) > limits.MaxFieldNameLength", "constants.ErrFieldNameTooLong"),
    ("err != nil", "err"),
    ("err != nil", "err")] := by decide

/-! non-vacuity and the negation for the other placement -/

def icfg0 : ICfg := ⟨⟨0, 0, 0, 0, 0, 0⟩, "ns", [⟨"region", "sh"⟩], 7⟩
/-- `cpu,host=a,leak=yes extra_sum=7 12x` — rejected at the timestamp, after tags and fields went in -/
def lnBad : ILine :=
  ⟨false, false, "cpu", false, [⟨"host", "a"⟩, ⟨"leak", "yes"⟩], false, [⟨"extra_sum", 2, .num 7⟩], true, none⟩
/-- `cpu,host=b usage_last=2 1700000001000` -/
def lnGood : ILine :=
  ⟨false, false, "cpu", false, [⟨"host", "b"⟩], false, [⟨"usage_last", 1, .num 2⟩], false, some 1700000001000⟩
def H0 : String → Nat := fun s => s.length

example : storedRows (parseReq true icfg0 (insertionSort (less false)) H0 RB.fresh [lnBad, lnGood]).2 =
    [⟨"cpu", "ns", 1700000001000, [⟨"host", "b"⟩, ⟨"region", "sh"⟩], [⟨"usage_last", 1, .num 2⟩], none, 16, 5⟩] := by
  decide

end InfluxRequest

namespace Neg
open LinVerif.InfluxStream LinVerif.FlatRow

/-- with `Reset` only after an appended row (every `continue` skips it) the tags and fields of a
rejected line are merged into the next accepted line: another tag set, other fields, another series
hash — the stored form depends on the other lines of the request -/
theorem influx_reset_after_append_leaks_rejected_line :
    storedRows (parseReq false icfg0 (insertionSort (less false)) H0 RB.fresh [lnBad, lnGood]).2 =
      [⟨"cpu", "ns", 1700000001000, [⟨"host", "b"⟩, ⟨"leak", "yes"⟩, ⟨"region", "sh"⟩],
        [⟨"extra_sum", 2, .num 7⟩, ⟨"usage_last", 1, .num 2⟩], none, 25, 5⟩] ∧
    storedRows (parseReq false icfg0 (insertionSort (less false)) H0 RB.fresh [lnBad, lnGood]).2 ≠
      storedRows (aloneReq icfg0 (insertionSort (less false)) H0 [lnBad, lnGood]) := by
  decide

end Neg

/-! ## Round 12 — the family scan for calculators whose range may exclude the timestamp it was computed from

`partition` is stated for calculators meeting `CalcSpec`; `CalcSpec.self` (the range computed from a
timestamp contains it) is what the real month calculator violates on a local day without 00:00
(recorded finding). `Route.familyGroupsCode` is the iterator as the code runs it for ANY calculator. -/

theorem familyScanF_eq_runs (C : Calc) (hself : ∀ t, contains (C.range t) t = true) :
    ∀ (n : Nat) (l : List BRow), l.length ≤ n →
      familyScanF C n l = (runs (inFamilyOf C) l).map (fun g => (C.famTime g.1.row.ts, g.1 :: g.2))
  | 0, [], _ => by simp [familyScanF, runs]
  | 0, _ :: _, h => by simp at h
  | n + 1, [], _ => by simp [familyScanF, runs]
  | n + 1, a :: rest, h => by
    have hlen : (rest.dropWhile (inFamilyOf C a)).length ≤ n := by
      have := (List.dropWhile_sublist (l := rest) (inFamilyOf C a)).length_le
      simp only [List.length_cons] at h
      omega
    rw [familyScanF, runs]
    simp only [inFamilyOf, hself, if_true, List.map_cons]
    rw [← familyScanF_eq_runs C hself n _ hlen]

/-- **for a calculator whose ranges contain their own timestamp the code's iterator is `familyGroups`**
(the model `partition` and the fast/slow-path theorems are about) -/
theorem family_iterator_code_eq_model (C : Calc) (hself : ∀ t, contains (C.range t) t = true)
    (sortTs : List BRow → List BRow) (l : List BRow) :
    familyGroupsCode C sortTs l = familyGroups C sortTs l := by
  cases l with
  | nil => rfl
  | cons a rest =>
    simp only [familyGroupsCode, familyGroups, familyScan]
    split
    · rfl
    · exact familyScanF_eq_runs C hself _ _ (Nat.le_refl _)

namespace Neg

/-- a month-type calculator in a zone that moves the clock at local midnight, cut down to what matters:
one family per day, but on day 1 (the day without 00:00) CalcFamilyEndTime returns start - 1 -/
def noMidnightCalc : Calc where
  famTime t := t - t % oneDay
  range t := if t / oneDay = 1 then (t - t % oneDay, t - t % oneDay - 1)
             else (t - t % oneDay, t - t % oneDay + oneDay - 1)

def rowAt (id : Nat) (ts : Int) : BRow := ⟨id, ⟨"r", "ns", ts, [], [], none, 0, 0⟩, 0, false⟩

/-- one series, a row on day 2 and a row on day 1 (the day whose range is empty): the code's iterator
hands out NOTHING — both rows are silently not written; a calculator meeting `CalcSpec` would give two
groups (`partition`) -/
theorem empty_family_range_rows_not_written :
    contains (noMidnightCalc.range (oneDay + 5)) (oneDay + 5) = false ∧
    familyGroupsCode noMidnightCalc (insertionSort lessTs) [rowAt 0 (2 * oneDay + 5), rowAt 1 (oneDay + 5)] = [] := by
  decide

end Neg

/-! ## Round 12 — the timestamp of a line under the request's precision -/

section InfluxTimestamp
open LinVerif.InfluxStream

/-- a coarse precision (s, m, h — and ms): the literal `q` stands for `q * unit` milliseconds -/
theorem influx_timestamp_coarse (k q : Int) (hk : 0 < k) : toMillis k q = some (q * k) := by
  have h0 : k ≠ 0 := by omega
  simp [toMillis, h0, hk]

/-- a fine precision (ns, us; `k` units per millisecond): every literal that lies inside millisecond `ts`
(`ts * k + rem`, `0 ≤ rem < k`) is stored as `ts` — for all non-negative timestamps -/
theorem influx_timestamp_fine (k ts rem : Int) (hk : 0 < k) (hts : 0 ≤ ts) (h0 : 0 ≤ rem) (h1 : rem < k) :
    toMillis (-k) (ts * k + rem) = some ts := by
  have hk0 : -k ≠ 0 := by omega
  have hneg : ¬ (-k > 0) := by omega
  have hnn : 0 ≤ ts * k + rem := by
    have := Int.mul_nonneg hts (Int.le_of_lt hk)
    omega
  simp only [toMillis, hk0, hneg, if_false]
  congr 1
  rw [Int.neg_one_mul, Int.tdiv_neg, Int.neg_tdiv, Int.neg_neg, Int.tdiv_eq_ediv_of_nonneg hnn]
  rw [Int.add_comm, Int.add_mul_ediv_right _ _ (by omega : k ≠ 0), Int.ediv_eq_zero_of_lt h0 h1]
  omega

/-- the table the code has is the table of the model, and every entry is the line protocol's unit -/
theorem influxPrecisionTable_expected : Generated.C16.influxPrecisionTable = precisionTable := by decide

theorem influxPrecisionSwitchTag_expected :
    Generated.C16.influxPrecisionSwitchTag = "strings.ToLower(precision)" := by decide

theorem influxParseTimestampSrc_expected : Generated.C16.influxParseTimestampSrc =
    "if startAt >= len(buf) { return timeutil.Now(), nil } ; f, err := strconv.ParseInt(string(buf[startAt:]), 10, 64) ; if err != nil { return 0, ErrBadTimestamp } ; switch { case multiplier == 0: return timestamp2MilliSeconds(f), nil case multiplier > 0: return f * multiplier, nil default: return -1 * f / multiplier, nil }" := rfl

/-- with the code's table: one second / minute / hour literal, and every nanosecond / microsecond literal
inside a millisecond, is stored as that millisecond -/
theorem influx_precision_units :
    (∀ q : Int, toMillis (multiplierOf precisionTable "ms") q = some q) ∧
    (∀ q : Int, toMillis (multiplierOf precisionTable "s") q = some (q * 1000)) ∧
    (∀ q : Int, toMillis (multiplierOf precisionTable "m") q = some (q * 60000)) ∧
    (∀ q : Int, toMillis (multiplierOf precisionTable "h") q = some (q * 3600000)) ∧
    (∀ ts rem : Int, 0 ≤ ts → 0 ≤ rem → rem < 1000 → toMillis (multiplierOf precisionTable "us") (ts * 1000 + rem) = some ts) ∧
    (∀ ts rem : Int, 0 ≤ ts → 0 ≤ rem → rem < 1000000 →
      toMillis (multiplierOf precisionTable "ns") (ts * 1000000 + rem) = some ts) := by
  have e1 : multiplierOf precisionTable "ms" = 1 := by decide
  have e2 : multiplierOf precisionTable "s" = 1000 := by decide
  have e3 : multiplierOf precisionTable "m" = 60000 := by decide
  have e4 : multiplierOf precisionTable "h" = 3600000 := by decide
  have e5 : multiplierOf precisionTable "us" = -1000 := by decide
  have e6 : multiplierOf precisionTable "ns" = -1000000 := by decide
  rw [e1, e2, e3, e4, e5, e6]
  refine ⟨fun q => ?_, fun q => influx_timestamp_coarse 1000 q (by omega), fun q => influx_timestamp_coarse 60000 q (by omega),
    fun q => influx_timestamp_coarse 3600000 q (by omega),
    fun ts rem a b c => influx_timestamp_fine 1000 ts rem (by omega) a b c,
    fun ts rem a b c => influx_timestamp_fine 1000000 ts rem (by omega) a b c⟩
  have := influx_timestamp_coarse 1 q (by omega)
  simpa using this

example : toMillis (multiplierOf precisionTable "ns") 1700000001000999999 = some 1700000001000 := by decide

end InfluxTimestamp

/-! ## Round 12 — canonical stored form of an accepted line-protocol line -/

section InfluxCanonical
open LinVerif.InfluxStream LinVerif.FlatRow

/-- **what an accepted line is stored as** (any position in any request, by `influx_request_lines_independent`):
no section of it failed; the stored name / namespace are the sanitised measurement / request namespace,
the fields are the parsed fields in order (reserved names escaped), the tags are RowBuilder's sort +
keep-last de-duplication of the line's tags followed by the request's tags, the timestamp is the line's
(the clock when absent or 0), no histogram, tags hash of the stored tags, name hash of the stored
namespace and name. -/
theorem influx_line_canonical (c : ICfg) (sortK : List Tag → List Tag) (H : String → Nat) (ln : ILine) (s : Stored)
    (h : (lineStep true c sortK H RB.fresh ln).2 = .stored s) :
    ln.comment = false ∧ ln.nameErr = false ∧ ln.tagsErr = false ∧ ln.fieldsErr = false ∧ ln.tsErr = false ∧
    s.name = sanitizeName ln.name ∧ s.ns = sanitizeName c.reqNs ∧
    s.fields = ln.fields.map sanF ∧ s.tags = flatDedup sortK (ln.tags ++ c.enriched) ∧
    s.ts = (if ln.ts.getD c.now = 0 then c.now else ln.ts.getD c.now) ∧ s.compound = none ∧
    s.hash = H (concatKVs s.tags) ∧ s.nameHash = H (s.ns ++ s.name) := by
  revert h
  simp only [lineStep, if_true]
  by_cases hc : ln.comment = true
  · simp [hc]
  · simp only [hc, if_false, Bool.false_eq_true]
    rcases hP : parseLine c RB.fresh.reset ln with ⟨bx, _ | _⟩
    · -- the parser returned nil
      simp only
      by_cases hn : ln.nameErr = true
      · -- measurement scan failed: only the namespace is in the builder, Build refuses the empty name
        have hb : bx = RB.fresh.reset.addNameSpace c.reqNs := by
          have := congrArg Prod.fst hP
          simpa [parseLine, hn] using this.symm
        obtain ⟨e2, e1⟩ := addEnriched_spec c.enriched bx
        rcases hE : addEnriched bx c.enriched with ⟨ex, _ | _⟩
        · rw [hE] at e2 e1
          simp only at e2 e1
          obtain ⟨st, hst⟩ := e1 e2.symm
          simp [hst, hb, RB.build, RB.addNameSpace, RB.reset, RB.fresh]
        · simp
      · have hn' : ln.nameErr = false := by simpa using hn
        obtain ⟨a1, a2, a3, sk, sf, hbx⟩ := parseLine_accepts c ln RB.fresh.reset hn' (by rw [hP])
        rw [hP] at hbx
        simp only at hbx
        obtain ⟨e2, e1⟩ := addEnriched_spec c.enriched bx
        rcases hE : addEnriched bx c.enriched with ⟨ex, _ | _⟩
        · rw [hE] at e2 e1
          simp only at e2 e1
          obtain ⟨st, hst⟩ := e1 e2.symm
          simp only [hst, hbx, RB.build, RB.reset, RB.fresh, List.nil_append]
          split_ifs <;> simp_all
          all_goals (intro hs; subst hs; simp_all)
        · simp
    · simp

example : (lineStep true icfg0 (insertionSort (less false)) H0 RB.fresh lnGood).2 =
    .stored ⟨"cpu", "ns", 1700000001000, [⟨"host", "b"⟩, ⟨"region", "sh"⟩], [⟨"usage_last", 1, .num 2⟩], none, 16, 5⟩ := by
  decide

end InfluxCanonical

end LinVerif.Props.C16
