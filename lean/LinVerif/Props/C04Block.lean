/-
C04 — end to end: the rolled-up BLOCK. Connects C03's `merge_value_ratio` (the metric-data merger
with an interval ratio: series union, field union, scanners, `DownSamplingMultiSeriesInto`) with
C04's placement theorems: the side condition `InWindow` that `merge_value_ratio` assumes (no source
value skipped by `targetPos < 0`, none cut by the `break`) is PROVED for guarded interval pairs, and
the position `baseSlot + slot/ratio` is replaced by the slot of the source slot's timestamp.
-/
import LinVerif.Props.C03
import LinVerif.Props.C04

set_option linter.unusedSimpArgs false
namespace LinVerif.Props.C04
open LinVerif.Merge LinVerif.MetricBlock LinVerif.C03
open LinVerif.Rollup (R mkR stdCal itype oneDay IType)
open LinVerif.Lemmas.C04 (Guard month_setup year_setup place_month_nat place_year_nat stdCal_okAt
  stdCal_monthStart_of locate_month_to_year itype_year_iff)

variable {V : Type}

/-- what `merger.prepare` takes from the rollup object `r` (`ctx.ratio`, `ctx.baseSlot`, the mapping
of the source range ends) -/
def cfgOf (r : R) : Cfg :=
  { ratio := r.intervalRatio.toNat, baseSlot := r.baseSlot.toNat,
    mapSlot := fun s => (r.calcSlot (r.getTimestamp s)).toNat }

/-- the values of block `b` (series `s`, field `f`) at the source slots whose TIMESTAMP lies in target
slot `Q` of the target family (`rollup.CalcSlot(rollup.GetTimestamp(t)) = Q`), in slot order -/
def srcValuesInSlot (r : R) (b : Block V) (s f Q : Nat) : List V :=
  (List.range' b.start (b.stop + 1 - b.start)).filterMap (fun t =>
    if (cfgOf r).mapSlot t = Q then b.get s f t else none)

theorem prepare_srcEnd_le (T : Nat) (bs : List (Block V)) :
    ∀ p : Prep, p.srcEnd ≤ T → (∀ b ∈ bs, b.stop ≤ T) → (bs.foldl prepareStep p).srcEnd ≤ T := by
  induction bs with
  | nil => intro p h _; simpa using h
  | cons b rest ih =>
    intro p h hb
    rw [List.foldl_cons]
    apply ih
    · simp only [prepareStep]
      have := hb b (List.mem_cons_self)
      split
      · simp only; omega
      · simp only; split <;> omega
    · exact fun x hx => hb x (List.mem_cons_of_mem _ hx)

/-- Generic step: if on the source slots `≤ T` the written position is the slot of the timestamp and
that slot is monotone, then the merged block holds in target slot `Q` the aggregate of exactly the
source values whose timestamps lie in `Q`. -/
theorem rollup_block_value_of (r : R) (T : Nat)
    (hP : ∀ t, t ≤ T → targetSlot (cfgOf r) t = (cfgOf r).mapSlot t)
    (hmono : ∀ a b, a ≤ b → b ≤ T → (cfgOf r).mapSlot a ≤ (cfgOf r).mapSlot b)
    (tol : Bool) (agg : FieldType → V → V → V) (bs : List (Block V))
    (hg : ∀ b ∈ bs, GoodBlock tol b) (hfields : ∀ b ∈ bs, b.fields ≠ []) (hstop : ∀ b ∈ bs, b.stop ≤ T)
    (s f Q : Nat) (ty : FieldType)
    (hty : (mergeBlocksWith tol (cfgOf r) agg bs).fieldType? f = some ty) (hs : s ∈ unionIds bs)
    (hQ : (cfgOf r).mapSlot (prepare bs).srcStart ≤ Q ∧ Q ≤ (cfgOf r).mapSlot (prepare bs).srcEnd) :
    (mergeBlocksWith tol (cfgOf r) agg bs).get s f Q =
      foldAgg (agg ty) (bs.flatMap (fun b => srcValuesInSlot r b s f Q)) := by
  have hEnd : (prepare bs).srcEnd ≤ T := prepare_srcEnd_le T bs _ (Nat.zero_le _) hstop
  have hw : InWindow (cfgOf r) ((cfgOf r).mapSlot (prepare bs).srcStart) ((cfgOf r).mapSlot (prepare bs).srcEnd) bs s f := by
    intro b hb t h1 h2 _
    obtain ⟨a1, a2⟩ := prepare_hull bs b hb (hfields b hb)
    have hbT := hstop b hb
    rw [hP t (by omega)]
    exact ⟨hmono _ _ (by omega) (by omega), hmono _ _ (by omega) hEnd⟩
  rw [LinVerif.Props.C03.merge_value_ratio tol (cfgOf r) agg bs hg s f Q ty hty hs hQ hw]
  congr 1
  apply List.flatMap_congr
  intro b hb
  unfold srcValues srcValuesInSlot
  apply List.filterMap_congr
  intro t ht
  have htT : t ≤ T := by
    have := hstop b hb
    have := List.mem_range'_1.1 ht
    omega
  rw [hP t htT]

/-- nat-level facts of a rollup relation `⟨src, tgt, tF + o, tF⟩`, from the placement lemmas -/
theorem cfg_facts (r : R) (o src tgt T : Nat)
    (hbase : r.baseSlot = ((o / tgt : Nat) : Int)) (hratio : r.intervalRatio = ((tgt / src : Nat) : Int))
    (hslot : ∀ t, t ≤ T → r.calcSlot (r.getTimestamp t) = (((o + t * src) / tgt : Nat) : Int))
    (hcore : ∀ t, t ≤ T → o / tgt + t / (tgt / src) = (o + t * src) / tgt) :
    (∀ t, t ≤ T → targetSlot (cfgOf r) t = (cfgOf r).mapSlot t) ∧
    (∀ a b, a ≤ b → b ≤ T → (cfgOf r).mapSlot a ≤ (cfgOf r).mapSlot b) := by
  constructor
  · intro t ht
    simp only [targetSlot, cfgOf, hbase, hratio, hslot t ht, Int.toNat_natCast]
    exact hcore t ht
  · intro a b hab hb
    simp only [cfgOf, hslot a (by omega), hslot b hb, Int.toNat_natCast]
    exact Nat.div_le_div_right (by have := Nat.mul_le_mul_right src hab; omega)

/-- **rollup_block_value**, day-type source → month-type target, Gregorian calendar, guarded pair:
every target slot `Q` in the range of the merged block, for every series and field, holds the
field-type aggregate (input order, then slot order) of exactly the source values whose timestamps fall
inside target slot `Q` — nothing skipped, nothing cut, nothing else. `T` bounds the source slots of the
input blocks inside the source family. -/
theorem rollup_block_value_month (D h src tgt T : Nat) (hh : h < 24)
    (hst : itype (src : Int) = .day) (htt : itype (tgt : Int) = .month) (g : Guard src tgt 3600000)
    (hT : T * src < 3600000)
    (tol : Bool) (agg : FieldType → V → V → V) (bs : List (Block V))
    (hg : ∀ b ∈ bs, GoodBlock tol b) (hfields : ∀ b ∈ bs, b.fields ≠ []) (hstop : ∀ b ∈ bs, b.stop ≤ T)
    (s f Q : Nat) (ty : FieldType) :
    let r := mkR stdCal src tgt ((D : Int) * oneDay) h
    (mergeBlocksWith tol (cfgOf r) agg bs).fieldType? f = some ty → s ∈ unionIds bs →
    ((cfgOf r).mapSlot (prepare bs).srcStart ≤ Q ∧ Q ≤ (cfgOf r).mapSlot (prepare bs).srcEnd) →
    (mergeBlocksWith tol (cfgOf r) agg bs).get s f Q =
      foldAgg (agg ty) (bs.flatMap (fun b => srcValuesInSlot r b s f Q)) := by
  intro r hty hs hQ
  obtain ⟨hr, _, _, _⟩ := month_setup stdCal D h src tgt (stdCal_okAt D) hh hst htt T hT
  have hF : (3600000 : Nat) ∣ h * 3600000 := Dvd.intro_left h rfl
  have hlt : ∀ t, t ≤ T → t * src < 3600000 := fun t ht =>
    Nat.lt_of_le_of_lt (Nat.mul_le_mul_right src ht) hT
  have hp : ∀ t, t ≤ T → _ := fun t ht =>
    place_month_nat ((D : Int) * oneDay) (h * 3600000) t src tgt 3600000 g htt hF (hlt t ht)
      (by have := hlt t ht; omega)
  have h0 := hp 0 (Nat.zero_le _)
  obtain ⟨hP, hmono⟩ := cfg_facts r (h * 3600000) src tgt T
    (by simp only [r]; rw [hr]; exact h0.1) (by simp only [r]; rw [hr]; exact h0.2.1)
    (fun t ht => by simp only [r]; rw [hr]; exact (hp t ht).2.2.1) (fun t ht => (hp t ht).2.2.2)
  exact rollup_block_value_of r T hP hmono tol agg bs hg hfields hstop s f Q ty hty hs hQ

/-- **rollup_block_value**, day-type source → year-type target. -/
theorem rollup_block_value_year (D h src tgt T : Nat) (hh : h < 24)
    (hst : itype (src : Int) = .day) (htt : itype (tgt : Int) = .year) (g : Guard src tgt 3600000)
    (hT : T * src < 3600000)
    (tol : Bool) (agg : FieldType → V → V → V) (bs : List (Block V))
    (hg : ∀ b ∈ bs, GoodBlock tol b) (hfields : ∀ b ∈ bs, b.fields ≠ []) (hstop : ∀ b ∈ bs, b.stop ≤ T)
    (s f Q : Nat) (ty : FieldType) :
    let r := mkR stdCal src tgt ((D : Int) * oneDay) h
    (mergeBlocksWith tol (cfgOf r) agg bs).fieldType? f = some ty → s ∈ unionIds bs →
    ((cfgOf r).mapSlot (prepare bs).srcStart ≤ Q ∧ Q ≤ (cfgOf r).mapSlot (prepare bs).srcEnd) →
    (mergeBlocksWith tol (cfgOf r) agg bs).get s f Q =
      foldAgg (agg ty) (bs.flatMap (fun b => srcValuesInSlot r b s f Q)) := by
  intro r hty hs hQ
  obtain ⟨o, hF, hr, _, _, hb⟩ := year_setup stdCal D h src tgt (stdCal_okAt D) hh hst htt T hT
  have hlt : ∀ t, t ≤ T → t * src < 3600000 := fun t ht =>
    Nat.lt_of_le_of_lt (Nat.mul_le_mul_right src ht) hT
  have hp : ∀ t, t ≤ T → _ := fun t ht =>
    place_year_nat (stdCal.monthStart D * oneDay) o t src tgt 3600000 g htt hF (hlt t ht) (hb t ht)
  have h0 := hp 0 (Nat.zero_le _)
  obtain ⟨hP, hmono⟩ := cfg_facts r o src tgt T
    (by simp only [r]; rw [hr]; exact h0.1) (by simp only [r]; rw [hr]; exact h0.2.1)
    (fun t ht => by simp only [r]; rw [hr]; exact (hp t ht).2.2.1) (fun t ht => (hp t ht).2.2.2)
  exact rollup_block_value_of r T hP hmono tol agg bs hg hfields hstop s f Q ty hty hs hQ

/-- **rollup_block_value**, month-type source (day `f` of month `y-m`) → year-type target
(e.g. intervals `[5m, 1h]`), guard with the source family length `1d`. -/
theorem rollup_block_value_month_to_year (y m : Int) (f src tgt T : Nat) (hm1 : 1 ≤ m) (hm2 : m ≤ 12)
    (hf : 1 ≤ f)
    (hin : LinVerif.Calendar.daysFromCivil y m f <
      LinVerif.Calendar.daysFromCivil (LinVerif.Calendar.nextMonth y m).1 (LinVerif.Calendar.nextMonth y m).2 1)
    (hst : itype (src : Int) = .month) (htt : itype (tgt : Int) = .year) (g : Guard src tgt 86400000)
    (hT : T * src < 86400000)
    (tol : Bool) (agg : FieldType → V → V → V) (bs : List (Block V))
    (hg : ∀ b ∈ bs, GoodBlock tol b) (hfields : ∀ b ∈ bs, b.fields ≠ []) (hstop : ∀ b ∈ bs, b.stop ≤ T)
    (s q Q : Nat) (ty : FieldType) :
    let r := mkR stdCal src tgt (LinVerif.Calendar.daysFromCivil y m 1 * oneDay) f
    (mergeBlocksWith tol (cfgOf r) agg bs).fieldType? q = some ty → s ∈ unionIds bs →
    ((cfgOf r).mapSlot (prepare bs).srcStart ≤ Q ∧ Q ≤ (cfgOf r).mapSlot (prepare bs).srcEnd) →
    (mergeBlocksWith tol (cfgOf r) agg bs).get s q Q =
      foldAgg (agg ty) (bs.flatMap (fun b => srcValuesInSlot r b s q Q)) := by
  intro r hty hs hQ
  have hM := stdCal_monthStart_of y m f hm1 hm2 (by omega) hin
  have hc := stdCal_okAt (LinVerif.Calendar.daysFromCivil y m 1 + ((f : Int) - 1))
  have hloc := locate_month_to_year stdCal src tgt (LinVerif.Calendar.daysFromCivil y m 1) f hc hM hst htt
  obtain ⟨k, hk⟩ : ∃ k : Nat, (f : Int) - 1 = k := ⟨f - 1, by omega⟩
  have hk32 : k < 32 := by have := hc.span; rw [hM] at this; omega
  have htgt36 : 3600000 ≤ tgt := by have := (itype_year_iff tgt).1 htt; omega
  set o : Nat := k * 86400000 with ho
  have hF : (86400000 : Nat) ∣ o := ⟨k, by omega⟩
  have hr : r = ⟨src, tgt, LinVerif.Calendar.daysFromCivil y m 1 * oneDay + ((o : Nat) : Int), LinVerif.Calendar.daysFromCivil y m 1 * oneDay⟩ := by
    simp only [r, mkR, hloc]
    congr 1
    simp only [ho, oneDay]
    push_cast
    omega
  have hlt : ∀ t, t ≤ T → t * src < 86400000 := fun t ht =>
    Nat.lt_of_le_of_lt (Nat.mul_le_mul_right src ht) hT
  have hb : ∀ t, t ≤ T → (o + t * src) / tgt < 65536 := by
    intro t ht
    have h1 : (o + t * src) / tgt ≤ (o + t * src) / 3600000 := Nat.div_le_div_left htgt36 (by norm_num)
    have := hlt t ht
    omega
  have hp : ∀ t, t ≤ T → _ := fun t ht =>
    place_year_nat (LinVerif.Calendar.daysFromCivil y m 1 * oneDay) o t src tgt 86400000 g htt hF (hlt t ht) (hb t ht)
  have h0 := hp 0 (Nat.zero_le _)
  obtain ⟨hP, hmono⟩ := cfg_facts r o src tgt T
    (by rw [hr]; exact h0.1) (by rw [hr]; exact h0.2.1)
    (fun t ht => by rw [hr]; exact (hp t ht).2.2.1) (fun t ht => (hp t ht).2.2.2)
  exact rollup_block_value_of r T hP hmono tol agg bs hg hfields hstop s q Q ty hty hs hQ

end LinVerif.Props.C04
