/-
C11 — "A query returns what a naive model computes from the written points".

Property theorems only (helper lemmas: LinVerif/Lemmas/C11*.lean). The model has two variants of
every statement that a `fix:` commit of this property repaired (`Cfg`); the regenerated facts
select the variant (`cfg_tie`). The theorems are about the repaired code:

* `write_buffer_refines_slotmap`   one page, EVERY aggregate, EVERY write sequence (no hypothesis)
* `storage_refines_slotmap`        whole shard, any sequence of writes / window compactions / flushes /
                                   file compactions / reopens (only: a field is written with its registered type)
* `flush_placement_independent`    hence: same writes, any placement of flush / compact / reopen
* `month_family_selection`         month-type family selection, every query range
* `query_eq_naive_partial`         leaf answer = reference for a function whose agg type is the field's
                                   own commutative aggregate, over any series / families / sources
The remaining `_partial` hypotheses exclude the four findings that are NOT repaired (first/last and
non-native functions over several storage units; second half of the negations at the end of the
file). The first half of the negations is about the OLD variants: they document what each fix
repaired, next to the proof that the repaired variant answers the reference on the same witness.
-/
import LinVerif.Lemmas.C11Refine
import LinVerif.Lemmas.C11Query
import LinVerif.Lemmas.C11Compose
import LinVerif.Generated.C11
import LinVerif.Driver.C11

namespace LinVerif.Props.C11
open LinVerif LinVerif.NaiveQuery LinVerif.MemDB LinVerif.Lemmas.C11

/-! ## ties to the generated facts (re-extracted from /repo on every run) -/

/-- the regenerated facts describe the repaired code: all seven fixes of this property are in the
source (a reverted fix selects the old model variant and this obligation fails by name). -/
theorem cfg_tie : LinVerif.Driver.C11.cfgOfFacts = Cfg.fixed := by decide

/-- the time window of a page: `(pageSize - headLen) / valueSize` slots. -/
theorem window_tie : (Generated.C11.pageSize - Generated.C11.headLen) / Generated.C11.valueSize = 15 := by decide

theorem timeWindow_expr_tie :
    Generated.C11.timeWindowExpr = "return uint16((len(buf) - headLen) / valueSize)" := by decide

/-- the body fits the page, and the window's mark bits fit the two mark bytes next to the
"has data" flag (the last bit of the second byte). -/
theorem layout_tie :
    Generated.C11.bodyOffset + Generated.C11.valueSize * 15 ≤ Generated.C11.pageSize ∧
    15 < 2 * Generated.C11.markContainer ∧
    Generated.C11.bodyOffset = Generated.C11.markOffset + 2 ∧
    Generated.C11.markOffset = Generated.C11.endOffset + 1 ∧
    Generated.C11.endOffset = Generated.C11.startOffset + 2 := by decide

/-- `write` assigns `buf[endOffset] = byte(delta)` for a first-time slot only when it lies beyond
the current end (model: `endd := if d > endd then d else endd` in `MemDB.writeG true`). -/
theorem write_end_assignment_tie :
    Generated.C11.writeEndAssignments =
      ["!(buf[markOffset+markIdx]&flagIdx != 0) && byte(delta) > buf[endOffset] => buf[endOffset] = byte(delta)"] := by
  decide

/-- argument orders of `Aggregate` in `write` (old, new) and in `merge` (old, new)
(model: `A.agg old v` in `write`, `A.agg o n` in `mergeCell`). -/
theorem aggregate_arg_order_tie :
    Generated.C11.writeAggregateArgs = ["oldValue,value"] ∧
    Generated.C11.mergeAggregateArgs = ["oldValue,newValue"] := by decide

theorem getCurrentValue_guard_tie :
    Generated.C11.getCurrentValueGuard = "timeSlot < startTime || timeSlot > startTime+getEnd(buf)" := by decide

/-- `AggType.Aggregate` case by case (model: `AggType.agg`). -/
theorem aggregate_table_tie :
    Generated.C11.aggregateExprTable =
      [(1, "a + b"), (2, "a + b"), (3, "math.Min(a, b)"), (4, "math.Max(a, b)"), (5, "b"), (6, "a")] := by decide

theorem agg_codes_tie :
    AggType.all.map (fun A => A.code) = Generated.C11.aggTypeCodes.map Prod.snd ∧
    FieldType.all.map (fun t => t.code) = Generated.C11.fieldTypeCodes.map Prod.snd ∧
    FuncType.all.map (fun f => f.code) = Generated.C11.funcTypeCodes.map Prod.snd := by decide

/-- `Type.AggType()`, `Type.DownSamplingFunc()`. -/
theorem field_tables_tie :
    (∀ ft ∈ FieldType.all, Map.lookup Generated.C11.fieldAggTable ft.code = some ft.aggType.code) ∧
    (∀ ft ∈ FieldType.all, Map.lookup Generated.C11.downSamplingTable ft.code = some ft.downSamplingFunc.code) := by
  decide

set_option maxRecDepth 20000 in
/-- `Type.IsFuncSupported`, `Type.GetFuncFieldParams`. -/
theorem func_tables_tie :
    (FieldType.all.flatMap (fun ft => FuncType.all.map (fun f => (ft.code, f.code, ft.isFuncSupported f)))) =
      Generated.C11.funcSupportedTable ∧
    (FieldType.all.flatMap (fun ft => FuncType.all.map (fun f => (ft.code, f.code, [(ft.funcParam f).code])))) =
      Generated.C11.funcParamsTable := by
  decide +kernel

/-- `timeSeriesIndex.Load`: per series the compress buffer is down-sampled before the write buffer
(model: `memCalls`). -/
theorem load_order_tie :
    Generated.C11.indexLoadCalls =
      ["lock.RLock", "defer:lock.RUnlock", "ids.Keys", "ids.Keys().GetContainerIndex", "ids.Keys",
       "ids.Keys().GetContainerAtIndex", "ids.Values", "λ:fm.getCompressBuf", "λ:len", "λ:tsd.Reset", "λ:int",
       "λ:ctx.DownSampling", "λ:fm.getPage", "λ:fm.Reset", "λ:int", "λ:ctx.DownSampling",
       "ctx.IterateLowSeriesIDs"] := by decide

/-- `dataFamily.Filter`: memory result sets, then file result sets; a source's not-found is
ignored (model: `familyCalls`, `memResult`, `combineCalls`). -/
theorem family_filter_order_tie :
    Generated.C11.familyFilterCalls =
      ["fasttime.UnixMilliseconds", "lastReadTime.Store", "f.memoryFilter", "f.fileFilter", "append", "append"] ∧
    Generated.C11.familyMemoryFilterCalls =
      ["λ:memDB.Filter", "λ:errors.Is", "λ:append", "mutex.Lock", "defer:mutex.Unlock", "memFilter", "memFilter"] := by
  decide

/-- the `DownSampling` loop statement by statement (model: `dsLoop`). -/
theorem downsampling_loop_tie :
    Generated.C11.downSamplingLoop =
      ["for movingSourceSlot := source.Start; movingSourceSlot <= source.End; movingSourceSlot++",
       "value, ok := getter.GetValue(movingSourceSlot)", "if !ok { continue }",
       "if movingSourceSlot < start { continue }", "if movingSourceSlot > end { break }",
       "targetSlot := (baseSlot + int(movingSourceSlot)) / intervalRatio", "emitValue(targetSlot, value)"] := by
  decide

/-- `fieldAggregator.Aggregate` feeds a primitive iterator into the array of its own agg type
(model: `reduceInto`). -/
theorem field_aggregate_tie :
    Generated.C11.fieldAggregateCalls =
      ["it.HasNext", "it.Next", "pIt.AggType", "pIt.HasNext", "pIt.Next", "a.AggregateBySlot",
       "a.aggregateBySlotOfType"] := by
  decide

/-- function calls (model: `funcCall`). -/
theorem func_call_tie :
    Generated.C11.funcCallPassThrough =
      [FuncType.sum, .min, .max, .count, .last, .first].map (fun f => f.code) ∧
    Generated.C11.rateValueExpr = "val / float64(interval/timeutil.OneSecond)" := by decide

/-- the memory database's created time is process-unique; `Cleanup` clears the time range kept
under it (model: `Shard.newCreated`, `Shard.ranges`, `Shard.flush`). -/
theorem created_time_tie :
    Generated.C11.memdbCreatedTimeExpr = "nextCreatedTime()" ∧
    Generated.C11.indexCleanupCalls =
      ["db.CreatedTime", "fasttime.UnixMilliseconds", "db.MemTimeSeriesIDs", "λ:timeSeriesIndex.ClearTimeRange",
       "λ:timeSeriesIndex.ExpireTimeSeriesIDs", "λ:timeSeriesIndex.GC", "λ:timeSeriesIndex.NumOfSeries",
       "λ:timeSeriesIndexes.Delete", "timeSeriesIndexes.Range"] := by decide

/-- the month calculator's `CalcFamily` is the day of month of the timestamp alone;
`segment.GetDataFamilies` builds its family range from `CalcFamilyTime` of the query start / end
(model: `monthFamilySelected`). -/
theorem month_calc_tie :
    Generated.C11.monthCalcFamilyBody = ["t := time.Unix(timestamp/1000, 0)", "return t.Day()"] ∧
    Generated.C11.segmentGetDataFamiliesCalls =
      ["interval.Calculator", "calc.CalcFamilyTime", "calc.CalcFamilyTime", "kvStore.ListFamilyNames",
       "strconv.Atoi", "s.getOrLoadFamily", "family.TimeRange", "familyQueryTimeRange.Overlap", "append"] := by
  decide

/-- a file with one field is down-sampled into the query field it belongs to
(model: `blockSourceField`). -/
theorem single_field_read_tie :
    Generated.C11.readSeriesDataSingleField =
      "for queryIdx, readIdx := range r.readFieldIndexes { if readIdx == fieldNotFound { continue } decoder.ResetWithTimeRange(seriesEntryBlock, r.timeRange.Start, r.timeRange.End) ctx.DownSampling(r.timeRange, seriesIdx, queryIdx, decoder) } ; return" := by
  rfl

/-! ## the write buffer -/

/-- **Page level, full strength.** For every window size, every aggregate (first/last included)
and EVERY write sequence — duplicates, any slot order inside and outside the window — what a memory
query sees of the page (compress buffer, then write window) is the reference slot map: all values
written to a slot, combined in arrival order. -/
theorem write_buffer_refines_slotmap (w : Nat) (hw : 0 < w) (A : AggType) (ws : List (Nat × Int)) (t : Nat) :
    memView A (runWrites w A (Buf.fresh w) ws) t = refSlots A ws t := by
  have := (run_refines w A ws (Buf.fresh w) (BufInv.fresh hw)).2 t
  simpa [memView_fresh] using this

/-- the variant selected by the facts is the one the theorem is about. -/
theorem write_variant_tie : writeV LinVerif.Driver.C11.cfgOfFacts = write := by
  rw [cfg_tie]; exact writeV_fixed Cfg.fixed rfl rfl

/-- a flush writes, for every slot of the metric-level range, what the memory query saw
(every aggregate). -/
theorem flush_cells_eq_memview (w : Nat) (b : Buf) (A : AggType) (hi : BufInv w b) (lo hiR t : Nat)
    (hcov : ∀ t, memView A b t ≠ none → lo ≤ t ∧ t ≤ hiR) :
    (if t < lo ∨ t > hiR then none else cellAt (flushCells A b lo hiR) (t - lo)) = memView A b t :=
  flushCell_eq_memView A hi lo hiR t hcov

/-! ## the shard: mutable memory database ∪ files -/

/-- **Storage refinement.** `abs(state) = storeView : family → series → field → slot → Option V`
(the family's files in the order they were written, then its memory database). After ANY sequence
of writes (with their window compactions, any slot order, any field type) / flushes / file
compactions / reopens it equals the reference slot map of the points written. The only condition
(`goodOps`) is on the input: a field is written with the type it is registered with. -/
theorem storage_refines_slotmap (w : Nat) (hw : 0 < w) (sch : List (Nat × FieldType)) (ops : List Op)
    (hg : goodOps { Shard.init w with fieldTypes := sch } ops = true) (fam ser fld t : Nat) :
    storeView (runOps { Shard.init w with fieldTypes := sch } ops) fam ser fld t =
      refCell ((runOps { Shard.init w with fieldTypes := sch } ops).fieldAgg fld) (pointsOf ops) fam ser fld t := by
  have := (inv_runOps ops _ [] (inv_init w hw sch) hg).refines fam ser fld t
  simpa using this

/-- **Independence of flush / compaction / reopen placement.** Two histories with the same
accepted points, whatever the placement of flushes, file compactions and reopens between them,
hold the same slot maps. -/
theorem flush_placement_independent (w : Nat) (hw : 0 < w) (sch : List (Nat × FieldType)) (ops1 ops2 : List Op)
    (h1 : goodOps { Shard.init w with fieldTypes := sch } ops1 = true)
    (h2 : goodOps { Shard.init w with fieldTypes := sch } ops2 = true)
    (hp : pointsOf ops1 = pointsOf ops2) (fam ser fld t : Nat) :
    storeView (runOps { Shard.init w with fieldTypes := sch } ops1) fam ser fld t =
      storeView (runOps { Shard.init w with fieldTypes := sch } ops2) fam ser fld t := by
  rw [storage_refines_slotmap w hw sch ops1 h1, storage_refines_slotmap w hw sch ops2 h2, hp,
    runOps_fieldAgg _ ops1 h1, runOps_fieldAgg _ ops2 h2]

/-- the hypothesis is satisfiable by a history with out-of-order window writes (5, 9, 7), a last
field re-entering a slot, two families, a flush between two writes of one slot, a file
compaction and a reopen. -/
example : goodOps { Shard.init 15 with fieldTypes := [(1, .sum), (4, .last)] }
    [.write 1 0 1 1 .sum 5 1, .write 1 0 1 1 .sum 9 2, .write 1 0 1 1 .sum 7 4, .write 1 0 1 4 .last 5 1,
     .write 1 0 1 4 .last 25 2, .write 1 0 1 4 .last 5 3, .write 2 1 1 1 .sum 9 2, .flush 0,
     .write 3 0 1 1 .sum 5 10, .flush 0, .compact 0, .write 4 0 2 1 .sum 6 1, .reopen,
     .write 5 1 1 1 .sum 9 4] = true := by decide

/-! ## month-type family selection -/

/-- **Full strength**: for every query range the month-type selection returns exactly the
families whose day lies in the range. -/
theorem month_family_selection (lens : List Nat) (hpos : ∀ l ∈ lens, 0 < l) (qs qe f : Nat)
    (hle : qs ≤ qe) (hqe : qe < monthStart lens lens.length) (hf : f < monthStart lens lens.length) :
    monthFamilySelected lens qs qe f = (decide (qs ≤ f) && decide (f ≤ qe)) :=
  monthFamilySelected_exact lens hpos qs qe f hle hqe hf

theorem month_select (lens : List Nat) (hpos : ∀ l ∈ lens, 0 < l) (fams : List Nat) (qs qe : Nat)
    (hle : qs ≤ qe) (hqe : qe < monthStart lens lens.length) (hf : ∀ f ∈ fams, f < monthStart lens lens.length) :
    monthSelectV Cfg.fixed lens fams qs qe = monthSelectSpec fams qs qe := by
  unfold monthSelectV monthSelectSpec
  apply List.filter_congr
  intro f hfm
  show monthFamilySelected lens qs qe f = _
  exact month_family_selection lens hpos qs qe f hle hqe (hf f hfm)

/-! ## down-sampling, leaf reduce, field functions -/

/-- **Down-sampling.** One `DownSampling` call (fresh field aggregator, one agg type `A`) leaves in
bucket `t` the `A`-fold, slots ascending, of the source values whose slot lies in the family's
query slot range and whose bucket `(base + slot) / ratio` is `t`. -/
theorem downsample_correct (A : AggType) (get : Nat → Option Int) (srcLo srcHi tLo tHi g0 qs ratio t : Nat) :
    arrGet (dsCall [A] get srcLo srcHi tLo tHi g0 qs ratio) A t =
      fsum A (slotsOf srcLo srcHi)
        (fun s => if tLo ≤ s ∧ s ≤ tHi ∧ (g0 + s - qs) / ratio = t then get s else none) :=
  dsCall_spec A get srcLo srcHi tLo tHi g0 qs ratio t

/-- **Leaf reduce** for one agg type: the reduced bucket is the fold, in call order, of the calls'
buckets. -/
theorem leaf_reduce_correct (A : AggType) (calls : List Arrays) (hw : ∀ c ∈ calls, WF1 A c) (t : Nat) :
    arrGet (calls.foldl reduceInto (Arrays.init [A])) A t = fsum A calls (fun c => arrGet c A t) :=
  reduce_spec A calls hw t

/-- **Memory query of one page, end to end** (write buffer + window compactions + the two
`DownSampling` calls of `timeSeriesIndex.Load` + leaf reduce): for a commutative field aggregate
and EVERY write sequence, bucket `t` of the leaf answer is the fold over the slots of the
reference slot map that fall into the bucket — whatever the window / compress-buffer state.
(For first/last the two calls are reduced in load order, not in slot order: unrepaired finding
`last-downsampling-flushed-slot-wins`.) -/
theorem page_query_eq_naive_partial (w : Nat) (hw : 0 < w) (A : AggType) (hc : AggType.isComm A = true)
    (ws : List (Nat × Int)) (lo hi tLo tHi g0 qs ratio t : Nat) :
    arrGet ((pageCalls [A] (runWrites w A (Buf.fresh w) ws) lo hi tLo tHi g0 qs ratio).foldl reduceInto
        (Arrays.init [A])) A t =
      fsum A (slotsOf lo hi)
        (fun s => if tLo ≤ s ∧ s ≤ tHi ∧ (g0 + s - qs) / ratio = t then refSlots A ws s else none) := by
  obtain ⟨hinv, hview⟩ := run_refines w A ws (Buf.fresh w) (BufInv.fresh hw)
  rw [pageCalls_spec (agg_comm_of_isComm hc) _ hinv]
  apply fsum_congr
  intro s _
  rw [hview s]
  simp [memView_fresh]

/-- **The same page after its flush**: the one `DownSampling` call on the flushed cells gives the
same buckets as the memory query gave (the metric-level range `[lo, hi]` covers the written
slots). -/
theorem page_query_flush_invariant (w : Nat) (hw : 0 < w) (A : AggType) (hc : AggType.isComm A = true)
    (ws : List (Nat × Int))
    (lo hi : Nat) (hcov : ∀ s, refSlots A ws s ≠ none → lo ≤ s ∧ s ≤ hi) (tLo tHi g0 qs ratio t : Nat) :
    arrGet (dsCall [A]
        (fun slot => if slot < lo ∨ slot > hi then none
          else cellAt (flushCells A (runWrites w A (Buf.fresh w) ws) lo hi) (slot - lo))
        lo hi tLo tHi g0 qs ratio) A t =
      arrGet ((pageCalls [A] (runWrites w A (Buf.fresh w) ws) lo hi tLo tHi g0 qs ratio).foldl reduceInto
        (Arrays.init [A])) A t := by
  obtain ⟨hinv, hview⟩ := run_refines w A ws (Buf.fresh w) (BufInv.fresh hw)
  rw [pageCalls_spec (agg_comm_of_isComm hc) _ hinv, dsCall_spec]
  apply fsum_congr
  intro s _
  have hcov' : ∀ t, memView A (runWrites w A (Buf.fresh w) ws) t ≠ none → lo ≤ t ∧ t ≤ hi := by
    intro t ht
    apply hcov t
    rw [hview t] at ht
    simpa [memView_fresh] using ht
  rw [flushCell_eq_memView A hinv lo hi s hcov']

/-- **Leaf answer = naive reference.** For every history of writes (any slot order, any field
types) / window compactions / flushes / file compactions / reopens, every query on a field whose
function's agg type is the field's own commutative aggregate (sum on sum/histogram, min on min,
max on max), any time range, interval ratio, list of families, any group of series and any other
selected fields (`ScopeOK`: the scope holds the queried field and the group's series, as the
planner builds it): bucket `t` of the leaf answer of the group equals the reference — independent
of where the flushes, compactions and reopens were placed, and of which sources of a family hold
data for the query. (The hypothesis on the function excludes the unrepaired findings
`max-of-sum-field-split-by-flush` and `last-field-flushed-value-wins`.) -/
theorem query_eq_naive_partial (w : Nat) (hw : 0 < w) (sch : List (Nat × FieldType)) (ops : List Op)
    (hg : goodOps { Shard.init w with fieldTypes := sch } ops = true)
    (q : Query) (sc : Scope) (fams group : List Nat)
    (hfa : (runOps { Shard.init w with fieldTypes := sch } ops).fieldAgg q.field = q.fieldAgg)
    (hF : q.funcAgg = q.fieldAgg) (hc : AggType.isComm q.fieldAgg = true) (hspf : 0 < q.spf)
    (hsc : ScopeOK q sc group) (t : Nat) :
    arrGet (leafGroup (runOps { Shard.init w with fieldTypes := sch } ops) q sc [q.fieldAgg] fams group) q.fieldAgg t =
      naiveBucket q (pointsOf ops) group fams t := by
  have hinv : Inv (runOps { Shard.init w with fieldTypes := sch } ops) (pointsOf ops) := by
    simpa using inv_runOps ops _ [] (inv_init w hw sch) hg
  have hinv2 : Inv2 (runOps { Shard.init w with fieldTypes := sch } ops) :=
    inv2_runOps ops _ (inv2_init w sch)
  have hcomm : AggComm ((runOps { Shard.init w with fieldTypes := sch } ops).fieldAgg q.field) := by
    rw [hfa]; exact agg_comm_of_isComm hc
  have := leafGroup_eq_fsum _ _ hinv hinv2 q sc hspf hcomm fams group hsc t
  rw [hfa] at this
  rw [this, naiveBucket_eq_fsum, hF]
  apply fsum_congr
  intro ser _
  apply fsum_congr
  intro fam _
  apply fsum_congr
  intro slot _
  have hr := hinv.refines fam ser q.field slot
  rw [hfa] at hr
  rw [hr]

/-- the answer of the group as the leaf sends it (non-empty buckets, ascending). -/
theorem query_group_eq_naive_partial (w : Nat) (hw : 0 < w) (sch : List (Nat × FieldType)) (ops : List Op)
    (hg : goodOps { Shard.init w with fieldTypes := sch } ops = true)
    (q : Query) (sc : Scope) (fams group : List Nat)
    (hfa : (runOps { Shard.init w with fieldTypes := sch } ops).fieldAgg q.field = q.fieldAgg)
    (hF : q.funcAgg = q.fieldAgg) (hc : AggType.isComm q.fieldAgg = true) (hspf : 0 < q.spf)
    (hsc : ScopeOK q sc group) :
    bucketsOf q (leafGroup (runOps { Shard.init w with fieldTypes := sch } ops) q sc [q.fieldAgg] fams group) q.fieldAgg =
      naiveGroup q (pointsOf ops) group fams := by
  unfold bucketsOf naiveGroup
  congr 1
  funext t
  rw [query_eq_naive_partial w hw sch ops hg q sc fams group hfa hF hc hspf hsc t]

/-- a non-trivial instance: out-of-order window writes, two series, two families, a series that
exists only in memory and a field (2) that exists only in a file, a file compaction; the query on
field 1 for series 1 and 2 over both families with ratio 6. -/
example :
    let ops : List Op := [.write 1 0 1 1 .sum 5 1, .write 1 0 1 1 .sum 9 2, .write 1 0 1 1 .sum 7 4,
      .write 1 0 1 2 .min 5 7, .write 2 1 1 1 .sum 9 2, .write 1 0 1 1 .sum 30 3, .flush 0,
      .write 3 0 1 1 .sum 5 10, .flush 0, .compact 0, .write 4 0 2 1 .sum 7 1]
    let s := runOps { Shard.init 15 with fieldTypes := [(1, .sum), (2, .min)] } ops
    let q : Query := ⟨1, .sum, .sum, 32, 0, 63, 6⟩
    goodOps { Shard.init 15 with fieldTypes := [(1, .sum), (2, .min)] } ops = true ∧
    bucketsOf q (leafGroup s q ⟨[1], [1, 2]⟩ [.sum] [0, 1] [1, 2]) .sum = naiveGroup q (pointsOf ops) [1, 2] [0, 1] ∧
    (naiveGroup q (pointsOf ops) [1, 2] [0, 1]).length = 4 := by
  decide

/-- **Queries concurrent with a flush.** `before`: any history; then `dataFamily.Flush` of family
`fam0` switches its memory database `md0` to immutable (window state: the shard as it will be once
the file is committed, plus `md0` still in memory, read INSTEAD of the file being written);
`during`: any writes (to any family, any slot order) that complete while the flush is in
progress — those to `fam0` go to a new mutable memory database. A query in that window
(`leafGroupW`: new mutable ∪ immutable ∪ committed files, as `dataFamily.memoryFilter` /
`fileFilter` read them) answers the reference of ALL points written so far, for the same class of
queries as `query_eq_naive_partial`. -/
theorem query_eq_naive_in_flush_window_partial (w : Nat) (hw : 0 < w) (sch : List (Nat × FieldType))
    (before during : List Op) (fam0 : Nat) (md0 : MemDB)
    (hg : goodOps { Shard.init w with fieldTypes := sch } (before ++ [.flush fam0] ++ during) = true)
    (hm0 : ((runOps { Shard.init w with fieldTypes := sch } before).family fam0).mutable_ = some md0)
    (hdur : ∀ op ∈ during, Op.isWrite op = true)
    (q : Query) (sc : Scope) (fams group : List Nat)
    (hfa : (runOps { Shard.init w with fieldTypes := sch } (before ++ [.flush fam0] ++ during)).fieldAgg q.field = q.fieldAgg)
    (hF : q.funcAgg = q.fieldAgg) (hc : AggType.isComm q.fieldAgg = true) (hspf : 0 < q.spf)
    (hsc : ScopeOK q sc group) (t : Nat) :
    arrGet (leafGroupW (runOps { Shard.init w with fieldTypes := sch } (before ++ [.flush fam0] ++ during)) q sc
        [q.fieldAgg]
        ⟨fam0, md0, Map.lookup (runOps { Shard.init w with fieldTypes := sch } before).ranges md0.created⟩
        fams group) q.fieldAgg t =
      naiveBucket q (pointsOf (before ++ [.flush fam0] ++ during)) group fams t := by
  -- the three states
  have hgs := hg
  rw [goodOps_append, goodOps_append, Bool.and_eq_true, Bool.and_eq_true] at hgs
  obtain ⟨⟨hg1, hg2⟩, hg3⟩ := hgs
  have hinv1 : Inv (runOps { Shard.init w with fieldTypes := sch } before) (pointsOf before) := by
    simpa using inv_runOps before _ [] (inv_init w hw sch) hg1
  have hinv21 : Inv2 (runOps { Shard.init w with fieldTypes := sch } before) := inv2_runOps before _ (inv2_init w sch)
  have hinv : Inv (runOps { Shard.init w with fieldTypes := sch } (before ++ [.flush fam0] ++ during))
      (pointsOf (before ++ [.flush fam0] ++ during)) := by
    have h := inv_runOps (before ++ [.flush fam0] ++ during) _ [] (inv_init w hw sch) hg
    simp only [List.nil_append] at h
    exact h
  have hinv2 : Inv2 (runOps { Shard.init w with fieldTypes := sch } (before ++ [.flush fam0] ++ during)) :=
    inv2_runOps _ _ (inv2_init w sch)
  -- name the states
  generalize hs1 : runOps { Shard.init w with fieldTypes := sch } before = s1 at *
  have hsE : runOps { Shard.init w with fieldTypes := sch } (before ++ [.flush fam0] ++ during) =
      runOps (s1.flush fam0) during := by
    rw [runOps_append, runOps_append, hs1]; rfl
  rw [hsE] at hinv hinv2 hfa ⊢
  have hg3' : goodOps (s1.flush fam0) during = true := by
    rw [runOps_append, hs1] at hg3
    exact hg3
  -- the memory database that is being flushed
  obtain ⟨lo, hi, hr, hb⟩ := hinv1.pages fam0 md0 hm0
  have hfm : ∃ blk, flushMemDB s1 md0 = some blk := by
    simp [flushMemDB, hr]
  obtain ⟨blk, hblk⟩ := hfm
  have hfam2 : (s1.flush fam0).family fam0 = ⟨none, (s1.family fam0).files ++ [blk], (s1.family fam0).base⟩ := by
    rw [flush_some_family_self s1 fam0 md0 hm0, hblk]
  obtain ⟨hkeep, hknown⟩ := writes_keep_files during (s1.flush fam0) hdur
  have hfiles : ((runOps (s1.flush fam0) during).family fam0).files = (s1.family fam0).files ++ [blk] := by
    rw [(hkeep fam0).1, hfam2]
  -- field aggregates do not change
  have hfa1 : ∀ fld, (runOps (s1.flush fam0) during).fieldAgg fld = s1.fieldAgg fld := by
    intro fld
    have h1 := runOps_fieldAgg (s1.flush fam0) during hg3' fld
    rw [h1, flush_fieldAgg]
  have hwin : (runOps (s1.flush fam0) during).window = s1.window := by
    have : ∀ (ops : List Op) (s : Shard), (runOps s ops).window = s.window := by
      intro ops
      induction ops with
      | nil => intro s; rfl
      | cons op rest ih =>
        intro s
        simp only [runOps, List.foldl_cons] at ih ⊢
        rw [ih]
        cases op with
        | write => rfl
        | flush fam => exact flush_window s fam
        | compact fam =>
          simp only [applyOp, Shard.compact]
          split
          · rfl
          · cases mergeBlocks s.fieldAgg (s.family fam).chron <;> rfl
        | reopen =>
          simp only [applyOp, Shard.reopen]
          have : ∀ (l : List Nat) (s : Shard), (flushAll s l).window = s.window := by
            intro l
            induction l with
            | nil => intro s; rfl
            | cons x r ih2 => intro s; simp only [flushAll, List.foldl_cons] at ih2 ⊢; rw [ih2, flush_window]
          exact this _ s
    rw [this, flush_window]
  have hcomm : AggComm ((runOps (s1.flush fam0) during).fieldAgg q.field) := by
    rw [hfa]; exact agg_comm_of_isComm hc
  have hb' : ∀ ser b, Map.lookup md0.pages (ser, q.field) = some b →
      BufInv s1.window b ∧ ∀ t, memView ((runOps (s1.flush fam0) during).fieldAgg q.field) b t ≠ none → lo ≤ t ∧ t ≤ hi := by
    intro ser b hp
    rw [hfa1]
    exact hb (ser, q.field) b hp
  have hk : ∀ k b, Map.lookup md0.pages k = some b → k.1 ∈ (runOps (s1.flush fam0) during).known := by
    intro k b hp
    apply hknown
    rw [flush_known]
    exact hinv21.known fam0 md0 k b hm0 hp
  have hcell : ∀ ser slot, blk.cell (ser, q.field) slot =
      pagesView ((runOps (s1.flush fam0) during).fieldAgg q.field) md0.pages q.field ser slot := by
    intro ser slot
    rw [hfa1]
    exact flushBlock_cell s1 hinv1.cfgFixed md0 lo hi hr hb blk hblk ser q.field slot
  have := leafGroupW_eq_fsum (w := s1.window) _ _ hinv hinv2 q sc hspf hcomm
    ⟨fam0, md0, Map.lookup s1.ranges md0.created⟩ lo hi hr hb' hk (s1.family fam0).files blk hfiles hcell fams group hsc t
  rw [hfa] at this
  rw [this, naiveBucket_eq_fsum, hF]
  apply fsum_congr
  intro ser _
  apply fsum_congr
  intro fam _
  apply fsum_congr
  intro slot _
  have hrr := hinv.refines fam ser q.field slot
  rw [hfa] at hrr
  rw [hrr]

/-- a non-trivial window: family 0 is flushed while (a) slot 5 of series 1 gets another value,
(b) a new slot and (c) a point of family 1 are written; the query over both families. -/
example :
    let before : List Op := [.write 1 0 1 1 .sum 3 1, .flush 0, .write 2 0 1 1 .sum 5 2, .write 2 0 2 1 .sum 9 4]
    let during : List Op := [.write 3 0 1 1 .sum 5 8, .write 3 0 1 1 .sum 40 16, .write 4 1 1 1 .sum 2 32]
    let s0 : Shard := { Shard.init 15 with fieldTypes := [(1, .sum)] }
    let q : Query := ⟨1, .sum, .sum, 64, 0, 127, 1⟩
    goodOps s0 (before ++ [.flush 0] ++ during) = true ∧
    ((runOps s0 before).family 0).mutable_.isSome = true ∧
    (∀ md, ((runOps s0 before).family 0).mutable_ = some md →
      bucketsOf q (leafGroupW (runOps s0 (before ++ [.flush 0] ++ during)) q ⟨[1], [1, 2]⟩ [.sum]
        ⟨0, md, Map.lookup (runOps s0 before).ranges md.created⟩ [0, 1] [1, 2]) .sum =
        [(3, 1), (5, 10), (9, 4), (40, 16), (66, 32)]) := by
  decide

/-- **Field functions** on the abstract map: sum/min/max/count/first/last return the field's array
for the function's agg type unchanged, `rate` divides by the query interval in seconds. -/
theorem expr_eval_correct (f : FuncType) (sec : Nat) (v : Int) :
    funcCall f sec v =
      (match f with
        | .sum | .min | .max | .count | .last | .first => some ⟨v, 1⟩
        | .rate => some ⟨v, sec⟩
        | _ => none) := by
  cases f <;> rfl

/-! ## proved negations (witnesses replayed against the implementation on every run) -/

namespace Neg

set_option maxRecDepth 50000

/-! ### repaired: negations about the OLD variants (what each fix repaired) -/

/-- `field-writer-end-shrinks` (fix 02a0667): sum field, slots 5, 9, 7 in one window. Before the
fix `end` shrank to 2 and slot 9 was invisible to the memory query (and to compaction and flush);
the repaired write buffer answers the reference. -/
theorem end_shrinks_hides_slot :
    memView .sum (runWritesV Cfg.old 15 .sum (Buf.fresh 15) [(5, 1), (9, 2), (7, 4)]) 9 = none ∧
    refSlots .sum [(5, 1), (9, 2), (7, 4)] 9 = some 2 ∧
    memView .sum (runWrites 15 .sum (Buf.fresh 15) [(5, 1), (9, 2), (7, 4)]) 9 = some 2 := by decide

/-- ... and the flush wrote the block without it. -/
theorem end_shrinks_flush_loses_slot :
    cellAt (flushCellsV Cfg.old .sum (runWritesV Cfg.old 15 .sum (Buf.fresh 15) [(5, 1), (9, 2), (7, 4)]) 5 9) 4 = none ∧
    cellAt (flushCells .sum (runWrites 15 .sum (Buf.fresh 15) [(5, 1), (9, 2), (7, 4)]) 5 9) 4 = some 2 := by decide

/-- `merge-arg-order-last` (fix 73bdfe1): last field, slot 5 = 1, slot 25 (window left), slot 5 = 3:
the memory query answered 3, the flushed block held 1; repaired: 3. -/
theorem merge_keeps_older_last_value :
    memView .last (runWritesV Cfg.old 15 .last (Buf.fresh 15) [(5, 1), (25, 2), (5, 3)]) 5 = some 3 ∧
    cellAt (flushCellsV Cfg.old .last (runWritesV Cfg.old 15 .last (Buf.fresh 15) [(5, 1), (25, 2), (5, 3)]) 5 25) 0 = some 1 ∧
    refSlots .last [(5, 1), (25, 2), (5, 3)] 5 = some 3 ∧
    cellAt (flushCells .last (runWrites 15 .last (Buf.fresh 15) [(5, 1), (25, 2), (5, 3)]) 5 25) 0 = some 3 := by decide

def sch : List (Nat × FieldType) := [(1, .sum), (2, .min), (3, .max), (4, .last)]
/-- the repaired code -/
def s0 : Shard := { Shard.init 15 with fieldTypes := sch }
/-- the code before the fixes -/
def sOld : Shard := { Shard.initV Cfg.old 15 with fieldTypes := sch }
def qAll (fld : Nat) (fa : AggType) : Query := ⟨fld, fa, fa, 32, 0, 31, 1⟩

/-- `memdb-created-tick-collision` (fix 4be15ce): two families got memory databases with the same
created time (tick 1); flushing family 0 cleared the shared time range, family 1's own flush then
wrote nothing. Repaired: created times are unique, the point survives. -/
theorem tick_collision_loses_family :
    storeView (runOps sOld [.write 1 0 1 1 .sum 5 1, .write 1 1 1 1 .sum 6 2, .flush 0, .flush 1]) 1 1 1 6 = none ∧
    refCell .sum (pointsOf [.write 1 0 1 1 .sum 5 1, .write 1 1 1 1 .sum 6 2, .flush 0, .flush 1]) 1 1 1 6 = some 2 ∧
    storeView (runOps s0 [.write 1 0 1 1 .sum 5 1, .write 1 1 1 1 .sum 6 2, .flush 0, .flush 1]) 1 1 1 6 = some 2 := by
  decide

/-- `two-functions-one-field-cross-aggregated` (fix eb2ea99): `sum(f), max(f)` on one point 8: the
reduce fed the max array into the sum array as well (16); repaired: 8. -/
theorem two_functions_cross_aggregated :
    arrGet (leafGroup (runOps sOld [.write 1 0 2 1 .sum 7 8]) (qAll 1 .sum) ⟨[1], [2]⟩ [.sum, .max] [0] [2]) .sum 7 = some 16 ∧
    naiveBucket (qAll 1 .sum) (pointsOf [.write 1 0 2 1 .sum 7 8]) [2] [0] 7 = some 8 ∧
    arrGet (leafGroup (runOps s0 [.write 1 0 2 1 .sum 7 8]) (qAll 1 .sum) ⟨[1], [2]⟩ [.sum, .max] [0] [2]) .sum 7 = some 8 ∧
    arrGet (leafGroup (runOps s0 [.write 1 0 2 1 .sum 7 8]) (qAll 1 .sum) ⟨[1], [2]⟩ [.sum, .max] [0] [2]) .max 7 = some 8 := by
  decide

/-- `family-filter-notfound-drops-memory` (fix 636394b): series 1 flushed, series 2 only in
memory, query on series 2: the file filter's not-found failed the whole family. -/
theorem notfound_drops_memory :
    arrGet (leafGroup (runOps sOld [.write 1 0 1 1 .sum 5 1, .flush 0, .write 2 0 2 1 .sum 6 2])
      (qAll 1 .sum) ⟨[1], [2]⟩ [.sum] [0] [2]) .sum 6 = none ∧
    naiveBucket (qAll 1 .sum) (pointsOf [.write 1 0 1 1 .sum 5 1, .flush 0, .write 2 0 2 1 .sum 6 2]) [2] [0] 6 = some 2 ∧
    arrGet (leafGroup (runOps s0 [.write 1 0 1 1 .sum 5 1, .flush 0, .write 2 0 2 1 .sum 6 2])
      (qAll 1 .sum) ⟨[1], [2]⟩ [.sum] [0] [2]) .sum 6 = some 2 := by
  decide

/-- `family-filter-notfound-drops-files` (fix 636394b): field 1 only in the file, the memory
database holds only field 2: the memory filter's field-not-found failed the whole family. -/
theorem notfound_drops_files :
    arrGet (leafGroup (runOps sOld [.write 1 0 1 1 .sum 5 1, .write 1 0 1 2 .min 5 1, .flush 0, .write 2 0 1 2 .min 6 2])
      (qAll 1 .sum) ⟨[1], [1]⟩ [.sum] [0] [1]) .sum 5 = none ∧
    naiveBucket (qAll 1 .sum)
      (pointsOf [.write 1 0 1 1 .sum 5 1, .write 1 0 1 2 .min 5 1, .flush 0, .write 2 0 1 2 .min 6 2]) [1] [0] 5 = some 1 ∧
    arrGet (leafGroup (runOps s0 [.write 1 0 1 1 .sum 5 1, .write 1 0 1 2 .min 5 1, .flush 0, .write 2 0 1 2 .min 6 2])
      (qAll 1 .sum) ⟨[1], [1]⟩ [.sum] [0] [1]) .sum 5 = some 1 := by
  decide

/-- `single-field-file-read-into-first-query-field` (fix c783635): files {fmax} and {fmin}, query
on both: the first file's fmax value was answered as fmin (query field index 0). -/
theorem single_field_file_misattributed :
    arrGet (leafGroup (runOps sOld [.write 1 0 1 3 .max 5 1, .flush 0, .write 2 0 1 2 .min 6 25, .flush 0])
      (qAll 2 .min) ⟨[2, 3], [1]⟩ [.min] [0] [1]) .min 5 = some 1 ∧
    naiveBucket (qAll 2 .min)
      (pointsOf [.write 1 0 1 3 .max 5 1, .flush 0, .write 2 0 1 2 .min 6 25, .flush 0]) [1] [0] 5 = none ∧
    arrGet (leafGroup (runOps s0 [.write 1 0 1 3 .max 5 1, .flush 0, .write 2 0 1 2 .min 6 25, .flush 0])
      (qAll 2 .min) ⟨[2, 3], [1]⟩ [.min] [0] [1]) .min 5 = none := by
  decide

/-- `month-boundary-family-selection` (fix 8adefd6): 2023, families Jun 27 (day 177) and Jul 3
(day 183), query Jun 25 – Jul 5 (days 175..185): nothing was selected; repaired: both. -/
theorem month_boundary_selects_nothing :
    monthSelectV Cfg.old [31, 28, 31, 30, 31, 30, 31, 31, 30, 31, 30, 31] [177, 183] 175 185 = [] ∧
    monthSelectSpec [177, 183] 175 185 = [177, 183] ∧
    monthSelectV Cfg.fixed [31, 28, 31, 30, 31, 30, 31, 31, 30, 31, 30, 31] [177, 183] 175 185 = [177, 183] := by decide

/-! ### not repaired: negations about the current code (known findings) -/

/-- `last-field-flushed-value-wins`: last field, slot 5 = 1, flush, slot 5 = 2: memory is loaded
before the file and `last` keeps what was loaded last. -/
theorem last_field_flushed_value_wins :
    arrGet (leafGroup (runOps s0 [.write 1 0 1 4 .last 5 1, .flush 0, .write 2 0 1 4 .last 5 2])
      (qAll 4 .last) ⟨[4], [1]⟩ [.last] [0] [1]) .last 5 = some 1 ∧
    naiveBucket (qAll 4 .last) (pointsOf [.write 1 0 1 4 .last 5 1, .flush 0, .write 2 0 1 4 .last 5 2]) [1] [0] 5 = some 2 := by
  decide

/-- `last-downsampling-flushed-slot-wins`: slot 1 = 1, flush, slot 4 = 2, `last` per 6 slots. -/
theorem last_downsampling_flushed_slot_wins :
    arrGet (leafGroup (runOps s0 [.write 1 0 1 4 .last 1 1, .flush 0, .write 2 0 1 4 .last 4 2])
      ⟨4, .last, .last, 32, 0, 31, 6⟩ ⟨[4], [1]⟩ [.last] [0] [1]) .last 0 = some 1 ∧
    naiveBucket ⟨4, .last, .last, 32, 0, 31, 6⟩
      (pointsOf [.write 1 0 1 4 .last 1 1, .flush 0, .write 2 0 1 4 .last 4 2]) [1] [0] 0 = some 2 := by
  decide

/-- `max-of-sum-field-split-by-flush`: sum field, slot 7 += 4, flush, slot 7 += 16: `max` sees the
two parts, the slot holds 20. -/
theorem max_of_split_sum_slot :
    arrGet (leafGroup (runOps s0 [.write 1 0 1 1 .sum 7 4, .flush 0, .write 2 0 1 1 .sum 7 16])
      ⟨1, .sum, .max, 32, 0, 31, 1⟩ ⟨[1], [1]⟩ [.max] [0] [1]) .max 7 = some 16 ∧
    naiveBucket ⟨1, .sum, .max, 32, 0, 31, 1⟩
      (pointsOf [.write 1 0 1 1 .sum 7 4, .flush 0, .write 2 0 1 1 .sum 7 16]) [1] [0] 7 = some 20 := by
  decide

end Neg

end LinVerif.Props.C11
