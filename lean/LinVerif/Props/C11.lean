/-
C11 — "A query returns what a naive model computes from the written points".

Property theorems only (helper lemmas: LinVerif/Lemmas/C11*.lean).  The full-strength statement

    ∀ ops q, leaf (run ops) q = naiveQuery q (pointsOf ops)          -- (FULL)

is FALSE of the code as it is (see `namespace Neg`: each theorem there is a concrete witness that is
replayed against the real implementation on every run).  What is proved instead are the `_partial`
theorems, each under the explicit hypothesis that excludes the failing region:

* `write_buffer_refines_slotmap_partial`  one page: every run whose steps are `goodStep`
  (no first-time slot before the current `end`; a first/last page is only compacted without overlap)
* `storage_refines_slotmap_partial`       whole shard: any sequence of writes / window compactions /
  flushes / file compactions / reopens with `goodOps` (page steps good, created-times distinct,
  schema registered, first/last pages flushed without overlap)
* `flush_placement_independent`           hence: same writes, any placement of flush/compact/reopen
* `month_family_selection_partial`        month-type family selection for ranges inside one month
-/
import LinVerif.Lemmas.C11Refine
import LinVerif.Lemmas.C11Query
import LinVerif.Lemmas.C11Compose
import LinVerif.Generated.C11

namespace LinVerif.Props.C11
open LinVerif LinVerif.NaiveQuery LinVerif.MemDB LinVerif.Lemmas.C11

/-! ## ties to the generated facts (re-extracted from /repo on every run) -/

/-- the time window of a page: `(pageSize - headLen) / valueSize` slots. -/
theorem window_tie : (Generated.C11.pageSize - Generated.C11.headLen) / Generated.C11.valueSize = 15 := by decide

theorem timeWindow_expr_tie :
    Generated.C11.timeWindowExpr = "return uint16((len(buf) - headLen) / valueSize)" := by decide

/-- the body fits the page, and the window's mark bits fit the two mark bytes next to the
"has data" flag (the last bit of the second byte). -/
theorem layout_tie :
    Generated.C11.bodyOffset + Generated.C11.valueSize * 15 ≤ Generated.C11.pageSize ∧
    15 < 2 * Generated.C11.markContainer ∧
    Generated.C11.bodyOffset = Generated.C11.markOffset + 2 ∧
    Generated.C11.markOffset = Generated.C11.endOffset + 1 ∧
    Generated.C11.endOffset = Generated.C11.startOffset + 2 := by decide

/-- `write` assigns `buf[endOffset] = byte(delta)` for every first-time slot, unguarded
(model: `endd := d` in the unmarked branch of `MemDB.write`). -/
theorem write_end_assignment_tie :
    Generated.C11.writeEndAssignments =
      ["!(buf[markOffset+markIdx]&flagIdx != 0) => buf[endOffset] = byte(delta)"] := by decide

/-- argument orders of `Aggregate` in `write` (old, new) and in `merge` (new, old)
(model: `A.agg old v` in `write`, `A.agg n o` in `mergeCell`). -/
theorem aggregate_arg_order_tie :
    Generated.C11.writeAggregateArgs = ["oldValue,value"] ∧
    Generated.C11.mergeAggregateArgs = ["newValue,oldValue"] := by decide

theorem getCurrentValue_guard_tie :
    Generated.C11.getCurrentValueGuard = "timeSlot < startTime || timeSlot > startTime+getEnd(buf)" := by decide

/-- `AggType.Aggregate` case by case (model: `AggType.agg`). -/
theorem aggregate_table_tie :
    Generated.C11.aggregateExprTable =
      [(1, "a + b"), (2, "a + b"), (3, "math.Min(a, b)"), (4, "math.Max(a, b)"), (5, "b"), (6, "a")] := by decide

theorem agg_codes_tie :
    AggType.all.map (fun A => A.code) = Generated.C11.aggTypeCodes.map Prod.snd ∧
    FieldType.all.map (fun t => t.code) = Generated.C11.fieldTypeCodes.map Prod.snd ∧
    FuncType.all.map (fun f => f.code) = Generated.C11.funcTypeCodes.map Prod.snd := by decide

/-- `Type.AggType()`, `Type.DownSamplingFunc()`. -/
theorem field_tables_tie :
    (∀ ft ∈ FieldType.all, Map.lookup Generated.C11.fieldAggTable ft.code = some ft.aggType.code) ∧
    (∀ ft ∈ FieldType.all, Map.lookup Generated.C11.downSamplingTable ft.code = some ft.downSamplingFunc.code) := by
  decide

set_option maxRecDepth 20000 in
/-- `Type.IsFuncSupported`, `Type.GetFuncFieldParams`. -/
theorem func_tables_tie :
    (FieldType.all.flatMap (fun ft => FuncType.all.map (fun f => (ft.code, f.code, ft.isFuncSupported f)))) =
      Generated.C11.funcSupportedTable ∧
    (FieldType.all.flatMap (fun ft => FuncType.all.map (fun f => (ft.code, f.code, [(ft.funcParam f).code])))) =
      Generated.C11.funcParamsTable := by
  decide +kernel

/-- `timeSeriesIndex.Load`: per series the compress buffer is down-sampled before the write buffer
(model: `memCalls`). -/
theorem load_order_tie :
    Generated.C11.indexLoadCalls =
      ["lock.RLock", "defer:lock.RUnlock", "ids.Keys", "ids.Keys().GetContainerIndex", "ids.Keys",
       "ids.Keys().GetContainerAtIndex", "ids.Values", "λ:fm.getCompressBuf", "λ:len", "λ:tsd.Reset", "λ:int",
       "λ:ctx.DownSampling", "λ:fm.getPage", "λ:fm.Reset", "λ:int", "λ:ctx.DownSampling",
       "ctx.IterateLowSeriesIDs"] := by decide

/-- `dataFamily.Filter`: memory result sets, then file result sets; a failing source fails the
family (model: `familyCalls`). -/
theorem family_filter_order_tie :
    Generated.C11.familyFilterCalls =
      ["fasttime.UnixMilliseconds", "lastReadTime.Store", "f.memoryFilter", "f.fileFilter", "append", "append"] ∧
    Generated.C11.familyMemoryFilterCalls =
      ["λ:memDB.Filter", "λ:append", "mutex.Lock", "defer:mutex.Unlock", "memFilter", "memFilter"] := by decide

/-- the `DownSampling` loop statement by statement (model: `dsLoop`). -/
theorem downsampling_loop_tie :
    Generated.C11.downSamplingLoop =
      ["for movingSourceSlot := source.Start; movingSourceSlot <= source.End; movingSourceSlot++",
       "value, ok := getter.GetValue(movingSourceSlot)", "if !ok { continue }",
       "if movingSourceSlot < start { continue }", "if movingSourceSlot > end { break }",
       "targetSlot := (baseSlot + int(movingSourceSlot)) / intervalRatio", "emitValue(targetSlot, value)"] := by
  decide

/-- `fieldAggregator.Aggregate` feeds every primitive iterator into `AggregateBySlot`
(model: `reduceInto`). -/
theorem field_aggregate_tie :
    Generated.C11.fieldAggregateCalls = ["it.HasNext", "it.Next", "pIt.HasNext", "pIt.Next", "a.AggregateBySlot"] := by
  decide

/-- function calls (model: `funcCall`). -/
theorem func_call_tie :
    Generated.C11.funcCallPassThrough =
      [FuncType.sum, .min, .max, .count, .last, .first].map (fun f => f.code) ∧
    Generated.C11.rateValueExpr = "val / float64(interval/timeutil.OneSecond)" := by decide

/-- the memory database's created time is a `fasttime` tick; `Cleanup` clears the time range kept
under it (model: `MemDB.created`, `Shard.ranges`, `Shard.flush`). -/
theorem created_time_tie :
    Generated.C11.memdbCreatedTimeExpr = "fasttime.UnixNano()" ∧
    Generated.C11.indexCleanupCalls =
      ["db.CreatedTime", "fasttime.UnixMilliseconds", "db.MemTimeSeriesIDs", "λ:timeSeriesIndex.ClearTimeRange",
       "λ:timeSeriesIndex.ExpireTimeSeriesIDs", "λ:timeSeriesIndex.GC", "λ:timeSeriesIndex.NumOfSeries",
       "λ:timeSeriesIndexes.Delete", "timeSeriesIndexes.Range"] := by decide

/-- the month calculator's `CalcFamily` is the day of month of the timestamp alone, and
`segment.GetDataFamilies` builds its family range from it (model: `monthFamilySelected`). -/
theorem month_calc_tie :
    Generated.C11.monthCalcFamilyBody = ["t := time.Unix(timestamp/1000, 0)", "return t.Day()"] ∧
    Generated.C11.segmentGetDataFamiliesCalls =
      ["interval.Calculator", "calc.CalcFamily", "calc.CalcFamilyStartTime", "calc.CalcFamily",
       "calc.CalcFamilyStartTime", "kvStore.ListFamilyNames", "strconv.Atoi", "s.getOrLoadFamily",
       "family.TimeRange", "familyQueryTimeRange.Overlap", "append"] := by decide

/-- a file with one field is down-sampled into query field index 0 (model: `blockSourceField`). -/
theorem single_field_read_tie :
    Generated.C11.readSeriesDataSingleField =
      "decoder.ResetWithTimeRange(seriesEntryBlock, r.timeRange.Start, r.timeRange.End) ; ctx.DownSampling(r.timeRange, seriesIdx, 0, decoder) ; return" := by
  rfl

/-! ## the write buffer -/

/-- **Page level.** For every aggregate, every window size and every write sequence whose steps
are all `goodStep`, what a memory query sees of the page (compress buffer, then write window) is
the reference slot map: all values written to a slot, combined in arrival order. -/
theorem write_buffer_refines_slotmap_partial (w : Nat) (hw : 0 < w) (A : AggType) (ws : List (Nat × Int))
    (hg : goodRunB w A (Buf.fresh w) ws = true) (t : Nat) :
    memView A (runWrites w A (Buf.fresh w) ws) t = refSlots A ws t := by
  have := (run_refines w A ws (Buf.fresh w) (BufInv.fresh hw) hg).2 t
  simpa [memView_fresh] using this

/-- An extensional sufficient condition: the slots of the page arrive in non-decreasing order.
Then the refinement holds for every field type, first/last included. -/
theorem write_buffer_refines_sorted (w : Nat) (hw : 0 < w) (A : AggType) (ws : List (Nat × Int))
    (hs : ws.Pairwise (fun a c => a.1 ≤ c.1)) (t : Nat) :
    memView A (runWrites w A (Buf.fresh w) ws) t = refSlots A ws t :=
  write_buffer_refines_slotmap_partial w hw A ws (sorted_goodRun w hw A ws hs) t

/-- the hypothesis is satisfiable by a run that leaves the window, re-enters it and writes
duplicates (sum field, real window size). -/
example : goodRunB 15 .sum (Buf.fresh 15) [(5, 1), (7, 2), (9, 4), (7, 8), (30, 1), (6, 3), (6, 5), (31, 2)] = true := by
  decide

/-- a flush writes, for every slot of the metric-level range, what the memory query saw
(commutative aggregate, or no slot both in the window and in the compress buffer). -/
theorem flush_cells_eq_memview (w : Nat) (b : Buf) (A : AggType) (hi : BufInv w b)
    (hc : AggType.isComm A = true ∨ overlapB b = false) (lo hiR t : Nat)
    (hcov : ∀ t, memView A b t ≠ none → lo ≤ t ∧ t ≤ hiR) :
    (if t < lo ∨ t > hiR then none else cellAt (flushCells A b lo hiR) (t - lo)) = memView A b t :=
  flushCell_eq_memView A hi hc lo hiR t hcov

/-! ## the shard: mutable memory database ∪ files -/

/-- **Storage refinement.** `abs(state) = storeView : family → series → field → slot → Option V`
(the family's files in the order they were written, then its memory database). After ANY sequence
of writes (with their window compactions) / flushes / file compactions / reopens that satisfies
`goodOps`, it equals the reference slot map of the points written. -/
theorem storage_refines_slotmap_partial (w : Nat) (hw : 0 < w) (sch : List (Nat × FieldType)) (ops : List Op)
    (hg : goodOps { Shard.init w with fieldTypes := sch } ops = true) (fam ser fld t : Nat) :
    storeView (runOps { Shard.init w with fieldTypes := sch } ops) fam ser fld t =
      refCell ((runOps { Shard.init w with fieldTypes := sch } ops).fieldAgg fld) (pointsOf ops) fam ser fld t := by
  have := (inv_runOps ops _ [] (inv_init w hw sch) hg).refines fam ser fld t
  simpa using this

/-- **Independence of flush / compaction / reopen placement.** Two histories with the same
accepted points, whatever the placement of flushes, file compactions and reopens between them,
hold the same slot maps. -/
theorem flush_placement_independent (w : Nat) (hw : 0 < w) (sch : List (Nat × FieldType)) (ops1 ops2 : List Op)
    (h1 : goodOps { Shard.init w with fieldTypes := sch } ops1 = true)
    (h2 : goodOps { Shard.init w with fieldTypes := sch } ops2 = true)
    (hp : pointsOf ops1 = pointsOf ops2) (fam ser fld t : Nat) :
    storeView (runOps { Shard.init w with fieldTypes := sch } ops1) fam ser fld t =
      storeView (runOps { Shard.init w with fieldTypes := sch } ops2) fam ser fld t := by
  rw [storage_refines_slotmap_partial w hw sch ops1 h1, storage_refines_slotmap_partial w hw sch ops2 h2, hp,
    runOps_fieldAgg _ ops1 h1, runOps_fieldAgg _ ops2 h2]

/-- the hypotheses are satisfiable by a history with two families, out-of-window writes, a flush
between two writes of one slot, a file compaction and a reopen. -/
example : goodOps { Shard.init 15 with fieldTypes := [(1, .sum), (2, .min)] }
    [.write 1 0 1 1 .sum 5 1, .write 1 0 1 2 .min 5 7, .write 2 1 1 1 .sum 9 2, .write 1 0 1 1 .sum 40 3,
     .flush 0, .write 3 0 1 1 .sum 5 10, .flush 0, .compact 0, .write 4 0 2 1 .sum 6 1, .reopen,
     .write 5 1 1 1 .sum 9 4] = true := by decide

/-! ## month-type family selection -/

/-- for a query range inside one month the month-type selection returns exactly the families
whose day lies in the range. -/
theorem month_family_selection_partial (lens : List Nat) (hpos : ∀ l ∈ lens, 0 < l) (qs qe f : Nat)
    (hle : qs ≤ qe) (hqe : qe < monthStart lens lens.length) (hf : f < monthStart lens lens.length)
    (hsame : (monthOfDay lens qs).1 = (monthOfDay lens qe).1) :
    monthFamilySelected lens qs qe f = (decide (qs ≤ f) && decide (f ≤ qe)) :=
  monthFamilySelected_same_month lens hpos qs qe f hle hqe hf hsame

theorem month_select_partial (lens : List Nat) (hpos : ∀ l ∈ lens, 0 < l) (fams : List Nat) (qs qe : Nat)
    (hle : qs ≤ qe) (hqe : qe < monthStart lens lens.length) (hf : ∀ f ∈ fams, f < monthStart lens lens.length)
    (hsame : (monthOfDay lens qs).1 = (monthOfDay lens qe).1) :
    monthSelect lens fams qs qe = monthSelectSpec fams qs qe := by
  unfold monthSelect monthSelectSpec
  apply List.filter_congr
  intro f hfm
  exact month_family_selection_partial lens hpos qs qe f hle hqe (hf f hfm) hsame

/-! ## down-sampling, leaf reduce, field functions -/

/-- **Down-sampling.** One `DownSampling` call (fresh field aggregator, one agg type `A`) leaves in
bucket `t` the `A`-fold, slots ascending, of the source values whose slot lies in the family's
query slot range and whose bucket `(base + slot) / ratio` is `t`. -/
theorem downsample_correct (A : AggType) (get : Nat → Option Int) (srcLo srcHi tLo tHi g0 qs ratio t : Nat) :
    arrGet (dsCall [A] get srcLo srcHi tLo tHi g0 qs ratio) A t =
      fsum A (slotsOf srcLo srcHi)
        (fun s => if tLo ≤ s ∧ s ≤ tHi ∧ (g0 + s - qs) / ratio = t then get s else none) :=
  dsCall_spec A get srcLo srcHi tLo tHi g0 qs ratio t

/-- **Leaf reduce** for one agg type: the reduced bucket is the fold, in call order, of the calls'
buckets. -/
theorem leaf_reduce_correct (A : AggType) (calls : List Arrays) (hw : ∀ c ∈ calls, WF1 A c) (t : Nat) :
    arrGet (calls.foldl reduceInto (Arrays.init [A])) A t = fsum A calls (fun c => arrGet c A t) :=
  reduce_spec A calls hw t

/-- **Memory query of one page, end to end** (write buffer + window compactions + the two
`DownSampling` calls of `timeSeriesIndex.Load` + leaf reduce): for a commutative field aggregate
and every good write sequence, bucket `t` of the leaf answer is the fold over the slots of the
reference slot map that fall into the bucket — whatever the window / compress-buffer state. -/
theorem page_query_eq_naive_partial (w : Nat) (hw : 0 < w) (A : AggType) (hc : AggType.isComm A = true)
    (ws : List (Nat × Int)) (hg : goodRunB w A (Buf.fresh w) ws = true)
    (lo hi tLo tHi g0 qs ratio t : Nat) :
    arrGet ((pageCalls [A] (runWrites w A (Buf.fresh w) ws) lo hi tLo tHi g0 qs ratio).foldl reduceInto
        (Arrays.init [A])) A t =
      fsum A (slotsOf lo hi)
        (fun s => if tLo ≤ s ∧ s ≤ tHi ∧ (g0 + s - qs) / ratio = t then refSlots A ws s else none) := by
  obtain ⟨hinv, hview⟩ := run_refines w A ws (Buf.fresh w) (BufInv.fresh hw) hg
  rw [pageCalls_spec (agg_comm_of_isComm hc) _ hinv]
  apply fsum_congr
  intro s _
  rw [hview s]
  simp [memView_fresh]

/-- **The same page after its flush**: the one `DownSampling` call on the flushed cells gives the
same buckets as the memory query gave (the metric-level range `[lo, hi]` covers the written
slots). Together with `storage_refines_slotmap_partial` this is the leaf-level form of
"independent of when memory databases were flushed". -/
theorem page_query_flush_invariant (w : Nat) (hw : 0 < w) (A : AggType) (hc : AggType.isComm A = true)
    (ws : List (Nat × Int)) (hg : goodRunB w A (Buf.fresh w) ws = true)
    (lo hi : Nat) (hcov : ∀ s, refSlots A ws s ≠ none → lo ≤ s ∧ s ≤ hi) (tLo tHi g0 qs ratio t : Nat) :
    arrGet (dsCall [A]
        (fun slot => if slot < lo ∨ slot > hi then none
          else cellAt (flushCells A (runWrites w A (Buf.fresh w) ws) lo hi) (slot - lo))
        lo hi tLo tHi g0 qs ratio) A t =
      arrGet ((pageCalls [A] (runWrites w A (Buf.fresh w) ws) lo hi tLo tHi g0 qs ratio).foldl reduceInto
        (Arrays.init [A])) A t := by
  obtain ⟨hinv, hview⟩ := run_refines w A ws (Buf.fresh w) (BufInv.fresh hw) hg
  rw [pageCalls_spec (agg_comm_of_isComm hc) _ hinv, dsCall_spec]
  apply fsum_congr
  intro s _
  have hcov' : ∀ t, memView A (runWrites w A (Buf.fresh w) ws) t ≠ none → lo ≤ t ∧ t ≤ hi := by
    intro t ht
    apply hcov t
    rw [hview t] at ht
    simpa [memView_fresh] using ht
  rw [flushCell_eq_memView A hinv (Or.inl hc) lo hi s hcov']

/-- **Leaf answer = naive reference.** For every history of writes / window compactions /
flushes / file compactions / reopens with `goodOps`, every query on a field whose function's agg
type is the field's own commutative aggregate (sum on sum/histogram, min on min, max on max), any
time range, interval ratio, group of series and list of families: if in every family the query
does not hit a not-found rule and every overlapping file feeds the queried field (`familyOKB`,
executable), then bucket `t` of the leaf answer of the group equals the reference — independent of
where the flushes, compactions and reopens were placed. -/
theorem query_eq_naive_partial (w : Nat) (hw : 0 < w) (sch : List (Nat × FieldType)) (ops : List Op)
    (hg : goodOps { Shard.init w with fieldTypes := sch } ops = true)
    (q : Query) (sc : Scope) (fams group : List Nat)
    (hfa : (runOps { Shard.init w with fieldTypes := sch } ops).fieldAgg q.field = q.fieldAgg)
    (hF : q.funcAgg = q.fieldAgg) (hc : AggType.isComm q.fieldAgg = true) (hspf : 0 < q.spf)
    (hok : ∀ fam ∈ fams, familyOKB (runOps { Shard.init w with fieldTypes := sch } ops) q sc fam = true) (t : Nat) :
    arrGet (leafGroup (runOps { Shard.init w with fieldTypes := sch } ops) q sc [q.fieldAgg] fams group) q.fieldAgg t =
      naiveBucket q (pointsOf ops) group fams t := by
  have hinv : Inv (runOps { Shard.init w with fieldTypes := sch } ops) (pointsOf ops) := by
    simpa using inv_runOps ops _ [] (inv_init w hw sch) hg
  have hcomm : AggComm ((runOps { Shard.init w with fieldTypes := sch } ops).fieldAgg q.field) := by
    rw [hfa]; exact agg_comm_of_isComm hc
  have := leafGroup_eq_fsum _ _ hinv q sc hspf hcomm fams group
    (fun fam hf => familyOK_of_B _ q sc fam (hok fam hf)) t
  rw [hfa] at this
  rw [this, naiveBucket_eq_fsum, hF]
  apply fsum_congr
  intro ser _
  apply fsum_congr
  intro fam _
  apply fsum_congr
  intro slot _
  have hr := hinv.refines fam ser q.field slot
  rw [hfa] at hr
  rw [hr]

/-- the answer of the group as the leaf sends it (non-empty buckets, ascending). -/
theorem query_group_eq_naive_partial (w : Nat) (hw : 0 < w) (sch : List (Nat × FieldType)) (ops : List Op)
    (hg : goodOps { Shard.init w with fieldTypes := sch } ops = true)
    (q : Query) (sc : Scope) (fams group : List Nat)
    (hfa : (runOps { Shard.init w with fieldTypes := sch } ops).fieldAgg q.field = q.fieldAgg)
    (hF : q.funcAgg = q.fieldAgg) (hc : AggType.isComm q.fieldAgg = true) (hspf : 0 < q.spf)
    (hok : ∀ fam ∈ fams, familyOKB (runOps { Shard.init w with fieldTypes := sch } ops) q sc fam = true) :
    bucketsOf q (leafGroup (runOps { Shard.init w with fieldTypes := sch } ops) q sc [q.fieldAgg] fams group) q.fieldAgg =
      naiveGroup q (pointsOf ops) group fams := by
  unfold bucketsOf naiveGroup
  congr 1
  funext t
  rw [query_eq_naive_partial w hw sch ops hg q sc fams group hfa hF hc hspf hok t]

/-- the hypotheses are satisfiable: two series, two families, window exits, a flush between two
writes of one slot, a file compaction, a reopen; query over both families with ratio 6. -/
example :
    let ops : List Op := [.write 1 0 1 1 .sum 5 1, .write 1 0 2 1 .sum 5 7, .write 2 1 1 1 .sum 9 2,
      .write 1 0 1 1 .sum 30 3, .flush 0, .write 3 0 1 1 .sum 5 10, .write 3 0 2 1 .sum 6 1, .flush 0, .compact 0,
      .write 4 0 1 1 .sum 7 1, .write 4 0 2 1 .sum 7 1]
    let s := runOps { Shard.init 15 with fieldTypes := [(1, .sum)] } ops
    let q : Query := ⟨1, .sum, .sum, 32, 0, 63, 6⟩
    goodOps { Shard.init 15 with fieldTypes := [(1, .sum)] } ops = true ∧
    (∀ fam ∈ [0, 1], familyOKB s q ⟨[1], [1, 2]⟩ fam = true) ∧
    bucketsOf q (leafGroup s q ⟨[1], [1, 2]⟩ [.sum] [0, 1] [1, 2]) .sum = [(0, 18), (1, 3), (5, 3), (6, 2)] := by
  decide

/-- **Field functions** on the abstract map: sum/min/max/count/first/last return the field's array
for the function's agg type unchanged, `rate` divides by the query interval in seconds. -/
theorem expr_eval_correct (f : FuncType) (sec : Nat) (v : Int) :
    funcCall f sec v =
      (match f with
        | .sum | .min | .max | .count | .last | .first => some ⟨v, 1⟩
        | .rate => some ⟨v, sec⟩
        | _ => none) := by
  cases f <;> rfl

/-! ## proved negations (witnesses replayed against the implementation on every run) -/

namespace Neg

set_option maxRecDepth 50000

/-- `field-writer-end-shrinks`: sum field, slots 5, 9, 7 in one window: `end` shrinks to 2 and
slot 9 is invisible to the memory query (and to compaction and flush). -/
theorem end_shrinks_hides_slot :
    memView .sum (runWrites 15 .sum (Buf.fresh 15) [(5, 1), (9, 2), (7, 4)]) 9 = none ∧
    refSlots .sum [(5, 1), (9, 2), (7, 4)] 9 = some 2 ∧
    goodRunB 15 .sum (Buf.fresh 15) [(5, 1), (9, 2), (7, 4)] = false := by decide

/-- ... and the flush writes the block without it. -/
theorem end_shrinks_flush_loses_slot :
    cellAt (flushCells .sum (runWrites 15 .sum (Buf.fresh 15) [(5, 1), (9, 2), (7, 4)]) 5 9) 4 = none := by decide

/-- `merge-arg-order-last`: last field, slot 5 = 1, slot 25 (window left), slot 5 = 3: the memory
query answers 3, the flushed block holds 1. -/
theorem merge_keeps_older_last_value :
    memView .last (runWrites 15 .last (Buf.fresh 15) [(5, 1), (25, 2), (5, 3)]) 5 = some 3 ∧
    cellAt (flushCells .last (runWrites 15 .last (Buf.fresh 15) [(5, 1), (25, 2), (5, 3)]) 5 25) 0 = some 1 ∧
    refSlots .last [(5, 1), (25, 2), (5, 3)] 5 = some 3 := by decide

def sch : List (Nat × FieldType) := [(1, .sum), (2, .min), (3, .max), (4, .last)]
def s0 : Shard := { Shard.init 15 with fieldTypes := sch }
def qAll (fld : Nat) (fa : AggType) : Query := ⟨fld, fa, fa, 32, 0, 31, 1⟩

/-- `memdb-created-tick-collision`: two families get memory databases with the same created time;
flushing family 0 clears the shared time range, family 1's own flush then writes nothing. -/
theorem tick_collision_loses_family :
    storeView (runOps s0 [.write 1 0 1 1 .sum 5 1, .write 1 1 1 1 .sum 6 2, .flush 0, .flush 1]) 1 1 1 6 = none ∧
    refCell .sum (pointsOf [.write 1 0 1 1 .sum 5 1, .write 1 1 1 1 .sum 6 2, .flush 0, .flush 1]) 1 1 1 6 = some 2 ∧
    goodOps s0 [.write 1 0 1 1 .sum 5 1, .write 1 1 1 1 .sum 6 2, .flush 0, .flush 1] = false := by decide

/-- `last-field-flushed-value-wins`: last field, slot 5 = 1, flush, slot 5 = 2: memory is loaded
before the file and `last` keeps what was loaded last. -/
theorem last_field_flushed_value_wins :
    arrGet (leafGroup (runOps s0 [.write 1 0 1 4 .last 5 1, .flush 0, .write 2 0 1 4 .last 5 2])
      (qAll 4 .last) ⟨[4], [1]⟩ [.last] [0] [1]) .last 5 = some 1 ∧
    naiveBucket (qAll 4 .last) (pointsOf [.write 1 0 1 4 .last 5 1, .flush 0, .write 2 0 1 4 .last 5 2]) [1] [0] 5 = some 2 := by
  decide

/-- `last-downsampling-flushed-slot-wins`: slot 1 = 1, flush, slot 4 = 2, `last` per 6 slots. -/
theorem last_downsampling_flushed_slot_wins :
    arrGet (leafGroup (runOps s0 [.write 1 0 1 4 .last 1 1, .flush 0, .write 2 0 1 4 .last 4 2])
      ⟨4, .last, .last, 32, 0, 31, 6⟩ ⟨[4], [1]⟩ [.last] [0] [1]) .last 0 = some 1 ∧
    naiveBucket ⟨4, .last, .last, 32, 0, 31, 6⟩
      (pointsOf [.write 1 0 1 4 .last 1 1, .flush 0, .write 2 0 1 4 .last 4 2]) [1] [0] 0 = some 2 := by
  decide

/-- `max-of-sum-field-split-by-flush`: sum field, slot 7 += 4, flush, slot 7 += 16: `max` sees the
two parts, the slot holds 20. -/
theorem max_of_split_sum_slot :
    arrGet (leafGroup (runOps s0 [.write 1 0 1 1 .sum 7 4, .flush 0, .write 2 0 1 1 .sum 7 16])
      ⟨1, .sum, .max, 32, 0, 31, 1⟩ ⟨[1], [1]⟩ [.max] [0] [1]) .max 7 = some 16 ∧
    naiveBucket ⟨1, .sum, .max, 32, 0, 31, 1⟩
      (pointsOf [.write 1 0 1 1 .sum 7 4, .flush 0, .write 2 0 1 1 .sum 7 16]) [1] [0] 7 = some 20 := by
  decide

/-- `two-functions-one-field-cross-aggregated`: `sum(f), max(f)` on one point 8: the reduce feeds
the max array into the sum array as well. -/
theorem two_functions_cross_aggregated :
    arrGet (leafGroup (runOps s0 [.write 1 0 2 1 .sum 7 8]) (qAll 1 .sum) ⟨[1], [2]⟩ [.sum, .max] [0] [2]) .sum 7 = some 16 ∧
    naiveBucket (qAll 1 .sum) (pointsOf [.write 1 0 2 1 .sum 7 8]) [2] [0] 7 = some 8 := by
  decide

/-- `family-filter-notfound-drops-memory`: series 1 flushed, series 2 only in memory, query on
series 2: the file filter's not-found fails the whole family. -/
theorem notfound_drops_memory :
    arrGet (leafGroup (runOps s0 [.write 1 0 1 1 .sum 5 1, .flush 0, .write 2 0 2 1 .sum 6 2])
      (qAll 1 .sum) ⟨[1], [2]⟩ [.sum] [0] [2]) .sum 6 = none ∧
    naiveBucket (qAll 1 .sum) (pointsOf [.write 1 0 1 1 .sum 5 1, .flush 0, .write 2 0 2 1 .sum 6 2]) [2] [0] 6 = some 2 := by
  decide

/-- `family-filter-notfound-drops-files`: field 1 only in the file, the memory database holds only
field 2: the memory filter's field-not-found fails the whole family. -/
theorem notfound_drops_files :
    arrGet (leafGroup (runOps s0 [.write 1 0 1 1 .sum 5 1, .write 1 0 1 2 .min 5 1, .flush 0, .write 2 0 1 2 .min 6 2])
      (qAll 1 .sum) ⟨[1], [1]⟩ [.sum] [0] [1]) .sum 5 = none ∧
    naiveBucket (qAll 1 .sum)
      (pointsOf [.write 1 0 1 1 .sum 5 1, .write 1 0 1 2 .min 5 1, .flush 0, .write 2 0 1 2 .min 6 2]) [1] [0] 5 = some 1 := by
  decide

/-- `single-field-file-read-into-first-query-field`: files {fmax} and {fmin}, query on both: the
first file's fmax value is answered as fmin (query field index 0). -/
theorem single_field_file_misattributed :
    arrGet (leafGroup (runOps s0 [.write 1 0 1 3 .max 5 1, .flush 0, .write 2 0 1 2 .min 6 25, .flush 0])
      (qAll 2 .min) ⟨[2, 3], [1]⟩ [.min] [0] [1]) .min 5 = some 1 ∧
    naiveBucket (qAll 2 .min)
      (pointsOf [.write 1 0 1 3 .max 5 1, .flush 0, .write 2 0 1 2 .min 6 25, .flush 0]) [1] [0] 5 = none := by
  decide

/-- `month-boundary-family-selection`: 2023, families Jun 27 (day 177) and Jul 3 (day 183),
query Jun 25 – Jul 5 (days 175..185): nothing is selected. -/
theorem month_boundary_selects_nothing :
    monthSelect [31, 28, 31, 30, 31, 30, 31, 31, 30, 31, 30, 31] [177, 183] 175 185 = [] ∧
    monthSelectSpec [177, 183] 175 185 = [177, 183] := by decide

end Neg

end LinVerif.Props.C11
