/-
C11 — "A query returns what a naive model computes from the written points".

Property theorems only (helper lemmas: LinVerif/Lemmas/C11*.lean). The model has two variants of
every statement that a `fix:` commit of this property repaired (`Cfg`); the regenerated facts
select the variant (`cfg_tie`). The theorems are about the repaired code:

* `write_buffer_refines_slotmap`   one page, EVERY aggregate, EVERY write sequence (no hypothesis)
* `storage_refines_slotmap`        whole shard, any sequence of writes / window compactions / flushes /
                                   file compactions / reopens (only: a field is written with its registered type)
* `flush_placement_independent`    hence: same writes, any placement of flush / compact / reopen
* `month_family_selection`         month-type family selection, every query range
* `query_eq_naive_partial`         leaf answer = reference for a function whose agg type is the field's
                                   own commutative aggregate, over any series / families / sources, with ANY
                                   other functions selected on the same field (`leaf_reduce_correct`,
                                   `leaf_reduce_by_type`, `leaf_reduce_fields_correct`: the by-type reduce)
* `expr_eval_correct`, `expr_eval_congr`, `select_item_eq_naive_partial`
                                   select items with nested calls / literals / binary arithmetic, point by
                                   point, and end to end over the leaf answer
* `query_all_groups_eq_naive_partial`  tag filter + group-by under the index contract of C10 (hypothesis
                                   `IndexContract`, citing `Props.C10.filter_eq_eval_now`)
* `query_eq_naive_first_last_partial`  first/last (any aggregate): time-ordered writes inside one source,
                                   cross-source findings excluded by `OneSource`
The remaining `_partial` hypotheses exclude the four findings that are NOT repaired (first/last and
non-native functions over several storage units; second half of the negations at the end of the
file). The first half of the negations is about the OLD variants: they document what each fix
repaired, next to the proof that the repaired variant answers the reference on the same witness.
-/
import LinVerif.Lemmas.C11Refine
import LinVerif.Lemmas.C11Query
import LinVerif.Lemmas.C11Compose
import LinVerif.Lemmas.C11Expr
import LinVerif.Lemmas.C11Groups
import LinVerif.Lemmas.C11Sorted
import LinVerif.Lemmas.C11Sources
import LinVerif.Lemmas.C11Block
import LinVerif.Lemmas.C11BlockRT
import LinVerif.Lemmas.C11Pending
import LinVerif.Lemmas.C11Iter
import LinVerif.Lemmas.C11QuerySnap
import LinVerif.Model.C11FlushFault
import LinVerif.Generated.C11
import LinVerif.Driver.C11

namespace LinVerif.Props.C11
open LinVerif LinVerif.NaiveQuery LinVerif.MemDB LinVerif.Lemmas.C11

/-! ## ties to the generated facts (re-extracted from /repo on every run) -/

/-- the regenerated facts describe the repaired code: all seven fixes of this property are in the
source (a reverted fix selects the old model variant and this obligation fails by name). -/
theorem cfg_tie : LinVerif.Driver.C11.cfgOfFacts = Cfg.fixed := by decide

/-- the time window of a page: `(pageSize - headLen) / valueSize` slots. -/
theorem window_tie : (Generated.C11.pageSize - Generated.C11.headLen) / Generated.C11.valueSize = 15 := by decide

theorem timeWindow_expr_tie :
    Generated.C11.timeWindowExpr = "return uint16((len(buf) - headLen) / valueSize)" := by decide

/-- the body fits the page, and the window's mark bits fit the two mark bytes next to the
"has data" flag (the last bit of the second byte). -/
theorem layout_tie :
    Generated.C11.bodyOffset + Generated.C11.valueSize * 15 ≤ Generated.C11.pageSize ∧
    15 < 2 * Generated.C11.markContainer ∧
    Generated.C11.bodyOffset = Generated.C11.markOffset + 2 ∧
    Generated.C11.markOffset = Generated.C11.endOffset + 1 ∧
    Generated.C11.endOffset = Generated.C11.startOffset + 2 := by decide

/-- `write` assigns `buf[endOffset] = byte(delta)` for a first-time slot only when it lies beyond
the current end (model: `endd := if d > endd then d else endd` in `MemDB.writeG true`). -/
theorem write_end_assignment_tie :
    Generated.C11.writeEndAssignments =
      ["!(buf[markOffset+markIdx]&flagIdx != 0) && byte(delta) > buf[endOffset] => buf[endOffset] = byte(delta)"] := by
  decide

/-- argument orders of `Aggregate` in `write` (old, new) and in `merge` (old, new)
(model: `A.agg old v` in `write`, `A.agg o n` in `mergeCell`). -/
theorem aggregate_arg_order_tie :
    Generated.C11.writeAggregateArgs = ["oldValue,value"] ∧
    Generated.C11.mergeAggregateArgs = ["oldValue,newValue"] := by decide

theorem getCurrentValue_guard_tie :
    Generated.C11.getCurrentValueGuard = "timeSlot < startTime || timeSlot > startTime+getEnd(buf)" := by decide

/-- `AggType.Aggregate` case by case (model: `AggType.agg`). -/
theorem aggregate_table_tie :
    Generated.C11.aggregateExprTable =
      [(1, "a + b"), (2, "a + b"), (3, "math.Min(a, b)"), (4, "math.Max(a, b)"), (5, "b"), (6, "a")] := by decide

theorem agg_codes_tie :
    AggType.all.map (fun A => A.code) = Generated.C11.aggTypeCodes.map Prod.snd ∧
    FieldType.all.map (fun t => t.code) = Generated.C11.fieldTypeCodes.map Prod.snd ∧
    FuncType.all.map (fun f => f.code) = Generated.C11.funcTypeCodes.map Prod.snd := by decide

/-- `Type.AggType()`, `Type.DownSamplingFunc()`. -/
theorem field_tables_tie :
    (∀ ft ∈ FieldType.all, Map.lookup Generated.C11.fieldAggTable ft.code = some ft.aggType.code) ∧
    (∀ ft ∈ FieldType.all, Map.lookup Generated.C11.downSamplingTable ft.code = some ft.downSamplingFunc.code) := by
  decide

set_option maxRecDepth 20000 in
/-- `Type.IsFuncSupported`, `Type.GetFuncFieldParams`. -/
theorem func_tables_tie :
    (FieldType.all.flatMap (fun ft => FuncType.all.map (fun f => (ft.code, f.code, ft.isFuncSupported f)))) =
      Generated.C11.funcSupportedTable ∧
    (FieldType.all.flatMap (fun ft => FuncType.all.map (fun f => (ft.code, f.code, [(ft.funcParam f).code])))) =
      Generated.C11.funcParamsTable := by
  decide +kernel

/-- `timeSeriesIndex.Load`: per series the compress buffer is down-sampled before the write buffer
(model: `memCalls`). -/
theorem load_order_tie :
    Generated.C11.indexLoadCalls =
      ["lock.RLock", "defer:lock.RUnlock", "ids.Keys", "ids.Keys().GetContainerIndex", "ids.Keys",
       "ids.Keys().GetContainerAtIndex", "ids.Values", "λ:fm.getCompressBuf", "λ:len", "λ:tsd.Reset", "λ:int",
       "λ:ctx.DownSampling", "λ:fm.getPage", "λ:fm.Reset", "λ:int", "λ:ctx.DownSampling",
       "ctx.IterateLowSeriesIDs"] := by decide

/-- `dataFamily.Filter`: memory result sets, then file result sets; a source's not-found is
ignored (model: `familyCalls`, `memResult`, `combineCalls`). -/
theorem family_filter_order_tie :
    Generated.C11.familyFilterCalls =
      ["fasttime.UnixMilliseconds", "lastReadTime.Store", "f.memoryFilter", "f.fileFilter", "append", "append"] ∧
    Generated.C11.familyMemoryFilterCalls =
      ["λ:memDB.Filter", "λ:errors.Is", "λ:append", "mutex.Lock", "defer:mutex.Unlock", "memFilter", "memFilter"] := by
  decide

/-- the `DownSampling` loop statement by statement (model: `dsLoop`, which iterates over `Nat`: since fix c32ac93
the loop variable is an `int`, so the model's unbounded iteration is also what the code does at slot 65535). -/
theorem downsampling_loop_tie :
    Generated.C11.downSamplingLoop =
      ["for slot := int(source.Start); slot <= int(source.End); slot++", "movingSourceSlot := uint16(slot)",
       "value, ok := getter.GetValue(movingSourceSlot)", "if !ok { continue }",
       "if movingSourceSlot < start { continue }", "if movingSourceSlot > end { break }",
       "targetSlot := (baseSlot + int(movingSourceSlot)) / intervalRatio", "emitValue(targetSlot, value)"] := by
  decide

/-- `fieldAggregator.Aggregate` feeds a primitive iterator into the array of its own agg type
(model: `reduceInto`). -/
theorem field_aggregate_tie :
    Generated.C11.fieldAggregateCalls =
      ["it.HasNext", "it.Next", "pIt.AggType", "pIt.HasNext", "pIt.Next", "a.AggregateBySlot",
       "a.aggregateBySlotOfType"] := by
  decide

/-- function calls (model: `funcCall`). -/
theorem func_call_tie :
    Generated.C11.funcCallPassThrough =
      [FuncType.sum, .min, .max, .count, .last, .first].map (fun f => f.code) ∧
    Generated.C11.rateValueExpr = "val / float64(interval/timeutil.OneSecond)" := by decide

/-- the expression layer statement by statement: the three point cases and the two guards of
`binaryEval` (model: `binPoint`, `binaryEval`), the four operators with division by zero = 0
(`evalOp`), the dispatch of `expression.eval` (`QueryExpr.eval`), what `funcCall` / `binaryEval` of
expression.go call, and the default agg type of a field without function (`defaultParam`). -/
theorem expression_tie :
    Generated.C11.binaryEvalPointCases =
      ["!leftHasValue && right.IsSingle() => ", "left.IsSingle() && !rightHasValue => ",
       "leftHasValue || rightHasValue => result.SetValue(i, eval(binaryOp, left.GetValue(i), right.GetValue(i)))"] ∧
    Generated.C11.binaryEvalGuards =
      ["left == nil || right == nil => return nil", "left.IsEmpty() && right.IsEmpty() => return nil"] ∧
    Generated.C11.binaryOpCases =
      ["stmt.ADD => return left + right", "stmt.SUB => return left - right", "stmt.MUL => return left * right",
       "stmt.DIV => if right == 0 { return 0 } ; return left / right", " => return 0"] ∧
    Generated.C11.expressionEvalCases =
      ["*stmt.SelectItem", "*stmt.CallExpr", "*stmt.ParenExpr", "*stmt.BinaryExpr", "*stmt.NumberLiteral",
       "*stmt.FieldExpr", ""] ∧
    Generated.C11.expressionEvalBodies =
      ["return e.eval(nil, ex.Expr)", "switch ex.FuncType { case function.Quantile: return e.quanti",
       "return e.eval(nil, ex.Expr)", "return e.binaryEval(ex)", "values := collections.NewFloatArray(e.pointCount)",
       "fieldName := ex.Name", "return nil"] ∧
    Generated.C11.expressionFuncCallCalls =
      ["e.eval", "len", "append", "function.AvgCall", "function.RateCall", "function.FuncCall"] ∧
    Generated.C11.expressionBinaryEvalCalls = ["e.eval", "len", "e.eval", "len", "binaryEval"] ∧
    Generated.C11.defaultParamsTable =
      FieldType.all.map (fun ft => (ft.code, [(LinVerif.QueryExpr.defaultParam ft).code])) := by
  refine ⟨rfl, rfl, rfl, rfl, rfl, rfl, rfl, by decide⟩

/-- the witness of finding `expr-rate-of-valueless-operands-panics` panics exactly without the guard. -/
def rateWitness (g : Bool) : Prop :=
  match LinVerif.QueryExpr.evalItem g 2 3600 [(2, ⟨.min, [(.min, [])]⟩)]
      (.call .rate (.bin .sub (.field 2) (.field 2))) with
  | .crash => g = false
  | .empty => g = true
  | _ => False

/-- the driver evaluates select items with the variant of `RateCall` the source has
(`Generated.C11.fixRateNilGuard`: an `if` on `params[0] == nil` in RateCall). On the witness of
finding `expr-rate-of-valueless-operands-panics` the selected variant panics exactly when the
source has no guard (`Neg.rate_of_nil_array_panics`; with fixes/C11-rate-nil-guard.patch the item
has no result and `expr_no_panic_guarded` is the statement about the source). -/
theorem rate_nil_guard_tie : rateWitness Generated.C11.fixRateNilGuard := by
  have h : ∀ g : Bool, rateWitness g := by
    intro g
    cases g <;> simp [rateWitness, LinVerif.QueryExpr.evalItem, LinVerif.QueryExpr.eval, LinVerif.QueryExpr.applyFunc,
      LinVerif.QueryExpr.binaryEval, LinVerif.QueryExpr.FArr.isEmpty, LinVerif.QueryExpr.paramOf,
      LinVerif.QueryExpr.defaultParam, Map.lookup, List.range, List.range.loop]
  exact h _

/-- `dataLoad.Execute` (one operator per source of a family segment) decrements the shared
`PendingDataLoadTasks` counter on EVERY return path — it is deferred as the first statement — so a
source that returns early (all its series dropped out at grouping: they lack the group-by tag key)
still lets `leafReduce` hand over what the other sources loaded (model: `leafGroup` reduces the
calls of all sources, an empty source contributes no call). -/
theorem data_load_pending_tie :
    Generated.C11.dataLoadFirstStmt = "defer op.executeCtx.PendingDataLoadTasks.Dec()" ∧
    Generated.C11.dataLoadOtherPendingStmts = [] := by
  constructor <;> rfl

/-- the memory database's created time is process-unique; `Cleanup` clears the time range kept
under it (model: `Shard.newCreated`, `Shard.ranges`, `Shard.flush`). -/
theorem created_time_tie :
    Generated.C11.memdbCreatedTimeExpr = "nextCreatedTime()" ∧
    Generated.C11.indexCleanupCalls =
      ["db.CreatedTime", "fasttime.UnixMilliseconds", "db.MemTimeSeriesIDs", "λ:timeSeriesIndex.ClearTimeRange",
       "λ:timeSeriesIndex.ExpireTimeSeriesIDs", "λ:timeSeriesIndex.GC", "λ:timeSeriesIndex.NumOfSeries",
       "λ:timeSeriesIndexes.Delete", "timeSeriesIndexes.Range"] := by decide

/-- the month calculator's `CalcFamily` is the day of month of the timestamp alone;
`segment.GetDataFamilies` builds its family range from `CalcFamilyTime` of the query start / end
(model: `monthFamilySelected`). -/
theorem month_calc_tie :
    Generated.C11.monthCalcFamilyBody = ["t := time.Unix(timestamp/1000, 0)", "return t.Day()"] ∧
    Generated.C11.segmentGetDataFamiliesCalls =
      ["interval.Calculator", "calc.CalcFamilyTime", "calc.CalcFamilyTime", "kvStore.ListFamilyNames",
       "strconv.Atoi", "s.getOrLoadFamily", "family.TimeRange", "familyQueryTimeRange.Overlap", "append"] := by
  decide

/-- a file with one field is down-sampled into the query field it belongs to
(model: `blockSourceField`). -/
theorem single_field_read_tie :
    Generated.C11.readSeriesDataSingleField =
      "for queryIdx, readIdx := range r.readFieldIndexes { if readIdx == fieldNotFound { continue } decoder.ResetWithTimeRange(seriesEntryBlock, r.timeRange.Start, r.timeRange.End) ctx.DownSampling(r.timeRange, seriesIdx, queryIdx, decoder) } ; return" := by
  rfl

/-! ## the write buffer -/

/-- **Page level, full strength.** For every window size, every aggregate (first/last included)
and EVERY write sequence — duplicates, any slot order inside and outside the window — what a memory
query sees of the page (compress buffer, then write window) is the reference slot map: all values
written to a slot, combined in arrival order. -/
theorem write_buffer_refines_slotmap (w : Nat) (hw : 0 < w) (A : AggType) (ws : List (Nat × Int)) (t : Nat) :
    memView A (runWrites w A (Buf.fresh w) ws) t = refSlots A ws t := by
  have := (run_refines w A ws (Buf.fresh w) (BufInv.fresh hw)).2 t
  simpa [memView_fresh] using this

/-- the variant selected by the facts is the one the theorem is about. -/
theorem write_variant_tie : writeV LinVerif.Driver.C11.cfgOfFacts = write := by
  rw [cfg_tie]; exact writeV_fixed Cfg.fixed rfl rfl

/-- a flush writes, for every slot of the metric-level range, what the memory query saw
(every aggregate). -/
theorem flush_cells_eq_memview (w : Nat) (b : Buf) (A : AggType) (hi : BufInv w b) (lo hiR t : Nat)
    (hcov : ∀ t, memView A b t ≠ none → lo ≤ t ∧ t ≤ hiR) :
    (if t < lo ∨ t > hiR then none else cellAt (flushCells A b lo hiR) (t - lo)) = memView A b t :=
  flushCell_eq_memView A hi lo hiR t hcov

/-! ## the shard: mutable memory database ∪ files -/

/-- **Storage refinement.** `abs(state) = storeView : family → series → field → slot → Option V`
(the family's files in the order they were written, then its memory database). After ANY sequence
of writes (with their window compactions, any slot order, any field type) / flushes / file
compactions / reopens it equals the reference slot map of the points written. The only condition
(`goodOps`) is on the input: a field is written with the type it is registered with. -/
theorem storage_refines_slotmap (w : Nat) (hw : 0 < w) (sch : List (Nat × FieldType)) (ops : List Op)
    (hg : goodOps { Shard.init w with fieldTypes := sch } ops = true) (fam ser fld t : Nat) :
    storeView (runOps { Shard.init w with fieldTypes := sch } ops) fam ser fld t =
      refCell ((runOps { Shard.init w with fieldTypes := sch } ops).fieldAgg fld) (pointsOf ops) fam ser fld t := by
  have := (inv_runOps ops _ [] (inv_init w hw sch) hg).refines fam ser fld t
  simpa using this

/-- **Independence of flush / compaction / reopen placement.** Two histories with the same
accepted points, whatever the placement of flushes, file compactions and reopens between them,
hold the same slot maps. -/
theorem flush_placement_independent (w : Nat) (hw : 0 < w) (sch : List (Nat × FieldType)) (ops1 ops2 : List Op)
    (h1 : goodOps { Shard.init w with fieldTypes := sch } ops1 = true)
    (h2 : goodOps { Shard.init w with fieldTypes := sch } ops2 = true)
    (hp : pointsOf ops1 = pointsOf ops2) (fam ser fld t : Nat) :
    storeView (runOps { Shard.init w with fieldTypes := sch } ops1) fam ser fld t =
      storeView (runOps { Shard.init w with fieldTypes := sch } ops2) fam ser fld t := by
  rw [storage_refines_slotmap w hw sch ops1 h1, storage_refines_slotmap w hw sch ops2 h2, hp,
    runOps_fieldAgg _ ops1 h1, runOps_fieldAgg _ ops2 h2]

/-- the hypothesis is satisfiable by a history with out-of-order window writes (5, 9, 7), a last
field re-entering a slot, two families, a flush between two writes of one slot, a file
compaction and a reopen. -/
example : goodOps { Shard.init 15 with fieldTypes := [(1, .sum), (4, .last)] }
    [.write 1 0 1 1 .sum 5 1, .write 1 0 1 1 .sum 9 2, .write 1 0 1 1 .sum 7 4, .write 1 0 1 4 .last 5 1,
     .write 1 0 1 4 .last 25 2, .write 1 0 1 4 .last 5 3, .write 2 1 1 1 .sum 9 2, .flush 0,
     .write 3 0 1 1 .sum 5 10, .flush 0, .compact 0, .write 4 0 2 1 .sum 6 1, .reopen,
     .write 5 1 1 1 .sum 9 4] = true := by decide

/-! ## month-type family selection -/

/-- **Full strength**: for every query range the month-type selection returns exactly the
families whose day lies in the range. -/
theorem month_family_selection (lens : List Nat) (hpos : ∀ l ∈ lens, 0 < l) (qs qe f : Nat)
    (hle : qs ≤ qe) (hqe : qe < monthStart lens lens.length) (hf : f < monthStart lens lens.length) :
    monthFamilySelected lens qs qe f = (decide (qs ≤ f) && decide (f ≤ qe)) :=
  monthFamilySelected_exact lens hpos qs qe f hle hqe hf

theorem month_select (lens : List Nat) (hpos : ∀ l ∈ lens, 0 < l) (fams : List Nat) (qs qe : Nat)
    (hle : qs ≤ qe) (hqe : qe < monthStart lens lens.length) (hf : ∀ f ∈ fams, f < monthStart lens lens.length) :
    monthSelectV Cfg.fixed lens fams qs qe = monthSelectSpec fams qs qe := by
  unfold monthSelectV monthSelectSpec
  apply List.filter_congr
  intro f hfm
  show monthFamilySelected lens qs qe f = _
  exact month_family_selection lens hpos qs qe f hle hqe (hf f hfm)

/-! ## down-sampling, leaf reduce, field functions -/

/-- **Down-sampling.** One `DownSampling` call (fresh field aggregator with the agg types `L` of all
the functions selected on the field) leaves in bucket `t` of EVERY one of its agg types `A` the
`A`-fold, slots ascending, of the source values whose slot lies in the family's query slot range
and whose bucket `(base + slot) / ratio` is `t`. -/
theorem downsample_correct (L : List AggType) (hL : L.Nodup) (A : AggType) (hAL : A ∈ L)
    (get : Nat → Option Int) (srcLo srcHi tLo tHi g0 qs ratio t : Nat) :
    arrGet (dsCall L get srcLo srcHi tLo tHi g0 qs ratio) A t =
      fsum A (slotsOf srcLo srcHi)
        (fun s => if tLo ≤ s ∧ s ≤ tHi ∧ (g0 + s - qs) / ratio = t then get s else none) :=
  dsCall_spec L hL A hAL get srcLo srcHi tLo tHi g0 qs ratio t

/-- **`fieldAggregator.Aggregate`, one incoming field iterator, any agg types on both sides**
(the by-type reduce of fix eb2ea99, branch for branch): `acc` is the reducing aggregator (any agg
types, any content), `inc` any list of incoming primitive series `(agg type, slot ↦ value)`. The
values of type `A` of the aggregator get, in the order of the incoming series, the series of
type `A` and — the fallback branch `aggIdx < 0` — the series whose type the aggregator has no
values for; a series of another type of the aggregator never touches them. -/
theorem leaf_reduce_by_type (acc inc : Arrays) (hka : KeysOK acc) (hki : KeysOK inc) (A : AggType)
    (hA : Has acc A = true) (t : Nat) :
    arrGet (reduceInto acc inc) A t =
      ocomb A (arrGet acc A t)
        (fsum A inc (fun (p : AggType × List (Nat × Int)) =>
          if p.1 = A ∨ Has acc p.1 = false then Map.lookup p.2 t else none)) :=
  (reduceInto_general inc acc hka hki).2.2 A t hA

/-- **`groupingAggregator.Aggregate` for any fields**: `acc` holds one field aggregator per selected
field (any agg types each), `inc` is ANY list of incoming field series `(field, primitive series)`;
a series is merged into the first aggregator of its field name and dropped when there is none.
The values of type `A` of field `f` get exactly the by-type selection of the series of field `f`,
in arrival order. -/
theorem leaf_reduce_fields_correct (acc inc : List (Nat × Arrays)) (f : Nat) (a0 : Arrays)
    (hf : Map.lookup acc f = some a0) (hka : KeysOK a0) (hki : ∀ p ∈ inc, KeysOK p.2) (A : AggType)
    (hA : Has a0 A = true) (t : Nat) :
    fieldGet (groupReduce acc inc) f A t =
      ocomb A (arrGet a0 A t)
        (fsum A ((inc.filter (fun p => p.1 = f)).flatMap Prod.snd) (fun (p : AggType × List (Nat × Int)) =>
          if p.1 = A ∨ Has a0 p.1 = false then Map.lookup p.2 t else none)) :=
  groupReduce_spec acc inc f a0 hf hka hki A hA t

/-- **Leaf reduce**, the case of the leaf: every call carries the same agg types `L` (the functions
selected on the field) as the reducing aggregator; for every `A ∈ L` the reduced bucket is the
fold, in call order, of the calls' buckets of type `A` — no other type leaks in. -/
theorem leaf_reduce_correct (L : List AggType) (hL : L.Nodup) (A : AggType) (hAL : A ∈ L)
    (calls : List Arrays) (hw : ∀ c ∈ calls, WFL L c) (t : Nat) :
    arrGet (calls.foldl reduceInto (Arrays.init L)) A t = fsum A calls (fun c => arrGet c A t) :=
  reduce_spec L hL A hAL calls hw t

/-- **Memory query of one page, end to end** (write buffer + window compactions + the two
`DownSampling` calls of `timeSeriesIndex.Load` + leaf reduce): for a commutative field aggregate
and EVERY write sequence, bucket `t` of the leaf answer is the fold over the slots of the
reference slot map that fall into the bucket — whatever the window / compress-buffer state.
(For first/last the two calls are reduced in load order, not in slot order: unrepaired finding
`last-downsampling-flushed-slot-wins`.) -/
theorem page_query_eq_naive_partial (w : Nat) (hw : 0 < w) (A : AggType) (hc : AggType.isComm A = true)
    (L : List AggType) (hL : L.Nodup) (hAL : A ∈ L)
    (ws : List (Nat × Int)) (lo hi tLo tHi g0 qs ratio t : Nat) :
    arrGet ((pageCalls L (runWrites w A (Buf.fresh w) ws) lo hi tLo tHi g0 qs ratio).foldl reduceInto
        (Arrays.init L)) A t =
      fsum A (slotsOf lo hi)
        (fun s => if tLo ≤ s ∧ s ≤ tHi ∧ (g0 + s - qs) / ratio = t then refSlots A ws s else none) := by
  obtain ⟨hinv, hview⟩ := run_refines w A ws (Buf.fresh w) (BufInv.fresh hw)
  rw [pageCalls_spec (agg_comm_of_isComm hc) L hL hAL _ hinv]
  apply fsum_congr
  intro s _
  rw [hview s]
  simp [memView_fresh]

/-- **The same page after its flush**: the one `DownSampling` call on the flushed cells gives the
same buckets as the memory query gave (the metric-level range `[lo, hi]` covers the written
slots). -/
theorem page_query_flush_invariant (w : Nat) (hw : 0 < w) (A : AggType) (hc : AggType.isComm A = true)
    (L : List AggType) (hL : L.Nodup) (hAL : A ∈ L) (ws : List (Nat × Int))
    (lo hi : Nat) (hcov : ∀ s, refSlots A ws s ≠ none → lo ≤ s ∧ s ≤ hi) (tLo tHi g0 qs ratio t : Nat) :
    arrGet (dsCall L
        (fun slot => if slot < lo ∨ slot > hi then none
          else cellAt (flushCells A (runWrites w A (Buf.fresh w) ws) lo hi) (slot - lo))
        lo hi tLo tHi g0 qs ratio) A t =
      arrGet ((pageCalls L (runWrites w A (Buf.fresh w) ws) lo hi tLo tHi g0 qs ratio).foldl reduceInto
        (Arrays.init L)) A t := by
  obtain ⟨hinv, hview⟩ := run_refines w A ws (Buf.fresh w) (BufInv.fresh hw)
  rw [pageCalls_spec (agg_comm_of_isComm hc) L hL hAL _ hinv, dsCall_spec L hL A hAL]
  apply fsum_congr
  intro s _
  have hcov' : ∀ t, memView A (runWrites w A (Buf.fresh w) ws) t ≠ none → lo ≤ t ∧ t ≤ hi := by
    intro t ht
    apply hcov t
    rw [hview t] at ht
    simpa [memView_fresh] using ht
  rw [flushCell_eq_memView A hinv lo hi s hcov']

/-- **Leaf answer = naive reference.** For every history of writes (any slot order, any field
types) / window compactions / flushes / file compactions / reopens, every query on a field whose
function's agg type is the field's own commutative aggregate (sum on sum/histogram, min on min,
max on max), any time range, interval ratio, list of families, any group of series and any other
selected fields (`ScopeOK`: the scope holds the queried field and the group's series, as the
planner builds it): bucket `t` of the leaf answer of the group equals the reference — independent
of where the flushes, compactions and reopens were placed, and of which sources of a family hold
data for the query. (The hypothesis on the function excludes the unrepaired findings
`max-of-sum-field-split-by-flush` and `last-field-flushed-value-wins`.) -/
theorem query_eq_naive_partial (w : Nat) (hw : 0 < w) (sch : List (Nat × FieldType)) (ops : List Op)
    (hg : goodOps { Shard.init w with fieldTypes := sch } ops = true)
    (q : Query) (sc : Scope) (fams group : List Nat)
    (hfa : (runOps { Shard.init w with fieldTypes := sch } ops).fieldAgg q.field = q.fieldAgg)
    (hF : q.funcAgg = q.fieldAgg) (hc : AggType.isComm q.fieldAgg = true) (hspf : 0 < q.spf)
    (L : List AggType) (hL : L.Nodup) (hAL : q.fieldAgg ∈ L)
    (hsc : ScopeOK q sc group) (t : Nat) :
    arrGet (leafGroup (runOps { Shard.init w with fieldTypes := sch } ops) q sc L fams group) q.fieldAgg t =
      naiveBucket q (pointsOf ops) group fams t := by
  have hinv : Inv (runOps { Shard.init w with fieldTypes := sch } ops) (pointsOf ops) := by
    simpa using inv_runOps ops _ [] (inv_init w hw sch) hg
  have hinv2 : Inv2 (runOps { Shard.init w with fieldTypes := sch } ops) :=
    inv2_runOps ops _ (inv2_init w sch)
  have hcomm : AggComm ((runOps { Shard.init w with fieldTypes := sch } ops).fieldAgg q.field) := by
    rw [hfa]; exact agg_comm_of_isComm hc
  have := leafGroup_eq_fsum _ _ hinv hinv2 q hL (by rw [hfa]; exact hAL) sc hspf hcomm fams group hsc t
  rw [hfa] at this
  rw [this, naiveBucket_eq_fsum, hF]
  apply fsum_congr
  intro ser _
  apply fsum_congr
  intro fam _
  apply fsum_congr
  intro slot _
  have hr := hinv.refines fam ser q.field slot
  rw [hfa] at hr
  rw [hr]

/-- the answer of the group as the leaf sends it (non-empty buckets, ascending). -/
theorem query_group_eq_naive_partial (w : Nat) (hw : 0 < w) (sch : List (Nat × FieldType)) (ops : List Op)
    (hg : goodOps { Shard.init w with fieldTypes := sch } ops = true)
    (q : Query) (sc : Scope) (fams group : List Nat)
    (hfa : (runOps { Shard.init w with fieldTypes := sch } ops).fieldAgg q.field = q.fieldAgg)
    (hF : q.funcAgg = q.fieldAgg) (hc : AggType.isComm q.fieldAgg = true) (hspf : 0 < q.spf)
    (L : List AggType) (hL : L.Nodup) (hAL : q.fieldAgg ∈ L)
    (hsc : ScopeOK q sc group) :
    bucketsOf q (leafGroup (runOps { Shard.init w with fieldTypes := sch } ops) q sc L fams group) q.fieldAgg =
      naiveGroup q (pointsOf ops) group fams := by
  unfold bucketsOf naiveGroup
  congr 1
  funext t
  rw [query_eq_naive_partial w hw sch ops hg q sc fams group hfa hF hc hspf L hL hAL hsc t]

/-! ## first / last (any aggregate) inside one source -/

/-- **Memory query of one page written in time order**, ANY aggregate (first and last included), any
interval ratio: the two `DownSampling` calls (compress buffer, then write buffer) and the leaf
reduce give the slot-ascending fold of the reference slot map, whatever the window compactions. -/
theorem page_query_eq_naive_sorted (w : Nat) (hw : 0 < w) (A : AggType) (L : List AggType) (hL : L.Nodup) (hAL : A ∈ L)
    (ws : List (Nat × Int)) (hsorted : (ws.map Prod.fst).Pairwise (· ≤ ·)) (lo hi tLo tHi g0 qs ratio t : Nat) :
    arrGet ((pageCalls L (runWrites w A (Buf.fresh w) ws) lo hi tLo tHi g0 qs ratio).foldl reduceInto
        (Arrays.init L)) A t =
      fsum A (slotsOf lo hi)
        (fun s => if tLo ≤ s ∧ s ≤ tHi ∧ (g0 + s - qs) / ratio = t then refSlots A ws s else none) := by
  obtain ⟨hinv, hview⟩ := run_refines w A ws (Buf.fresh w) (BufInv.fresh hw)
  have hs := runWrites_sorted w hw A ws [] (by simpa using hsorted) (by simpa [runWrites] using sortedB_fresh w)
  rw [pageCalls_spec_sorted A A L hL hAL _ hinv (by simpa using hs)]
  apply fsum_congr
  intro s _
  rw [hview s]
  simp [memView_fresh]

/-- **The flushed page**, ANY aggregate, ANY write order: the one `DownSampling` call on the flushed
cells gives the slot-ascending fold of the reference slot map (`flush` merges slot by slot, older
value first). -/
theorem flushed_page_query_eq_naive (w : Nat) (hw : 0 < w) (A : AggType) (L : List AggType) (hL : L.Nodup) (hAL : A ∈ L)
    (ws : List (Nat × Int))
    (lo hi : Nat) (hcov : ∀ s, refSlots A ws s ≠ none → lo ≤ s ∧ s ≤ hi) (tLo tHi g0 qs ratio t : Nat) :
    arrGet (dsCall L
        (fun slot => if slot < lo ∨ slot > hi then none
          else cellAt (flushCells A (runWrites w A (Buf.fresh w) ws) lo hi) (slot - lo))
        lo hi tLo tHi g0 qs ratio) A t =
      fsum A (slotsOf lo hi)
        (fun s => if tLo ≤ s ∧ s ≤ tHi ∧ (g0 + s - qs) / ratio = t then refSlots A ws s else none) := by
  obtain ⟨hinv, hview⟩ := run_refines w A ws (Buf.fresh w) (BufInv.fresh hw)
  rw [dsCall_spec L hL A hAL]
  apply fsum_congr
  intro s _
  have hcov' : ∀ t, memView A (runWrites w A (Buf.fresh w) ws) t ≠ none → lo ≤ t ∧ t ≤ hi := by
    intro t ht
    apply hcov t
    rw [hview t] at ht
    simpa [memView_fresh] using ht
  rw [flushCell_eq_memView A hinv lo hi s hcov', hview s]
  simp [memView_fresh]

/-- **Leaf answer = naive reference for first / last** (no commutativity hypothesis: any field
aggregate). Every history of writes / flushes / compactions / reopens in which the writes of a
page arrive in time order INSIDE ONE SOURCE (`sortedOps`: a write's slot is at or after the slots
its page in the current memory database holds — a new memory database after a flush starts
afresh), a query on the field's own aggregate for ONE series, any range / ratio / families, when
every queried family keeps its data in one source (`OneSource`: only the memory database, or one
file and no memory database). `OneSource` is the explicit hypothesis that keeps out the unrepaired
cross-source findings `last-field-flushed-value-wins` and `last-downsampling-flushed-slot-wins`
(sources are reduced in load order: `Neg.last_field_flushed_value_wins`). -/
theorem query_eq_naive_first_last_partial (w : Nat) (hw : 0 < w) (sch : List (Nat × FieldType)) (ops : List Op)
    (hg : goodOps { Shard.init w with fieldTypes := sch } ops = true)
    (hso : sortedOps { Shard.init w with fieldTypes := sch } ops)
    (q : Query) (sc : Scope) (fams : List Nat) (ser : Nat)
    (hfa : (runOps { Shard.init w with fieldTypes := sch } ops).fieldAgg q.field = q.fieldAgg)
    (hF : q.funcAgg = q.fieldAgg) (hspf : 0 < q.spf)
    (L : List AggType) (hL : L.Nodup) (hAL : q.fieldAgg ∈ L)
    (hone : ∀ fam ∈ fams, OneSource (runOps { Shard.init w with fieldTypes := sch } ops) fam)
    (hsc : ScopeOK q sc [ser]) (t : Nat) :
    arrGet (leafGroup (runOps { Shard.init w with fieldTypes := sch } ops) q sc L fams [ser]) q.fieldAgg t =
      naiveBucket q (pointsOf ops) [ser] fams t := by
  have hinv : Inv (runOps { Shard.init w with fieldTypes := sch } ops) (pointsOf ops) := by
    simpa using inv_runOps ops _ [] (inv_init w hw sch) hg
  have hinv2 : Inv2 (runOps { Shard.init w with fieldTypes := sch } ops) :=
    inv2_runOps ops _ (inv2_init w sch)
  have hps : PagesSorted (runOps { Shard.init w with fieldTypes := sch } ops) :=
    pagesSorted_runOps ops _ [] (inv_init w hw sch) hg (pagesSorted_init w sch) hso
  have := leafGroup_eq_fsum_one_source _ _ hinv hinv2 hps q hL (by rw [hfa]; exact hAL) sc hspf fams hone ser hsc t
  rw [hfa] at this
  rw [this, naiveBucket_eq_fsum, hF, fsum_cons, fsum_nil, ocomb_none_right]
  apply fsum_congr
  intro fam _
  apply fsum_congr
  intro slot _
  have hr := hinv.refines fam ser q.field slot
  rw [hfa] at hr
  rw [hr]

/-! ## several sources per family: the current merge order, exactly -/

/-- **The leaf answer for the current merge order, at full strength**: every history with writes in
time order inside a source (`sortedOps`), ANY function aggregate `F` selected on the field (own or
not, commutative or not, first/last included), ANY number of sources per family, any group. The
answer is the `F`-fold in LOAD order: families as listed; per family the memory database, then the
level-0 files in flush order, then the compacted file (`srcFns`); per source the group's series;
per series the bucket's slots ascending — of the value each source holds for the slot (already
combined by the field's aggregate inside the source). This is what the code computes; where it
differs from the reference are exactly the recorded findings (`Neg.last_field_flushed_value_wins`,
`Neg.last_downsampling_flushed_slot_wins`, `Neg.max_of_split_sum_slot`), and the two theorems
below give the conditions under which it IS the reference. -/
theorem leaf_answer_in_load_order (w : Nat) (hw : 0 < w) (sch : List (Nat × FieldType)) (ops : List Op)
    (hg : goodOps { Shard.init w with fieldTypes := sch } ops = true)
    (hso : sortedOps { Shard.init w with fieldTypes := sch } ops)
    (q : Query) (F : AggType) (sc : Scope) (fams group : List Nat) (hspf : 0 < q.spf)
    (L : List AggType) (hL : L.Nodup) (hAL : F ∈ L) (hsc : ScopeOK q sc group) (t : Nat) :
    arrGet (leafGroup (runOps { Shard.init w with fieldTypes := sch } ops) q sc L fams group) F t =
      fsum F fams (fun fam =>
        fsum F (srcFns (runOps { Shard.init w with fieldTypes := sch } ops) fam q.field)
          (fun X => famBucket F q fam t group X)) := by
  have hinv : Inv (runOps { Shard.init w with fieldTypes := sch } ops) (pointsOf ops) := by
    simpa using inv_runOps ops _ [] (inv_init w hw sch) hg
  exact leafGroup_load_order _ _ hinv (inv2_runOps ops _ (inv2_init w sch))
    (pagesSorted_runOps ops _ [] (inv_init w hw sch) hg (pagesSorted_init w sch) hso) q F hL hAL sc hspf fams group hsc t

/-- **Any commutative function, native or not** (`max(f)` / `min(f)` on a sum, last or first field,
`sum(f)` on a last field …): when no slot of a queried family is held by two sources
(`SlotsUnsplit`: no cell written again after its flush — the explicit hypothesis that excludes
finding `max-of-sum-field-split-by-flush`) and writes arrive in time order inside a source (no slot
in the compress buffer and in the window), the leaf answer of the function equals the reference:
the function applied to the slots' values under the FIELD's aggregate. Any group, any families,
any number of sources. -/
theorem query_eq_naive_any_function_partial (w : Nat) (hw : 0 < w) (sch : List (Nat × FieldType)) (ops : List Op)
    (hg : goodOps { Shard.init w with fieldTypes := sch } ops = true)
    (hso : sortedOps { Shard.init w with fieldTypes := sch } ops)
    (q : Query) (sc : Scope) (fams group : List Nat)
    (hfa : (runOps { Shard.init w with fieldTypes := sch } ops).fieldAgg q.field = q.fieldAgg)
    (hc : AggType.isComm q.funcAgg = true) (hspf : 0 < q.spf)
    (L : List AggType) (hL : L.Nodup) (hAL : q.funcAgg ∈ L)
    (hu : ∀ fam ∈ fams, SlotsUnsplit (runOps { Shard.init w with fieldTypes := sch } ops) fam q.field)
    (hsc : ScopeOK q sc group) (t : Nat) :
    arrGet (leafGroup (runOps { Shard.init w with fieldTypes := sch } ops) q sc L fams group) q.funcAgg t =
      naiveBucket q (pointsOf ops) group fams t := by
  have hinv : Inv (runOps { Shard.init w with fieldTypes := sch } ops) (pointsOf ops) := by
    simpa using inv_runOps ops _ [] (inv_init w hw sch) hg
  rw [leafGroup_eq_fsum_unsplit _ _ hinv (inv2_runOps ops _ (inv2_init w sch))
    (pagesSorted_runOps ops _ [] (inv_init w hw sch) hg (pagesSorted_init w sch) hso) q q.funcAgg
    (agg_comm_of_isComm hc) hL hAL sc hspf fams group hu hsc t, naiveBucket_eq_fsum]
  apply fsum_congr
  intro ser _
  apply fsum_congr
  intro fam _
  apply fsum_congr
  intro slot _
  have hr := hinv.refines fam ser q.field slot
  rw [hfa] at hr
  rw [hr]

/-- **first / last over several sources**: the field's own aggregate, commutative or not, one series
per group, several sources per family — whenever, for the bucket asked, at most one source of
each family holds a value (`BucketUnsplit`; strictly weaker than `OneSource`), the leaf answer is
the reference. A bucket that lives in two sources is reduced in load order: the findings. -/
theorem query_eq_naive_first_last_sources_partial (w : Nat) (hw : 0 < w) (sch : List (Nat × FieldType)) (ops : List Op)
    (hg : goodOps { Shard.init w with fieldTypes := sch } ops = true)
    (hso : sortedOps { Shard.init w with fieldTypes := sch } ops)
    (q : Query) (sc : Scope) (fams : List Nat) (ser : Nat)
    (hfa : (runOps { Shard.init w with fieldTypes := sch } ops).fieldAgg q.field = q.fieldAgg)
    (hF : q.funcAgg = q.fieldAgg) (hspf : 0 < q.spf)
    (L : List AggType) (hL : L.Nodup) (hAL : q.fieldAgg ∈ L) (t : Nat)
    (hu : ∀ fam ∈ fams, BucketUnsplit q.fieldAgg (runOps { Shard.init w with fieldTypes := sch } ops) q fam t [ser])
    (hsc : ScopeOK q sc [ser]) :
    arrGet (leafGroup (runOps { Shard.init w with fieldTypes := sch } ops) q sc L fams [ser]) q.fieldAgg t =
      naiveBucket q (pointsOf ops) [ser] fams t := by
  have hinv : Inv (runOps { Shard.init w with fieldTypes := sch } ops) (pointsOf ops) := by
    simpa using inv_runOps ops _ [] (inv_init w hw sch) hg
  have := leafGroup_eq_fsum_bucket_unsplit _ _ hinv (inv2_runOps ops _ (inv2_init w sch))
    (pagesSorted_runOps ops _ [] (inv_init w hw sch) hg (pagesSorted_init w sch) hso) q hL (by rw [hfa]; exact hAL)
    sc hspf fams ser t (by rw [hfa]; exact hu) hsc
  rw [hfa] at this
  rw [this, naiveBucket_eq_fsum, hF, fsum_cons, fsum_nil, ocomb_none_right]
  apply fsum_congr
  intro fam _
  apply fsum_congr
  intro slot _
  have hr := hinv.refines fam ser q.field slot
  rw [hfa] at hr
  rw [hr]

/-- instances: `max(f)` on a sum field whose slots live in a file and in memory but never in both,
and `last(f)` over a family with a file and a memory database whose buckets do not meet. -/
example :
    let ops : List Op := [.write 1 0 1 1 .sum 3 4, .write 1 0 1 1 .sum 3 5, .write 1 0 1 1 .sum 9 2, .flush 0,
      .write 2 0 1 1 .sum 14 7, .write 2 0 1 1 .sum 14 1, .write 2 0 2 1 .sum 3 20]
    let s := runOps { Shard.init 15 with fieldTypes := [(1, .sum)] } ops
    let q : Query := ⟨1, .sum, .max, 32, 0, 31, 6⟩
    bucketsOf q (leafGroup s q ⟨[1], [1, 2]⟩ [.sum, .max] [0] [1, 2]) .max = [(0, 20), (1, 2), (2, 8)] ∧
    naiveGroup q (pointsOf ops) [1, 2] [0] = [(0, 20), (1, 2), (2, 8)] := by
  decide

example :
    let ops : List Op := [.write 1 0 1 4 .last 3 1, .write 1 0 1 4 .last 4 2, .flush 0,
      .write 2 0 1 4 .last 13 3, .write 2 0 1 4 .last 14 4]
    let s := runOps { Shard.init 15 with fieldTypes := [(4, .last)] } ops
    let q : Query := ⟨4, .last, .last, 32, 0, 31, 6⟩
    bucketsOf q (leafGroup s q ⟨[4], [1]⟩ [.last] [0] [1]) .last = [(0, 2), (2, 4)] ∧
    naiveGroup q (pointsOf ops) [1] [0] = [(0, 2), (2, 4)] := by
  decide

/-- an instance with a `last` field: out-of-window but time-ordered writes (window compactions),
a second family that was flushed (one file, no memory database), ratio 6. -/
example :
    let ops : List Op := [.write 1 0 1 4 .last 3 1, .write 1 0 1 4 .last 4 2, .write 1 0 1 4 .last 25 3,
      .write 1 0 1 4 .last 27 4, .write 2 1 1 4 .last 2 5, .write 2 1 1 4 .last 4 6, .flush 1]
    let s := runOps { Shard.init 15 with fieldTypes := [(4, .last)] } ops
    let q : Query := ⟨4, .last, .last, 32, 0, 63, 6⟩
    goodOps { Shard.init 15 with fieldTypes := [(4, .last)] } ops = true ∧
    bucketsOf q (leafGroup s q ⟨[4], [1]⟩ [.last] [0, 1] [1]) .last = [(0, 2), (4, 4), (5, 5), (6, 6)] ∧
    naiveGroup q (pointsOf ops) [1] [0, 1] = [(0, 2), (4, 4), (5, 5), (6, 6)] := by
  decide

/-! ## tag filter and group-by: the index layer as a named assumption -/

/-- **What the leaf gets from the index layer** (series filter + grouping), as property C10 proves it
for the index (`LinVerif.Props.C10.filter_eq_eval_now`, `LinVerif.Props.C10.groupby_values_now`) —
imported here as a HYPOTHESIS, not re-proved: `series` are the written series with their tags,
`found` the series ids the filter returns for condition `c`, `grouping` the groups (group key ↦
series ids) that grouping by the keys `by_` returns for them. -/
structure IndexContract (series : List (Nat × Tags)) (c : Cond) (by_ : List Nat) (found : List Nat)
    (grouping : List (List Nat × List Nat)) : Prop where
  /-- `Props.C10.filter_eq_eval_now`: the filter result is the SET of written series whose tags
  satisfy the condition. -/
  filter : ∀ s, s ∈ found ↔ ∃ t, (s, t) ∈ series ∧ c.eval t = true
  /-- `Props.C10.groupby_values_now`: a found series is grouped iff its tags carry all group-by keys,
  and then under the values of its own tags. -/
  group : ∀ k s, (∃ ss, (k, ss) ∈ grouping ∧ s ∈ ss) ↔ (s ∈ found ∧ ∃ t, (s, t) ∈ series ∧ groupKey? by_ t = some k)
  /-- the grouping is a map: one entry per key, a series once, no empty group. -/
  keys_nodup : (grouping.map Prod.fst).Nodup
  series_nodup : ∀ g ∈ grouping, g.2.Nodup
  nonempty : ∀ g ∈ grouping, g.2 ≠ []

/-- the complete leaf answer for the groups the index layer delivers. -/
def leafAnswer (s : Shard) (q : Query) (sc : Scope) (L : List AggType) (fams : List Nat)
    (grouping : List (List Nat × List Nat)) : List (List Nat × List (Nat × Int)) :=
  grouping.map (fun g => (g.1, bucketsOf q (leafGroup s q sc L fams g.2) q.fieldAgg))

/-- **The complete leaf answer = the naive query**, tag filter and group-by included: under the
index contract (C10's theorems as hypothesis) the leaf answers, for EVERY group key, exactly what
`naiveQuery` computes from the written points, the series' tags, the condition and the group-by
keys — the same groups (none missing, none extra) with the same buckets; same class of queries as
`query_eq_naive_partial` (a series id has one tag set: `hser`). -/
theorem query_all_groups_eq_naive_partial (w : Nat) (hw : 0 < w) (sch : List (Nat × FieldType)) (ops : List Op)
    (hg : goodOps { Shard.init w with fieldTypes := sch } ops = true)
    (q : Query) (sc : Scope) (fams : List Nat)
    (hfa : (runOps { Shard.init w with fieldTypes := sch } ops).fieldAgg q.field = q.fieldAgg)
    (hF : q.funcAgg = q.fieldAgg) (hc : AggType.isComm q.fieldAgg = true) (hspf : 0 < q.spf)
    (L : List AggType) (hL : L.Nodup) (hAL : q.fieldAgg ∈ L)
    (series : List (Nat × Tags)) (hser : (series.map Prod.fst).Nodup) (c : Cond) (by_ : List Nat)
    (found : List Nat) (grouping : List (List Nat × List Nat))
    (hidx : IndexContract series c by_ found grouping)
    (hsf : q.field ∈ sc.fields) (hss : ∀ g ∈ grouping, ∀ ser ∈ g.2, ser ∈ sc.series) (k : List Nat) :
    Map.lookup (leafAnswer (runOps { Shard.init w with fieldTypes := sch } ops) q sc L fams grouping) k =
      Map.lookup (naiveQuery q (pointsOf ops) series c by_ fams) k := by
  unfold leafAnswer naiveQuery
  rw [lookup_map_groups grouping
      (fun ss => bucketsOf q (leafGroup (runOps { Shard.init w with fieldTypes := sch } ops) q sc L fams ss) q.fieldAgg) k,
    lookup_map_groups (groupsOf series c by_) (fun ss => naiveGroup q (pointsOf ops) ss fams) k, lookup_groupsOf]
  -- a series has one tag set
  have huniq : ∀ s t1 t2, (s, t1) ∈ series → (s, t2) ∈ series → t1 = t2 := by
    intro s t1 t2 h1 h2
    have h1' := lookup_of_mem_nodup series s t1 hser h1
    have h2' := lookup_of_mem_nodup series s t2 hser h2
    rw [h1'] at h2'
    exact Option.some.inj h2'
  -- membership in the index's group with key k = membership in the reference's group
  have hmem : ∀ s, (∃ ss, (k, ss) ∈ grouping ∧ s ∈ ss) ↔ s ∈ membersOf series c by_ k := by
    intro s
    rw [hidx.group k s, mem_membersOf, hidx.filter s]
    constructor
    · rintro ⟨⟨t, ht, hct⟩, t', ht', hk⟩
      have := huniq s t t' ht ht'
      subst this
      exact ⟨t, ht, hct, hk⟩
    · rintro ⟨t, ht, hct, hk⟩
      exact ⟨⟨t, ht, hct⟩, t, ht, hk⟩
  cases hl : Map.lookup grouping k with
  | none =>
    have hnil : membersOf series c by_ k = [] := by
      cases hm : membersOf series c by_ k with
      | nil => rfl
      | cons s rest =>
        exfalso
        obtain ⟨ss, hks, _⟩ := (hmem s).mpr (by rw [hm]; simp)
        have := lookup_of_mem_nodup grouping k ss hidx.keys_nodup hks
        rw [hl] at this
        cases this
    simp [hnil]
  | some ss =>
    have hks : (k, ss) ∈ grouping := mem_of_lookup_some grouping k ss hl
    have hperm : ss.Perm (membersOf series c by_ k) := by
      rw [List.perm_ext_iff_of_nodup (hidx.series_nodup _ hks) (membersOf_nodup series c by_ k hser)]
      intro s
      rw [← hmem s]
      constructor
      · intro h; exact ⟨ss, hks, h⟩
      · rintro ⟨ss', hks', h⟩
        have h1 := lookup_of_mem_nodup grouping k ss' hidx.keys_nodup hks'
        rw [hl] at h1
        cases h1
        exact h
    have hne : membersOf series c by_ k ≠ [] := by
      intro he
      rw [he] at hperm
      exact hidx.nonempty _ hks (List.Perm.eq_nil hperm)
    simp only [Option.map_some, hne, if_false]
    congr 1
    rw [query_group_eq_naive_partial w hw sch ops hg q sc fams ss hfa hF hc hspf L hL hAL ⟨hsf, hss _ hks⟩]
    exact naiveGroup_perm q (by rw [hF]; exact agg_comm_of_isComm hc) _ hperm fams

/-- a non-trivial instance: out-of-order window writes, two series, two families, a series that
exists only in memory and a field (2) that exists only in a file, a file compaction; the query on
field 1 for series 1 and 2 over both families with ratio 6. -/
example :
    let ops : List Op := [.write 1 0 1 1 .sum 5 1, .write 1 0 1 1 .sum 9 2, .write 1 0 1 1 .sum 7 4,
      .write 1 0 1 2 .min 5 7, .write 2 1 1 1 .sum 9 2, .write 1 0 1 1 .sum 30 3, .flush 0,
      .write 3 0 1 1 .sum 5 10, .flush 0, .compact 0, .write 4 0 2 1 .sum 7 1]
    let s := runOps { Shard.init 15 with fieldTypes := [(1, .sum), (2, .min)] } ops
    let q : Query := ⟨1, .sum, .sum, 32, 0, 63, 6⟩
    goodOps { Shard.init 15 with fieldTypes := [(1, .sum), (2, .min)] } ops = true ∧
    bucketsOf q (leafGroup s q ⟨[1], [1, 2]⟩ [.sum] [0, 1] [1, 2]) .sum = naiveGroup q (pointsOf ops) [1, 2] [0, 1] ∧
    (naiveGroup q (pointsOf ops) [1, 2] [0, 1]).length = 4 := by
  decide

/-- two functions on one field (`select sum(f), max(f)`: agg types `[sum, max]`): the array of the
field's own aggregate is the reference, whatever the other function — same history as above. -/
example :
    let ops : List Op := [.write 1 0 1 1 .sum 5 1, .write 1 0 1 1 .sum 9 2, .write 1 0 1 1 .sum 7 4,
      .write 2 1 1 1 .sum 9 2, .write 1 0 1 1 .sum 30 3, .flush 0, .write 3 0 1 1 .sum 5 10, .flush 0, .compact 0,
      .write 4 0 2 1 .sum 7 1]
    let s := runOps { Shard.init 15 with fieldTypes := [(1, .sum)] } ops
    let q : Query := ⟨1, .sum, .sum, 32, 0, 63, 6⟩
    bucketsOf q (leafGroup s q ⟨[1], [1, 2]⟩ [.sum, .max] [0, 1] [1, 2]) .sum = naiveGroup q (pointsOf ops) [1, 2] [0, 1] ∧
    bucketsOf q (leafGroup s q ⟨[1], [1, 2]⟩ [.max, .sum] [0, 1] [1, 2]) .sum = naiveGroup q (pointsOf ops) [1, 2] [0, 1] := by
  decide

/-- **Queries concurrent with a flush.** `before`: any history; then `dataFamily.Flush` of family
`fam0` switches its memory database `md0` to immutable (window state: the shard as it will be once
the file is committed, plus `md0` still in memory, read INSTEAD of the file being written);
`during`: any writes (to any family, any slot order) that complete while the flush is in
progress — those to `fam0` go to a new mutable memory database. A query in that window
(`leafGroupW`: new mutable ∪ immutable ∪ committed files, as `dataFamily.memoryFilter` /
`fileFilter` read them) answers the reference of ALL points written so far, for the same class of
queries as `query_eq_naive_partial`. -/
theorem query_eq_naive_in_flush_window_partial (w : Nat) (hw : 0 < w) (sch : List (Nat × FieldType))
    (before during : List Op) (fam0 : Nat) (md0 : MemDB)
    (hg : goodOps { Shard.init w with fieldTypes := sch } (before ++ [.flush fam0] ++ during) = true)
    (hm0 : ((runOps { Shard.init w with fieldTypes := sch } before).family fam0).mutable_ = some md0)
    (hdur : ∀ op ∈ during, Op.isWrite op = true)
    (q : Query) (sc : Scope) (fams group : List Nat)
    (hfa : (runOps { Shard.init w with fieldTypes := sch } (before ++ [.flush fam0] ++ during)).fieldAgg q.field = q.fieldAgg)
    (hF : q.funcAgg = q.fieldAgg) (hc : AggType.isComm q.fieldAgg = true) (hspf : 0 < q.spf)
    (L : List AggType) (hL : L.Nodup) (hAL : q.fieldAgg ∈ L)
    (hsc : ScopeOK q sc group) (t : Nat) :
    arrGet (leafGroupW (runOps { Shard.init w with fieldTypes := sch } (before ++ [.flush fam0] ++ during)) q sc
        L
        ⟨fam0, md0, Map.lookup (runOps { Shard.init w with fieldTypes := sch } before).ranges md0.created⟩
        fams group) q.fieldAgg t =
      naiveBucket q (pointsOf (before ++ [.flush fam0] ++ during)) group fams t := by
  -- the three states
  have hgs := hg
  rw [goodOps_append, goodOps_append, Bool.and_eq_true, Bool.and_eq_true] at hgs
  obtain ⟨⟨hg1, hg2⟩, hg3⟩ := hgs
  have hinv1 : Inv (runOps { Shard.init w with fieldTypes := sch } before) (pointsOf before) := by
    simpa using inv_runOps before _ [] (inv_init w hw sch) hg1
  have hinv21 : Inv2 (runOps { Shard.init w with fieldTypes := sch } before) := inv2_runOps before _ (inv2_init w sch)
  have hinv : Inv (runOps { Shard.init w with fieldTypes := sch } (before ++ [.flush fam0] ++ during))
      (pointsOf (before ++ [.flush fam0] ++ during)) := by
    have h := inv_runOps (before ++ [.flush fam0] ++ during) _ [] (inv_init w hw sch) hg
    simp only [List.nil_append] at h
    exact h
  have hinv2 : Inv2 (runOps { Shard.init w with fieldTypes := sch } (before ++ [.flush fam0] ++ during)) :=
    inv2_runOps _ _ (inv2_init w sch)
  -- name the states
  generalize hs1 : runOps { Shard.init w with fieldTypes := sch } before = s1 at *
  have hsE : runOps { Shard.init w with fieldTypes := sch } (before ++ [.flush fam0] ++ during) =
      runOps (s1.flush fam0) during := by
    rw [runOps_append, runOps_append, hs1]; rfl
  rw [hsE] at hinv hinv2 hfa ⊢
  have hg3' : goodOps (s1.flush fam0) during = true := by
    rw [runOps_append, hs1] at hg3
    exact hg3
  -- the memory database that is being flushed
  obtain ⟨lo, hi, hr, hb⟩ := hinv1.pages fam0 md0 hm0
  have hfm : ∃ blk, flushMemDB s1 md0 = some blk := by
    simp [flushMemDB, hr]
  obtain ⟨blk, hblk⟩ := hfm
  have hfam2 : (s1.flush fam0).family fam0 = ⟨none, (s1.family fam0).files ++ [blk], (s1.family fam0).base⟩ := by
    rw [flush_some_family_self s1 fam0 md0 hm0, hblk]
  obtain ⟨hkeep, hknown⟩ := writes_keep_files during (s1.flush fam0) hdur
  have hfiles : ((runOps (s1.flush fam0) during).family fam0).files = (s1.family fam0).files ++ [blk] := by
    rw [(hkeep fam0).1, hfam2]
  -- field aggregates do not change
  have hfa1 : ∀ fld, (runOps (s1.flush fam0) during).fieldAgg fld = s1.fieldAgg fld := by
    intro fld
    have h1 := runOps_fieldAgg (s1.flush fam0) during hg3' fld
    rw [h1, flush_fieldAgg]
  have hwin : (runOps (s1.flush fam0) during).window = s1.window := by
    have : ∀ (ops : List Op) (s : Shard), (runOps s ops).window = s.window := by
      intro ops
      induction ops with
      | nil => intro s; rfl
      | cons op rest ih =>
        intro s
        simp only [runOps, List.foldl_cons] at ih ⊢
        rw [ih]
        cases op with
        | write => rfl
        | flush fam => exact flush_window s fam
        | compact fam =>
          simp only [applyOp, Shard.compact]
          split
          · rfl
          · cases mergeBlocks s.fieldAgg (s.family fam).chron <;> rfl
        | reopen =>
          simp only [applyOp, Shard.reopen]
          have : ∀ (l : List Nat) (s : Shard), (flushAll s l).window = s.window := by
            intro l
            induction l with
            | nil => intro s; rfl
            | cons x r ih2 => intro s; simp only [flushAll, List.foldl_cons] at ih2 ⊢; rw [ih2, flush_window]
          exact this _ s
    rw [this, flush_window]
  have hcomm : AggComm ((runOps (s1.flush fam0) during).fieldAgg q.field) := by
    rw [hfa]; exact agg_comm_of_isComm hc
  have hb' : ∀ ser b, Map.lookup md0.pages (ser, q.field) = some b →
      BufInv s1.window b ∧ ∀ t, memView ((runOps (s1.flush fam0) during).fieldAgg q.field) b t ≠ none → lo ≤ t ∧ t ≤ hi := by
    intro ser b hp
    rw [hfa1]
    exact hb (ser, q.field) b hp
  have hk : ∀ k b, Map.lookup md0.pages k = some b → k.1 ∈ (runOps (s1.flush fam0) during).known := by
    intro k b hp
    apply hknown
    rw [flush_known]
    exact hinv21.known fam0 md0 k b hm0 hp
  have hcell : ∀ ser slot, blk.cell (ser, q.field) slot =
      pagesView ((runOps (s1.flush fam0) during).fieldAgg q.field) md0.pages q.field ser slot := by
    intro ser slot
    rw [hfa1]
    exact flushBlock_cell s1 hinv1.cfgFixed md0 lo hi hr hb blk hblk ser q.field slot
  have := leafGroupW_eq_fsum (w := s1.window) _ _ hinv hinv2 q hL (by rw [hfa]; exact hAL) sc hspf hcomm
    ⟨fam0, md0, Map.lookup s1.ranges md0.created⟩ lo hi hr hb' hk (s1.family fam0).files blk hfiles hcell fams group hsc t
  rw [hfa] at this
  rw [this, naiveBucket_eq_fsum, hF]
  apply fsum_congr
  intro ser _
  apply fsum_congr
  intro fam _
  apply fsum_congr
  intro slot _
  have hrr := hinv.refines fam ser q.field slot
  rw [hfa] at hrr
  rw [hrr]

/-- a non-trivial window: family 0 is flushed while (a) slot 5 of series 1 gets another value,
(b) a new slot and (c) a point of family 1 are written; the query over both families. -/
example :
    let before : List Op := [.write 1 0 1 1 .sum 3 1, .flush 0, .write 2 0 1 1 .sum 5 2, .write 2 0 2 1 .sum 9 4]
    let during : List Op := [.write 3 0 1 1 .sum 5 8, .write 3 0 1 1 .sum 40 16, .write 4 1 1 1 .sum 2 32]
    let s0 : Shard := { Shard.init 15 with fieldTypes := [(1, .sum)] }
    let q : Query := ⟨1, .sum, .sum, 64, 0, 127, 1⟩
    goodOps s0 (before ++ [.flush 0] ++ during) = true ∧
    ((runOps s0 before).family 0).mutable_.isSome = true ∧
    (∀ md, ((runOps s0 before).family 0).mutable_ = some md →
      bucketsOf q (leafGroupW (runOps s0 (before ++ [.flush 0] ++ during)) q ⟨[1], [1, 2]⟩ [.sum]
        ⟨0, md, Map.lookup (runOps s0 before).ranges md.created⟩ [0, 1] [1, 2]) .sum =
        [(3, 1), (5, 10), (9, 4), (40, 16), (66, 32)]) := by
  decide

/-- **Field functions** on one value: sum/min/max/count/first/last return the field's array for the
function's agg type unchanged, `rate` divides by the query interval in seconds. -/
theorem func_call_table (f : FuncType) (sec : Nat) (v : Int) :
    funcCall f sec v =
      (match f with
        | .sum | .min | .max | .count | .last | .first => some ⟨v, 1⟩
        | .rate => some ⟨v, sec⟩
        | _ => none) := by
  cases f <;> rfl

/-! ## the expression layer (aggregation/expression.go, binary.go) -/

open LinVerif.QueryExpr in
/-- **Select items, point by point.** `eval` mirrors `expression.eval` / `funcCall` / `binaryEval`
branch for branch on whole arrays (field store lookups, nil results, `IsEmpty`, `IsSingle`). When
it yields an array, then for EVERY expression — nested calls, parentheses, literals, binary
`+ - * /` at any depth — the `isSingle` mark is the syntactic `isLit` and the value at every
point `i` of the query is `pointValue` over the store's abstract values: a field under a function
reads the array of the function's agg type (`GetFuncFieldParams`), without a function the type's
default; `rate` divides by the interval; `l op r` is absent when the left value is absent and `r`
is a literal, or `l` is a literal and the right value is absent, or both are absent — otherwise
the operator with the missing operand read as 0, and division by zero giving 0. -/
theorem expr_eval_correct (g : Bool) (n sec : Nat) (st : Store) (e : Expr) (parent : Option FuncType) (a : FArr)
    (h : eval g n sec st parent e = .arr a) :
    a.single = isLit e ∧
    (∀ i, i < n → a.get i = pointValue sec (tyOf st) (valOf st) i parent e) ∧
    (∀ i, n ≤ i → a.get i = none) :=
  eval_arr_spec g n sec st e parent a h

open LinVerif.QueryExpr in
/-- **The expression layer reads nothing but its arrays**: two field stores with the same fields
and types whose arrays READ BY THE ITEM exist alike and agree on the query's points evaluate
alike — no result, the same panic, or arrays with the same values at every point. -/
theorem expr_eval_congr (g : Bool) (n sec : Nat) (s1 s2 : Store) (e : Expr) (parent : Option FuncType)
    (h : StoresAgree n s1 s2 (reads s1 parent e)) :
    EVal.same n (eval g n sec s1 parent e) (eval g n sec s2 parent e) :=
  eval_congr g n sec s1 s2 e parent h

open LinVerif.QueryExpr in
/-- **No panic**, source with the nil guard in `RateCall` (fix ad91846, the current source — see
`rate_nil_guard_tie`): no select
item, on no field store, panics. -/
theorem expr_no_panic_guarded (n sec : Nat) (st : Store) (e : Expr) (parent : Option FuncType) :
    (match eval true n sec st parent e with | .crash => False | _ => True) :=
  eval_no_crash_guarded n sec st e parent

open LinVerif.QueryExpr in
/-- **No panic**, source without the guard (before fix ad91846), `_partial`: an item without `rate(...)` directly over a (possibly
parenthesised) binary expression does not panic. The exact gap is `Neg.rate_of_nil_array_panics`. -/
theorem expr_no_panic_partial (g : Bool) (n sec : Nat) (st : Store) (e : Expr) (parent : Option FuncType)
    (h : rateSafe e = true) :
    (match eval g n sec st parent e with | .crash => False | _ => True) :=
  eval_no_crash_of_rateSafe g n sec st e parent h

open LinVerif.QueryExpr in
/-- **The planner plans what the expression reads**: every (field, agg type) array an item reads
from the field store is the `GetFuncFieldParams` array of a (field, function) pair that
`metadataLookup.field` planned for the item — a field without function reads the array of its
type's down-sampling function. -/
theorem plan_covers_reads (st : Store) (e : Expr) (parent : Option FuncType) (f : Nat) (A : AggType)
    (h : (f, A) ∈ reads st parent e) :
    ∃ ty fn, tyOf st f = some ty ∧ (f, fn) ∈ plan (tyOf st) parent e ∧ A = ty.funcParam fn := by
  induction e generalizing parent with
  | field f' =>
    simp only [reads] at h
    cases hl : Map.lookup st f' with
    | none => rw [hl] at h; simp at h
    | some fv =>
      rw [hl] at h
      simp only [List.mem_singleton, Prod.mk.injEq] at h
      obtain ⟨rfl, rfl⟩ := h
      refine ⟨fv.ftype, (match parent with | none => fv.ftype.downSamplingFunc | some fn => fn), by simp [tyOf, hl], ?_, ?_⟩
      · cases parent <;> simp [plan, tyOf, hl]
      · cases parent with
        | none => cases hty : fv.ftype <;> simp [paramOf, defaultParam, FieldType.funcParam, FieldType.downSamplingFunc]
        | some fn => rfl
  | call fn p ih => simp only [reads] at h; simpa [plan] using ih (some fn) h
  | num v => simp [reads] at h
  | paren e ih => simp only [reads] at h; simpa [plan] using ih none h
  | bin op l r ihl ihr =>
    simp only [reads, List.mem_append] at h
    rcases h with h | h
    · obtain ⟨ty, fn, h1, h2, h3⟩ := ihl none h
      exact ⟨ty, fn, h1, by simp [plan, h2], h3⟩
    · obtain ⟨ty, fn, h1, h2, h3⟩ := ihr none h
      exact ⟨ty, fn, h1, by simp [plan, h2], h3⟩

/-- a planned field of a query: its type and the agg types of all functions selected on it. -/
structure Planned where
  field : Nat
  ftype : FieldType
  aggs : List AggType

/-- the leaf query of one planned field. -/
def Planned.query (p : Planned) (q0 : Query) (A : AggType) : Query :=
  { q0 with field := p.field, fieldAgg := p.ftype.aggType, funcAgg := A }

open LinVerif.QueryExpr in
/-- the field store of one group from per-field, per-agg-type arrays. -/
def mkStore (flds : List Planned) (arr : Planned → AggType → List (Nat × Int)) : Store :=
  flds.map (fun p => (p.field, ⟨p.ftype, p.aggs.map (fun A => (A, arr p A))⟩))

/-- the store the root builds from the leaf answer of the group ... -/
def leafStore (s : Shard) (q0 : Query) (sc : Scope) (flds : List Planned) (fams group : List Nat) :=
  mkStore flds (fun p A => bucketsOf (p.query q0 A) (leafGroup s (p.query q0 A) sc p.aggs fams group) A)

/-- ... and the one it would build from the naive reference. -/
def naiveStore (q0 : Query) (pts : List Point) (flds : List Planned) (fams group : List Nat) :=
  mkStore flds (fun p A => naiveGroup (p.query q0 A) pts group fams)

open LinVerif.QueryExpr in
theorem lookup_mkStore (flds : List Planned) (arr : Planned → AggType → List (Nat × Int)) (f : Nat) :
    Map.lookup (mkStore flds arr) f =
      (flds.find? (fun p => p.field = f)).map (fun p => ⟨p.ftype, p.aggs.map (fun A => (A, arr p A))⟩) := by
  unfold mkStore
  induction flds with
  | nil => rfl
  | cons p rest ih =>
    by_cases h : p.field = f
    · simp [Map.lookup, h]
    · simp [Map.lookup, h, ih]

theorem lookup_map_arrays (L : List AggType) (g : AggType → List (Nat × Int)) (A : AggType) :
    Map.lookup (L.map (fun A => (A, g A))) A = if A ∈ L then some (g A) else none := by
  induction L with
  | nil => rfl
  | cons B rest ih =>
    by_cases h : B = A
    · subst h; simp [Map.lookup]
    · have : ¬ A = B := fun e => h e.symm
      simp [Map.lookup, h, ih, this]

open LinVerif.QueryExpr in
/-- the expression layer on top of ANY per-array statement: when the arrays the item reads are the
reference's, the item evaluates alike on the leaf answer and on the reference. -/
theorem select_item_eq_of_arrays (S : Shard) (pts : List Point)
    (q0 : Query) (sc : Scope) (fams group : List Nat) (flds : List Planned)
    (g : Bool) (n sec : Nat) (e : Expr)
    (harr : ∀ p ∈ flds, ∀ A, (p.field, A) ∈ reads (leafStore S q0 sc flds fams group) none e → A ∈ p.aggs →
      bucketsOf (p.query q0 A) (leafGroup S (p.query q0 A) sc p.aggs fams group) A =
        naiveGroup (p.query q0 A) pts group fams) :
    EVal.same n
      (evalItem g n sec (leafStore S q0 sc flds fams group) e)
      (evalItem g n sec (naiveStore q0 pts flds fams group) e) := by
  have hemp : (leafStore S q0 sc flds fams group).isEmpty = (naiveStore q0 pts flds fams group).isEmpty := by
    unfold leafStore naiveStore mkStore
    cases flds <;> rfl
  unfold evalItem
  rw [hemp]
  split
  · trivial
  · apply eval_congr
    refine ⟨?_, ?_⟩
    · intro f
      simp only [tyOf, leafStore, naiveStore, lookup_mkStore]
      cases flds.find? (fun p => p.field = f) <;> rfl
    · intro f A hmem fv1 fv2 h1 h2
      simp only [leafStore, naiveStore, lookup_mkStore] at h1 h2
      cases hfind : flds.find? (fun p => p.field = f) with
      | none => rw [hfind] at h1; cases h1
      | some p =>
        rw [hfind] at h1 h2
        simp only [Option.map_some, Option.some.injEq] at h1 h2
        subst h1 h2
        have hp : p ∈ flds := List.mem_of_find?_eq_some hfind
        have hpf : p.field = f := by simpa using List.find?_some hfind
        simp only [arrGet, lookup_map_arrays]
        by_cases hAL : A ∈ p.aggs
        · simp only [hAL, if_true]
          rw [harr p hp A (by rw [hpf]; exact hmem) hAL]
          exact ⟨rfl, fun _ _ => rfl⟩
        · simp [hAL]

open LinVerif.QueryExpr in
/-- **Select items end to end**: `sum(f)*2`, `f+g`, `(f-g)/max_field`, `rate(f)` … evaluated on the
leaf answer of a group = evaluated on the naive reference of the group, for every history of
writes / flushes / compactions / reopens, provided every array the item READS is the array of its
field's own commutative aggregate (`hown`; the other functions selected on the same fields — the
agg types `p.aggs` — are arbitrary, their arrays are not read by this item). -/
theorem select_item_eq_naive_partial (w : Nat) (hw : 0 < w) (sch : List (Nat × FieldType)) (ops : List Op)
    (hg : goodOps { Shard.init w with fieldTypes := sch } ops = true)
    (q0 : Query) (hspf : 0 < q0.spf) (sc : Scope) (fams group : List Nat) (flds : List Planned)
    (hflds : ∀ p ∈ flds, (runOps { Shard.init w with fieldTypes := sch } ops).fieldAgg p.field = p.ftype.aggType ∧
      p.aggs.Nodup ∧ p.field ∈ sc.fields)
    (hgrp : ∀ ser ∈ group, ser ∈ sc.series)
    (g : Bool) (n sec : Nat) (e : Expr)
    (hown : ∀ p ∈ flds, ∀ A, (p.field, A) ∈ reads (leafStore (runOps { Shard.init w with fieldTypes := sch } ops) q0 sc flds fams group) none e →
      A = p.ftype.aggType ∧ AggType.isComm A = true) :
    EVal.same n
      (evalItem g n sec (leafStore (runOps { Shard.init w with fieldTypes := sch } ops) q0 sc flds fams group) e)
      (evalItem g n sec (naiveStore q0 (pointsOf ops) flds fams group) e) := by
  apply select_item_eq_of_arrays
  intro p hp A hmem hAL
  obtain ⟨hfa, hnd, hfs⟩ := hflds p hp
  obtain ⟨hA, hc⟩ := hown p hp A hmem
  have := query_group_eq_naive_partial w hw sch ops hg (p.query q0 A) sc fams group
    (by simpa [Planned.query] using hfa) (by simp [Planned.query, hA]) (by simpa [Planned.query, ← hA] using hc)
    (by simpa [Planned.query] using hspf) p.aggs hnd (by simpa [Planned.query, ← hA] using hAL)
    ⟨by simpa [Planned.query] using hfs, hgrp⟩
  have hq : (p.query q0 A).fieldAgg = A := by simp [Planned.query, hA]
  rw [hq] at this
  exact this

open LinVerif.QueryExpr in
/-- **Select items over any commutative functions** (`max(f)/sum(f)`, `min(f)+max(g)` … native or
not): the same, for histories with time-ordered writes inside a source and no slot of a queried
family held by two sources (`SlotsUnsplit`), when every array the item reads belongs to a
commutative function. -/
theorem select_item_eq_naive_any_function_partial (w : Nat) (hw : 0 < w) (sch : List (Nat × FieldType)) (ops : List Op)
    (hg : goodOps { Shard.init w with fieldTypes := sch } ops = true)
    (hso : sortedOps { Shard.init w with fieldTypes := sch } ops)
    (q0 : Query) (hspf : 0 < q0.spf) (sc : Scope) (fams group : List Nat) (flds : List Planned)
    (hflds : ∀ p ∈ flds, (runOps { Shard.init w with fieldTypes := sch } ops).fieldAgg p.field = p.ftype.aggType ∧
      p.aggs.Nodup ∧ p.field ∈ sc.fields ∧
      ∀ fam ∈ fams, SlotsUnsplit (runOps { Shard.init w with fieldTypes := sch } ops) fam p.field)
    (hgrp : ∀ ser ∈ group, ser ∈ sc.series)
    (g : Bool) (n sec : Nat) (e : Expr)
    (hcomm : ∀ p ∈ flds, ∀ A, (p.field, A) ∈ reads (leafStore (runOps { Shard.init w with fieldTypes := sch } ops) q0 sc flds fams group) none e →
      AggType.isComm A = true) :
    EVal.same n
      (evalItem g n sec (leafStore (runOps { Shard.init w with fieldTypes := sch } ops) q0 sc flds fams group) e)
      (evalItem g n sec (naiveStore q0 (pointsOf ops) flds fams group) e) := by
  apply select_item_eq_of_arrays
  intro p hp A hmem hAL
  obtain ⟨hfa, hnd, hfs, hu⟩ := hflds p hp
  unfold bucketsOf naiveGroup
  congr 1
  funext t
  have := query_eq_naive_any_function_partial w hw sch ops hg hso (p.query q0 A) sc fams group
    (by simpa [Planned.query] using hfa) (by simpa [Planned.query] using hcomm p hp A hmem)
    (by simpa [Planned.query] using hspf) p.aggs hnd (by simpa [Planned.query] using hAL)
    (by simpa [Planned.query] using hu) ⟨by simpa [Planned.query] using hfs, hgrp⟩ t
  have hq : (p.query q0 A).funcAgg = A := by simp [Planned.query]
  rw [hq] at this
  rw [this]

/-! ## the flushed metric block: series buckets per roaring high key, offsets and their bases

`Model/BlockLayout.lean` mirrors `metricsdata.flusher` / `metricReader` at the level of positions.
The field offsets of a series entry are taken against `Level4.startAt`; the deferred function of
`FlushSeries` re-bases it to the writer's position after every series, and the high-key branch must
re-base it AGAIN after it wrote the previous bucket's footer. -/

open LinVerif.BlockLayout LinVerif.Lemmas.C11Block in
/-- the field-offset base is the writer's position and no field offset is pending. -/
def Rebased (w : LinVerif.BlockLayout.W) : Prop := w.l4 = w.size ∧ w.fOffs = []

open LinVerif.BlockLayout LinVerif.Lemmas.C11Block in
/-- `FlushSeries` re-establishes `Rebased` (the deferred function) … -/
theorem flushSeries_rebased (c : LinVerif.BlockLayout.Cfg) (e : Enc) (nf : Nat) (w : W) (sid : Nat) (flds : List Nat) :
    Rebased (flushSeries c e nf w sid flds) := by
  unfold flushSeries Rebased
  split <;> simp

open LinVerif.BlockLayout LinVerif.Lemmas.C11Block in
/-- … hence it holds before EVERY series of ANY metric block (any ids, any number of containers). -/
theorem block_writer_rebased (c : LinVerif.BlockLayout.Cfg) (e : Enc) (nf : Nat) (series : List (Nat × List Nat)) (w : W)
    (h : Rebased w) : Rebased (series.foldl (fun w s => flushSeries c e nf w s.1 s.2) w) := by
  induction series generalizing w with
  | nil => exact h
  | cons s rest ih => exact ih _ (flushSeries_rebased c e nf w s.1 s.2)

open LinVerif.BlockLayout LinVerif.Lemmas.C11Block in
/-- SERIES ENTRY ROUND TRIP, every series of every block: whatever was flushed before (`Rebased`
holds by `block_writer_rebased`), whichever branch `FlushSeries` takes (same high key / first high
key / ANOTHER high key: previous bucket's footer, new bucket), the entry it writes — from the
writer's position after that branch to its position at the end — is decoded by `readSeriesData`
into exactly the spans the field blocks were written to, for any number of fields, any data
lengths and any lengths of the offset codecs. This is the statement the seeded change c11-20
(no re-base after the footer) falsifies: see `Neg.no_rebase_loses_first_series_of_later_buckets`. -/
theorem block_series_entry_roundtrip (e : Enc) (hu : ∀ n, 0 < e.uvarLen n) (nf : Nat) (w : W)
    (hw : Rebased w) (sid : Nat) (flds : List Nat) (hlen : flds.length = nf) (hnf : 1 ≤ nf)
    (k : Nat) (hk : k < nf) :
    let w1 := enterBucket ⟨true⟩ e w sid
    let w2 := flushSeries ⟨true⟩ e nf w sid flds
    w2.truth sid k = some (w1.size + sumL (flds.take k), flds[k]'(by omega)) ∧
    readEntry w2.fldAt w2.lenAt nf w1.size w2.size k
      = if nf ≠ 1 ∧ sumL flds = 0 then none
        else some (w1.size + sumL (flds.take k), flds[k]'(by omega)) := by
  have hr := enterBucket_rebased e w sid hw.1 hw.2
  have hne : flds.isEmpty = false := by
    cases flds with
    | nil => simp at hlen; omega
    | cons _ _ => rfl
  have h2 : flushSeries ⟨true⟩ e nf w sid flds =
      { writeEntry e nf (enterBucket ⟨true⟩ e w sid) sid flds with
        l4 := (writeEntry e nf (enterBucket ⟨true⟩ e w sid) sid flds).size, fOffs := [] } := by
    unfold flushSeries
    simp [hne]
  have := entry_roundtrip e hu nf (enterBucket ⟨true⟩ e w sid) sid flds hlen hnf hr.1 hr.2 k hk
  intro w1 w2
  simp only [w1, w2, h2]
  exact this

open LinVerif.BlockLayout LinVerif.Lemmas.C11Block LinVerif.Lemmas.C11BlockRT in
/-- WHOLE-BLOCK ROUND TRIP (round 9; the bucket / high-key level, full strength). For ANY metric
block — any number of fields, any strictly ascending series ids (the flusher is driven in bitmap
order) over ANY number of roaring containers, any data lengths, series without any `FlushField`
call in between, any codec lengths (uvarint non-empty, a non-empty offset list encodes to a
non-empty block) — every field block of every series with data is recorded as written
(`PrepareMetric`, all `FlushSeries`, the bucket footer of `CommitMetric`) and is found again by
`metricReader.Load` → `metricLoader.Load` → `readSeriesData` (container index, high-key offsets,
position word, low-key offsets, entry, field offsets) exactly where it was written. `none` only for
a series whose field data are ALL empty (a multi-field entry without data: `fieldOffsetsAt <= 0`; a
one-field bucket without a single byte gets no footer and is skipped) — nothing is lost.
Proof: invariant `J` (`Lemmas/C11BlockRT.lean`): completed buckets carry read certificates that are
stable because the tables are append-only, the open bucket's low-key offsets are the prefix sums of
its entry lengths from `Level3.startAt`; closing a bucket turns the latter into the former. -/
theorem block_roundtrip (e : Enc) (hu : ∀ n, 0 < e.uvarLen n) (ho : ∀ xs, xs ≠ [] → 0 < e.offLen xs)
    (nf : Nat) (hnf : 1 ≤ nf) (series : List (Nat × List Nat))
    (hasc : series.Pairwise (fun a b => a.1 < b.1))
    (hlen : ∀ s, s ∈ series → s.2 = [] ∨ s.2.length = nf)
    (s : Nat × List Nat) (hs : s ∈ series) (hdata : s.2 ≠ []) (k : Nat) (hk : k < nf) :
    (∃ a, written (flushBlock ⟨true⟩ e nf series) s.1 k = some (a + sumL (s.2.take k), s.2.getD k 0)) ∧
    (readField (flushBlock ⟨true⟩ e nf series) s.1 k = written (flushBlock ⟨true⟩ e nf series) s.1 k ∨
     (readField (flushBlock ⟨true⟩ e nf series) s.1 k = none ∧ sumL s.2 = 0)) :=
  block_roundtrip_core e hu ho nf hnf series hasc hlen s hs hdata k hk

open LinVerif.BlockLayout LinVerif.Lemmas.C11Block LinVerif.Lemmas.C11BlockRT in
/-- a series with at least one data byte is read back, every field, where it was written. -/
theorem block_roundtrip_data (e : Enc) (hu : ∀ n, 0 < e.uvarLen n) (ho : ∀ xs, xs ≠ [] → 0 < e.offLen xs)
    (nf : Nat) (hnf : 1 ≤ nf) (series : List (Nat × List Nat))
    (hasc : series.Pairwise (fun a b => a.1 < b.1))
    (hlen : ∀ s, s ∈ series → s.2 = [] ∨ s.2.length = nf)
    (s : Nat × List Nat) (hs : s ∈ series) (hdata : 0 < sumL s.2) (k : Nat) (hk : k < nf) :
    ∃ a, readField (flushBlock ⟨true⟩ e nf series) s.1 k = some (a + sumL (s.2.take k), s.2.getD k 0) := by
  have hne : s.2 ≠ [] := by
    intro h; rw [h] at hdata; simp [sumL] at hdata
  obtain ⟨⟨a, ha⟩, h | h⟩ := block_roundtrip e hu ho nf hnf series hasc hlen s hs hne k hk
  · exact ⟨a, by rw [h, ha]⟩
  · omega

open LinVerif.BlockLayout LinVerif.Lemmas.C11Block LinVerif.Lemmas.C11BlockRT in
/-- the executable check the driver prints for op `blk` (and the harness compares with the real
flusher / reader) never reports a lost series: `lostSeries` is empty for EVERY block. -/
theorem block_no_lost_series (e : Enc) (hu : ∀ n, 0 < e.uvarLen n) (ho : ∀ xs, xs ≠ [] → 0 < e.offLen xs)
    (nf : Nat) (hnf : 1 ≤ nf) (series : List (Nat × List Nat))
    (hasc : series.Pairwise (fun a b => a.1 < b.1))
    (hlen : ∀ s, s ∈ series → s.2 = [] ∨ s.2.length = nf) :
    lostSeries ⟨true⟩ e nf series = [] := by
  unfold lostSeries
  simp only [List.map_eq_nil_iff, List.filter_eq_nil_iff]
  intro s hs
  by_cases hne : s.2 = []
  · simp [hne]
  · have hl : s.2.length = nf := by
      rcases hlen s hs with h | h
      · exact absurd h hne
      · exact h
    have hok : seriesOK (flushBlock ⟨true⟩ e nf series) s = true := by
      unfold seriesOK
      rw [List.all_eq_true]
      intro k hkm
      have hk : k < nf := by rw [← hl]; simpa using hkm
      obtain ⟨⟨a, ha⟩, h | ⟨h, hz⟩⟩ := block_roundtrip e hu ho nf hnf series hasc hlen s hs hne k hk
      · rw [h, ha]; simp
      · rw [h, ha]
        have hall : ∀ (xs : List Nat), sumL xs = 0 → ∀ y, y ∈ xs → y = 0 := by
          intro xs
          induction xs with
          | nil => simp
          | cons x xs ih =>
            intro h0 y hy
            simp [sumL] at h0
            rcases List.mem_cons.mp hy with h1 | h1
            · omega
            · exact ih (by omega) y h1
        have hk' : k < s.2.length := by omega
        have hget : s.2.getD k 0 = 0 := by
          simp [List.getD_eq_getElem?_getD, hk']
          exact hall s.2 hz _ (List.getElem_mem hk')
        simp only [hget]
        simp
        intro y hy
        exact hall s.2 hz y hy
    simp [hok]

open LinVerif.BlockLayout LinVerif.Lemmas.C11Block in
/-- non-vacuity + the whole block, executable: five series in three containers (65535 | 65536,
65537 | 131072, 131073), three fields, one series without any data and one with an empty field:
every field block is read back where it was written; also with one field. -/
example : lostSeries ⟨true⟩ Enc.simple 3
    [(65535, [3, 0, 4]), (65536, [5, 6, 1]), (65537, [0, 0, 0]), (131072, [2, 2, 2]), (131073, [1, 0, 0])] = [] ∧
    lostSeries ⟨true⟩ Enc.simple 1 [(7, [3]), (65536, [5]), (196608, [2])] = [] := by decide

/-- tie: the high-key branch of `FlushSeries` re-bases Level4 after the bucket footer (the model
variant the driver runs is `⟨rebaseLevel4AfterBucketFooter⟩`), the deferred function re-bases it
after every series, and the three offsets are taken against the bases the model uses. -/
theorem block_offset_base_tie :
    Driver.C11.blockCfgOfFacts = ⟨true⟩ ∧
    Generated.C11.flushSeriesHighKeyBranch =
      ["err := w.flushLevel2SeriesBucket()", "w.Level3.highKey = highKey", "w.Level3.lowKeyOffsets.Reset()",
       "w.Level3.startAt = int(w.kvWriter.Size())", "w.Level2.highKeyOffsets.Add(int(w.kvWriter.Size()))",
       "w.Level4.startAt = int(w.kvWriter.Size())"] ∧
    Generated.C11.flushSeriesDeferred =
      ["w.Level4.startAt = int(w.kvWriter.Size())", "w.Level4.fieldDataOffsets.Reset()"] ∧
    Generated.C11.flusherOffsetBases =
      ["flushField: int(w.kvWriter.Size()) - w.Level4.startAt",
       "FlushSeries: int(w.kvWriter.Size()) - w.Level3.startAt",
       "flushLevel2SeriesBucket: int(w.kvWriter.Size()) - w.Level3.startAt"] := by
  refine ⟨by decide, by decide, by decide, by decide⟩

/-! ## two loaders, one field entry (finding memdb-parallel-container-load-shares-field-entries)

`timeSeriesIndex.Load` of one series-id container is, per series and field, the two steps
`fm.Reset(page)` ; `DownSampling(… fm)` (which reads `fm.buf`). `shared = true`: the loaders of all
containers use the same `*fieldEntry` (`memFilterResultSet.Load` hands out `rs.fields`); `false`:
every loader has entries of its own (the candidate repair). -/

/-- a step of loader `t`: `reset` points the entry at the loader's page `t`, `read` reads through it. -/
inductive LStep where
  | reset (t : Nat)
  | read (t : Nat)
deriving DecidableEq, Repr

/-- the entry's `buf` per loader (`shared`: one cell for all) and what each `read` saw. -/
def runLoaders (shared : Bool) : List LStep → (Nat → Option Nat) → List (Nat × Option Nat) → List (Nat × Option Nat)
  | [], _, seen => seen
  | .reset t :: rest, buf, seen =>
    runLoaders shared rest (if shared then (fun _ => some t) else (fun x => if x = t then some t else buf x)) seen
  | .read t :: rest, buf, seen => runLoaders shared rest buf (seen ++ [(t, buf t)])

/-- every loader resets before it reads (program order of `timeSeriesIndex.Load`). -/
def resetBeforeRead : List LStep → List Nat → Bool
  | [], _ => true
  | .reset t :: rest, rs => resetBeforeRead rest (t :: rs)
  | .read t :: rest, rs => rs.contains t && resetBeforeRead rest rs

theorem runLoaders_own_aux : ∀ (sched : List LStep) (buf : Nat → Option Nat) (seen : List (Nat × Option Nat))
    (rs : List Nat), (∀ t, t ∈ rs → buf t = some t) → (∀ p, p ∈ seen → p.2 = some p.1) →
    resetBeforeRead sched rs = true →
    ∀ p, p ∈ runLoaders false sched buf seen → p.2 = some p.1
  | [], _, _, _, _, hs, _ => by simpa [runLoaders] using hs
  | .reset t :: rest, buf, seen, rs, hb, hs, hr => by
    simp only [runLoaders, resetBeforeRead] at *
    refine runLoaders_own_aux rest _ seen (t :: rs) ?_ hs hr
    intro x hx
    by_cases hxt : x = t
    · simp [hxt]
    · simp [hxt]
      exact hb x (by simpa [hxt] using hx)
  | .read t :: rest, buf, seen, rs, hb, hs, hr => by
    simp only [runLoaders, resetBeforeRead, Bool.and_eq_true, List.contains_iff_mem] at *
    refine runLoaders_own_aux rest buf _ rs hb ?_ hr.2
    intro p hp
    rcases List.mem_append.mp hp with h | h
    · exact hs p h
    · simp at h; subst h; exact hb t hr.1

/-- with field entries of its own every loader reads its own series' page under EVERY interleaving
of any number of loaders (the repaired code; full strength over schedules). -/
theorem loaders_with_own_entries_read_own_page (sched : List LStep) (h : resetBeforeRead sched [] = true) :
    ∀ p, p ∈ runLoaders false sched (fun _ => none) [] → p.2 = some p.1 :=
  runLoaders_own_aux sched _ [] [] (by simp) (by simp) h

/-! ## the pending-load protocol: grouping stage → data-load stages → leaf reduce (round 9)

`Model/C11Pending.lean`: one thread per data-load stage (time segment); its atomic steps are its
`dataLoad` operators (each leaves by one of the three return statements) and then its `leafReduce`
(`if PendingDataLoadTasks.Load() == 0 { Reduce }`); the counter was set to the number of all filter
result sets by the grouping stage before any stage ran. The theorems are about the variant the
source has (`Generated.C11.dataLoadDecDeferred`, pinned by `pending_protocol_tie`) and quantify over
ALL schedules (lists of stage indices, any length, stutter included), any number of stages, any
number of loads per stage and EVERY placement of the early returns. -/

open LinVerif.C11Pending LinVerif.Lemmas.C11Pending in
/-- tie: the decrement is the deferred first statement of `dataLoad.Execute` (the model's variant
flag), the function has exactly the three return paths the model's `Outcome` lists, `leafReduce`
tests the counter for 0 and only then reduces, the grouping stage adds one unit per filter result
set for every segment, and a data-load stage runs one `dataLoad` per filter result set and then
`leafReduce`. -/
theorem pending_protocol_tie :
    Generated.C11.dataLoadDecDeferred = true ∧
    Generated.C11.dataLoadReturns =
      ["if roaring.FastAnd(seriesIDs, op.rs.SeriesIDs()).IsEmpty() => return nil",
       "if loader == nil => return nil", "return nil"] ∧
    Generated.C11.leafReduceGuard = "op.executeCtx.PendingDataLoadTasks.Load() == 0" ∧
    Generated.C11.leafReduceGuarded = ["op.executeCtx.Reduce(op.leafExecuteCtx.ReduceCtx.Reduce)"] ∧
    Generated.C11.leafReduceRest = ["return nil"] ∧
    Generated.C11.groupingNextStagesLoop =
      ["for segmentIdx := range timeSegments", "dataLoadCtx := *dlCtx",
       "stages = append(stages, NewDataLoadStage(stage.leafExecuteCtx, &dataLoadCtx, timeSegments[segmentIdx]))",
       "stage.executeCtx.PendingDataLoadTasks.Add(int32(len(timeSegments[segmentIdx].FilterRS)))"] ∧
    Generated.C11.dataLoadStagePlanChildren =
      ["for idx := range stage.segmentRS.FilterRS => execPlan.AddChild(NewPlanNode(operator.NewDataLoad(stage.executeCtx, stage.segmentRS, stage.segmentRS.FilterRS[idx])))",
       "execPlan.AddChild(NewPlanNode(operator.NewLeafReduce(stage.leafExecuteCtx, stage.executeCtx)))"] := by
  refine ⟨rfl, rfl, rfl, rfl, rfl, rfl, rfl⟩

/-! ### Round 12 — query series → storage positions (`DataLoadContext.Grouping` /
`IterateLowSeriesIDs`, flow/context.go): the helper of both loaders -/

/-- the statements of the two functions and the two places where a loader indexes its storage unit by
the callback's second argument, regenerated from the source. -/
theorem iterate_low_series_tie :
    Generated.C11.iterateLowSeriesIDsStmts =
      ["min := ctx.MinSeriesID", "max := ctx.MaxSeriesID", "lowSeriesIDs := ctx.LowSeriesIDs",
       "it := lowSeriesIDsFromStorage.PeekableIterator()", "seriesIdxFromStorage := 0",
       "for it.HasNext() {", "seriesID := it.Next()", "if seriesID > max {", "break", "}",
       "if seriesID < min {", "seriesIdxFromStorage++", "continue", "}",
       "seriesIdxFromQuery := seriesID - min", "if lowSeriesIDs[seriesIdxFromQuery] == seriesID {",
       "fn(seriesIdxFromQuery, seriesIdxFromStorage)", "}", "seriesIdxFromStorage++", "}"] ∧
    Generated.C11.dataLoadGroupingStmts =
      ["min := ctx.LowSeriesIDsContainer.Minimum()", "ctx.MinSeriesID = min",
       "ctx.MaxSeriesID = ctx.LowSeriesIDsContainer.Maximum()",
       "lengthOfSeriesIDs := int(ctx.MaxSeriesID-ctx.MinSeriesID) + 1",
       "ctx.LowSeriesIDs = make([]uint16, lengthOfSeriesIDs)", "if ctx.IsGrouping {",
       "ctx.GroupingSeriesAggRefs = make([]uint16, lengthOfSeriesIDs)", "}",
       "it := ctx.LowSeriesIDsContainer.PeekableIterator()", "for it.HasNext() {",
       "lowSeriesID := it.Next()", "seriesIdx := lowSeriesID - min",
       "ctx.LowSeriesIDs[seriesIdx] = lowSeriesID", "}"] ∧
    Generated.C11.iterateStoragePositionUses =
      ["timeSeriesIndex.Load: memTimeSeriesIDs[seriesIdxFromStorage]",
       "metricLoader.Load: s.lowKeyOffsets.GetBlock(seriesIdxFromStorage, s.seriesEntriesBlock)"] := by
  refine ⟨rfl, rfl, rfl⟩

open LinVerif.Model.C11Iter LinVerif.Lemmas.C11Iter in
/-- FULL STRENGTH: for EVERY non-empty ascending query container `q` and EVERY ascending storage
container `st` (any ids, any overlap: ids of the storage before the query's smallest, the query's
smallest absent from the storage, gaps, ids after the query's largest), `Grouping()` followed by
`IterateLowSeriesIDs` calls the callback exactly for the stored ids the query selects, in storage
order, each with its query index `id - min` and ITS OWN position in the storage container. -/
theorem iterate_eq_selected_positions (q st : List Nat) (hne : q ≠ [])
    (hq : q.Pairwise (· < ·)) (hst : st.Pairwise (· < ·)) :
    iterate (grouping q) st = selectedAt q (grouping q).min st 0 := by
  obtain ⟨hb, ht⟩ := grouping_spec q hne hq
  exact iterLoop_eq_selectedAt (grouping q) q hb ht st 0 hst

open LinVerif.Model.C11Iter LinVerif.Lemmas.C11Iter in
/-- the same as a characterisation of the callback's arguments: `(qi, si)` is passed iff the id at
storage position `si` is selected by the query and `qi` is its offset from the query's smallest id. -/
theorem iterate_pair_iff (q st : List Nat) (hne : q ≠ [])
    (hq : q.Pairwise (· < ·)) (hst : st.Pairwise (· < ·)) (qi si : Nat) :
    (qi, si) ∈ iterate (grouping q) st ↔ ∃ s, st[si]? = some s ∧ s ∈ q ∧ qi = s - (grouping q).min := by
  rw [iterate_eq_selected_positions q st hne hq hst, selectedAt_mem]
  constructor
  · rintro ⟨s, _, h2, h3, h4⟩; exact ⟨s, by simpa using h2, h3, h4⟩
  · rintro ⟨s, h2, h3, h4⟩; exact ⟨s, Nat.zero_le _, by simpa using h2, h3, h4⟩

open LinVerif.Model.C11Iter LinVerif.Lemmas.C11Iter in
/-- what a loader reads (`memTimeSeriesIDs[si]`, `lowKeyOffsets.GetBlock(si)`): with one entry per
stored id in id order, every entry handed to query index `qi` is the entry of the series
`min + qi` itself — never a neighbour's. -/
theorem loader_reads_own_entry (q st entries : List Nat) (hne : q ≠ [])
    (hq : q.Pairwise (· < ·)) (hst : st.Pairwise (· < ·)) (qi : Nat) (e : Option Nat)
    (h : (qi, e) ∈ loadEntries (iterate (grouping q) st) entries) :
    ∃ (si s : Nat), st[si]? = some s ∧ s ∈ q ∧ s = (grouping q).min + qi ∧ e = entries[si]? := by
  simp only [loadEntries, List.mem_map] at h
  obtain ⟨⟨qi', si⟩, hm, he⟩ := h
  obtain ⟨s, h1, h2, h3⟩ := (iterate_pair_iff q st hne hq hst qi' si).mp hm
  have hmin := (grouping_spec q hne hq).1 s h2
  have e1 : qi' = qi := (Prod.mk.inj he).1
  have e2 : entries[si]? = e := (Prod.mk.inj he).2
  exact ⟨si, s, h1, h2, by omega, e2.symm⟩

open LinVerif.Model.C11Iter in
/-- non-vacuity: storage {1,2,4,9}, query {3,4,9,12}: ids before the query's smallest, the smallest
absent, one selected id after a gap. -/
example : iterate (grouping [3, 4, 9, 12]) [1, 2, 4, 9] = [(1, 2), (6, 3)] ∧
    loadEntries (iterate (grouping [3, 4, 9, 12]) [1, 2, 4, 9]) [10, 20, 40, 90] = [(1, some 40), (6, some 90)] := by
  decide

/-! ### Round 12 — a query concurrent with flushes: what it picked at filter time stays readable -/

/-- `dataPointBuffer.GetPage` does not look at the released mark, `Release` only sets it, and
`memoryDatabase.Close` releases the buffers and cleans the index — regenerated from the source. -/
theorem released_buffer_tie :
    Generated.C11.releasedBufferKeepsPages = true ∧
    Generated.C11.getPageStmts =
      ["var ( pageID int32 ok bool )", "d.lock.RLock()", "pageID, ok = d.ids.Get(memSeriesID)",
       "d.lock.RUnlock()", "if !ok {", "return nil, false", "}", "region := pageID / pageCount",
       "rOffset := pageID % pageCount", "offset := pageSize * rOffset",
       "return d.buf[region][offset : offset+pageSize], true"] ∧
    Generated.C11.bufferReleaseStmts = ["d.dirty.Store(true)"] ∧
    Generated.C11.memdbCloseCalls = ["λ:?.Release", "fieldWriteStores.Range", "indexDB.Cleanup"] := by
  refine ⟨rfl, rfl, rfl, rfl⟩

open LinVerif.C11QuerySnap LinVerif.Lemmas.C11QuerySnap in
/-- NO ACCEPTED POINT IS LOST TO A CONCURRENT FLUSH: for every history `before` of writes, window
exits, memory-database switches and flush completions, a query that filters in the state after it
(picks the live memory databases and the files of that moment) and loads after ANY further history
`after` — later writes, any number of flushes that run to completion and close the memory databases
it picked — reads every point written before it started. Stated over the regenerated flag. -/
theorem query_snapshot_survives_later_flushes (before after : List LinVerif.C11QuerySnap.Op) (p : Nat)
    (hp : p ∈ written before) :
    p ∈ load Generated.C11.releasedBufferKeepsPages (run (run {} before) after) (filter (run {} before)) := by
  have : Generated.C11.releasedBufferKeepsPages = true := rfl
  rw [this]
  exact load_of_reach _ _ _ (reach_run _ after _ _ (reach_filter _ _ (written_stored before {} p hp)))

open LinVerif.C11QuerySnap in
/-- non-vacuity: 1 is in a file, 2 was compacted out of the window, 3 is in the current window; the
query filters, the flush completes (and 4 is written), the query loads. -/
example :
    load true (run (run {} [.write 1, .flushBegin, .flushCommit, .write 2, .roll, .write 3])
        [.flushBegin, .flushCommit, .write 4])
      (filter (run {} [.write 1, .flushBegin, .flushCommit, .write 2, .roll, .write 3])) = [1, 2, 3] := by
  decide

open LinVerif.C11Pending LinVerif.Lemmas.C11Pending in
/-- NEVER PREMATURE: under every schedule, whenever a `leafReduce` calls `Reduce`, every `dataLoad`
of every stage has finished — whichever loads returned early (the counter is exactly the number of
loads that have not finished). The answer is never reduced from a part of the sources. -/
theorem leaf_reduce_not_premature (stages : List (List Outcome)) (sched : List Nat) :
    (run Generated.C11.dataLoadDecDeferred (init stages) sched).premature = false :=
  (inv_run sched _ (inv_init stages)).notPremature

open LinVerif.C11Pending LinVerif.Lemmas.C11Pending in
/-- ALWAYS REDUCED: under every schedule that lets every stage finish, `Reduce` has been called —
the stage whose `leafReduce` comes last sees the counter at 0, for EVERY placement of early returns. -/
theorem leaf_reduce_fires (stages : List (List Outcome)) (hne : stages ≠ []) (sched : List Nat)
    (hfin : finished (run Generated.C11.dataLoadDecDeferred (init stages) sched) = true) :
    1 ≤ (run Generated.C11.dataLoadDecDeferred (init stages) sched).fired := by
  have hI := inv_run sched _ (inv_init stages)
  apply hI.fires
  · intro h
    have := run_len true sched (init stages)
    rw [h] at this
    simp [init] at this
    exact hne (List.eq_nil_of_length_eq_zero this.symm)
  · intro i g hg
    unfold finished at hfin
    rw [List.all_eq_true] at hfin
    have := hfin g (List.mem_of_getElem? hg)
    simp at this
    exact this.2

open LinVerif.C11Pending LinVerif.Lemmas.C11Pending in
/-- EXACTLY ONCE for a query over one time segment (one data-load stage), every schedule, every
placement of early returns. (With several segments more than one `leafReduce` can see 0 — the
example below — and each later `Reduce` finds the aggregators reset.) -/
theorem leaf_reduce_exactly_once_one_segment (loads : List Outcome) (sched : List Nat)
    (hfin : finished (run Generated.C11.dataLoadDecDeferred (init [loads]) sched) = true) :
    (run Generated.C11.dataLoadDecDeferred (init [loads]) sched).fired = 1 := by
  have h1 := leaf_reduce_fires [loads] (by simp) sched hfin
  have h2 := fired_le_run Generated.C11.dataLoadDecDeferred sched (init [loads]) (by simp [init])
  have h3 := sumM_le_length (run Generated.C11.dataLoadDecDeferred (init [loads]) sched).stages
  rw [run_len] at h3
  have h4 : (init [loads]).stages.length = 1 := rfl
  omega

open LinVerif.C11Pending LinVerif.Lemmas.C11Pending in
/-- non-vacuity / behaviour of the model on concrete schedules: two segments, early returns of both
kinds; the one-worker schedule reduces once (in the last stage); when both stages finish their loads
before either `leafReduce` runs, both see 0. -/
example :
    let stages := [[Outcome.noSeries, Outcome.loaded], [Outcome.nilLoader]]
    finished (run true (init stages) (seqSched 0 stages)) = true ∧
    (run true (init stages) (seqSched 0 stages)).fired = 1 ∧
    (run true (init stages) [0, 1, 0, 0, 1]).fired = 2 ∧
    (run true (init stages) [0, 1, 0, 0, 1]).premature = false := by decide

/-! ## fault path on the write side: a failed flush (round 9)

`Model/C11FlushFault.lean`: after `flushMemoryDatabase` failed, `dataFamily.Flush` returns BEFORE it
resets `immutableMemDB`; `Filter` keeps reading it. (A family in that state is the `Window` state of
`query_eq_naive_in_flush_window_partial`: immutable memory database + new mutable one + the files
committed before.) The skip guard of `Flush` then refuses every later flush of the family. -/

open LinVerif.C11FlushFault in
/-- tie: the reset of `immutableMemDB` comes after the error return of `flushMemoryDatabase`; the
skip guard; every error path of `fileFilter` (a reader's open / filter error is handed to the
query, only not-found is "no data"; `reader.Get` failing skips the file). -/
theorem flush_fault_tie :
    Generated.C11.familyFlushAfterWrite =
      ["if err := f.flushMemoryDatabase(immutableSeq, waitingFlushMemDB); err != nil { return err }",
       "f.immutableMemDB = nil"] ∧
    Generated.C11.familyFlushSkipGuard =
      "f.immutableMemDB != nil || f.mutableMemDB == nil || f.mutableMemDB.NumOfSeries() == 0" ∧
    Generated.C11.familyFileFilterErrPaths =
      ["if err != nil => return nil, err", "if err0 != nil => continue", "if err != nil => return nil, err",
       "if err != nil && errors.Is(err, constants.ErrNotFound) => return nil, nil", "return resultSet, err"] := by
  refine ⟨rfl, rfl, rfl⟩

open LinVerif.C11FlushFault in
theorem visible_run (ops : List C11FlushFault.Op) : ∀ (f : Fam),
    visible (run true f ops) = visible f ++ written ops := by
  induction ops with
  | nil => intro f; simp [run, written]
  | cons op ops ih =>
    intro f
    have hr : run true f (op :: ops) = run true (step true f op) ops := rfl
    rw [hr, ih]
    cases op with
    | write p => simp [step, visible, written]
    | flush fails =>
      simp only [written]
      congr 1
      unfold step
      cases hi : f.imm with
      | some l => simp
      | none =>
        by_cases hm : f.mem = []
        · simp [hm]
        · cases fails <;> simp [hm, visible, hi]

open LinVerif.C11FlushFault in
/-- ACCEPTED POINTS STAY VISIBLE over every history of writes and flushes, any of which may fail:
what the family's filter can see (files, immutable, mutable) is exactly the written points, in
write order. The seeded change c11-22 (reset also after a failure) falsifies it: `Neg.` below. -/
theorem failed_flush_keeps_points (ops : List C11FlushFault.Op) : visible (run true {} ops) = written ops := by
  rw [visible_run]; simp [visible]

open LinVerif.C11FlushFault in
/-- … and the price in the current code: once a flush failed, NO later flush of the family writes a
file (the skip guard `immutableMemDB != nil`; the failed flush is not retried). Stated as what the
model does, not as a property the code should have. -/
theorem failed_flush_blocks_later_flushes (ops : List C11FlushFault.Op) : ∀ (f : Fam) (l : List Nat), f.imm = some l →
    (run true f ops).files = f.files ∧ (run true f ops).imm = some l := by
  induction ops with
  | nil => intro f l h; exact ⟨rfl, h⟩
  | cons op ops ih =>
    intro f l h
    have hr : run true f (op :: ops) = run true (step true f op) ops := rfl
    rw [hr]
    cases op with
    | write p => exact ih _ l (by simp [step, h])
    | flush fails =>
      have : step true f (.flush fails) = f := by simp [step, h]
      rw [this]; exact ih f l h

/-! ## proved negations (witnesses replayed against the implementation on every run) -/

namespace Neg

set_option maxRecDepth 50000

/-! ### repaired: negations about the OLD variants (what each fix repaired) -/

/-- `field-writer-end-shrinks` (fix 02a0667): sum field, slots 5, 9, 7 in one window. Before the
fix `end` shrank to 2 and slot 9 was invisible to the memory query (and to compaction and flush);
the repaired write buffer answers the reference. -/
theorem end_shrinks_hides_slot :
    memView .sum (runWritesV Cfg.old 15 .sum (Buf.fresh 15) [(5, 1), (9, 2), (7, 4)]) 9 = none ∧
    refSlots .sum [(5, 1), (9, 2), (7, 4)] 9 = some 2 ∧
    memView .sum (runWrites 15 .sum (Buf.fresh 15) [(5, 1), (9, 2), (7, 4)]) 9 = some 2 := by decide

/-- ... and the flush wrote the block without it. -/
theorem end_shrinks_flush_loses_slot :
    cellAt (flushCellsV Cfg.old .sum (runWritesV Cfg.old 15 .sum (Buf.fresh 15) [(5, 1), (9, 2), (7, 4)]) 5 9) 4 = none ∧
    cellAt (flushCells .sum (runWrites 15 .sum (Buf.fresh 15) [(5, 1), (9, 2), (7, 4)]) 5 9) 4 = some 2 := by decide

/-- `merge-arg-order-last` (fix 73bdfe1): last field, slot 5 = 1, slot 25 (window left), slot 5 = 3:
the memory query answered 3, the flushed block held 1; repaired: 3. -/
theorem merge_keeps_older_last_value :
    memView .last (runWritesV Cfg.old 15 .last (Buf.fresh 15) [(5, 1), (25, 2), (5, 3)]) 5 = some 3 ∧
    cellAt (flushCellsV Cfg.old .last (runWritesV Cfg.old 15 .last (Buf.fresh 15) [(5, 1), (25, 2), (5, 3)]) 5 25) 0 = some 1 ∧
    refSlots .last [(5, 1), (25, 2), (5, 3)] 5 = some 3 ∧
    cellAt (flushCells .last (runWrites 15 .last (Buf.fresh 15) [(5, 1), (25, 2), (5, 3)]) 5 25) 0 = some 3 := by decide

def sch : List (Nat × FieldType) := [(1, .sum), (2, .min), (3, .max), (4, .last)]
/-- the repaired code -/
def s0 : Shard := { Shard.init 15 with fieldTypes := sch }
/-- the code before the fixes -/
def sOld : Shard := { Shard.initV Cfg.old 15 with fieldTypes := sch }
def qAll (fld : Nat) (fa : AggType) : Query := ⟨fld, fa, fa, 32, 0, 31, 1⟩

/-- `memdb-created-tick-collision` (fix 4be15ce): two families got memory databases with the same
created time (tick 1); flushing family 0 cleared the shared time range, family 1's own flush then
wrote nothing. Repaired: created times are unique, the point survives. -/
theorem tick_collision_loses_family :
    storeView (runOps sOld [.write 1 0 1 1 .sum 5 1, .write 1 1 1 1 .sum 6 2, .flush 0, .flush 1]) 1 1 1 6 = none ∧
    refCell .sum (pointsOf [.write 1 0 1 1 .sum 5 1, .write 1 1 1 1 .sum 6 2, .flush 0, .flush 1]) 1 1 1 6 = some 2 ∧
    storeView (runOps s0 [.write 1 0 1 1 .sum 5 1, .write 1 1 1 1 .sum 6 2, .flush 0, .flush 1]) 1 1 1 6 = some 2 := by
  decide

/-- `two-functions-one-field-cross-aggregated` (fix eb2ea99): `sum(f), max(f)` on one point 8: the
reduce fed the max array into the sum array as well (16); repaired: 8. -/
theorem two_functions_cross_aggregated :
    arrGet (leafGroup (runOps sOld [.write 1 0 2 1 .sum 7 8]) (qAll 1 .sum) ⟨[1], [2]⟩ [.sum, .max] [0] [2]) .sum 7 = some 16 ∧
    naiveBucket (qAll 1 .sum) (pointsOf [.write 1 0 2 1 .sum 7 8]) [2] [0] 7 = some 8 ∧
    arrGet (leafGroup (runOps s0 [.write 1 0 2 1 .sum 7 8]) (qAll 1 .sum) ⟨[1], [2]⟩ [.sum, .max] [0] [2]) .sum 7 = some 8 ∧
    arrGet (leafGroup (runOps s0 [.write 1 0 2 1 .sum 7 8]) (qAll 1 .sum) ⟨[1], [2]⟩ [.sum, .max] [0] [2]) .max 7 = some 8 := by
  decide

/-- `family-filter-notfound-drops-memory` (fix 636394b): series 1 flushed, series 2 only in
memory, query on series 2: the file filter's not-found failed the whole family. -/
theorem notfound_drops_memory :
    arrGet (leafGroup (runOps sOld [.write 1 0 1 1 .sum 5 1, .flush 0, .write 2 0 2 1 .sum 6 2])
      (qAll 1 .sum) ⟨[1], [2]⟩ [.sum] [0] [2]) .sum 6 = none ∧
    naiveBucket (qAll 1 .sum) (pointsOf [.write 1 0 1 1 .sum 5 1, .flush 0, .write 2 0 2 1 .sum 6 2]) [2] [0] 6 = some 2 ∧
    arrGet (leafGroup (runOps s0 [.write 1 0 1 1 .sum 5 1, .flush 0, .write 2 0 2 1 .sum 6 2])
      (qAll 1 .sum) ⟨[1], [2]⟩ [.sum] [0] [2]) .sum 6 = some 2 := by
  decide

/-- `family-filter-notfound-drops-files` (fix 636394b): field 1 only in the file, the memory
database holds only field 2: the memory filter's field-not-found failed the whole family. -/
theorem notfound_drops_files :
    arrGet (leafGroup (runOps sOld [.write 1 0 1 1 .sum 5 1, .write 1 0 1 2 .min 5 1, .flush 0, .write 2 0 1 2 .min 6 2])
      (qAll 1 .sum) ⟨[1], [1]⟩ [.sum] [0] [1]) .sum 5 = none ∧
    naiveBucket (qAll 1 .sum)
      (pointsOf [.write 1 0 1 1 .sum 5 1, .write 1 0 1 2 .min 5 1, .flush 0, .write 2 0 1 2 .min 6 2]) [1] [0] 5 = some 1 ∧
    arrGet (leafGroup (runOps s0 [.write 1 0 1 1 .sum 5 1, .write 1 0 1 2 .min 5 1, .flush 0, .write 2 0 1 2 .min 6 2])
      (qAll 1 .sum) ⟨[1], [1]⟩ [.sum] [0] [1]) .sum 5 = some 1 := by
  decide

/-- `single-field-file-read-into-first-query-field` (fix c783635): files {fmax} and {fmin}, query
on both: the first file's fmax value was answered as fmin (query field index 0). -/
theorem single_field_file_misattributed :
    arrGet (leafGroup (runOps sOld [.write 1 0 1 3 .max 5 1, .flush 0, .write 2 0 1 2 .min 6 25, .flush 0])
      (qAll 2 .min) ⟨[2, 3], [1]⟩ [.min] [0] [1]) .min 5 = some 1 ∧
    naiveBucket (qAll 2 .min)
      (pointsOf [.write 1 0 1 3 .max 5 1, .flush 0, .write 2 0 1 2 .min 6 25, .flush 0]) [1] [0] 5 = none ∧
    arrGet (leafGroup (runOps s0 [.write 1 0 1 3 .max 5 1, .flush 0, .write 2 0 1 2 .min 6 25, .flush 0])
      (qAll 2 .min) ⟨[2, 3], [1]⟩ [.min] [0] [1]) .min 5 = none := by
  decide

/-- `month-boundary-family-selection` (fix 8adefd6): 2023, families Jun 27 (day 177) and Jul 3
(day 183), query Jun 25 – Jul 5 (days 175..185): nothing was selected; repaired: both. -/
theorem month_boundary_selects_nothing :
    monthSelectV Cfg.old [31, 28, 31, 30, 31, 30, 31, 31, 30, 31, 30, 31] [177, 183] 175 185 = [] ∧
    monthSelectSpec [177, 183] 175 185 = [177, 183] ∧
    monthSelectV Cfg.fixed [31, 28, 31, 30, 31, 30, 31, 31, 30, 31, 30, 31] [177, 183] 175 185 = [177, 183] := by decide

/-! ### not repaired: negations about the current code (known findings) -/

/-- `last-field-flushed-value-wins`: last field, slot 5 = 1, flush, slot 5 = 2: memory is loaded
before the file and `last` keeps what was loaded last. -/
theorem last_field_flushed_value_wins :
    arrGet (leafGroup (runOps s0 [.write 1 0 1 4 .last 5 1, .flush 0, .write 2 0 1 4 .last 5 2])
      (qAll 4 .last) ⟨[4], [1]⟩ [.last] [0] [1]) .last 5 = some 1 ∧
    naiveBucket (qAll 4 .last) (pointsOf [.write 1 0 1 4 .last 5 1, .flush 0, .write 2 0 1 4 .last 5 2]) [1] [0] 5 = some 2 := by
  decide

/-- `last-downsampling-flushed-slot-wins`: slot 1 = 1, flush, slot 4 = 2, `last` per 6 slots. -/
theorem last_downsampling_flushed_slot_wins :
    arrGet (leafGroup (runOps s0 [.write 1 0 1 4 .last 1 1, .flush 0, .write 2 0 1 4 .last 4 2])
      ⟨4, .last, .last, 32, 0, 31, 6⟩ ⟨[4], [1]⟩ [.last] [0] [1]) .last 0 = some 1 ∧
    naiveBucket ⟨4, .last, .last, 32, 0, 31, 6⟩
      (pointsOf [.write 1 0 1 4 .last 1 1, .flush 0, .write 2 0 1 4 .last 4 2]) [1] [0] 0 = some 2 := by
  decide

/-- `max-of-sum-field-split-by-flush`: sum field, slot 7 += 4, flush, slot 7 += 16: `max` sees the
two parts, the slot holds 20. -/
theorem max_of_split_sum_slot :
    arrGet (leafGroup (runOps s0 [.write 1 0 1 1 .sum 7 4, .flush 0, .write 2 0 1 1 .sum 7 16])
      ⟨1, .sum, .max, 32, 0, 31, 1⟩ ⟨[1], [1]⟩ [.max] [0] [1]) .max 7 = some 16 ∧
    naiveBucket ⟨1, .sum, .max, 32, 0, 31, 1⟩
      (pointsOf [.write 1 0 1 1 .sum 7 4, .flush 0, .write 2 0 1 1 .sum 7 16]) [1] [0] 7 = some 20 := by
  decide

/-- `expr-rate-of-valueless-operands-panics` (source before fix ad91846, `guard = false`): a min field whose array holds no
value in the query range (the series has data in the family, outside the range, so the leaf answers
the group with an empty array): `rate(fmin - fmin)` — `binaryEval` of two empty arrays returns the
nil array and `RateCall` dereferences it. With the nil guard the item has no result. -/
theorem rate_of_nil_array_panics :
    (match LinVerif.QueryExpr.evalItem false 2 3600 [(2, ⟨.min, [(.min, [])]⟩)]
        (.call .rate (.bin .sub (.field 2) (.field 2))) with
      | .crash => True | _ => False) ∧
    (match LinVerif.QueryExpr.evalItem true 2 3600 [(2, ⟨.min, [(.min, [])]⟩)]
        (.call .rate (.bin .sub (.field 2) (.field 2))) with
      | .empty => True | _ => False) := by
  constructor <;> simp [LinVerif.QueryExpr.evalItem, LinVerif.QueryExpr.eval, LinVerif.QueryExpr.applyFunc,
    LinVerif.QueryExpr.binaryEval, LinVerif.QueryExpr.FArr.isEmpty, LinVerif.QueryExpr.paramOf,
    LinVerif.QueryExpr.defaultParam, Map.lookup, List.range, List.range.loop]

/-! ### the metric block without the re-base; the shared field entry -/

open LinVerif.BlockLayout in
/-- the code of seeded change c11-20 (`Level4.startAt` not re-based after the bucket footer): two
fields, series 65535 | 65536, 65537 | 131072 — exactly the first series of the 2nd and 3rd bucket
are not read back; the current code reads all of them; a one-field metric is not affected. -/
theorem no_rebase_loses_first_series_of_later_buckets :
    lostSeries ⟨false⟩ Enc.simple 2 [(65535, [3, 4]), (65536, [5, 6]), (65537, [1, 1]), (131072, [2, 2])] = [65536, 131072] ∧
    lostSeries ⟨true⟩ Enc.simple 2 [(65535, [3, 4]), (65536, [5, 6]), (65537, [1, 1]), (131072, [2, 2])] = [] ∧
    lostSeries ⟨false⟩ Enc.simple 1 [(65535, [3]), (65536, [5]), (131072, [2])] = [] := by decide

/-- finding `memdb-parallel-container-load-shares-field-entries` (current code): loader 0 resets,
loader 1 resets, loader 0 reads — it reads loader 1's page; with entries of its own it reads its own. -/
theorem shared_field_entry_reads_other_series :
    runLoaders true [.reset 0, .reset 1, .read 0, .read 1] (fun _ => none) [] = [(0, some 1), (1, some 1)] ∧
    runLoaders false [.reset 0, .reset 1, .read 0, .read 1] (fun _ => none) [] = [(0, some 0), (1, some 1)] := by
  decide

/-! ### the pending counter without the defer (seeded c11-13 / c11-21); reset after a failed flush (c11-22) -/

open LinVerif.C11Pending LinVerif.Lemmas.C11Pending in
/-- without the defer, ONE early return anywhere — any stage, any position, either kind — and no
`leafReduce` ever reduces, under every schedule: the leaf answers nothing. -/
theorem no_defer_any_early_return_never_reduces (stages : List (List Outcome))
    (hE : 1 ≤ sumM earlyLeft (init stages).stages) (sched : List Nat) :
    (run false (init stages) sched).fired = 0 := by
  have h0 : InvN (sumM earlyLeft (init stages).stages) (init stages) := by
    refine ⟨?_, rfl⟩
    show ((remaining (init stages).stages : Nat) : Int) = _
    rw [split_loads]; omega
  exact (invN_run _ hE sched _ h0).fired

open LinVerif.C11Pending in
/-- the witness of c11-21: one segment, one source whose series all dropped out at grouping. -/
theorem no_defer_witness :
    finished (run false (init [[Outcome.noSeries, Outcome.loaded]]) [0, 0, 0]) = true ∧
    (run false (init [[Outcome.noSeries, Outcome.loaded]]) [0, 0, 0]).fired = 0 ∧
    (run true (init [[Outcome.noSeries, Outcome.loaded]]) [0, 0, 0]).fired = 1 := by decide

open LinVerif.C11FlushFault in
/-- c11-22: resetting the immutable memory database after a FAILED flush loses the accepted points. -/
theorem reset_after_failed_flush_loses_points :
    visible (run false {} [.write 1, .write 2, .flush true, .write 3]) = [3] ∧
    written [.write 1, .write 2, .flush true, .write 3] = [1, 2, 3] ∧
    visible (run true {} [.write 1, .write 2, .flush true, .write 3]) = [1, 2, 3] := by decide

open LinVerif.Model.C11Iter in
/-- c11-25: jumping to the query's smallest id and continuing at position `Rank(min) - 1` reads the
PREDECESSOR's entry whenever the smallest id is absent from the storage unit (storage {1,2,4}, query
{3,4}: series 4 is read from the entry of series 2); the code's loop reads its own. With the
smallest id present both agree. -/
theorem rank_skip_reads_predecessor_entry :
    loadEntries (iterateRankSkip (grouping [3, 4]) [1, 2, 4]) [10, 20, 40] = [(1, some 20)] ∧
    loadEntries (iterate (grouping [3, 4]) [1, 2, 4]) [10, 20, 40] = [(1, some 40)] ∧
    iterateRankSkip (grouping [3, 4]) [1, 2, 3, 4] = iterate (grouping [3, 4]) [1, 2, 3, 4] := by decide

open LinVerif.C11QuerySnap in
/-- c11-24: if a released buffer hands out no page, a query that filtered before the flush completed
loses the current write window of the memory database it picked (3; the compacted 2 survives) — the
new file is not in its snapshot. -/
theorem released_buffer_without_pages_loses_window :
    load false (run (run {} [.write 1, .flushBegin, .flushCommit, .write 2, .roll, .write 3])
        [.flushBegin, .flushCommit])
      (filter (run {} [.write 1, .flushBegin, .flushCommit, .write 2, .roll, .write 3])) = [1, 2] ∧
    written [.write 1, .flushBegin, .flushCommit, .write 2, .roll, .write 3] = [1, 2, 3] := by decide

end Neg

end LinVerif.Props.C11
