/-
C03 — the pooled, positional `TSDDecoder`s of one `merger.Merge` call (fourth Props module of the check).

`seriesMerger.merge` resets the decoder of an input block only when the block has data for the current target
field; otherwise `streams[idx]` still holds the decoder of an EARLIER field or an EARLIER series, and
`DownSamplingMultiSeriesInto` iterates it all the same (Round 8 leftover, observation O2). Model:
`Model/C03Decoder.lean` (decoder objects with their read position, threaded through all field steps of a `Merge`
call); lemmas `Lemmas/C03Decoder.lean`.

Result, for ANY ratio / base slot / target range (compaction and rollup alike), any number of series, fields and
input blocks, any pattern of "block has / has no data for this field", inverted ranges included: every stale
decoder is *spent* — exhausted, or stopped by the `break` at a slot whose target position lies past the target
range, and target positions only grow with the slot — so it contributes nothing; the blocks with data contribute
exactly `Merge.feed` over their data. Hence the stateful loop IS the `mergeFieldBy` of `Model/Merge.lean`, which all
merge / compaction / history theorems are about (`decoder_steps_are_mergeField`).
-/
import LinVerif.Lemmas.C03Decoder
import LinVerif.Generated.C03

set_option linter.unusedSectionVars false
set_option linter.unusedSimpArgs false
set_option linter.unusedVariables false
namespace LinVerif.Props.C03
open LinVerif LinVerif.Map LinVerif.MetricBlock LinVerif.Merge LinVerif.C03 LinVerif.C03Decoder

variable {V : Type}

/-- **stale_decoders_contribute_nothing.** All field steps of a `Merge` call in sequence (`steps`: per step the
field type's aggregate and, per input block, its field data or none), starting from ANY spent decoder slice
(`Merge` starts from all-nil): every step's accumulator is `specAll` — the fold of `feed` over the blocks that have
data for that field, each decoded from the start of its data — and the slice is spent again at the end. -/
theorem stale_decoders_contribute_nothing (cfg : Cfg) (tStart len : Nat) :
    ∀ (steps : List ((V → V → V) × List (FD V))) (ss : List (Option (Dec V))),
      AllSpent cfg tStart len ss → (∀ st ∈ steps, st.2.length = ss.length) →
      (stepsLoop cfg tStart len ss steps).2 = steps.map (fun st => specAll st.1 cfg tStart len st.2 []) ∧
      AllSpent cfg tStart len (stepsLoop cfg tStart len ss steps).1 ∧
      (stepsLoop cfg tStart len ss steps).1.length = ss.length := by
  intro steps
  induction steps with
  | nil => intro ss h _; exact ⟨rfl, h, rfl⟩
  | cons st rest ih =>
    intro ss hsp hlen
    have hl : ss.length = st.2.length := (hlen st List.mem_cons_self).symm
    obtain ⟨h1, h2, h3⟩ := field_step_spec st.1 cfg tStart len st.2 ss [] hsp hl
    have hrest : ∀ st' ∈ rest, st'.2.length = (fieldStep cfg tStart len ss st).1.length := by
      intro st' hm
      unfold fieldStep
      rw [h3, hlen st' (List.mem_cons_of_mem _ hm), hl]
    obtain ⟨g1, g2, g3⟩ := ih (fieldStep cfg tStart len ss st).1 (by unfold fieldStep; exact h2) hrest
    simp only [stepsLoop, List.map_cons]
    refine ⟨?_, g2, ?_⟩
    · rw [g1]; unfold fieldStep; rw [h1]
    · rw [g3]; unfold fieldStep; rw [h3, hl]

/-- a `Merge` call starts with `make([]*TSDDecoder, blockCount)`: all nil, trivially spent -/
theorem fresh_slice_is_spent (cfg : Cfg) (tStart len n : Nat) :
    AllSpent cfg tStart len (List.replicate n (none : Option (Dec V))) := by
  intro d h
  simp [List.mem_replicate] at h

/-- what the field readers answer for series/field data function `data` over the input blocks -/
def fdOf (data : Block V → Option (List (Nat × V))) (bs : List (Block V)) : List (FD V) :=
  bs.map (fun b => (data b).map (fun vals => (vals, b.start, b.stop)))

/-- **decoder_steps_are_mergeField.** The accumulator of a field step is the one `mergeFieldBy` folds: the merged
field data of `Model/Merge.lean` is what the loop over the pooled decoder objects produces. -/
theorem decoder_steps_are_mergeField (agg : FieldType → V → V → V) (cfg : Cfg) (tStart tEnd : Nat) (ty : FieldType)
    (data : Block V → Option (List (Nat × V))) (bs : List (Block V)) :
    emit (specAll (agg ty) cfg tStart (tEnd + 1 - tStart) (fdOf data bs) []) tStart (tEnd + 1 - tStart) =
      mergeFieldBy agg cfg tStart tEnd ty data bs := by
  unfold mergeFieldBy
  simp only []
  congr 1
  generalize ([] : List (Nat × V)) = acc
  induction bs generalizing acc with
  | nil => rfl
  | cons b r ih =>
    unfold fdOf at ih ⊢
    simp only [List.map_cons, List.foldl_cons]
    cases hd : data b with
    | none => simp only [Option.map_none, specAll]; exact ih acc
    | some vals => simp only [Option.map_some, specAll]; exact ih _

/-- `HasValueWithSlot` only answers at `idx + startTime` and moves forward; `reset` rewinds (`d.idx = 0`);
`seriesMerger.merge` resets a decoder only under `len(fieldData) > 0` (a block without data keeps the old object);
the slice is allocated once per `Merge` call -/
theorem tie_decoder_position :
    Generated.C03.hasValueWithSlotStmts = ["if slot < d.startTime || slot > d.endTime -> return false",
      "if slot == d.idx+d.startTime -> return d.HasValue(..)", "return false"] ∧
    Generated.C03.tsdResetAssigns = ["d.idx = 0"] ∧
    Generated.C03.resetWithTimeRangeStmts = ["d.reset(data)", "d.startTime = start", "d.endTime = end", "d.reader.Reset()"] ∧
    Generated.C03.seriesMergeIfTree = ["0:reader == nil -> continue",
      "0:len(fieldData) > 0 -> streams[idx].ResetWithTimeRange(fieldData, oldSlotRange.Star",
      "1:streams[idx] == nil -> streams[idx] = encoding.GetTSDDecoder()", "0:err != nil -> return err",
      "0:err := sm.flusher.FlushField(data); err != nil -> return err", "0:reader != nil -> reader.Close()"] ∧
    Generated.C03.mergeDecoderAlloc = ["decodeStreams := ..", "defer func() { for _, stream := range decodeStreams { encodi"] := by
  refine ⟨rfl, rfl, rfl, rfl, rfl⟩

namespace Neg

/-- the data of field 1 of some block: slots 0..2 -/
def sVals : List (Nat × Int) := [(0, 5), (1, 6), (2, 7)]

/-- **a decoder that is NOT spent leaks the previous field**: were the stale object rewound (position 0) instead of
left at its end, the next field step — for which the block has NO data — would aggregate field 1's values again -/
theorem rewound_decoder_leaks_previous_field :
    (fieldStep compactCfg 0 3 [some { Dec.reset sVals 0 2 with idx := 3 }] ((· + ·), [none])).2 = [] ∧
    (fieldStep compactCfg 0 3 [some (Dec.reset sVals 0 2)] ((· + ·), [none])).2 = [(0, 5), (1, 6), (2, 7)] := by
  decide

/-- a rollup-like configuration whose target range is shorter than the mapped source (ratio 2, one target slot):
the `break` leaves the decoder in the middle of its data, and it still contributes nothing to the next step -/
theorem broken_off_decoder_stays_silent :
    (stepsLoop { ratio := 2, baseSlot := 0, mapSlot := id } 0 1 [none]
      [((· + ·), [some ([(0, 5), (1, 6), (2, 7), (3, 8)], 0, 3)]), ((· + ·), [none])]).2 = [[(0, 11)], []] ∧
    ((stepsLoop { ratio := 2, baseSlot := 0, mapSlot := id } 0 1 [none]
      [((· + ·), [some ([(0, 5), (1, 6), (2, 7), (3, 8)], 0, 3)])]).1.map (fun o => o.map (·.idx))) = [some 3] := by
  decide

end Neg

/-- non-vacuity: two blocks, two fields, the second block lacks field 2: its decoder is the stale one in step 2 -/
example :
    (stepsLoop compactCfg 0 3 [none, none]
      [((· + ·), [some ([(0, 1), (2, 2)], 0, 2), some ([(0, 10), (1, 20)], 0, 1)]),
       ((· + ·), [some ([(1, 100)], 0, 2), (none : FD Int)])]).2 = [[(0, 11), (2, 2), (1, 20)], [(1, 100)]] := by
  decide

end LinVerif.Props.C03
