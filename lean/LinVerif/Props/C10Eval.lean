/-
Property C10, part 2 (round 8) — condition evaluation on bitmap OBJECTS and the forward index merger on
raw entries. Same namespace as Props/C10.lean.

(A) `seriesFiltering.findSeriesIDsByExpr` evaluates and / or / not in place on `*roaring.Bitmap`
    operands and returns the mutated left operand. `filterHeap` models the operands as heap objects.
    `inplace_eval_eq_value_eval`: while every atomic filter (and every `not`) gets an object of its
    own, the in-place evaluation of EVERY expression tree — any depth, the same atomic filter in any
    number of branches — returns exactly what the value-level `filterExpr` returns, hence (with
    `filter_eq_eval_now`) exactly the series whose tags satisfy the condition.
    `Neg.shared_operand_bitmap_corrupts`: one remembered object per atomic filter breaks it.
    `tie_filter_operands`: the regenerated facts the freshness rests on.

(B) `forwardIndexMerger.Merge`: `forward_merge_ignores_stale_buffer` (any number of tag keys merged by
    one merger object, any number of inputs and containers: each key's entry is what a brand-new
    merger writes), `forward_merge_value_region` (the value region is the concatenation of one block
    per merged container) + `forward_blocks_decode` (the reader's lookup table cuts such a region back
    into exactly these blocks, for any number of containers);
    `Neg.buffer_reset_per_key_misaligns_later_containers`; `tie_forward_merge_reset`.
    `forward_scan_cursor_computes_block`: under the scanners' cursor invariant the scan of one merged
    container appends, low key by low key, the value id of THAT series (any number of scanners).
    PARTIAL: that `newTagForwardScanner` / `nextContainer` ESTABLISH the cursor invariant at the start
    of every container for well-formed inputs (sorted containers, the merged bitmap a superset), and
    that disjoint inputs then give blocks of exactly the containers' cardinalities, is validated by
    the correspondence stream (`fwdmerge` / `fwdjob` run the cursor-level model against the real
    merger) and by `forward_merge_sample`, not proved in general.

(D) `dispatch_edge_patterns`: empty / degenerate patterns of the four atomic filters.
-/
import LinVerif.Props.C10
import LinVerif.Lemmas.C10Heap
import LinVerif.Lemmas.C10Merge
import LinVerif.Lemmas.C10MergeCursor
import LinVerif.Generated.C10Ops

set_option linter.unusedSimpArgs false
set_option linter.unusedVariables false

namespace LinVerif.Props.C10
open LinVerif LinVerif.TagFilter

/-- does `getSeriesIDsByExpr` hand out remembered bitmap objects (read off the regenerated facts) -/
def memoNow : Bool := !Generated.C10Ops.atomBitmapsFresh
/-- is the merger's pooled buffer truncated per container (read off the regenerated facts) -/
def perContainerNow : Bool := Generated.C10Ops.mergeResetPerContainer

/-! ## (A) in-place evaluation on bitmap objects -/

/-- **tie.** `seriesFiltering` keeps no bitmap between calls: its fields, the one non-nil bitmap
`getSeriesIDsByExpr` returns (defined by the call of `GetSeriesIDsByTagValueIDs`, which builds a new
bitmap), no store into operator state besides `op.err`; the in-place operations and the operands they
mutate (`all` from `GetSeriesIDsForTag`, `left`/`right`/`matchResult` from the recursive calls). -/
theorem tie_filter_operands :
    Generated.C10Ops.atomBitmapsFresh = true ∧ memoNow = false ∧
    Generated.C10Ops.filterFields =
      ["executeCtx *flow.ShardExecuteContext", "indexDB index.MetricIndexDatabase", "err error"] ∧
    Generated.C10Ops.atomBitmapSources = ["nil", "nil", "seriesIDs <- call indexDB.GetSeriesIDsByTagValueIDs"] ∧
    Generated.C10Ops.filterStateStores = [] ∧
    Generated.C10Ops.filterMutations = ["all.AndNot(matchResult)", "left.And(right)", "left.Or(right)"] ∧
    Generated.C10Ops.filterOperandSources =
      ["all <- call indexDB.GetSeriesIDsForTag", "left <- call op.findSeriesIDsByExpr",
       "right <- call op.findSeriesIDsByExpr", "matchResult <- call op.findSeriesIDsByExpr"] := by decide

/-- **inplace_operands_fresh.** One call of `findSeriesIDsByExpr` on ANY expression tree, started on
any heap: it fails exactly when the value-level evaluation fails (same error); otherwise the object
it returns was allocated by this call, holds exactly the value-level result, and no object that
existed before the call was modified — so a sibling operand evaluated earlier is never touched. -/
theorem inplace_operands_fresh (F : Flags) (st : State) (res : TFR) (e : Expr) (h : BHeap) (mm : Memo) :
    (∀ err, filterExpr F st res e = .error err → filterHeap F false st res e (h, mm) = .error err) ∧
    (∀ kid S, filterExpr F st res e = .ok (kid, S) →
      ∃ h' a, filterHeap F false st res e (h, mm) = .ok (kid, a, (h', mm)) ∧
        h.next ≤ a ∧ a < h'.next ∧ h'.cell a = S ∧ ∀ x, x < h.next → h'.cell x = h.cell x) :=
  filterHeap_refines F st res e h mm

/-- **inplace_eval_eq_value_eval.** For every condition (no restriction on shape, depth or on how
often an atomic filter occurs) the operator chain with in-place bitmap operations answers exactly as
the value-level chain. -/
theorem inplace_eval_eq_value_eval (F : Flags) (M : Matcher) (st : State) (m : Metric) (c : Expr) :
    queryHeap F false M st m c = query F M st m c ∧
    ∀ keys, leafQueryHeap F false M st m keys c = leafQuery F M st m keys c :=
  ⟨queryHeap_eq_query F M st m c, fun keys => leafQueryHeap_eq_leafQuery F M st m keys c⟩

/-- **inplace_filter_eq_eval_now.** Current source (`memoNow` from the regenerated facts): the series
selected by the in-place evaluation are exactly the written series whose tags satisfy the condition. -/
theorem inplace_filter_eq_eval_now (M : Matcher) (st : State) (hwf : WF st) (m : Metric) (c : Expr)
    (hshape : c.shaped = true) {S : List SeriesId} (h : queryHeap flagsNow memoNow M st m c = .ok S) :
    ∀ s, s ∈ S ↔ ∃ t, (m, s, t) ∈ st.written ∧ c.eval M t = true := by
  have hm : memoNow = false := by decide
  rw [hm, queryHeap_eq_query] at h
  exact filter_eq_eval_now M st hwf m c hshape h

/-! ## (B) forward index merger -/

/-- **tie.** Where `Merge` truncates its pooled `tagValueIDs` buffer (first statement of every
iteration of `range highKeys`, and nowhere else), the whole statement skeleton of `Merge`, the
merger's fields, and the scanner's cursor (`scan`, `nextContainer`). -/
theorem tie_forward_merge_reset :
    Generated.C10Ops.mergeResetPerContainer = true ∧ perContainerNow = true ∧
    Generated.C10Ops.mergeBufResets = ["1:m.tagValueIDs = m.tagValueIDs[:0] after 0:range highKeys"] ∧
    Generated.C10Ops.mergeSkeleton =
      ["0:m.seriesIDs.Clear()", "0:m.scanners = m.scanners[:0]", "0:range values",
       "1:reader, err := newTagForwardReader(value)", "1:if err != nil", "2:return err",
       "1:m.seriesIDs.Or(reader.GetSeriesIDs())",
       "1:m.scanners = append(m.scanners, newTagForwardScanner(reader))",
       "0:highKeys := m.seriesIDs.GetHighKeys()", "0:m.flusher.Prepare(tagKeyID)",
       "0:if err := m.flusher.WriteSeriesIDs(m.seriesIDs); err != nil", "1:return err",
       "0:range highKeys", "1:m.tagValueIDs = m.tagValueIDs[:0]",
       "1:container := m.seriesIDs.GetContainerAtIndex(idx)", "1:it := container.PeekableIterator()",
       "1:for it.HasNext()", "2:lowSeriesID := it.Next()", "2:range m.scanners",
       "3:m.tagValueIDs = scanner.scan(highKey, lowSeriesID, m.tagValueIDs)",
       "1:if err := m.flusher.WriteTagValueIDs(m.tagValueIDs); err != nil", "2:return err",
       "0:return m.flusher.Commit()"] ∧
    Generated.C10Ops.mergerFields =
      ["flusher ForwardIndexFlusher", "seriesIDs *roaring.Bitmap", "tagValueIDs []uint32",
       "scanners []*tagForwardScanner"] ∧
    Generated.C10Ops.scanSkeleton =
      ["0:if s.highKey < highKey", "1:s.nextContainer(highKey)", "0:if highKey != s.highKey",
       "1:return tagValueIDs", "0:if s.container == nil", "1:return tagValueIDs",
       "0:if s.container.Contains(lowSeriesID)",
       "1:tagValueIDs = append(tagValueIDs, s.tagValueIDs[s.tagValueIdx])", "1:s.tagValueIdx++",
       "0:return tagValueIDs"] ∧
    Generated.C10Ops.nextContainerSkeleton =
      ["0:lowContainer, tagValueIDs := s.reader.GetSeriesAndTagValue(highKey)", "0:s.container = lowContainer",
       "0:s.tagValueIDs = tagValueIDs", "0:s.tagValueIdx = 0", "0:s.highKey = highKey"] := by decide

/-- **forward_merge_ignores_stale_buffer.** One merger object merges every tag key of a compaction job
in turn and keeps its `tagValueIDs` buffer between the calls. With the per-container truncation, for
ANY number of keys, inputs per key and containers per input, and whatever the buffer held at the
start: each key's entry is exactly the entry a brand-new merger writes for that key alone (and the
job fails iff one of these fails). -/
theorem forward_merge_ignores_stale_buffer (jobs : List (KeyId × List RawEntry)) (buf : List ValId) :
    mergeJob perContainerNow buf jobs
      = jobs.mapM (fun j => (mergeRaw true [] j.2).map (fun r => (j.1, r.1))) := by
  have hp : perContainerNow = true := by decide
  rw [hp]
  exact mergeJob_true_each jobs buf

/-- **forward_merge_value_region.** The entry `Merge` writes for one key: the merged bitmap and, as its
value region, the concatenation of ONE block per merged container in bitmap order, each block being
what the scan of that container appends to an empty buffer. With the truncation done once per key
instead, the block of container n is preceded by the blocks of containers 0..n-1 (`prefixBlocks`). -/
theorem forward_merge_value_region (buf : List ValId) (inputs : List RawEntry) :
    let bm := inputs.foldl (fun acc e => bmOr acc e.bitmap) []
    (mergeRaw true buf inputs).map (·.1)
      = (containerBlocks bm (inputs.map MScan.new)).map (fun bs => { bitmap := bm, vals := bs.flatten }) ∧
    (mergeRaw false buf inputs).map (·.1)
      = (containerBlocks bm (inputs.map MScan.new)).map (fun bs => { bitmap := bm, vals := prefixBlocks [] bs }) := by
  intro bm
  constructor
  · have h := mergeContainers_true_blocks bm (inputs.map MScan.new) buf []
    unfold mergeRaw
    simp only [if_true]
    cases h1 : mergeContainers true bm (inputs.map MScan.new) buf [] with
    | none =>
      rw [h1] at h
      cases h2 : containerBlocks bm (inputs.map MScan.new) with
      | none => simp [bm, h1]
      | some bs => simp [h2] at h
    | some r =>
      rw [h1] at h
      cases h2 : containerBlocks bm (inputs.map MScan.new) with
      | none => simp [h2] at h
      | some bs =>
        simp [h2] at h
        simp [bm, h1, h]
  · have h := mergeContainers_false_blocks bm (inputs.map MScan.new) [] []
    unfold mergeRaw
    simp only [Bool.false_eq_true, if_false]
    cases h1 : mergeContainers false bm (inputs.map MScan.new) [] [] with
    | none =>
      rw [h1] at h
      cases h2 : containerBlocks bm (inputs.map MScan.new) with
      | none => simp [bm, h1]
      | some bs => simp [h2] at h
    | some r =>
      rw [h1] at h
      cases h2 : containerBlocks bm (inputs.map MScan.new) with
      | none => simp [h2] at h
      | some bs =>
        simp [h2] at h
        simp [bm, h1, h]

/-- **forward_blocks_decode.** `NewTagForwardReader`'s cumulative lookup table: a value region that
consists of one block per container of the bitmap, each as long as its container, is cut back into
exactly these blocks — container i of ANY number of containers gets block i. -/
theorem forward_blocks_decode (bm : List (Nat × List Nat)) (blocks : List (List ValId))
    (hlen : bm.length = blocks.length) (hcard : ∀ cb ∈ bm.zip blocks, cb.1.2.length = cb.2.length) :
    ({ bitmap := bm, vals := blocks.flatten } : RawEntry).decode
      = (bm.zip blocks).map (fun cb => (cb.1.1, cb.1.2.zip cb.2)) := by
  have h := decodeFrom_blocks bm blocks [] [] hlen hcard
  simpa [RawEntry.decode] using h

/-- **forward_scan_cursor_computes_block.** The scan of ONE merged container (`for it.HasNext() { for _, scanner
:= range m.scanners { scanner.scan(...) } }`) with any number of scanners: when every scanner is either idle for
this container (it stands on a later one, or its reader has no such container) or satisfies the cursor
invariant `CurOK` (the unread rest of `tagValueIDs` are the values of its container's not yet visited low
keys; visited low keys are smaller than all that follow; the remaining ones are ascending and will all be
visited), then for ascending low keys the scan never indexes out of range and appends exactly `blockSpec`:
low key by low key, scanner by scanner, the value id that scanner's container pairs with THAT low key. -/
theorem forward_scan_cursor_computes_block {h : Nat} (ls : List Nat) (srs : List (MScan × List (Nat × ValId)))
    (buf : List ValId) (hasc : ls.Pairwise (· < ·)) (hok : ∀ sr ∈ srs, ScanOK h sr.1 sr.2 ls) :
    ∃ ss', scanLows h ls (srs.map (·.1)) buf = some (ss', buf ++ blockSpec ls (srs.map (·.2))) :=
  scanLows_spec ls srs buf hasc hok

/-- non-vacuity: a scanner fresh from `newTagForwardScanner` satisfies the cursor invariant for its first
container, and `blockSpec` interleaves two containers' values by low key -/
example : CurOK 0 (MScan.new (rawOf [(0, [(0, 10), (5, 7)]), (2, [(0, 30)])])) [(0, 10), (5, 7)] [0, 3, 5] :=
  ⟨rfl, [], rfl, rfl, by simp, by decide, by decide⟩
example : blockSpec [0, 3, 5] [[(0, 10), (5, 7)], [(3, 11)]] = [10, 11, 7] := by decide

/-- non-vacuity / sample of the cursor level: two inputs over three containers (one container only in
the second input, interleaved low keys), a stale buffer, two keys through one merger -/
theorem forward_merge_sample :
    let f1 : List Container := [(0, [(0, 10), (5, 7)]), (2, [(0, 30), (1, 31)])]
    let f2 : List Container := [(0, [(3, 11)]), (1, [(0, 20)]), (2, [(7, 32)])]
    (mergeRaw true [99, 98] [rawOf f1, rawOf f2]).map (fun r => r.1.decode)
      = some [(0, [(0, 10), (3, 11), (5, 7)]), (1, [(0, 20)]), (2, [(0, 30), (1, 31), (7, 32)])] ∧
    mergeJob true [99] [(1, [rawOf f1, rawOf f2]), (2, [rawOf f2])]
      = some [(1, { bitmap := [(0, [0, 3, 5]), (1, [0]), (2, [0, 1, 7])], vals := [10, 11, 7, 20, 30, 31, 32] }),
              (2, rawOf f2)] := by
  decide

/-! ### round 10: the cursor invariant is ESTABLISHED (the two points left partial in round 8) -/

/-- the merged bitmap `m.seriesIDs` as the roaring contract gives it (sorted duplicate-free union): high
keys ascending, low keys ascending, and every series id of every input is in it -/
def MergedBitmapOK (bm : List (Nat × List Nat)) (css : List (List Container)) : Prop :=
  (bm.map (·.1)).Pairwise (· < ·) ∧ (∀ c ∈ bm, c.2.Pairwise (· < ·)) ∧
  ∀ c ∈ bm, ∀ cs ∈ css, ∀ x ∈ (contAt cs c.1).map (·.1), x ∈ c.2

/-- **forward_scanners_establish_cursor_invariant.** For ANY number of well-formed inputs (containers ascending
by high key, low keys ascending) and any merged bitmap satisfying the union contract, the scanners as
`newTagForwardScanner` creates them go through step 4 of `Merge` — `if s.highKey < highKey { nextContainer }`
at the head of every `scan` — without ever indexing `tagValueIDs` out of range, and the block written for
each merged container is `blockSpec` of the inputs' OWN containers for that high key: the cursor invariant
`ScanOK` of `forward_scan_cursor_computes_block` holds at the start of every container (`norm_scanOK`), is
carried between containers by `CurInv` (`inv_moves`), and holds initially (`new_inv`). Induction over the
merged containers; no bound on inputs, containers or series. -/
theorem forward_scanners_establish_cursor_invariant (css : List (List Container)) (hwf : ∀ cs ∈ css, CsWF cs)
    (bm : List (Nat × List Nat)) (hbm : MergedBitmapOK bm css) :
    containerBlocks bm (css.map (fun cs => MScan.new (rawOf cs)))
      = some (bm.map (fun c => blockSpec c.2 (css.map (contAt · c.1)))) :=
  containerBlocks_spec css hwf bm _ 0 hbm.1 hbm.2.1 hbm.2.2 (fun _ _ => Nat.zero_le _) (new_inv_all 0 css)

/-- **forward_block_low_key_by_low_key.** What `blockSpec` is: for each merged low key in ascending order,
the value ids the inputs' containers pair with THAT low key (`look`) — so for disjoint inputs exactly one
value id per series, the series' own, and the block has the merged container's cardinality. -/
theorem forward_block_low_key_by_low_key (ls : List Nat) (rems : List (List (Nat × ValId)))
    (hasc : ls.Pairwise (· < ·)) (hr : ∀ r ∈ rems, (r.map (·.1)).Pairwise (· < ·))
    (hsub : ∀ r ∈ rems, ∀ x ∈ r.map (·.1), x ∈ ls) :
    blockSpec ls rems = ls.flatMap (fun l => look l rems) :=
  blockSpec_look ls rems hasc hr hsub

/-- disjoint inputs (`look` a singleton for every merged low key): the block has exactly the container's
cardinality, so `forward_blocks_decode` applies -/
theorem forward_block_cardinality (ls : List Nat) (rems : List (List (Nat × ValId)))
    (hasc : ls.Pairwise (· < ·)) (hr : ∀ r ∈ rems, (r.map (·.1)).Pairwise (· < ·))
    (hsub : ∀ r ∈ rems, ∀ x ∈ r.map (·.1), x ∈ ls) (hone : ∀ l ∈ ls, (look l rems).length = 1) :
    (blockSpec ls rems).length = ls.length := by
  rw [blockSpec_look ls rems hasc hr hsub]
  clear hasc hsub
  induction ls with
  | nil => rfl
  | cons l t ih =>
    simp only [List.flatMap_cons, List.length_append, List.length_cons]
    rw [hone l (by simp), ih (fun l' hl' => hone l' (List.mem_cons_of_mem _ hl'))]
    omega

/-- **forward_merge_raw_value_region.** One whole `Merge` call on the layouts of well-formed inputs, whatever
the pooled buffer held: it succeeds, and the entry written is the merged bitmap followed by one `blockSpec`
block per merged container. -/
theorem forward_merge_raw_value_region (css : List (List Container)) (hwf : ∀ cs ∈ css, CsWF cs)
    (buf : List ValId)
    (hbm : MergedBitmapOK ((css.map rawOf).foldl (fun acc e => bmOr acc e.bitmap) []) css) :
    (mergeRaw true buf (css.map rawOf)).map (·.1)
      = some { bitmap := (css.map rawOf).foldl (fun acc e => bmOr acc e.bitmap) [],
               vals := (((css.map rawOf).foldl (fun acc e => bmOr acc e.bitmap) []).map
                 (fun c => blockSpec c.2 (css.map (contAt · c.1)))).flatten } := by
  have h1 := mergeContainers_true_blocks ((css.map rawOf).foldl (fun acc e => bmOr acc e.bitmap) [])
    ((css.map rawOf).map MScan.new) buf []
  have h2 := forward_scanners_establish_cursor_invariant css hwf _ hbm
  have h3 : (css.map rawOf).map MScan.new = css.map (fun cs => MScan.new (rawOf cs)) := by
    simp [List.map_map, Function.comp_def]
  rw [h3, h2] at h1
  unfold mergeRaw
  simp only [if_true]
  rw [h3]
  cases hm : mergeContainers true ((css.map rawOf).foldl (fun acc e => bmOr acc e.bitmap) [])
      (css.map (fun cs => MScan.new (rawOf cs))) buf [] with
  | none => simp [hm] at h1
  | some r => simp [hm] at h1; simp [h1]

/-- non-vacuity: the hypotheses hold for the sample of `forward_merge_sample` (the union contract is
checked on `bmOr`'s output), and `look` is a singleton for its disjoint inputs -/
example :
    let f1 : List Container := [(0, [(0, 10), (5, 7)]), (2, [(0, 30), (1, 31)])]
    let f2 : List Container := [(0, [(3, 11)]), (1, [(0, 20)]), (2, [(7, 32)])]
    ([f1, f2].map rawOf).foldl (fun acc e => bmOr acc e.bitmap) [] = [(0, [0, 3, 5]), (1, [0]), (2, [0, 1, 7])] ∧
    look 3 [contAt f1 0, contAt f2 0] = [11] ∧
    blockSpec [0, 3, 5] [contAt f1 0, contAt f2 0] = [10, 11, 7] := by decide

/-! ## (D) degenerate patterns of the four atomic filters -/

/-- **dispatch_edge_patterns.**
* `like ''` resolves to nothing (and matches nothing in the reference semantics);
* `like '**'` is the infix scan with the empty core: every value of the key;
* `in (v₁,…,vₙ)` resolves to the ids the `=` lookups of its elements resolve to, in order; `in ()` to
  nothing;
* an invalid regular expression is the error `badRegexp`, whatever the dictionary holds; a valid one
  never fails. -/
theorem dispatch_edge_patterns (F : Flags) (M : Matcher) (d : Dict) (kid : KeyId) (k : Bytes) :
    findValuesByLike F d kid [] = .ok [] ∧ (∀ v, likeRef [] v = false) ∧
    findValuesByLike F d kid [star, star] = .ok (d.scan kid [] (fun v => isInfix [] v)) ∧
    (∀ v, isInfix [] v = true) ∧
    (∀ vs, resolveAtom F M d kid (.inn k vs) = .ok (vs.flatMap (fun v => d.findValueL kid v))) ∧
    resolveAtom F M d kid (.inn k []) = .ok [] ∧
    (∀ v, resolveAtom F M d kid (.eq k v) = resolveAtom F M d kid (.inn k [v])) ∧
    (∀ p, M.valid p = false → resolveAtom F M d kid (.rx k p) = .error .badRegexp) ∧
    (∀ p, M.valid p = true → ∃ ids, resolveAtom F M d kid (.rx k p) = .ok ids) := by
  refine ⟨by simp [findValuesByLike], by intro v; simp [likeRef], ?_, ?_, by intro vs; rfl, rfl, ?_, ?_, ?_⟩
  · cases hF : F.likeStarGuarded <;> simp [findValuesByLike, hF, star]
  · intro v; cases v <;> simp [isInfix]
  · intro v; simp [resolveAtom]
  · intro p hp; simp [resolveAtom, hp]
  · intro p hp; exact ⟨findValuesByRegexp F M d kid p, by simp [resolveAtom, hp]⟩

namespace Neg

def wA : Bytes := [97]
def wH : Bytes := [104]
def wZ : Bytes := [122]
def wM : Metric := [99]

/-- three series: (h=a,z=1), (h=a,z=2), (h=b,z=1) -/
def wOps : List Op :=
  [.write wM [(wH, wA), (wZ, [49])], .write wM [(wH, wA), (wZ, [50])], .write wM [(wH, [98]), (wZ, [49])]]

def wMatcher : Matcher := { valid := fun _ => true, isMatch := fun _ _ => false, lit := fun _ => [] }

/-- **shared operand object.** `(h='a' and z='1') or (h='a' and z='2')` with `getSeriesIDsByExpr`
handing the SAME bitmap object back for the second `h='a'`: the first `and` has already shrunk it to
{0}, the second `and` empties it, and `left.Or(right)` unites the object with itself — nothing is
selected; `(h='a' or z='2') and (h='a' or z='1')` additionally selects series 2 (h=b, z=1). Fresh objects: {0, 1} both times. -/
theorem shared_operand_bitmap_corrupts :
    let st := run flagsNow wOps State.init
    let ha := Expr.atom (.eq wH wA)
    let c1 := Expr.or (.paren (.and ha (.atom (.eq wZ [49])))) (.paren (.and ha (.atom (.eq wZ [50]))))
    let c2 := Expr.and (.paren (.or ha (.atom (.eq wZ [50])))) (.paren (.or ha (.atom (.eq wZ [49]))))
    queryHeap flagsNow false wMatcher st wM c1 = .ok [0, 1] ∧
    queryHeap flagsNow true wMatcher st wM c1 = .ok [] ∧
    queryHeap flagsNow false wMatcher st wM c2 = .ok [0, 1, 1] ∧
    queryHeap flagsNow true wMatcher st wM c2 = .ok [0, 1, 1, 0, 2] := by decide

/-- **buffer truncated once per key.** Two inputs over three containers: the entry written with the
per-key truncation carries 14 value ids for 7 series, and the reader's lookup table then gives the
series of containers 1 and 2 the value ids of container 0's series. -/
theorem buffer_reset_per_key_misaligns_later_containers :
    let f1 : List Container := [(0, [(0, 10), (5, 7)]), (2, [(0, 30), (1, 31)])]
    let f2 : List Container := [(0, [(3, 11)]), (1, [(0, 20)]), (2, [(7, 32)])]
    (mergeRaw false [] [rawOf f1, rawOf f2]).map (fun r => (r.1.vals, r.1.decode))
      = some ([10, 11, 7, 10, 11, 7, 20, 10, 11, 7, 20, 30, 31, 32],
              [(0, [(0, 10), (3, 11), (5, 7)]), (1, [(0, 10)]), (2, [(0, 11), (1, 7), (7, 20)])]) := by
  decide

end Neg

end LinVerif.Props.C10
