/-
C04 — Rollup writes the right aggregate into the right coarse slot, once.

Property theorems over Model/Rollup.lean (helper lemmas: Lemmas/C04Arith, C04Down, C04Once).

* `slot_placement_month`, `slot_placement_year`: under the interval guard, `baseSlot + slot/ratio`
  is the target slot of the source slot's timestamp, its time window contains the timestamp, and
  the timestamp lies in the target segment / family that `family.rollup()` computes.
* `rollup_value_month`, `rollup_value_year`: hence every target slot holds the field-type aggregate
  of exactly the source values whose timestamps fall into that slot (no value is clipped).
* `once`: in every history of flush / rollup / crash-restart / reopen / rollup-again no
  (source file, target interval) contribution is merged twice and every registered pair with data
  is pending or merged exactly once; `rollup_drains`: a complete run leaves nothing pending.
* `Neg.*`: interval pairs the database option accepts but the guard excludes are misplaced.
* `Obs.*`: a compaction between flush and rollup (outside C04's operations) loses the pair.
* `tie_*`: the model's formulas / step orders are the ones regenerated from /repo's source.
-/
import LinVerif.Generated.C04
import LinVerif.Lemmas.C04Arith
import LinVerif.Lemmas.C04Down
import LinVerif.Lemmas.C04Once
import LinVerif.Lemmas.C04Calendar
import Mathlib.Data.List.Count

set_option linter.unusedSimpArgs false
set_option linter.unusedTactic false
set_option linter.unreachableTactic false
namespace LinVerif.Props.C04
open LinVerif.Rollup LinVerif.Lemmas.C04

/-! ## ties to the regenerated facts -/

theorem tie_constants :
    oneSecond = Generated.C04.oneSecond ∧ oneMinute = Generated.C04.oneMinute ∧
    oneHour = Generated.C04.oneHour ∧ oneDay = Generated.C04.oneDay := ⟨rfl, rfl, rfl, rfl⟩

theorem tie_calcSlot (ts base iv : Int) :
    calcSlotOf .day ts base iv = Generated.C04.dayCalcSlot ts base iv ∧
    calcSlotOf .month ts base iv = Generated.C04.monthCalcSlot ts base iv ∧
    calcSlotOf .year ts base iv = Generated.C04.yearCalcSlot ts base iv := by
  refine ⟨rfl, ?_, rfl⟩
  -- the month rule: `monthSlot` with the regenerated shape flag is the regenerated formula, for
  -- either accepted shape (`% OneDay` kept / plain quotient)
  first
  | (show monthSlot false ts base iv = _
     rfl)
  | (show monthSlot true ts base iv = _
     rfl)

/-- the two accepted shapes of the month slot rule are the same function on the timestamps of a
month-type family (offset inside one day; UTC) — so every theorem below holds for both. -/
theorem month_slot_shapes_agree (ts base iv : Int) (h0 : 0 ≤ ts - base) (h1 : ts - base < oneDay) :
    monthSlot true ts base iv = monthSlot false ts base iv :=
  month_slot_variants_agree ts base iv h0 h1

/-- `Interval.Type()` is the threshold ladder the model uses -/
theorem tie_interval_type :
    Generated.C04.intervalTypeCases =
      [(some oneHour, IType.year.name), (some (5 * oneMinute), IType.month.name), (none, IType.day.name)] := by
  decide

theorem tie_rollup_methods (r : R) (slot ts : Int) :
    r.getTimestamp slot = Generated.C04.getTimestamp r.sourceFTime r.source slot ∧
    r.intervalRatio = Generated.C04.intervalRatio r.source r.target ∧
    r.calcSlot ts = Generated.C04.calcSlot (calcSlotOf (itype r.target)) r.target r.targetFTime ts ∧
    Generated.C04.baseSlotArg = "r.sourceFTime" := ⟨rfl, rfl, rfl, rfl⟩

/-- The position formula of the down-sampling entry point that `seriesMerger.merge` calls is the one
the model uses for the placement the code has (`placementByTimestamp` is regenerated: `false` =
`baseSlot + slot/ratio`, `true` = slot of the timestamp, i.e. fixes/C04-…patch applied; the driver
selects the same branch). Operands are `uint16`, hence ≥ 0. -/
theorem tie_targetPos (r : R) (tstart : Int) (s : Nat) :
    (if Generated.C04.placementByTimestamp then targetPosTs r tstart s
      else targetPos r.intervalRatio r.baseSlot tstart s) =
    Generated.C04.targetPos (Generated.C04.bsOf r.baseSlot) s r.intervalRatio tstart
      (Generated.C04.prepareSlotOf r.calcSlot r.getTimestamp) := by
  first
  | (show targetPos r.intervalRatio r.baseSlot tstart s = _
     unfold targetPos Generated.C04.targetPos Generated.C04.bsOf
     rw [Int.tdiv_eq_ediv_of_nonneg (Int.natCast_nonneg s)])
  | (show targetPosTs r tstart s = _
     rfl)

/-- `merger.prepare` uses the rollup object as `prepare` does; `family.rollup()` locates the target
with the calls `locate` mirrors -/
theorem tie_prepare_locate :
    Generated.C04.prepareRollupCalls = ["GetTimestamp", "CalcSlot", "GetTimestamp", "CalcSlot", "IntervalRatio", "BaseSlot"] ∧
    Generated.C04.locateCalls = ["ParseSegmentTime", "Atoi", "CalcFamilyStartTime", "CalcSegmentTime", "CalcFamily",
      "CalcFamilyStartTime", "newRollup"] := by
  decide

/-- record order: per interval the target record (output files and reference logs share the edit log
that `installCompactionResults` commits), then one source record with the DeleteRollupFile logs,
then the DeleteReferenceFile records; a flush registers the rollup entries in the record that adds
the file. This is the order `rollupRecs` / `Rec.flush` model. -/
theorem tie_record_order :
    Generated.C04.rollupSteps = ["GetLiveRollupFiles", "doRollupWork", "CreateDeleteRollupFile", "commitEditLog", "cleanReferenceFiles"] ∧
    Generated.C04.doRollupWorkSteps = ["GetLiveReferenceFiles", "GetFile", "CreateNewReferenceFile", "AddReferenceFiles", "Run"] ∧
    Generated.C04.addReferenceFilesSteps = ["editLog.Add"] ∧
    Generated.C04.installSteps = ["MarkInputDeletes", "AddFile", "GetEditLog", "commitEditLog"] ∧
    Generated.C04.cleanReferenceSteps = ["CreateDeleteReferenceFile", "commitEditLog"] ∧
    Generated.C04.flushCommitSteps = ["CreateNewFile", "CreateSequence", "CreateNewRollupFile", "commitEditLog"] := by
  decide

/-- the four rollup / reference logs have distinct tags (and differ from the file logs), and each
applies the operation of `version/rollup.go` the model's `St.apply` mirrors -/
theorem tie_log_tags :
    [Generated.C04.newFileLog, Generated.C04.deleteFileLog, Generated.C04.nextFileNumberLog,
      Generated.C04.newRollupFileLog, Generated.C04.deleteRollupFileLog, Generated.C04.newReferenceFileLog,
      Generated.C04.deleteReferenceFileLog, Generated.C04.sequenceNumberLog].Nodup ∧
    Generated.C04.newRollupFileApply = ["version.AddRollupFile"] ∧
    Generated.C04.deleteRollupFileApply = ["version.DeleteRollupFile"] ∧
    Generated.C04.newReferenceFileApply = ["version.AddReferenceFile"] ∧
    Generated.C04.deleteReferenceFileApply = ["version.DeleteReferenceFile"] := by
  decide

/-- error handling of the rollup job (c04-14's region): every error branch of
`compactJob.makeInputIterator` (a source file that cannot be opened) and of `doRollupWork` returns the
error, and `rollup()` `continue`s on a failed `doRollupWork` before collecting the DeleteRollupFile
logs — i.e. a failed job is the model's "interval not available in this attempt": no merge record,
no reference, the rollup entries stay (`rollup_attempt_failed_keeps_markers`). -/
theorem tie_job_errors :
    (∀ k ∈ Generated.C04.makeInputIteratorErrBranches, k = "return-err") ∧
    Generated.C04.makeInputIteratorErrBranches ≠ [] ∧
    (∀ k ∈ Generated.C04.doRollupWorkErrBranches, k = "return-err") ∧
    Generated.C04.rollupOnWorkError = "continue" := by
  decide

/-- the guard of `family.rollup()` is the atomic compare-and-swap the model's `GStep.cas` is
(`cas_at_most_one_job`); a "Load, then Store in the goroutine" guard is `Neg.load_then_store_two_jobs` -/
theorem tie_rollup_guard : Generated.C04.rollupGuardIsCAS = true := by decide

/-- The theorems below describe ONE merge job. Jobs of different families run concurrently
(`Store.ForceRollup` and the compaction timer start one goroutine per family), so they carry over to
the product only if the jobs share no scratch state: no package-level variable reachable from
`DownSamplingMultiSeriesInto` or from the metric data merger is used other than as a `sync.Pool` or as
the read-only source of a `copy` (regenerated from the source on every run). -/
theorem merge_jobs_share_no_scratch_state :
    ∀ e ∈ Generated.C04.mergeJobPackageVars, e.2.2 ≠ "shared" := by
  decide

/-! ## slot placement -/

/-- day-type source, month-type target (`tgt ∣ 1h`). `D` = day number of the source segment,
`h` = hour of the source family, `s` = source slot inside the family. -/
theorem slot_placement_month (c : Cal) (D h s src tgt : Nat) (hc : c.OkAt D) (hh : h < 24)
    (hst : itype (src : Int) = .day) (htt : itype (tgt : Int) = .month)
    (g : Guard src tgt 3600000) (hs : s * src < 3600000) :
    let r := mkR c src tgt ((D : Int) * oneDay) h
    let l := locate c src tgt ((D : Int) * oneDay) h
    let ts := r.getTimestamp s
    -- the position the merge writes to is the slot of the timestamp
    r.baseSlot + (s : Int) / r.intervalRatio = r.calcSlot ts
    -- whose time window contains the timestamp
    ∧ l.tFamStart + r.calcSlot ts * tgt ≤ ts ∧ ts < l.tFamStart + (r.calcSlot ts + 1) * tgt
    -- and the timestamp lies in the segment and family the rollup writes to
    ∧ calcSegmentTime c (itype tgt) ts = l.tSegTime
    ∧ calcFamily c (itype tgt) ts l.tSegTime = l.tFamily
    ∧ l.tFamStart ≤ ts ∧ ts ≤ calcFamilyEndTime c (itype tgt) l.tFamStart := by
  have hloc := locate_month c src tgt D h hc hst htt ⟨by omega, by omega⟩
  have hF : (3600000 : Nat) ∣ h * 3600000 := Dvd.intro_left h rfl
  have hday : h * 3600000 + s * src < 86400000 := by omega
  have hp := place_month ((D : Int) * oneDay) (h * 3600000) s src tgt 3600000 g htt hF hs hday
  have htgt : 0 < tgt := by have := (itype_month_iff tgt).1 htt; omega
  have hw := slot_window (h * 3600000 + s * src) tgt htgt
  intro r l ts
  have hr : r = ⟨src, tgt, (D : Int) * oneDay + ((h * 3600000 : Nat) : Int), (D : Int) * oneDay⟩ := by
    simp only [r, mkR, hloc]
    congr 1
  have hl : l = _ := hloc
  have hts : ts = (D : Int) * oneDay + ((h * 3600000 + s * src : Nat) : Int) := by
    simp only [ts, hr, R.getTimestamp]; push_cast; ring
  have hcs : r.calcSlot ts = (((h * 3600000 + s * src) / tgt : Nat) : Int) := by
    simp only [ts]; rw [hr]; exact hp.2
  have hdn : dayNo ts = D := by
    rw [hts]; apply dayNo_in_day <;> omega
  refine ⟨?_, ?_, ?_, ?_, ?_, ?_, ?_⟩
  · simp only [ts]; rw [hr]; exact hp.1
  · rw [hcs, hl, hts]
    have := hw.1
    have h' : ((tgt * ((h * 3600000 + s * src) / tgt) : Nat) : Int) ≤ ((h * 3600000 + s * src : Nat) : Int) :=
      Int.ofNat_le.2 this
    push_cast at h' ⊢
    linarith
  · rw [hcs, hl, hts]
    have := hw.2
    have h' : ((h * 3600000 + s * src : Nat) : Int) < ((tgt * ((h * 3600000 + s * src) / tgt + 1) : Nat) : Int) :=
      Int.ofNat_lt.2 this
    push_cast at h' ⊢
    linarith
  · rw [htt, hl]; simp only [calcSegmentTime, hdn]
  · rw [htt, hl]; simp only [calcFamily, hdn]
  · rw [hl]; dsimp only; omega
  · rw [htt, hl, hts]
    simp only [calcFamilyEndTime, dayNo_mul]
    unfold oneDay
    omega

/-- day-type source, year-type target (`1h ∣ tgt`). -/
theorem slot_placement_year (c : Cal) (D h s src tgt : Nat) (hc : c.OkAt D) (hh : h < 24)
    (hst : itype (src : Int) = .day) (htt : itype (tgt : Int) = .year)
    (g : Guard src tgt 3600000) (hs : s * src < 3600000) :
    let r := mkR c src tgt ((D : Int) * oneDay) h
    let l := locate c src tgt ((D : Int) * oneDay) h
    let ts := r.getTimestamp s
    r.baseSlot + (s : Int) / r.intervalRatio = r.calcSlot ts
    ∧ l.tFamStart + r.calcSlot ts * tgt ≤ ts ∧ ts < l.tFamStart + (r.calcSlot ts + 1) * tgt
    ∧ calcSegmentTime c (itype tgt) ts = l.tSegTime
    ∧ calcFamily c (itype tgt) ts l.tSegTime = l.tFamily
    ∧ l.tFamStart ≤ ts ∧ ts ≤ calcFamilyEndTime c (itype tgt) l.tFamStart := by
  have hloc := locate_year c src tgt D h hc hst htt ⟨by omega, by omega⟩
  -- days since the start of the month
  obtain ⟨k, hk⟩ : ∃ k : Nat, (D : Int) - c.monthStart D = k :=
    ⟨((D : Int) - c.monthStart D).toNat, by have := hc.le; omega⟩
  have hk32 : k < 32 := by have := hc.span; omega
  have htgt36 : 3600000 ≤ tgt := by have := (itype_year_iff tgt).1 htt; omega
  have htgt : 0 < tgt := by omega
  set o : Nat := k * 86400000 + h * 3600000 with ho
  have hF : (3600000 : Nat) ∣ o := ⟨k * 24 + h, by omega⟩
  have hb : (o + s * src) / tgt < 65536 := by
    have h1 : (o + s * src) / tgt ≤ (o + s * src) / 3600000 := Nat.div_le_div_left htgt36 (by norm_num)
    omega
  have hp := place_year (c.monthStart D * oneDay) o s src tgt 3600000 g htt hF hs hb
  have hw := slot_window (o + s * src) tgt htgt
  intro r l ts
  have hD : (D : Int) = c.monthStart D + k := by omega
  have hr : r = ⟨src, tgt, c.monthStart D * oneDay + ((o : Nat) : Int), c.monthStart D * oneDay⟩ := by
    simp only [r, mkR, hloc]
    congr 1
    simp only [ho, oneDay, oneHour]
    push_cast
    omega
  have hl : l = _ := hloc
  have hts : ts = c.monthStart D * oneDay + ((o + s * src : Nat) : Int) := by
    simp only [ts, hr, R.getTimestamp]; push_cast; ring
  have hts' : ts = (D : Int) * oneDay + ((h * 3600000 + s * src : Nat) : Int) := by
    rw [hts]; simp only [ho, oneDay]; push_cast; omega
  have hcs : r.calcSlot ts = (((o + s * src) / tgt : Nat) : Int) := by
    simp only [ts]; rw [hr]; exact hp.2
  have hdn : dayNo ts = D := by
    rw [hts']; apply dayNo_in_day <;> omega
  refine ⟨?_, ?_, ?_, ?_, ?_, ?_, ?_⟩
  · simp only [ts]; rw [hr]; exact hp.1
  · rw [hcs, hl, hts]
    have h' : ((tgt * ((o + s * src) / tgt) : Nat) : Int) ≤ ((o + s * src : Nat) : Int) := Int.ofNat_le.2 hw.1
    push_cast at h' ⊢
    linarith
  · rw [hcs, hl, hts]
    have h' : ((o + s * src : Nat) : Int) < ((tgt * ((o + s * src) / tgt + 1) : Nat) : Int) := Int.ofNat_lt.2 hw.2
    push_cast at h' ⊢
    linarith
  · rw [htt, hl]; simp only [calcSegmentTime, hdn]
  · rw [htt, hl]; simp only [calcFamily, hdn]
  · rw [hl]; dsimp only; omega
  · rw [htt, hl, hts']
    simp only [calcFamilyEndTime, dayNo_mul]
    have := hc.next
    unfold oneDay
    omega

/-- month-type source (`5m ≤ src < 1h`; family = day `f` of the month that starts at day number `M`,
source slots inside the day), year-type target — e.g. intervals `[5m, 1h]`. Guard: the same with the
source family length `1d`: `src ∣ tgt`, `tgt ∣ 1d ∨ 1d ∣ tgt`, `tgt/src < 65536`. -/
theorem slot_placement_month_to_year (c : Cal) (M : Int) (f s src tgt : Nat) (hf : 1 ≤ f)
    (hc : c.OkAt (M + ((f : Int) - 1))) (hM : c.monthStart (M + ((f : Int) - 1)) = M)
    (hst : itype (src : Int) = .month) (htt : itype (tgt : Int) = .year)
    (g : Guard src tgt 86400000) (hs : s * src < 86400000) :
    let r := mkR c src tgt (M * oneDay) f
    let l := locate c src tgt (M * oneDay) f
    let ts := r.getTimestamp s
    r.baseSlot + (s : Int) / r.intervalRatio = r.calcSlot ts
    ∧ l.tFamStart + r.calcSlot ts * tgt ≤ ts ∧ ts < l.tFamStart + (r.calcSlot ts + 1) * tgt
    ∧ calcSegmentTime c (itype tgt) ts = l.tSegTime
    ∧ calcFamily c (itype tgt) ts l.tSegTime = l.tFamily
    ∧ l.tFamStart ≤ ts ∧ ts ≤ calcFamilyEndTime c (itype tgt) l.tFamStart := by
  have hloc := locate_month_to_year c src tgt M f hc hM hst htt
  obtain ⟨k, hk⟩ : ∃ k : Nat, (f : Int) - 1 = k := ⟨f - 1, by omega⟩
  have hk32 : k < 32 := by have := hc.span; rw [hM] at this; omega
  have htgt36 : 3600000 ≤ tgt := by have := (itype_year_iff tgt).1 htt; omega
  have htgt : 0 < tgt := by omega
  set o : Nat := k * 86400000 with ho
  have hF : (86400000 : Nat) ∣ o := ⟨k, by omega⟩
  have hb : (o + s * src) / tgt < 65536 := by
    have h1 : (o + s * src) / tgt ≤ (o + s * src) / 3600000 := Nat.div_le_div_left htgt36 (by norm_num)
    omega
  have hp := place_year (M * oneDay) o s src tgt 86400000 g htt hF hs hb
  have hw := slot_window (o + s * src) tgt htgt
  intro r l ts
  have hr : r = ⟨src, tgt, M * oneDay + ((o : Nat) : Int), M * oneDay⟩ := by
    simp only [r, mkR, hloc]
    congr 1
    simp only [ho, oneDay]
    push_cast
    omega
  have hl : l = _ := hloc
  have hts : ts = M * oneDay + ((o + s * src : Nat) : Int) := by
    simp only [ts, hr, R.getTimestamp]; push_cast; ring
  have hts' : ts = (M + ((f : Int) - 1)) * oneDay + ((s * src : Nat) : Int) := by
    rw [hts]; simp only [ho, oneDay]; push_cast; omega
  have hcs : r.calcSlot ts = (((o + s * src) / tgt : Nat) : Int) := by
    simp only [ts]; rw [hr]; exact hp.2
  have hdn : dayNo ts = M + ((f : Int) - 1) := by
    rw [hts']; apply dayNo_in_day <;> omega
  refine ⟨?_, ?_, ?_, ?_, ?_, ?_, ?_⟩
  · simp only [ts]; rw [hr]; exact hp.1
  · rw [hcs, hl, hts]
    have h' : ((tgt * ((o + s * src) / tgt) : Nat) : Int) ≤ ((o + s * src : Nat) : Int) := Int.ofNat_le.2 hw.1
    push_cast at h' ⊢
    linarith
  · rw [hcs, hl, hts]
    have h' : ((o + s * src : Nat) : Int) < ((tgt * ((o + s * src) / tgt + 1) : Nat) : Int) := Int.ofNat_lt.2 hw.2
    push_cast at h' ⊢
    linarith
  · rw [htt, hl]; simp only [calcSegmentTime, hdn]
  · rw [htt, hl]; simp only [calcFamily, hdn]
  · rw [hl]; dsimp only; omega
  · rw [htt, hl, hts']
    simp only [calcFamilyEndTime, dayNo_mul]
    have := hc.next
    rw [hM] at this
    unfold oneDay
    omega

/-! ### the same for the real (proleptic Gregorian, UTC) calendar: no calendar hypothesis

`stdCal` is built from C13's Model/Calendar.lean; `stdCal_okAt` (Lemmas/C04Calendar.lean) proves the
five facts of `Cal.OkAt` for every day from C13's `civil_spec` / `civil_of_days` / `month_step`. -/

/-- the conclusion of the placement theorems -/
def PlacedRight (c : Cal) (src tgt seg fTime : Int) (s : Nat) : Prop :=
  let r := mkR c src tgt seg fTime
  let l := locate c src tgt seg fTime
  let ts := r.getTimestamp s
  r.baseSlot + (s : Int) / r.intervalRatio = r.calcSlot ts
  ∧ l.tFamStart + r.calcSlot ts * tgt ≤ ts ∧ ts < l.tFamStart + (r.calcSlot ts + 1) * tgt
  ∧ calcSegmentTime c (itype tgt) ts = l.tSegTime
  ∧ calcFamily c (itype tgt) ts l.tSegTime = l.tFamily
  ∧ l.tFamStart ≤ ts ∧ ts ≤ calcFamilyEndTime c (itype tgt) l.tFamStart

theorem slot_placement_month_greg (D h s src tgt : Nat) (hh : h < 24)
    (hst : itype (src : Int) = .day) (htt : itype (tgt : Int) = .month)
    (g : Guard src tgt 3600000) (hs : s * src < 3600000) :
    PlacedRight stdCal src tgt ((D : Int) * oneDay) h s :=
  slot_placement_month stdCal D h s src tgt (stdCal_okAt D) hh hst htt g hs

theorem slot_placement_year_greg (D h s src tgt : Nat) (hh : h < 24)
    (hst : itype (src : Int) = .day) (htt : itype (tgt : Int) = .year)
    (g : Guard src tgt 3600000) (hs : s * src < 3600000) :
    PlacedRight stdCal src tgt ((D : Int) * oneDay) h s :=
  slot_placement_year stdCal D h s src tgt (stdCal_okAt D) hh hst htt g hs

/-- month `y-m` (`1 ≤ m ≤ 12`), day `f` of that month (`daysFromCivil y m f` lies before the next
month's first day), source slot `s` inside the day -/
theorem slot_placement_month_to_year_greg (y m : Int) (f s src tgt : Nat) (hm1 : 1 ≤ m) (hm2 : m ≤ 12)
    (hf : 1 ≤ f)
    (hin : LinVerif.Calendar.daysFromCivil y m f <
      LinVerif.Calendar.daysFromCivil (LinVerif.Calendar.nextMonth y m).1 (LinVerif.Calendar.nextMonth y m).2 1)
    (hst : itype (src : Int) = .month) (htt : itype (tgt : Int) = .year)
    (g : Guard src tgt 86400000) (hs : s * src < 86400000) :
    PlacedRight stdCal src tgt (LinVerif.Calendar.daysFromCivil y m 1 * oneDay) f s :=
  slot_placement_month_to_year stdCal (LinVerif.Calendar.daysFromCivil y m 1) f s src tgt hf
    (stdCal_okAt _) (stdCal_monthStart_of y m f hm1 hm2 (by omega) hin) hst htt g hs

/-! ## the aggregate in every target slot -/

/-- What `merger.prepare` + `DownSamplingMultiSeriesInto` compute for one field of one series, when
the position of every source slot in the merged source range is the slot of its timestamp (minus
the start of the target range) and the target slot is monotone in the source slot: target position
`q` (target slot `tStart + q`) holds the field-type aggregate of exactly the source values whose
timestamps fall into that target slot; nothing is clipped.
`decs` = the decoders of the input files, `sStart..sEnd` = the union of their slot ranges. -/
theorem rollup_value_of_placement (r : R) (ft : Nat) (decs : List (List (Nat × Int))) (sStart sEnd : Nat)
    (posOf : Nat → Int)
    (cs : Nat → Nat) (hcs : ∀ s, s ≤ sEnd → r.calcSlot (r.getTimestamp s) = (cs s : Int))
    (hrange : ∀ d ∈ decs, ∀ sv ∈ d, sStart ≤ sv.1 ∧ sv.1 ≤ sEnd)
    (hplace : ∀ s, s ≤ sEnd →
      posOf s = r.calcSlot (r.getTimestamp s) - r.calcSlot (r.getTimestamp sStart))
    (hmono : ∀ s t, s ≤ t → t ≤ sEnd → cs s ≤ cs t)
    (hsmall : cs sEnd < 65536) (q : Nat) :
    let tStart := r.calcSlot (r.getTimestamp sStart)
    let tEnd := r.calcSlot (r.getTimestamp sEnd)
    downSample ft posOf (u16 (tEnd - tStart) + 1).toNat decs q =
      (decs.flatten.filter (fun sv => decide (r.calcSlot (r.getTimestamp sv.1) = tStart + (q : Int)))).foldl
        (aggF ft) none := by
  intro tStart tEnd
  by_cases hall : ∀ d ∈ decs, d = []
  · rw [flatten_nil_of_empty decs hall, downSample_nil_of_empty ft _ _ decs hall q]
    rfl
  · have hne : ∃ d ∈ decs, ∃ sv, sv ∈ d := by
      by_contra hcon
      apply hall
      intro d hd
      apply List.eq_nil_iff_forall_not_mem.2
      intro sv hsv
      exact hcon ⟨d, hd, sv, hsv⟩
    obtain ⟨d0, hd0, sv0, hsv0⟩ := hne
    have hse : sStart ≤ sEnd := by have := hrange d0 hd0 sv0 hsv0; omega
    have hm := hmono sStart sEnd hse (Nat.le_refl _)
    have hlen : (((u16 (tEnd - tStart) + 1).toNat : Nat) : Int) = (cs sEnd : Int) - cs sStart + 1 := by
      simp only [tStart, tEnd, hcs sStart hse, hcs sEnd (Nat.le_refl _)]
      have : u16 ((cs sEnd : Int) - cs sStart) = (cs sEnd : Int) - cs sStart := by
        unfold u16; omega
      rw [this]; omega
    refine downSample_by_slot ft posOf tStart _ decs (fun s => r.calcSlot (r.getTimestamp (s : Int))) ?_ q
    intro d hd sv hsv
    obtain ⟨h1, h2⟩ := hrange d hd sv hsv
    have hm1 := hmono sStart sv.1 h1 h2
    have hm2 := hmono sv.1 sEnd h2 (Nat.le_refl _)
    refine ⟨hplace sv.1 h2, ?_, ?_⟩
    · simp only [tStart, hcs sStart hse, hcs sv.1 h2]; omega
    · rw [hlen]; simp only [tStart, hcs sStart hse, hcs sv.1 h2]; omega

/-- month-type target, placement `baseSlot + slot/ratio` (the code as it is): under the guard every
target slot holds the aggregate of exactly the source values whose timestamps fall inside it
(`sStart..sEnd` = merged source range, inside the source family). -/
theorem rollup_value_month (c : Cal) (D h src tgt : Nat) (hc : c.OkAt D) (hh : h < 24)
    (hst : itype (src : Int) = .day) (htt : itype (tgt : Int) = .month) (g : Guard src tgt 3600000)
    (ft : Nat) (decs : List (List (Nat × Int))) (sStart sEnd : Nat) (hend : sEnd * src < 3600000)
    (hrange : ∀ d ∈ decs, ∀ sv ∈ d, sStart ≤ sv.1 ∧ sv.1 ≤ sEnd) (q : Nat) :
    let r := mkR c src tgt ((D : Int) * oneDay) h
    let tStart := r.calcSlot (r.getTimestamp sStart)
    let tEnd := r.calcSlot (r.getTimestamp sEnd)
    downSample ft (targetPos r.intervalRatio r.baseSlot tStart) (u16 (tEnd - tStart) + 1).toNat decs q =
      (decs.flatten.filter (fun sv => decide (r.calcSlot (r.getTimestamp sv.1) = tStart + (q : Int)))).foldl
        (aggF ft) none := by
  intro r
  obtain ⟨hr, hcs, hmono, hsmall⟩ := month_setup c D h src tgt hc hh hst htt sEnd hend
  have hF : (3600000 : Nat) ∣ h * 3600000 := Dvd.intro_left h rfl
  have hlt : ∀ s, s ≤ sEnd → s * src < 3600000 := fun s hs =>
    Nat.lt_of_le_of_lt (Nat.mul_le_mul_right src hs) hend
  apply rollup_value_of_placement r ft decs sStart sEnd _ (fun s => (h * 3600000 + s * src) / tgt) hcs hrange
  · intro s hs
    have := (place_month ((D : Int) * oneDay) (h * 3600000) s src tgt 3600000 g htt hF (hlt s hs)
      (by have := hlt s hs; omega)).1
    simp only [r]
    rw [hr]
    unfold targetPos
    rw [this]
  · exact hmono
  · exact hsmall

/-- year-type target, placement `baseSlot + slot/ratio`: as `rollup_value_month`. -/
theorem rollup_value_year (c : Cal) (D h src tgt : Nat) (hc : c.OkAt D) (hh : h < 24)
    (hst : itype (src : Int) = .day) (htt : itype (tgt : Int) = .year) (g : Guard src tgt 3600000)
    (ft : Nat) (decs : List (List (Nat × Int))) (sStart sEnd : Nat) (hend : sEnd * src < 3600000)
    (hrange : ∀ d ∈ decs, ∀ sv ∈ d, sStart ≤ sv.1 ∧ sv.1 ≤ sEnd) (q : Nat) :
    let r := mkR c src tgt ((D : Int) * oneDay) h
    let tStart := r.calcSlot (r.getTimestamp sStart)
    let tEnd := r.calcSlot (r.getTimestamp sEnd)
    downSample ft (targetPos r.intervalRatio r.baseSlot tStart) (u16 (tEnd - tStart) + 1).toNat decs q =
      (decs.flatten.filter (fun sv => decide (r.calcSlot (r.getTimestamp sv.1) = tStart + (q : Int)))).foldl
        (aggF ft) none := by
  intro r
  obtain ⟨o, hF, hr, hcs, hmono, hb⟩ := year_setup c D h src tgt hc hh hst htt sEnd hend
  have hlt : ∀ s, s ≤ sEnd → s * src < 3600000 := fun s hs =>
    Nat.lt_of_le_of_lt (Nat.mul_le_mul_right src hs) hend
  apply rollup_value_of_placement r ft decs sStart sEnd _ (fun s => (o + s * src) / tgt) hcs hrange
  · intro s hs
    have := (place_year (c.monthStart D * oneDay) o s src tgt 3600000 g htt hF (hlt s hs) (hb s hs)).1
    simp only [r]
    rw [hr]
    unfold targetPos
    rw [this]
  · exact hmono
  · exact hb sEnd (Nat.le_refl _)

/-- Placement by the slot of the timestamp (`targetPosTs`, the code with fixes/C04-…patch): the same
conclusion for EVERY source interval of day type and every target interval of month type — no
divisibility guard, no bound on the ratio. -/
theorem rollup_value_by_timestamp_month (c : Cal) (D h src tgt : Nat) (hc : c.OkAt D) (hh : h < 24)
    (hst : itype (src : Int) = .day) (htt : itype (tgt : Int) = .month)
    (ft : Nat) (decs : List (List (Nat × Int))) (sStart sEnd : Nat) (hend : sEnd * src < 3600000)
    (hrange : ∀ d ∈ decs, ∀ sv ∈ d, sStart ≤ sv.1 ∧ sv.1 ≤ sEnd) (q : Nat) :
    let r := mkR c src tgt ((D : Int) * oneDay) h
    let tStart := r.calcSlot (r.getTimestamp sStart)
    let tEnd := r.calcSlot (r.getTimestamp sEnd)
    downSample ft (targetPosTs r tStart) (u16 (tEnd - tStart) + 1).toNat decs q =
      (decs.flatten.filter (fun sv => decide (r.calcSlot (r.getTimestamp sv.1) = tStart + (q : Int)))).foldl
        (aggF ft) none := by
  intro r
  obtain ⟨_, hcs, hmono, hsmall⟩ := month_setup c D h src tgt hc hh hst htt sEnd hend
  exact rollup_value_of_placement r ft decs sStart sEnd _ (fun s => (h * 3600000 + s * src) / tgt) hcs hrange
    (fun s _ => rfl) hmono hsmall q

/-- … and of year type. -/
theorem rollup_value_by_timestamp_year (c : Cal) (D h src tgt : Nat) (hc : c.OkAt D) (hh : h < 24)
    (hst : itype (src : Int) = .day) (htt : itype (tgt : Int) = .year)
    (ft : Nat) (decs : List (List (Nat × Int))) (sStart sEnd : Nat) (hend : sEnd * src < 3600000)
    (hrange : ∀ d ∈ decs, ∀ sv ∈ d, sStart ≤ sv.1 ∧ sv.1 ≤ sEnd) (q : Nat) :
    let r := mkR c src tgt ((D : Int) * oneDay) h
    let tStart := r.calcSlot (r.getTimestamp sStart)
    let tEnd := r.calcSlot (r.getTimestamp sEnd)
    downSample ft (targetPosTs r tStart) (u16 (tEnd - tStart) + 1).toNat decs q =
      (decs.flatten.filter (fun sv => decide (r.calcSlot (r.getTimestamp sv.1) = tStart + (q : Int)))).foldl
        (aggF ft) none := by
  intro r
  obtain ⟨o, _, _, hcs, hmono, hb⟩ := year_setup c D h src tgt hc hh hst htt sEnd hend
  exact rollup_value_of_placement r ft decs sStart sEnd _ (fun s => (o + s * src) / tgt) hcs hrange
    (fun s _ => rfl) hmono (hb sEnd (Nat.le_refl _)) q

/-! ## once -/

/-- In every history of flush / rollup (complete, or cut by a crash after any number of committed
records and restarted) / reopen / rollup-again, starting from empty families:
* no (source file, target interval) contribution has been merged into the target twice
  (the multiset of merged contributions has no duplicates: every merged pair counts exactly 1),
* every pair registered by a flush whose file holds data (is in level 0 of the source family) is
  either still pending in `rollupFiles` or has been merged — exactly once,
* a contribution is only ever merged for a registered pair. -/
theorem once (ops : List Op) :
    let σ := St.init.run ops
    σ.merged.Nodup
    ∧ (∀ p ∈ σ.merged, σ.merged.count p = 1 ∧ p ∈ σ.registered)
    ∧ (∀ p ∈ σ.registered, p.1 ∈ σ.l0 → p ∈ σ.pending ∨ σ.merged.count p = 1)
    ∧ (∀ p, σ.merged.count p ≤ 1) := by
  intro σ
  have h : Inv σ := Inv.init.run ops
  refine ⟨h.nodup, ?_, ?_, ?_⟩
  · intro p hp
    exact ⟨List.count_eq_one_of_mem h.nodup hp, h.mreg p hp⟩
  · intro p hp hl
    rcases h.live p hp hl with h1 | h1
    · exact Or.inl h1
    · exact Or.inr (List.count_eq_one_of_mem h.nodup h1)
  · intro p
    exact List.nodup_iff_count_le_one.1 h.nodup p

/-- The same for the state after ANY prefix of the records of a rollup run (the crash image at
every commit boundary), stated directly. -/
theorem once_at_every_commit_boundary (ops : List Op) (fam : Nat) (ivs avail dvs : List Iv) (n : Nat) :
    let σ := St.init.run ops
    let σ' := σ.applyAll ((rollupRecs σ fam ivs (fun i => decide (i ∈ avail)) dvs).take n)
    σ'.merged.Nodup ∧ (∀ p ∈ σ'.registered, p.1 ∈ σ'.l0 → p ∈ σ'.pending ∨ σ'.merged.count p = 1) := by
  intro σ σ'
  have h : Inv σ' := (Inv.init.run ops).applyAll ((rollupRecs_just σ (Inv.init.run ops) fam ivs _ dvs).take n)
  refine ⟨h.nodup, ?_⟩
  intro p hp hl
  rcases h.live p hp hl with h1 | h1
  · exact Or.inl h1
  · exact Or.inr (List.count_eq_one_of_mem h.nodup h1)

/-- A complete run of `rollup()` of family `fam` leaves no rollup entry of that family for a target
interval that was processed and available; every such registered pair with data has then been
merged exactly once (by this run or an earlier one). -/
theorem rollup_drains (ops : List Op) (fam : Nat) (ivs avail dvs : List Iv) :
    let σ' := (St.init.run ops).step (.rollup fam ivs avail dvs none)
    (∀ p ∈ σ'.pending, ¬ (p.1.1 = fam ∧ p.2 ∈ ivs ∧ p.2 ∈ avail))
    ∧ (∀ p ∈ σ'.registered, p.1 ∈ σ'.l0 → p.1.1 = fam → p.2 ∈ ivs → p.2 ∈ avail → σ'.merged.count p = 1) := by
  intro σ'
  have h0 : Inv (St.init.run ops) := Inv.init.run ops
  have h : Inv σ' := h0.step _
  have hpend : ∀ p ∈ σ'.pending, ¬ (p.1.1 = fam ∧ p.2 ∈ ivs ∧ p.2 ∈ avail) := by
    intro p hp
    have := (rollup_pending (St.init.run ops) h0 fam ivs (fun i => decide (i ∈ avail)) dvs p hp).2
    simpa using this
  refine ⟨hpend, ?_⟩
  intro p hp hl hf hi ha
  rcases h.live p hp hl with h1 | h1
  · exact absurd ⟨hf, hi, ha⟩ (hpend p h1)
  · exact List.count_eq_one_of_mem h.nodup h1


/-! ## failed attempts (a job that cannot read a source file) -/

/-- A rollup attempt fails for some target intervals (`avail i = false`: target store missing,
family creation or the merge job failed — e.g. a source sst could not be opened): the rollup
entries of those intervals, of intervals not processed and of other families are all kept. -/
theorem rollup_attempt_failed_keeps_markers (ops : List Op) (fam : Nat) (ivs avail dvs : List Iv)
    (p : Key × Iv) (hp : p ∈ (St.init.run ops).pending)
    (hkeep : p.1.1 ≠ fam ∨ p.2 ∉ ivs ∨ p.2 ∉ avail) :
    p ∈ ((St.init.run ops).step (.rollup fam ivs avail dvs none)).pending := by
  simp only [St.step]
  apply rollup_keeps_markers _ fam ivs _ dvs p hp
  rcases hkeep with h | h | h
  · exact Or.inl h
  · exact Or.inr (Or.inl h)
  · exact Or.inr (Or.inr (by simpa using h))

/-- An attempt in which every interval fails commits no record: the state is unchanged … -/
theorem rollup_attempt_all_failed_commits_nothing (σ : St) (fam : Nat) (ivs dvs : List Iv) (cut : Option Nat) :
    σ.step (.rollup fam ivs [] dvs cut) = σ := by
  have h := rollupRecs_all_failed σ fam ivs dvs
  have hf : (fun i : Iv => decide (i ∈ ([] : List Iv))) = fun _ => false := by funext i; simp
  simp only [St.step, hf, h]
  cases cut <;> simp [St.applyAll]

/-- … hence a failed attempt followed by a successful one is one successful attempt (same records,
same state, the file merged exactly once by `once`). -/
theorem failed_then_ok_eq_ok (σ : St) (fam : Nat) (ivs dvs ivs' avail' dvs' : List Iv) (cut cut' : Option Nat) :
    (σ.step (.rollup fam ivs [] dvs cut)).step (.rollup fam ivs' avail' dvs' cut') =
      σ.step (.rollup fam ivs' avail' dvs' cut') := by
  rw [rollup_attempt_all_failed_commits_nothing]

/-! ## at most one job per source family -/

/-- With the compare-and-swap guard, whatever the order of triggers and job ends, at most one rollup
job of a family runs at a time (and the flag is set while it runs) — the reason why the histories of
`once` are sequential per source family. -/
theorem cas_at_most_one_job (l : List GStep) (hl : ∀ s ∈ l, (∃ t, s = .cas t) ∨ (∃ t, s = .finish t)) :
    (({} : JobGuard).run l).running.length ≤ 1 :=
  (guard_cas_inv l hl {} (by simp) (by simp)).1

/-! ## non-vacuity -/

/-- the calendar hypothesis holds for the executable calendar on concrete days -/
example : stdCal.OkAt 18079 := stdCal.okAt_of_okAtB 18079 (by decide)   -- 2019-07-02
example : stdCal.OkAt 19416 := stdCal.okAt_of_okAtB 19416 (by decide)   -- 2023-02-28

/-- the guard is satisfiable by the intervals lindb documents -/
example : Guard 10000 300000 3600000 := ⟨by decide, ⟨30, by decide⟩, Or.inl ⟨12, by decide⟩, by decide⟩
example : Guard 10000 3600000 3600000 := ⟨by decide, ⟨360, by decide⟩, Or.inl ⟨1, by decide⟩, by decide⟩
example : itype (10000 : Nat) = .day ∧ itype (300000 : Nat) = .month ∧ itype (3600000 : Nat) = .year := by decide

/-- a history that flushes two files, crashes a rollup after its first record, reopens and rolls up
again merges both files exactly once -/
example :
    let σ := St.init.run [.flush 1 2 true [300000], .flush 1 4 true [300000],
      .rollup 1 [300000] [300000] [300000] (some 1), .reopen [((1, 4), 300000), ((1, 2), 300000)] [(300000, (1, 4)), (300000, (1, 2))],
      .rollup 1 [300000] [300000] [300000] none]
    σ.merged = [((1, 2), 300000), ((1, 4), 300000)] ∧ σ.pending = [] ∧ σ.refs = [] := by decide

/-! ## proved negations: pairs the database option accepts but the guard excludes -/
namespace Neg

/-- `DatabaseOption.Validate` / `Intervals.IsValid`: a non-empty list without two intervals of the
same type (the only constraint on the interval values) -/
def optionAccepts (ivs : List Int) : Bool :=
  !ivs.isEmpty && decide ((ivs.map itype).Nodup)

/-- 10s → 7m is accepted by the option but violates the guard … -/
theorem pair_10s_7m_accepted : optionAccepts [10000, 420000] = true ∧ ¬ Guard 10000 420000 3600000 := by
  refine ⟨by decide, ?_⟩
  intro g
  rcases g.fam with ⟨k, hk⟩ | ⟨k, hk⟩ <;> omega

/-- … and the rollup misplaces: source family 2019-07-02 01:00, source slot 18 (01:03:00) is written to
target slot 8 but its timestamp lies in target slot 9 of the 7-minute grid. -/
theorem misplaced_10s_7m :
    let r := mkR stdCal 10000 420000 (18079 * oneDay) 1
    r.baseSlot + 18 / r.intervalRatio = 8 ∧ r.calcSlot (r.getTimestamp 18) = 9 := by
  decide

/-- 198 of the 360 source slots of that family are misplaced -/
theorem misplaced_10s_7m_count :
    let r := mkR stdCal 10000 420000 (18079 * oneDay) 1
    ((List.range 360).filter (fun s => decide (r.baseSlot + (s : Int) / r.intervalRatio ≠ r.calcSlot (r.getTimestamp s)))).length = 198 := by
  decide +kernel

/-- the `uint16` ratio: 1s → 19h satisfies the divisibility guard but `19h / 1s = 68400` is stored as
`2864`, so source slot 2864 of the 02:00 family moves one target slot up -/
theorem misplaced_1s_19h :
    let r := mkR stdCal 1000 68400000 (18079 * oneDay) 2
    r.intervalRatio = 2864 ∧ r.baseSlot + 2864 / r.intervalRatio ≠ r.calcSlot (r.getTimestamp 2864) := by
  decide

/-- "skip but mark" (c04-14's shape): the job of interval 300000 merges only file (1,2), although
(1,2) and (1,4) are its inputs, and the rollup entries of BOTH are deleted. The delete record is not
legitimate (`Just` fails) and the resulting state violates the invariant: (1,4) holds data, is
registered, not pending any more and was never merged. -/
theorem skip_but_mark_loses_file :
    let σ := St.init.run [.flush 1 2 true [300000], .flush 1 4 true [300000]]
    let σ1 := σ.apply (.merge 300000 [(1, 2)])
    let σ2 := σ1.apply (.delRollup [((1, 2), 300000), ((1, 4), 300000)])
    ¬ Just σ1 (.delRollup [((1, 2), 300000), ((1, 4), 300000)])
    ∧ ((1, 4), 300000) ∈ σ2.registered ∧ (1, 4) ∈ σ2.l0
    ∧ ((1, 4), 300000) ∉ σ2.pending ∧ ((1, 4), 300000) ∉ σ2.merged := by
  refine ⟨?_, by decide, by decide, by decide, by decide⟩
  intro h
  have := h ((1, 4), 300000) (by decide) (by decide)
  revert this
  decide

/-- "Load, then Store inside the goroutine" instead of the compare-and-swap (c04-15's shape): two
triggers both read `false`, two jobs of the same source family run at the same time. -/
theorem load_then_store_two_jobs :
    (({} : JobGuard).run [.load 1, .load 2, .store 1, .store 2]).running.length = 2 := by
  decide

/-- (recorded finding `compaction-before-rollup-loses-file`, replayed on the real stores by the
harness) a compaction of the source family between flush and rollup: see `Obs` below -/
theorem compaction_before_rollup_not_merged :
    let σ1 := St.init.apply (.flush (1, 2) true [300000])
    let σ2 := σ1.apply (.compact [(1, 2)])
    let σ3 := σ2.applyAll (rollupRecs σ2 1 [300000] (fun _ => true) [300000])
    ((1, 2), 300000) ∈ σ3.registered ∧ ((1, 2), 300000) ∉ σ3.pending ∧ ((1, 2), 300000) ∉ σ3.merged := by
  decide

end Neg

/-! ## observation outside C04's operations: compaction between flush and rollup -/
namespace Obs

/-- After a compaction moved the flushed file out of level 0, `doRollupWork` no longer finds it
(`GetFile(0, …)`), merges nothing, and `rollup()` still deletes the rollup entry: the pair is
registered, neither pending nor merged. (Not a C04 violation: compaction is not in C04's history
alphabet; recorded as an observation.) -/
theorem compaction_before_rollup_loses_pair :
    let σ1 := St.init.apply (.flush (1, 2) true [300000])
    let σ2 := σ1.apply (.compact [(1, 2)])
    let σ3 := σ2.applyAll (rollupRecs σ2 1 [300000] (fun _ => true) [300000])
    ((1, 2), 300000) ∈ σ3.registered ∧ ((1, 2), 300000) ∉ σ3.pending ∧ ((1, 2), 300000) ∉ σ3.merged := by
  decide

end Obs

end LinVerif.Props.C04
