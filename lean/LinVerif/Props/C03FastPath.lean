/-
C03 — the arm / consume discipline of the pooled `TSDDecoder`s, with field steps that bypass
`DownSamplingMultiSeriesInto` (fifth Props module of the check; round 12, mechanism of seeded c03-25).

`seriesMerger.merge` ARMS the decoder of every block with data (`ResetWithTimeRange`) and relies on the
down-sampling call of the SAME iteration to CONSUME it: `Props/C03Decoder.lean` proves that, when every field step
is arm-then-consume, every left-over decoder is spent and contributes nothing. That theorem says nothing about an
iteration that leaves the field loop early. Here (`Model/C03FastPath.lean`) an iteration takes one of three paths
(normal / bypass after arming / bypass before arming), and:

* `consume_restores_discipline` — a down-sampling call leaves EVERY decoder of the slice spent, whatever state the
  slice was in (armed and never read, half read, exhausted): the invariant of the merge is re-established by every
  normal step, so a foreign value can leak into at most the first decoded step after a bypass;
* `step_after_consume_is_exact` — any decoded step directly behind a decoded step is exact, from ANY slice;
* `bypass_before_arming_keeps_discipline` — any sequence of normal and before-arming bypass steps: every decoded step
  is `specAll`, the slice stays spent (a fast path that decides BEFORE touching the decoders is sound);
* `single_source_bypass_preserves_values` — what such a fast path may hand to the flusher: for ratio 1, base slot 0,
  one contributing block whose range is the target range, decode/aggregate/emit is the identity on the block's
  content, slot by slot (so the bypass alone changes no value — the defect of c03-25 is only the armed decoder);
* `normal_steps_are_stepsLoop` — with normal steps only this IS `C03Decoder.stepsLoop` (conservative extension);
* `current_field_loop_consumes_every_arm` — for the tree under test (regenerated flag) every iteration is normal;
* `Neg.armed_bypass_leaks_into_next_series` — the c03-25 shape on concrete blocks.
-/
import LinVerif.Lemmas.C03FastPath
import LinVerif.Generated.C03

set_option linter.unusedSectionVars false
set_option linter.unusedSimpArgs false
set_option linter.unusedVariables false
namespace LinVerif.Props.C03
open LinVerif LinVerif.Map LinVerif.MetricBlock LinVerif.Merge LinVerif.C03 LinVerif.C03Decoder LinVerif.C03FastPath

variable {V : Type}

/-- **consume_restores_discipline.** One normal field step (arm the blocks with data, then the down-sampling call
over the whole slice) from ANY slice — no hypothesis on the positions of the left-over decoders — ends with every
decoder spent. -/
theorem consume_restores_discipline (cfg : Cfg) (tStart len : Nat) (ss : List (Option (Dec V))) (st : Step V)
    (hp : st.path = .normal) (hl : ss.length = st.fds.length) :
    AllSpent cfg tStart len (fieldStepF cfg tStart len ss st).1 ∧
    (fieldStepF cfg tStart len ss st).1.length = ss.length := by
  unfold fieldStepF
  rw [hp]
  simp only []
  refine ⟨downAll_heals st.op cfg tStart len _ [], ?_⟩
  rw [downAll_length, resetStreams_length st.fds ss hl, hl]

/-- **step_after_consume_is_exact.** Two consecutive decoded steps, the first from ANY slice: the second one's
accumulator is exactly `specAll` (only the blocks with data for ITS field, each from the start of its data). -/
theorem step_after_consume_is_exact (cfg : Cfg) (tStart len : Nat) (ss : List (Option (Dec V))) (st1 st2 : Step V)
    (h1 : st1.path = .normal) (h2 : st2.path = .normal)
    (hl1 : ss.length = st1.fds.length) (hl2 : ss.length = st2.fds.length) :
    (fieldStepF cfg tStart len (fieldStepF cfg tStart len ss st1).1 st2).2 =
      some (specAll st2.op cfg tStart len st2.fds []) := by
  obtain ⟨hs, hlen⟩ := consume_restores_discipline cfg tStart len ss st1 h1 hl1
  have := field_step_spec st2.op cfg tStart len st2.fds (fieldStepF cfg tStart len ss st1).1 [] hs (by rw [hlen, hl2])
  rw [fieldStepF_normal cfg tStart len _ st2 h2]
  simp only []
  rw [this.1]

/-- **bypass_before_arming_keeps_discipline.** Any sequence of field steps none of which leaves the iteration
between arming and consuming, from any spent slice: every step delivers `specF` (the decoded ones `specAll`) and the
slice is spent at the end. -/
theorem bypass_before_arming_keeps_discipline (cfg : Cfg) (tStart len : Nat) :
    ∀ (steps : List (Step V)) (ss : List (Option (Dec V))),
      AllSpent cfg tStart len ss → (∀ st ∈ steps, st.fds.length = ss.length) →
      (∀ st ∈ steps, st.path ≠ .armedBypass) →
      (stepsLoopF cfg tStart len ss steps).2 = steps.map (specF cfg tStart len) ∧
      AllSpent cfg tStart len (stepsLoopF cfg tStart len ss steps).1 ∧
      (stepsLoopF cfg tStart len ss steps).1.length = ss.length := by
  intro steps
  induction steps with
  | nil => intro ss h _ _; exact ⟨rfl, h, rfl⟩
  | cons st rest ih =>
    intro ss hsp hlen hpath
    have hl : ss.length = st.fds.length := (hlen st List.mem_cons_self).symm
    have hp : st.path ≠ .armedBypass := hpath st List.mem_cons_self
    have key : (fieldStepF cfg tStart len ss st).2 = specF cfg tStart len st ∧
        AllSpent cfg tStart len (fieldStepF cfg tStart len ss st).1 ∧
        (fieldStepF cfg tStart len ss st).1.length = ss.length := by
      cases hq : st.path with
      | normal =>
        obtain ⟨a, b, c⟩ := field_step_spec st.op cfg tStart len st.fds ss [] hsp hl
        unfold fieldStepF specF
        rw [hq]
        simp only []
        exact ⟨by rw [a], b, by rw [c, hl]⟩
      | armedBypass => exact absurd hq hp
      | plainBypass =>
        unfold fieldStepF specF
        rw [hq]
        exact ⟨rfl, hsp, rfl⟩
    obtain ⟨k1, k2, k3⟩ := key
    have hrest : ∀ st' ∈ rest, st'.fds.length = (fieldStepF cfg tStart len ss st).1.length := by
      intro st' hm
      rw [k3]; exact hlen st' (List.mem_cons_of_mem _ hm)
    obtain ⟨g1, g2, g3⟩ := ih (fieldStepF cfg tStart len ss st).1 k2 hrest
      (fun st' hm => hpath st' (List.mem_cons_of_mem _ hm))
    simp only [stepsLoopF, List.map_cons]
    exact ⟨by rw [g1, k1], g2, by rw [g3, k3]⟩

/-- **single_source_bypass_preserves_values.** Compaction (`compactCfg`: ratio 1, base slot 0), one block with data
whose slot range `[a, b]` is the target range: the field data the normal path would write (decode, aggregate into
the empty accumulator, emit) holds for every slot of the range exactly what the block's data holds — any aggregate,
first/last included. Handing the stored data on unchanged therefore changes no cell. -/
theorem single_source_bypass_preserves_values (op : V → V → V) (a b : Nat) (vals : List (Nat × V)) (t : Nat)
    (h1 : a ≤ t) (h2 : t ≤ b) :
    lookup (emit (specAll op compactCfg a (b + 1 - a) [some (vals, a, b)] []) a (b + 1 - a)) t = lookup vals t := by
  simp only [specAll]
  exact single_source_roundtrip op a b vals t h1 h2

/-- **normal_steps_are_stepsLoop.** With normal steps only, the three-path loop is the loop of `Model/C03Decoder.lean`
(`stale_decoders_contribute_nothing`, `decoder_steps_are_mergeField` are about the same function). -/
theorem normal_steps_are_stepsLoop (cfg : Cfg) (tStart len : Nat) :
    ∀ (steps : List (Step V)) (ss : List (Option (Dec V))), (∀ st ∈ steps, st.path = .normal) →
      (stepsLoopF cfg tStart len ss steps).1 =
        (stepsLoop cfg tStart len ss (steps.map (fun st => (st.op, st.fds)))).1 ∧
      (stepsLoopF cfg tStart len ss steps).2 =
        (stepsLoop cfg tStart len ss (steps.map (fun st => (st.op, st.fds)))).2.map some := by
  intro steps
  induction steps with
  | nil => intro ss _; exact ⟨rfl, rfl⟩
  | cons st rest ih =>
    intro ss hp
    have hq : st.path = .normal := hp st List.mem_cons_self
    have e1 : (fieldStepF cfg tStart len ss st).1 = (fieldStep cfg tStart len ss (st.op, st.fds)).1 := by
      unfold fieldStepF fieldStep; rw [hq]
    have e2 : (fieldStepF cfg tStart len ss st).2 = some (fieldStep cfg tStart len ss (st.op, st.fds)).2 := by
      unfold fieldStepF fieldStep; rw [hq]
    obtain ⟨g1, g2⟩ := ih (fieldStepF cfg tStart len ss st).1 (fun st' hm => hp st' (List.mem_cons_of_mem _ hm))
    simp only [stepsLoopF, stepsLoop, List.map_cons]
    rw [← e1]
    exact ⟨g1, by rw [g2, e2]⟩

/-- **current_field_loop_consumes_every_arm.** For the source as it is (regenerated: the arming loop and the one
`DownSamplingMultiSeriesInto` call are top-level statements of the field loop's body, in this order, and nothing leaves
the iteration from the arming loop up to the call) every iteration takes the normal path, whatever a fast path would
like to do; proved from the flag by `decide`, so it stops proving when an early exit appears. -/
theorem current_field_loop_consumes_every_arm (wantsBypass : Bool) :
    pathOf Generated.C03.everyArmIsConsumed wantsBypass = .normal := by
  cases wantsBypass <;> decide

/-- the field loop of `seriesMerger.merge` statement by statement, and what leaves an iteration (only the two error
returns BEHIND the down-sampling call) -/
theorem tie_arm_consume :
    Generated.C03.seriesMergeFieldLoopBody = ["fieldID := f.ID", "encodeStream := sm.flusher.GetEncoder(idx)",
      "encodeStream.RestWithStartTime(mergeCtx.targetRange.Start)", "range fieldReaders",
      "aggregation.DownSamplingMultiSeriesInto(mergeCtx.targetRange", "data, err := encodeStream.BytesWithoutTime()",
      "if err != nil -> return err", "if err := sm.flusher.FlushField(data); err != nil -> return err",
      "encodeStream.Reset()"] ∧
    Generated.C03.seriesMergeFieldLoopLeaves = ["6:return", "7:return"] ∧
    Generated.C03.everyArmIsConsumed = true := by
  refine ⟨rfl, rfl, rfl⟩

namespace Neg

/-- block A over slots [0,3] holds series 10, block B over [1,2] holds series 20; target range [0,3] -/
def aVals : List (Nat × Int) := [(0, 300), (1, 301), (2, 302), (3, 303)]
def bVals : List (Nat × Int) := [(1, 2001), (2, 2002)]

/-- the two field steps of the merge: series 10 (only A has it, A spans the target range: the fast path applies),
then series 20 (only B has it; B is narrower than the target range: normal path) -/
def shape (p : Path) : List (Step Int) :=
  [{ op := (· + ·), fds := [some (aVals, 0, 3), none], path := p },
   { op := (· + ·), fds := [none, some (bVals, 1, 2)], path := .normal }]

/-- **armed_bypass_leaks_into_next_series** (the c03-25 shape): a bypass taken AFTER the arming loop leaves A's decoder
armed at position 0; the next decoded step — series 20, which A does not contain — reads it: slots 0 and 3 appear,
slots 1 and 2 carry series 10's values on top. The same fast path taken before the arming loop, and the normal path,
give series 20 exactly B's values. -/
theorem armed_bypass_leaks_into_next_series :
    (stepsLoopF compactCfg 0 4 [none, none] (shape .armedBypass)).2 =
      [none, some [(0, 300), (1, 2302), (2, 2304), (3, 303)]] ∧
    (stepsLoopF compactCfg 0 4 [none, none] (shape .plainBypass)).2 = [none, some [(1, 2001), (2, 2002)]] ∧
    (stepsLoopF compactCfg 0 4 [none, none] (shape .normal)).2 =
      [some [(0, 300), (1, 301), (2, 302), (3, 303)], some [(1, 2001), (2, 2002)]] := by
  decide

/-- the pollution does not outlive the first decoded step: a third step (series 30, no block has it) is clean -/
theorem leak_lasts_one_consume :
    (stepsLoopF compactCfg 0 4 [none, none]
      (shape .armedBypass ++ [{ op := (· + ·), fds := [none, none], path := .normal }])).2.getLast? = some (some []) := by
  decide

end Neg

/-- non-vacuity: a spent, non-trivial slice (A's decoder read to its end), a before-arming bypass, then a decoded
step for which A has no data -/
example :
    AllSpent compactCfg 0 4 [some { Dec.reset Neg.aVals 0 3 with idx := 4 }, (none : Option (Dec Int))] ∧
    (stepsLoopF compactCfg 0 4 [some { Dec.reset Neg.aVals 0 3 with idx := 4 }, none]
      [{ op := (· + ·), fds := [some (Neg.aVals, 0, 3), none], path := .plainBypass },
       { op := (· + ·), fds := [none, some (Neg.bVals, 1, 2)], path := .normal }]).2 =
      [none, some [(1, 2001), (2, 2002)]] := by
  refine ⟨?_, by decide⟩
  intro d hd
  simp only [List.mem_cons, Option.some.injEq, reduceCtorEq, List.mem_nil_iff, or_false] at hd
  subst hd
  exact spent_of_exhausted _ _ _ _ (by unfold Dec.Exhausted; decide)

/-- non-vacuity of the round trip: a block with a gap -/
example : lookup (emit (specAll (· + ·) compactCfg 5 (9 + 1 - 5) [some ([(5, 1), (7, 3), (9, 4)], 5, 9)] []) 5 (9 + 1 - 5)) 7
    = some (3 : Int) := by decide

end LinVerif.Props.C03
