/-
C14 — Storage codecs are lossless.

Property theorems over the byte-exact models of lindb's codecs
(Model/Varint, Bits, Xor, Tsd, DeltaPack, FixedOffset); helper lemmas live in Lemmas/C14*.lean.
Values are 64-bit patterns (`v < 2^64`), so "every float" includes every NaN payload, ±0,
subnormals and infinities. External codecs (roaring bitmap, snappy) are parameters with a
round-trip hypothesis (`ExternalCodec`), exercised against the real libraries by the harness.
-/
import LinVerif.Generated.C14
import LinVerif.Lemmas.C14Varint
import LinVerif.Lemmas.C14TsdBytes
import LinVerif.Lemmas.C14BitOps
import LinVerif.Lemmas.C14FixedOffset
import LinVerif.Lemmas.C14Delta
import LinVerif.Lemmas.C14Facts
import LinVerif.Lemmas.C14Stream
import LinVerif.Lemmas.C14Pool
import LinVerif.Lemmas.C14BufAlias
import LinVerif.Lemmas.C14StreamExt
import LinVerif.Lemmas.C14SnappyReuse
import LinVerif.Lemmas.C14Rejected
import LinVerif.Lemmas.C14StreamFree
import LinVerif.Lemmas.C14FoHistory
import LinVerif.Lemmas.C14EncUtils

namespace LinVerif.Props.C14
open LinVerif LinVerif.Bits LinVerif.Varint

/-! ## 1. varint / uvarint / zig-zag -/

/-- `PutUvarint64` then lindb's `readUvarint`: every `uint64`, whatever follows in the buffer -/
theorem uvarint_roundtrip (x : Nat) (rest : List Nat) (hx : x < 2 ^ 64) :
    readUvarint (putUvarint x ++ rest) = (x, rest, .none) :=
  readUvarint_put x rest (by simpa [two64] using hx)

/-- `PutVarint64` then `readVarint`: every `int64` -/
theorem varint_roundtrip (x : Int) (rest : List Nat) (h1 : -(2 ^ 63 : Int) ≤ x) (h2 : x < (2 ^ 63 : Int)) :
    readVarint (putVarint x ++ rest) = (x, rest, .none) :=
  readVarint_put x rest (by simpa [two63] using h1) (by simpa [two63] using h2)

/-- `binary.Uvarint` (used by the fixed-offset decoder) reads back the value and its length -/
theorem std_uvarint_roundtrip (x : Nat) (rest : List Nat) (hx : x < 2 ^ 64) :
    stdUvarint (putUvarint x ++ rest) = (x, ((putUvarint x).length : Int)) ∧ 0 < (putUvarint x).length :=
  ⟨stdUvarint_put x rest (by simpa [two64] using hx), putUvarint_length_pos x⟩

/-- `ZigZagDecode (ZigZagEncode x) = x` for every `int64`, and conversely for every `uint64` -/
theorem zigzag_roundtrip (x : Int) (h1 : -(2 ^ 63 : Int) ≤ x) (h2 : x < (2 ^ 63 : Int)) :
    zigzagDec (zigzagEnc x) = x :=
  zigzagDec_zigzagEnc x (by simpa [two63] using h1) (by simpa [two63] using h2)

theorem zigzag_roundtrip_inv (v : Nat) (h : v < 2 ^ 64) : zigzagEnc (zigzagDec v) = v :=
  zigzagEnc_zigzagDec v (by simpa [two64] using h)

/-- `stream.UvariantSize` (used by `MarshalSize`) is the number of bytes `PutUvarint` writes -/
theorem uvariant_size_is_length (x : Nat) : uvariantSize x = (putUvarint x).length := uvariantSize_eq x

/-! ## 2. bit stream refinement -/

/-- **Writer refinement.** Whatever sequence of `WriteBit` / `WriteBits` / `WriteByte` calls is made
on a fresh (or `Reset`) writer, the bytes after `Flush` are, bit for bit, the concatenation of
what the calls denote, followed by fewer than 8 zero bits. -/
theorem bitwriter_refines_stream (ops : List BitOp) (hv : ∀ o ∈ ops, o.Valid) :
    ∃ pad, pad < 8 ∧
      bytesBits (runWriter Writer.fresh ops).flush.out = ops.flatMap BitOp.abs ++ List.replicate pad false ∧
      ∀ b ∈ (runWriter Writer.fresh ops).flush.out, b < 256 := by
  obtain ⟨ok, hb⟩ := runWriter_spec ops Writer.fresh Writer.fresh_ok hv
  refine ⟨_, Writer.pad_lt _ ok, ?_, Writer.flush_out_lt _ ok⟩
  rw [Writer.flush_bits _ ok, hb]; simp

/-- **Reader refinement / bit-level round trip.** Reading the flushed bytes back with calls of
the same shapes (`ReadBit` / `ReadBits(n)` / `ReadByte`, including the shifted-byte fast path of
`ReadByte` on an unaligned position) returns exactly what was written, without error. -/
theorem bitstream_roundtrip (ops : List BitOp) (hv : ∀ o ∈ ops, o.Valid) :
    runReader (Reader.fresh (runWriter Writer.fresh ops).flush.out) ops = some (ops.map BitOp.value) := by
  obtain ⟨pad, _, hbits, hlt⟩ := bitwriter_refines_stream ops hv
  refine runReader_spec ops _ (List.replicate pad false) (Reader.ok_of_aligned _ 0 hlt) hv ?_
  rw [Reader.fresh, Reader.rest_of_aligned]; simpa using hbits

/-! ## 3. XOR codec -/

open LinVerif.Xor in
/-- **xor_roundtrip.** For every list of 64-bit patterns: write them through a fresh XOR encoder
and bit writer, flush, and the first `vs.length` calls of `Next()` on a fresh decoder over those
bytes each return `true` with exactly the written pattern. -/
theorem xor_roundtrip (vs : List Nat) (hvs : ∀ v ∈ vs, v < 2 ^ 64) :
    (Xor.Dec.nextN vs.length Xor.Dec.fresh
        (Reader.fresh (Xor.Enc.fresh.writeAll Writer.fresh vs).2.flush.out)).1
      = vs.map (fun v => (true, v)) := by
  have hvs' : ∀ v ∈ vs, v < two64 := fun v hv => by simpa [two64] using hvs v hv
  obtain ⟨ok, hbits, _⟩ := Xor.Enc.writeAll_spec vs Xor.Enc.fresh Writer.fresh Xor.Enc.fresh_inv Writer.fresh_ok hvs'
  have hfl := Writer.flush_bits _ ok
  rw [hbits, Writer.fresh_bits, List.nil_append] at hfl
  refine Xor.Dec.nextN_spec vs Xor.Enc.fresh Xor.Dec.fresh _
    (List.replicate (Xor.Enc.fresh.writeAll Writer.fresh vs).2.pad false) Xor.Enc.fresh_inv Xor.sim_fresh
    (Reader.ok_of_aligned _ 0 (Writer.flush_out_lt _ ok)) hvs' ?_
  rw [Reader.fresh, Reader.rest_of_aligned]; simpa using hfl

/-- Observation (compression, not losslessness): the encoder's window starts at `leading = trailing = 0`
and the test `leading >= e.leading && trailing >= e.trailing` is then always true, so the branch
that announces a new window (6 + 6 bits) is never taken: every changed value costs 2 + 64 bits.
`Enc.step` is the encoder-state component of `Write` (`Xor.Enc.write_spec`). -/
theorem xor_window_never_opens (e : Xor.Enc) (v : Nat) (h : e.leading = 0 ∧ e.trailing = 0) :
    (e.step v).leading = 0 ∧ (e.step v).trailing = 0 := by
  obtain ⟨h1, h2⟩ := h
  unfold Xor.Enc.step
  split
  · exact ⟨h1, h2⟩
  · dsimp only
    split
    · exact ⟨h1, h2⟩
    · have hc : Xor.clz64 (v ^^^ e.prev) ≥ e.leading ∧ Xor.ctz64 (v ^^^ e.prev) ≥ e.trailing := by
        rw [h1, h2]; exact ⟨Nat.zero_le _, Nat.zero_le _⟩
      rw [if_pos hc]
      exact ⟨h1, h2⟩

/-- the same through reused objects: `Reset()` of a used encoder / decoder is the fresh state -/
theorem xor_reset_eq_fresh (e : Xor.Enc) (d : Xor.Dec) : e.reset = Xor.Enc.fresh ∧ d.reset = Xor.Dec.fresh :=
  ⟨rfl, rfl⟩

/-! ## 4. TSD blocks -/

open LinVerif.Tsd

/-- `Bytes()` of a fresh encoder (positioned at `start`) after appending `slots` -/
def tsdEncode (start : Nat) (slots : Slots) : Option (List Nat) := ((Enc.fresh start).appendAll slots).bytes.1

/-- `BytesWithoutTime()` -/
def tsdEncodeNoTime (start : Nat) (slots : Slots) : List Nat := ((Enc.fresh start).appendAll slots).bytesWithoutTime.1

/-- **tsd_roundtrip.** Any start slot, any presence mask, any values: the block produced by
`Bytes()` decodes, through `Reset` on ANY decoder object `d0` (fresh, used or pooled), to the
same time range, and the sequential read loop (`Next` / `HasValue` / `Slot` / `Value`) returns
exactly the present `(slot, value)` pairs and then stops. The guard `start + length ≤ 65535`
(last slot ≤ 65534) is what makes `Next()` able to return `false`; see `Neg.tsd_next_never_false`. -/
theorem tsd_roundtrip (start : Nat) (slots : Slots) (d0 : Dec)
    (hv : ∀ v, some v ∈ slots → v < 2 ^ 64) (hne : slots ≠ []) (hb : start + slots.length ≤ 65535) :
    ∃ bytes, tsdEncode start slots = some bytes ∧
      (d0.reset bytes).startTime = start ∧ (d0.reset bytes).endTime = start + slots.length - 1 ∧
      ∀ fuel, slots.length < fuel → ((d0.reset bytes).readSeq fuel).1 = expected start slots := by
  have hlen : 0 < slots.length := List.length_pos_iff.mpr hne
  obtain ⟨out, hbytes, _, hout, hlt, pad, hbits⟩ :=
    Enc.bytes_spec start slots (slotsOk_of slots hv) hne (by omega) (by omega) (by omega)
  refine ⟨_, hbytes, ?_⟩
  have hat := Dec.reset_at d0 start (start + slots.length - 1) out (by omega) (by omega) hout hlt
  rw [hbits] at hat
  refine ⟨hat.st, hat.en, ?_⟩
  intro fuel hf
  have := Dec.readSeq_spec slots 0 Xor.Enc.fresh _ start (start + slots.length - 1) _ hat (slotsOk_of slots hv)
    (by omega) (by omega) fuel hf
  simpa using this

/-- **tsd_slot_read_agrees.** Slot-addressed reads (`GetValue(slot)`, which is
`HasValueWithSlot(slot)` + `Value()`) over consecutive ascending slots `lo, lo+1, …` with
`lo ≤ start` — the way every caller in lindb reads (`DownSampling`, `merge`, the down-sampling
aggregator) — return for every slot exactly the encoded entry (`none` outside the block), and
therefore agree with the sequential decode. Holds up to the last slot 65535. -/
theorem tsd_slot_read_agrees (start : Nat) (slots : Slots) (d0 : Dec) (lo k : Nat)
    (hv : ∀ v, some v ∈ slots → v < 2 ^ 64) (hne : slots ≠ [])
    (hb : start + slots.length ≤ 65536) (hn : slots.length ≤ 65535) (hlo : lo ≤ start) :
    ∃ bytes, tsdEncode start slots = some bytes ∧
      ((d0.reset bytes).getValues (List.range' lo k)).1 = (List.range' lo k).map (slotAt start slots) := by
  have hlen : 0 < slots.length := List.length_pos_iff.mpr hne
  obtain ⟨out, hbytes, _, hout, hlt, pad, hbits⟩ :=
    Enc.bytes_spec start slots (slotsOk_of slots hv) hne (by omega) hb hn
  refine ⟨_, hbytes, ?_⟩
  have hat := Dec.reset_at d0 start (start + slots.length - 1) out (by omega) (by omega) hout hlt
  rw [hbits] at hat
  have := Dec.getValues_spec k lo slots 0 Xor.Enc.fresh _ start (start + slots.length - 1) _ hat
    (slotsOk_of slots hv) (by omega) (by omega) (by omega)
    (by by_cases h : lo < start
        · exact Or.inl ⟨rfl, h⟩
        · exact Or.inr (Or.inl (by omega)))
  simpa using this

/-- the sequential decode and the slot-addressed decode are the same function of the block -/
theorem expected_lookup (start : Nat) (slots : Slots) (s : Nat) :
    slotAt start slots s = ((expected start slots).find? (fun p => p.1 == s)).map Prod.snd := by
  induction slots generalizing start with
  | nil => simp [slotAt, expected]
  | cons sl rest ih =>
    by_cases h1 : s < start
    · -- every expected slot is ≥ start
      have hnone : ∀ (st : Nat) (l : Slots), s < st → (expected st l).find? (fun p => p.1 == s) = none := by
        intro st l
        induction l generalizing st with
        | nil => intro _; simp [expected]
        | cons a l ihl =>
          intro hs
          cases a with
          | none => simpa [expected] using ihl (st + 1) (by omega)
          | some v =>
            simp only [expected, List.find?_cons]
            have : (st == s) = false := by simp; omega
            simp only [this]
            exact ihl (st + 1) (by omega)
      rw [hnone start (sl :: rest) h1]
      simp [slotAt, h1]
    · by_cases h2 : s = start
      · subst h2
        cases sl with
        | none =>
          have hnone : ∀ (st : Nat) (l : Slots), s < st → (expected st l).find? (fun p => p.1 == s) = none := by
            intro st l
            induction l generalizing st with
            | nil => intro _; simp [expected]
            | cons a l ihl =>
              intro hs
              cases a with
              | none => simpa [expected] using ihl (st + 1) (by omega)
              | some v =>
                simp only [expected, List.find?_cons]
                have : (st == s) = false := by simp; omega
                simp only [this]
                exact ihl (st + 1) (by omega)
          simp [slotAt, expected, hnone (s + 1) rest (by omega)]
        | some v => simp [slotAt, expected]
      · have h3 : start < s := by omega
        rw [slotAt_cons_succ start sl rest s h3, ih (start + 1)]
        cases sl with
        | none => simp [expected]
        | some v =>
          simp only [expected, List.find?_cons]
          have : (start == s) = false := by simp; omega
          simp [this]

/-- blocks written with `BytesWithoutTime()` and read with `ResetWithTimeRange(data, start, end)`
(the on-disk field blocks): both read modes, any decoder object -/
theorem tsd_roundtrip_without_time (start : Nat) (slots : Slots) (d0 : Dec) (lo k : Nat)
    (hv : ∀ v, some v ∈ slots → v < 2 ^ 64) (hne : slots ≠ []) (hb : start + slots.length ≤ 65535) (hlo : lo ≤ start) :
    let bytes := tsdEncodeNoTime start slots
    let d := d0.resetWithTimeRange bytes start (start + slots.length - 1)
    (∀ fuel, slots.length < fuel → (d.readSeq fuel).1 = expected start slots) ∧
    (d.getValues (List.range' lo k)).1 = (List.range' lo k).map (slotAt start slots) := by
  have hlen : 0 < slots.length := List.length_pos_iff.mpr hne
  obtain ⟨out, _, hbwt, hout, hlt, pad, hbits⟩ :=
    Enc.bytes_spec start slots (slotsOk_of slots hv) hne (by omega) (by omega) (by omega)
  have hat := Dec.resetWithTimeRange_at d0 start (start + slots.length - 1) out hlt
  rw [hbits] at hat
  simp only [tsdEncodeNoTime, hbwt]
  constructor
  · intro fuel hf
    have := Dec.readSeq_spec slots 0 Xor.Enc.fresh _ start (start + slots.length - 1) _ hat (slotsOk_of slots hv)
      (by omega) (by omega) fuel hf
    simpa using this
  · have := Dec.getValues_spec k lo slots 0 Xor.Enc.fresh _ start (start + slots.length - 1) _ hat
      (slotsOk_of slots hv) (by omega) (by omega) (by omega)
      (by by_cases h : lo < start
          · exact Or.inl ⟨rfl, h⟩
          · exact Or.inr (Or.inl (by omega)))
    simpa using this

/-- **Seek, dense prefix.** `Seek(s)` on a freshly reset decoder (any object) succeeds when every slot
before `s` holds a value, and leaves the decoder exactly in front of `s`: the slot-addressed reads
that follow (`GetValue(s), GetValue(s+1), …`) return the encoded entries, i.e. `Seek` followed by
reads has the `GetValue` semantics of `tsd_slot_read_agrees`. -/
theorem tsd_seek_then_read (start : Nat) (vs : List Nat) (rest : Slots) (d0 : Dec) (k : Nat)
    (hvs : ∀ v ∈ vs, v < 2 ^ 64) (hrest : ∀ v, some v ∈ rest → v < 2 ^ 64) (hne : rest ≠ [])
    (hb : start + (vs.length + rest.length) ≤ 65536) (hn : vs.length + rest.length ≤ 65535) :
    ∃ bytes d', tsdEncode start (vs.map some ++ rest) = some bytes ∧
      (d0.reset bytes).seek (start + vs.length) = (true, d') ∧
      (d'.getValues (List.range' (start + vs.length) k)).1
        = (List.range' (start + vs.length) k).map (slotAt start (vs.map some ++ rest)) := by
  have hrl : 0 < rest.length := List.length_pos_iff.mpr hne
  have hvs' : ∀ v ∈ vs, v < two64 := fun v hv => by simpa [two64] using hvs v hv
  have hok : slotsOk (vs.map some ++ rest) := by
    intro v hv
    simp only [List.mem_append, List.mem_map] at hv
    rcases hv with ⟨a, ha, hav⟩ | hv
    · injection hav with hav; subst hav; exact hvs' a ha
    · simpa [two64] using hrest v hv
  have hlen : (vs.map some ++ rest).length = vs.length + rest.length := by simp
  obtain ⟨out, hbytes, _, hout, hlt, pad, hbits⟩ :=
    Enc.bytes_spec start (vs.map some ++ rest) hok (by simp [hne]) (by omega) (by omega) (by omega)
  have hat := Dec.reset_at d0 start (start + (vs.map some ++ rest).length - 1) out (by omega) (by omega) hout hlt
  rw [hbits] at hat
  obtain ⟨d', hloop, hat'⟩ := Dec.seekLoop_dense vs rest 0 Xor.Enc.fresh _ start _ _ 65537 hat hvs'
    (by omega) (by omega) (by omega) (by omega)
  refine ⟨_, d', hbytes, ?_, ?_⟩
  · unfold Dec.seek
    have c : ¬ (start + vs.length > (d0.reset (le16 start ++ le16 (start + (vs.map some ++ rest).length - 1) ++ out)).endTime ∨
        start + vs.length < (d0.reset (le16 start ++ le16 (start + (vs.map some ++ rest).length - 1) ++ out)).startTime) := by
      rw [hat.en, hat.st]; omega
    rw [if_neg c]
    simpa using hloop
  · have hslot : slotsOk rest := fun v hv => by simpa [two64] using hrest v hv
    have := Dec.getValues_spec k (start + vs.length) rest (0 + vs.length) _ d' start
      (start + (vs.map some ++ rest).length - 1) _ hat' hslot (by omega) (by omega) (by omega)
      (Or.inr (Or.inl (by omega)))
    rw [this]
    apply List.map_congr_left
    intro x hx
    have hx' := (List.mem_range'_1.mp hx).1
    have hd : (vs.map some ++ rest).drop vs.length = rest := by
      rw [List.drop_left' (by simp)]
    have := slotAt_drop start (vs.map some ++ rest) vs.length x hx'
    rw [hd] at this
    simpa using this

/-- **Seek across a gap.** When an empty slot lies before the target, `Seek` returns `false` after
consuming the present slots and that empty one; the decoder stays consistent: reads continue
correctly from the slot after the gap. -/
theorem tsd_seek_gap (start : Nat) (vs : List Nat) (rest : Slots) (d0 : Dec) (s k : Nat)
    (hvs : ∀ v ∈ vs, v < 2 ^ 64) (hrest : ∀ v, some v ∈ rest → v < 2 ^ 64)
    (hb : start + (vs.length + 1 + rest.length) ≤ 65536) (hn : vs.length + 1 + rest.length ≤ 65535)
    (hs1 : start + vs.length < s) (hs2 : s ≤ start + (vs.length + 1 + rest.length) - 1) :
    ∃ bytes d', tsdEncode start (vs.map some ++ none :: rest) = some bytes ∧
      (d0.reset bytes).seek s = (false, d') ∧
      (d'.getValues (List.range' (start + vs.length + 1) k)).1
        = (List.range' (start + vs.length + 1) k).map (slotAt start (vs.map some ++ none :: rest)) := by
  have hvs' : ∀ v ∈ vs, v < two64 := fun v hv => by simpa [two64] using hvs v hv
  have hok : slotsOk (vs.map some ++ none :: rest) := by
    intro v hv
    simp only [List.mem_append, List.mem_map, List.mem_cons] at hv
    rcases hv with ⟨a, ha, hav⟩ | hv | hv
    · injection hav with hav; subst hav; exact hvs' a ha
    · exact absurd hv (by simp)
    · simpa [two64] using hrest v hv
  have hlen : (vs.map some ++ none :: rest).length = vs.length + 1 + rest.length := by simp; omega
  obtain ⟨out, hbytes, _, hout, hlt, pad, hbits⟩ :=
    Enc.bytes_spec start (vs.map some ++ none :: rest) hok (by simp) (by omega) (by omega) (by omega)
  have hat := Dec.reset_at d0 start (start + (vs.map some ++ none :: rest).length - 1) out (by omega) (by omega) hout hlt
  rw [hbits] at hat
  obtain ⟨d', hloop, hat'⟩ := Dec.seekLoop_gap vs rest 0 Xor.Enc.fresh _ start _ _ 65537 s hat hvs'
    (by omega) (by omega) (by omega) (by omega) (by omega)
  refine ⟨_, d', hbytes, ?_, ?_⟩
  · unfold Dec.seek
    have c : ¬ (s > (d0.reset (le16 start ++ le16 (start + (vs.map some ++ none :: rest).length - 1) ++ out)).endTime ∨
        s < (d0.reset (le16 start ++ le16 (start + (vs.map some ++ none :: rest).length - 1) ++ out)).startTime) := by
      rw [hat.en, hat.st]; omega
    rw [if_neg c]
    exact hloop
  · have hslot : slotsOk rest := fun v hv => by simpa [two64] using hrest v hv
    have := Dec.getValues_spec k (start + vs.length + 1) rest (0 + vs.length + 1) _ d' start
      (start + (vs.map some ++ none :: rest).length - 1) _ hat' hslot (by omega) (by omega) (by omega)
      (Or.inr (Or.inl (by omega)))
    rw [this]
    apply List.map_congr_left
    intro x hx
    have hx' := (List.mem_range'_1.mp hx).1
    have hd : (vs.map some ++ none :: rest).drop (vs.length + 1) = rest := by
      have : vs.map some ++ none :: rest = (vs.map some ++ [none]) ++ rest := by simp
      rw [this, List.drop_left' (by simp)]
    have := slotAt_drop start (vs.map some ++ none :: rest) (vs.length + 1) x (by omega)
    rw [hd] at this
    have e : start + (0 + vs.length + 1) = start + (vs.length + 1) := by omega
    rw [e]; exact this

/-- stated guard: a target outside `[startTime, endTime]` is refused without touching the decoder -/
theorem tsd_seek_out_of_range (d : Dec) (s : Nat) (h : s > d.endTime ∨ s < d.startTime) : d.seek s = (false, d) := by
  simp [Dec.seek, h]

/-- stated guard: an encoder into which no slot was appended returns `nil` (no block at all) -/
theorem tsd_empty_is_nil (start : Nat) : tsdEncode start [] = none := Enc.bytes_empty start

/-- stated guard: `Reset` with at most 4 bytes only records an error; every other field of a
reused decoder keeps its previous (stale) value -/
theorem tsd_reset_short_keeps_state (d : Dec) (data : List Nat) (h : data.length ≤ 4) :
    d.reset data = { d with err := true } := by
  simp [Dec.reset, h]

namespace Neg

/-- **Boundary of the slot domain.** While `TSDDecoder.Next()` evaluates `startTime+idx <= endTime` in
`uint16` (regenerated fact `tsdNextWideCompare = false`), a block that ends at slot 65535 makes it
return `true` forever: the sequential loop never terminates / reports slots that were never encoded. -/
theorem tsd_next_never_false (d : Dec) (h : d.endTime = 65535) (hw : Generated.C14.tsdNextWideCompare = false) :
    d.next.1 = true ∧ d.next.2.endTime = 65535 := by
  unfold Dec.next nextKey u16
  rw [hw]
  have : (d.startTime + d.idx) % 65536 ≤ d.endTime := by omega
  simp only [Bool.false_eq_true, if_false, if_pos this]
  exact ⟨trivial, h⟩

def nextTimes : Nat → Dec → List Bool
  | 0, _ => []
  | n + 1, d => d.next.1 :: nextTimes n d.next.2

theorem tsd_next_never_false_iter (n : Nat) (d : Dec) (h : d.endTime = 65535)
    (hw : Generated.C14.tsdNextWideCompare = false) : nextTimes n d = List.replicate n true := by
  induction n generalizing d with
  | zero => rfl
  | succ n ih =>
    obtain ⟨h1, h2⟩ := tsd_next_never_false d h hw
    simp [nextTimes, h1, ih d.next.2 h2, List.replicate_succ]

/-- with the comparison done in `int` (the repair in fixes/C14-tsd-next-uint16-wrap.patch) `Next()` does
return `false` once all slots of a block ending at 65535 were consumed -/
theorem tsd_next_stops_when_wide (d : Dec) (hw : Generated.C14.tsdNextWideCompare = true)
    (h : d.endTime < d.startTime + d.idx) : d.next = (false, d) := by
  unfold Dec.next nextKey
  rw [hw]
  have : ¬ (d.startTime + d.idx ≤ d.endTime) := by omega
  simp [this]

/-- the witness the harness replays on the implementation (case 0 of every run): block
`[65534, 65535]` holding 1.5 and -2.25 -/
def witnessBytes : List Nat :=
  [0xfe, 0xff, 0xff, 0xff, 0x9f, 0xfc, 0, 0, 0, 0, 0, 0, 0x7f, 0xff, 0xa0, 0, 0, 0, 0, 0, 0]

theorem witness_is_encoder_output :
    tsdEncode 65534 [some 4609434218613702656, some 13835621005235585024] = some witnessBytes := by
  decide +kernel

/-- six calls of `Next()` on the 2-slot witness block: all `true` with the `uint16` comparison, two with the `int` one -/
theorem witness_next_six_times : nextTimes 6 (Dec.fresh witnessBytes) =
    (if Generated.C14.tsdNextWideCompare then [true, true, false, false, false, false]
     else [true, true, true, true, true, true]) := by
  decide +kernel

end Neg

/-! ## 5. pooled / reused objects -/

/-- `RestWithStartTime(s)` (what `GetTSDEncoder` applies to a pooled encoder) on ANY encoder state
is the state of `NewTSDEncoder(s)` -/
theorem tsd_encoder_reset_eq_fresh (e : Enc) (s : Nat) : e.resetWithStartTime s = Enc.fresh s := rfl

/-- `Reset(data)` (more than 4 bytes) on ANY decoder state is the state of `NewTSDDecoder(data)` -/
theorem tsd_decoder_reset_eq_fresh (d : Dec) (data : List Nat) (h : 4 < data.length) :
    d.reset data = Dec.fresh data := by
  have h' : ¬ data.length ≤ 4 := by omega
  cases hi : d.inited <;>
    simp [Dec.fresh, Dec.reset, Dec.reset', Dec.zero, h, h', hi, Reader.fresh, Reader.setBuf, Reader.setIdx,
      Reader.reset, Xor.Dec.fresh, Xor.Dec.reset]

/-- `ResetWithTimeRange` on ANY decoder state equals the same call on the zero decoder -/
theorem tsd_decoder_reset_range_eq_fresh (d : Dec) (data : List Nat) (s e : Nat) :
    d.resetWithTimeRange data s e = Dec.zero.resetWithTimeRange data s e := by
  cases hi : d.inited <;>
    simp [Dec.resetWithTimeRange, Dec.reset', Dec.zero, hi, Reader.fresh, Reader.setBuf,
      Reader.reset, Xor.Dec.fresh, Xor.Dec.reset]

/-- **History independence.** What a pooled encoder produces after it was (re)acquired does not
depend on anything that happened to the object before. -/
theorem tsd_encoder_history_irrelevant (e1 e2 : Enc) (s : Nat) (ops : List EncOp) :
    runEnc e1 (.get s :: ops) = runEnc e2 (.get s :: ops) := by
  simp [runEnc, tsd_encoder_reset_eq_fresh]

/-- bit writer / reader `Reset` -/
theorem bit_reset_eq_fresh (w : Writer) (r : Reader) :
    w.reset [] = Writer.fresh ∧ r.reset = { Reader.fresh r.buf with idx := r.idx } := ⟨rfl, rfl⟩

/-! ## 6. fixed-width offset table -/

section FixedOffsetTable
open LinVerif.FixedOffset

/-- **fixedoffset_roundtrip.** Every non-empty list of offsets below 2^32 (increasing or not):
`MarshalBinary` then `Unmarshal` on ANY decoder object (fresh, used, pooled), with arbitrary bytes
following the table, returns those trailing bytes, the size, and `Get(i)` returns offset `i`
for every index and nothing outside `[0, n)`. -/
theorem fixedoffset_roundtrip (inc : Bool) (vs junk : List Nat) (d0 : FixedOffset.Dec)
    (hne : vs ≠ []) (hlt : ∀ v ∈ vs, v < 2 ^ 32) (hlen : vs.length < 2 ^ 32) :
    ∃ d, d0.unmarshal ((encOf inc vs).marshal ++ junk) = (.ok junk, d) ∧ d.sizeOf = vs.length ∧
      (∀ i (hi : i < vs.length), d.get (i : Int) = some (vs[i] : Int)) ∧
      (∀ i : Int, i < 0 ∨ i ≥ (vs.length : Int) → d.get i = none) := by
  have hlt' : ∀ v ∈ vs, v < 4294967296 := fun v hv => by simpa using hlt v hv
  have hm := maxNat_lt vs 4294967296 (by omega) hlt'
  obtain ⟨hw1, hw4⟩ := minWidth_range (maxNat vs)
  have hfit : ∀ v ∈ vs, v < 256 ^ uint32MinWidth (maxNat vs) :=
    fun v hv => lt_pow_minWidth v (maxNat vs) (le_maxNat vs v hv) hm
  refine ⟨{ block := body (uint32MinWidth (maxNat vs)) vs, width := (uint32MinWidth (maxNat vs) : Nat),
            size := (vs.length : Int) }, ?_, ?_, ?_, ?_⟩
  · rw [encOf_marshal inc vs hne hlt']
    exact unmarshal_marshal d0 _ vs junk hw1 hw4 (by simpa using hlen)
  · simp only [FixedOffset.Dec.sizeOf]
    have : ¬ ((uint32MinWidth (maxNat vs) : Nat) : Int) = 0 := by omega
    rw [if_neg this]
  · intro i hi; exact get_body _ vs hw1 hw4 hfit i hi
  · intro i hi; exact get_body_out _ vs hw1 hw4 i hi

/-- **getBlock_correct.** For non-decreasing offsets that lie inside the data block, `GetBlock(i)`
is the slice from offset `i` to offset `i+1` (to the end of the block for the last entry). -/
theorem fixedoffset_getBlock_correct (inc : Bool) (vs junk data : List Nat) (d0 : FixedOffset.Dec)
    (hne : vs ≠ []) (hlt : ∀ v ∈ vs, v < 2 ^ 32) (hlen : vs.length < 2 ^ 32)
    (hmono : ∀ i (h : i + 1 < vs.length), vs[i] ≤ vs[i + 1]) (hbound : ∀ v ∈ vs, v ≤ data.length) :
    ∃ d, d0.unmarshal ((encOf inc vs).marshal ++ junk) = (.ok junk, d) ∧
      ∀ i (hi : i < vs.length), d.getBlock (i : Int) data
        = .ok ((data.take ((vs[i + 1]?).getD data.length)).drop vs[i]) := by
  have hlt' : ∀ v ∈ vs, v < 4294967296 := fun v hv => by simpa using hlt v hv
  have hm := maxNat_lt vs 4294967296 (by omega) hlt'
  obtain ⟨hw1, hw4⟩ := minWidth_range (maxNat vs)
  have hfit : ∀ v ∈ vs, v < 256 ^ uint32MinWidth (maxNat vs) :=
    fun v hv => lt_pow_minWidth v (maxNat vs) (le_maxNat vs v hv) hm
  refine ⟨{ block := body (uint32MinWidth (maxNat vs)) vs, width := (uint32MinWidth (maxNat vs) : Nat),
            size := (vs.length : Int) }, ?_, ?_⟩
  · rw [encOf_marshal inc vs hne hlt']
    exact unmarshal_marshal d0 _ vs junk hw1 hw4 (by simpa using hlen)
  · intro i hi
    exact getBlock_body _ vs hw1 hw4 hfit data i hi (hmono i) hbound

/-- `Add`ing non-negative offsets one by one (non-decreasing when `ensureIncreasing`) is accepted and
leaves the state `FromValues` leaves; so the two theorems above cover both ways of filling the table -/
theorem fixedoffset_add_eq_fromValues (inc : Bool) (vs : List Nat)
    (hs : inc = true → ∀ i (hi : i + 1 < vs.length), vs[i] ≤ vs[i + 1]) :
    (FixedOffset.Enc.fresh inc).addAll (vs.map Int.ofNat) = .ok (encOf inc vs) := addAll_eq_encOf inc vs hs

/-- stated guards: a negative offset and (with `ensureIncreasing`) a decreasing offset are rejected
(the Go code panics) and leave the encoder unchanged -/
theorem fixedoffset_add_guards (e : FixedOffset.Enc) (v : Int) :
    (v < 0 → ∃ err, e.add v = .error err) ∧
    (e.ensureIncreasing = true → e.values ≠ [] → e.values.getLast?.getD 0 > v → e.add v = .error .notIncreasing) := by
  constructor
  · intro hv
    unfold FixedOffset.Enc.add
    split
    · exact ⟨_, rfl⟩
    · simp [hv]
  · intro h1 h2 h3
    unfold FixedOffset.Enc.add
    simp [h1, h2, h3]

/-- stated guard: an empty table is written as NOTHING (not even a width byte) and the decoder
rejects the empty input -/
theorem fixedoffset_empty_guard (inc : Bool) (d0 : FixedOffset.Dec) :
    (FixedOffset.Enc.fresh inc).marshal = [] ∧ (d0.unmarshal []).1 = .error .tooShort := by
  constructor <;> simp [FixedOffset.Enc.marshal, FixedOffset.Enc.fresh, FixedOffset.Dec.unmarshal]

/-- reuse: `Reset()` is the fresh encoder; `Unmarshal` overwrites every field it later reads -/
theorem fixedoffset_reset_eq_fresh (e : FixedOffset.Enc) (d1 d2 : FixedOffset.Dec) (data : List Nat) :
    e.reset = FixedOffset.Enc.fresh e.ensureIncreasing ∧ d1.unmarshal data = d2.unmarshal data := ⟨rfl, rfl⟩

namespace Neg
/-- outside the property's domain (offsets ≤ 2^32-1): the width is computed from `uint32(max)`,
so an offset of 2^32 is silently stored as 0 -/
theorem fixedoffset_truncates_at_two_pow_32 :
    (encOf false [4294967296]).marshal = [1, 1, 0] := by decide +kernel
end Neg

end FixedOffsetTable

/-! ## 7. delta bit packing -/

section Delta
open LinVerif.DeltaPack

/-- **delta_roundtrip.** Every non-empty list of `int32` values (any differences, including those
that overflow `int32`): add them to an encoder that is ready for a new sequence (fresh or `Reset`),
take `Bytes()`, `Reset` ANY decoder object with them: it announces exactly `length` values,
`Next()` returns them in order, and `HasNext()` is false afterwards. -/
theorem delta_roundtrip (e0 : DeltaPack.Enc) (d0 : DeltaPack.Dec) (v0 : Int) (rest : List Int)
    (hc : e0.Clean) (hv0 : -(2 ^ 31 : Int) ≤ v0 ∧ v0 < 2 ^ 31)
    (hrest : ∀ v ∈ rest, -(2 ^ 31 : Int) ≤ v ∧ v < 2 ^ 31) (hlen : rest.length < 2 ^ 31 - 1) :
    (d0.reset ((e0.addAll (v0 :: rest)).bytes).1).count = ((rest.length + 1 : Nat) : Int) ∧
    ∃ d', DeltaPack.Dec.nextN (rest.length + 1) (d0.reset ((e0.addAll (v0 :: rest)).bytes).1) = (v0 :: rest, d') ∧
      d'.hasNext = false :=
  delta_roundtrip_core e0 d0 v0 rest hc (by simpa [I32] using hv0)
    (fun v hv => by simpa [I32] using hrest v hv) (by simpa using hlen)

/-- both ways of obtaining an encoder satisfy the precondition of `delta_roundtrip` -/
theorem delta_fresh_and_reset_are_clean (e : DeltaPack.Enc) : DeltaPack.Enc.fresh.Clean ∧ e.reset.Clean :=
  ⟨DeltaPack.Enc.fresh_clean, DeltaPack.Enc.reset_clean e⟩

/-- `Reset()` does NOT restore the constructor's state: `minDelta` is `MaxInt32` after `Reset` and 0
in a new encoder. The bytes of the two differ; both decode to the same values (`delta_roundtrip`). -/
theorem delta_reset_ne_fresh : DeltaPack.Enc.fresh.reset ≠ DeltaPack.Enc.fresh ∧
    ((DeltaPack.Enc.fresh.addAll [7, 5]).bytes).1 ≠ ((DeltaPack.Enc.fresh.reset.addAll [7, 5]).bytes).1 := by
  decide +kernel

/-- the decoder's `Reset(buf)` overwrites every field it later reads -/
theorem delta_decoder_reset_ignores_state (d1 d2 : DeltaPack.Dec) (buf : List Nat) : d1.reset buf = d2.reset buf := by
  simp [DeltaPack.Dec.reset, Reader.setBuf, Reader.reset]

/-- stated guard: the empty sequence is encoded as "first value 0, no deltas" and decodes to ONE
spurious value 0 (callers never encode an empty sequence) -/
theorem delta_empty_guard :
    (DeltaPack.Enc.fresh.bytes).1 = [0, 0, 0, 0] ∧
    (DeltaPack.Dec.fresh [0, 0, 0, 0]).hasNext = true ∧
    (DeltaPack.Dec.nextN 1 (DeltaPack.Dec.fresh [0, 0, 0, 0])).1 = [0] := by
  decide +kernel

end Delta

/-! ## 7b. fault-then-reuse: Reset after ANY prior use, failed reads included -/

/-- operations on a TSD decoder object, as a reuse history -/
inductive DecOp
  | reset (data : List Nat)
  | resetRange (data : List Nat) (s e : Nat)
  | next | hasValue | value
  | hasValueWithSlot (s : Nat) | getValue (s : Nat) | seek (s : Nat)

def runDec : Dec → List DecOp → Dec
  | d, [] => d
  | d, .reset data :: ops => runDec (d.reset data) ops
  | d, .resetRange data s e :: ops => runDec (d.resetWithTimeRange data s e) ops
  | d, .next :: ops => runDec d.next.2 ops
  | d, .hasValue :: ops => runDec d.hasValue.2 ops
  | d, .value :: ops => runDec d.value.2 ops
  | d, .hasValueWithSlot s :: ops => runDec (d.hasValueWithSlot s).2 ops
  | d, .getValue s :: ops => runDec (d.getValue s).2 ops
  | d, .seek s :: ops => runDec (d.seek s).2 ops

/-- **reset_after_error_eq_fresh.** Whatever happened to the objects before — any history of calls,
on any (truncated, corrupt) inputs, including reads that failed and left the sticky errors of the bit
reader, the XOR decoder and the TSD decoder set — the state after `Reset` equals the fresh state on
every field the methods read. So a pooled decoder that hit a bad block decodes the next good block
exactly (`tsd_roundtrip` / `tsd_slot_read_agrees` take ANY decoder object `d0`). -/
theorem reset_after_error_eq_fresh (d0 : Dec) (history : List DecOp) (data : List Nat) (s e : Nat)
    (xd : Xor.Dec) (r : Reader) (h : 4 < data.length) :
    (runDec d0 history).reset data = Dec.fresh data ∧
    (runDec d0 history).resetWithTimeRange data s e = Dec.zero.resetWithTimeRange data s e ∧
    (xd.next r).2.1.reset = Xor.Dec.fresh ∧ xd.reset = Xor.Dec.fresh ∧
    (r.reset.err = false ∧ r.reset.count = 0 ∧ r.reset.b = 0) :=
  ⟨tsd_decoder_reset_eq_fresh _ data h, tsd_decoder_reset_range_eq_fresh _ data s e, rfl, rfl, rfl, rfl, rfl⟩

/-- **Reset on ANY byte string.** `ResetWithTimeRange(data, s, e)` has no guard: for every byte string,
the empty one included, and after every prior history of the object, the decoder is exactly what a zero
decoder armed with `data` is — nothing of the previous block (buffer, bit cursor, XOR state, slot index,
time range, errors) survives. `Reset(data)` likewise for every `data` longer than the 4 header bytes. -/
theorem tsd_reset_any_bytes_eq_fresh (d0 : Dec) (history : List DecOp) (data : List Nat) (s e : Nat) :
    (runDec d0 history).resetWithTimeRange data s e = Dec.zero.resetWithTimeRange data s e ∧
    (runDec d0 history).resetWithTimeRange [] s e = Dec.zero.resetWithTimeRange [] s e ∧
    (4 < data.length → (runDec d0 history).reset data = Dec.fresh data) :=
  ⟨tsd_decoder_reset_range_eq_fresh _ data s e, tsd_decoder_reset_range_eq_fresh _ [] s e,
   fun h => tsd_decoder_reset_eq_fresh _ data h⟩

/-- **The empty block.** Zero bytes (`BytesWithoutTime()` of a field without data points,
`WriteField(id, nil)`) given to ANY decoder object — in particular one whose previous block was only
half read — decode over any slot range to "no slot has a value": every slot-addressed read answers
`none` and the sequential loop yields nothing. -/
theorem tsd_empty_block_reads_nothing (d0 : Dec) (history : List DecOp) (s e : Nat) (qs : List Nat) (fuel : Nat) :
    (((runDec d0 history).resetWithTimeRange [] s e).getValues qs).1 = qs.map (fun _ => none) ∧
    (((runDec d0 history).resetWithTimeRange [] s e).readSeq fuel).1 = [] :=
  ⟨EmptyDec.getValues qs _ (Dec.resetWithTimeRange_empty _ s e), EmptyDec.readSeq fuel _ (Dec.resetWithTimeRange_empty _ s e)⟩

/-- non-vacuity: a decoder half way through a 3-value block, then the empty block over the same range -/
example : ∃ bytes, tsdEncodeNoTime 10 [some 3, some 4, some 5] = bytes ∧
    (((runDec ((Dec.zero).resetWithTimeRange bytes 10 12) [.getValue 10]).resetWithTimeRange [] 10 12).getValues
      [10, 11, 12]).1 = [none, none, none] :=
  ⟨_, rfl, (tsd_empty_block_reads_nothing _ [.getValue 10] 10 12 [10, 11, 12] 0).1⟩

/-- the error states are reachable: a dense block cut inside its first value drives all three layers
into their error state (this is the fault the harness injects before reuse) -/
example : let d := runDec (Dec.fresh [0, 0, 1, 0, 0xff, 0xff, 0xff]) [.getValue 0, .getValue 1, .value]
    d.err = true ∧ d.x.err = true ∧ d.r.err = true := by decide +kernel

/-- and after `Reset` on a good block that very object decodes it exactly -/
example : ∃ bytes, tsdEncode 7 [some 5, none, some 6] = some bytes ∧
    (((runDec (Dec.fresh [0, 0, 1, 0, 0xff, 0xff, 0xff]) [.getValue 0, .getValue 1, .value]).reset bytes).getValues
      (List.range' 7 3)).1 = [some 5, none, some 6] := by
  obtain ⟨bytes, h1, h2⟩ := tsd_slot_read_agrees 7 [some 5, none, some 6]
    (runDec (Dec.fresh [0, 0, 1, 0, 0xff, 0xff, 0xff]) [.getValue 0, .getValue 1, .value]) 7 3
    (by intro v hv; simp at hv; omega) (by simp) (by decide) (by decide) (by decide)
  exact ⟨bytes, h1, by rw [h2]; decide⟩

/-- **The first real block of an object that was used before it ever held one.** `decoderPool.New` /
`NewTSDDecoder(≤ 4 bytes)` create a decoder whose buffer, bit reader and XOR decoder are still nil. Any history on
it — `Next()` moving the slot cursor, `HasValue/Value/GetValue/Seek` answering from nil receivers, short blocks
rejected by `Reset` (error flag set) — and then the first real `Reset` / `ResetWithTimeRange`: the first-use
branch of the private `reset` clears cursor and error exactly as the re-arm branch does, so the block is decoded
as by a fresh decoder. -/
theorem tsd_first_real_block_after_unarmed_use (history : List DecOp) (data : List Nat) (s e : Nat) (h : 4 < data.length) :
    (runDec Dec.zero history).reset data = Dec.fresh data ∧
    ((runDec Dec.zero history).reset data).idx = 0 ∧ ((runDec Dec.zero history).reset data).err = false ∧
    (runDec Dec.zero history).resetWithTimeRange data s e = Dec.zero.resetWithTimeRange data s e ∧
    ((runDec Dec.zero history).resetWithTimeRange data s e).idx = 0 ∧
    ((runDec Dec.zero history).resetWithTimeRange data s e).err = false := by
  have h1 := tsd_decoder_reset_eq_fresh (runDec Dec.zero history) data h
  have h2 := tsd_decoder_reset_range_eq_fresh (runDec Dec.zero history) data s e
  have hn : ¬ data.length ≤ 4 := by omega
  refine ⟨h1, ?_, ?_, h2, ?_, ?_⟩
  · rw [h1]; simp [Dec.fresh, h, Dec.reset, hn, Dec.reset']
  · rw [h1]; simp [Dec.fresh, h, Dec.reset, hn, Dec.reset']
  · rw [h2]; simp [Dec.resetWithTimeRange, Dec.reset']
  · rw [h2]; simp [Dec.resetWithTimeRange, Dec.reset']

/-- non-vacuity: such histories do leave the un-armed object with a moved cursor and a pending error -/
example : let d := runDec Dec.zero [.next, .hasValue, .value, .reset [1, 2]]
    d.inited = false ∧ d.idx = 1 ∧ d.err = true := by decide

/-- TIE: in the source, `TSDDecoder.reset` clears `idx` and `err` AFTER the if/else, i.e. on the first-use path
as well as on the re-arm path; no branch returns early -/
theorem tsd_decoder_private_reset_shape_expected :
    Generated.C14.tsdDecoderPrivateResetShape = ["if{", "set:buf", "set:reader", "set:values", "}else{",
      "call:values.Reset", "call:buf.SetBuf", "}", "set:idx", "set:err"] := rfl

/-! ## 7c. malformed input: the error branches of the decoders -/

/-- XOR decoder: once an error is recorded, `Next()` is `false` and nothing moves until `Reset` -/
theorem xor_error_is_sticky (d : Xor.Dec) (r : Reader) (h : d.err = true) : d.next r = (false, d, r) := by
  simp [Xor.Dec.next, h]

/-- bit reader at the end of the buffer (no partial byte left): `ReadBit` / `ReadByte` report the error -/
theorem bitreader_eof (r : Reader) (hc : r.count = 0) (he : r.buf.length ≤ r.idx) :
    r.readBit.2.1 = true ∧ r.readByte.2.1 = true ∧ (r.readBits 1).1 = none ∧ (r.readBits 8).1 = none := by
  have hg : r.buf[r.idx]? = none := List.getElem?_eq_none he
  have h1 : r.readBit.2.1 = true := by simp [Reader.readBit, Reader.getByte, hc, hg]
  have h2 : r.readByte.2.1 = true := by simp [Reader.readByte, Reader.getByte, hc, hg]
  have e1 : r.readBit = (r.readBit.1, true, r.readBit.2.2) := by rw [← h1]
  have e2 : r.readByte = (r.readByte.1, true, r.readByte.2.2) := by rw [← h2]
  refine ⟨h1, h2, ?_, ?_⟩
  · show (match r.readBytesAcc 0 0 with
      | (none, r1) => (none, r1)
      | (some u, r1) => r1.readBitsAcc u 1).1 = none
    simp only [Reader.readBytesAcc, Reader.readBitsAcc]
    rw [e1]; rfl
  · show (match r.readBytesAcc 0 1 with
      | (none, r1) => (none, r1)
      | (some u, r1) => r1.readBitsAcc u 0).1 = none
    simp only [Reader.readBytesAcc]
    rw [e2]; rfl

/-- TSD decoder on an exhausted block: `HasValue` is `false` and records the error; an object that was
never reset (pool's zero value) answers `false` / `0` without touching anything -/
theorem tsd_decoder_error_branches (d : Dec) :
    (d.inited = true → d.r.count = 0 → d.r.buf.length ≤ d.r.idx → d.hasValue.1 = false ∧ d.hasValue.2.err = true) ∧
    (d.inited = false → d.hasValue = (false, d) ∧ d.value = (0, d)) := by
  constructor
  · intro hi hc he
    have hg : d.r.buf[d.r.idx]? = none := List.getElem?_eq_none he
    simp [Dec.hasValue, hi, Reader.readBit, Reader.getByte, hc, hg]
  · intro hi
    simp [Dec.hasValue, Dec.value, hi]

/-- fixed-offset decoder: `Unmarshal` rejects short input and widths above 4; whatever it accepted,
`Get` only ever answers from inside the offsets block and `GetBlock` only ever returns a slice of
the data block -/
theorem fixedoffset_error_branches (d0 d : FixedOffset.Dec) (data : List Nat) :
    (data.length < 2 → (d0.unmarshal data).1 = .error .tooShort) ∧
    (2 ≤ data.length → data.getD 0 0 > 4 → (d0.unmarshal data).1 = .error .badWidth) ∧
    (∀ i v, d.get i = some v → 0 ≤ i * d.width ∧ i * d.width + d.width ≤ d.block.length ∧ d.width ≤ 4) ∧
    (∀ i blk, d.getBlock i data = .ok blk → blk.length ≤ data.length) := by
  refine ⟨?_, ?_, ?_, ?_⟩
  · intro h; simp [FixedOffset.Dec.unmarshal, h]
  · intro h1 h2
    have h1' : ¬ data.length < 2 := by omega
    have h4 : (4 : Int) < ((data[0]?.getD 0 : Nat) : Int) := by
      have : data.getD 0 0 = data[0]?.getD 0 := by simp [List.getD]
      omega
    simp [FixedOffset.Dec.unmarshal, h1', h4]
  · intro i v h
    unfold FixedOffset.Dec.get at h
    simp only at h
    split at h
    · exact absurd h (by simp)
    · rename_i hc
      split at h
      · exact absurd h (by simp)
      · rename_i hc2
        omega
  · intro i blk h
    unfold FixedOffset.Dec.getBlock at h
    split at h
    · exact absurd h (by simp)
    · simp only at h
      split at h
      · exact absurd h (by simp)
      · injection h with h
        rw [← h]
        simp only [List.length_drop, List.length_take]
        omega

/-- delta decoder: a non-positive announced count yields nothing -/
theorem delta_hasNext_false (d : DeltaPack.Dec) (h : d.pos ≤ 0) : d.hasNext = false := by
  simp [DeltaPack.Dec.hasNext]; omega

/-- lindb's `readUvarint`: empty input is EOF, an 11-byte run is an overflow (value so far returned) -/
theorem uvarint_error_branches :
    readUvarint [] = (0, [], .eof) ∧
    (readUvarint [255, 255, 255, 255, 255, 255, 255, 255, 255, 255, 1]).2.2 = .overflow ∧
    (readUvarint [255, 255, 255, 255, 255, 255, 255, 255, 255, 2]).2.2 = .overflow ∧
    (readUvarint [255, 255]).2.2 = .eof := by decide +kernel

/-! ## 7d. pkg/stream reader / writer and the multi-field TSD stream -/

section StreamCodec
open LinVerif.Stream

/-- fixed-width little-endian and varint fields written by `BufferWriter` are read back by `Reader`,
whatever follows in the buffer -/
theorem stream_roundtrip (orig rest : List Nat) (a b c u : Nat) (i : Int)
    (ha : a < 2 ^ 16) (hb : b < 2 ^ 32) (hc : c < 2 ^ 64) (hu : u < 2 ^ 64) (hi : -(2 ^ 63 : Int) ≤ i ∧ i < 2 ^ 63) :
    (⟨orig, Stream.le16 a ++ rest, .none⟩ : Stream.Reader).readUintN 2 = (a, ⟨orig, rest, .none⟩) ∧
    (⟨orig, le32 b ++ rest, .none⟩ : Stream.Reader).readUintN 4 = (b, ⟨orig, rest, .none⟩) ∧
    (⟨orig, le64 c ++ rest, .none⟩ : Stream.Reader).readUintN 8 = (c, ⟨orig, rest, .none⟩) ∧
    (⟨orig, putUvarint u ++ rest, .none⟩ : Stream.Reader).readUvarint64 = (u, ⟨orig, rest, .none⟩) ∧
    (⟨orig, putVarint i ++ rest, .none⟩ : Stream.Reader).readVarint64 = (i, ⟨orig, rest, .none⟩) :=
  ⟨readUint16_put orig rest a (by simpa using ha), readUint32_put orig rest b (by simpa using hb),
   readUint64_put orig rest c (by simpa using hc), readUvarint64_put orig rest u (by simpa [two64] using hu),
   readVarint64_put orig rest i (by simpa [two63] using hi.1) (by simpa [two63] using hi.2)⟩

/-- stated guards of `ReadSlice`: a negative length is refused, a length past the end returns what is
left and records EOF, and nothing is returned while an error is pending -/
theorem stream_readSlice_guards (r : Stream.Reader) (n : Int) :
    (n < 0 → (r.readSlice n).1 = [] ∧ (r.readSlice n).2.err = .unexpected) ∧
    (0 ≤ n → r.err = .none → n.toNat > r.rem.length → (r.readSlice n).1 = r.rem ∧ (r.readSlice n).2.err = .eof) ∧
    (0 ≤ n → r.err ≠ .none → r.readSlice n = ([], r)) := by
  refine ⟨?_, ?_, ?_⟩
  · intro h; simp [Stream.Reader.readSlice, h]
  · intro h0 he hn
    have : ¬ n < 0 := by omega
    simp [Stream.Reader.readSlice, this, he, hn]
  · intro h0 he
    have : ¬ n < 0 := by omega
    simp [Stream.Reader.readSlice, this, he]

/-- **tsd_stream_roundtrip.** `NewTSDStreamWriter(s, e)`, any number of `WriteField(id, data)`, then
`NewTSDStreamReader` with whatever decoder the pool hands out: the time range comes back, the
`HasNext/Next` loop yields exactly the written `(id, data)` pairs in order and then stops, and
after each `Next` the shared field decoder is in the state `ResetWithTimeRange(data, s, e)` gives a
zero decoder — so each field is then read as in `tsd_roundtrip_without_time`. -/
theorem tsd_stream_roundtrip (s e : Nat) (fs : List Stream.Field) (pooled : Dec) (fuel : Nat)
    (hs : s < 2 ^ 16) (he : e < 2 ^ 16) (hok : ∀ f ∈ fs, f.1 < 2 ^ 16 ∧ f.2.length < 2 ^ 32) (hf : fs.length < fuel) :
    let sr := TsdStreamReader.new (writeFields (tsdStreamNew s e) fs).buf pooled
    sr.startTime = s ∧ sr.endTime = e ∧
    (TsdStreamReader.readAll fuel sr).1.map (fun x => (x.1, x.2.1)) = fs ∧
    ∀ i (h : i < fs.length) (h2 : i < (TsdStreamReader.readAll fuel sr).1.length),
      ((TsdStreamReader.readAll fuel sr).1[i]).2.2 = Dec.zero.resetWithTimeRange fs[i].2 s e := by
  have hok' : ∀ f ∈ fs, fieldOk f := fun f hf => by
    have := hok f hf
    exact ⟨by simpa using this.1, by simpa using this.2⟩
  have hbuf : (writeFields (tsdStreamNew s e) fs).buf = Stream.le16 s ++ (Stream.le16 e ++ fs.flatMap encodeField) := by
    rw [writeFields_buf]
    simp [tsdStreamNew, Stream.Writer.putUint16, Stream.Writer.fresh, List.append_assoc]
  have hnew : TsdStreamReader.new (writeFields (tsdStreamNew s e) fs).buf pooled
      = ⟨⟨(writeFields (tsdStreamNew s e) fs).buf, fs.flatMap encodeField, .none⟩, s, e, pooled⟩ := by
    unfold TsdStreamReader.new
    rw [hbuf, Stream.Reader.fresh, readUint16_put _ _ s (by simpa using hs)]
    simp only
    rw [readUint16_put _ _ e (by simpa using he)]
  intro sr
  have hsr : sr = ⟨⟨(writeFields (tsdStreamNew s e) fs).buf, fs.flatMap encodeField, .none⟩, s, e, pooled⟩ := hnew
  rw [hsr]
  obtain ⟨decs, h1, h2, h3, h4⟩ := readAll_spec fs (writeFields (tsdStreamNew s e) fs).buf s e pooled fuel hok' hf
  refine ⟨rfl, rfl, h1, ?_⟩
  intro i hi hi2
  have hi3 : i < decs.length := by omega
  obtain ⟨d0, hd0⟩ := h4 i hi hi3
  have : ((TsdStreamReader.readAll fuel ⟨⟨(writeFields (tsdStreamNew s e) fs).buf, fs.flatMap encodeField, .none⟩, s, e, pooled⟩).1[i]).2.2
      = decs[i] := by
    have := congrArg (fun l => l[i]?) h2
    simp only [List.getElem?_map] at this
    rw [List.getElem?_eq_getElem hi2, List.getElem?_eq_getElem hi3] at this
    simpa using this
  rw [this, hd0]
  exact tsd_decoder_reset_range_eq_fresh d0 _ s e

end StreamCodec

/-! ## 7g. the rest of pkg/stream (signed fixed-width fields, put sequences, SliceWriter, SeekStart) and the
exported helpers `DecodeTSDTime`, `ByteSlice2Uint32` -/

section StreamExt
open LinVerif.Stream

/-- **Any sequence of puts reads back.** Every list of `PutByte/PutBytes/PutUInt16/PutUint32/PutUint64/
PutInt16/PutInt32/PutInt64/PutUvarint64/PutVarint64` (values representable in the Go types) written by one
`BufferWriter`, whatever follows in the buffer: the reads of the same shapes return the values in order, without
error, and leave exactly what followed. -/
theorem stream_put_sequence_roundtrip (ps : List Put) (rest : List Nat) (hok : ∀ p ∈ ps, p.ok) :
    (Stream.Reader.fresh ((ps.foldl Stream.Writer.put Stream.Writer.fresh).buf ++ rest)).readAllLike ps
      = (ps, ⟨(ps.foldl Stream.Writer.put Stream.Writer.fresh).buf ++ rest, rest, .none⟩) := by
  have hb : (ps.foldl Stream.Writer.put Stream.Writer.fresh).buf = ps.flatMap Put.enc := by
    rw [puts_buf]; simp [Stream.Writer.fresh]
  rw [hb]
  exact readAllLike_puts _ ps rest hok

/-- two's complement fixed-width fields: every `int16`, `int32`, `int64` -/
theorem stream_signed_fixed_roundtrip (orig rest : List Nat) (a b c : Int)
    (ha : -(2 ^ 15 : Int) ≤ a ∧ a < 2 ^ 15) (hb : -(2 ^ 31 : Int) ≤ b ∧ b < 2 ^ 31) (hc : -(2 ^ 63 : Int) ≤ c ∧ c < 2 ^ 63) :
    (⟨orig, (Stream.Writer.fresh.putInt16 a).buf ++ rest, .none⟩ : Stream.Reader).readInt16 = (a, ⟨orig, rest, .none⟩) ∧
    (⟨orig, (Stream.Writer.fresh.putInt32 b).buf ++ rest, .none⟩ : Stream.Reader).readInt32 = (b, ⟨orig, rest, .none⟩) ∧
    (⟨orig, (Stream.Writer.fresh.putInt64 c).buf ++ rest, .none⟩ : Stream.Reader).readInt64 = (c, ⟨orig, rest, .none⟩) := by
  have h1 := readLike_put orig rest (.i16 a) (by simpa [Put.ok] using ha)
  have h2 := readLike_put orig rest (.i32 b) (by simpa [Put.ok, two31] using hb)
  have h3 := readLike_put orig rest (.i64 c) (by simpa [Put.ok, two63] using hc)
  simp only [Stream.Reader.readLike, Put.enc, Prod.mk.injEq, Put.i16.injEq, Put.i32.injEq, Put.i64.injEq] at h1 h2 h3
  refine ⟨?_, ?_, ?_⟩
  · exact Prod.ext h1.1 h1.2
  · exact Prod.ext h2.1 h2.2
  · exact Prod.ext h3.1 h3.2

/-- **SliceWriter.** After any list of puts: `Bytes()` is everything that was put, `Error()` is non-nil exactly
when more than `len(buffer)` bytes were put, and as long as it is nil the caller's array holds the puts in
front of its old tail (same length). -/
theorem slicewriter_error_iff_overflow (maxLen : Nat) (ps : List Put) (init : List Nat) (hinit : init.length = maxLen) :
    ((SliceWriter.new maxLen).puts ps).w.buf = ps.flatMap Put.enc ∧
    (((SliceWriter.new maxLen).puts ps).error = true ↔ (ps.flatMap Put.enc).length > maxLen) ∧
    (((SliceWriter.new maxLen).puts ps).error = false → ∃ arr, ((SliceWriter.new maxLen).puts ps).backing init = some arr ∧
      arr.length = maxLen ∧ arr.take (ps.flatMap Put.enc).length = ps.flatMap Put.enc) := by
  have hb : ((SliceWriter.new maxLen).puts ps).w.buf = ps.flatMap Put.enc := by
    simp [SliceWriter.puts, SliceWriter.new, puts_buf, Stream.Writer.fresh]
  have hm : ((SliceWriter.new maxLen).puts ps).maxLen = maxLen := rfl
  refine ⟨hb, ?_, ?_⟩
  · simp [SliceWriter.error, hb, hm]
  · intro he
    have hle : (ps.flatMap Put.enc).length ≤ maxLen := by
      simpa [SliceWriter.error, hb, hm] using he
    refine ⟨ps.flatMap Put.enc ++ init.drop (ps.flatMap Put.enc).length, ?_, ?_, ?_⟩
    · simp [SliceWriter.backing, he, hb]
    · simp only [List.length_append, List.length_drop, hinit]; omega
    · simp

/-- `SeekStart()` from ANY reader state (pending error, exhausted, mid-buffer) is the freshly armed reader -/
theorem stream_seek_start_eq_fresh (r : Stream.Reader) : r.seekStart = Stream.Reader.fresh r.orig :=
  seekStart_eq r

/-- `DecodeTSDTime(enc.Bytes())` is the encoder's slot range `[start, start+count-1]` -/
theorem tsd_decode_time_of_bytes (e : Tsd.Enc) (bs : List Nat) (hs : e.startTime < 65536)
    (h : e.bytes.1 = some bs) :
    Tsd.decodeTSDTime bs = some (e.startTime, Tsd.u16 (e.startTime + e.count + 65535)) := by
  unfold Tsd.Enc.bytes at h
  simp only at h
  split at h
  · cases h
  · simp only [Option.some.injEq] at h
    subst h
    have hlen : ¬ (Tsd.le16 e.startTime ++ Tsd.le16 (Tsd.u16 (e.startTime + e.count + 65535)) ++ e.w.flush.out).length < 4 := by
      simp [Tsd.le16]
    rw [Tsd.decodeTSDTime, if_neg hlen, List.append_assoc, Tsd.rd16_le16_0 _ _ hs,
      Tsd.rd16_le16_2 _ _ _ (by unfold Tsd.u16; omega)]

/-- `DecodeTSDTime` panics on fewer than four bytes (stated guard) -/
theorem tsd_decode_time_guard (bs : List Nat) (h : bs.length < 4) : Tsd.decodeTSDTime bs = none := by
  simp [Tsd.decodeTSDTime, h]

/-- `ByteSlice2Uint32` inverts the `width`-byte little-endian cells of the fixed-offset table -/
theorem byteslice2uint32_roundtrip (w v : Nat) (hw : 1 ≤ w ∧ w ≤ 4) (hv : v < 256 ^ w) :
    FixedOffset.byteSlice2Uint32 (FixedOffset.leBytes w v) = v :=
  FixedOffset.byteSlice2Uint32_leBytes w v hw hv

/-- **`FixedOffsetEncoder.Write(writer)` and a failing writer.** The `writer.Write` calls, concatenated, are
`MarshalBinary()`; against a writer that fails its `k`-th call `Write` reports the error exactly when that call
is reached, and what the writer took until then is the first `k` chunks (a prefix of the table, never more) —
no error is swallowed, nothing is written after a failure. -/
theorem fixedoffset_write_error_paths (e : FixedOffset.Enc) (k : Nat) :
    e.chunks.flatten = e.marshal ∧
    ((e.writeTo k).2 = true ↔ k < e.chunks.length) ∧
    (e.writeTo k).1 = e.chunks.take k ∧
    (e.chunks.length ≤ k → ((e.writeTo k).1).flatten = e.marshal ∧ (e.writeTo k).2 = false) := by
  refine ⟨FixedOffset.chunks_flatten e, by simp [FixedOffset.Enc.writeTo], rfl, ?_⟩
  intro h
  refine ⟨?_, by simp [FixedOffset.Enc.writeTo]; omega⟩
  simp only [FixedOffset.Enc.writeTo, List.take_of_length_le h, FixedOffset.chunks_flatten]

example : ((Stream.Reader.fresh ((([Put.i16 (-2), .bytes [7, 8], .sv (-300), .u64 5, .i64 (-1)]).foldl Stream.Writer.put
    Stream.Writer.fresh).buf)).readAllLike [Put.i16 0, .bytes [0, 0], .sv 0, .u64 0, .i64 0]).1
    = [Put.i16 (-2), .bytes [7, 8], .sv (-300), .u64 5, .i64 (-1)] := by decide

end StreamExt

/-! ## 7f. aborted use, decode-into-any-target, width of the delta codec, views of internal buffers -/

/-- **Reset from ANY prior writer state.** Whatever was written before — also when the use was aborted with
1–7 unflushed bits pending and `Flush`/`Bytes()` never called — `bit.Writer.Reset` gives the fresh writer,
`TSDEncoder.Reset` re-arms bit writer, bit buffer and XOR encoder, and `RestWithStartTime` (the pool path)
gives exactly `NewTSDEncoder(s)`. `ops` is not restricted to valid calls. -/
theorem writer_reset_from_any_state_eq_fresh (w : Writer) (ops : List BitOp) (e : Enc) (slots : Slots) (s : Nat) :
    (runWriter w ops).reset [] = Writer.fresh ∧
    ((e.appendAll slots).reset.w = Writer.fresh ∧ (e.appendAll slots).reset.values = Xor.Enc.fresh) ∧
    (e.appendAll slots).resetWithStartTime s = Enc.fresh s := ⟨rfl, ⟨rfl, rfl⟩, rfl⟩

/-- non-vacuity: an aborted use really leaves a partial byte behind (3 bits pending, current byte 0xa0) -/
example : (runWriter Writer.fresh [.bit true, .bit false, .bit true]).count = 5 ∧
    (runWriter Writer.fresh [.bit true, .bit false, .bit true]).cur = 160 ∧
    ((Enc.fresh 7).appendAll [some 1, some 2, some 3]).w.count ≠ 8 := by decide +kernel

/-- `Flush` does not re-arm the writer (that is `Reset`'s job): pending byte and bit position stay -/
theorem flush_keeps_writer_state (w : Writer) : w.flush.cur = w.cur ∧ w.flush.count = w.count := by
  unfold Writer.flush; split <;> exact ⟨rfl, rfl⟩

/-- **decode_into_any_target = decode_into_fresh.** For every decoder in scope the result of arming it
with a byte string does not depend on what the target object held before: fixed-offset `Unmarshal`,
delta `Reset`, TSD `ResetWithTimeRange` (any bytes) and `Reset` (more than the header), XOR decoder
`Reset` + bit reader re-pointing. The roaring bitmap (`FromBuffer` into a reused bitmap, including the
empty bitmap) is an external library: see `external_decode_into_any_target` (contract) — exercised on
the real library by the harness with reused, non-empty targets and the empty bitmap. -/
theorem decode_into_any_target_eq_fresh (data : List Nat) (s e : Nat)
    (f1 f2 : FixedOffset.Dec) (p1 p2 : DeltaPack.Dec) (t1 t2 : Dec) (x1 : Xor.Dec) (r1 : Reader) :
    f1.unmarshal data = f2.unmarshal data ∧
    p1.reset data = p2.reset data ∧
    t1.resetWithTimeRange data s e = t2.resetWithTimeRange data s e ∧
    (4 < data.length → t1.reset data = t2.reset data) ∧
    x1.reset = Xor.Dec.fresh ∧ (r1.setBuf data).reset = Reader.fresh data := by
  refine ⟨rfl, delta_decoder_reset_ignores_state p1 p2 data, ?_, ?_, rfl, rfl⟩
  · rw [tsd_decoder_reset_range_eq_fresh t1, tsd_decoder_reset_range_eq_fresh t2]
  · intro h; rw [tsd_decoder_reset_eq_fresh t1 data h, tsd_decoder_reset_eq_fresh t2 data h]

/-- contract of an external codec that decodes INTO an existing target (roaring `FromBuffer`) -/
structure ExternalCodecInto (α : Type) where
  encode : α → List Nat
  decodeInto : α → List Nat → Option α
  roundtrip : ∀ target x, decodeInto target (encode x) = some x

theorem external_decode_into_any_target {α : Type} (c : ExternalCodecInto α) (t1 t2 x : α) :
    c.decodeInto t1 (c.encode x) = c.decodeInto t2 (c.encode x) := by
  rw [c.roundtrip, c.roundtrip]

example : ExternalCodecInto (List Nat) := { encode := id, decodeInto := fun _ b => some b, roundtrip := fun _ _ => rfl }

/-- **Width of the delta codec.** For every list of deltas, in any order of its extremes, and every
`minDelta` the encoder may hold, the common bit width computed in `Bytes()` covers `uint32(delta − minDelta)`
of ALL deltas and is at most 32 (`delta_roundtrip` — every `int32` list, sorted or not — rests on this). -/
theorem delta_width_covers_all_deltas (m : Int) (ds : List Int) :
    DeltaPack.widthOf (DeltaPack.maxDD m ds) ≤ 32 ∧
    ∀ d ∈ ds, toU32 (d - m) < 2 ^ DeltaPack.widthOf (DeltaPack.maxDD m ds) := by
  obtain ⟨_, hlt, hge⟩ := DeltaPack.maxDD_spec m ds 0 (by omega)
  rw [← DeltaPack.maxDD_eq] at hlt hge
  obtain ⟨hfit, h32⟩ := DeltaPack.lt_pow_widthOf _ hlt
  exact ⟨h32, fun d hd => Nat.lt_of_le_of_lt (hge d hd) hfit⟩

/-- largest delta first, smallest delta first, one delta only: all round trip -/
example : ∀ vs ∈ [[100, 0, 90, 95], [0, 100, 99, 98, 200], [7, -2147483648], [-5, 5]],
    ∃ v0 rest, vs = v0 :: rest ∧ ∃ d', DeltaPack.Dec.nextN (rest.length + 1)
      ((DeltaPack.Dec.fresh []).reset ((DeltaPack.Enc.fresh.addAll (v0 :: rest)).bytes).1) = (v0 :: rest, d') := by
  intro vs hvs
  simp only [List.mem_cons, List.mem_nil_iff, or_false] at hvs
  rcases hvs with rfl | rfl | rfl | rfl
  · exact ⟨_, _, rfl, (delta_roundtrip DeltaPack.Enc.fresh _ 100 [0, 90, 95] DeltaPack.Enc.fresh_clean (by omega)
      (by intro v hv; simp at hv; omega) (by decide)).2.imp fun _ h => h.1⟩
  · exact ⟨_, _, rfl, (delta_roundtrip DeltaPack.Enc.fresh _ 0 [100, 99, 98, 200] DeltaPack.Enc.fresh_clean (by omega)
      (by intro v hv; simp at hv; omega) (by decide)).2.imp fun _ h => h.1⟩
  · exact ⟨_, _, rfl, (delta_roundtrip DeltaPack.Enc.fresh _ 7 [-2147483648] DeltaPack.Enc.fresh_clean (by omega)
      (by intro v hv; simp at hv; omega) (by decide)).2.imp fun _ h => h.1⟩
  · exact ⟨_, _, rfl, (delta_roundtrip DeltaPack.Enc.fresh _ (-5) [5] DeltaPack.Enc.fresh_clean (by omega)
      (by intro v hv; simp at hv; omega) (by decide)).2.imp fun _ h => h.1⟩

/-- **Views of internal buffers.** `Bytes()` / `BytesWithoutTime()` / `BufferWriter.Bytes()` return a view of
an internal `bytes.Buffer`. A view equals a copy as long as no byte that was already handed to the
buffer is rewritten: the bit writer only ever appends to its output, whatever is written next, so what was
returned stays unchanged until the buffer is `Reset` (checked on the implementation after further writes,
oracle key `bytes-result-changed-by-later-writes`). -/
theorem bitwriter_never_rewrites_output : ∀ (ops : List BitOp) (w : Writer),
    ∃ t, (runWriter w ops).out = w.out ++ t ∧ ∃ t', (runWriter w ops).flush.out = w.out ++ t' := by
  intro ops
  induction ops with
  | nil =>
    intro w
    obtain ⟨t', h'⟩ := DeltaPack.flush_out w
    exact ⟨[], by simp [runWriter], t', h'⟩
  | cons o ops ih =>
    intro w
    cases o with
    | bit b =>
      obtain ⟨t1, h1⟩ := DeltaPack.writeBit_out w b
      obtain ⟨t2, h2, t3, h3⟩ := ih (w.writeBit b)
      exact ⟨t1 ++ t2, by rw [runWriter, h2, h1, List.append_assoc], t1 ++ t3, by rw [runWriter, h3, h1, List.append_assoc]⟩
    | bits u n =>
      obtain ⟨t1, h1⟩ := DeltaPack.writeBits_out w u n
      obtain ⟨t2, h2, t3, h3⟩ := ih (w.writeBits u n)
      exact ⟨t1 ++ t2, by rw [runWriter, h2, h1, List.append_assoc], t1 ++ t3, by rw [runWriter, h3, h1, List.append_assoc]⟩
    | byte b =>
      obtain ⟨t1, h1⟩ := DeltaPack.writeByte_out w b
      obtain ⟨t2, h2, t3, h3⟩ := ih (w.writeByte b)
      exact ⟨t1 ++ t2, by rw [runWriter, h2, h1, List.append_assoc], t1 ++ t3, by rw [runWriter, h3, h1, List.append_assoc]⟩

/-- the same one level up: appending further slots to a TSD encoder leaves everything its bit buffer
already holds in place (`BytesWithoutTime()` taken earlier is a prefix-stable view) -/
theorem tsd_bit_buffer_append_only (e : Enc) (slot : Option Nat) : ∃ t, (e.appendSlot slot).w.out = e.w.out ++ t := by
  have tr : ∀ {a b c : Writer}, (∃ t, b.out = a.out ++ t) → (∃ t, c.out = b.out ++ t) → ∃ t, c.out = a.out ++ t := by
    intro a b c ⟨t1, h1⟩ ⟨t2, h2⟩
    exact ⟨t1 ++ t2, by rw [h2, h1, List.append_assoc]⟩
  cases slot with
  | none => exact DeltaPack.writeBit_out e.w false
  | some v =>
    have h1 := DeltaPack.writeBit_out e.w true
    simp only [Enc.appendSlot, Enc.appendValue, Enc.appendTime]
    unfold Xor.Enc.write
    dsimp only
    split
    · exact tr h1 (DeltaPack.writeBits_out _ _ _)
    · split
      · exact tr h1 (DeltaPack.writeBit_out _ _)
      · split
        · exact tr (tr (tr h1 (DeltaPack.writeBit_out _ _)) (DeltaPack.writeBit_out _ _)) (DeltaPack.writeBits_out _ _ _)
        · exact tr (tr (tr (tr (tr h1 (DeltaPack.writeBit_out _ _)) (DeltaPack.writeBit_out _ _))
            (DeltaPack.writeBits_out _ _ _)) (DeltaPack.writeBits_out _ _ _)) (DeltaPack.writeBits_out _ _ _)

/-! ## 7e. the pools: no object is handed to two holders -/

section Pools
open LinVerif.Pool

/-- **pool_no_double_put.** lindb's three codec pools (`encoderPool`, `decoderPool`,
`fixedOffsetDecoderPool`) modelled as a multiset with `Get`/`Put`: for every history of acquisitions and
releases in which only the holder of an object releases it (so at most once per acquisition), the
invariant "an object is in the pool at most once and never while it is in use" holds, and therefore two
acquisitions without a release in between return two different objects — what the reset-equals-fresh
theorems need in order to apply to each holder separately. -/
theorem pool_no_double_put (ops : List Pool.Op) (h : Disciplined State.init ops) :
    Inv (run State.init ops) ∧ (run State.init ops).get.1 ≠ (run State.init ops).get.2.get.1 :=
  ⟨run_inv ops _ init_inv h, two_gets_distinct _ (run_inv ops _ init_inv h)⟩

/-- the call structure provides that discipline for the TSD stream reader: over one lifetime
(`NewTSDStreamReader`, any number of `TimeRange/HasNext/Next`, one `Close`) the regenerated call orders
contain exactly one `GetTSDDecoder` and exactly one `ReleaseTSDDecoder` (in `Close`, nowhere else) -/
theorem stream_reader_releases_once : readerLifetimeAcquires = 1 ∧ readerLifetimeReleases = 1 := by decide

/-- hence a reader lifetime started in any consistent pool state is a disciplined trace -/
theorem stream_reader_lifetime_disciplined (s : State) (h : Inv s) :
    Disciplined s (.acquire :: List.replicate readerLifetimeReleases (.release s.get.1)) := by
  rw [stream_reader_releases_once.2]
  exact ⟨(get_inv s h).2.1, trivial⟩

namespace Neg
/-- what a second `Put` of the same object does (a reader whose `HasNext` AND `Close` both release):
the next two holders are handed the same object -/
theorem pool_double_put_aliases :
    (run State.init [.acquire, .release 0, .release 0]).get.1
      = (run State.init [.acquire, .release 0, .release 0]).get.2.get.1 ∧
    ¬ Disciplined State.init [.acquire, .release 0, .release 0] := by
  refine ⟨by decide, ?_⟩
  intro h
  have h2 : (0 : Nat) ∈ (State.init.get.2.put 0).held := h.2.1
  revert h2
  decide
end Neg

end Pools

/-! ## non-vacuity: the hypotheses are satisfiable by non-trivial inputs -/

/-- a NaN with payload, an empty slot, -0.0, a subnormal: block starting at slot 65000 -/
example : ∃ bytes, tsdEncode 65000 [some 0x7FF8000000000123, none, some 0x8000000000000000, some 1] = some bytes ∧
    ∀ fuel, 4 < fuel → ((Dec.zero.reset bytes).readSeq fuel).1
      = [(65000, 0x7FF8000000000123), (65002, 0x8000000000000000), (65003, 1)] := by
  obtain ⟨bytes, h1, _, _, h4⟩ := tsd_roundtrip 65000 [some 0x7FF8000000000123, none, some 0x8000000000000000, some 1]
    Dec.zero (by intro v hv; simp at hv; omega) (by simp) (by decide)
  exact ⟨bytes, h1, fun fuel hf => by simpa [expected] using h4 fuel (by simpa using hf)⟩

example : (Xor.Dec.nextN 3 Xor.Dec.fresh
    (Reader.fresh (Xor.Enc.fresh.writeAll Writer.fresh [0x7FF0000000000001, 0, 0xFFFFFFFFFFFFFFFF]).2.flush.out)).1
      = [(true, 0x7FF0000000000001), (true, 0), (true, 0xFFFFFFFFFFFFFFFF)] :=
  xor_roundtrip [0x7FF0000000000001, 0, 0xFFFFFFFFFFFFFFFF] (by intro v hv; simp at hv; omega)

example : ∃ d, FixedOffset.Dec.fresh.unmarshal ((FixedOffset.encOf true [0, 70000, 4294967295]).marshal ++ [9, 9])
    = (.ok [9, 9], d) ∧ d.get 2 = some 4294967295 := by
  obtain ⟨d, h1, _, h3, _⟩ := fixedoffset_roundtrip true [0, 70000, 4294967295] [9, 9] FixedOffset.Dec.fresh
    (by simp) (by intro v hv; simp at hv; omega) (by decide)
  exact ⟨d, h1, by simpa using h3 2 (by decide)⟩

/-- deltas that overflow int32: MinInt32, MaxInt32, MinInt32 -/
example : ∃ d', DeltaPack.Dec.nextN 3 ((DeltaPack.Dec.fresh []).reset
      ((DeltaPack.Enc.fresh.addAll [-2147483648, 2147483647, -2147483648]).bytes).1)
    = ([-2147483648, 2147483647, -2147483648], d') ∧ d'.hasNext = false :=
  (delta_roundtrip DeltaPack.Enc.fresh (DeltaPack.Dec.fresh []) (-2147483648) [2147483647, -2147483648]
    DeltaPack.Enc.fresh_clean (by omega) (by intro v hv; simp at hv; omega) (by decide)).2

/-! ## 8. external codecs -/

/-- roaring bitmap (`MarshalBinary` / `FromBuffer`) and snappy (`Writer` / `Reader`): external
libraries, modelled by their contract only. The harness exercises the contract on the real
libraries (case kind `external`). -/
structure ExternalCodec (α : Type) where
  encode : α → List Nat
  decode : List Nat → Option α
  roundtrip : ∀ x, decode (encode x) = some x

/-- losslessness of a block that embeds an externally encoded part is inherited from the contract -/
theorem external_roundtrip {α : Type} (c : ExternalCodec α) (x : α) : c.decode (c.encode x) = some x :=
  c.roundtrip x

example : ExternalCodec (List Nat) := { encode := id, decode := some, roundtrip := fun _ => rfl }

/-! ## 9. ties to the regenerated facts -/

theorem firstValueLen_tie : Xor.firstValueLen = Generated.C14.firstValueLen := rfl
theorem blockSizeAdjustment_tie : Xor.blockSizeAdjustment = Generated.C14.blockSizeAdjustment := rfl

theorem uint32MinWidth_tie (v : Nat) :
    FixedOffset.uint32MinWidth v = tableWidth Generated.C14.uint32MinWidthTable Generated.C14.uint32MinWidthDefault v := by
  simp [FixedOffset.uint32MinWidth, tableWidth, Generated.C14.uint32MinWidthTable, Generated.C14.uint32MinWidthDefault]

/-- the zig-zag formulas as written in encoding.go (shifts, xor, conversions) are the model's -/
theorem zigzag_formula_tie (x : Int) (h1 : -(2 ^ 63 : Int) ≤ x) (h2 : x < (2 ^ 63 : Int)) (v : Nat) (hv : v < 2 ^ 64) :
    Generated.C14.zigZagEncode x = (zigzagEnc x : Int) ∧ Generated.C14.zigZagDecode (v : Int) = zigzagDec v :=
  ⟨zigZagEncode_tie x (by simpa using h1) (by simpa using h2), zigZagDecode_tie v (by simpa using hv)⟩

/-! Step orders and re-initialised fields the models mirror (a reordering / a dropped field in the
source re-opens the obligation by name). -/

theorem tsd_encoder_reset_calls_expected :
    Generated.C14.tsdEncoderResetCalls = ["bitBuffer.Reset", "bitWriter.Reset", "values.Reset", "timeBitBuf.Reset"] ∧
    Generated.C14.tsdEncoderRestWithStartTimeCalls = ["e.Reset"] ∧
    Generated.C14.tsdEncoderRestWithStartTimeFields = ["startTime", "count", "err"] := ⟨rfl, rfl, rfl⟩

/-- the pool accessors: `GetTSDEncoder` re-arms a pooled encoder with `RestWithStartTime` (count, err and
buffers), `Release*` only puts the object back, decoders are handed out as they are (callers `Reset`);
`snappyWriter.Bytes` copies before it resets its buffer -/
theorem pool_calls_expected :
    Generated.C14.getTSDEncoderCalls = ["encoderPool.Get", "NewTSDEncoder", "encoder.RestWithStartTime"] ∧
    Generated.C14.releaseTSDEncoderCalls = ["encoderPool.Put"] ∧
    Generated.C14.getTSDDecoderCalls = ["decoderPool.Get"] ∧
    Generated.C14.releaseTSDDecoderCalls = ["decoderPool.Put"] ∧
    Generated.C14.getFixedOffsetDecoderCalls = ["fixedOffsetDecoderPool.Get"] ∧
    Generated.C14.releaseFixedOffsetDecoderCalls = ["fixedOffsetDecoderPool.Put"] ∧
    Generated.C14.snappyWriterBytesCalls = ["buffer.Bytes", "len", "make", "copy", "buffer.Reset", "writer.Reset"] ∧
    Generated.C14.snappyReaderUncompressCalls = ["defer:?", "compressed.Write", "io.Copy", "decompressed.Bytes"] :=
  ⟨rfl, rfl, rfl, rfl, rfl, rfl, rfl, rfl⟩

/-- `bit.Writer.Reset` re-arms target, pending byte AND bit position; `Flush` assigns nothing (it does not
re-arm the writer — `flush_keeps_writer_state`); `bit.Reader.Reset` clears err, count and b -/
theorem bit_writer_fields_expected :
    Generated.C14.bitWriterResetFields = ["w", "b[0]", "count"] ∧
    Generated.C14.bitWriterFlushFields = [] ∧
    Generated.C14.bitWriterWriteBitFields = ["b[0]|=", "b[0]", "count"] ∧
    Generated.C14.bitWriterWriteByteFields = ["b[0]|=", "b[0]"] ∧
    Generated.C14.bitReaderResetFields = ["err", "count", "b"] := ⟨rfl, rfl, rfl, rfl, rfl⟩

theorem tsd_stream_reader_calls_expected :
    Generated.C14.newTSDStreamReaderCalls = ["stream.NewReader", "reader.ReadUint16", "reader.ReadUint16", "GetTSDDecoder"] ∧
    Generated.C14.tsdStreamReaderHasNextCalls = ["reader.Empty"] ∧
    Generated.C14.tsdStreamReaderNextCalls = ["reader.ReadUint16", "reader.ReadUvarint32", "int", "reader.ReadSlice",
      "fieldData.ResetWithTimeRange"] ∧
    Generated.C14.tsdStreamReaderCloseCalls = ["ReleaseTSDDecoder"] ∧
    Generated.C14.tsdStreamReaderTimeRangeCalls = [] := ⟨rfl, rfl, rfl, rfl, rfl⟩

theorem tsd_encoder_bytes_calls_expected :
    Generated.C14.tsdEncoderBytesCalls = ["FlushFunc", "timeBitBuf.Reset", "stream.PutUint16", "stream.PutUint16",
      "timeBitBuf.Write", "bitBuffer.Bytes", "timeBitBuf.Write", "timeBitBuf.Bytes"] := rfl

theorem tsd_decoder_reset_calls_expected :
    Generated.C14.tsdDecoderResetCalls = ["len", "fmt.Errorf", "d.reset", "LittleEndian.Uint16", "LittleEndian.Uint16",
      "buf.SetIdx", "reader.Reset"] ∧
    Generated.C14.tsdDecoderPrivateResetCalls = ["bufioutil.NewBuffer", "bit.NewReader", "NewXORDecoder",
      "values.Reset", "buf.SetBuf"] ∧
    Generated.C14.tsdDecoderHasValueWithSlotCalls = ["d.HasValue"] := ⟨rfl, rfl, rfl⟩

theorem xor_reset_fields_expected :
    Generated.C14.xorEncoderResetFields = ["previousVal", "leading", "trailing", "first", "err"] ∧
    Generated.C14.xorDecoderResetFields = ["first", "leading", "trailing", "err", "val"] := ⟨rfl, rfl⟩

theorem xor_write_calls_expected :
    Generated.C14.xorEncoderWriteCalls = ["bw.WriteBits", "bw.WriteBit", "bw.WriteBit", "bits.LeadingZeros64",
      "bits.TrailingZeros64", "bw.WriteBit", "uint", "bw.WriteBits", "bw.WriteBit", "uint64", "bw.WriteBits",
      "uint64", "bw.WriteBits", "uint", "bw.WriteBits"] := rfl

theorem delta_calls_expected :
    Generated.C14.deltaEncoderBytesCalls = ["uint32", "buffer.Reset", "len", "int32", "sw.PutVarint32", "uint32",
      "bits.LeadingZeros32", "byte", "sw.PutByte", "int64", "ZigZagEncode", "int64", "sw.PutVarint64",
      "sw.PutVarint32", "uint64", "bw.WriteBits", "bw.Flush", "buffer.Bytes"] ∧
    Generated.C14.deltaEncoderResetCalls = ["buffer.Reset", "sw.Reset", "bw.Reset", "int32"] ∧
    Generated.C14.deltaEncoderResetFields = ["hasFirst", "first", "previous", "minDelta", "deltas[:0]"] ∧
    Generated.C14.deltaDecoderResetCalls = ["sr.Reset", "sr.ReadVarint32", "sr.ReadByte", "int", "sr.ReadVarint64",
      "uint64", "ZigZagDecode", "int32", "sr.ReadVarint32", "sr.Position", "buf.SetBuf", "br.Reset"] :=
  ⟨rfl, rfl, rfl, rfl⟩

theorem fixedoffset_calls_expected :
    Generated.C14.fixedOffsetWriteCalls = ["len", "e.width", "uint8", "writer.Write", "len", "uint64",
      "binary.PutUvarint", "writer.Write", "uint32", "LittleEndian.PutUint32", "writer.Write"] ∧
    Generated.C14.fixedOffsetEncoderResetFields = ["max", "values[:0]"] ∧
    Generated.C14.fixedOffsetDecoderUnmarshalFields = ["offsetsBlock[:0]", "width", "size", "width", "size",
      "offsetsBlock"] := ⟨rfl, rfl, rfl⟩

/-! ## 10. caller-owned buffers: "the encoded values" are the bytes the slice held when `Write` was called

An encoder that is handed a `[]byte` (snappy chunk writer `Write(row)`, `stream` writer `PutBytes`/`Write`,
`TSDStreamWriter.WriteField(id, data)`) must have taken its copy when the call returns: callers marshal every row
into one reused scratch buffer and hand `encoder.Bytes()` views of pooled encoders to `WriteField` before they
reset the encoder. Model: `Model/BufAlias.lean` (caller memory + what the writer holds); which of the two
semantics a method has is read off the regenerated sinks of its slice parameter. -/

section SnappyReaderReuse
open SnappyReuse

/-- **A reused snappy reader decodes every chunk as a new reader would**, after ANY history of `Uncompress`
calls on any inputs — truncated, corrupt, with trailing garbage, i.e. calls that failed half way and left
unread input, partial output and a sticky library error behind: the deferred function re-initialises all three
(read from the source), so nothing of an earlier call reaches the next one. With the library contract
(`ExternalCodec`) the chunk then decodes to what was written. -/
theorem snappy_reader_history_irrelevant (lib : Lib) (hist : List (List Nat)) (data : List Nat) :
    ((SnappyReuse.Reader.run lib {} hist).uncompress lib data).1 = (({} : SnappyReuse.Reader).uncompress lib data).1 ∧
    SnappyReuse.Reader.run lib {} hist = {} := by
  have h := run_state lib hist {} rfl
  rw [h]; exact ⟨rfl, rfl⟩

/-- TIE: the deferred function of `snappyReader.Uncompress` resets the input buffer, the output buffer and the
library reader -/
theorem snappy_reader_deferred_expected :
    Generated.C14.snappyReaderUncompressDeferred = ["compressed.Reset", "decompressed.Reset", "reader.Reset"] := rfl

namespace Neg

/-- without `compressed.Reset` in the deferred function the unread rest of a failed chunk is decoded in front of
the next chunk: a library that fails on a leading 0xFF and otherwise copies its input returns `[0xFF, 7]`… as an
error for the good chunk `[7]` after the bad chunk `[0xFF]` -/
theorem snappy_reader_without_input_reset_is_stale :
    let lib : Lib := ⟨fun inp => match inp with | 255 :: t => ([], true, 255 :: t) | l => (l, false, [])⟩
    let calls := ["decompressed.Reset", "reader.Reset"]
    (((({} : SnappyReuse.Reader).uncompressWith calls lib [255]).2).uncompressWith calls lib [7]).1 = none ∧
    (({} : SnappyReuse.Reader).uncompressWith calls lib [7]).1 = some [7] := by decide

end Neg

end SnappyReaderReuse

section CallerBuffers
open BufAlias

/-- **A copying writer is lossless for every caller history**: any interleaving of caller writes into its own
buffers (`fill`), `Write(buf[:n])` and chunk cuts, any number of chunks through the one writer, any reuse of the
buffers — every chunk is the concatenation of the rows as they were when `Write` was called. -/
theorem writer_copy_ignores_later_caller_writes (ops : List Op) (mem : List (Nat × List Nat)) :
    run .copies { mem := mem } ops = spec mem [] ops :=
  run_copies_eq_spec ops { mem := mem } (by intro p hp; simp at hp)

/-- the same from any writer state reached by copying writes (open chunk included) -/
theorem writer_copy_ignores_later_caller_writes_from (ops : List Op) (w : World) (h : AllLit w.staged) :
    run .copies w ops = spec w.mem w.plain ops := run_copies_eq_spec ops w h

/-- a retaining writer (`EncodeBuffer`) is lossless exactly under the discipline its documentation demands:
no caller write into a handed-over buffer before the chunk is cut -/
theorem retaining_writer_needs_caller_discipline (ops : List Op) (mem : List (Nat × List Nat))
    (h : disciplined [] ops = true) : run .retains { mem := mem } ops = spec mem [] ops :=
  run_retains_eq_spec_of_disciplined ops { mem := mem } [] (by intro p hp; simp at hp) h

/-- TIE: in the source as it is now, `snappyWriter.Write` hands the row to a copying callee only -/
theorem snappy_write_does_not_retain : snappyWriteSem = some .copies := by decide

/-- TIE: `stream.writer.PutBytes` / `Write`, `tsdStreamWriter.WriteField` and the INPUT of
`snappyReader.Uncompress` are copied before the call returns -/
theorem stream_writers_do_not_retain :
    streamPutBytesSem = some .copies ∧ streamWriteSem = some .copies ∧ tsdWriteFieldSem = some .copies ∧
    snappyUncompressInputSem = some .copies := by decide

/-- TIE (documented exception): `FixedOffsetEncoder.FromValues` BORROWS the caller's slice (`e.values = values`)
until `MarshalBinary`/`Write`; `Add` copies values. The round-trip theorems about `FromValues` therefore speak
about the slice content at `MarshalBinary` time; the harness never touches the slice in between. -/
theorem fixedoffset_from_values_borrows : fixedOffsetFromValuesSem = some .retains := by decide

/-- **Snappy chunks under caller-buffer reuse**: with the semantics the source has now and the library contract
(`ExternalCodec`), for every caller history every chunk decodes to the rows as written. -/
theorem snappy_chunks_lossless_under_buffer_reuse (c : ExternalCodec (List Nat)) (sem : Sem)
    (hs : snappyWriteSem = some sem) (ops : List Op) (mem : List (Nat × List Nat)) (chunks : List (List Nat))
    (h : run sem { mem := mem } ops = some chunks) :
    spec mem [] ops = some chunks ∧ ∀ p ∈ chunks, c.decode (c.encode p) = some p := by
  have : sem = .copies := by
    have := snappy_write_does_not_retain; rw [hs] at this; exact Option.some.inj this
  subst this
  rw [writer_copy_ignores_later_caller_writes] at h
  exact ⟨h, fun p _ => c.roundtrip p⟩

/-- non-vacuity: one scratch buffer reused for three rows of two chunks, poisoned after every `Write` -/
example : run .copies {} [.fill 0 [1, 2, 3], .write 0 3, .fill 0 [9, 9, 9], .fill 0 [4, 5], .write 0 2, .fill 0 [9, 9],
      .cut, .fill 0 [7], .write 0 3, .cut] = some [[1, 2, 3, 4, 5], [7, 9, 9]] := by decide

/-- an unknown callee has no semantics: the ties above fail by name instead of defaulting -/
example : sinksSem ["writer.SomethingNew"] = none ∧ sinksSem [] = none ∧
    sinksSem ["writer.EncodeBuffer"] = some .retains := by decide

namespace Neg

/-- a writer that keeps the caller's slice loses rows as soon as the caller reuses its scratch buffer:
rows `[1]`, `[2]` written from one buffer come back as `[2, 2]` -/
theorem retaining_writer_loses_rows :
    run .retains {} [.fill 0 [1], .write 0 1, .fill 0 [2], .write 0 1, .cut] = some [[2, 2]] ∧
    spec [] [] [.fill 0 [1], .write 0 1, .fill 0 [2], .write 0 1, .cut] = some [[1, 2]] ∧
    disciplined [] [.fill 0 [1], .write 0 1, .fill 0 [2], .write 0 1, .cut] = false := by decide

end Neg

end CallerBuffers

/-! ## 11. a rejected or empty input on a REUSED decoder (Round 9)

The empty offset list is written as zero bytes and `Unmarshal` rejects fewer than two bytes, so "decode the empty
list" IS an error return; `dataScanner` calls `Unmarshal(nil)` to empty its long-lived decoder and `readSeriesData`
ignores `Unmarshal`'s error on a pooled one. Losslessness under reuse therefore needs: whatever an object held, after
a rejected or empty input it answers exactly as a fresh object given that input would — never from the previous table. -/

section RejectedInput
open LinVerif.FixedOffset

/-- **unmarshal_rejected_leaves_fresh.** For EVERY decoder object `d` (any previous table) and EVERY input that
`Unmarshal` rejects: the object is in the state a fresh decoder is in after the same input, its offsets block is
empty, every `Get` answers "not found", every `GetBlock` is the corrupted-index error on every data block; for
fewer than two bytes (the empty table, `Unmarshal(nil)`) it IS the fresh decoder and `Size()` is 0. -/
theorem unmarshal_rejected_leaves_fresh (d : FixedOffset.Dec) (data : List Nat) (e : UErr)
    (h : (d.unmarshal data).1 = .error e) :
    (d.unmarshal data).2 = (FixedOffset.Dec.fresh.unmarshal data).2 ∧
    (d.unmarshal data).2.block = [] ∧
    (∀ i, (d.unmarshal data).2.get i = none) ∧
    (∀ i blk, (d.unmarshal data).2.getBlock i blk = .error .corruptedIndex) ∧
    (data.length < 2 → (d.unmarshal data).2 = FixedOffset.Dec.fresh ∧ (d.unmarshal data).2.sizeOf = 0) := by
  have hb := Dec.unmarshal_error_block d data e h
  refine ⟨rfl, hb, Dec.get_of_block_nil _ hb, Dec.getBlock_of_block_nil _ hb, ?_⟩
  intro hs
  rw [Dec.unmarshal_short d data hs]
  exact ⟨rfl, by decide⟩

/-- **Every reuse history.** Whatever inputs — accepted or rejected, errors ignored — one decoder object was given
before, after the next input it is the decoder a fresh object is after that input alone (result and state). -/
theorem fixedoffset_history_irrelevant (d : FixedOffset.Dec) (history : List (List Nat)) (data : List Nat) :
    (d.feed history).unmarshal data = FixedOffset.Dec.fresh.unmarshal data ∧
    d.feed (history ++ [data]) = (FixedOffset.Dec.fresh.unmarshal data).2 :=
  ⟨rfl, Dec.feed_last d history data⟩

/-- TIE: in the source, `Unmarshal` assigns EVERY field of the struct before its first check (the statements in front
of the first `if` are exactly one assignment per struct field) — what `Dec.unmarshal`'s `d0` mirrors. A field added
without clearing, a clearing moved behind a check, or a "parse into locals, assign on success" rewrite changes it. -/
theorem fixedoffset_unmarshal_clears_before_validation :
    Generated.C14.fixedOffsetDecoderUnmarshalShape.takeWhile (· ≠ "if{") =
      Generated.C14.fixedOffsetDecoderStructFields.map ("field:" ++ ·) ∧
    Generated.C14.fixedOffsetDecoderStructFields = ["offsetsBlock", "width", "size"] ∧
    Generated.C14.fixedOffsetDecoderUnmarshalShape = ["field:offsetsBlock", "field:width", "field:size",
      "if{", "return", "}", "field:width", "if{", "return", "}", "local:size", "local:readBytes", "if{", "return", "}",
      "field:size", "local:wantLen", "if{", "return", "}", "field:offsetsBlock", "return"] := by decide

/-- the other decoders that are re-armed with an input: delta `Reset(buf)` on ANY bytes (no rejection exists: the
reads' errors are ignored), TSD `ResetWithTimeRange` on ANY bytes, `stream.Reader.Reset(buf)` — the re-armed object
is the fresh one, so it cannot answer from its previous input. TSD `Reset(data)` with at most 4 bytes is the one
re-arming that keeps the previous block: it reports the rejection through `Error()` (and ONLY so). -/
theorem rearm_on_any_input_eq_fresh (p : DeltaPack.Dec) (t : Tsd.Dec) (history : List DecOp) (sr : Stream.Reader)
    (data : List Nat) (s e : Nat) :
    p.reset data = (DeltaPack.Dec.fresh data) ∧
    (runDec t history).resetWithTimeRange data s e = Tsd.Dec.zero.resetWithTimeRange data s e ∧
    sr.reset data = Stream.Reader.fresh data ∧
    (data.length ≤ 4 → ((runDec t history).reset data).err = true) := by
  refine ⟨?_, tsd_decoder_reset_range_eq_fresh _ data s e, rfl, ?_⟩
  · simp [DeltaPack.Dec.reset, DeltaPack.Dec.fresh, Reader.setBuf, Reader.reset, Reader.fresh]
  · intro h; simp [Tsd.Dec.reset, h]

/-- TIE: `stream.Reader.Reset(buf)` re-initialises every field of the struct (`original`, the sub-reader, `err`) -/
theorem stream_reader_reset_shape_expected :
    Generated.C14.streamReaderStructFields = ["original", "reader", "err"] ∧
    Generated.C14.streamReaderResetShape = ["field:original", "call:reader.Reset", "field:err"] := by decide

/-- non-vacuity: a decoder that holds the table `[0, 5, 15]` is given the empty table (zero bytes), a lone byte, a
table cut in its value cells, a bad width: every time it ends up without any offset -/
def heldTable : FixedOffset.Dec := (FixedOffset.Dec.fresh.unmarshal (encOf true [0, 5, 15]).marshal).2

example :
    let d := heldTable
    d.sizeOf = 3 ∧ d.get 1 = some 5 ∧
    (d.unmarshal []).2 = FixedOffset.Dec.fresh ∧ (d.unmarshal [1]).2 = FixedOffset.Dec.fresh ∧
    errOf (d.unmarshal [1, 3, 0, 5]).1 = some .badLength ∧ (d.unmarshal [1, 3, 0, 5]).2.get 1 = none ∧
    errOf (d.unmarshal [7, 1, 0]).1 = some .badWidth ∧ (d.unmarshal [7, 1, 0]).2.get 0 = none := by
  intro d; decide

namespace Neg

/-- what the clearing is needed for: an `Unmarshal` that assigns the receiver only after the last check decodes the
EMPTY table (zero bytes) on a reused object to the table the object held before -/
theorem unmarshal_commit_on_success_is_stale :
    let d := heldTable
    errOf (d.unmarshalCommitOnSuccess []).1 = some .tooShort ∧
    (d.unmarshalCommitOnSuccess []).2.sizeOf = 3 ∧ (d.unmarshalCommitOnSuccess []).2.get 1 = some 5 ∧
    (d.unmarshal []).2.sizeOf = 0 ∧ (d.unmarshal []).2.get 1 = none := by
  intro d; decide

end Neg

end RejectedInput

/-! ## 12. `stream.Reader` under free-form read sequences, error branches included (Round 9) -/

section StreamFreeForm
open LinVerif.Stream

/-- **stream_reader_free_form_history.** A reader on ANY buffer, after ANY sequence of calls (numeric reads, varints
that overflow or run into EOF, `ReadSlice`/`ReadBytes` with negative or too large lengths, `ReadUntil`, reads under a
pending error, `ReadAt`, `Reset`): the unread part is a suffix of the current buffer (so `Position()` lies inside
it). For every FORWARD-only continuation from any such state: the buffer is untouched, what was consumed is a prefix
of what was unread, and when every call is slice-returning the byte strings handed out, concatenated, are exactly
that prefix — nothing skipped, handed out twice or reordered, whichever errors occurred in between. -/
theorem stream_reader_free_form_history (data : List Nat) (history forward : List RdOp)
    (hf : ∀ op ∈ forward, op.sequential = true) :
    let r : Stream.Reader := ((Stream.Reader.fresh data).run history).2
    r.Wf ∧ r.position ≤ r.orig.length ∧
    (∃ c, c ++ (r.run forward).2.rem = r.rem) ∧ (r.run forward).2.orig = r.orig ∧
    ((∀ op ∈ forward, op.returnsBytes = true) → (r.run forward).1.flatten ++ (r.run forward).2.rem = r.rem) := by
  intro r
  have hw : r.Wf := Stream.Reader.run_wf history _ ⟨[], by simp [Stream.Reader.fresh]⟩
  obtain ⟨h1, h2, h3⟩ := Stream.Reader.run_conserves forward r hf
  exact ⟨hw, by simp [Stream.Reader.position], h1, h2, h3⟩

/-- `ReadAt(p)` (`SeekStart` = `ReadAt(0)`) with `p` inside the buffer repositions from ANY state — pending error, EOF,
mid-buffer —: the error is cleared, the unread part is the buffer from `p` on, `Position() = p`. -/
theorem stream_reader_reposition_from_any_state (r : Stream.Reader) (p : Nat) (hp : p ≤ r.orig.length) :
    r.readAt p = { orig := r.orig, rem := r.orig.drop p, err := .none } ∧
    (r.readAt p).position = p ∧ (r.readAt p).unreadSlice = r.orig.drop p :=
  Stream.Reader.readAt_repositions r p hp

/-- non-vacuity: a varint that overflows, a negative length, a read under the pending error, a short read into EOF
and a read at EOF, on 13 bytes: the slices handed out are `[]`, `[]`, then after repositioning `[1, 2]`, `[3]`, `[]` -/
example :
    ((Stream.Reader.fresh [255, 255, 255, 255, 255, 255, 255, 255, 255, 255, 1, 7, 8]).run
      [.uv64, .slice (-1), .slice 1, .at 11, .slice 1, .slice 5, .slice 1]).1 =
      [[], [], [], [], [7], [8], []] ∧
    ((Stream.Reader.fresh [1, 2, 3]).run [.slice 2, .bytes 4, .until 9]).1 = [[1, 2], [3], []] := by decide

end StreamFreeForm

/-! ## 13. a `FixedOffsetDecoder` object under a history of calls: reads leave no trace (Round 12)

`Get`, `GetBlock`, `Size`, `ValueWidth` write nothing outside their own locals (regenerated, tie below), so the object
a re-arming `Unmarshal` receives differs from a fresh one at most by what earlier `Unmarshal`s left — which
`Unmarshal` overwrites. Consequence: whatever was asked of the previous table(s), in whatever order and however far
a scan got, the answers about the next table are those of a fresh decoder, for EVERY order of questions. -/

section FoHistory
open LinVerif.FixedOffset

/-- **fixedoffset_reads_leave_no_trace.** Any object, any history of calls (`Unmarshal` of any bytes accepted or
rejected, `Get`, `GetBlock` on any data block, `Size`, `ValueWidth`, in any order), then `Unmarshal(data)` followed by
ANY list of further calls: the answers are exactly those of `NewFixedOffsetDecoder()` given the same calls; and the
object after the history depends on the history's `Unmarshal` inputs alone. -/
theorem fixedoffset_reads_leave_no_trace (d : FixedOffset.Dec) (history : List FixedOffset.DecOp) (data : List Nat)
    (qs : List FixedOffset.DecOp) :
    ((d.run history).2.run (.unm data :: qs)).1 = (FixedOffset.Dec.fresh.run (.unm data :: qs)).1 ∧
    (d.run history).2 = d.feed (unmInputs history) ∧
    ((∀ op ∈ history, op.isRead = true) → (d.run history).2 = d) :=
  ⟨rfl, Dec.run_state history d, fun h => Dec.run_reads_state history h d⟩

/-- **fixedoffset_scan_any_order_after_any_history.** A table of non-decreasing offsets inside the data block, given
to ANY object after ANY history of calls: `GetBlock` for any list of valid indexes — forward scan, backward scan,
point lookups, repeats, a scan that continues where the scan of the previous table stopped — returns for every
question the byte range `data[vs[i] : vs[i+1]]` (the last one up to the end of the data block). -/
theorem fixedoffset_scan_any_order_after_any_history (inc : Bool) (vs junk data : List Nat) (d0 : FixedOffset.Dec)
    (history : List FixedOffset.DecOp) (idxs : List Nat)
    (hne : vs ≠ []) (hlt : ∀ v ∈ vs, v < 2 ^ 32) (hlen : vs.length < 2 ^ 32)
    (hmono : ∀ i (h : i + 1 < vs.length), vs[i] ≤ vs[i + 1]) (hbound : ∀ v ∈ vs, v ≤ data.length)
    (hidx : ∀ i ∈ idxs, i < vs.length) :
    ((d0.run history).2.run
        (.unm ((encOf inc vs).marshal ++ junk) :: idxs.map (fun (i : Nat) => FixedOffset.DecOp.blk (i : Int) data))).1
      = FixedOffset.DecAns.unm (.ok junk) ::
        idxs.map (fun (i : Nat) =>
          FixedOffset.DecAns.blk (.ok ((data.take ((vs[i + 1]?).getD data.length)).drop ((vs[i]?).getD 0)))) := by
  obtain ⟨d, hu, hb⟩ := fixedoffset_getBlock_correct inc vs junk data (d0.run history).2 hne hlt hlen hmono hbound
  simp only [Dec.run, Dec.step, hu]
  rw [(Dec.run_blks data idxs d).1]
  congr 1
  apply List.map_congr_left
  intro i hi
  have hi' := hidx i hi
  rw [hb i hi']
  simp [hi']

/-- non-vacuity: a decoder that scanned the first two blocks of `[0, 10, 30, 60]` (and was asked other things) is
given `[0, 3, 8]`; `GetBlock(2)` — the continuation of the old scan —, then 0, 1, 2 again: the new table's ranges -/
example :
    let data := [1, 2, 3, 4, 5, 6, 7, 8, 9, 10]
    ((FixedOffset.Dec.fresh.run [.unm (encOf true [0, 10, 30, 60]).marshal, .blk 0 (List.replicate 70 7),
        .blk 1 (List.replicate 70 7), .size, .get 9]).2.run
      (.unm (encOf true [0, 3, 8]).marshal :: [2, 0, 1, 2].map (fun (i : Nat) => FixedOffset.DecOp.blk (i : Int) data))).1.drop 1
      |>.map (fun a => match a with | .blk r => blkOf r | _ => none)
    = [some [9, 10], some [1, 2, 3], some [4, 5, 6, 7, 8], some [9, 10]] := by decide

/-- TIE: in the source the four read methods write nothing outside their own locals (no receiver field, no element of
a receiver slice, no package-level variable; `Unmarshal` is the only method that writes the receiver) — what
`Dec.step` mirrors by returning the object unchanged. `GetBlock`'s statement shape and calls are pinned as well: both
offsets come from `d.Get`, nothing is remembered between calls. -/
theorem fixedoffset_reads_write_nothing :
    Generated.C14.fixedOffsetDecoderGetWrites = [] ∧
    Generated.C14.fixedOffsetDecoderGetBlockWrites = [] ∧
    Generated.C14.fixedOffsetDecoderSizeWrites = [] ∧
    Generated.C14.fixedOffsetDecoderValueWidthWrites = [] ∧
    Generated.C14.fixedOffsetDecoderUnmarshalWrites = ["recv:offsetsBlock", "recv:width", "recv:size", "recv:width",
      "recv:size", "recv:offsetsBlock"] ∧
    Generated.C14.fixedOffsetDecoderGetBlockShape = ["local:startOffset", "local:ok", "if{", "return", "}",
      "local:endOffset", "local:ok", "if{", "local:endOffset", "}", "if{", "return", "}", "return"] ∧
    Generated.C14.fixedOffsetDecoderGetBlockCalls = ["d.Get", "len", "fmt.Errorf", "d.Get", "len", "len", "len",
      "fmt.Errorf"] ∧
    Generated.C14.getFixedOffsetDecoderCalls = ["fixedOffsetDecoderPool.Get"] ∧
    Generated.C14.releaseFixedOffsetDecoderCalls = ["fixedOffsetDecoderPool.Put"] :=
  ⟨rfl, rfl, rfl, rfl, rfl, rfl, rfl, rfl, rfl⟩

namespace Neg

/-- what "reads leave no trace" protects against: a decoder whose `GetBlock` keeps a scan cursor that `Unmarshal`
does not drop (NOT lindb's code, `FixedOffset.DecC`). Point lookup `GetBlock(0)` on `[0, 10, 30, 60]`, then the
table `[0, 3, 8]`: `GetBlock(1)` starts at the OLD table's offset 10 — beyond the new end offset 8 — and fails, while
lindb's decoder returns `data[3:8]`. On one table the cursor decoder is exact. -/
theorem scan_cursor_survives_unmarshal :
    let data := [1, 2, 3, 4, 5, 6, 7, 8, 9, 10]
    let a := (encOf true [0, 10, 30, 60]).marshal
    let b := (encOf true [0, 3, 8]).marshal
    let c1 := ((DecC.fresh.unmarshal a).getBlock 0 (List.replicate 70 7)).2
    blkOf ((c1.unmarshal b).getBlock 1 data).1 = none ∧
    blkOf ((DecC.fresh.unmarshal b).getBlock 1 data).1 = some [4, 5, 6, 7, 8] ∧
    blkOf (((FixedOffset.Dec.fresh.run [.unm a, .blk 0 (List.replicate 70 7)]).2.unmarshal b).2.getBlock 1 data)
      = some [4, 5, 6, 7, 8] := by
  intro data a b c1; decide

end Neg

end FoHistory

/-! ## 14. pkg/encoding/utils.go (slices seen as bytes and back) and the 16/16 split of a uint32 (Round 12)

Used by the storage paths outside the block codecs: `memdb` field writer and `metricsdata` flusher/merger
(`Float64ToBytes` / `BytesToFloat64`), the trie (`U32/U64SliceToBytes`, `BytesToU32/U64Slice`), the forward index
(`HighBits`/`LowBits`/`ValueWithHighLowBits` — container key + low 16 bits of a series id). -/

section EncUtils
open LinVerif.EncUtils

/-- **u32_slice_bytes_roundtrip / u64.** Every `[]uint32` (`[]uint64`) seen as bytes and read back is the same slice,
also from a buffer that continues with up to 3 (7) more bytes; the byte view has `4·len` (`8·len`) bytes. -/
theorem word_slices_roundtrip (u tail : List Nat) :
    ((∀ v ∈ u, v < 2 ^ 32) → tail.length < 4 →
      bytesToU32Slice (u32SliceToBytes u ++ tail) = u ∧ (u32SliceToBytes u).length = 4 * u.length) ∧
    ((∀ v ∈ u, v < 2 ^ 64) → tail.length < 8 →
      bytesToU64Slice (u64SliceToBytes u ++ tail) = u ∧ (u64SliceToBytes u).length = 8 * u.length) := by
  refine ⟨fun h ht => ⟨?_, u32_bytes_length u⟩, fun h ht => ⟨?_, u64_bytes_length u⟩⟩
  · have hl : (u32SliceToBytes u ++ tail).length / 4 = u.length := by
      rw [List.length_append, u32_bytes_length]; omega
    unfold bytesToU32Slice
    rw [hl]
    exact words4_bytes u tail (fun v hv => by simpa using h v hv)
  · have hl : (u64SliceToBytes u ++ tail).length / 8 = u.length := by
      rw [List.length_append, u64_bytes_length]; omega
    unfold bytesToU64Slice
    rw [hl]
    exact words8_bytes u tail (fun v hv => by simpa using h v hv)

/-- **float64_bytes_roundtrip.** Every 64-bit pattern (every NaN payload, ±0, subnormals) written with
`Float64ToBytes` and read with `BytesToFloat64` — whatever follows in the buffer — is the same pattern. -/
theorem float64_bytes_roundtrip (bits : Nat) (rest : List Nat) (h : bits < 2 ^ 64) :
    bytesToFloat64 (float64ToBytes bits ++ rest) = some bits ∧ (float64ToBytes bits).length = 8 := by
  refine ⟨?_, rfl⟩
  have hl : ¬ (float64ToBytes bits ++ rest).length < 8 := by
    simp [float64ToBytes, le8_length]
  unfold bytesToFloat64
  rw [if_neg hl]
  have : (float64ToBytes bits ++ rest).take 8 = le8 bits := by
    rw [List.take_append_of_le_length (by simp [float64ToBytes, le8_length])]; simp [float64ToBytes, le8, le4]
  rw [this, fromLE_le8 bits (by simpa using h)]

/-- **uint32_high_low_split_roundtrip.** Every `uint32` is put together again from its two halves, and every pair of
halves is read back from the value they form (the split loses nothing and invents nothing). -/
theorem uint32_high_low_split_roundtrip :
    (∀ x, x < 2 ^ 32 → valueWithHighLowBits (highBits x <<< 16) (lowBits x) = x ∧ highBits x < 2 ^ 16 ∧ lowBits x < 2 ^ 16) ∧
    (∀ hi lo, hi < 2 ^ 16 → lo < 2 ^ 16 →
      highBits (valueWithHighLowBits (hi <<< 16) lo) = hi ∧ lowBits (valueWithHighLowBits (hi <<< 16) lo) = lo) := by
  refine ⟨fun x hx => ⟨split_roundtrip x (by simpa using hx), ?_, ?_⟩, fun hi lo h1 h2 =>
    split_inverse hi lo (by simpa using h1) (by simpa using h2)⟩
  · exact Nat.mod_lt _ (by decide)
  · exact Nat.mod_lt _ (by decide)

example :
    bytesToU32Slice (u32SliceToBytes [0, 1, 4294967295, 305419896] ++ [9, 9]) = [0, 1, 4294967295, 305419896] ∧
    u32SliceToBytes [305419896] = [0x78, 0x56, 0x34, 0x12] ∧
    bytesToFloat64 (float64ToBytes 0x7ff8000000000001) = some 0x7ff8000000000001 ∧
    highBits 0xabcd1234 = 0xabcd ∧ lowBits 0xabcd1234 = 0x1234 := by decide

/-- TIE: the expressions the nine functions return, as written in the source (a changed shift, mask, element size or
guard re-opens this by name), and the mask constant. -/
theorem enc_utils_source_expected :
    Generated.C14.highBitsReturns = ["uint16(x >> 16)"] ∧
    Generated.C14.lowBitsReturns = ["uint16(x & maxLowBit)"] ∧
    Generated.C14.valueWithHighLowBitsReturns = ["uint32(low & maxLowBit) | high"] ∧
    Generated.C14.maxLowBit = 65535 ∧
    Generated.C14.u32SliceToBytesReturns = ["if len(u) == 0", "nil",
      "unsafe.Slice((*byte)(unsafe.Pointer(unsafe.SliceData(u))), len(u) * 4)"] ∧
    Generated.C14.bytesToU32SliceReturns = ["if len(b) == 0", "nil",
      "unsafe.Slice((*uint32)(unsafe.Pointer(unsafe.SliceData(b))), len(b) / 4)"] ∧
    Generated.C14.u64SliceToBytesReturns = ["if len(u) == 0", "nil",
      "unsafe.Slice((*byte)(unsafe.Pointer(unsafe.SliceData(u))), len(u) * 8)"] ∧
    Generated.C14.bytesToU64SliceReturns = ["if len(b) == 0", "nil",
      "unsafe.Slice((*uint64)(unsafe.Pointer(unsafe.SliceData(b))), len(b) / 8)"] ∧
    Generated.C14.float64ToBytesReturns = ["unsafe.Slice((*byte)(unsafe.Pointer(&f64)), 8)"] ∧
    Generated.C14.bytesToFloat64Returns = ["unsafe.Slice((*float64)(unsafe.Pointer(unsafe.SliceData(b))), 1)[0]"] :=
  ⟨rfl, rfl, rfl, rfl, rfl, rfl, rfl, rfl, rfl, rfl⟩

end EncUtils

end LinVerif.Props.C14
