/-
C15 — Table files and merged iteration return exactly what was added.

Property theorems only; the supporting lemmas are in Lemmas/C15Table.lean (codec round trips,
builder invariant, Close → file → reader), Lemmas/C15Heap.lean (Go's container/heap meets the
heap specification) and Lemmas/C15Merge.lean (lindb's priorityQueue glue, merged iterator).

Parameters / hypotheses (all explicit):
 * `K : KeySetOps B` with `K.Lawful` — the roaring bitmap by its contract (members in ascending
   order, rank, contains, marshal/unmarshal round trip for uint32 members); `listKeySet_lawful`
   shows the contract is satisfiable (it is the instance the driver runs).
 * keys are uint32 (`< 4294967296`), and `SizeOK`: value bytes + 4·count + 12 < 2^32 (the footer
   stores positions in 32 bits; beyond that the code truncates them).
 * builder use is well-formed (`Put`): plain `Add`s and complete `Prepare; Write*; Commit` groups.
 * merged inputs are non-decreasing by key (`SortedInput`; table iterators are strictly increasing).
-/
import LinVerif.Lemmas.C15Table
import LinVerif.Lemmas.C15Merge
import LinVerif.Lemmas.C15HeapFix
import LinVerif.Lemmas.C15Version
import LinVerif.Lemmas.C15Open
import LinVerif.Lemmas.C15Cache
import LinVerif.Lemmas.C15Roaring
import LinVerif.Lemmas.C15Stream
import LinVerif.Lemmas.C15Decoders
import LinVerif.Generated.C15

namespace LinVerif.Props.C15
open LinVerif.Table LinVerif.MergedIter

variable {B : Type}

/-! ## ties to the regenerated facts -/

theorem tie_magic : Table.magicNumberOffsetFile = Generated.C15.magicNumberOffsetFile := by decide
theorem tie_version : Table.version0 = Generated.C15.version0 := rfl
theorem tie_footer_size : Table.sstFileFooterSize = Generated.C15.sstFileFooterSize := rfl
theorem tie_magic_at : Table.magicNumberAtFooter = Generated.C15.magicNumberAtFooter := rfl
/-- the model's footer is the four fields of constants.go, in that order and of those sizes -/
theorem tie_footer_fields (p1 p2 : Nat) :
    [(leBytes 4 p1).length, (leBytes 4 p2).length, [Table.version0].length,
      (leBytes 8 Table.magicNumberOffsetFile).length] = Generated.C15.footerFieldSizes ∧
    (footer p1 p2).length = Generated.C15.closeBufLen := by
  simp [leBytes_length, Generated.C15.footerFieldSizes, Generated.C15.closeBufLen, footer]
/-- `Close` fills the buffer as the model's `footer` does; `initialize` reads the same ranges -/
theorem tie_footer_writes :
    Generated.C15.closeFooterWrites =
      [("PutUint32", 0, 4, "uint32(posOfOffset)"), ("PutUint32", 4, 8, "uint32(posOfKeys)"),
       ("byte", 8, 9, "version0"), ("PutUint64", 9, 17, "magicNumberOffsetFile")] ∧
    Generated.C15.readerFooterReads = [("Uint64", 9, 17), ("Uint32", 0, 4), ("Uint32", 4, 8)] ∧
    Generated.C15.readerSortedCheck = "[]int{ 0, posOfOffset, posOfKeys, footerStart, }" :=
  ⟨rfl, rfl, rfl⟩
/-- the offset table's width rule (C14's model of pkg/encoding, used by the table model) is the source's -/
theorem tie_min_width (v : Nat) : FixedOffset.uint32MinWidth v = Generated.C15.uint32MinWidth v := rfl
/-- the comparisons and statement orders the models mirror, as they stand in the source -/
theorem tie_builder_source :
    Generated.C15.ensureIncreasingConds = ["b.first", "key <= b.maxKey"] ∧
    Generated.C15.afterWriteStmts =
      ["b.offset.Add(offset)", "b.keys.Add(key)", "if b.first { b.minKey = key }", "b.maxKey = key",
       "b.first = false"] ∧
    Generated.C15.streamWriterBodies =
      ["sw.badKey = !sw.builder.ensureIncreasingKey(key) ; sw.offset = sw.builder.writer.Size() ; sw.key = key ; sw.size = 0 ; sw.crc32.Reset()",
       "if sw.badKey { return 0, nil } ; n, err := sw.builder.writer.Write(data) ; _, _ = sw.crc32.Write(data) ; if err == nil { sw.size += uint32(n) } ; metrics.TableWriteStatistics.WriteBytes.Add(float64(len(data))) ; return n, err",
       "if sw.badKey { return nil } ; sw.builder.afterWrite(sw.key, int(sw.offset)) ; sw.badKey = true ; return nil"] ∧
    Generated.C15.closeCalls =
      ["defer:?", "keys.IsEmpty", "writer.Size", "offset.MarshalBinary", "writer.Write", "keys.RunOptimize",
       "encoding.BitmapMarshal", "writer.Size", "writer.Write", "uint32", "LittleEndian.PutUint32", "uint32",
       "LittleEndian.PutUint32", "LittleEndian.PutUint64", "writer.Write"] :=
  ⟨rfl, rfl, rfl, rfl⟩
theorem tie_reader_source :
    Generated.C15.readerGetStmts =
      ["if !r.keys.Contains(key) { return nil, ErrKeyNotExist }", "idx := r.keys.Rank(key)",
       "return r.getBlock(int(idx) - 1)"] ∧
    Generated.C15.iteratorValueStmts = ["block, _ := it.reader.getBlock(it.idx)", "it.idx++", "return block"] ∧
    Generated.C15.fixedOffsetGetBlockConds =
      ["!ok", "!ok", "startOffset < 0 || endOffset < 0 || endOffset < startOffset || endOffset > len(dataBlock)"] ∧
    Generated.C15.fixedOffsetGetConds =
      ["start < 0 || len(d.offsetsBlock) == 0 || start >= len(d.offsetsBlock) || d.width > 4",
       "end > len(d.offsetsBlock)", "offset < 0"] ∧
    Generated.C15.fixedOffsetAddConds =
      ["e.ensureIncreasing && len(e.values) > 0 && e.values[len(e.values)-1] > v", "v < 0", "e.max < v"] :=
  ⟨rfl, rfl, rfl, rfl, rfl⟩
theorem tie_merge_source :
    Generated.C15.pqLessStmts = ["return pq[i].key < pq[j].key"] ∧
    Generated.C15.pqSwapStmts = ["pq[i], pq[j] = pq[j], pq[i]", "pq[i].index = j", "pq[j].index = i"] ∧
    Generated.C15.pqPushStmts = ["n := len(*pq)", "item := x.(*item)", "item.index = n", "*pq = append(*pq, item)"] ∧
    Generated.C15.pqPopStmts =
      ["old := *pq", "n := len(old)", "item := old[n-1]", "item.index = -1", "*pq = old[0 : n-1]", "return item"] ∧
    Generated.C15.pqupdateStmts = ["heap.Fix(pq, item.index)"] ∧
    Generated.C15.hasNextCalls = ["len", "heap.Pop", "it.HasNext", "it.Key", "it.Value", "pq.Push", "pq.update"] ∧
    Generated.C15.initQueueCalls = ["it.HasNext", "it.Key", "it.Value", "append", "len", "heap.Init"] :=
  ⟨rfl, rfl, rfl, rfl, rfl, rfl, rfl⟩
theorem tie_version_source :
    Generated.C15.findFilesCond = "key >= file.GetMinKey() && key <= file.GetMaxKey()" ∧
    Generated.C15.snapshotLoadCalls =
      ["version.FindFiles", "fileMeta.GetFileNumber", "Table", "cache.GetReader", "reader.Get", "errors.Is", "loader"] :=
  ⟨rfl, rfl⟩

/-- `FindFiles` ranges over every level and every file of the level and never leaves a loop early;
a level is a plain set of files (no cached key range); `Load` skips a file only on
`ErrKeyNotExist` (`continue`) — the shape `findFiles`/`loadFiles`/`findReaders` model -/
theorem tie_findfiles_every_level :
    Generated.C15.findFilesLoops = ["v.levels", "level.getFiles()"] ∧
    Generated.C15.findFilesJumps = [] ∧
    Generated.C15.findFilesStmts =
      ["var files []*FileMeta",
       "for _, level := range v.levels { for _, file := range level.getFiles() { if key >= file.GetMinKey() && key <= file.GetMaxKey() { files = append(files, file) } } }",
       "return files"] ∧
    Generated.C15.levelFields = ["files map[table.FileNumber]*FileMeta"] ∧
    Generated.C15.levelGetFilesStmts =
      ["var values []*FileMeta", "for _, v := range l.files { values = append(values, v) }", "return values"] ∧
    Generated.C15.snapshotLoadJumps =
      ["err != nil => return err", "errors.Is(err, table.ErrKeyNotExist) => continue",
       "err != nil => return err", "err := loader(value); err != nil => return err"] ∧
    Generated.C15.snapshotLoadLoops = ["files"] ∧
    Generated.C15.snapshotFindReadersJumps = ["err != nil => return nil, err"] ∧
    Generated.C15.snapshotFindReadersLoops = ["files"] :=
  ⟨rfl, rfl, rfl, rfl, rfl, rfl, rfl, rfl, rfl⟩

/-- the table builder's writer: every `Write` goes through the one buffered writer (so bytes reach
the file in the order written, whatever their size); its buffer size is the centre of the
harness's `write-buffer-threshold` region -/
theorem tie_bufio_writer :
    Generated.C15.defaultWriteBufferSize = 262144 ∧
    Generated.C15.bufioStreamWriteStmts =
      ["n, err := sw.w.Write(content)", "if err != nil { return 0, err }", "sw.size += int64(n)", "return n, nil"] :=
  ⟨rfl, rfl⟩

/-- a version's level maps are its own objects: `newVersion` allocates one per level, `Clone` adds
every file of the source to the clone's fresh levels, `addFile`/`deleteFile` act on the receiver's
map only (`cloneDeep`, `VLog.applyH` in the model; `snapshot_version_unchanged`) -/
theorem tie_version_objects :
    Generated.C15.level_newLevel_Stmts = ["return &level{ files: make(map[table.FileNumber]*FileMeta), }"] ∧
    Generated.C15.level_addFile_Stmts = ["l.files[file.GetFileNumber()] = file"] ∧
    Generated.C15.level_deleteFile_Stmts = ["delete(l.files, fileNumber)"] ∧
    Generated.C15.versionCloneLevelLoops =
      ["for level, value := range v.levels { for _, file := range value.files { newVersion.AddFile(level, file) } }"] ∧
    Generated.C15.newVersionLevelLoops = ["for i := 0; i < numOfLevel; i++ { v.levels[i] = newLevel() }"] :=
  ⟨rfl, rfl, rfl, rfl, rfl⟩

/-- every `Reader.Iterator()` call allocates a new iterator object (`Reader.iterator`,
`iterators_independent`) -/
theorem tie_iterator_alloc :
    Generated.C15.newMMapIteratorStmts =
      ["return &storeMMapIterator{ reader: reader, keyIt: reader.keys.Iterator(), }"] := rfl

/-- `storeFlusher.Commit`: `builder.Close` comes before — and its error returns before — the
`NewFile` entry is added to the edit log (`commitLogs`, `aborted_build_not_in_version`) -/
theorem tie_flusher_commit_order :
    Generated.C15.storeFlusherCommitCalls.take 11 =
      ["defer:?", "builder.Size", "builder.Close", "fmt.Errorf", "builder.FileNumber", "builder.MinKey",
       "builder.MaxKey", "builder.Size", "version.NewFileMeta", "version.CreateNewFile", "editLog.Add"] := rfl

/-- the checks of `newMMapStoreReader` and `initialize`, in source order — the first two are the
open / mmap errors (`fs` / `failing` in the model), the rest are the six branches of `Reader.openE`
(`tooShort`, [initialize:] `badMagic`, `badFooter`, `badOffsets`, `badKeys`, `countMismatch`) — and
every slice expression of `initialize` (`footerPos`, the three sections) -/
theorem tie_reader_open_checks :
    Generated.C15.readerOpenChecks =
      ["err != nil", "err != nil", "len(data) < sstFileFooterSize", "err := reader.initialize(); err != nil",
       "uint64Func(r.fullBlock[footerStart+magicNumberAtFooter:]) != magicNumberOffsetFile",
       "!intsAreSortedFunc([]int{ 0, posOfOffset, posOfKeys, footerStart, })",
       "err := unmarshalFixedOffsetFunc(r.offsets, offsetsBlock); err != nil",
       "_, err := encoding.BitmapUnmarshal(r.keys, r.fullBlock[posOfKeys:]); err != nil",
       "r.offsets.Size() != int(r.keys.GetCardinality())"] ∧
    Generated.C15.readerInitSlices =
      ["r.fullBlock[footerStart+magicNumberAtFooter:]", "r.fullBlock[footerStart : footerStart+4]",
       "r.fullBlock[footerStart+4 : footerStart+8]", "r.fullBlock[posOfOffset:posOfKeys]",
       "r.fullBlock[posOfKeys:]", "r.fullBlock[:posOfOffset]"] :=
  ⟨rfl, rfl⟩

/-- kv/table/cache.go statement for statement (counters left out): what `Model/TableLRU.lean`
mirrors — a hit retains and returns the cached reader without looking at the family; a miss opens,
retains, adds at the front, registers the family; `ReleaseReaders` / `Evict` find the entry by
file name through `LRUCache.Get` (which moves it to the front); `Cleanup` evicts from the back
while `ref == 0` and expired, and stops at the first entry it keeps -/
theorem tie_reader_cache :
    Generated.C15.cacheGetReaderStmts =
      ["c.mutex.Lock()", "defer c.mutex.Unlock()",
       "if entry, ok := c.cache.Get(fileName); ok { entry.retain() metrics.TableCacheStatistics.Hit.Incr() return entry.reader, nil }",
       "path := filepath.Join(c.storePath, family, fileName)", "newReader, err := newMMapStoreReaderFunc(path, fileName)",
       "if err != nil { return nil, err }",
       "entry := &cacheEntry{ key: fileName, reader: newReader, family: family, fileName: fileName, }",
       "entry.retain()", "c.cache.Add(fileName, entry)",
       "if files, ok := c.families[family]; ok { files[fileName] = struct{}{} } else { c.families[family] = map[string]struct{}{fileName: {}} }",
       "return newReader, nil"] ∧
    Generated.C15.cacheReleaseStmts =
      ["c.mutex.Lock()", "defer c.mutex.Unlock()",
       "for _, r := range readers { if entry, ok := c.cache.Get(r.FileName()); ok { entry.release() } }"] ∧
    Generated.C15.cacheEvictStmts =
      ["c.mutex.Lock()", "defer c.mutex.Unlock()",
       "if entry, ok := c.cache.Get(fileName); ok { c.evict(entry) c.cache.Remove(fileName) }"] ∧
    Generated.C15.cacheCleanupStmts =
      ["c.mutex.Lock()", "defer c.mutex.Unlock()", "ttl := c.ttl.Milliseconds()",
       "c.cache.Walk(func(entry *cacheEntry) bool { if entry.ref.Load() == 0 && timeutil.Now()-entry.last > ttl { c.evict(entry) metrics.TableCacheStatistics.Evict.Incr() return true } return false })"] ∧
    Generated.C15.cacheEvictEntryStmts =
      ["c.closeReader(entry)", "files := c.families[entry.family]", "delete(files, entry.fileName)",
       "if len(files) == 0 { delete(c.families, entry.family) }"] ∧
    Generated.C15.cacheRetainStmts = ["e.ref.Inc()", "e.last = timeutil.Now()"] ∧
    Generated.C15.cacheReleaseEntryStmts = ["e.ref.Dec()"] ∧
    Generated.C15.lruAddStmts = ["entry := c.evictList.PushFront(value)", "c.items[key] = entry"] ∧
    Generated.C15.lruGetStmts =
      ["if ent, ok := c.items[key]; ok { c.evictList.MoveToFront(ent) value := ent.Value.(*cacheEntry) return value, true }",
       "return"] ∧
    Generated.C15.lruRemoveStmts = ["if ent, ok := c.items[key]; ok { c.removeElement(ent) }"] ∧
    Generated.C15.lruWalkStmts =
      ["size := len(c.items)",
       "for i := 0; i < size; i++ { ent := c.evictList.Back() if ent != nil { entry := ent.Value.(*cacheEntry) if fn(entry) { c.removeElement(ent) } else { break } } }"] ∧
    Generated.C15.lruRemoveElementStmts =
      ["c.evictList.Remove(e)", "kv := e.Value.(*cacheEntry)", "delete(c.items, kv.key)"] :=
  ⟨rfl, rfl, rfl, rfl, rfl, rfl, rfl, rfl, rfl, rfl, rfl, rfl⟩

/-! ## table files -/

/-- **table_get.** A table built by any well-formed mix of `Add` and stream writes can be closed
and opened; every entry the builder kept is found with its exact bytes, every other key is
reported absent (`ErrKeyNotExist`). `accepted` = the entries kept: the first one and every later
one whose key exceeds the last kept key — for an ascending input that is the whole input
(`table_iter_sorted`). -/
theorem table_get (K : KeySetOps B) (hK : K.Lawful) (items : List Put) (hne : items ≠ [])
    (hkeys : ∀ it ∈ items, it.entry.1 < 4294967296)
    (hsize : SizeOK (accepted (items.map Put.entry))) :
    ∃ b file r, Builder.run K (Builder.init K) (items.flatMap Put.ops) = some b ∧
      b.close K = some file ∧ Reader.open K file = some r ∧
      (∀ e ∈ accepted (items.map Put.entry), r.get K e.1 = .ok e.2) ∧
      (∀ k, (∀ e ∈ accepted (items.map Put.entry), e.1 ≠ k) → r.get K k = .absent) := by
  obtain ⟨b, hrun, _, hrest⟩ := build_ok hK items
  obtain ⟨file, r, hclose, hopen, hrepr⟩ := hrest hne hkeys hsize
  exact ⟨b, file, r, hrun, hclose, hopen, fun e he => get_present hK hrepr e he,
    fun k hk => get_absent hK hrepr k hk⟩

/-- **table_iter_sorted.** The iterator of the opened table delivers exactly the kept entries, in
strictly ascending key order; if the input keys were strictly ascending that is the input itself. -/
theorem table_iter_sorted (K : KeySetOps B) (hK : K.Lawful) (items : List Put) (hne : items ≠ [])
    (hkeys : ∀ it ∈ items, it.entry.1 < 4294967296)
    (hsize : SizeOK (accepted (items.map Put.entry))) :
    ∃ b file r, Builder.run K (Builder.init K) (items.flatMap Put.ops) = some b ∧
      b.close K = some file ∧ Reader.open K file = some r ∧
      r.iterate K = accepted (items.map Put.entry) ∧
      ((r.iterate K).map (·.1)).Pairwise (· < ·) ∧
      (((items.map Put.entry).map (·.1)).Pairwise (· < ·) → r.iterate K = items.map Put.entry) := by
  obtain ⟨b, hrun, _, hrest⟩ := build_ok hK items
  obtain ⟨file, r, hclose, hopen, hrepr⟩ := hrest hne hkeys hsize
  refine ⟨b, file, r, hrun, hclose, hopen, iterate_eq hrepr, ?_, ?_⟩
  · rw [iterate_eq hrepr]; exact hrepr.asc
  · intro hasc; rw [iterate_eq hrepr, accepted_of_asc _ hasc]

/-- **table_meta.** After any well-formed use the builder reports `Count()` = number of kept
entries, `MinKey()` = the first kept key, `MaxKey()` = the last kept key, and every kept key lies
in [MinKey, MaxKey] (this is what the flusher records in the file's `FileMeta`). -/
theorem table_meta (K : KeySetOps B) (hK : K.Lawful) (items : List Put) :
    ∃ b, Builder.run K (Builder.init K) (items.flatMap Put.ops) = some b ∧
      b.count K = (accepted (items.map Put.entry)).length ∧
      (∀ e, (accepted (items.map Put.entry)).head? = some e → b.minKey = e.1) ∧
      (∀ e, (accepted (items.map Put.entry)).getLast? = some e → b.maxKey = e.1) ∧
      (∀ e ∈ accepted (items.map Put.entry), b.minKey ≤ e.1 ∧ e.1 ≤ b.maxKey) := by
  obtain ⟨b, hrun, hinv, _⟩ := build_ok hK items
  obtain ⟨h1, h2, h3, h4⟩ := meta_of_inv hK hinv
  refine ⟨b, hrun, h1, h2, h3, ?_⟩
  intro e he
  exact h4 (by intro h; rw [h] at he; simp at he) e he

/-- **table_file_layout.** The finished file, byte for byte: the kept values back to back, then
the fixed-width offset table of their start offsets exactly as `FixedOffsetEncoder.MarshalBinary`
writes it (C14's model; `Props.C14.fixedoffset_roundtrip` / `fixedoffset_getBlock_correct` are
the codec facts `table_get` rests on), then the marshalled key bitmap, then the footer
`posOfOffset(4) posOfKeys(4) version(1) magic(8)`. -/
theorem table_file_layout (K : KeySetOps B) (hK : K.Lawful) (items : List Put) (hne : items ≠ []) :
    ∃ b, Builder.run K (Builder.init K) (items.flatMap Put.ops) = some b ∧
      b.close K = some
        (((accepted (items.map Put.entry)).map (·.2)).flatten ++
         (FixedOffset.encOf true (startsFrom 0 ((accepted (items.map Put.entry)).map (·.2)))).marshal ++
         K.marshal (((accepted (items.map Put.entry)).map (·.1)).foldl K.add K.empty) ++
         footer ((accepted (items.map Put.entry)).map (·.2)).flatten.length
           (((accepted (items.map Put.entry)).map (·.2)).flatten.length +
             (FixedOffset.encOf true (startsFrom 0 ((accepted (items.map Put.entry)).map (·.2)))).marshal.length)) := by
  obtain ⟨b, hrun, hinv, _⟩ := build_ok hK items
  exact ⟨b, hrun, close_layout hinv hK (accepted_ne_nil _ (by simpa using hne))⟩

/-- **footer_roundtrip.** The 17 footer bytes read back as `initialize` reads them: both positions
(modulo 2^32 — `Close` stores `uint32(pos)`, which is why `SizeOK` is assumed elsewhere), the
version byte `version0`, the magic number; and a file whose magic does not match is refused. -/
theorem footer_roundtrip (p1 p2 : Nat) :
    (footer p1 p2).length = sstFileFooterSize ∧
    leVal ((footer p1 p2).take 4) = p1 % 4294967296 ∧
    leVal (((footer p1 p2).drop 4).take 4) = p2 % 4294967296 ∧
    (footer p1 p2)[8]? = some version0 ∧
    leVal (((footer p1 p2).drop magicNumberAtFooter).take 8) = magicNumberOffsetFile ∧
    (∀ (K : KeySetOps B) (full : Bytes),
      leVal ((full.drop (full.length - sstFileFooterSize + magicNumberAtFooter)).take 8) ≠ magicNumberOffsetFile →
      Reader.open K full = none) := by
  obtain ⟨h1, h2, h3, h4, h5⟩ := footer_fields p1 p2
  exact ⟨h1, h2, h3, h4, h5, fun K full h => open_refuses_bad_magic K full h⟩

/-- **rank_at_container_boundaries.** What the lookup needs from `Rank`, spelled out per 65536-key
container: `Rank(k)` = (members in lower containers) + (members of k's container up to k), where
the first summand counts members strictly below the container's first possible key
`(k/65536)·65536`; it equals `Rank` of that key **minus one when that key is itself stored**
(`Neg.rank_of_container_start_is_not_the_base`). With the contract `rank_eq` this is a theorem,
not an extra assumption; `table_get` covers keys that are exact multiples of 65536 like any other. -/
theorem rank_at_container_boundaries (K : KeySetOps B) (hK : K.Lawful) (b : B) (k : Nat) :
    K.rank b k =
      (K.toList b).countP (fun x => decide (x < k / 65536 * 65536)) +
      (K.toList b).countP (fun x => decide (x / 65536 = k / 65536 ∧ x % 65536 ≤ k % 65536)) ∧
    (K.toList b).countP (fun x => decide (x < k / 65536 * 65536)) +
      (K.toList b).countP (fun x => decide (x = k / 65536 * 65536)) = K.rank b (k / 65536 * 65536) :=
  ⟨rank_container_split hK b k, container_base_eq hK b k⟩

/-- **reject_out_of_order (state).** In any state reached by well-formed use, `Add` of a key that
is not above the last kept key returns the state *unchanged*; a stream write of such a key
(`Prepare; Write*; Commit`) leaves every byte, offset, key, min/max and count unchanged. -/
theorem reject_out_of_order (K : KeySetOps B) (hK : K.Lawful) (items : List Put) (k : Nat) (v : Bytes)
    (chunks : List Bytes) (hbad : ∃ l, (accepted (items.map Put.entry)).getLast? = some l ∧ k ≤ l.1) :
    ∃ b, Builder.run K (Builder.init K) (items.flatMap Put.ops) = some b ∧
      b.add K k v = some b ∧
      ∃ b', Builder.run K b (Put.stream k chunks).ops = some b' ∧
        b'.written = b.written ∧ b'.offset = b.offset ∧ b'.keys = b.keys ∧
        b'.minKey = b.minKey ∧ b'.maxKey = b.maxKey ∧ b'.first = b.first ∧ b'.size = b.size := by
  obtain ⟨b, hrun, hinv, _⟩ := build_ok hK items
  obtain ⟨l, hl, hkl⟩ := hbad
  have hstale : ¬ Fresh (accepted (items.map Put.entry)) k := by
    intro hf; have := hf l hl; omega
  have he : b.ensureIncreasingKey k = false := by
    cases hb : b.ensureIncreasingKey k with
    | false => rfl
    | true => exact absurd ((ensure_iff hinv.pre k).mp hb) hstale
  refine ⟨b, hrun, by simp [Builder.add, he], b.prepare k, ?_, rfl, rfl, rfl, rfl, rfl, rfl, rfl⟩
  have hbk : (b.prepare k).sw.badKey = true := by simp [Builder.prepare, he]
  simp only [Put.ops, Builder.run, Builder.step]
  rw [run_writes_closed chunks (b.prepare k) [Op.commit] hbk]
  simp [Builder.run, Builder.step, Builder.commit, hbk]

/-- **reject_out_of_order (file).** An out-of-order item (added or streamed) anywhere in the
sequence does not disturb the others: the finished file is byte-for-byte the file built without it. -/
theorem reject_out_of_order_file (K : KeySetOps B) (hK : K.Lawful) (items1 items2 : List Put) (bad : Put)
    (hbad : ∃ l, (accepted (items1.map Put.entry)).getLast? = some l ∧ bad.entry.1 ≤ l.1) :
    ∃ b1 b2, Builder.run K (Builder.init K) ((items1 ++ bad :: items2).flatMap Put.ops) = some b1 ∧
      Builder.run K (Builder.init K) ((items1 ++ items2).flatMap Put.ops) = some b2 ∧
      b1.close K = b2.close K ∧ b1.count K = b2.count K ∧ b1.minKey = b2.minKey ∧ b1.maxKey = b2.maxKey := by
  obtain ⟨b1, hrun1, hinv1, _⟩ := build_ok hK (items1 ++ bad :: items2)
  obtain ⟨b2, hrun2, hinv2, _⟩ := build_ok hK (items1 ++ items2)
  obtain ⟨l, hl, hkl⟩ := hbad
  have hstale : ¬ Fresh (accepted (items1.map Put.entry)) bad.entry.1 := by
    intro hf; have := hf l hl; omega
  have heq : accepted ((items1 ++ bad :: items2).map Put.entry) = accepted ((items1 ++ items2).map Put.entry) := by
    simp only [List.map_append, List.map_cons]
    exact accepted_skip _ _ _ hstale
  rw [heq] at hinv1
  refine ⟨b1, b2, hrun1, hrun2, close_eq_of_inv hinv1 hinv2, ?_, ?_, ?_⟩
  · rw [(meta_of_inv hK hinv1).1, (meta_of_inv hK hinv2).1]
  · cases hh : (accepted ((items1 ++ items2).map Put.entry)).head? with
    | none =>
      have : accepted ((items1 ++ items2).map Put.entry) = [] := List.head?_eq_none_iff.mp hh
      -- impossible: items1 is non-empty (it has a last accepted entry)
      exfalso
      have hne : (items1 ++ items2).map Put.entry ≠ [] := by
        intro h0
        have : items1 = [] := by
          cases items1 with
          | nil => rfl
          | cons a t => simp at h0
        subst this; simp [accepted] at hl
      exact accepted_ne_nil _ hne this
    | some e => rw [(meta_of_inv hK hinv1).2.1 e hh, (meta_of_inv hK hinv2).2.1 e hh]
  · cases hh : (accepted ((items1 ++ items2).map Put.entry)).getLast? with
    | none =>
      exfalso
      have : accepted ((items1 ++ items2).map Put.entry) = [] := List.getLast?_eq_none_iff.mp hh
      have hne : (items1 ++ items2).map Put.entry ≠ [] := by
        intro h0
        have : items1 = [] := by
          cases items1 with
          | nil => rfl
          | cons a t => simp at h0
        subst this; simp [accepted] at hl
      exact accepted_ne_nil _ hne this
    | some e => rw [(meta_of_inv hK hinv1).2.2.1 e hh, (meta_of_inv hK hinv2).2.2.1 e hh]

/-- **mix_add_stream.** Any interleaving of `Add`s and complete stream writes behaves as the
`Add`s of the concatenated bytes: no panic, same file bytes on `Close`, same count/min/max/size. -/
theorem mix_add_stream (K : KeySetOps B) (hK : K.Lawful) (items : List Put) :
    ∃ b1 b2, Builder.run K (Builder.init K) (items.flatMap Put.ops) = some b1 ∧
      Builder.run K (Builder.init K) (items.map (fun it => Op.add it.entry.1 it.entry.2)) = some b2 ∧
      b1.close K = b2.close K ∧ b1.count K = b2.count K ∧ b1.minKey = b2.minKey ∧
      b1.maxKey = b2.maxKey ∧ b1.size = b2.size := by
  obtain ⟨b1, hrun1, hinv1, _⟩ := build_ok hK items
  obtain ⟨b2, hrun2, hinv2, _⟩ := build_ok hK (items.map (fun it => Put.add it.entry.1 it.entry.2))
  have hops : ∀ l : List Put, (l.map (fun it => Put.add it.entry.1 it.entry.2)).flatMap Put.ops =
      l.map (fun it => Op.add it.entry.1 it.entry.2) := by
    intro l
    induction l with
    | nil => rfl
    | cons a t ih => simp [List.flatMap_cons, Put.ops, ih]
  have hent : (items.map (fun it => Put.add it.entry.1 it.entry.2)).map Put.entry = items.map Put.entry := by
    simp [Put.entry]
  rw [hops items] at hrun2
  rw [hent] at hinv2
  have hmin : b1.minKey = b2.minKey := by
    have e1 := hinv1.pre.minKey; have e2 := hinv2.pre.minKey; have f1 := hinv1.pre.first; have f2 := hinv2.pre.first
    cases hh : (accepted (items.map Put.entry)).head? with
    | some e => rw [e1 e hh, e2 e hh]
    | none =>
      -- nothing was added: both builders still carry the initial 0
      have hnil : items = [] := by
        cases items with
        | nil => rfl
        | cons a t =>
          exfalso
          exact accepted_ne_nil ((a :: t).map Put.entry) (by simp) (List.head?_eq_none_iff.mp hh)
      subst hnil
      simp [Builder.run] at hrun1 hrun2
      rw [← hrun1, ← hrun2]
  have hmax : b1.maxKey = b2.maxKey := by
    have e1 := hinv1.pre.maxKey; have e2 := hinv2.pre.maxKey
    cases hh : (accepted (items.map Put.entry)).getLast? with
    | some e => rw [e1 e hh, e2 e hh]
    | none =>
      have hnil : items = [] := by
        cases items with
        | nil => rfl
        | cons a t =>
          exfalso
          exact accepted_ne_nil ((a :: t).map Put.entry) (by simp) (List.getLast?_eq_none_iff.mp hh)
      subst hnil
      simp [Builder.run] at hrun1 hrun2
      rw [← hrun1, ← hrun2]
  refine ⟨b1, b2, hrun1, hrun2, close_eq_of_inv hinv1 hinv2, ?_, hmin, hmax, ?_⟩
  · rw [(meta_of_inv hK hinv1).1, (meta_of_inv hK hinv2).1]
  · rw [hinv1.pre.size, hinv2.pre.size, hinv1.pre.written, hinv2.pre.written]

/-! ## container/heap and lindb's priorityQueue -/

/-- **pq_glue.** lindb's `Len/Less/Swap` act on the queue as on an array of (input, key, value)
cells: `Less` compares the keys, `Swap` exchanges the two cells (and nothing else, apart from the
`index` bookkeeping field). This is all `container/heap` needs (`pqView`). -/
theorem pq_glue (pq : PQ) (i j : Nat) (hi : i < pq.length) (hj : j < pq.length) :
    pqLen pq = pq.length ∧
    pqLess pq i j = decide (pq[i].key < pq[j].key) ∧
    (pqSwap pq i j).map core = swapL (pq.map core) i j := by
  refine ⟨rfl, ?_, ?_⟩
  · simp [pqLess, List.getElem?_eq_getElem hi, List.getElem?_eq_getElem hj]
  · exact pqView.swap_eq pq i j (by simpa [pqView] using hi) (by simpa [pqView] using hj)

/-- **heap_init_spec.** `heap.Init` (the stdlib's sift-down loop) on lindb's queue: heap order
established, the cells only permuted. -/
theorem heap_init_spec (pq : PQ) :
    IsHeapPQ (heapInit pqIface pq) ∧ ((heapInit pqIface pq).map core).Perm (pq.map core) :=
  heapInit_pq pq

/-- **heap_pop_spec.** `heap.Pop` on a non-empty heap returns an item with a minimal key and
leaves a heap of exactly the other cells. -/
theorem heap_pop_spec (pq : PQ) (hne : pq ≠ []) (hh : IsHeapPQ pq) :
    ∃ pq' x, heapPop pq = some (pq', x) ∧ (core x :: pq'.map core).Perm (pq.map core) ∧
      IsHeapPQ pq' ∧ (∀ c ∈ pq.map core, x.key ≤ c.2.1) :=
  let ⟨pq', x, h1, h2, h3, h4, _⟩ := heapPop_spec pq hne hh
  ⟨pq', x, h1, h2, h3, h4⟩

/-- **heap_pushfix_spec.** `pq.Push(item); pq.update(item)` (= `heap.Fix` at the index `Push` just
stored) on a heap gives a heap of the old cells plus the new one; it never sees a stale index. -/
theorem heap_pushfix_spec (pq : PQ) (x : MergedIter.Item) (hh : IsHeapPQ pq) :
    ∃ pq3, pqUpdate (pqPush pq x) (pq.length : Int) = some pq3 ∧
      (pq3.map core).Perm (core x :: pq.map core) ∧ IsHeapPQ pq3 :=
  pushFix_spec pq x hh

/-! ## merged iterator -/

/-- **merge_sorted_perm.** Merging any number of inputs that are each non-decreasing by key
(any overlap, empty inputs, equal keys inside and across inputs) delivers every pair of every
input exactly once — the output is a permutation of the concatenation — in non-decreasing key
order. -/
theorem merge_sorted_perm (its : List Input) (hs : ∀ it ∈ its, SortedInput it) :
    (mergeAll its).Perm its.flatten ∧ (mergeAll its).Pairwise (fun a b => a.1 ≤ b.1) := by
  obtain ⟨h1, h2, _⟩ := mergeAllTagged_spec its hs
  rw [mergeAll_eq_map]
  constructor
  · have := h1.map (·.2)
    rwa [tagInputs_map_snd] at this
  · exact List.pairwise_map.mpr h2

/-- **merge_order_among_equal_keys.** What holds among equal keys, exactly: the pairs of one
input come out in that input's order (for every input s, the sub-sequence of the output that
came from s is input s itself); between different inputs no order is promised — it is whatever the
heap's sift order produces (`Neg.merge_ties_not_by_input_order`). -/
theorem merge_order_among_equal_keys (its : List Input) (hs : ∀ it ∈ its, SortedInput it) (s : Nat) :
    ((mergeAllTagged its).filter (fun c => c.1 = s)).map (·.2) =
      (match its[s]? with | some it => it | none => []) ∧
    mergeAll its = (mergeAllTagged its).map (·.2) :=
  ⟨(mergeAllTagged_spec its hs).2.2 s, mergeAll_eq_map its⟩

/-! ## Version.FindFiles / Snapshot.Load -/

/-- **findfiles_every_level.** `FindFiles(key)` returns exactly the files, of whatever level and
position inside the level, whose recorded [minKey, maxKey] contains the key. -/
theorem findfiles_every_level (levels : List (List FileMeta)) (key : Nat) (f : FileMeta) :
    f ∈ findFiles levels key ↔ f ∈ levels.flatten ∧ f.minKey ≤ key ∧ key ≤ f.maxKey :=
  mem_findFiles levels key f

/-- **load_all_values.** In a version whose files (any number of levels, any order inside a
level) are tables written by the builder and recorded with the builder's MinKey/MaxKey,
`Load(key)` hands the loader the value of `key` from *every* file that holds the key — one value
per such file, in file order — and nothing else; it does not fail. -/
theorem load_all_values (K : KeySetOps B) (hK : K.Lawful) (fs : Nat → Option Bytes)
    (levels : List (List FileMeta)) (src : FileMeta → List Put) (key : Nat)
    (hbuilt : ∀ f ∈ levels.flatten, src f ≠ [] ∧ (∀ it ∈ src f, it.entry.1 < 4294967296) ∧
      SizeOK (accepted ((src f).map Put.entry)) ∧
      ∃ b, Builder.run K (Builder.init K) ((src f).flatMap Put.ops) = some b ∧
        fs f.fileNumber = b.close K ∧ f.minKey = b.minKey ∧ f.maxKey = b.maxKey) :
    load K fs levels key =
      some (levels.flatten.filterMap (fun f => lookup key (accepted ((src f).map Put.entry)))) := by
  unfold load
  rw [findFiles_eq]
  apply loadFiles_spec hK fs (fun f => accepted ((src f).map Put.entry)) key
  intro f hf
  obtain ⟨hne, hkeys, hsz, b, hrun, hfile, hmin, hmax⟩ := hbuilt f hf
  obtain ⟨b', hrun', hinv, hrest⟩ := build_ok hK (src f)
  have hb : b' = b := by rw [hrun] at hrun'; exact (Option.some.inj hrun').symm
  subst hb
  obtain ⟨file, r, hclose, hopen, hrepr⟩ := hrest hne hkeys hsz
  refine ⟨file, r, by rw [hfile, hclose], hopen, hrepr, ?_⟩
  intro e he
  have he' : e ∈ accepted ((src f).map Put.entry) := he
  rw [hmin, hmax]
  exact (meta_of_inv hK hinv).2.2.2 (by intro h; rw [h] at he'; simp at he') e he'

/-- **find_readers_all.** Under the same hypotheses `FindReaders(key)` opens a reader for every
file `FindFiles` returns (so for every file holding the key) and does not fail. -/
theorem find_readers_all (K : KeySetOps B) (hK : K.Lawful) (fs : Nat → Option Bytes)
    (levels : List (List FileMeta)) (src : FileMeta → List Put) (key : Nat)
    (hbuilt : ∀ f ∈ levels.flatten, src f ≠ [] ∧ (∀ it ∈ src f, it.entry.1 < 4294967296) ∧
      SizeOK (accepted ((src f).map Put.entry)) ∧
      ∃ b, Builder.run K (Builder.init K) ((src f).flatMap Put.ops) = some b ∧
        fs f.fileNumber = b.close K ∧ f.minKey = b.minKey ∧ f.maxKey = b.maxKey) :
    findReaders K fs levels key = some ((findFiles levels key).map (·.fileNumber)) ∧
    (∀ f ∈ levels.flatten, (∃ e ∈ accepted ((src f).map Put.entry), e.1 = key) → f ∈ findFiles levels key) := by
  have hok : VersionOK K fs levels.flatten (fun f => accepted ((src f).map Put.entry)) := by
    intro f hf
    obtain ⟨hne, hkeys, hsz, b, hrun, hfile, hmin, hmax⟩ := hbuilt f hf
    obtain ⟨b', hrun', hinv, hrest⟩ := build_ok hK (src f)
    have hb : b' = b := by rw [hrun] at hrun'; exact (Option.some.inj hrun').symm
    subst hb
    obtain ⟨file, r, hclose, hopen, hrepr⟩ := hrest hne hkeys hsz
    refine ⟨file, r, by rw [hfile, hclose], hopen, hrepr, ?_⟩
    intro e he
    have he' : e ∈ accepted ((src f).map Put.entry) := he
    rw [hmin, hmax]
    exact (meta_of_inv hK hinv).2.2.2 (by intro h; rw [h] at he'; simp at he') e he'
  refine ⟨findReaders_spec fs levels _ key hok, ?_⟩
  intro f hf ⟨e, he, hek⟩
  obtain ⟨_, _, _, _, _, hrange⟩ := hok f hf
  have := hrange e he
  rw [hek] at this
  exact (mem_findFiles levels key f).mpr ⟨hf, this⟩

/-- **find_readers_error_or_all.** When some tables cannot be opened (`cache.GetReader` fails for
them — file moved away, EMFILE, mmap error), `FindReaders(key)` and `Load(key)` either return an
error — exactly when one of the files covering the key is among them — or deliver every reader /
every value: never a silent subset. -/
theorem find_readers_error_or_all (K : KeySetOps B) (hK : K.Lawful) (fs : Nat → Option Bytes)
    (openFails : Nat → Bool)
    (levels : List (List FileMeta)) (src : FileMeta → List Put) (key : Nat)
    (hbuilt : ∀ f ∈ levels.flatten, src f ≠ [] ∧ (∀ it ∈ src f, it.entry.1 < 4294967296) ∧
      SizeOK (accepted ((src f).map Put.entry)) ∧
      ∃ b, Builder.run K (Builder.init K) ((src f).flatMap Put.ops) = some b ∧
        fs f.fileNumber = b.close K ∧ f.minKey = b.minKey ∧ f.maxKey = b.maxKey) :
    findReaders K (failing fs openFails) levels key =
      (if (findFiles levels key).any (fun f => openFails f.fileNumber) then none
       else some ((findFiles levels key).map (·.fileNumber))) ∧
    load K (failing fs openFails) levels key =
      (if (findFiles levels key).any (fun f => openFails f.fileNumber) then none
       else some (levels.flatten.filterMap (fun f => lookup key (accepted ((src f).map Put.entry))))) := by
  have hok : VersionOK K fs levels.flatten (fun f => accepted ((src f).map Put.entry)) := by
    intro f hf
    obtain ⟨hne, hkeys, hsz, b, hrun, hfile, hmin, hmax⟩ := hbuilt f hf
    obtain ⟨b', hrun', hinv, hrest⟩ := build_ok hK (src f)
    have hb : b' = b := by rw [hrun] at hrun'; exact (Option.some.inj hrun').symm
    subst hb
    obtain ⟨file, r, hclose, hopen, hrepr⟩ := hrest hne hkeys hsz
    refine ⟨file, r, by rw [hfile, hclose], hopen, hrepr, ?_⟩
    intro e he
    have he' : e ∈ accepted ((src f).map Put.entry) := he
    rw [hmin, hmax]
    exact (meta_of_inv hK hinv).2.2.2 (by intro h; rw [h] at he'; simp at he') e he'
  refine ⟨findReaders_failing fs openFails levels _ key hok, ?_⟩
  unfold load
  rw [findFiles_eq]
  exact loadFiles_failing hK fs openFails _ key levels.flatten hok

/-- **snapshot_version_unchanged.** Level maps are heap objects and a version is the list of their
addresses (Go maps are references). `Clone()` allocates fresh maps; whatever edit log
(`newFile`/`deleteFile`, compaction- or move-shaped, any order) is then applied to the clone, the
source version — the one an open snapshot holds — still dereferences to the same levels, so its
`FindFiles`/`FindReaders`/`Load` answer as before; the clone sees the edited levels.
(`Neg.shared_level_maps_lose_files`: not so if the clone shared the maps.) -/
theorem snapshot_version_unchanged (K : KeySetOps B) (fs : Nat → Option Bytes) (heap : Heap) (v : Ver)
    (logs : List VLog) (key : Nat) (hval : ∀ a ∈ v, a < heap.length) :
    deref (applyLogsH (cloneDeep heap v).1 (cloneDeep heap v).2 logs) v = deref heap v ∧
    findFiles (deref (applyLogsH (cloneDeep heap v).1 (cloneDeep heap v).2 logs) v) key = findFiles (deref heap v) key ∧
    load K fs (deref (applyLogsH (cloneDeep heap v).1 (cloneDeep heap v).2 logs) v) key = load K fs (deref heap v) key ∧
    findReaders K fs (deref (applyLogsH (cloneDeep heap v).1 (cloneDeep heap v).2 logs) v) key =
      findReaders K fs (deref heap v) key ∧
    deref (applyLogsH (cloneDeep heap v).1 (cloneDeep heap v).2 logs) (cloneDeep heap v).2 =
      applyLogs (deref heap v) logs := by
  obtain ⟨h1, h2⟩ := clone_isolates heap v logs hval
  refine ⟨h1, ?_, ?_, ?_, h2⟩ <;> rw [h1]

/-- **aborted_build_not_in_version.** A builder whose `Close` hit an I/O error contributes no edit-log
entry, so the version — and every lookup — is what it was; a successful `Close` contributes exactly
one `NewFile` at level 0 carrying the builder's MinKey/MaxKey. (Whether the abandoned bytes on disk
happen to parse as a table is irrelevant and not excluded: `Neg.abandoned_bytes_may_parse_as_a_table`.) -/
theorem aborted_build_not_in_version (K : KeySetOps B) (b : Builder B) (fileNumber : Nat)
    (levels : List (List FileMeta)) (key : Nat) :
    commitLogs K b fileNumber false = [] ∧
    findFiles (applyLogs levels (commitLogs K b fileNumber false)) key = findFiles levels key ∧
    (∀ file, b.size ≠ 0 → b.close K = some file →
      commitLogs K b fileNumber true =
        [.newFile 0 { fileNumber := fileNumber, minKey := b.minKey, maxKey := b.maxKey, fileSize := b.size }]) := by
  have h0 : commitLogs K b fileNumber false = [] := by
    unfold commitLogs; split <;> simp
  refine ⟨h0, by rw [h0]; rfl, ?_⟩
  intro file hs hc
  unfold commitLogs
  simp [hs, hc]

/-- **stream_checksum.** `CRC32CheckSum()` after `Prepare(k); Write(d₁) … Write(dₙ)` of an accepted
key is the checksum (any function `crc`) of the concatenated chunks — of exactly the bytes that
become the value; and the finished file does not depend on the stream writer's state at all. -/
theorem stream_checksum (K : KeySetOps B) (crc : Bytes → Nat) (b : Builder B) (k : Nat) (ds : List Bytes)
    (hk : b.ensureIncreasingKey k = true) :
    (∃ b', Builder.run K (b.prepare k) (ds.map Op.write) = some b' ∧ b'.swChecksum crc = crc ds.flatten) ∧
    (∀ (s : SW), ({ b with sw := s } : Builder B).close K = b.close K) := by
  constructor
  · obtain ⟨b', h1, h2, _⟩ := writes_crc (K := K) ds (b.prepare k) (by simp [Builder.prepare, hk])
    refine ⟨b', h1, ?_⟩
    unfold Builder.swChecksum
    rw [h2]
    simp [Builder.prepare]
  · intro s; rfl

/-- **iterators_independent.** `Reader.Iterator()` makes a new iterator object whose only state is its
own position; two iterators of the same reader stepped in any interleaving deliver, each, exactly
what it delivers when stepped alone — and an iterator stepped to the end delivers the table. -/
theorem iterators_independent (K : KeySetOps B) (r : Reader B) (s : List Bool) (a b : Iter) :
    ((stepTwo r s a b).filter (fun p => !p.1)).map (·.2) = stepOne r (s.count false) a ∧
    ((stepTwo r s a b).filter (fun p => p.1)).map (·.2) = stepOne r (s.count true) b ∧
    stepOne r (K.toList r.keys).length (r.iterator K) = (r.iterate K).map some := by
  refine ⟨stepTwo_first r s a b, stepTwo_second r s a b, ?_⟩
  unfold Reader.iterator Reader.iterate
  rw [stepOne_all]
  simp

/-! ## opening arbitrary bytes: what `initialize` validates -/

/-- **open_validates_or_refuses.** For ANY byte string (a table cut short, with flipped bytes, or no
table at all) `newMMapStoreReader` either refuses it — exactly when one of the six named checks
fails (`Reader.openE`) — or hands out a reader for which every slice expression of `initialize` was
in bounds (`posOfOffset ≤ posOfKeys ≤ footerStart`), the key section unmarshalled, the offsets
section holds as many offsets as there are keys, and every value a lookup (`Get`) or the iterator
(`Value()`) delivers is a contiguous piece of the entries region `file[:posOfOffset]` — never bytes
of the offsets / key sections or of the footer, never out of range. (There is no checksum over the
values: a flipped value byte is delivered as it is; that is outside what the format can detect.) -/
theorem open_validates_or_refuses (K : KeySetOps B) (full : Bytes) :
    (Reader.open K full = none ↔ ∃ e, Reader.openE K full = .error e) ∧
    (∀ r, Reader.open K full = some r →
      sstFileFooterSize ≤ full.length ∧
      (footerPos full).1 ≤ (footerPos full).2 ∧ (footerPos full).2 ≤ full.length - sstFileFooterSize ∧
      r.entries = full.take (footerPos full).1 ∧
      K.unmarshal (full.drop (footerPos full).2) = some r.keys ∧
      r.offsets.sizeOf = (K.card r.keys : Int) ∧
      (∀ key v, r.get K key = .ok v → v <:+: full.take (footerPos full).1) ∧
      (∀ i, r.valueAt i <:+: full.take (footerPos full).1)) := by
  constructor
  · rw [open_eq_openE]
    cases h : Reader.openE K full with
    | ok r => simp [okOf]
    | error e => simp [okOf]
  · intro r h
    obtain ⟨h1, _, h3, h4, h5, _, h7, h8⟩ := open_sound K full r h
    refine ⟨h1, h3, h4, h5, h7, h8, ?_, ?_⟩
    · intro key v hv
      rw [← h5]
      exact get_infix K r key v hv
    · intro i
      rw [← h5]
      exact valueAt_infix r i

/-- **truncated_tail_refused.** A table written by the builder and then cut short by 1 to 8 bytes
(a torn last write) is never opened, whatever its content: the file is too short, or the version
byte 0 sits where the magic number has a non-zero byte. (Longer truncations cannot be excluded by
the format: a value may itself be a table image — `Neg.abandoned_bytes_may_parse_as_a_table`.) -/
theorem truncated_tail_refused (K : KeySetOps B) (hK : K.Lawful) (items : List Put) (hne : items ≠ [])
    (n : Nat) (h1 : 1 ≤ n) (h8 : n ≤ 8) :
    ∃ b file, Builder.run K (Builder.init K) (items.flatMap Put.ops) = some b ∧ b.close K = some file ∧
      Reader.open K (file.take (file.length - n)) = none := by
  obtain ⟨b, hrun, hclose⟩ := table_file_layout K hK items hne
  exact ⟨b, _, hrun, hclose, open_truncated_tail K _ _ _ n h1 h8⟩

/-- the same for any bytes that end in a footer — nothing about the body is used -/
theorem truncated_tail_refused_any (K : KeySetOps B) (body : Bytes) (p1 p2 n : Nat) (h1 : 1 ≤ n) (h8 : n ≤ 8) :
    Reader.open K ((body ++ footer p1 p2).take ((body ++ footer p1 p2).length - n)) = none :=
  open_truncated_tail K body p1 p2 n h1 h8

/-! ## the reader cache: which reader a lookup gets -/

/-- **cache_serves_the_named_table.** After ANY sequence of `GetReader` (hits, misses, failing
opens) / `ReleaseReaders` / `Evict` / `Cleanup` calls on a fresh cache, the cache holds at most one
entry per file and per reader object, every cached reader is open and is the reader of the file it
is filed under, and the next `GetReader(family, file)` either fails (the file is not cached and
cannot be opened: nothing changes) or hands out an open reader **of that file** which is now
cached under that name. Together with `table_get` (the file's bytes never change once written):
a lookup through the cache reads the table it asked for, whatever the cache went through before. -/
theorem cache_serves_the_named_table (ops : List TableLRU.Op) (family file : Nat) (canOpen : Bool) :
    TableLRU.Inv ((TableLRU.Cache.run {} ops)) ∧
    (match ((TableLRU.Cache.run {} ops).getReader family file canOpen).2 with
     | some rid =>
       ((TableLRU.Cache.run {} ops).getReader family file canOpen).1.opened[rid]? = some file ∧
       rid ∉ ((TableLRU.Cache.run {} ops).getReader family file canOpen).1.closed ∧
       ∃ e ∈ ((TableLRU.Cache.run {} ops).getReader family file canOpen).1.lru, e.rid = rid ∧ e.file = file
     | none =>
       TableLRU.find (TableLRU.Cache.run {} ops).lru file = none ∧ canOpen = false ∧
       ((TableLRU.Cache.run {} ops).getReader family file canOpen).1 = TableLRU.Cache.run {} ops) :=
  ⟨TableLRU.inv_run ops TableLRU.inv_empty,
   TableLRU.getReader_spec (TableLRU.inv_run ops TableLRU.inv_empty) family file canOpen⟩

/-- **cleanup_spares_referenced.** In any reachable cache state `Cleanup()` closes only readers whose
ref count is exactly 0, every entry with a non-zero count is still cached afterwards, and when no
entry has expired nothing changes at all. (It may close fewer than it could — the walk starts at
the least recently used entry and stops at the first one it must keep:
`Neg.cleanup_stops_at_the_first_kept_entry`.) -/
theorem cleanup_spares_referenced (ops : List TableLRU.Op) (expired : Bool) :
    (∀ r ∈ ((TableLRU.Cache.run {} ops).cleanup expired).closed,
      r ∈ (TableLRU.Cache.run {} ops).closed ∨
      ∃ e ∈ (TableLRU.Cache.run {} ops).lru, e.rid = r ∧ e.ref = 0) ∧
    (∀ e ∈ (TableLRU.Cache.run {} ops).lru, e.ref ≠ 0 →
      e ∈ ((TableLRU.Cache.run {} ops).cleanup expired).lru) ∧
    (expired = false → (TableLRU.Cache.run {} ops).cleanup expired = TableLRU.Cache.run {} ops) :=
  TableLRU.walk_spec expired _ (TableLRU.inv_run ops TableLRU.inv_empty)

/-! ## tables and merge together -/

/-- **merge_tables_all_entries.** Any number of tables, each written by the builder from its own
well-formed items (overlapping key ranges, the same key in several tables): merging the iterators
of their readers — what compaction and `NewMergedIterator` over a snapshot's readers do — delivers
every kept entry of every table exactly once, in non-decreasing key order. (`table_iter_sorted`
composed with `merge_sorted_perm`: a table iterator is strictly ascending, hence a legal input.) -/
theorem merge_tables_all_entries (K : KeySetOps B) (hK : K.Lawful) (tables : List (List Put))
    (readers : List (Reader B)) (hok : ∀ items ∈ tables, ItemsOK items)
    (hb : AllBuiltAs K tables readers) :
    (mergeAll (readers.map (fun r => r.iterate K))).Perm
      (tables.map (fun items => accepted (items.map Put.entry))).flatten ∧
    (mergeAll (readers.map (fun r => r.iterate K))).Pairwise (fun a b => a.1 ≤ b.1) := by
  rw [iterate_map_of_built hK tables readers hok hb]
  apply merge_sorted_perm
  intro it hit
  obtain ⟨items, hmem, rfl⟩ := List.mem_map.mp hit
  obtain ⟨b, hrun, _, hrest⟩ := build_ok hK items
  obtain ⟨_, _, _, _, hrepr⟩ := hrest (hok items hmem).1 (hok items hmem).2.1 (hok items hmem).2.2
  exact (List.pairwise_map.mp hrepr.asc).imp (fun h => Nat.le_of_lt h)

/-! ## Round 10: container layouts, the stream-writer protocol per operation, heap.Push, sorted merge -/

/-- **tie_goroot_heap.** Go's `container/heap` as it is compiled into lindb (GOROOT of the local
toolchain, re-read on every run), statement for statement: what `Model/MergedIter.lean` transcribes as
`heapInit`, `heapPush(Finish)`, `heapPopPrepare`, `heapFix`, `up`, `downLoop/down`. (`j1 < 0` in
`down` is Go's int-overflow guard; the model counts in `Nat`.) -/
theorem tie_goroot_heap :
    Generated.C15.goHeapInitStmts = ["n := h.Len()", "for i := n/2 - 1; i >= 0; i-- { down(h, i, n) }"] ∧
    Generated.C15.goHeapPushStmts = ["h.Push(x)", "up(h, h.Len()-1)"] ∧
    Generated.C15.goHeapPopStmts = ["n := h.Len() - 1", "h.Swap(0, n)", "down(h, 0, n)", "return h.Pop()"] ∧
    Generated.C15.goHeapFixStmts = ["if !down(h, i, h.Len()) { up(h, i) }"] ∧
    Generated.C15.goHeapUpStmts =
      ["for { i := (j - 1) / 2 if i == j || !h.Less(j, i) { break } h.Swap(i, j) j = i }"] ∧
    Generated.C15.goHeapDownStmts =
      ["i := i0",
       "for { j1 := 2*i + 1 if j1 >= n || j1 < 0 { break } j := j1 if j2 := j1 + 1; j2 < n && h.Less(j2, j1) { j = j2 } if !h.Less(j, i) { break } h.Swap(i, j) i = j }",
       "return i > i0"] :=
  ⟨rfl, rfl, rfl, rfl, rfl, rfl⟩

/-- **tie_roaring_rank.** The roaring module lindb is built with (version from go.mod, source from the
module cache, re-read on every run): `Bitmap.Rank`'s loop over the containers and `Bitmap.Contains`
as `Model/C15Roaring.lean` transcribes them (`rankLoop`, `contains`), and the two container `rank`s
whose results `arrRank` / `runRank` compute. -/
theorem tie_roaring_rank :
    Generated.C15.roaringVersion = "v1.2.1" ∧
    Generated.C15.roaringRankStmts =
      ["size := uint64(0)",
       "for i := 0; i < rb.highlowcontainer.size(); i++ { key := rb.highlowcontainer.getKeyAtIndex(i) if key > highbits(x) { return size } if key < highbits(x) { size += uint64(rb.highlowcontainer.getContainerAtIndex(i).getCardinality()) } else { return size + uint64(rb.highlowcontainer.getContainerAtIndex(i).rank(lowbits(x))) } }",
       "return size"] ∧
    Generated.C15.roaringContainsStmts =
      ["hb := highbits(x)", "c := rb.highlowcontainer.getContainer(hb)", "return c != nil && c.contains(lowbits(x))"] ∧
    Generated.C15.roaringArrayRankStmts =
      ["answer := binarySearch(ac.content, x)", "if answer >= 0 { return answer + 1 }", "return -answer - 1"] ∧
    Generated.C15.roaringRunRankStmts =
      ["n := int(len(rc.iv))", "xx := int(x)", "w, already, _ := rc.search(xx)", "if w < 0 { return 0 }",
       "if !already && w == n-1 { return rc.getCardinality() }", "var rnk int",
       "if !already { for i := int(0); i <= w; i++ { rnk += rc.iv[i].runlen() } return int(rnk) }",
       "for i := int(0); i < w; i++ { rnk += rc.iv[i].runlen() }", "rnk += int(x-rc.iv[w].start) + 1",
       "return int(rnk)"] :=
  ⟨rfl, rfl, rfl, rfl, rfl⟩

/-- **rank_any_container_layout.** For EVERY well-formed container layout of the key bitmap — any
number of containers, any high keys, any mix of array, bitmap and run containers — the
container-structured `Bitmap.Rank` (cardinalities of the lower containers + the container's own
rank) is the number of members ≤ x, `Contains` is membership, `GetCardinality` the number of
members, and the iteration is strictly ascending: the flat contract `KeySetOps.Lawful`
(`rank_eq`, `contains_iff`, `card_eq`) that `table_get` assumes is a theorem about the container
structure, not an assumption about it. -/
theorem rank_any_container_layout (L : C15Roaring.Layout) (h : C15Roaring.WF L) :
    (∀ x, C15Roaring.rank L x = (C15Roaring.members L).countP (fun m => decide (m ≤ x))) ∧
    (∀ x, C15Roaring.contains L x = true ↔ x ∈ C15Roaring.members L) ∧
    C15Roaring.card L = (C15Roaring.members L).length ∧
    (C15Roaring.members L).Pairwise (· < ·) :=
  ⟨C15Roaring.rank_spec L h, C15Roaring.contains_spec L h, C15Roaring.card_spec L h, C15Roaring.members_asc L h⟩

/-- **get_index_any_container_layout.** `Get`'s offset index: whatever container layout `L` the
reader's key bitmap has (after `RunOptimize`, after unmarshalling, dense, sparse, across 65536
boundaries), for the i-th entry of the table `int(Rank(key)) - 1` computed container by container
is i, and `getBlock` at that index delivers the entry's exact bytes; a cached per-container base
(`rankCached`: prefix sum of the cardinalities before the container) gives the same number. -/
theorem get_index_any_container_layout (K : KeySetOps B) (r : Reader B) (es : List (Nat × Bytes))
    (hrepr : TableRepr K r es) (L : C15Roaring.Layout) (hL : C15Roaring.WF L)
    (hmem : C15Roaring.members L = es.map (·.1)) (i : Nat) (e : Nat × Bytes) (he : es[i]? = some e) :
    C15Roaring.rank L e.1 = i + 1 ∧
    r.offsets.getBlock ((C15Roaring.rank L e.1 : Int) - 1) r.entries = .ok e.2 ∧
    (∀ c, C15Roaring.rankCached L e.1 = some c → c = i + 1) ∧
    (K.Lawful → K.rank r.keys e.1 = C15Roaring.rank L e.1) := by
  have hk : (C15Roaring.members L)[i]? = some e.1 := by rw [hmem]; simp [he]
  have hr := C15Roaring.rank_of_ith L hL i e.1 hk
  refine ⟨hr, ?_, ?_, ?_⟩
  · rw [hr]
    have : ((i + 1 : Nat) : Int) - 1 = (i : Int) := by omega
    rw [this]; exact getBlock_repr hrepr i e he
  · intro c hc; rw [C15Roaring.rankCached_spec L hL e.1 c hc, hr]
  · intro hK
    rw [hK.rank_eq, hrepr.keys, ← hmem, ← C15Roaring.rank_spec L hL]

/-- **stream_protocol_refines.** The builder per single operation: every sequence of `Add`,
`StreamWriter()`, `Prepare`, `Write`, `Commit` that stays inside the interface's protocol
(`Spec.run` is defined: no `Add`/`Prepare`/`StreamWriter()` while an ACCEPTED key is open; everything
else is allowed — rejected keys with any number of `Write`s, `Write`/`Commit` with no stream open,
a second `Commit`) runs without a panic, and if it ends with no stream open the builder holds
exactly the specification's entries: lookups, iteration and min/max/count of the closed file are
those of `s.es` (`Inv` is what `table_get` … `table_meta` are derived from). -/
theorem stream_protocol_refines (K : KeySetOps B) (hK : K.Lawful) (ops : List Op) (s : Spec)
    (hrun : Spec.run {} ops = some s) :
    ∃ b, Builder.run K (Builder.init K) ops = some b ∧ Refines K b s ∧
      (s.ph = .idle → s.es ≠ [] → (∀ e ∈ s.es, e.1 < 4294967296) → SizeOK s.es →
        ∃ file r, b.close K = some file ∧ Reader.open K file = some r ∧
          (∀ e ∈ s.es, r.get K e.1 = .ok e.2) ∧
          (∀ k, (∀ e ∈ s.es, e.1 ≠ k) → r.get K k = .absent) ∧
          r.iterate K = s.es ∧
          b.count K = s.es.length) := by
  obtain ⟨b, h1, h2⟩ := refines_run hK ops (refines_init K hK) hrun
  refine ⟨b, h1, h2, ?_⟩
  intro hidle hne hkeys hsz
  obtain ⟨es, ph⟩ := s
  simp only at hidle; subst hidle
  have hinv : Inv K b es := h2
  obtain ⟨file, r, hc, ho, hrepr⟩ := inv_close_open hK hinv hne hkeys hsz
  exact ⟨file, r, hc, ho, fun e he => get_present hK hrepr e he, fun k hk => get_absent hK hrepr k hk,
    iterate_eq hrepr, (meta_of_inv hK hinv).1⟩

/-- **stream_bytes_exact.** The bytes of an accepted key are exactly what was streamed between its
`Prepare` and its `Commit`: for ANY protocol-conforming operations `pre` before and `post` after the
group `Prepare k; Write w₁ … Write wₙ; Commit` (including rejected keys whose `Write`s carry data,
in `pre` and in `post`), if k is accepted (above the last key kept by `pre`) the finished table
returns `w₁ ++ … ++ wₙ` for k — nothing of an earlier or later rejected key's data, nothing
missing — and every entry kept before the group is still returned unchanged. -/
theorem stream_bytes_exact (K : KeySetOps B) (hK : K.Lawful) (pre post : List Op) (k : Nat) (ws : List Bytes)
    (s0 s : Spec) (hpre : Spec.run {} pre = some s0) (hidle0 : s0.ph = .idle) (hfresh : Fresh s0.es k)
    (hpost : Spec.run { es := s0.es ++ [(k, ws.flatten)], ph := .idle } post = some s) (hidle : s.ph = .idle)
    (hkeys : ∀ e ∈ s.es, e.1 < 4294967296) (hsz : SizeOK s.es) :
    ∃ b file r,
      Builder.run K (Builder.init K) (pre ++ (Op.prepare k :: (ws.map Op.write ++ [Op.commit])) ++ post) = some b ∧
      b.close K = some file ∧ Reader.open K file = some r ∧
      r.get K k = .ok ws.flatten ∧
      (∀ e ∈ s0.es, r.get K e.1 = .ok e.2) := by
  obtain ⟨es0, ph0⟩ := s0
  simp only at hidle0; subst hidle0
  have hgroup : Spec.run { es := es0, ph := .idle } (Op.prepare k :: (ws.map Op.write ++ [Op.commit])) =
      some { es := es0 ++ [(k, ws.flatten)], ph := .idle } := by
    have hf : freshB es0 k = true := (freshB_iff es0 k).mpr hfresh
    simp only [Spec.run, Spec.step, hf, if_true]
    rw [Spec.run_append, Spec.run_writes]
    simp [Spec.run, Spec.step]
  have hall : Spec.run {} (pre ++ (Op.prepare k :: (ws.map Op.write ++ [Op.commit])) ++ post) = some s := by
    rw [Spec.run_append, Spec.run_append, hpre]
    simp only [Option.bind]
    rw [hgroup]
    exact hpost
  have hpfx := Spec.run_prefix post hpost
  have hmem : ∀ e ∈ es0 ++ [(k, ws.flatten)], e ∈ s.es := fun e he => hpfx.subset he
  have hne : s.es ≠ [] := by
    intro h0
    have := hmem (k, ws.flatten) (by simp)
    rw [h0] at this; simp at this
  obtain ⟨b, h1, _, h3⟩ := stream_protocol_refines K hK _ s hall
  obtain ⟨file, r, hc, ho, hget, _, _, _⟩ := h3 hidle hne hkeys hsz
  refine ⟨b, file, r, h1, hc, ho, ?_, ?_⟩
  · exact hget (k, ws.flatten) (hmem _ (by simp))
  · intro e he; exact hget e (hmem e (by simp [he]))

/-- **stream_rejected_key_leaves_no_byte.** A `Prepare` of a key that is not above the last kept key,
followed by any `Write`s and a `Commit`, leaves the specification state — hence (by
`stream_protocol_refines`) every lookup, the iteration and the file bytes — exactly as it was:
none of the rejected key's data reaches the file. -/
theorem stream_rejected_key_leaves_no_byte (es : List (Nat × Bytes)) (k : Nat) (ws : List Bytes)
    (hstale : ¬ Fresh es k) :
    Spec.run { es := es, ph := .idle } (Op.prepare k :: (ws.map Op.write ++ [Op.commit])) =
      some { es := es, ph := .idle } := by
  have hf : freshB es k = false := by
    cases h : freshB es k with
    | false => rfl
    | true => exact absurd ((freshB_iff es k).mp h) hstale
  simp only [Spec.run, Spec.step, hf, Bool.false_eq_true, if_false]
  rw [Spec.run_append, Spec.run_writes_idle]
  simp [Spec.run, Spec.step]

/-- **heap_push_spec.** `heap.Push` (the stdlib's `h.Push(x); up(h, h.Len()-1)`) on a heap gives a
heap of the old cells plus the new one — the same result as lindb's `pq.Push(item); pq.update(item)`. -/
theorem heap_push_spec (pq : PQ) (x : MergedIter.Item) (hh : IsHeapPQ pq) :
    ((heapPush pq x).map core).Perm (core x :: pq.map core) ∧ IsHeapPQ (heapPush pq x) ∧
    pqUpdate (pqPush pq x) (pq.length : Int) = some (heapPush pq x) := by
  obtain ⟨h1, h2⟩ := heapPush_spec pq x hh
  refine ⟨h1, h2, ?_⟩
  unfold pqUpdate; simp [heapPush_eq_fix]

/-- **merge_is_the_sorted_merge.** For any number N of inputs, each non-decreasing by key: the keys
the merged iterator delivers are exactly the sorted list of all input keys (`List.mergeSort`), and
the delivered pairs are a permutation of all input pairs. -/
theorem merge_is_the_sorted_merge (its : List Input) (hs : ∀ it ∈ its, SortedInput it) :
    (mergeAll its).map (·.1) = (its.flatten.map (·.1)).mergeSort (fun a b => decide (a ≤ b)) ∧
    (mergeAll its).Perm its.flatten := by
  obtain ⟨hperm, hsorted⟩ := merge_sorted_perm its hs
  refine ⟨?_, hperm⟩
  apply List.Perm.eq_of_pairwise (le := fun a b : Nat => a ≤ b)
  · intro a b _ _ h1 h2; omega
  · exact List.pairwise_map.mpr hsorted
  · have := List.pairwise_mergeSort (le := fun a b : Nat => decide (a ≤ b))
      (by intro a b c h1 h2; simp at *; omega) (by intro a b; simp; omega) (its.flatten.map (·.1))
    exact this.imp (by intro a b h; simpa using h)
  · exact (hperm.map (·.1)).trans (List.mergeSort_perm _ _).symm

/-! ## round 12: `heap.Fix` at any index; when the top may be advanced in place -/

/-- **heap_fix_any_index.** The stdlib contract of `heap.Fix(&pq, i)` (= `priorityQueue.update` of an
item whose `index` is i) on lindb's queue, for EVERY slot i and every new key: the key (and value) of
the item in slot i of a heap of any size is replaced by anything — smaller, larger, equal —, then
`if !down(h, i, n) { up(h, i) }` gives a heap of exactly the same items, and `update` does not panic.
(`heap_pushfix_spec` is the instance the code uses: the slot `Push` just appended. i = 0 is the usual
"replace the top in place" variant of a merge step.) -/
theorem heap_fix_any_index (pq : PQ) (i : Nat) (x : MergedIter.Item) (hi : i < pq.length) (hh : IsHeapPQ pq) :
    IsHeapPQ (heapFix pqIface (pq.set i x) i) ∧
    ((heapFix pqIface (pq.set i x) i).map core).Perm ((pq.set i x).map core) ∧
    pqUpdate (pq.set i x) (i : Int) = some (heapFix pqIface (pq.set i x) i) :=
  heapFix_pq_spec pq i x hi hh

/-- **top_advance_needs_both_children.** The top item of a heap is advanced in place (its key replaced
by x's): the queue is still a heap — i.e. NO re-fix is needed — exactly when the new key exceeds neither
`pq[1]` nor `pq[2]`. A binary heap's second smallest key is min(pq[1], pq[2]), not pq[1]. -/
theorem top_advance_needs_both_children (pq : PQ) (x : MergedIter.Item) (h0 : 0 < pq.length) (hh : IsHeapPQ pq) :
    IsHeapPQ (pq.set 0 x) ↔
      (∀ b, pq[1]? = some b → x.key ≤ b.key) ∧ (∀ b, pq[2]? = some b → x.key ≤ b.key) :=
  top_replace_pq_iff pq x h0 hh

/-- **top_advance_slot_1_check_insufficient.** For EVERY heap of three or more items whose right child
is smaller than the advanced key while the left child is not (`pq[2].key < x.key ≤ pq[1].key`): the
fast path "re-fix only if `top.key > pq[1].key`" (seeded changes c15-22, c15-25) skips the fix and
leaves a queue that is not a heap — whereas `heap.Fix(&pq, 0)` always repairs it. -/
theorem top_advance_slot_1_check_insufficient (pq : PQ) (x a b : MergedIter.Item) (hh : IsHeapPQ pq)
    (_h1 : pq[1]? = some a) (h2 : pq[2]? = some b) (hlo : b.key < x.key) (hhi : x.key ≤ a.key) :
    ¬ (x.key > a.key) ∧ ¬ IsHeapPQ (pq.set 0 x) ∧ IsHeapPQ (heapFix pqIface (pq.set 0 x) 0) := by
  have h0 : 0 < pq.length := by
    rcases Nat.lt_or_ge 2 pq.length with h | h
    · omega
    · rw [List.getElem?_eq_none h] at h2; cases h2
  refine ⟨by omega, ?_, (heapFix_pq_spec pq 0 x h0 hh).1⟩
  intro hcon
  have := ((top_replace_pq_iff pq x h0 hh).mp hcon).2 b h2
  omega

/-- **queue_calls_keep_heap_and_drain_sorted.** From the queue `heap.Init` makes of ANY items, after
ANY sequence of calls that does not panic — the item in any slot replaced by anything + `heap.Fix` at
that slot, `heap.Pop`, `Push; Fix(item.index)` — the queue is a heap, and popping it until it is empty
delivers every remaining item exactly once in non-decreasing key order (what area `tableheap` checks
on the real priorityQueue). -/
theorem queue_calls_keep_heap_and_drain_sorted (items : PQ) (ops : List QOp) (pq : PQ)
    (hr : QOp.runAll (heapInit pqIface items) ops = some pq) :
    IsHeapPQ pq ∧ ((popAll pq.length pq).map core).Perm (pq.map core) ∧
    (popAll pq.length pq).Pairwise (fun a b => a.key ≤ b.key) := by
  have hh := QOp.runAll_heap ops _ pq (heapInit_pq items).1 hr
  exact ⟨hh, popAll_spec pq.length pq (Nat.le_refl _) hh⟩

/-! ## the hypotheses are satisfiable (non-vacuity) -/

/-- a three-container layout (array, run crossing nothing, bitmap stand-in) is well-formed; its rank at a
container start, inside a run and past the end -/
example :
    let L : C15Roaring.Layout := [(0, .array [3, 9]), (1, .run [(0, 2), (10, 0)]), (65535, .bitmap [65535])]
    C15Roaring.members L = [3, 9, 65536, 65537, 65538, 65546, 4294967295] ∧
    (C15Roaring.rank L 65536, C15Roaring.rank L 65540, C15Roaring.rank L 4294967295, C15Roaring.rankCached L 65546)
      = (3, 5, 7, some 6) := by decide

/-- a heap whose second smallest key sits in slot 2 (what `heap.Init` makes of keys 1, 5, 2): advancing the
top to key 4 passes the slot-1 check, is not a heap, and `Fix` at slot 0 repairs it -/
example :
    let pq := heapInit pqIface [⟨0, 1, [], 0⟩, ⟨1, 5, [], 1⟩, ⟨2, 2, [], 2⟩]
    let x : MergedIter.Item := ⟨0, 4, [], 0⟩
    IsHeapPQ pq ∧ pq.map (·.key) = [1, 5, 2] ∧ ¬ IsHeapPQ (pq.set 0 x) ∧
    (heapFix pqIface (pq.set 0 x) 0).map (·.key) = [2, 5, 4] ∧
    (heapFix pqIface (pq.set 1 ⟨1, 0, [], 1⟩) 1).map (·.key) = [0, 1, 2] := by
  intro pq x
  have hh : IsHeapPQ pq := (heapInit_pq _).1
  refine ⟨hh, by decide, ?_, by decide, by decide⟩
  exact (top_advance_slot_1_check_insufficient pq x ⟨1, 5, [], 1⟩ ⟨2, 2, [], 2⟩ hh (by decide) (by decide)
    (by decide) (by decide)).2.1

/-- a sequence of queue calls that does not panic: Fix in the root, in an inner slot, in a leaf, Pop, Push —
and the drain of what is left -/
example :
    let ops : List QOp := [.fix 0 ⟨0, 8, [], 0⟩, .fix 1 ⟨1, 0, [], 1⟩, .fix 4 ⟨4, 2, [], 4⟩, .pop, .push ⟨9, 4, [], 0⟩]
    let items : PQ := [⟨0, 5, [], 0⟩, ⟨1, 3, [], 1⟩, ⟨2, 9, [], 2⟩, ⟨3, 1, [], 3⟩, ⟨4, 7, [], 4⟩]
    (QOp.runAll (heapInit pqIface items) ops).map (fun pq => (pq.map (·.key), (popAll pq.length pq).map (·.key))) =
      some ([2, 3, 9, 8, 4], [2, 3, 4, 8, 9]) := by decide

/-- an operation sequence inside the protocol with a rejected stream key that carries data, a write with
no stream open and a double commit -/
example :
    Spec.run {} [Op.add 5 [1], Op.write [7], Op.prepare 3, Op.write [9, 9], Op.commit, Op.prepare 8, Op.write [2],
      Op.write [3], Op.commit, Op.commit, Op.add 8 [4]] = some { es := [(5, [1]), (8, [2, 3])], ph := .idle } := by
  decide

/-- two overlapping tables exist, open, and merge to all five entries -/
example :
    let t1 := [Put.add 1 [1], Put.stream 5 [[5], [5]], Put.add 70000 []]
    let t2 := [Put.add 5 [9], Put.add 6 []]
    let rd := fun (t : List Put) =>
      ((Builder.run listKeySet (Builder.init listKeySet) (t.flatMap Put.ops)).bind
        (fun b => b.close listKeySet)).bind (Reader.open listKeySet)
    ((rd t1).bind (fun r1 => (rd t2).map (fun r2 =>
      (mergeAll [r1.iterate listKeySet, r2.iterate listKeySet]).map (·.1)))) = some [1, 5, 5, 6, 70000] := by
  decide

/-- a finished table minus its last byte is refused at the magic check; the whole file opens -/
example :
    ((Builder.run listKeySet (Builder.init listKeySet) [Op.add 3 [7, 7]]).bind (fun b => b.close listKeySet)).map
      (fun f => ((Reader.openE listKeySet (f.take (f.length - 1))).toOption.isSome,
                 (Reader.openE listKeySet f).toOption.isSome,
                 match Reader.openE listKeySet (f.take (f.length - 1)) with
                 | .error e => some e | .ok _ => none)) = some (false, true, some OpenErr.badMagic) := by
  decide

/-- the bitmap contract has a model: the sorted-list stand-in the driver runs -/
example : listKeySet.Lawful := listKeySet_lawful

/-- a concrete table: adds, a stream write in two chunks, a rejected key, an empty value -/
example :
    ((Builder.run listKeySet (Builder.init listKeySet)
        ([Put.add 3 [1, 2], Put.stream 7 [[9], [8, 7]], Put.add 5 [4], Put.add 70000 []].flatMap Put.ops)).bind
      (fun b => (b.close listKeySet).bind (fun f => (Reader.open listKeySet f).map
        (fun r => (r.iterate listKeySet, r.get listKeySet 7, r.get listKeySet 5, b.minKey, b.maxKey, b.count listKeySet)))))
      = some ([(3, [1, 2]), (7, [9, 8, 7]), (70000, [])], GetRes.ok [9, 8, 7], GetRes.absent, 3, 70000, 3) := by
  decide

/-- a concrete merge with overlapping inputs, an empty input and equal keys -/
example :
    mergeAll [[(1, [1]), (3, [1])], [(1, [2]), (2, [2])], [(1, [3])], [], [(0, [4]), (1, [4])]]
      = [(0, [4]), (1, [2]), (1, [4]), (1, [1]), (1, [3]), (2, [2]), (3, [1])] := by
  decide

/-! ## whose offsets table a reader reads through (round 13) -/

/-- reader.go makes a reader's `FixedOffsetDecoder` in exactly one place — `initialize` allocates a
new object right before the `Unmarshal` — and does not touch `encoding`'s decoder pool
(`TableDecoders.stepFresh`; a variant that takes it from the pool is `TableDecoders.stepPooled`) -/
theorem tie_reader_decoder_objects :
    Generated.C15.readerDecoderSites = ["initialize: r.offsets = encoding.NewFixedOffsetDecoder()"] := rfl

open LinVerif.Model.TableDecoders in
/-- **readers_keep_their_offsets.** Whatever is opened afterwards — any number of further tables,
accepted or refused at any check of `initialize` — a reader that was handed out keeps locating its
values with the offsets table of ITS file: every open works on a decoder object of its own. -/
theorem readers_keep_their_offsets (s : St) (evs : List Ev) (i : Nat) (offs : Offs)
    (h : answers s i = some offs) : answers (runFresh s evs) i = some offs := by
  obtain ⟨hp, rp, hh, hr⟩ := LinVerif.Lemmas.C15Decoders.runFresh_grows evs s
  exact LinVerif.Lemmas.C15Decoders.answers_append s _ hp rp hh hr i offs h

open LinVerif.Model.TableDecoders in
/-- non-vacuity: two tables opened around a refused open; both keep their own tables -/
example :
    let s := runFresh ⟨[], [], []⟩ [.openOk [0, 3], .openRefusedLate [9], .openOk [0, 7, 8]]
    answers s 0 = some [0, 3] ∧ answers s 1 = some [0, 7, 8] ∧
    answers (runFresh s [.openRefusedEarly, .openOk [1]]) 0 = some [0, 3] := by decide

open LinVerif.Model.TableDecoders in
/-- **pooled_decoder_released_twice_is_shared.** The pooled variant with TWO cleanup sites that both
hand the decoder back on a refused open (seeded change c15-26), from every state with an empty pool
and for every two tables: the first table opened after the refused open answers with its own offsets
until the second one is opened, and with the SECOND table's offsets from then on — both readers
hold the same object. With one release per refused open each keeps its own. -/
theorem pooled_decoder_released_twice_is_shared (s : St) (hp : s.pool = []) (o1 o2 : Offs) :
    answers (runPooled 2 s [.openRefusedEarly, .openOk o1]) s.readers.length = some o1 ∧
    answers (runPooled 2 s [.openRefusedEarly, .openOk o1, .openOk o2]) s.readers.length = some o2 ∧
    answers (runPooled 2 s [.openRefusedEarly, .openOk o1, .openOk o2]) (s.readers.length + 1) = some o2 ∧
    answers (runPooled 1 s [.openRefusedEarly, .openOk o1, .openOk o2]) s.readers.length = some o1 ∧
    answers (runPooled 1 s [.openRefusedEarly, .openOk o1, .openOk o2]) (s.readers.length + 1) = some o2 := by
  obtain ⟨heap, readers, pool⟩ := s
  subst hp
  simp [runPooled, stepPooled, getDec, answers, List.replicate]

open LinVerif.Model.TableDecoders in
example : answers (runPooled 2 ⟨[], [], []⟩ [.openRefusedEarly, .openOk [0, 3], .openOk [0, 7, 8]]) 0 = some [0, 7, 8] := by
  decide

namespace Neg
/-! Proved negations: things the code does *not* guarantee (none contradicts the property). -/

/-- `priorityQueue.Swap` does not keep `item.index` = slot: after swapping two correctly indexed
items each one carries the other's slot number. (Harmless: `update` only reads the index that
`Push` stored an instant before — `heap_pushfix_spec`.) -/
theorem swap_index_not_position :
    (pqSwap [⟨0, 5, [], 0⟩, ⟨1, 3, [], 1⟩] 0 1).map (·.index) = [1, 0] := by decide

/-- between different inputs equal keys do not come out in input order (nor in reverse):
inputs 0,1,2,4 all hold key 1; the output takes them from inputs 1,4,0,2 -/
theorem merge_ties_not_by_input_order :
    ((mergeAllTagged [[(1, [1]), (3, [1])], [(1, [2]), (2, [2])], [(1, [3])], [], [(0, [4]), (1, [4])]]).filter
        (fun c => c.2.1 = 1)).map (·.1) = [1, 4, 0, 2] := by decide

/-- outside the stream-writer protocol (a `Prepare`/`Write` that is never committed): the orphan
bytes become part of the previous entry's value — why `mix_add_stream` asks for complete groups -/
theorem abandoned_stream_write_leaks :
    ((Builder.run listKeySet (Builder.init listKeySet)
        [Op.add 1 [1], Op.prepare 2, Op.write [9], Op.add 3 [3]]).bind
      (fun b => (b.close listKeySet).bind (fun f => (Reader.open listKeySet f).map
        (fun r => r.get listKeySet 1)))) = some (GetRes.ok [1, 9]) := by decide

/-- outside the protocol: an `Add` between `Write` and `Commit` makes `Commit` panic in
`FixedOffsetEncoder.Add` -/
theorem commit_after_interleaved_add_panics :
    (Builder.run listKeySet (Builder.init listKeySet)
        [Op.prepare 5, Op.write [9], Op.add 7 [3], Op.commit]).isNone = true := by decide

/-- the container base is **not** `Rank` of the container's first key when that key is stored:
members [65536, 65537]; for k = 65537 the lower containers hold 0 keys, `Rank(65536)` = 1 -/
theorem rank_of_container_start_is_not_the_base :
    listKeySet.rank [65537, 65536] 65536 = 1 ∧
    ([65536, 65537].countP (fun x => decide (x < 65537 / 65536 * 65536))) = 0 := by decide

/-- if `Clone` shared the level maps with its source (copy-on-write without copying on delete), a
compaction-shaped log on the clone would take files away from the source version -/
theorem shared_level_maps_lose_files :
    let heap : Heap := [[⟨1, 0, 9, 0⟩, ⟨2, 5, 20, 0⟩], []]
    let v : Ver := [0, 1]
    let logs := [VLog.deleteFile 0 1, VLog.deleteFile 0 2, VLog.newFile 1 ⟨3, 0, 20, 0⟩]
    (findFiles (deref heap v) 7).map (·.fileNumber) = [1, 2] ∧
    (findFiles (deref (applyLogsH (cloneShared heap v).1 (cloneShared heap v).2 logs) v) 7).map (·.fileNumber) = [3] ∧
    (findFiles (deref (applyLogsH (cloneDeep heap v).1 (cloneDeep heap v).2 logs) v) 7).map (·.fileNumber) = [1, 2] := by
  decide

/-- `Cleanup` walks from the least recently used end and stops at the first entry it has to keep:
table 1 (oldest, still referenced) shields table 2 (expired, unreferenced) from being closed; once
table 1 is released too both go (releasing is itself a "use": it moves the entry to the front);
an entry released once too often (ref −1) is never cleaned up and shields what lies before it -/
theorem cleanup_stops_at_the_first_kept_entry :
    let c := TableLRU.Cache.run {} [.get 0 1 true, .get 0 2 true, .release [2]]
    c.lru.map (fun e => (e.file, e.ref)) = [(2, 0), (1, 1)] ∧
    (c.cleanup true).closed = [] ∧
    ((c.release [1]).cleanup true).closed = [0, 1] ∧
    (((c.release [1]).release [2]).cleanup true).closed = [0] ∧
    ((((c.release [1]).release [2]).cleanup true).lru.map (fun e => (e.file, e.ref))) = [(2, -1)] := by decide

/-- the cache is keyed by the file name alone: a hit ignores the family argument and hands out the
reader of the family that opened the name first (harmless only because table numbers are unique
in a store — `StoreVersionSet.NextFileNumber`) -/
theorem cache_hit_ignores_the_family :
    let c1 := (({} : TableLRU.Cache).getReader 0 7 true)
    (c1.1.getReader 1 7 true).2 = c1.2 ∧ ((c1.1.getReader 1 7 true).1.lru.map (·.family)) = [0] := by decide

/-- `ReleaseReaders` finds the entry by file name, not by reader: releasing a reader that was
evicted meanwhile decrements the count of the file's NEW reader, which `Cleanup` then closes
although it is in use (C02's `Neg.double_release_unmaps_held_reader` is the same shape) -/
theorem stale_release_hits_the_new_reader :
    let c := TableLRU.Cache.run {} [.get 0 3 true, .evict 3, .get 0 3 true, .release [3]]
    c.lru.map (fun e => (e.file, e.ref, e.rid)) = [(3, 0, 1)] ∧ (c.cleanup true).closed = [1, 0] := by decide

/-- bytes left behind by an aborted build are not guaranteed to be unreadable: a value that is
itself a table image, abandoned before the offsets were written, opens as a table -/
theorem abandoned_bytes_may_parse_as_a_table :
    ((Builder.run listKeySet (Builder.init listKeySet) [Op.add 1 [7]]).bind (fun b0 => b0.close listKeySet)).bind
      (fun img => (Builder.run listKeySet (Builder.init listKeySet) [Op.add 5 img]).map
        (fun b => (Reader.open listKeySet (b.closePartial listKeySet 0)).isSome)) = some true := by
  decide

/-- why `HasNext` pops and pushes: advancing the top item in place and re-fixing the heap only when
`pq[1]` is smaller (seeded change c15-22) is wrong for three or more inputs, because the second
smallest key of a binary heap may sit in slot 2 — inputs [1,4], [5], [2] come out as 1, 4, 2, 5 -/
theorem inplace_top_advance_checking_slot_1_only_is_unordered :
    (MIter.drainInPlace 10 (MIter.new [[(1, []), (4, [])], [(5, [])], [(2, [])]])).map (·.1) = [1, 4, 2, 5] ∧
    (mergeAll [[(1, []), (4, [])], [(5, [])], [(2, [])]]).map (·.1) = [1, 2, 4, 5] ∧
    ((MIter.new [[(1, []), (4, [])], [(5, [])], [(2, [])]]).pq.map (·.key)) = [1, 5, 2] := by decide

/-- the cached container base taken as the inclusive `Rank` of the container's first possible key
(seeded change c15-19) is one too large exactly when that key is stored: layout {65536, 65537} -/
theorem cached_base_by_inclusive_rank_is_off_by_one :
    let L : C15Roaring.Layout := [(0, .array [7]), (1, .array [0, 1])]
    C15Roaring.rank L 65537 = 3 ∧ C15Roaring.rankCached L 65537 = some 3 ∧
    C15Roaring.rankCachedInclusive L 65537 = some 4 := by decide

/-- what the moved key check of seeded change c15-21 would have to preserve, on the model of the
real code: the data of a rejected stream key reaches no value — key 5 keeps its one byte -/
theorem rejected_stream_key_data_is_dropped :
    ((Builder.run listKeySet (Builder.init listKeySet)
        [Op.add 5 [1], Op.prepare 3, Op.write [9, 9], Op.commit, Op.add 8 [4]]).bind
      (fun b => (b.close listKeySet).bind (fun f => (Reader.open listKeySet f).map
        (fun r => (r.get listKeySet 5, r.get listKeySet 3, r.get listKeySet 8))))) =
      some (GetRes.ok [1], GetRes.absent, GetRes.ok [4]) := by decide

end Neg

end LinVerif.Props.C15
