/-
Property C02 — KV store: snapshot reads are stable and their files stay alive under concurrency.

Model: Model/VersionSet.lean + Model/TableCache.lean (interleaving model; every atomic step is one
critical section / atomic operation of the code).  All theorems quantify over every schedule:
`Reachable cfg v0 f0 s` = s is reached by some finite sequence of atomic steps from a fresh family.

The invariant `Safe` (Lemmas/C02Defs.lean) is inductive for the model variant in which
`familyVersion.removeVersion` re-checks `ref == 0` under the family lock (`cfg.recheck = true`).
For the code as it is (`recheck = false`, selected by the regenerated fact
`Generated.C02.removeVersionRechecksRef`) the full-strength statements are FALSE: `namespace Neg`
proves their negation on the concrete Release-race schedule, which the harness replays on the
implementation on every run.

FULL-STRENGTH STATEMENTS (hold iff `codeCfg.recheck = true`, see `code_safe`):
  ∀ schedule, ∀ open snapshot s:  s.version ∈ activeVersions ∧ every table of s.version is in the
  directory ∧ every reader s retains is mapped ∧ ref v = #open snapshots on v;
  reads through s return the content fixed at acquisition (snapshot_stable);
  no table needed by an open snapshot / unfinished writer / pending rollup is deleted, no retained
  reader unmapped (no_needed_file_deleted, delete_only_unneeded, evict_only_unneeded,
  held_readers_stay_mapped); a later reader sees every installed commit (later_reader_sees_commit).
-/
import LinVerif.Lemmas.C02Read
import LinVerif.Lemmas.C02TokStep
import LinVerif.Lemmas.C02Lru
import LinVerif.Lemmas.C02Cur
import LinVerif.Lemmas.C02Rollup
import LinVerif.Generated.C02

namespace LinVerif.Props.C02
open LinVerif.VersionSet LinVerif.TableCache LinVerif.Lemmas.C02

/-! ### tie to /repo's current source (regenerated facts) -/

/-- the model variant the current source selects -/
def codeCfg (threshold : Nat) (targets : List Nat) : Cfg :=
  { recheck := Generated.C02.removeVersionRechecksRef, cloneLocked := Generated.C02.commitCloneUnderLock,
    allocLocked := Generated.C02.allocUnderCommitLock, findErrReleases := Generated.C02.findErrReleases,
    pendFirst := Generated.C02.pendBeforeCreate, closeCAS := Generated.C02.closeIsCAS,
    getReaderAtomic := Generated.C02.getReaderOneSection, listFirst := Generated.C02.listBeforeLive,
    threshold := threshold, targets := targets, rollDelPerInterval := Generated.C02.rollupDelPerInterval }

/-- the current source re-checks the refcount in `removeVersion` (fix b108b0f) -/
theorem source_rechecks : Generated.C02.removeVersionRechecksRef = true := rfl
/-- the current source takes the commit's snapshot and clones inside the version-set mutex -/
theorem source_clone_locked : Generated.C02.commitCloneUnderLock = true := rfl
/-- the current source allocates table numbers under the version-set mutex -/
theorem source_alloc_locked : Generated.C02.allocUnderCommitLock = true := rfl
/-- the current source's FindReaders error path releases nothing (the readers retained before the
failing table stay recorded and are released once, by Close) -/
theorem source_find_err_keeps : Generated.C02.findErrReleases = false := rfl
/-- the current source: pending mark before the table file exists; Close guarded by a CAS;
GetReader one critical section -/
theorem source_pend_first : Generated.C02.pendBeforeCreate = true := rfl
theorem source_close_cas : Generated.C02.closeIsCAS = true := rfl
theorem source_getReader_atomic : Generated.C02.getReaderOneSection = true := rfl
/-- the current source lists the family directory before it collects the live set -/
theorem source_list_first : Generated.C02.listBeforeLive = true := rfl
/-- what the families of one store share: both counters are fields of `storeVersionSet`; version ids
come from `versionID.Add`; every reader-cache access is keyed by the table's file name alone -/
theorem tie_sharedCounters : Generated.C02.sharedCounters = Code.sharedCounters := rfl
theorem tie_newVersionID : Generated.C02.newVersionIDCalls = Code.newVersionID := rfl
theorem tie_cacheKeys : Generated.C02.cacheKeys = Code.cacheKeys := rfl
theorem tie_snapshotCloseShape : Generated.C02.snapshotCloseSteps = Code.snapshotCloseShape := rfl
theorem tie_findFiles : Generated.C02.findFilesShape = Code.findFilesShape := rfl
/-- the model's `findFiles` tests every table of the version (all levels) -/
theorem findFiles_complete (v : VData) (k : Nat) (m : FileMeta) :
    m ∈ findFiles v k ↔ m ∈ v.files ∧ m.minKey ≤ k ∧ k ≤ m.maxKey := by
  simp [findFiles]
theorem tie_findReaders : Generated.C02.findReadersCalls = Code.findReaders := rfl
theorem tie_findReadersErrPath : Generated.C02.findReadersErrCalls = Code.findReadersErrPath := rfl
theorem tie_rollupJob : Generated.C02.rollupCalls = Code.rollupJob := rfl
/-- the current source creates the DeleteRollupFile records inside the loop over the target intervals,
after that target's `doRollupWork` succeeded, for that target's files and with that target's interval -/
theorem source_rollup_per_interval : Generated.C02.rollupDelPerInterval = true := rfl
theorem tie_rollupDelShape : Generated.C02.rollupDelShape = Code.rollupDelShape := rfl
theorem tie_commitOutsideLock : Generated.C02.commitOutsideLock = [] := rfl
theorem tie_commitInsideLock : Generated.C02.commitInsideLock =
    ["vs.persistEditLogs", "familyVersion.GetSnapshot", "snapshot.GetCurrent().Clone", "editLog.apply",
     "familyVersion.appendVersion"] := rfl

theorem tie_release : Generated.C02.releaseSteps = Code.release := rfl
theorem tie_retain : Generated.C02.retainCalls = Code.retain := rfl
theorem tie_removeVersion :
    Generated.C02.removeVersionSteps = Code.removeVersion Generated.C02.removeVersionRechecksRef := rfl
theorem tie_appendVersion : Generated.C02.appendVersionSteps = Code.appendVersion := rfl
theorem tie_getSnapshot : Generated.C02.getSnapshotSteps = Code.getSnapshot := rfl
theorem tie_newSnapshot : Generated.C02.newSnapshotCalls = Code.newSnapshot := rfl
theorem tie_snapshotClose : Generated.C02.snapshotCloseCalls = Code.snapshotClose := rfl
theorem tie_commit : Generated.C02.commitCalls = Code.commit := rfl
theorem tie_nextFileNumber : Generated.C02.nextFileNumberCalls = Code.nextFileNumber := rfl
theorem tie_newTableBuilder : Generated.C02.newTableBuilderCalls = Code.newTableBuilder := rfl
theorem tie_deleteObsolete : Generated.C02.deleteObsoleteOrder = Code.deleteObsolete := rfl
theorem tie_getAllActiveFiles : Generated.C02.getAllActiveFilesCalls = Code.getAllActiveFiles := rfl
theorem tie_getLiveRollupFiles : Generated.C02.getLiveRollupFilesSteps = Code.getLiveRollupFiles := rfl
theorem tie_backgroundCompaction : Generated.C02.backgroundCompactionCalls = Code.backgroundCompaction := rfl
theorem tie_flushCommit : Generated.C02.flushCommitCalls = Code.flushCommit := rfl
theorem tie_mergeCompaction : Generated.C02.mergeCompactionCalls = Code.mergeCompaction := rfl
theorem tie_cleanupCompaction : "family.removePendingOutput" ∈ Generated.C02.cleanupCompactionCalls := by decide
theorem tie_cacheEvict : Generated.C02.cacheEvictCalls = Code.cacheEvict := rfl
theorem tie_cacheRelease : Generated.C02.cacheReleaseCalls = Code.cacheRelease := rfl
theorem tie_cacheGetReader : Generated.C02.cacheGetReaderCalls = Code.cacheGetReader := rfl
theorem tie_cacheCleanupGuard : Generated.C02.cacheCleanupGuard = Code.cacheCleanupGuard := rfl

/-! ### the invariant over all schedules -/

theorem reachable_run {cfg : Cfg} {v0 f0 : Nat} {acts : List Act} {s s' : St}
    (h : Reachable cfg v0 f0 s) (hr : run cfg s acts = some s') : Reachable cfg v0 f0 s' := by
  induction acts generalizing s with
  | nil => simp only [run] at hr; cases hr; exact h
  | cons a rest ih =>
    simp only [run] at hr
    split at hr
    next s1 hs1 => exact ih (Reachable.step a h hs1) hr
    next => cases hr

/-- `Safe` holds in every state of every schedule (variant with the re-check). -/
theorem safe_invariant {cfg : Cfg} {v0 f0 : Nat} {s : St} (hr : cfg.recheck = true) (hcl : cfg.cloneLocked = true) (hal : cfg.allocLocked = true) (hfe : cfg.findErrReleases = false) (hpf : cfg.pendFirst = true)
    (hcc : cfg.closeCAS = true) (hga : cfg.getReaderAtomic = true) (hlf : cfg.listFirst = true)
    (h : Reachable cfg v0 f0 s) : Safe s := safe_reachable hr hcl hal hfe hpf hcc hga hlf h

/-- if the current source re-checks, every schedule of the code's own model variant is safe -/
theorem code_safe {t : Nat} {ro : List Nat} {v0 f0 : Nat} {s : St}
    (hfact : Generated.C02.removeVersionRechecksRef = true) (hfact2 : Generated.C02.commitCloneUnderLock = true)
    (hfact3 : Generated.C02.allocUnderCommitLock = true) (hfact4 : Generated.C02.findErrReleases = false)
    (hfact5 : Generated.C02.pendBeforeCreate = true) (hfact6 : Generated.C02.closeIsCAS = true)
    (hfact7 : Generated.C02.getReaderOneSection = true) (hfact8 : Generated.C02.listBeforeLive = true)
    (h : Reachable (codeCfg t ro) v0 f0 s) : Safe s :=
  safe_reachable (cfg := codeCfg t ro) hfact hfact2 hfact3 hfact4 hfact5 hfact6 hfact7 hfact8 h

/-- UNCONDITIONAL for the current source: every schedule of the model variant selected by the
regenerated facts is safe (any compaction threshold, rollup on or off, any first ids). -/
theorem safe_current_source {t : Nat} {ro : List Nat} {v0 f0 : Nat} {s : St}
    (h : Reachable (codeCfg t ro) v0 f0 s) : Safe s :=
  code_safe source_rechecks source_clone_locked source_alloc_locked source_find_err_keeps source_pend_first
    source_close_cas source_getReader_atomic source_list_first h

/-- `version.ref` = number of open snapshots on the version (the current one gets no extra count) -/
theorem ref_counts_open_snapshots {cfg : Cfg} {v0 f0 : Nat} {s : St} (hr : cfg.recheck = true) (hcl : cfg.cloneLocked = true) (hal : cfg.allocLocked = true) (hfe : cfg.findErrReleases = false) (hpf : cfg.pendFirst = true)
    (hcc : cfg.closeCAS = true) (hga : cfg.getReaderAtomic = true) (hlf : cfg.listFirst = true)
    (h : Reachable cfg v0 f0 s) (v : Nat) : s.ref v = (cntOpen s.snap v s.nSnap : Int) :=
  (safe_reachable hr hcl hal hfe hpf hcc hga hlf h).ref_count v

/-- every open snapshot: version registered, all its tables in the directory, retained readers mapped -/
theorem open_snapshot_protected {cfg : Cfg} {v0 f0 : Nat} {s : St} (hr : cfg.recheck = true) (hcl : cfg.cloneLocked = true) (hal : cfg.allocLocked = true) (hfe : cfg.findErrReleases = false) (hpf : cfg.pendFirst = true)
    (hcc : cfg.closeCAS = true) (hga : cfg.getReaderAtomic = true) (hlf : cfg.listFirst = true)
    (h : Reachable cfg v0 f0 s) (i : Nat) (hi : i < s.nSnap) (ho : (s.snap i).st = .opened) :
    (s.snap i).ver ∈ s.active ∧
    (∀ f ∈ (s.ver (s.snap i).ver).nos, f ∈ s.disk) ∧
    (∀ f ∈ (s.snap i).held, (s.cref f).isSome = true) := by
  have hs := safe_reachable hr hcl hal hfe hpf hcc hga hlf h
  have hact := hs.open_active i hi ho
  refine ⟨hact, hs.files_on_disk _ hact, ?_⟩
  intro f hf
  have := hs.held_mapped i hi ho f hf
  cases hc : s.cref f <;> simp_all

/-- In every reachable state every table that is still needed — by an open snapshot, by an
unfinished writer (pending output already created), by a pending rollup — is in the directory,
and every reader retained by an open snapshot is mapped. (A step that deleted or unmapped one
would produce a reachable state violating this.) -/
theorem no_needed_file_deleted {cfg : Cfg} {v0 f0 : Nat} {s : St} (hr : cfg.recheck = true) (hcl : cfg.cloneLocked = true) (hal : cfg.allocLocked = true) (hfe : cfg.findErrReleases = false) (hpf : cfg.pendFirst = true)
    (hcc : cfg.closeCAS = true) (hga : cfg.getReaderAtomic = true) (hlf : cfg.listFirst = true)
    (h : Reachable cfg v0 f0 s) :
    (∀ i, i < s.nSnap → (s.snap i).st = .opened → ∀ f ∈ (s.ver (s.snap i).ver).nos, f ∈ s.disk) ∧
    (∀ j, j < s.nJob → outOnDisk (s.job j).pc = true → ∀ f ∈ outNo (s.job j), f ∈ s.disk ∧ f ∈ s.pending) ∧
    (∀ p ∈ (s.ver s.cur).rollup, p.1 ∈ s.disk) ∧
    (∀ i, i < s.nSnap → (s.snap i).st = .opened → ∀ f ∈ (s.snap i).held, s.cref f ≠ none) := by
  have hs := safe_reachable hr hcl hal hfe hpf hcc hga hlf h
  refine ⟨fun i hi ho => hs.files_on_disk _ (hs.open_active i hi ho), ?_,
    fun p hp => hs.rollup_on_disk p.1 (List.mem_map.mpr ⟨p, hp, rfl⟩), hs.held_mapped⟩
  intro j hj hp f hf
  have hb := hs.jobs j hj
  have hp' : outPending (s.job j).pc = true := by
    revert hp; cases (s.job j).pc <;> simp [outOnDisk, outPending]
  exact ⟨hb.ondisk hp f hf, hb.pend hp' f hf⟩

/-- The only step that removes a table from the directory (`deleteSST` of deleteObsoleteFiles)
removes a table no open snapshot lists, that is no pending output and that no rollup needs. -/
theorem delete_only_unneeded {cfg : Cfg} {v0 f0 : Nat} {s : St} (hr : cfg.recheck = true) (hcl : cfg.cloneLocked = true) (hal : cfg.allocLocked = true) (hfe : cfg.findErrReleases = false) (hpf : cfg.pendFirst = true)
    (hcc : cfg.closeCAS = true) (hga : cfg.getReaderAtomic = true) (hlf : cfg.listFirst = true)
    (h : Reachable cfg v0 f0 s) (j : Nat) (hj : j < s.nJob) (hpc : (s.job j).pc = .doEvicted)
    (f : Nat) (rest : List Nat) (htodo : (s.job j).todoDel = f :: rest) :
    jstep cfg s j = some (doRemove s j f rest) ∧
    (∀ i, i < s.nSnap → (s.snap i).st = .opened → f ∉ (s.ver (s.snap i).ver).nos) ∧
    f ∉ s.pending ∧ ∀ iv, (f, iv) ∉ (s.ver s.cur).rollup := by
  have hs := safe_reachable hr hcl hal hfe hpf hcc hga hlf h
  have hd := (hs.jobs j hj).deleting (by rw [hpc]; rfl) f (by simp [htodo])
  refine ⟨by simp [jstep, hj, hpc, htodo], ?_, hd.1.2.1, fun iv hm => hd.2 (List.mem_map.mpr ⟨(f, iv), hm, rfl⟩)⟩
  intro i hi ho
  exact hd.1.2.2 _ (hs.open_active i hi ho)

/-- `cache.Evict` in deleteObsoleteFiles closes only readers no open snapshot retains. -/
theorem evict_only_unneeded {cfg : Cfg} {v0 f0 : Nat} {s : St} (hr : cfg.recheck = true) (hcl : cfg.cloneLocked = true) (hal : cfg.allocLocked = true) (hfe : cfg.findErrReleases = false) (hpf : cfg.pendFirst = true)
    (hcc : cfg.closeCAS = true) (hga : cfg.getReaderAtomic = true) (hlf : cfg.listFirst = true)
    (h : Reachable cfg v0 f0 s) (j : Nat) (hj : j < s.nJob)
    (hpc : (s.job j).pc = .doRolled ∨ (s.job j).pc = .doRemoved)
    (f : Nat) (rest : List Nat) (htodo : (s.job j).todoDel = f :: rest) :
    jstep cfg s j = some (doEvict s j f) ∧
    (∀ i, i < s.nSnap → (s.snap i).st = .opened → f ∉ (s.snap i).held) := by
  have hs := safe_reachable hr hcl hal hfe hpf hcc hga hlf h
  have hd := (hs.jobs j hj).deleting (by rcases hpc with hpc | hpc <;> rw [hpc] <;> rfl) f (by simp [htodo])
  refine ⟨by rcases hpc with hpc | hpc <;> simp [jstep, hj, hpc, htodo], ?_⟩
  intro i hi ho hmem
  exact hd.1.2.2 _ (hs.open_active i hi ho) (hs.held_files i hi f hmem)

/-- `storeCache.Cleanup` closes only readers nobody retains. -/
theorem cleanup_only_unreferenced {cfg : Cfg} {v0 f0 : Nat} {s s' : St} (hr : cfg.recheck = true) (hcl : cfg.cloneLocked = true) (hal : cfg.allocLocked = true) (hfe : cfg.findErrReleases = false) (hpf : cfg.pendFirst = true)
    (hcc : cfg.closeCAS = true) (hga : cfg.getReaderAtomic = true) (hlf : cfg.listFirst = true)
    (h : Reachable cfg v0 f0 s) (fs : List Nat) (hst : step cfg s (.cleanup fs) = some s') :
    ∀ f ∈ fs, ∀ i, i < s.nSnap → f ∉ (s.snap i).held := by
  have hs := safe_reachable hr hcl hal hfe hpf hcc hga hlf h
  intro f hf i hi hmem
  simp only [step] at hst
  split at hst
  next hc =>
    rw [List.all_eq_true] at hc
    have hz : s.cref f = some 0 := by simpa [canClean] using hc f hf
    have h1 := holdSum_ge_count s.snap f i s.nSnap hi
    have h2 := hs.hold_count f 0 hz
    have h3 : 0 < (s.snap i).held.count f := List.count_pos_iff.mpr hmem
    omega
  next => cases hst

/-- Along any schedule, as long as snapshot `i` stays open a read through it returns exactly the
content its version had when the snapshot was taken (= at any earlier state `s` in which it was
already open), whatever flushes, compactions, rollup commits, file deletions and cache cleanups
ran in between. -/
theorem snapshot_stable {cfg : Cfg} {v0 f0 : Nat} {s s' : St} {acts : List Act} (hr : cfg.recheck = true) (hcl : cfg.cloneLocked = true) (hal : cfg.allocLocked = true) (hfe : cfg.findErrReleases = false) (hpf : cfg.pendFirst = true)
    (hcc : cfg.closeCAS = true) (hga : cfg.getReaderAtomic = true) (hlf : cfg.listFirst = true)
    (h : Reachable cfg v0 f0 s) (hrun : run cfg s acts = some s')
    (i : Nat) (hi : i < s.nSnap) (ho' : (s'.snap i).st = .opened) (k : Nat) :
    readKey s' i k = readKey s i k ∧
    readKey s i k = some (contentOf (s.ver (s.snap i).ver) s.content k) := by
  have hs := safe_reachable hr hcl hal hfe hpf hcc hga hlf h
  have hs' := safe_reachable hr hcl hal hfe hpf hcc hga hlf (reachable_run h hrun)
  have hf := frame_run hr hcl hal hfe hpf hcc hga hlf (safe_reachable hr hcl hal hfe hpf hcc hga hlf h) hrun
  have ho := (hf.snap_open i hi ho').1
  have hi' : i < s'.nSnap := Nat.lt_of_lt_of_le hi hf.nSnap_le
  rw [readKey_safe hs hi ho k, readKey_safe hs' hi' ho' k, contentOf_frame hs hf hi k]
  exact ⟨rfl, rfl⟩

/-- a reader retained at `s` by a snapshot that is still open at `s'` is still mapped at `s'` -/
theorem held_readers_stay_mapped {cfg : Cfg} {v0 f0 : Nat} {s s' : St} {acts : List Act} (hr : cfg.recheck = true) (hcl : cfg.cloneLocked = true) (hal : cfg.allocLocked = true) (hfe : cfg.findErrReleases = false) (hpf : cfg.pendFirst = true)
    (hcc : cfg.closeCAS = true) (hga : cfg.getReaderAtomic = true) (hlf : cfg.listFirst = true)
    (h : Reachable cfg v0 f0 s) (hrun : run cfg s acts = some s')
    (i : Nat) (hi : i < s.nSnap) (ho' : (s'.snap i).st = .opened) :
    ∀ f ∈ (s.snap i).held, s'.cref f ≠ none := by
  have hs' := safe_reachable hr hcl hal hfe hpf hcc hga hlf (reachable_run h hrun)
  have hf := frame_run hr hcl hal hfe hpf hcc hga hlf (safe_reachable hr hcl hal hfe hpf hcc hga hlf h) hrun
  intro f hmem
  exact hs'.held_mapped i (Nat.lt_of_lt_of_le hi hf.nSnap_le) ho' f ((hf.snap_open i hi ho').2 f hmem)

/-- the tables of an open snapshot's version stay in the directory for as long as it is open -/
theorem snapshot_files_stay {cfg : Cfg} {v0 f0 : Nat} {s s' : St} {acts : List Act} (hr : cfg.recheck = true) (hcl : cfg.cloneLocked = true) (hal : cfg.allocLocked = true) (hfe : cfg.findErrReleases = false) (hpf : cfg.pendFirst = true)
    (hcc : cfg.closeCAS = true) (hga : cfg.getReaderAtomic = true) (hlf : cfg.listFirst = true)
    (h : Reachable cfg v0 f0 s) (hrun : run cfg s acts = some s')
    (i : Nat) (hi : i < s.nSnap) (ho' : (s'.snap i).st = .opened) :
    ∀ f ∈ (s.ver (s.snap i).ver).nos, f ∈ s'.disk := by
  have hs := safe_reachable hr hcl hal hfe hpf hcc hga hlf h
  have hs' := safe_reachable hr hcl hal hfe hpf hcc hga hlf (reachable_run h hrun)
  have hf := frame_run hr hcl hal hfe hpf hcc hga hlf (safe_reachable hr hcl hal hfe hpf hcc hga hlf h) hrun
  have hi' : i < s'.nSnap := Nat.lt_of_lt_of_le hi hf.nSnap_le
  intro f hmem
  have := hs'.files_on_disk _ (hs'.open_active i hi' ho') f
  rw [hf.snap_ver i hi, hf.ver_eq _ (hs.ver_bound.2.2 i hi)] at this
  exact this hmem

/-- The current version is the replay of every edit log installed so far (`hist`, newest first):
commits are never lost or re-ordered (they are serialised by the version-set mutex and each
clones the version that is current at its swap). -/
theorem current_is_replay {cfg : Cfg} {v0 f0 : Nat} {s : St} (hr : cfg.recheck = true) (hcl : cfg.cloneLocked = true) (hal : cfg.allocLocked = true) (hfe : cfg.findErrReleases = false) (hpf : cfg.pendFirst = true)
    (hcc : cfg.closeCAS = true) (hga : cfg.getReaderAtomic = true) (hlf : cfg.listFirst = true)
    (h : Reachable cfg v0 f0 s) : s.ver s.cur = s.hist.foldr (fun e v => applyEdit v e) {} :=
  (safe_reachable hr hcl hal hfe hpf hcc hga hlf h).history

/-- the swap step of a commit records its edit log -/
theorem swap_records_commit (s : St) (j : Nat) :
    (jSwap s j).hist = (s.job j).edit :: s.hist ∧ (jSwap s j).cur = (s.job j).newVer := ⟨rfl, rfl⟩

/-- A reader that starts after a commit completed (its edit log `e` is in the history when the
reader takes its snapshot) gets a version that lists every table `e` added, unless a later
installed edit log (a compaction that consumed it) deleted that table. -/
theorem later_reader_sees_commit {cfg : Cfg} {v0 f0 : Nat} {s s' : St} (hr : cfg.recheck = true) (hcl : cfg.cloneLocked = true) (hal : cfg.allocLocked = true) (hfe : cfg.findErrReleases = false) (hpf : cfg.pendFirst = true)
    (hcc : cfg.closeCAS = true) (hga : cfg.getReaderAtomic = true) (hlf : cfg.listFirst = true)
    (h : Reachable cfg v0 f0 s) (hst : step cfg s .acquire = some s')
    (later earlier : List Edit) (e : Edit) (hh : s.hist = later ++ e :: earlier)
    (m : FileMeta) (hm : m ∈ e.adds) (hnd : ∀ e' ∈ later, (m.level, m.no) ∉ e'.dels) :
    (s'.snap s.nSnap).st = .opened ∧ (s'.snap s.nSnap).ver = s.cur ∧
    m ∈ (s'.ver (s'.snap s.nSnap).ver).files := by
  have hs := safe_reachable hr hcl hal hfe hpf hcc hga hlf h
  simp only [step] at hst
  cases hst
  refine ⟨by simp [snapAcquire], by simp [snapAcquire], ?_⟩
  have : (snapAcquire s none).ver ((snapAcquire s none).snap s.nSnap).ver = s.ver s.cur := by
    simp [snapAcquire]
  rw [this, hs.history, hh]
  exact mem_replay hm hnd

/-- once a commit's version swap is done its edit log is in the history … -/
theorem commit_recorded {cfg : Cfg} {v0 f0 : Nat} {s : St} (hr : cfg.recheck = true) (hcl : cfg.cloneLocked = true) (hal : cfg.allocLocked = true) (hfe : cfg.findErrReleases = false) (hpf : cfg.pendFirst = true)
    (hcc : cfg.closeCAS = true) (hga : cfg.getReaderAtomic = true) (hlf : cfg.listFirst = true)
    (h : Reachable cfg v0 f0 s) (j : Nat) (hj : j < s.nJob) (hp : postSwap (s.job j).pc = true) :
    (s.job j).edit ∈ s.hist :=
  ((safe_reachable hr hcl hal hfe hpf hcc hga hlf h).jobs j hj).recorded hp

/-- … and stays there along every schedule -/
theorem installed_commit_stays {cfg : Cfg} {v0 f0 : Nat} {s s' : St} {acts : List Act} (hr : cfg.recheck = true)
    (hcl : cfg.cloneLocked = true) (hal : cfg.allocLocked = true) (hfe : cfg.findErrReleases = false) (hpf : cfg.pendFirst = true)
    (hcc : cfg.closeCAS = true) (hga : cfg.getReaderAtomic = true) (hlf : cfg.listFirst = true) (h : Reachable cfg v0 f0 s)
    (hrun : run cfg s acts = some s') (e : Edit) (he : e ∈ s.hist) : e ∈ s'.hist :=
  (frame_run hr hcl hal hfe hpf hcc hga hlf (safe_reachable hr hcl hal hfe hpf hcc hga hlf h) hrun).hist_grows e he

/-- ALL interleavings of any number of concurrent committers (in particular two overlapping
flush / compaction / rollup commits on the family): every commit whose swap completed before a
reader starts — i.e. every `e` in the history — is visible to that reader: each table `e` added is
listed by the reader's version unless an edit installed after `e` deleted it. -/
theorem completed_commits_visible {cfg : Cfg} {v0 f0 : Nat} {s s' : St} (hr : cfg.recheck = true)
    (hcl : cfg.cloneLocked = true) (hal : cfg.allocLocked = true) (hfe : cfg.findErrReleases = false) (hpf : cfg.pendFirst = true)
    (hcc : cfg.closeCAS = true) (hga : cfg.getReaderAtomic = true) (hlf : cfg.listFirst = true) (h : Reachable cfg v0 f0 s) (hst : step cfg s .acquire = some s')
    (e : Edit) (he : e ∈ s.hist) :
    ∃ later earlier, s.hist = later ++ e :: earlier ∧
      ∀ m ∈ e.adds, (∀ e' ∈ later, (m.level, m.no) ∉ e'.dels) → m ∈ (s'.ver (s'.snap s.nSnap).ver).files := by
  obtain ⟨later, earlier, hh⟩ := List.append_of_mem he
  exact ⟨later, earlier, hh, fun m hm hnd => (later_reader_sees_commit hr hcl hal hfe hpf hcc hga hlf h hst later earlier e hh m hm hnd).2.2⟩

/-- two committers `j ≠ k` that both finished their swap: a reader starting now sees the tables
of both (flushes add, never delete; nothing installed since deleted them) -/
theorem two_committers_both_visible {cfg : Cfg} {v0 f0 : Nat} {s s' : St} (hr : cfg.recheck = true)
    (hcl : cfg.cloneLocked = true) (hal : cfg.allocLocked = true) (hfe : cfg.findErrReleases = false) (hpf : cfg.pendFirst = true)
    (hcc : cfg.closeCAS = true) (hga : cfg.getReaderAtomic = true) (hlf : cfg.listFirst = true) (h : Reachable cfg v0 f0 s) (hst : step cfg s .acquire = some s')
    (j k : Nat) (hj : j < s.nJob) (hk : k < s.nJob)
    (hpj : postSwap (s.job j).pc = true) (hpk : postSwap (s.job k).pc = true)
    (hnodel : ∀ e' ∈ s.hist, e'.dels = []) :
    (∀ m ∈ (s.job j).edit.adds, m ∈ (s'.ver (s'.snap s.nSnap).ver).files) ∧
    (∀ m ∈ (s.job k).edit.adds, m ∈ (s'.ver (s'.snap s.nSnap).ver).files) := by
  have key : ∀ e ∈ s.hist, ∀ m ∈ e.adds, m ∈ (s'.ver (s'.snap s.nSnap).ver).files := by
    intro e he m hm
    obtain ⟨later, earlier, hh, hv⟩ := completed_commits_visible hr hcl hal hfe hpf hcc hga hlf h hst e he
    apply hv m hm
    intro e' he'
    have := hnodel e' (by rw [hh]; simp [he'])
    simp [this]
  exact ⟨key _ (commit_recorded hr hcl hal hfe hpf hcc hga hlf h j hj hpj), key _ (commit_recorded hr hcl hal hfe hpf hcc hga hlf h k hk hpk)⟩

/-! ### content level across compactions — for ANY merger satisfying the contract `MergerOk`

`cfg.merge` is the family's merger (what a compaction writes for the contents of its inputs).
`snapshot_stable` above already holds for every merger whatsoever (it never looks at `cfg.merge`).
What needs the contract "for every key the merged table holds exactly the tokens of its inputs"
is that a compaction does not change what the CURRENT version shows. -/

/-- Over all schedules: for every key the current version shows exactly (as a multiset) the value
tokens of the flush commits whose version swap is done (`s.flushed`), however many compactions
(merge or trivial move), rollup commits and overlapping committers ran. -/
theorem current_shows_flushed_tokens {cfg : Cfg} {v0 f0 : Nat} {s : St} (hm : MergerOk cfg.merge)
    (hr : cfg.recheck = true) (hcl : cfg.cloneLocked = true) (hal : cfg.allocLocked = true) (hfe : cfg.findErrReleases = false) (hpf : cfg.pendFirst = true)
    (hcc : cfg.closeCAS = true) (hga : cfg.getReaderAtomic = true) (hlf : cfg.listFirst = true) (h : Reachable cfg v0 f0 s) (k : Nat) :
    (vTokens (s.ver s.cur).files s.content k).Perm (s.flushed.flatMap (fun f => tokensAt (s.content f) k)) :=
  (tok_reachable hm hr hcl hal hfe hpf hcc hga hlf h).tokens k

/-- a flush commit's swap records its table as flushed -/
theorem swap_records_flush (s : St) (j : Nat) (hk : (s.job j).kind = .flush) :
    (jSwap s j).flushed = outNo (s.job j) ++ s.flushed := by
  simp [jSwap, noteFlush, hk, swapVersion, setPc, St.setJob]

/-- A reader that starts later sees, for every key, exactly the tokens of all flush commits that
completed (swapped) before it started — compactions in between notwithstanding. -/
theorem later_reader_sees_tokens {cfg : Cfg} {v0 f0 : Nat} {s s' : St} (hm : MergerOk cfg.merge)
    (hr : cfg.recheck = true) (hcl : cfg.cloneLocked = true) (hal : cfg.allocLocked = true) (hfe : cfg.findErrReleases = false) (hpf : cfg.pendFirst = true)
    (hcc : cfg.closeCAS = true) (hga : cfg.getReaderAtomic = true) (hlf : cfg.listFirst = true) (h : Reachable cfg v0 f0 s)
    (hst : step cfg s .acquire = some s') (k : Nat) :
    (vTokens (s'.ver (s'.snap s.nSnap).ver).files s'.content k).Perm
      (s.flushed.flatMap (fun f => tokensAt (s.content f) k)) := by
  simp only [step] at hst
  cases hst
  have : vTokens ((snapAcquire s none).ver ((snapAcquire s none).snap s.nSnap).ver).files (snapAcquire s none).content k =
      vTokens (s.ver s.cur).files s.content k := by simp [snapAcquire]
  rw [this]
  exact current_shows_flushed_tokens hm hr hcl hal hfe hpf hcc hga hlf h k

/-- the version swap of a compaction (merge or trivial move) leaves every key's tokens unchanged -/
theorem compaction_swap_keeps_tokens {cfg : Cfg} {v0 f0 : Nat} {s : St} (hm : MergerOk cfg.merge)
    (hr : cfg.recheck = true) (hcl : cfg.cloneLocked = true) (hal : cfg.allocLocked = true) (hfe : cfg.findErrReleases = false) (hpf : cfg.pendFirst = true)
    (hcc : cfg.closeCAS = true) (hga : cfg.getReaderAtomic = true) (hlf : cfg.listFirst = true) (h : Reachable cfg v0 f0 s)
    (j : Nat) (hj : j < s.nJob) (hpc : (s.job j).pc = .cSnapped) (hk : (s.job j).kind = .compact) (k : Nat) :
    (vTokens ((jSwap s j).ver (jSwap s j).cur).files (jSwap s j).content k).Perm
      (vTokens (s.ver s.cur).files s.content k) := by
  have hstep : step cfg s (.jstep j) = some (jSwap s j) := by simp [step, jstep, hj, hpc]
  have h1 := current_shows_flushed_tokens hm hr hcl hal hfe hpf hcc hga hlf (Reachable.step _ h hstep) k
  have h2 := current_shows_flushed_tokens hm hr hcl hal hfe hpf hcc hga hlf h k
  have hfl : (jSwap s j).flushed = s.flushed := by simp [jSwap, noteFlush, hk, swapVersion, setPc, St.setJob]
  have hc : (jSwap s j).content = s.content := rfl
  rw [hfl, hc] at h1
  exact h1.trans h2.symm

/-- the contract is satisfiable (a merger that concatenates the inputs' tokens per key) -/
theorem merger_contract_satisfiable : MergerOk collectMerge := collectMerge_ok

/-- the harness' own merger (per key: concatenate the inputs' tokens, sort) satisfies the contract -/
theorem harness_merger_ok : MergerOk mergeContent := mergeContent_ok

/-- UNCONDITIONAL for the current source with the harness' merger (the configuration the
correspondence runs): the current version shows exactly the tokens of the completed flush commits -/
theorem current_source_harness_tokens {t : Nat} {ro : List Nat} {v0 f0 : Nat} {s : St}
    (h : Reachable (codeCfg t ro) v0 f0 s) (k : Nat) :
    (vTokens (s.ver s.cur).files s.content k).Perm (s.flushed.flatMap (fun f => tokensAt (s.content f) k)) :=
  current_shows_flushed_tokens (cfg := codeCfg t ro) mergeContent_ok source_rechecks source_clone_locked
    source_alloc_locked source_find_err_keeps source_pend_first source_close_cas source_getReader_atomic source_list_first h k

/-- the model variant of the current source with an arbitrary merger -/
def codeCfgWith (merge : List Content → Content) (threshold : Nat) (targets : List Nat) : Cfg :=
  { codeCfg threshold targets with merge := merge }

/-- UNCONDITIONAL for the current source, any contract-abiding merger: what the current version
shows for a key is exactly what the completed flush commits wrote -/
theorem current_source_shows_flushed_tokens {merge : List Content → Content} (hm : MergerOk merge)
    {t : Nat} {ro : List Nat} {v0 f0 : Nat} {s : St} (h : Reachable (codeCfgWith merge t ro) v0 f0 s) (k : Nat) :
    (vTokens (s.ver s.cur).files s.content k).Perm (s.flushed.flatMap (fun f => tokensAt (s.content f) k)) :=
  current_shows_flushed_tokens (cfg := codeCfgWith merge t ro) hm source_rechecks source_clone_locked source_alloc_locked source_find_err_keeps
    source_pend_first source_close_cas source_getReader_atomic source_list_first h k

/-- the table numbers of a version are pairwise distinct; at most one compaction runs at a time -/
theorem version_tables_distinct {cfg : Cfg} {v0 f0 : Nat} {s : St} (hm : MergerOk cfg.merge)
    (hr : cfg.recheck = true) (hcl : cfg.cloneLocked = true) (hal : cfg.allocLocked = true) (hfe : cfg.findErrReleases = false) (hpf : cfg.pendFirst = true)
    (hcc : cfg.closeCAS = true) (hga : cfg.getReaderAtomic = true) (hlf : cfg.listFirst = true) (h : Reachable cfg v0 f0 s) (v : Nat) :
    (s.ver v).nos.Nodup :=
  (tok_reachable hm hr hcl hal hfe hpf hcc hga hlf h).nodup v

/-! ### table numbers and rollup marks -/

/-- Over all schedules (allocation under the version-set mutex): the table numbers handed out to
different jobs are pairwise distinct — no two builders ever own one file. -/
theorem allocated_numbers_distinct {cfg : Cfg} {v0 f0 : Nat} {s : St} (hr : cfg.recheck = true)
    (hcl : cfg.cloneLocked = true) (hal : cfg.allocLocked = true) (hfe : cfg.findErrReleases = false) (hpf : cfg.pendFirst = true)
    (hcc : cfg.closeCAS = true) (hga : cfg.getReaderAtomic = true) (hlf : cfg.listFirst = true) (h : Reachable cfg v0 f0 s)
    (j k : Nat) (hj : j < s.nJob) (hk : k < s.nJob) (hjk : j ≠ k) :
    ∀ f ∈ outNo (s.job j), f ∉ outNo (s.job k) :=
  (safe_reachable hr hcl hal hfe hpf hcc hga hlf h).outs_distinct j k hj hk hjk

/-- … and an allocated number that is not installed yet is listed by no version -/
theorem allocated_number_unlisted {cfg : Cfg} {v0 f0 : Nat} {s : St} (hm : MergerOk cfg.merge) (hr : cfg.recheck = true)
    (hcl : cfg.cloneLocked = true) (hal : cfg.allocLocked = true) (hfe : cfg.findErrReleases = false) (hpf : cfg.pendFirst = true)
    (hcc : cfg.closeCAS = true) (hga : cfg.getReaderAtomic = true) (hlf : cfg.listFirst = true) (h : Reachable cfg v0 f0 s)
    (j : Nat) (hj : j < s.nJob) (hp : outHidden (s.job j).pc = true) :
    ∀ f ∈ outNo (s.job j), ∀ v, f ∉ (s.ver v).nos :=
  ((tok_reachable hm hr hcl hal hfe hpf hcc hga hlf h).jobs j hj).hidden hp

/-- A pending rollup mark — the pair (file `f`, target interval `iv`) in the current version's rollup
set: the record that the rollup of `f` into the `iv` target is still to be done, and what keeps `f`
alive once it is compacted away — survives every step except the version swap of a rollup commit
whose edit log names exactly that pair: no flush, compaction, cleanup, deleteObsoleteFiles removes it.
Such a commit is either the explicit rollup-done commit (`rollupDone`: "the target merged these") or
the commit of a rollup job (`family.rollup`), and then (DeleteRollupFile records created per target,
`rollDelPerInterval`) `iv` is one of the targets that SUCCEEDED in that job — whatever subset of the
job's targets was skipped or failed (the job's outcome set is arbitrary). -/
theorem rollup_mark_removed_only_by_rollup_done {cfg : Cfg} {v0 f0 : Nat} {s s' : St} {a : Act}
    (hr : cfg.recheck = true) (hcl : cfg.cloneLocked = true) (hal : cfg.allocLocked = true) (hfe : cfg.findErrReleases = false) (hpf : cfg.pendFirst = true)
    (hcc : cfg.closeCAS = true) (hga : cfg.getReaderAtomic = true) (hlf : cfg.listFirst = true)
    (hpi : cfg.rollDelPerInterval = true)
    (h : Reachable cfg v0 f0 s) (hst : step cfg s a = some s') (f iv : Nat) (hf : (f, iv) ∈ (s.ver s.cur).rollup) :
    (f, iv) ∈ (s'.ver s'.cur).rollup ∨
    ∃ j, a = .jstep j ∧ j < s.nJob ∧ (s.job j).pc = .cSnapped ∧ (f, iv) ∈ (s.job j).edit.rollDel ∧
      ((s.job j).kind = .rollupDone ∨ ((s.job j).kind = .rollupJob ∧ iv ∈ okTargets (s.job j))) := by
  have hs := safe_reachable hr hcl hal hfe hpf hcc hga hlf h
  have hri := rollInv_reachable hpf hpi h
  have hfr := frame_step hpf (fun k hk hp => (hs.jobs k hk).nfread hp) hst
  rcases cur_step hpf hst with hc | ⟨j, rfl, hj, hpc, rfl⟩
  · left; rw [hc, hfr.ver_eq _ hs.ver_bound.1]; exact hf
  · have hb := hs.jobs j hj
    have hbuilt := (hb.built hpc).2
    have hcur : (jSwap s j).ver (jSwap s j).cur = s.ver (s.job j).newVer := rfl
    by_cases hdel : (f, iv) ∈ (s.job j).edit.rollDel
    · right
      refine ⟨j, rfl, hj, hpc, hdel, ?_⟩
      by_cases hk1 : (s.job j).kind = .rollupDone
      · exact Or.inl hk1
      · by_cases hk2 : (s.job j).kind = .rollupJob
        · exact Or.inr ⟨hk2, hri j hk2 (f, iv) hdel⟩
        · have := hb.rolldel (by rw [hpc]; rfl) hk1 hk2
          rw [this] at hdel; cases hdel
    · left
      rw [hcur, hbuilt]
      simp only [applyEdit, List.mem_append, List.mem_filter]
      left; exact ⟨hf, by simpa using hdel⟩

/-- Over all schedules and all subsets of succeeding / failing rollup targets: the edit log of a
rollup job names only (file, interval) pairs whose target interval succeeded in that job. -/
theorem rollup_job_names_only_succeeded_targets {cfg : Cfg} {v0 f0 : Nat} {s : St} (hpf : cfg.pendFirst = true)
    (hpi : cfg.rollDelPerInterval = true) (h : Reachable cfg v0 f0 s) (j : Nat) (hk : (s.job j).kind = .rollupJob) :
    ∀ p ∈ (s.job j).edit.rollDel, p.2 ∈ okTargets (s.job j) :=
  rollInv_reachable hpf hpi h j hk

/-- the step that builds the rollup job's edit log: exactly the current marks of the succeeded targets -/
theorem rollup_job_edit_is_marks_of_succeeded_targets (cfg : Cfg) (hpi : cfg.rollDelPerInterval = true) (s : St) (j : Nat)
    (hj : j < s.nJob) (hpc : (s.job j).pc = .start) (hk : (s.job j).kind = .rollupJob) :
    jstep cfg s j = some (jRollupStart cfg s j) ∧
    ∀ p, p ∈ ((jRollupStart cfg s j).job j).edit.rollDel ↔ (p ∈ (s.ver s.cur).rollup ∧ p.2 ∈ okTargets (s.job j)) := by
  refine ⟨by simp [jstep, hj, hpc, hk], fun p => ?_⟩
  simp only [jRollupStart, St.setJob, upd, if_true, hpi, okTargets]
  exact mem_rollupDels_perInterval _ _ p

/-- A rollup job whose target `iv` was skipped or failed leaves every `iv` mark in place when its
commit is installed (whatever its other targets did). -/
theorem failed_target_keeps_its_marks {cfg : Cfg} {v0 f0 : Nat} {s s' : St} {j : Nat}
    (hr : cfg.recheck = true) (hcl : cfg.cloneLocked = true) (hal : cfg.allocLocked = true) (hfe : cfg.findErrReleases = false) (hpf : cfg.pendFirst = true)
    (hcc : cfg.closeCAS = true) (hga : cfg.getReaderAtomic = true) (hlf : cfg.listFirst = true)
    (hpi : cfg.rollDelPerInterval = true)
    (h : Reachable cfg v0 f0 s) (hst : step cfg s (.jstep j) = some s') (hk : (s.job j).kind = .rollupJob)
    (f iv : Nat) (hiv : iv ∉ okTargets (s.job j)) (hf : (f, iv) ∈ (s.ver s.cur).rollup) :
    (f, iv) ∈ (s'.ver s'.cur).rollup := by
  rcases rollup_mark_removed_only_by_rollup_done hr hcl hal hfe hpf hcc hga hlf hpi h hst f iv hf with h' | ⟨k, hk', _, _, _, hkind⟩
  · exact h'
  · cases hk'
    rcases hkind with hd | ⟨_, hok⟩
    · rw [hk] at hd; cases hd
    · exact absurd hok hiv

/-- In every reachable state a table that carries a pending rollup mark for ANY target interval is in
the directory, and no deleteObsoleteFiles — the stand-alone one, the one deferred by a level-0
compaction, the one deferred by the rollup job itself — has it in its delete list (it is in the live
set the cleanup computed: `GetLiveRollupFiles` = the files with at least one mark). -/
theorem pending_rollup_file_kept_for_any_interval {cfg : Cfg} {v0 f0 : Nat} {s : St}
    (hr : cfg.recheck = true) (hcl : cfg.cloneLocked = true) (hal : cfg.allocLocked = true) (hfe : cfg.findErrReleases = false) (hpf : cfg.pendFirst = true)
    (hcc : cfg.closeCAS = true) (hga : cfg.getReaderAtomic = true) (hlf : cfg.listFirst = true)
    (h : Reachable cfg v0 f0 s) (f iv : Nat) (hf : (f, iv) ∈ (s.ver s.cur).rollup) :
    f ∈ s.disk ∧ ∀ j, j < s.nJob → delRange (s.job j).pc = true → f ∉ (s.job j).todoDel := by
  have hs := safe_reachable hr hcl hal hfe hpf hcc hga hlf h
  have hfm : f ∈ (s.ver s.cur).rollupFiles := List.mem_map.mpr ⟨(f, iv), hf, rfl⟩
  refine ⟨hs.rollup_on_disk f hfm, fun j hj hd hmem => ?_⟩
  exact ((hs.jobs j hj).deleting hd f hmem).2 hfm

/-! ### reader-cache references over histories with failing FindReaders calls

A `FindReaders(k)` that fails at some table is, in the code as it is, exactly the `getReader`
steps of the tables opened before the failing one (each retained AND recorded in `s.readers`)
followed by a failed open, which changes nothing; `Close` releases every recorded reader once.
So every history with failing finds is a schedule of this model. -/

/-- for every mapped table the cache entry's ref covers all (snapshot, reader) holds — with
equality unless `Snapshot.Load` leaked references (it retains without recording) -/
theorem cache_ref_covers_holds {cfg : Cfg} {v0 f0 : Nat} {s : St} (hr : cfg.recheck = true)
    (hcl : cfg.cloneLocked = true) (hal : cfg.allocLocked = true) (hfe : cfg.findErrReleases = false) (hpf : cfg.pendFirst = true)
    (hcc : cfg.closeCAS = true) (hga : cfg.getReaderAtomic = true) (hlf : cfg.listFirst = true)
    (h : Reachable cfg v0 f0 s) (f : Nat) (r : Int) (hf : s.cref f = some r) :
    (holdSum s.snap f s.nSnap : Int) ≤ r :=
  (safe_reachable hr hcl hal hfe hpf hcc hga hlf h).hold_count f r hf

/-- hence an entry whose table some open snapshot retains is never eligible for `Cleanup` -/
theorem held_entry_not_cleanable {cfg : Cfg} {v0 f0 : Nat} {s : St} (hr : cfg.recheck = true)
    (hcl : cfg.cloneLocked = true) (hal : cfg.allocLocked = true) (hfe : cfg.findErrReleases = false) (hpf : cfg.pendFirst = true)
    (hcc : cfg.closeCAS = true) (hga : cfg.getReaderAtomic = true) (hlf : cfg.listFirst = true)
    (h : Reachable cfg v0 f0 s) (i : Nat) (hi : i < s.nSnap) (f : Nat) (hf : f ∈ (s.snap i).held) :
    canClean s.cref f = false := by
  have hs := safe_reachable hr hcl hal hfe hpf hcc hga hlf h
  cases hc : s.cref f with
  | none => simp [canClean, hc]
  | some r =>
    have h1 := holdSum_ge_count s.snap f i s.nSnap hi
    have h2 := hs.hold_count f r hc
    have h3 : 0 < (s.snap i).held.count f := List.count_pos_iff.mpr hf
    have : r ≠ 0 := by omega
    simp [canClean, hc, this]

/-! ### deleteObsoleteFiles racing with writers: the listing precedes the live set -/

/-- Over all schedules (directory listed BEFORE the pending / active-version / rollup collections):
whatever a deleteObsoleteFiles has decided to evict + unlink is, in EVERY later state until it is
done with it, no output of a writer that has not finished (allocated, created, committing,
committed-but-still-pending), no table of any registered version — in particular not the table of
a flush / compaction / rollup commit that landed entirely inside the cleanup — and carries no
rollup mark. A table that enters the directory after the listing is simply not in the listing. -/
theorem cleanup_never_targets_concurrent_writer {cfg : Cfg} {v0 f0 : Nat} {s : St} (hr : cfg.recheck = true)
    (hcl : cfg.cloneLocked = true) (hal : cfg.allocLocked = true) (hfe : cfg.findErrReleases = false)
    (hpf : cfg.pendFirst = true) (hcc : cfg.closeCAS = true) (hga : cfg.getReaderAtomic = true) (hlf : cfg.listFirst = true)
    (h : Reachable cfg v0 f0 s) (j : Nat) (hj : j < s.nJob) (hd : delRange (s.job j).pc = true)
    (f : Nat) (hf : f ∈ (s.job j).todoDel) :
    (∀ k, k < s.nJob → outPending (s.job k).pc = true → f ∉ outNo (s.job k)) ∧
    (∀ v ∈ s.active, f ∉ (s.ver v).nos) ∧ (∀ iv, (f, iv) ∉ (s.ver s.cur).rollup) ∧ f ∉ s.pending := by
  have hs := safe_reachable hr hcl hal hfe hpf hcc hga hlf h
  have hdd := (hs.jobs j hj).deleting hd f hf
  refine ⟨?_, hdd.1.2.2, fun iv hm => hdd.2 (List.mem_map.mpr ⟨(f, iv), hm, rfl⟩), hdd.1.2.1⟩
  intro k hk hp hmem
  exact hdd.1.2.1 ((hs.jobs k hk).pend hp f hmem)

/-- the variant step list the model runs for the current source IS list-first: the job step after
`doStart` is the listing, the step after the active-version scan computes the delete list -/
theorem list_first_steps (cfg : Cfg) (hlf : cfg.listFirst = true) (s : St) (j : Nat) (hj : j < s.nJob) :
    ((s.job j).pc = .doStart → jstep cfg s j = some (doList s j)) ∧
    ((s.job j).pc = .doActived → jstep cfg s j = some (doRollup s j)) := by
  constructor <;> intro hpc <;> simp [jstep, hj, hpc, hlf]

/-! ### several families in one store (shared version-set mutex, file-number and version-id counters, reader cache) -/

/-- what another family can do to this family: nothing but move the two store-level counters on,
and only while no commit of this family holds the version-set mutex -/
theorem env_enabled_iff (cfg : Cfg) (s s' : St) (df dv : Nat) :
    step cfg s (.env df dv) = some s' ↔ s.lock = none ∧ s' = envBump s df dv := by
  simp only [step]
  constructor
  · intro h
    split at h
    next hl => cases h; exact ⟨hl, rfl⟩
    next => cases h
  · rintro ⟨hl, rfl⟩; simp [hl]

/-- an `env` step leaves every per-family component alone -/
theorem other_family_step_keeps_family_state (s : St) (df dv : Nat) :
    let s' := envBump s df dv
    s'.cur = s.cur ∧ s'.active = s.active ∧ s'.ver = s.ver ∧ s'.ref = s.ref ∧ s'.disk = s.disk ∧
    s'.pending = s.pending ∧ s'.cref = s.cref ∧ s'.snap = s.snap ∧ s'.content = s.content ∧ s'.hist = s.hist :=
  ⟨rfl, rfl, rfl, rfl, rfl, rfl, rfl, rfl, rfl, rfl⟩

/-- the numbers another family took are skipped: the next table number this family is handed is
at least the old counter plus what the others took, hence different from every number of theirs
(`[s.nextFile, s.nextFile + df)`) — which is why reader-cache entries (keyed by file name alone,
`tie_cacheKeys`) of different families never alias -/
theorem alloc_after_other_family_skips_its_numbers (s : St) (df dv j : Nat) (c : Content) (lvl : Nat) :
    ((jAlloc (envBump s df dv) j c lvl).job j).out.map (·.no) = some (s.nextFile + df) := by
  simp [jAlloc, allocFile, envBump, St.setJob]

/-- Over all schedules INCLUDING arbitrary activity of the store's other families between any two
steps: reads through a held snapshot are stable (instance of `snapshot_stable`, whose step
alphabet contains `env`), stated for a schedule that explicitly interleaves foreign commits. -/
theorem snapshot_stable_with_other_families {cfg : Cfg} {v0 f0 : Nat} {s s' : St} {acts : List Act}
    (hr : cfg.recheck = true) (hcl : cfg.cloneLocked = true) (hal : cfg.allocLocked = true)
    (hfe : cfg.findErrReleases = false) (hpf : cfg.pendFirst = true) (hcc : cfg.closeCAS = true)
    (hga : cfg.getReaderAtomic = true) (hlf : cfg.listFirst = true)
    (h : Reachable cfg v0 f0 s) (df dv : Nat) (hrun : run cfg s (.env df dv :: acts) = some s')
    (i : Nat) (hi : i < s.nSnap) (ho' : (s'.snap i).st = .opened) (k : Nat) :
    readKey s' i k = readKey s i k :=
  (snapshot_stable hr hcl hal hfe hpf hcc hga hlf h hrun i hi ho' k).1

/-! ### three committers (flush ‖ compaction ‖ rollup) -/

/-- ANY committer whose swap is done is visible to a reader that starts now: every table its edit
log added that no installed edit log deletes is listed by the reader's version. -/
theorem committer_visible {cfg : Cfg} {v0 f0 : Nat} {s s' : St} (hr : cfg.recheck = true)
    (hcl : cfg.cloneLocked = true) (hal : cfg.allocLocked = true) (hfe : cfg.findErrReleases = false) (hpf : cfg.pendFirst = true)
    (hcc : cfg.closeCAS = true) (hga : cfg.getReaderAtomic = true) (hlf : cfg.listFirst = true)
    (h : Reachable cfg v0 f0 s) (hst : step cfg s .acquire = some s')
    (j : Nat) (hj : j < s.nJob) (hpj : postSwap (s.job j).pc = true) :
    ∀ m ∈ (s.job j).edit.adds, (∀ e' ∈ s.hist, (m.level, m.no) ∉ e'.dels) →
      m ∈ (s'.ver (s'.snap s.nSnap).ver).files := by
  intro m hm hnd
  obtain ⟨later, earlier, hh, hv⟩ := completed_commits_visible hr hcl hal hfe hpf hcc hga hlf h hst _
    (commit_recorded hr hcl hal hfe hpf hcc hga hlf h j hj hpj)
  exact hv m hm (fun e' he' => hnd e' (by rw [hh]; simp [he']))

/-- three committers — a flush `a`, a level-0 compaction `b`, a rollup-done commit `c` — whose swaps
are all done, in whatever order the version-set mutex serialised them and however their other
steps interleaved: a reader that starts now sees the flush's table unless an installed compaction
consumed it, sees the compaction's output likewise, and the reference count of every version
equals the number of snapshots open on it (the three commits' own snapshots included). -/
theorem three_committers_all_visible {cfg : Cfg} {v0 f0 : Nat} {s s' : St} (hr : cfg.recheck = true)
    (hcl : cfg.cloneLocked = true) (hal : cfg.allocLocked = true) (hfe : cfg.findErrReleases = false) (hpf : cfg.pendFirst = true)
    (hcc : cfg.closeCAS = true) (hga : cfg.getReaderAtomic = true) (hlf : cfg.listFirst = true)
    (h : Reachable cfg v0 f0 s) (hst : step cfg s .acquire = some s')
    (a b c : Nat) (ha : a < s.nJob) (hb : b < s.nJob) (hc : c < s.nJob)
    (hpa : postSwap (s.job a).pc = true) (hpb : postSwap (s.job b).pc = true) (hpc : postSwap (s.job c).pc = true) :
    (∀ x ∈ [a, b, c], ∀ m ∈ (s.job x).edit.adds, (∀ e' ∈ s.hist, (m.level, m.no) ∉ e'.dels) →
      m ∈ (s'.ver (s'.snap s.nSnap).ver).files) ∧
    (∀ x ∈ [a, b, c], (s.job x).edit ∈ s.hist) ∧
    (∀ v, s.ref v = (cntOpen s.snap v s.nSnap : Int)) := by
  refine ⟨?_, ?_, (safe_reachable hr hcl hal hfe hpf hcc hga hlf h).ref_count⟩
  · intro x hx
    simp only [List.mem_cons, List.mem_nil_iff, or_false] at hx
    rcases hx with rfl | rfl | rfl
    · exact committer_visible hr hcl hal hfe hpf hcc hga hlf h hst _ ha hpa
    · exact committer_visible hr hcl hal hfe hpf hcc hga hlf h hst _ hb hpb
    · exact committer_visible hr hcl hal hfe hpf hcc hga hlf h hst _ hc hpc
  · intro x hx
    simp only [List.mem_cons, List.mem_nil_iff, or_false] at hx
    rcases hx with rfl | rfl | rfl
    · exact commit_recorded hr hcl hal hfe hpf hcc hga hlf h _ ha hpa
    · exact commit_recorded hr hcl hal hfe hpf hcc hga hlf h _ hb hpb
    · exact commit_recorded hr hcl hal hfe hpf hcc hga hlf h _ hc hpc

/-! ### unfinished writers, double Close, concurrent GetReader -/

/-- Over all schedules (pending mark BEFORE the table file is created): the table of a writer that
has created its file and not yet finished its commit is in the directory and is a pending output —
deleteObsoleteFiles, whose listing precedes its pending scan, never unlinks it. -/
theorem unfinished_writer_table_never_deleted {cfg : Cfg} {v0 f0 : Nat} {s : St} (hr : cfg.recheck = true)
    (hcl : cfg.cloneLocked = true) (hal : cfg.allocLocked = true) (hfe : cfg.findErrReleases = false)
    (hpf : cfg.pendFirst = true) (hcc : cfg.closeCAS = true) (hga : cfg.getReaderAtomic = true) (hlf : cfg.listFirst = true)
    (h : Reachable cfg v0 f0 s) (j : Nat) (hj : j < s.nJob) (hp : outOnDisk (s.job j).pc = true) :
    ∀ f ∈ outNo (s.job j), f ∈ s.disk ∧ f ∈ s.pending :=
  (no_needed_file_deleted hr hcl hal hfe hpf hcc hga hlf h).2.1 j hj hp

/-- `Close` is idempotent with the CAS guard: once a Close() of a snapshot has started no further
release of its version can happen — a second (overlapping or later) Close() is no step at all —
so, with `ref_counts_open_snapshots`, each snapshot releases its version exactly once. -/
theorem close_twice_releases_once {cfg : Cfg} (s : St) (i : Nat) (hcc : cfg.closeCAS = true)
    (hst : (s.snap i).st ≠ .opened) :
    step cfg s (.sDec i) = none ∧ step cfg s (.sDec2 i) = none := by
  constructor
  · simp only [step]; split
    · next hc => simp only [Bool.and_eq_true, decide_eq_true_eq] at hc; exact absurd hc.2 hst
    · rfl
  · simp [step, hcc]

/-- two readers that miss the cache for the same never-opened table: whatever the order of their
(atomic) GetReader critical sections, the entry ends up with both references -/
theorem concurrent_getReaders_both_retained (s : St) (i i' f : Nat) (hne : i ≠ i') (hu : s.cref f = none)
    (hd : f ∈ s.disk) :
    (snapGetReader (snapGetReader s i f true) i' f true).cref f = some 2 ∧
    f ∈ ((snapGetReader (snapGetReader s i f true) i' f true).snap i).held ∧
    f ∈ ((snapGetReader (snapGetReader s i f true) i' f true).snap i').held := by
  simp [snapGetReader, getReader, hu, hd, St.setSnap, upd, hne, Ne.symm hne]

/-! ### reader-cache cleanup as a nondeterministic step (LRU order / TTL not modelled) -/

/-- `Cleanup` may close ANY set of entries whose ref is 0 — whatever the LRU order and the expiry
times are, the entries it actually closes form such a set (regenerated guard `ref-zero, expired`). -/
theorem cleanup_enabled_iff (cfg : Cfg) (s : St) (fs : List Nat) :
    (∃ s', step cfg s (.cleanup fs) = some s') ↔ ∀ f ∈ fs, s.cref f = some 0 := by
  simp only [step]
  constructor
  · rintro ⟨s', hs⟩
    split at hs
    next hc =>
      intro f hf
      rw [List.all_eq_true] at hc
      simpa [canClean] using hc f hf
    next => cases hs
  · intro hall
    have : fs.all (canClean s.cref) = true := by
      rw [List.all_eq_true]; intro f hf; simp [canClean, hall f hf]
    exact ⟨_, by rw [if_pos this]⟩

/-- whichever unreferenced entries a cleanup closes, every reader retained by an open snapshot
stays mapped, and the state stays `Safe` -/
theorem cleanup_any_choice_keeps_held_readers {cfg : Cfg} {v0 f0 : Nat} {s s' : St} (hr : cfg.recheck = true)
    (hcl : cfg.cloneLocked = true) (hal : cfg.allocLocked = true) (hfe : cfg.findErrReleases = false) (hpf : cfg.pendFirst = true)
    (hcc : cfg.closeCAS = true) (hga : cfg.getReaderAtomic = true) (hlf : cfg.listFirst = true) (h : Reachable cfg v0 f0 s) (fs : List Nat)
    (hst : step cfg s (.cleanup fs) = some s') :
    Safe s' ∧ ∀ i, i < s.nSnap → (s.snap i).st = .opened → ∀ f ∈ (s.snap i).held, s'.cref f ≠ none := by
  have hs' := safe_step hr hcl hal hfe hpf hcc hga hlf (safe_reachable hr hcl hal hfe hpf hcc hga hlf h) hst
  refine ⟨hs', ?_⟩
  intro i hi ho f hf
  have hsnap : s'.snap = s.snap ∧ s'.nSnap = s.nSnap := by
    simp only [step] at hst
    split at hst
    · cases hst; exact ⟨rfl, rfl⟩
    · cases hst
  exact hs'.held_mapped i (by rw [hsnap.2]; exact hi) (by rw [hsnap.1]; exact ho) f (by rw [hsnap.1]; exact hf)

/-! ### the concrete reader cache (LRU list, `last` timestamps, TTL) refines the abstract one -/

theorem tie_lruWalk : Generated.C02.lruWalkShape = Code.lruWalkShape := rfl

/-- The deterministic `Cleanup` of kv/table/cache.go — walk from the LRU tail, close while the entry
is unreferenced AND expired (`now - last > ttl`), stop at the first that is not — is, for EVERY
ttl, clock value and LRU order, one of the choices of the model's nondeterministic `cleanup` step:
the step is enabled for exactly the set the walk closed and yields the walked list's abstraction. -/
theorem ttl_lru_cleanup_refines_cleanup (cfg : Cfg) (s : St) (l : Lru) (hl : LruOk l) (hc : s.cref = absLru l)
    (ttl : Int) (now : Nat) :
    ∃ s', step cfg s (.cleanup (lruClosed ttl now l)) = some s' ∧ s'.cref = absLru (lruWalk ttl now l) ∧
      LruOk (lruWalk ttl now l) := by
  have hidle := lruClosed_idle (ttl := ttl) (now := now) hl
  refine ⟨cleanFiles s (lruClosed ttl now l), ?_, ?_, lruOk_walk hl⟩
  · simp [step, hc, hidle]
  · simp [cleanFiles, hc, absLru_walk hl]

/-- hence, over all schedules and whatever the TTL, the clock and the LRU order are: the real
`Cleanup` never closes (unmaps) a reader that an open snapshot retains -/
theorem ttl_lru_cleanup_keeps_held_readers {cfg : Cfg} {v0 f0 : Nat} {s : St} (hr : cfg.recheck = true)
    (hcl : cfg.cloneLocked = true) (hal : cfg.allocLocked = true) (hfe : cfg.findErrReleases = false) (hpf : cfg.pendFirst = true)
    (hcc : cfg.closeCAS = true) (hga : cfg.getReaderAtomic = true) (hlf : cfg.listFirst = true) (h : Reachable cfg v0 f0 s)
    (l : Lru) (hl : LruOk l) (hc : s.cref = absLru l) (ttl : Int) (now : Nat) :
    ∀ i, i < s.nSnap → (s.snap i).st = .opened → ∀ f ∈ (s.snap i).held,
      absLru (lruWalk ttl now l) f ≠ none ∧ f ∉ lruClosed ttl now l := by
  obtain ⟨s', hst, hcref, _⟩ := ttl_lru_cleanup_refines_cleanup cfg s l hl hc ttl now
  have hk := (cleanup_any_choice_keeps_held_readers hr hcl hal hfe hpf hcc hga hlf h _ hst).2
  intro i hi ho f hf
  have h1 := hk i hi ho f hf
  rw [hcref] at h1
  refine ⟨h1, ?_⟩
  intro hmem
  rw [absLru_walk hl, cleanup_apply] at h1
  simp [hmem] at h1

/-- `Evict` and a `GetReader` hit / miss of the list model are the abstract `evict` / `getReader` -/
theorem lru_evict_getReader_refine (l : Lru) (disk : List Nat) (now f : Nat) :
    absLru (lruEvict l f) = evict (absLru l) f ∧
    (lruGet l disk now f).map absLru = getReader (absLru l) disk f := by
  refine ⟨absLru_evict l f, ?_⟩
  cases h : absLru l f with
  | none => exact absLru_get_miss h
  | some r => exact absLru_get_hit h

/-- `Snapshot.Close`'s `cache.ReleaseReaders(s.readers)` on the LIST model — per reader `cache.Get`
(found ⇒ MoveToFront) + `release()` — is the model's `snapRel` step (closed form `releaseAll`): for
every LRU order, every reader list (with repetitions, cached or not) the resulting list abstracts to
the step's cache, stays duplicate-free, and whatever a TTL/LRU `Cleanup` closes right afterwards is
unreferenced in the step's cache. -/
theorem release_readers_lru_refines (s : St) (i : Nat) (l : Lru) (hl : LruOk l) (hc : s.cref = absLru l)
    (ttl : Int) (now : Nat) :
    (snapRel s i).cref = absLru (lruRelease l (s.snap i).held) ∧ LruOk (lruRelease l (s.snap i).held) ∧
    (lruClosed ttl now (lruRelease l (s.snap i).held)).all (canClean (snapRel s i).cref) = true := by
  have h1 : (snapRel s i).cref = releaseAll (absLru l) (s.snap i).held := by simp [snapRel, hc]
  refine ⟨by rw [h1, absLru_release], lruOk_release hl _, ?_⟩
  rw [h1]; exact release_then_walk_closes_only_idle hl _

/-- the LRU order `ReleaseReaders` leaves: each released entry moves to the front (a release counts as
a use for the ORDER although `last` is not refreshed), the others keep their relative order -/
theorem release_readers_lru_order (l : Lru) (f : Nat) :
    lruOrder (lruRelease1 l f) = if f ∈ lruOrder l then f :: (lruOrder l).filter (· ≠ f) else lruOrder l :=
  lruOrder_release1 l f

/-- consequence worth knowing (not a C02 violation): a just-released idle entry sits at the FRONT, so an
old idle entry behind a still-referenced one is not reached by the walk (it stops at the first rejection) -/
example : lruOrder (lruRelease [⟨4, 1, 95⟩, ⟨3, 1, 10⟩, ⟨2, 2, 20⟩] [2, 3]) = [3, 2, 4] ∧
    lruClosed 10 100 (lruRelease [⟨4, 1, 95⟩, ⟨3, 1, 10⟩, ⟨2, 2, 20⟩] [2, 3]) = [] ∧
    absLru (lruRelease [⟨4, 1, 95⟩, ⟨3, 1, 10⟩, ⟨2, 2, 20⟩] [2, 3]) 3 = some 0 := by decide

/-- non-vacuity: a three-entry LRU list whose tail is idle and expired, middle is retained -/
example : lruClosed 10 100 [⟨4, 0, 95⟩, ⟨3, 1, 10⟩, ⟨2, 0, 20⟩] = [2] ∧
    (lruWalk 10 100 [⟨4, 0, 95⟩, ⟨3, 1, 10⟩, ⟨2, 0, 20⟩]).map (·.file) = [4, 3] := by decide

/-! ### non-vacuity: a non-trivial reachable state of the safe variant -/

def demoCfg : Cfg := { recheck := true, threshold := 2, targets := [5] }

/-- two flushes, a reader, a compaction running to its end (incl. deleteObsoleteFiles), reader still open -/
def demoActs : List Act :=
  [.spawn .flush [(1, [10]), (3, [11])]] ++ List.replicate 12 (.jstep 0) ++
  [.spawn .flush [(1, [12]), (2, [13])]] ++ List.replicate 12 (.jstep 1) ++
  [.acquire, .getReader 2 2, .spawn .compact []] ++ List.replicate 25 (.jstep 2)

example : ∃ s, Reachable demoCfg 0 2 s ∧ (s.snap 2).st = .opened ∧ s.cur = 3 ∧ s.active.length = 2 ∧
    s.disk.length = 3 ∧ readKey s 2 1 = some [(2, [10]), (4, [12])] := by
  have hrun : (run demoCfg (St.init 0 2) demoActs).isSome = true := by decide
  obtain ⟨s, hs⟩ := Option.isSome_iff_exists.mp hrun
  refine ⟨s, reachable_run Reachable.init hs, ?_⟩
  have : (match run demoCfg (St.init 0 2) demoActs with
      | some s => decide ((s.snap 2).st = .opened) && s.cur == 3 && s.active.length == 2 && s.disk.length == 3 &&
          (readKey s 2 1 == some [(2, [10]), (4, [12])])
      | none => false) = true := by decide
  rw [hs] at this
  simp only [Bool.and_eq_true, decide_eq_true_eq, beq_iff_eq] at this
  obtain ⟨⟨⟨⟨a, b⟩, c⟩, d⟩, e⟩ := this
  exact ⟨a, b, c, d, e⟩

/-! ### the code as it is: proved negations on the Release-race schedule -/
namespace Neg

/-- the model variant of the unchanged source (`removeVersion` does not re-check the refcount) -/
def racyCfg : Cfg := { recheck := false, threshold := 2 }

/-- reader A (snapshot 2) `Dec`s the current version V=2 to 0 and is descheduled; reader B
(snapshot 3) retains V; a compaction installs V'=3 and finishes; A resumes `removeVersion(V)`;
deleteObsoleteFiles then removes V's tables 2 and 4 and evicts their readers under B. -/
def raceActs : List Act :=
  [.spawn .flush [(1, [10]), (3, [11])]] ++ List.replicate 12 (.jstep 0) ++
  [.spawn .flush [(1, [12]), (2, [13])]] ++ List.replicate 12 (.jstep 1) ++
  [.acquire, .sDec 2, .acquire, .getReader 3 2, .spawn .compact []] ++ List.replicate 25 (.jstep 2) ++
  [.sRemove 2, .sRel 2, .spawn .delObs []] ++ List.replicate 10 (.jstep 3)

/-- decidable summary of what is wrong with snapshot `i` in state `s` -/
def broken (s : St) (i : Nat) : Bool :=
  decide (i < s.nSnap) && decide ((s.snap i).st = .opened) &&
  !(s.active.contains (s.snap i).ver) &&
  (s.ver (s.snap i).ver).nos.any (fun f => !(s.disk.contains f)) &&
  (s.snap i).held.any (fun f => (s.cref f).isNone) &&
  (readKey s i 1).isNone

theorem race_outcome :
    (match run racyCfg (St.init 0 2) raceActs with
     | some s => broken s 3 && decide (s.ref 2 = 1)
     | none => false) = true := by decide

/-- `Safe` is NOT an invariant of the code as it is: the Release race reaches a state in which an
open snapshot's version is unregistered, its tables are deleted, its retained reader is unmapped
and its reads fail. -/
theorem release_race_breaks_invariant :
    ∃ s, Reachable racyCfg 0 2 s ∧ ∃ i, i < s.nSnap ∧ (s.snap i).st = .opened ∧
      (s.snap i).ver ∉ s.active ∧ (∃ f ∈ (s.ver (s.snap i).ver).nos, f ∉ s.disk) ∧
      (∃ f ∈ (s.snap i).held, s.cref f = none) ∧ readKey s i 1 = none := by
  have h := race_outcome
  cases hr : run racyCfg (St.init 0 2) raceActs with
  | none => rw [hr] at h; cases h
  | some s =>
    rw [hr] at h
    refine ⟨s, reachable_run Reachable.init hr, 3, ?_⟩
    simp only [broken, Bool.and_eq_true, decide_eq_true_eq, Bool.not_eq_true', List.any_eq_true,
      Option.isNone_iff_eq_none] at h
    obtain ⟨⟨⟨⟨⟨⟨h1, h2⟩, h3⟩, ⟨f, hf, hfd⟩⟩, ⟨g, hg, hgc⟩⟩, h6⟩, _⟩ := h
    refine ⟨h1, h2, ?_, ⟨f, hf, ?_⟩, ⟨g, hg, hgc⟩, h6⟩
    · intro hmem; simp [List.contains_eq_mem, hmem] at h3
    · intro hmem; simp [List.contains_eq_mem, hmem] at hfd

theorem not_safe_for_current_code : ¬ (∀ s, Reachable racyCfg 0 2 s → Safe s) := by
  intro hall
  obtain ⟨s, hreach, i, hi, ho, hna, _⟩ := release_race_breaks_invariant
  exact hna ((hall s hreach).open_active i hi ho)

/-- `snapshot_stable` fails for the code as it is: B's read of key 1 succeeds right after it took
its snapshot and fails at the end of the schedule although B never closed it. -/
theorem snapshot_not_stable :
    ∃ (s s' : St) (acts : List Act), Reachable racyCfg 0 2 s ∧ run racyCfg s acts = some s' ∧
      (s.snap 3).st = .opened ∧ (s'.snap 3).st = .opened ∧ 3 < s.nSnap ∧ readKey s' 3 1 ≠ readKey s 3 1 := by
  have hsplit : raceActs = raceActs.take 29 ++ raceActs.drop 29 := (List.take_append_drop 29 raceActs).symm
  have h1 : (match run racyCfg (St.init 0 2) (raceActs.take 29) with
      | some s => (match run racyCfg s (raceActs.drop 29) with
          | some s' => decide ((s.snap 3).st = .opened) && decide ((s'.snap 3).st = .opened) && decide (3 < s.nSnap) &&
              (readKey s 3 1).isSome && (readKey s' 3 1).isNone
          | none => false)
      | none => false) = true := by decide
  cases hr : run racyCfg (St.init 0 2) (raceActs.take 29) with
  | none => rw [hr] at h1; cases h1
  | some s =>
    rw [hr] at h1
    dsimp only at h1
    cases hr' : run racyCfg s (raceActs.drop 29) with
    | none => rw [hr'] at h1; cases h1
    | some s' =>
      rw [hr'] at h1
      simp only [Bool.and_eq_true, decide_eq_true_eq, Option.isNone_iff_eq_none] at h1
      obtain ⟨⟨⟨⟨a, b⟩, c⟩, d⟩, e⟩ := h1
      refine ⟨s, s', _, reachable_run Reachable.init hr, hr', a, b, c, ?_⟩
      rw [e]; intro hcontra; rw [← hcontra] at d; cases d

/-! #### commits outside the version-set mutex (variant `cloneLocked = false`): lost update -/

/-- snapshot + Clone before `vs.mutex.Lock()` -/
def unlockedCloneCfg : Cfg := { recheck := true, cloneLocked := false, threshold := 2 }

/-- two flushes are ready; both clone the same base version; A installs, then B installs its
clone of the old base: A's completed commit is gone from the current version. -/
def lostUpdateActs : List Act :=
  [.spawn .flush [(1, [10])], .spawn .flush [(1, [11])], .jstep 0, .jstep 0, .jstep 1, .jstep 1, .jstep 0, .jstep 1] ++
  List.replicate 9 (.jstep 0) ++ List.replicate 9 (.jstep 1) ++ [.acquire]

theorem lost_update_outcome :
    (match run unlockedCloneCfg (St.init 0 2) lostUpdateActs with
     | some s => decide ((s.job 0).pc = .done) && decide ((s.job 1).pc = .done) &&
         decide ((s.snap 2).st = .opened) && !((s.ver (s.snap 2).ver).nos.contains 2) &&
         (s.hist.any (fun e => e.adds.any (fun m => m.no == 2))) && (readKey s 2 1 == some [(3, [11])])
     | none => false) = true := by decide

/-- `later_reader_sees_commit` fails when commits clone outside the mutex: both flush commits
completed, the reader starts afterwards, and table 2 (token 10) is not in its version. -/
theorem later_reader_misses_commit :
    ∃ s, Reachable unlockedCloneCfg 0 2 s ∧ (s.job 0).pc = .done ∧ (s.snap 2).st = .opened ∧
      (∃ e ∈ s.hist, ∃ m ∈ e.adds, m.no = 2) ∧ 2 ∉ (s.ver (s.snap 2).ver).nos ∧
      s.ver s.cur ≠ s.hist.foldr (fun e v => applyEdit v e) {} := by
  have h := lost_update_outcome
  cases hr : run unlockedCloneCfg (St.init 0 2) lostUpdateActs with
  | none => rw [hr] at h; cases h
  | some s =>
    rw [hr] at h
    simp only [Bool.and_eq_true, decide_eq_true_eq, Bool.not_eq_true', List.any_eq_true, beq_iff_eq] at h
    obtain ⟨⟨⟨⟨⟨h1, _⟩, h3⟩, h4⟩, ⟨e, he, m, hm, hmn⟩⟩, _⟩ := h
    have hnot : 2 ∉ (s.ver (s.snap 2).ver).nos := by
      intro hmem; simp [List.contains_eq_mem, hmem] at h4
    refine ⟨s, reachable_run Reachable.init hr, h1, h3, ⟨e, he, m, hm, hmn⟩, hnot, ?_⟩
    -- the replay of the history lists table 2, the current version does not
    have hv : (run unlockedCloneCfg (St.init 0 2) lostUpdateActs).map
        (fun s => decide ((s.snap 2).ver = s.cur) &&
          ((s.hist.foldr (fun e v => applyEdit v e) ({} : VData)).nos.contains 2)) = some true := by decide
    rw [hr] at hv
    simp only [Option.map_some, Option.some.injEq, Bool.and_eq_true, decide_eq_true_eq] at hv
    obtain ⟨hcur, hrep⟩ := hv
    intro heq
    rw [hcur, heq] at hnot
    exact hnot (by simpa [List.contains_eq_mem] using hrep)

/-! #### table numbers handed out without the version-set mutex (variant `allocLocked = false`) -/

def unlockedAllocCfg : Cfg := { recheck := true, allocLocked := false, threshold := 2 }

/-- commit C (job 0) has read the counter and is writing the manifest; flushes A and B (jobs 1, 2)
allocate inside that window; C stores the counter back; flush D (job 3) allocates next -/
def duplicateNumberActs : List Act :=
  [.spawn .flush [(1, [10])], .spawn .flush [(1, [11])], .spawn .flush [(1, [12])], .spawn .flush [(1, [13])],
   .jstep 0, .jstep 0, .jstep 0, .jstep 1, .jstep 2] ++ List.replicate 9 (.jstep 0) ++ [.jstep 3]

/-- without the mutex in `NextFileNumber` two builders end up owning the same table number -/
theorem duplicate_file_number :
    ∃ s, Reachable unlockedAllocCfg 0 2 s ∧ outNo (s.job 2) = [4] ∧ outNo (s.job 3) = [4] ∧
      (s.job 2).pc = .allocd ∧ (s.job 3).pc = .allocd := by
  have h : (match run unlockedAllocCfg (St.init 0 2) duplicateNumberActs with
      | some s => outNo (s.job 2) == [4] && outNo (s.job 3) == [4] && decide ((s.job 2).pc = .allocd) &&
          decide ((s.job 3).pc = .allocd)
      | none => false) = true := by decide
  cases hr : run unlockedAllocCfg (St.init 0 2) duplicateNumberActs with
  | none => rw [hr] at h; cases h
  | some s =>
    rw [hr] at h
    simp only [Bool.and_eq_true, decide_eq_true_eq, beq_iff_eq] at h
    obtain ⟨⟨⟨a, b⟩, c⟩, d⟩ := h
    exact ⟨s, reachable_run Reachable.init hr, a, b, c, d⟩

/-! #### FindReaders' error path releasing readers it leaves recorded (variant `findErrReleases`) -/

def doubleReleaseCfg : Cfg := { recheck := true, findErrReleases := true, threshold := 2 }

/-- readers A (snapshot 1) and B (snapshot 2) both retain table 2; A's failing FindReaders releases
it although it stays in A's reader list; A closes (second release); Cleanup closes the entry. -/
def doubleReleaseActs : List Act :=
  [.spawn .flush [(1, [10])]] ++ List.replicate 12 (.jstep 0) ++
  [.acquire, .acquire, .getReader 2 2, .getReader 1 2, .findErrRelease 1 [2], .sDec 1, .sRemove 1, .sRel 1, .cleanup [2]]

/-- the double release unmaps a table under the open snapshot B -/
theorem double_release_unmaps_held_reader :
    ∃ s, Reachable doubleReleaseCfg 0 2 s ∧ (s.snap 2).st = .opened ∧ 2 ∈ (s.snap 2).held ∧ s.cref 2 = none := by
  have h : (match run doubleReleaseCfg (St.init 0 2) doubleReleaseActs with
      | some s => decide ((s.snap 2).st = .opened) && (s.snap 2).held.contains 2 && (s.cref 2).isNone
      | none => false) = true := by decide
  cases hr : run doubleReleaseCfg (St.init 0 2) doubleReleaseActs with
  | none => rw [hr] at h; cases h
  | some s =>
    rw [hr] at h
    simp only [Bool.and_eq_true, decide_eq_true_eq, List.contains_eq_mem, Option.isNone_iff_eq_none] at h
    obtain ⟨⟨a, b⟩, c⟩ := h
    exact ⟨s, reachable_run Reachable.init hr, a, by simpa using b, c⟩

/-! #### pending mark set AFTER the table file is created (variant `pendFirst = false`) -/

def createFirstCfg : Cfg := { recheck := true, pendFirst := false, threshold := 2 }

/-- a flush has created table 2 and not yet marked it pending; a deleteObsoleteFiles lists the
directory, scans the pending outputs and the versions, and unlinks it; the flush commits anyway -/
def createFirstActs : List Act :=
  [.spawn .flush [(1, [10])], .jstep 0, .jstep 0, .spawn .delObs []] ++ List.replicate 8 (.jstep 1) ++
  List.replicate 11 (.jstep 0)

theorem unfinished_writer_table_deleted :
    ∃ s, Reachable createFirstCfg 0 2 s ∧ (s.job 0).pc = .done ∧ 2 ∈ (s.ver s.cur).nos ∧ 2 ∉ s.disk := by
  have h : (match run createFirstCfg (St.init 0 2) createFirstActs with
      | some s => decide ((s.job 0).pc = .done) && (s.ver s.cur).nos.contains 2 && !(s.disk.contains 2)
      | none => false) = true := by decide
  cases hr : run createFirstCfg (St.init 0 2) createFirstActs with
  | none => rw [hr] at h; cases h
  | some s =>
    rw [hr] at h
    simp only [Bool.and_eq_true, decide_eq_true_eq, List.contains_eq_mem, Bool.not_eq_true', decide_eq_false_iff_not] at h
    obtain ⟨⟨a, b⟩, c⟩ := h
    exact ⟨s, reachable_run Reachable.init hr, a, by simpa using b, by simpa using c⟩

/-! #### directory listed AFTER the live set was collected (variant `listFirst = false`) -/

def lateListCfg : Cfg := { recheck := true, listFirst := false, threshold := 2 }

/-- a deleteObsoleteFiles (job 0) has collected pending outputs, active versions' files and rollup
files; a flush (job 1) allocates table 2 (pending) and creates its file; the cleanup now lists the
directory, finds table 2 listed and not live, evicts and unlinks it; the flush commits anyway -/
def lateListActs : List Act :=
  [.spawn .delObs [], .jstep 0, .jstep 0, .jstep 0, .jstep 0, .spawn .flush [(1, [10])], .jstep 1, .jstep 1] ++
  List.replicate 4 (.jstep 0) ++ List.replicate 10 (.jstep 1)

theorem late_listing_deletes_unfinished_writer_table :
    ∃ s, Reachable lateListCfg 0 2 s ∧ (s.job 1).pc = .done ∧ 2 ∈ (s.ver s.cur).nos ∧ 2 ∉ s.disk := by
  have h : (match run lateListCfg (St.init 0 2) lateListActs with
      | some s => decide ((s.job 1).pc = .done) && (s.ver s.cur).nos.contains 2 && !(s.disk.contains 2)
      | none => false) = true := by decide
  cases hr : run lateListCfg (St.init 0 2) lateListActs with
  | none => rw [hr] at h; cases h
  | some s =>
    rw [hr] at h
    simp only [Bool.and_eq_true, decide_eq_true_eq, List.contains_eq_mem, Bool.not_eq_true', decide_eq_false_iff_not] at h
    obtain ⟨⟨a, b⟩, c⟩ := h
    exact ⟨s, reachable_run Reachable.init hr, a, by simpa using b, by simpa using c⟩

/-- … and at the moment of the unlink the table is the created output of an unfinished writer -/
theorem late_listing_unlinks_pending_output :
    ∃ s, Reachable lateListCfg 0 2 s ∧ (s.job 0).pc = .doEvicted ∧ (s.job 0).todoDel = [2] ∧
      (s.job 1).pc = .ready ∧ 2 ∈ s.pending ∧ 2 ∈ s.disk := by
  have h : (match run lateListCfg (St.init 0 2) (lateListActs.take 10) with
      | some s => decide ((s.job 0).pc = .doEvicted) && decide ((s.job 0).todoDel = [2]) && decide ((s.job 1).pc = .ready)
          && s.pending.contains 2 && s.disk.contains 2
      | none => false) = true := by decide
  cases hr : run lateListCfg (St.init 0 2) (lateListActs.take 10) with
  | none => rw [hr] at h; cases h
  | some s =>
    rw [hr] at h
    simp only [Bool.and_eq_true, decide_eq_true_eq, List.contains_eq_mem] at h
    obtain ⟨⟨⟨⟨a, b⟩, c⟩, d⟩, e⟩ := h
    exact ⟨s, reachable_run Reachable.init hr, a, b, c, by simpa using d, by simpa using e⟩

/-! #### Close guarded by load … store instead of a CAS (variant `closeCAS = false`) -/

def closeLoadStoreCfg : Cfg := { recheck := true, closeCAS := false, threshold := 2 }

/-- snapshots 2 (shared, closed twice) and 3 (still open) are on version 2; the second Close() of
snapshot 2 overlaps the first and releases the version again; a compaction then drops version 2
and deletes its tables under snapshot 3 -/
def closeTwiceActs : List Act :=
  [.spawn .flush [(1, [10])]] ++ List.replicate 12 (.jstep 0) ++ [.spawn .flush [(1, [11])]] ++ List.replicate 12 (.jstep 1) ++
  [.acquire, .acquire, .sDec 2, .sDec2 2, .spawn .compact []] ++ List.replicate 29 (.jstep 2)

theorem double_close_takes_other_reference :
    ∃ s, Reachable closeLoadStoreCfg 0 2 s ∧ (s.snap 3).st = .opened ∧ (s.snap 3).ver ∉ s.active ∧
      ∃ f ∈ (s.ver (s.snap 3).ver).nos, f ∉ s.disk := by
  have h : (match run closeLoadStoreCfg (St.init 0 2) closeTwiceActs with
      | some s => decide ((s.snap 3).st = .opened) && !(s.active.contains (s.snap 3).ver) &&
          (s.ver (s.snap 3).ver).nos.any (fun f => !(s.disk.contains f))
      | none => false) = true := by decide
  cases hr : run closeLoadStoreCfg (St.init 0 2) closeTwiceActs with
  | none => rw [hr] at h; cases h
  | some s =>
    rw [hr] at h
    simp only [Bool.and_eq_true, decide_eq_true_eq, List.contains_eq_mem, Bool.not_eq_true', decide_eq_false_iff_not,
      List.any_eq_true] at h
    obtain ⟨⟨a, b⟩, f, hf, hfd⟩ := h
    exact ⟨s, reachable_run Reachable.init hr, a, by simpa using b, f, hf, by simpa using hfd⟩

/-! #### GetReader opening outside the cache mutex, the loser not retaining (variant `getReaderAtomic = false`) -/

def racyGetReaderCfg : Cfg := { recheck := true, getReaderAtomic := false, threshold := 2 }

def lostRetainActs : List Act :=
  [.spawn .flush [(1, [10])]] ++ List.replicate 12 (.jstep 0) ++
  [.acquire, .acquire, .getReader 2 2, .getReaderNoRetain 1 2, .sDec 1, .sRemove 1, .sRel 1, .cleanup [2]]

theorem lost_retain_unmaps_held_reader :
    ∃ s, Reachable racyGetReaderCfg 0 2 s ∧ (s.snap 2).st = .opened ∧ 2 ∈ (s.snap 2).held ∧ s.cref 2 = none := by
  have h : (match run racyGetReaderCfg (St.init 0 2) lostRetainActs with
      | some s => decide ((s.snap 2).st = .opened) && (s.snap 2).held.contains 2 && (s.cref 2).isNone
      | none => false) = true := by decide
  cases hr : run racyGetReaderCfg (St.init 0 2) lostRetainActs with
  | none => rw [hr] at h; cases h
  | some s =>
    rw [hr] at h
    simp only [Bool.and_eq_true, decide_eq_true_eq, List.contains_eq_mem, Option.isNone_iff_eq_none] at h
    obtain ⟨⟨a, b⟩, c⟩ := h
    exact ⟨s, reachable_run Reachable.init hr, a, by simpa using b, c⟩

/-- variant `rollDelPerInterval = false` (the rollup-done edit log is built after the loop, for ALL
intervals of every file that reached some target): two flushes in a store with targets [5m, 1h]
(tables 2 and 4, each marked for both); the rollup job (job 2) in which only the 5m target succeeds
(the 1h target store is not open) commits and clears the 1h marks too; the next level-0 compaction
merges tables 2 and 4 away and its cleanup unlinks them — although the 1h rollup of table 2 (marked in
version 2) was never done by anybody. -/
def allIntervalsCfg : Cfg := { recheck := true, threshold := 2, targets := [5, 60], rollDelPerInterval := false }

def skippedTargetActs (cleanupDeletes : Nat) : List Act :=
  [.spawn .flush [(1, [10])]] ++ List.replicate 12 (.jstep 0) ++
  [.spawn .flush [(1, [12])]] ++ List.replicate 12 (.jstep 1) ++
  [.spawn .rollupJob [(5, [])]] ++ List.replicate 16 (.jstep 2) ++
  [.spawn .compact []] ++ List.replicate (25 + 2 * cleanupDeletes) (.jstep 3)

theorem all_intervals_variant_deletes_pending_rollup_file :
    ∃ s, Reachable allIntervalsCfg 0 2 s ∧ (s.job 2).kind = .rollupJob ∧ okTargets (s.job 2) = [5] ∧
      (2, 60) ∈ (s.ver 2).rollup ∧ (2, 60) ∉ (s.ver s.cur).rollup ∧ 2 ∉ s.disk := by
  have h : (match run allIntervalsCfg (St.init 0 2) (skippedTargetActs 2) with
      | some s => decide ((s.job 2).kind = .rollupJob) && (okTargets (s.job 2) == [5]) && (s.ver 2).rollup.contains (2, 60) &&
          !((s.ver s.cur).rollup.contains (2, 60)) && !(s.disk.contains 2)
      | none => false) = true := by decide
  cases hr : run allIntervalsCfg (St.init 0 2) (skippedTargetActs 2) with
  | none => rw [hr] at h; cases h
  | some s =>
    rw [hr] at h
    simp only [Bool.and_eq_true, decide_eq_true_eq, beq_iff_eq, List.contains_eq_mem, Bool.not_eq_true', decide_eq_false_iff_not] at h
    obtain ⟨⟨⟨⟨a, b⟩, c⟩, d⟩, e⟩ := h
    exact ⟨s, reachable_run Reachable.init hr, a, b, c, d, e⟩

end Neg

/-- the same history with the source's per-interval records: the 1h marks survive the rollup job and
tables 2 and 4 survive the compaction's cleanup (non-vacuity of the rollup theorems: a rollup job with
one succeeded and one skipped target, followed by a compaction that merges the marked tables away) -/
example : ∃ s, Reachable { Neg.allIntervalsCfg with rollDelPerInterval := true } 0 2 s ∧
    (s.ver s.cur).rollup = [(2, 60), (4, 60)] ∧ 2 ∈ s.disk ∧ 4 ∈ s.disk ∧ (s.ver s.cur).nos = [7] := by
  have h : (match run { Neg.allIntervalsCfg with rollDelPerInterval := true } (St.init 0 2) (Neg.skippedTargetActs 0) with
      | some s => ((s.ver s.cur).rollup == [(2, 60), (4, 60)]) && s.disk.contains 2 && s.disk.contains 4 && ((s.ver s.cur).nos == [7])
      | none => false) = true := by decide
  cases hr : run { Neg.allIntervalsCfg with rollDelPerInterval := true } (St.init 0 2) (Neg.skippedTargetActs 0) with
  | none => rw [hr] at h; cases h
  | some s =>
    rw [hr] at h
    simp only [Bool.and_eq_true, beq_iff_eq, List.contains_eq_mem, decide_eq_true_eq] at h
    obtain ⟨⟨⟨a, b⟩, c⟩, d⟩ := h
    exact ⟨s, reachable_run Reachable.init hr, a, b, c, d⟩

end LinVerif.Props.C02
