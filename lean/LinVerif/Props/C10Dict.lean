/-
Property C10, part 4 (round 13) — the dictionary merger over the tag keys of a compaction job.
Same namespace as Props/C10.lean.

* `dict_write_keeps_pairs` — `TrieBucket.Write` writes exactly the (key, id) pairs of the tries the bucket
  object holds, on all three branches of its switch, for every block size.
* `dict_job_bucket_holds_own_pairs` — one merger object over any number of tag keys: if `Merge` builds
  its bucket per call, or `Write` empties the bucket on EVERY path, the bucket written for a key is what
  a brand-new merger writes for that key alone, and it holds exactly the pairs of that key's inputs.
* `dict_job_bucket_holds_own_pairs_now` — the same for the current source (flags from regenerated facts).
* `tie_dict_merger` — merger fields, `Merge` / `Unmarshal` skeletons, the switch of `Write`.
* `Neg.reused_bucket_keeps_full_blocks` — a carried bucket emptied on all paths but `case 0`.
-/
import LinVerif.Props.C10Plan
import LinVerif.Model.TagFilterDictJob
import LinVerif.Generated.C10Dict

namespace LinVerif.Props.C10
open LinVerif LinVerif.TagFilter

theorem bucketWrite_always_empties (srt : List Trie → List Trie) (bs : Nat) (kvs : List Trie) :
    (bucketWrite srt bs .always kvs).2 = [] := by
  unfold bucketWrite
  simp only
  generalize (srt kvs).filter (fun t => !decide (bs ≤ t.length)) = pending
  cases pending with
  | nil => simp
  | cons p r => cases r <;> simp

/-- **`TrieBucket.Write` keeps the pairs**: what is written holds exactly the (key, id) pairs of the
tries in the bucket object — whichever branch of the switch is taken, for every block size `bs > 0`
and every sort of the tries by size. -/
theorem dict_write_keeps_pairs (srt : List Trie → List Trie) (hsrt : ∀ l t, t ∈ srt l ↔ t ∈ l)
    (bs : Nat) (hbs : 0 < bs) (em : Empties) (kvs : List Trie) (x : Bytes × ValId) :
    x ∈ (bucketWrite srt bs em kvs).1.flatten ↔ ∃ t ∈ kvs, x ∈ t := by
  have hpart : ∀ t, t ∈ srt kvs ↔ (t ∈ (srt kvs).filter (fun t => decide (bs ≤ t.length)) ∨
      t ∈ (srt kvs).filter (fun t => !decide (bs ≤ t.length))) := by
    intro t
    simp only [List.mem_filter]
    by_cases h : bs ≤ t.length <;> simp [h]
  unfold bucketWrite
  simp only
  generalize (srt kvs).filter (fun t => !decide (bs ≤ t.length)) = pending at hpart ⊢
  generalize (srt kvs).filter (fun t => decide (bs ≤ t.length)) = big at hpart ⊢
  have key : ∀ out : List Trie, (∀ x, x ∈ out.flatten ↔ ∃ t ∈ pending, x ∈ t) →
      (x ∈ (big ++ out).flatten ↔ ∃ t ∈ kvs, x ∈ t) := by
    intro out ho
    simp only [List.flatten_append, List.mem_append, ho, List.mem_flatten]
    constructor
    · rintro (⟨t, ht, hx⟩ | ⟨t, ht, hx⟩)
      · exact ⟨t, (hsrt _ _).mp ((hpart t).mpr (Or.inl ht)), hx⟩
      · exact ⟨t, (hsrt _ _).mp ((hpart t).mpr (Or.inr ht)), hx⟩
    · rintro ⟨t, ht, hx⟩
      rcases (hpart t).mp ((hsrt _ _).mpr ht) with h | h
      · exact Or.inl ⟨t, h, hx⟩
      · exact Or.inr ⟨t, h, hx⟩
  cases pending with
  | nil => simpa using key [] (by simp)
  | cons p r =>
    cases r with
    | nil => exact key [p] (by simp)
    | cons q r =>
      exact key _ (fun x => by rw [blocks_cover bs hbs, mem_mergeTries])

/-- a job on one merger object equals, key by key, what a brand-new merger writes for that key alone —
provided `Merge` builds its bucket per call or `Write` empties the bucket on every path -/
theorem dict_job_per_key (srt : List Trie → List Trie) (bs : Nat) (em : Empties) (perCall : Bool)
    (h : perCall = true ∨ em = .always) (calls : List (Nat × List (List Trie))) :
    ∀ carried, (perCall = true ∨ carried = []) →
      dictJob srt bs em perCall carried calls =
        calls.map (fun c => (c.1, (bucketWrite srt bs em c.2.flatten).1)) := by
  induction calls with
  | nil => intro _ _; rfl
  | cons c rest ih =>
    intro carried hc
    obtain ⟨k, ins⟩ := c
    have hstart : (if perCall then [] else carried) = ([] : List Trie) := by
      rcases hc with hc | hc <;> simp [hc]
    have hnext : perCall = true ∨ (mergeCall srt bs em perCall carried ins).2 = [] := by
      rcases h with h | h
      · exact Or.inl h
      · right; subst h; unfold mergeCall; exact bucketWrite_always_empties _ _ _
    simp only [dictJob, List.map_cons]
    rw [ih _ hnext]
    simp [mergeCall, hstart]

/-- **each tag key of a compaction job gets its own pairs**: for any number of keys and inputs, any
block size, any tries the merger's bucket held before the job (when it builds one per call): the
bucket written for a key holds exactly the (value, id) pairs of THAT key's input buckets. -/
theorem dict_job_bucket_holds_own_pairs (srt : List Trie → List Trie) (hsrt : ∀ l t, t ∈ srt l ↔ t ∈ l)
    (bs : Nat) (hbs : 0 < bs) (em : Empties) (perCall : Bool) (h : perCall = true ∨ em = .always)
    (carried : List Trie) (hc : perCall = true ∨ carried = []) (calls : List (Nat × List (List Trie)))
    (k : Nat) (out : List Trie) (hmem : (k, out) ∈ dictJob srt bs em perCall carried calls) :
    ∃ ins, (k, ins) ∈ calls ∧ out = (bucketWrite srt bs em ins.flatten).1 ∧
      ∀ x, x ∈ out.flatten ↔ ∃ b ∈ ins, ∃ t ∈ b, x ∈ t := by
  rw [dict_job_per_key srt bs em perCall h calls carried hc, List.mem_map] at hmem
  obtain ⟨⟨k', ins⟩, hin, heq⟩ := hmem
  simp only [Prod.mk.injEq] at heq
  obtain ⟨rfl, rfl⟩ := heq
  refine ⟨ins, hin, rfl, fun x => ?_⟩
  rw [dict_write_keeps_pairs srt hsrt bs hbs em]
  simp only [List.mem_flatten]
  constructor
  · rintro ⟨t, ⟨b, hb, ht⟩, hx⟩; exact ⟨b, hb, t, ht, hx⟩
  · rintro ⟨b, hb, t, ht, hx⟩; exact ⟨t, ⟨b, hb, ht⟩, hx⟩

/-- how the current source empties the bucket / whether `Merge` builds its own (regenerated facts) -/
def emptiesNow : Empties :=
  emptiesOfSource Generated.C10Dict.writeAssignsKvs Generated.C10Dict.writeSwitchEnds

/-- the current source: bucket per call, or a `Write` that empties on every path -/
theorem dict_merger_reuse_safe_now : Generated.C10Dict.bucketPerCall = true ∨ emptiesNow = .always := by
  decide

/-- the statement for the current source, block size 65535 (`NewTrieBucket`) -/
theorem dict_job_bucket_holds_own_pairs_now (srt : List Trie → List Trie) (hsrt : ∀ l t, t ∈ srt l ↔ t ∈ l)
    (carried : List Trie)
    (hc : Generated.C10Dict.bucketPerCall = true ∨ carried = []) (calls : List (Nat × List (List Trie)))
    (k : Nat) (out : List Trie)
    (hmem : (k, out) ∈ dictJob srt 65535 emptiesNow Generated.C10Dict.bucketPerCall carried calls) :
    ∃ ins, (k, ins) ∈ calls ∧ ∀ x, x ∈ out.flatten ↔ ∃ b ∈ ins, ∃ t ∈ b, x ∈ t := by
  obtain ⟨ins, hin, _, hx⟩ := dict_job_bucket_holds_own_pairs srt hsrt 65535 (by decide) emptiesNow
    Generated.C10Dict.bucketPerCall dict_merger_reuse_safe_now carried hc calls k out hmem
  exact ⟨ins, hin, hx⟩

/-- tie: what `indexKVMerger` keeps between calls, the order of `Merge` (new bucket, Unmarshal of every
input, Prepare, Write, Commit), `Unmarshal` appending to `b.kvs`, and how the cases of `Write`'s switch end -/
theorem tie_dict_merger :
    Generated.C10Dict.mergerFields = ["flusher kv.Flusher", "kvWriter table.StreamWriter"] ∧
    Generated.C10Dict.mergeSkeleton =
      ["0:trieBucket := model.NewTrieBucket()", "0:range buckets", "1:err := trieBucket.Unmarshal(bucket)",
       "1:if err != nil", "2:return err", "0:m.kvWriter.Prepare(bucketID)",
       "0:if err := trieBucket.Write(m.kvWriter); err != nil", "1:return err", "0:return m.kvWriter.Commit()"] ∧
    Generated.C10Dict.bucketPerCall = true ∧
    Generated.C10Dict.bucketFields = ["kvs tries", "blockSize int"] ∧
    Generated.C10Dict.writeSwitchTag = "pendingSize" ∧
    Generated.C10Dict.writeSwitchEnds = ["0|return", "1|falls", "default|return"] ∧
    Generated.C10Dict.writeAfterSwitch = ["return nil"] ∧
    Generated.C10Dict.writeAssignsKvs = false ∧
    emptiesNow = .never ∧
    Generated.C10Dict.unmarshalSkeleton =
      ["0:for len(block) > 0", "1:size := binary.LittleEndian.Uint32(block[:4])", "1:tree := getTrieFn()",
       "1:end := 4 + size", "1:err := tree.UnmarshalBinary(block[4:end])", "1:if err != nil", "2:return err",
       "1:b.kvs = append(b.kvs, &trieEntry{tree: tree, buf: block[:end]})", "1:block = block[end:]",
       "0:return nil"] := by
  refine ⟨by decide, by decide, rfl, by decide, by decide, by decide, by decide, rfl, by decide, by decide⟩

/-- non-vacuity: a three-key job (block size 2) with a full-blocks-only key in the middle; one bucket
per call — every key gets its own pairs, the full block is written through -/
example :
    dictJob id 2 .never true []
      [(1, [[[([1], 10)]], [[([2], 11)]]]), (2, [[[([5], 20), ([6], 21)]]]), (3, [[[([9], 30)]]])] =
      [(1, [[([1], 10), ([2], 11)]]), (2, [[([5], 20), ([6], 21)]]), (3, [[([9], 30)]])] := by decide

/-- non-vacuity of the sort hypothesis: the identity (any permutation) keeps the elements -/
example : ∀ (l : List Trie) (t : Trie), t ∈ (id : List Trie → List Trie) l ↔ t ∈ l := fun _ _ => Iff.rfl

namespace Neg

/-- key 2: one full block (block size 2), key 3: one small trie -/
def negCalls : List (Nat × List (List Trie)) :=
  [(2, [[[([5], 20), ([6], 21)]]]), (3, [[[([9], 30)]]])]

/-- ONE bucket object for the whole job, emptied at the end of `Write` but not on the `case 0` path:
key 2 consists of one full block (block size 2) — its pairs are written again into key 3's bucket.
With a bucket per call, or emptied on every path, key 3 holds its own pair only. -/
theorem reused_bucket_keeps_full_blocks :
    dictJob id 2 .exceptNoPending false [] negCalls =
      [(2, [[([5], 20), ([6], 21)]]), (3, [[([5], 20), ([6], 21)], [([9], 30)]])] ∧
    dictJob id 2 .always false [] negCalls = [(2, [[([5], 20), ([6], 21)]]), (3, [[([9], 30)]])] ∧
    dictJob id 2 .never true [] negCalls = [(2, [[([5], 20), ([6], 21)]]), (3, [[([9], 30)]])] := by
  refine ⟨?_, ?_, ?_⟩
  · decide
  · decide
  · decide

end Neg

end LinVerif.Props.C10
