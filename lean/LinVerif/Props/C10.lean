/-
Property C10 — tag filtering through the index equals evaluating the predicate on every series.

Model: LinVerif/Model/TagFilter.lean (write path, three stores split into mutable / immutable /
level-0 / level-1 parts, tagValuesLookup keyed by Rewrite(), seriesFiltering, grouping).
Reference semantics (DESIGN.md §7 C10): `Expr.eval`, `likeRef`, `groupValuesOK`.
Code facts regenerated from /repo: LinVerif/Generated/C10.lean, tied below (`tie_*`).

The `Flags` are parameters of every general theorem; the hypotheses name the regions in which the
code AS IT WAS violated the property (each with a proved witness under `Neg`). The four defects are
repaired in /repo (fix commits e59def4, 5b9f71c, 08141b9, 47ae252): `flagsNow_repaired` reads the
repaired values off the regenerated facts and the `*_now` theorems restate every property theorem for
the current source WITHOUT these hypotheses. A reverted fix flips a fact and breaks `flagsNow_repaired`.
  * `NoCollision F c`          — two different atomic filters with the same Rewrite() string,
  * `firstErr … = none`        — includes: no `like '*'` while `likeStarGuarded = false` (slice panic),
  * `rxLitPrefix → PrefixSound`— regexp literal prefix used as trie-iterator prefix for unanchored regexps,
  * `lutCumulative ∨ ≤ 131072 series` — forward reader's non-cumulative lookup table.
-/
import LinVerif.Lemmas.C10Cache
import LinVerif.Generated.C10

set_option linter.unusedSimpArgs false
set_option linter.unusedVariables false

namespace LinVerif.Props.C10
open LinVerif LinVerif.TagFilter

deriving instance DecidableEq for Except

instance instDecEqGroups : DecidableEq (List (SeriesId × List (ValId × Option Bytes))) :=
  inferInstanceAs (DecidableEq (List (Nat × List (Nat × Option (List Nat)))))

/-- the code facts as extracted from /repo on this run -/
def flagsNow : Flags :=
  { keyByRewrite := Generated.C10.keyByRewrite
    likeStarGuarded := Generated.C10.likeStarGuarded
    rxLitPrefix := Generated.C10.rxLitPrefix
    lutCumulative := Generated.C10.lutCumulative
    prepareOnEmpty := Generated.C10.prepareOnEmpty }

/-! ## The write path establishes the well-formed index -/

/-- Every history of writes (each series with distinct tag keys) with PrepareFlush / Flush /
compaction steps of the metadata and index stores placed anywhere between them reaches an index that
is consistent with the written series (`WF`) and whose forward files the reader reads correctly
(`LutSafe`). While the reader's lookup table is not cumulative this needs ≤ 131072 writes. -/
theorem write_path_establishes_wf (F : Flags) (ops : List Op) (hv : ValidOps ops)
    (hb : F.lutCumulative = true ∨ numWrites ops ≤ 131072) :
    WF (run F ops State.init) ∧ LutSafe F (run F ops State.init) :=
  run_wf ops hv hb

/-! ## Filtering equals evaluation -/

/-- **filter_eq_eval.** For every well-formed index state, every metric and every condition of the
grammar's shape whose atomic filters occupy distinct `TagFilterResult` slots: if the query path
(metadata lookup, tagValuesLookup, seriesFiltering) returns a series set, it is exactly the set of
written series of the metric whose tags satisfy the condition. By induction on the condition. -/
theorem filter_eq_eval (F : Flags) (M : Matcher) (st : State) (hwf : WF st) (m : Metric) (c : Expr)
    (hshape : c.shaped = true) (hnc : NoCollision F c) (hpre : F.rxLitPrefix = true → M.PrefixSound)
    {S : List SeriesId} (h : query F M st m c = .ok S) :
    ∀ s, s ∈ S ↔ ∃ t, (m, s, t) ∈ st.written ∧ c.eval M t = true := by
  unfold query at h
  split at h
  · cases h
  · cases hl : lookupAll F M st m c [] with
    | error e => simp [hl] at h
    | ok res =>
      simp only [hl] at h
      obtain ⟨kid, S', hf, hspec, _⟩ := filterExpr_spec hwf hpre c hshape (lookup_get_own hshape hnc hl)
      simp only [hf, Except.ok.injEq] at h
      subst h
      exact hspec

/-- **query_total** (the error branches are explicit, not defaults): on a well-formed state the
query succeeds iff the metric exists and no atomic filter fails; otherwise it reports
`metricNotFound` resp. the first failing atomic filter in walk order (`keyNotFound`, `badRegexp`,
or `panic` for `like '*'` while `likeStarGuarded = false`). -/
theorem query_total (F : Flags) (M : Matcher) (st : State) (hwf : WF st) (m : Metric) (c : Expr)
    (hshape : c.shaped = true) (hnc : NoCollision F c) (hpre : F.rxLitPrefix = true → M.PrefixSound) :
    (metricKnown st m = false → query F M st m c = .error .metricNotFound) ∧
    (metricKnown st m = true → ∀ e, firstErr F M st.schema m c.atoms = some e → query F M st m c = .error e) ∧
    (metricKnown st m = true → firstErr F M st.schema m c.atoms = none → ∃ S, query F M st m c = .ok S) := by
  refine ⟨?_, ?_, ?_⟩
  · intro hm; simp [query, hm]
  · intro hm e he
    have := lookupList_outcome F M st m c.atoms []
    rw [he] at this
    simp only at this
    simp [query, hm, lookupAll_eq_list F M st m c hshape, this]
  · intro hm he
    have := lookupList_outcome F M st m c.atoms []
    rw [he] at this
    obtain ⟨res, hres⟩ := this
    have hl : lookupAll F M st m c [] = .ok res := by rw [lookupAll_eq_list F M st m c hshape]; exact hres
    obtain ⟨kid, S', hf, _, _⟩ := filterExpr_spec hwf hpre c hshape (lookup_get_own hshape hnc hl)
    exact ⟨S', by simp [query, hm, hl, hf]⟩

/-! ## Independence of the index state -/

/-- **index_state_invariance.** Two histories with the same writes — flushes and compactions of the
dictionary, inverted and forward stores placed anywhere (entries in memory, being flushed, flushed,
compacted) — answer every query alike: the same error, or series sets with the same members. -/
theorem index_state_invariance (F : Flags) (M : Matcher) (ops1 ops2 : List Op)
    (hw : writesOf ops1 = writesOf ops2) (hv : ValidOps ops1)
    (hb : F.lutCumulative = true ∨ numWrites ops1 ≤ 131072)
    (m : Metric) (c : Expr) (hshape : c.shaped = true) (hnc : NoCollision F c)
    (hpre : F.rxLitPrefix = true → M.PrefixSound) :
    match query F M (run F ops1 State.init) m c, query F M (run F ops2 State.init) m c with
    | .ok S1, .ok S2 => ∀ s, s ∈ S1 ↔ s ∈ S2
    | .error e1, .error e2 => e1 = e2
    | _, _ => False := by
  have hb2 : F.lutCumulative = true ∨ numWrites ops2 ≤ 131072 := by
    rw [numWrites_eq, ← hw, ← numWrites_eq]; exact hb
  have hwf1 := (run_wf (F := F) ops1 hv hb).1
  have hwf2 := (run_wf (F := F) ops2 (validOps_of_writes hw hv) hb2).1
  obtain ⟨hsch, _, hser, hwr⟩ := core_eq_iff.mp (run_core_eq F F ops1 ops2 hw)
  have hmk : metricKnown (run F ops1 State.init) m = metricKnown (run F ops2 State.init) m := by
    simp [metricKnown, hser]
  obtain ⟨a1, b1, c1⟩ := query_total F M _ hwf1 m c hshape hnc hpre
  obtain ⟨a2, b2, c2⟩ := query_total F M _ hwf2 m c hshape hnc hpre
  cases hk : metricKnown (run F ops2 State.init) m with
  | false => rw [a1 (hmk.trans hk), a2 hk]
  | true =>
    cases hfe : firstErr F M (run F ops2 State.init).schema m c.atoms with
    | some e => rw [b1 (hmk.trans hk) e (by rw [hsch]; exact hfe), b2 hk e hfe]
    | none =>
      obtain ⟨S1, h1⟩ := c1 (hmk.trans hk) (by rw [hsch]; exact hfe)
      obtain ⟨S2, h2⟩ := c2 hk hfe
      rw [h1, h2]
      intro s
      rw [filter_eq_eval F M _ hwf1 m c hshape hnc hpre h1 s, filter_eq_eval F M _ hwf2 m c hshape hnc hpre h2 s, hwr]

/-! ## Group by -/

/-- **groupby_values.** On a well-formed state, for selected series of the metric: every series the
grouping returns is a selected series that carries all grouping keys, and position by position the
returned string is that series' value of the grouping key; conversely every selected series that
carries all grouping keys is returned. (A selected series lacking a grouping key is dropped — it has
no value for that key.) -/
theorem groupby_values (F : Flags) (st : State) (hwf : WF st) (hl : LutSafe F st) (m : Metric)
    (keys : List Bytes) (sel : List SeriesId) (hsel : ∀ s ∈ sel, ∃ t, (m, s, t) ∈ st.written)
    {gs : List (SeriesId × List (ValId × Option Bytes))} (h : groupBy F st m keys sel = .ok gs) :
    (∀ s vals, (s, vals) ∈ gs → s ∈ sel ∧ ∃ t, (m, s, t) ∈ st.written ∧ groupValuesOK t keys vals) ∧
    (∀ s ∈ sel, ∀ t, (m, s, t) ∈ st.written → (∀ k ∈ keys, ∃ v, (k, v) ∈ t) → ∃ vals, (s, vals) ∈ gs) := by
  unfold groupBy at h
  cases hk : lookupKeys st m keys with
  | none => simp [hk] at h
  | some kids =>
    simp only [hk] at h
    obtain ⟨km1, km2⟩ := lookupKeys_mem hk
    by_cases hemp : sel.isEmpty = true
    · simp only [hemp, ite_true, Except.ok.injEq] at h
      subst h
      refine ⟨fun s vals hm => (by cases hm), ?_⟩
      intro s hs
      have : sel = [] := by simpa using hemp
      rw [this] at hs; cases hs
    · rw [if_neg hemp] at h
      cases hg : groupingContext st.fwd kids sel with
      | error e => simp [hg] at h
      | ok r =>
        obtain ⟨final, scs⟩ := r
        simp only [hg, Except.ok.injEq] at h
        subst h
        obtain ⟨hscs, hfinal⟩ := groupingLoop_spec hl sel kids sel (fun s hs => hs) hg
        subst hscs
        constructor
        · intro s vals hm
          simp only [List.mem_map, Prod.mk.injEq] at hm
          obtain ⟨s', hs', rfl, rfl⟩ := hm
          obtain ⟨hss, hall⟩ := (hfinal s').mp hs'
          obtain ⟨t, ht⟩ := hsel s' hss
          refine ⟨hss, t, ht, valuesFor_spec hwf hl sel hss ht keys kids hk ?_⟩
          intro k hkm
          obtain ⟨kid, hkid, hsch⟩ := km1 k hkm
          obtain ⟨id, hid⟩ := hall kid hkid
          obtain ⟨m', t', k', v', hw', hkv', hsch', _⟩ := hwf.fwdSound _ _ _ hid
          have := hwf.schemaInj _ _ _ hsch hsch'
          cases this
          rw [hwf.writtenFun _ _ _ _ ht hw']
          exact ⟨v', hkv'⟩
        · intro s hs t ht hall
          have : s ∈ final := by
            rw [hfinal]
            refine ⟨hs, ?_⟩
            intro kid hkid
            obtain ⟨k, hkm, hsch⟩ := km2 kid hkid
            obtain ⟨v, hv⟩ := hall k hkm
            obtain ⟨kid', id, hsch', _, _, hf⟩ := hwf.complete m s t k v ht hv
            have := hwf.schemaFun _ _ _ hsch hsch'
            subst this
            exact ⟨id, hf⟩
          exact ⟨_, List.mem_map.mpr ⟨s, this, rfl⟩⟩

/-- **groupby_state_invariance.** Two histories with the same writes group the same selected series
and report the same strings for each. -/
theorem groupby_state_invariance (F : Flags) (ops1 ops2 : List Op)
    (hw : writesOf ops1 = writesOf ops2) (hv : ValidOps ops1)
    (hb : F.lutCumulative = true ∨ numWrites ops1 ≤ 131072)
    (m : Metric) (keys : List Bytes) (sel : List SeriesId)
    (hsel : ∀ s ∈ sel, ∃ t, (m, s, t) ∈ (run F ops1 State.init).written)
    {gs1 gs2 : List (SeriesId × List (ValId × Option Bytes))}
    (h1 : groupBy F (run F ops1 State.init) m keys sel = .ok gs1)
    (h2 : groupBy F (run F ops2 State.init) m keys sel = .ok gs2) :
    (∀ s, (∃ v, (s, v) ∈ gs1) ↔ (∃ v, (s, v) ∈ gs2)) ∧
    (∀ s v1 v2, (s, v1) ∈ gs1 → (s, v2) ∈ gs2 → v1.map (·.2) = v2.map (·.2)) := by
  have hb2 : F.lutCumulative = true ∨ numWrites ops2 ≤ 131072 := by
    rw [numWrites_eq, ← hw, ← numWrites_eq]; exact hb
  obtain ⟨hwf1, hl1⟩ := run_wf (F := F) ops1 hv hb
  obtain ⟨hwf2, hl2⟩ := run_wf (F := F) ops2 (validOps_of_writes hw hv) hb2
  obtain ⟨_, _, _, hwr⟩ := core_eq_iff.mp (run_core_eq F F ops1 ops2 hw)
  have hsel2 : ∀ s ∈ sel, ∃ t, (m, s, t) ∈ (run F ops2 State.init).written := by rw [← hwr]; exact hsel
  obtain ⟨a1, b1⟩ := groupby_values F _ hwf1 hl1 m keys sel hsel h1
  obtain ⟨a2, b2⟩ := groupby_values F _ hwf2 hl2 m keys sel hsel2 h2
  have hasKeys : ∀ {t : Tags} {vals : List (ValId × Option Bytes)} (ks : List Bytes), groupValuesOK t ks vals →
      ∀ k ∈ ks, ∃ v, (k, v) ∈ t := by
    intro t vals ks
    induction ks generalizing vals with
    | nil => intro _ k hk; cases hk
    | cons k0 r ih =>
      intro hok k hk
      cases vals with
      | nil => simp [groupValuesOK] at hok
      | cons x xs =>
        simp only [groupValuesOK] at hok
        rcases List.mem_cons.mp hk with rfl | hk
        · obtain ⟨⟨v, hv, _⟩, _⟩ := hok; exact ⟨v, hv⟩
        · exact ih hok.2 k hk
  constructor
  · intro s
    constructor
    · rintro ⟨v, hm⟩
      obtain ⟨hs, t, ht, hok⟩ := a1 s v hm
      exact b2 s hs t (by rw [← hwr]; exact ht) (hasKeys keys hok)
    · rintro ⟨v, hm⟩
      obtain ⟨hs, t, ht, hok⟩ := a2 s v hm
      exact b1 s hs t (by rw [hwr]; exact ht) (hasKeys keys hok)
  · intro s v1 v2 hm1 hm2
    obtain ⟨_, t1, ht1, hok1⟩ := a1 s v1 hm1
    obtain ⟨_, t2, ht2, hok2⟩ := a2 s v2 hm2
    rw [← hwr] at ht2
    have := hwf1.writtenFun _ _ _ _ ht1 ht2
    subst this
    exact groupValuesOK_unique (hwf1.writtenNodup _ _ _ ht1) keys v1 v2 hok1 hok2

/-! ## The current source: full strength

The regenerated facts say that the result map is keyed injectively, `like '*'` is guarded, the
regexp iterator starts at the trie root and the forward reader's table is cumulative; with them the
four hypotheses are discharged. -/

/-- the repaired values of the four facts, read off /repo's current source -/
theorem flagsNow_repaired :
    flagsNow.keyByRewrite = false ∧ flagsNow.likeStarGuarded = true ∧ flagsNow.rxLitPrefix = false ∧
    flagsNow.lutCumulative = true := by decide

theorem noCollision_now (c : Expr) : NoCollision flagsNow c :=
  noCollision_of_injective flagsNow_repaired.1 c

theorem prefix_now (M : Matcher) : flagsNow.rxLitPrefix = true → M.PrefixSound := by
  intro h; rw [flagsNow_repaired.2.2.1] at h; cases h

/-- no atomic filter panics any more; the only errors left are an unknown key and an invalid regexp -/
theorem atomError_now (M : Matcher) (a : Atom) :
    atomError flagsNow M a = none ∨ atomError flagsNow M a = some .badRegexp := by
  cases a with
  | eq k v => exact Or.inl rfl
  | inn k vs => exact Or.inl rfl
  | like k p => left; simp [atomError, flagsNow_repaired.2.1]
  | rx k p =>
    simp only [atomError]
    by_cases hv : M.valid p = true
    · left; simp [hv]
    · right; simp [hv]

/-- **write_path_establishes_wf, current source:** every history, any number of series. -/
theorem write_path_establishes_wf_now (ops : List Op) (hv : ValidOps ops) :
    WF (run flagsNow ops State.init) ∧ LutSafe flagsNow (run flagsNow ops State.init) :=
  write_path_establishes_wf flagsNow ops hv (Or.inl flagsNow_repaired.2.2.2)

/-- **filter_eq_eval, current source:** every matcher, every well-formed state, every condition of
the grammar's shape — no further hypothesis. -/
theorem filter_eq_eval_now (M : Matcher) (st : State) (hwf : WF st) (m : Metric) (c : Expr)
    (hshape : c.shaped = true) {S : List SeriesId} (h : query flagsNow M st m c = .ok S) :
    ∀ s, s ∈ S ↔ ∃ t, (m, s, t) ∈ st.written ∧ c.eval M t = true :=
  filter_eq_eval flagsNow M st hwf m c hshape (noCollision_now c) (prefix_now M) h

/-- **query_total, current source.** -/
theorem query_total_now (M : Matcher) (st : State) (hwf : WF st) (m : Metric) (c : Expr) (hshape : c.shaped = true) :
    (metricKnown st m = false → query flagsNow M st m c = .error .metricNotFound) ∧
    (metricKnown st m = true → ∀ e, firstErr flagsNow M st.schema m c.atoms = some e → query flagsNow M st m c = .error e) ∧
    (metricKnown st m = true → firstErr flagsNow M st.schema m c.atoms = none → ∃ S, query flagsNow M st m c = .ok S) :=
  query_total flagsNow M st hwf m c hshape (noCollision_now c) (prefix_now M)

/-- **index_state_invariance, current source:** two histories with the same writes — `Step`s of the
metadata and index stores placed anywhere, INCLUDING the steps inside an index flush (file being
written, file committed with the immutable table still set, immutable table dropped, or the flush
failed and is retried later) — answer every query of the grammar's shape alike. -/
theorem index_state_invariance_now (M : Matcher) (ops1 ops2 : List Op) (hw : writesOf ops1 = writesOf ops2)
    (hv : ValidOps ops1) (m : Metric) (c : Expr) (hshape : c.shaped = true) :
    match query flagsNow M (run flagsNow ops1 State.init) m c, query flagsNow M (run flagsNow ops2 State.init) m c with
    | .ok S1, .ok S2 => ∀ s, s ∈ S1 ↔ s ∈ S2
    | .error e1, .error e2 => e1 = e2
    | _, _ => False :=
  index_state_invariance flagsNow M ops1 ops2 hw hv (Or.inl flagsNow_repaired.2.2.2) m c hshape
    (noCollision_now c) (prefix_now M)

/-- **groupby_values, current source**, on every reachable state. -/
theorem groupby_values_now (ops : List Op) (hv : ValidOps ops) (m : Metric) (keys : List Bytes) (sel : List SeriesId)
    (hsel : ∀ s ∈ sel, ∃ t, (m, s, t) ∈ (run flagsNow ops State.init).written)
    {gs : List (SeriesId × List (ValId × Option Bytes))}
    (h : groupBy flagsNow (run flagsNow ops State.init) m keys sel = .ok gs) :
    (∀ s vals, (s, vals) ∈ gs → s ∈ sel ∧ ∃ t, (m, s, t) ∈ (run flagsNow ops State.init).written ∧ groupValuesOK t keys vals) ∧
    (∀ s ∈ sel, ∀ t, (m, s, t) ∈ (run flagsNow ops State.init).written → (∀ k ∈ keys, ∃ v, (k, v) ∈ t) →
      ∃ vals, (s, vals) ∈ gs) :=
  groupby_values flagsNow _ (write_path_establishes_wf_now ops hv).1 (write_path_establishes_wf_now ops hv).2
    m keys sel hsel h

/-- **groupby_state_invariance, current source.** -/
theorem groupby_state_invariance_now (ops1 ops2 : List Op) (hw : writesOf ops1 = writesOf ops2) (hv : ValidOps ops1)
    (m : Metric) (keys : List Bytes) (sel : List SeriesId)
    (hsel : ∀ s ∈ sel, ∃ t, (m, s, t) ∈ (run flagsNow ops1 State.init).written)
    {gs1 gs2 : List (SeriesId × List (ValId × Option Bytes))}
    (h1 : groupBy flagsNow (run flagsNow ops1 State.init) m keys sel = .ok gs1)
    (h2 : groupBy flagsNow (run flagsNow ops2 State.init) m keys sel = .ok gs2) :
    (∀ s, (∃ v, (s, v) ∈ gs1) ↔ (∃ v, (s, v) ∈ gs2)) ∧
    (∀ s v1 v2, (s, v1) ∈ gs1 → (s, v2) ∈ gs2 → v1.map (·.2) = v2.map (·.2)) :=
  groupby_state_invariance flagsNow ops1 ops2 hw hv (Or.inl flagsNow_repaired.2.2.2) m keys sel hsel h1 h2

/-! ## Reader ‖ flusher: a query parked between "take the file snapshot" and "read the memory tables" -/

/-- the read order of the current source -/
def readOrderNow : ReadOrder :=
  { dictScanMemFirst := Generated.C10.dictScanMemFirst
    invMemFirst := Generated.C10.invMemFirst
    fwdMemFirst := Generated.C10.fwdMemFirst
    valuesMemFirst := Generated.C10.valuesMemFirst
    collectMemFirst := Generated.C10.collectMemFirst
    suggestMemFirst := Generated.C10.suggestMemFirst
    invGetMemFirst := Generated.C10.invGetMemFirst
    groupingMemFirst := Generated.C10.groupingMemFirst }

/-- **later_reader_sees_flush.** A query whose read at `pt` is split over two instants — first half on
a reachable state `s1`, then ANY placement steps run to completion (PrepareFlush, a whole Flush, its
inner steps, compactions, of either database), second half afterwards — still selects exactly the
series written before it started whose tags satisfy the condition, PROVIDED that read path reads its
memory tables before it takes the file snapshot (`memFirstAt`). For the equals / in path
(`getOrCreateValue`) this is unconditional; for the like / regexp scans, the postings and the forward
index it is the regenerated fact `Generated.C10.*MemFirst`. -/
theorem later_reader_sees_flush (F : Flags) (M : Matcher) (ro : ReadOrder) (pt : ParkPoint)
    (hro : ro.memFirstAt pt = true) (ops : List Op) (hv : ValidOps ops)
    (hb : F.lutCumulative = true ∨ numWrites ops ≤ 131072) (steps : List Step)
    (m : Metric) (c : Expr) (hshape : c.shaped = true) (hnc : NoCollision F c)
    (hpre : F.rxLitPrefix = true → M.PrefixSound) {S : List SeriesId}
    (h : query F M (parkedState ro pt (run F ops State.init) (run F (placeOps steps) (run F ops State.init))) m c = .ok S) :
    ∀ s, s ∈ S ↔ ∃ t, (m, s, t) ∈ (run F ops State.init).written ∧ c.eval M t = true := by
  have hr := run_reach ops (reach_init F) hv (by simpa using hb)
  obtain ⟨hwf, hcore⟩ := parked_wf hr steps ro pt hro
  have hw := (core_eq_iff.mp hcore).2.2.2
  intro s
  rw [filter_eq_eval F M _ hwf m c hshape hnc hpre h s, hw]

/-- the equals / in path of the current source, whatever the other read orders are -/
theorem later_reader_sees_flush_find_now (M : Matcher) (ops : List Op) (hv : ValidOps ops) (steps : List Step)
    (m : Metric) (c : Expr) (hshape : c.shaped = true) {S : List SeriesId}
    (h : query flagsNow M (parkedState readOrderNow .dictFind (run flagsNow ops State.init)
          (run flagsNow (placeOps steps) (run flagsNow ops State.init))) m c = .ok S) :
    ∀ s, s ∈ S ↔ ∃ t, (m, s, t) ∈ (run flagsNow ops State.init).written ∧ c.eval M t = true :=
  later_reader_sees_flush flagsNow M readOrderNow .dictFind rfl ops hv (Or.inl flagsNow_repaired.2.2.2) steps m c hshape
    (noCollision_now c) (prefix_now M) h

/-- the four filter lookup paths of the current source read their memory tables first (f3a6def) -/
theorem filter_paths_memory_first_now :
    readOrderNow.memFirstAt .dictFind = true ∧ readOrderNow.memFirstAt .dictScan = true ∧
    readOrderNow.memFirstAt .inverted = true ∧ readOrderNow.memFirstAt .forward = true := by decide

/-- **later_reader_sees_flush, current source**: a filter query parked at any of the four lookup paths
across any placement steps selects exactly the eval set. -/
theorem later_reader_sees_flush_now (M : Matcher) (pt : ParkPoint)
    (hpt : pt = .dictFind ∨ pt = .dictScan ∨ pt = .inverted ∨ pt = .forward)
    (ops : List Op) (hv : ValidOps ops) (steps : List Step) (m : Metric) (c : Expr) (hshape : c.shaped = true)
    {S : List SeriesId}
    (h : query flagsNow M (parkedState readOrderNow pt (run flagsNow ops State.init)
          (run flagsNow (placeOps steps) (run flagsNow ops State.init))) m c = .ok S) :
    ∀ s, s ∈ S ↔ ∃ t, (m, s, t) ∈ (run flagsNow ops State.init).written ∧ c.eval M t = true := by
  have hro : readOrderNow.memFirstAt pt = true := by
    rcases hpt with rfl | rfl | rfl | rfl <;> decide
  exact later_reader_sees_flush flagsNow M readOrderNow pt hro ops hv (Or.inl flagsNow_repaired.2.2.2) steps m c hshape
    (noCollision_now c) (prefix_now M) h

/-- **later_grouping_sees_flush.** The group-by part parked across placement steps — at
`GetGroupingContext` (`.grouping`), at `CollectKVs` (`.collect`), or at any other point — still
returns exactly the selected series that carry all grouping keys, each with its tag values, provided
the parked read path reads memory first. -/
theorem later_grouping_sees_flush (F : Flags) (ro : ReadOrder) (pt : ParkPoint) (hro : ro.memFirstAt pt = true)
    (ops : List Op) (hv : ValidOps ops) (hb : F.lutCumulative = true ∨ numWrites ops ≤ 131072) (steps : List Step)
    (m : Metric) (keys : List Bytes) (sel : List SeriesId)
    (hsel : ∀ s ∈ sel, ∃ t, (m, s, t) ∈ (run F ops State.init).written)
    {gs : List (SeriesId × List (ValId × Option Bytes))}
    (h : groupBy F (parkedState ro pt (run F ops State.init) (run F (placeOps steps) (run F ops State.init))) m keys sel = .ok gs) :
    (∀ s vals, (s, vals) ∈ gs → s ∈ sel ∧ ∃ t, (m, s, t) ∈ (run F ops State.init).written ∧ groupValuesOK t keys vals) ∧
    (∀ s ∈ sel, ∀ t, (m, s, t) ∈ (run F ops State.init).written → (∀ k ∈ keys, ∃ v, (k, v) ∈ t) → ∃ vals, (s, vals) ∈ gs) := by
  have hr := run_reach ops (reach_init F) hv (by simpa using hb)
  obtain ⟨hwf, hcore⟩ := parked_wf hr steps ro pt hro
  have hl := parked_lutSafe hr steps ro pt hro
  have hw := (core_eq_iff.mp hcore).2.2.2
  have := groupby_values F _ hwf hl m keys sel (by rw [hw]; exact hsel) h
  rw [hw] at this
  exact this

/-- `GetValues` / `Suggest` parked across placement steps (memory first): every value id of the bucket
that existed when the call started is returned -/
theorem later_values_sees_flush (F : Flags) (ro : ReadOrder) (hro : ro.valuesMemFirst = true)
    (ops : List Op) (hv : ValidOps ops) (hb : F.lutCumulative = true ∨ numWrites ops ≤ 131072) (steps : List Step)
    (kid : KeyId) (id : ValId) :
    id ∈ (parkedState ro .values (run F ops State.init) (run F (placeOps steps) (run F ops State.init))).dict.values kid ↔
      ∃ v, (kid, v, id) ∈ (run F ops State.init).dict.all := by
  have hr := run_reach ops (reach_init F) hv (by simpa using hb)
  obtain ⟨k, _⟩ := steps_keep (F := F) steps hr
  rw [mem_dict_values]
  simp only [parkedState, hro]
  constructor
  · rintro ⟨v, hm⟩; exact ⟨v, (hybridDict_all k.dict k.dictFiles _).mp hm⟩
  · rintro ⟨v, hm⟩; exact ⟨v, (hybridDict_all k.dict k.dictFiles _).mpr hm⟩

/-! ## The matcher parameters and the meaning of `not` -/

/-- **like dispatch against the abstract matcher.** Whatever the split of the dictionary into memory
tables and files: the value ids `FindValuesByLike` returns for bucket `kid` — through the
prefix / suffix / contains / exact dispatch on the pattern's leading and trailing `*`, the trie's
prefix iterator on files and the plain scans on memory tables — are exactly the ids of the
dictionary values `v` with `LikeMatch p v` (`v = pre ++ core ++ suf`, `pre` empty unless the pattern
starts with `*`, `suf` empty unless it ends with `*`). It fails only for the bare `*` while unguarded. -/
theorem like_dispatch_matches (F : Flags) (d : Dict) (hf : DictFun d.all) (kid : KeyId) (p : Bytes) :
    (∀ ids, findValuesByLike F d kid p = .ok ids → ∀ id, id ∈ ids ↔ ∃ v, LikeMatch p v ∧ (kid, v, id) ∈ d.all) ∧
    ((F.likeStarGuarded = true ∨ p ≠ [star]) → ∃ ids, findValuesByLike F d kid p = .ok ids) := by
  refine ⟨?_, findValuesByLike_ok⟩
  intro ids h id
  rw [findValuesByLike_spec hf h id]
  constructor
  · rintro ⟨v, hv, hm⟩; exact ⟨v, (likeRef_iff p v).mp hv, hm⟩
  · rintro ⟨v, hv, hm⟩; exact ⟨v, (likeRef_iff p v).mpr hv, hm⟩

/-- the regexp filter against the abstract matcher `M`: ids of exactly the dictionary values that
`M.isMatch`es, provided the iterator prefix is sound for `M` (or not used: current source) -/
theorem regexp_dispatch_matches (F : Flags) (M : Matcher) (d : Dict) (kid : KeyId) (p : Bytes)
    (hpre : F.rxLitPrefix = true → M.PrefixSound) (id : ValId) :
    id ∈ findValuesByRegexp F M d kid p ↔ ∃ v, M.isMatch p v = true ∧ (kid, v, id) ∈ d.all :=
  findValuesByRegexp_spec hpre id

/-- **not_excludes_series_without_key** (the property text does not fix this; DESIGN §7 C10 does):
`not e` around an atomic filter on key `k` (`!=`, `<>`, `not like`, `not in`, `!~`) selects exactly the
written series that HAVE `k` and do not satisfy `e`; in particular a series without `k` is never
selected by `not e` (nor by `e`). -/
theorem not_excludes_series_without_key (F : Flags) (M : Matcher) (st : State) (hwf : WF st) (m : Metric) (e : Expr)
    (k : Bytes) (hk : e.notKey = some k) (hshape : e.shaped = true) (hnc : NoCollision F (.not e))
    (hpre : F.rxLitPrefix = true → M.PrefixSound) {S : List SeriesId} (h : query F M st m (.not e) = .ok S) :
    (∀ s, s ∈ S ↔ ∃ t, (m, s, t) ∈ st.written ∧ (∃ v, (k, v) ∈ t) ∧ e.eval M t = false) ∧
    (∀ s t, (m, s, t) ∈ st.written → (∀ v, (k, v) ∉ t) → s ∉ S) := by
  have hsh : (Expr.not e).shaped = true := by simp [Expr.shaped, hk, hshape]
  have hspec := filter_eq_eval F M st hwf m (.not e) hsh hnc hpre h
  have key : ∀ t : Tags, (Expr.not e).eval M t = true ↔ (∃ v, (k, v) ∈ t) ∧ e.eval M t = false := by
    intro t
    simp only [Expr.eval, hk, Bool.and_eq_true, any_key_iff, Bool.not_eq_true']
  constructor
  · intro s
    rw [hspec s]
    constructor
    · rintro ⟨t, hw, he⟩; exact ⟨t, hw, (key t).mp he⟩
    · rintro ⟨t, hw, he⟩; exact ⟨t, hw, (key t).mpr he⟩
  · intro s t hw hno hs
    obtain ⟨t', hw', he⟩ := (hspec s).mp hs
    rw [hwf.writtenFun _ _ _ _ hw' hw] at he
    obtain ⟨⟨v, hv⟩, _⟩ := (key t).mp he
    exact hno v hv

/-! ## Trie blocks: the answer does not depend on how a bucket's values are cut into blocks -/

/-- **dictionary_block_partition_independent.** A flushed dictionary bucket is read block by block
(`TrieBucket.GetValue`: first block that has the key; `FindValuesByLike`/`FindValuesByRegexp`: every
block). (1) Any two partitions of the same entry list into blocks give the same lookups; (2) the
partition `TrieBucketBuilder.Write` makes (`blocksOf bs`, any block size `bs > 0`: 32767 at flush,
65535 when compaction re-splits) loses no entry (`blocks_cover`), so reading it block by block is
reading the flat entry list — which is what the model's `Dict.findValue` / `Dict.scan` do on
`files.flatten`. Hence every theorem above holds for every block size. -/
theorem dictionary_block_partition_independent :
    (∀ (b1 b2 : List DictPart), b1.flatten = b2.flatten → ∀ kid v pre check,
        blocksFind b1 kid v = blocksFind b2 kid v ∧ blocksScan b1 kid pre check = blocksScan b2 kid pre check) ∧
    (∀ (bs : Nat), 0 < bs → ∀ (p : DictPart) kid v pre check,
        (blocksOf bs p).flatten = p ∧ blocksFind (blocksOf bs p) kid v = partFind p kid v ∧
        blocksScan (blocksOf bs p) kid pre check =
          (p.filter (fun e => e.1 == kid && pre.isPrefixOf e.2.1 && check e.2.1)).map (·.2.2)) := by
  constructor
  · intro b1 b2 h kid v pre check
    rw [blocksFind_flatten, blocksFind_flatten, blocksScan_flatten, blocksScan_flatten, h]
    exact ⟨rfl, rfl⟩
  · intro bs hbs p kid v pre check
    have hc := blocks_cover bs hbs p
    refine ⟨hc, ?_, ?_⟩
    · rw [blocksFind_flatten, hc]
    · rw [blocksScan_flatten, hc]

/-! ## The bucket cache: exact lookups ‖ Flush -/

/-- **exact_lookup_sees_flush_all_interleavings.** `indexKVStore` with its bucket cache: a coherent
store whose immutable table `p` is being flushed, ONE exact lookup of any bucket `k` (its snapshot
`take` and its guarded `addBucketCache`) interleaved in EVERY way with the steps of `Flush` in the
source order (`flusher.Close()`, then snapshot swap + `immutable = nil` + `Purge()` under one write
lock: `Generated.C10.cachePurgeAtSwap`). Afterwards every later exact lookup (`exactFind`: memory
tables, cached bucket, else the snapshot's bucket) finds every value of the flushed batch — no stale
bucket of the old snapshot survives in the cache. -/
theorem exact_lookup_sees_flush_all_interleavings (s : KVStore) (hc : Coherent s) (p : DictPart)
    (himm : s.imm = some p) (k : KeyId) (sched : List PStep)
    (hs : sched ∈ merges [PStep.l (.take k), PStep.l (.add k)]
            ((flushOrder Generated.C10.cachePurgeAtSwap).map PStep.f)) :
    ∀ kid v id, (kid, v, id) ∈ p → ((sched.foldl pstep (s, {})).1.exactFind kid v).isSome = true := by
  have hgen : Generated.C10.cachePurgeAtSwap = true := by decide
  rw [hgen] at hs
  obtain ⟨hco, hi, hsf, _⟩ := flush_lookup_interleavings s hc p himm k sched hs
  intro kid v id hm
  rw [exactFind_coherent hco, hi, hsf]
  cases partFind (sched.foldl pstep (s, {})).1.mtb kid v with
  | some x => rfl
  | none =>
    simp only [optList, Option.getD_none, partFind, List.find?_nil, Option.map_none]
    exact partFind_bucketOf_isSome (id := id) (by simp [hm])

/-! ## `=` is literal -/

/-- **equals_is_literal.** An equals filter (and each member of an in-list) is answered by the exact
dictionary lookup: for EVERY byte string `v` — also with a leading and/or trailing `*` — it resolves
to the ids of exactly the dictionary entries whose value IS `v`; no wildcard is interpreted. (A like
filter with the same string matches more: see the example below.) -/
theorem equals_is_literal (F : Flags) (M : Matcher) (d : Dict) (hf : DictFun d.all) (kid : KeyId) (k v : Bytes) :
    ∃ ids, resolveAtom F M d kid (.eq k v) = .ok ids ∧ ∀ id, id ∈ ids ↔ (kid, v, id) ∈ d.all := by
  refine ⟨d.findValueL kid v, rfl, ?_⟩
  intro id
  exact mem_findValueL hf

/-- on the reference side: `k = v` holds for a series iff it carries exactly the pair `(k, v)` -/
theorem equals_eval_literal (M : Matcher) (t : Tags) (k v : Bytes) :
    (Expr.atom (.eq k v)).eval M t = true ↔ (k, v) ∈ t := by
  simp only [Expr.eval, atom_eval_iff, Atom.key, Atom.holdsOn, beq_iff_eq]
  constructor
  · rintro ⟨x, hx, rfl⟩; exact hx
  · intro h; exact ⟨v, h, rfl⟩

/-! ## Dictionary compaction keeps every key with its id -/

/-- **compaction_preserves_key_id.** `TrieBucket.Write` merges the small tries by iterating each in
key order and appending `(key, itr.Value())`: the merged bucket — whatever the keys (prefixes of one
another, any lengths), however they are then cut into blocks of `bs > 0` — holds exactly the
(key, id) pairs of the merged tries, and an exact lookup in it returns an id some input trie pairs
with that key. -/
theorem compaction_preserves_key_id (ts : List (List (Bytes × ValId))) (bs : Nat) (hbs : 0 < bs) :
    (∀ x, x ∈ (blocksOf bs (mergeTries ts)).flatten ↔ ∃ t ∈ ts, x ∈ t) ∧
    (∀ key id, (mergeTries ts).find? (fun e => e.1 == key) = some (key, id) → ∃ t ∈ ts, (key, id) ∈ t) := by
  constructor
  · intro x
    rw [blocks_cover bs hbs, mem_mergeTries]
  · intro key id h
    exact mem_mergeTries.mp (List.mem_of_find?_eq_some h)

/-! ## The index flush seen from inside -/

/-- the one-step flush of the index stores is the composition of its steps (nobody looking) -/
theorem flush_is_its_steps (F : Flags) (st : State) (hi : st.inv.phase = .idle) (hf : st.fwd.phase = .idle) :
    st.step F .flushIndex =
      run F [.place .fwdWrite, .place .fwdCommit, .place .fwdDrop, .place .invWrite, .place .invCommit, .place .invDrop] st := by
  have e1 : st.fwd.flush = ((st.fwd.flushWrite).flushCommit).flushDrop := by
    unfold Fwd.flush Fwd.flushNow Fwd.flushWrite
    cases him : st.fwd.imm with
    | none => simp [hf, him, Fwd.flushCommit, Fwd.flushDrop]
    | some p =>
      cases p with
      | nil => simp [hf, him, Fwd.flushCommit, Fwd.flushDrop]
      | cons x t => simp [hf, him, Fwd.flushCommit, Fwd.flushDrop]
  have e2 : st.inv.flush = ((st.inv.flushWrite).flushCommit).flushDrop := by
    unfold Inv.flush Inv.flushNow Inv.flushWrite
    cases him : st.inv.imm with
    | none => simp [hi, him, Inv.flushCommit, Inv.flushDrop]
    | some p =>
      cases p with
      | nil => simp [hi, him, Inv.flushCommit, Inv.flushDrop]
      | cons x t => simp [hi, him, Inv.flushCommit, Inv.flushDrop]
  simp only [run, List.foldl_cons, List.foldl_nil, applyOp, State.step, e1, e2]

/-! ## Ties to the regenerated facts -/

/-- the two operators dispatch on exactly the expression kinds of `Expr` (atom / paren / not / binary) -/
theorem tie_dispatch :
    Generated.C10.lookupCases = ["stmt.TagFilter", "*stmt.ParenExpr", "*stmt.NotExpr", "*stmt.BinaryExpr"] ∧
    Generated.C10.filterCases = ["stmt.TagFilter", "*stmt.ParenExpr", "*stmt.NotExpr", "*stmt.BinaryExpr"] ∧
    Generated.C10.resolveCases = ["*stmt.EqualsExpr", "*stmt.InExpr", "*stmt.LikeExpr", "*stmt.RegexExpr"] ∧
    Generated.C10.lookupBinaryGuard = "expr.Operator != stmt.AND && expr.Operator != stmt.OR" := by decide

/-- `findSeriesIDsByExpr` returns the operand's tag key for atom / paren and key id 0 for `not` and
binary expressions (what `filterExpr` models) -/
theorem tie_filter_returns :
    Generated.C10.filterReturns =
      ["tagKey, roaring.New() | tagKey, seriesIDs", "op.findSeriesIDsByExpr(expr.Expr)",
       "tagKey, roaring.New() | 0, all", "0, left"] := by decide

/-- the slot key of `TagFilterResult`: `expr.Rewrite()` in both operators (flag true) or the
injective `string(stmt.Marshal(expr))` (flag false) -/
theorem tie_result_key :
    (Generated.C10.lookupKeyExprs = ["expr.Rewrite()"] ∧ Generated.C10.filterKeyExprs = ["expr.Rewrite()"] ∧
      Generated.C10.keyByRewrite = true) ∨
    (Generated.C10.lookupKeyExprs = ["string(stmt.Marshal(expr))"] ∧
      Generated.C10.filterKeyExprs = ["string(stmt.Marshal(expr))"] ∧ Generated.C10.keyByRewrite = false) := by decide

/-- `Atom.rewrite` uses the separators of the four `Rewrite()` format strings -/
theorem tie_rewrite_formats :
    Generated.C10.rewriteEq.toList.map Char.toNat = [37, 115] ++ [chEq] ++ [37, 115] ∧
    Generated.C10.rewriteIn.toList.map Char.toNat = [37, 115] ++ sIn ++ [37, 115] ++ sClose ∧
    Generated.C10.rewriteInJoin.toList.map Char.toNat = [chComma] ∧
    Generated.C10.rewriteLike.toList.map Char.toNat = [37, 115] ++ sLike ++ [37, 115] ∧
    Generated.C10.rewriteRegex.toList.map Char.toNat = [37, 115] ++ [chEq, chTilde] ++ [37, 115] := by decide

/-- the like switch: wildcard `*`, the case order `findValuesByLike` follows, and the slices -/
theorem tie_like_switch :
    Generated.C10.likeWildcards = ["HasPrefix:" ++ String.singleton (Char.ofNat star),
                                   "HasSuffix:" ++ String.singleton (Char.ofNat star)] ∧
    Generated.C10.likeSlices = ["likeSlice[:len(likeSlice)-1]", "likeSlice[1:]", "likeSlice[1 : len(likeSlice)-1]"] ∧
    ((Generated.C10.likeCases = ["like == \"\"", "!hashPrefix && hasSuffix", "hashPrefix && !hasSuffix",
        "hashPrefix && hasSuffix", "default"] ∧ Generated.C10.likeStarGuarded = false) ∨
     (Generated.C10.likeCases = ["like == \"\"", "like == \"*\"", "!hashPrefix && hasSuffix", "hashPrefix && !hasSuffix",
        "hashPrefix && hasSuffix", "default"] ∧ Generated.C10.likeStarGuarded = true)) := by decide

/-- `TrieBucket.FindValuesByRegexp` walks the trie from the literal prefix (flag true) or from the root -/
theorem tie_regexp_iterator :
    (Generated.C10.rxIteratorArg = "literalPrefixByte" ∧ Generated.C10.rxLitPrefix = true) ∨
    (Generated.C10.rxIteratorArg = "nil" ∧ Generated.C10.rxLitPrefix = false) := by decide

/-- `NewTagForwardReader`'s lookup table: per-container cardinality (flag false) or prefix sums -/
theorem tie_forward_lut :
    (Generated.C10.lutAssigns = ["lut[0] = 0", "lut[idx + 1] = lowContainer.GetCardinality()"] ∧
      Generated.C10.lutCumulative = false) ∨
    (Generated.C10.lutAssigns = ["lut[0] = 0", "lut[idx + 1] = lut[idx] + lowContainer.GetCardinality()"] ∧
      Generated.C10.lutCumulative = true) := by decide

/-- `PrepareFlush` of the three stores: swap on `immutable == nil` only (flag false), or also on an
empty immutable table (flag true) -/
theorem tie_prepare_flush :
    (Generated.C10.prepareConds = ["s.immutable == nil", "ii.immutable == nil", "fi.immutable == nil"] ∧
      Generated.C10.prepareOnEmpty = false) ∨
    (Generated.C10.prepareConds = ["s.immutable == nil || s.immutable.IsEmpty()",
        "ii.immutable == nil || ii.immutable.IsEmpty()", "fi.immutable == nil || fi.immutable.IsEmpty()"] ∧
      Generated.C10.prepareOnEmpty = true) := by decide

/-- the step order of `invertedIndex.flush` / `forwardIndex.flush` that `Inv.flushWrite` →
`flushCommit` → `flushDrop` follow: `immutable = nil` is the only write to `immutable` in the function,
under the lock, AFTER `flusher.Close()` returned without error; no other function of the stores
assigns `immutable` (besides `prepareFlush`). The dictionary's `Flush` swaps its snapshot and clears
`immutable` under one lock after `flusher.Close()`. -/
theorem tie_flush_order :
    Generated.C10.invFlushEvents =
      ["call:ii.needFlush", "return:nil", "call:family.NewFlusher", "call:kvFlusher.Release",
       "call:newInvertedIndexFlusher", "return:err", "call:immutable.WalkEntry", "func-literal", "return:err",
       "call:flusher.Close", "return:err", "call:lock.Lock", "set:immutable=nil", "call:lock.Unlock", "return:nil"] ∧
    Generated.C10.fwdFlushEvents =
      ["call:fi.needFlush", "return:nil", "call:family.NewFlusher", "call:kvFlusher.Release",
       "call:newForwardIndexFlusher", "return:err", "call:immutable.WalkEntry", "func-literal", "return:err",
       "call:flusher.Close", "return:err", "call:lock.Lock", "set:immutable=nil", "call:lock.Unlock", "return:nil"] ∧
    Generated.C10.dictFlushEvents =
      ["call:s.needFlush", "return:nil", "call:family.NewFlusher", "call:kvFlusher.Release", "call:newIndexKVFlusher",
       "return:err", "call:immutable.WalkEntry", "func-literal", "return:err", "call:flusher.Close", "return:err",
       "call:lock.Lock", "call:lock.Unlock", "call:snapshot.Close", "call:family.GetSnapshot", "set:immutable=nil",
       "call:bucketCache.Purge", "return:nil"] ∧
    Generated.C10.immutableWriters =
      ["forwardIndex.flush", "forwardIndex.prepareFlush", "indexKVStore.Flush", "indexKVStore.PrepareFlush",
       "invertedIndex.flush", "invertedIndex.prepareFlush"] := by decide

/-- per read path the order of "file snapshot" and "memory tables" (with the yield point in
between): snapshot first (flag false: a reader parked there across a flush loses the batch) or
memory first (flag true, fixes/C10-read-memory-before-snapshot.patch) -/
theorem tie_read_order :
    ((Generated.C10.dictScanOrder = ["FindValuesByRegexp: snapshot yield memory memory",
        "findValuesByLike: snapshot yield memory memory"] ∧ Generated.C10.dictScanMemFirst = false) ∨
     (Generated.C10.dictScanOrder = ["FindValuesByRegexp: memory memory snapshot yield",
        "findValuesByLike: memory memory snapshot yield"] ∧ Generated.C10.dictScanMemFirst = true)) ∧
    ((Generated.C10.invOrder = ["findSeriesIDsByKeys: snapshot yield memory"] ∧ Generated.C10.invMemFirst = false) ∨
     (Generated.C10.invOrder = ["findSeriesIDsByKeys: memory snapshot yield"] ∧ Generated.C10.invMemFirst = true)) ∧
    ((Generated.C10.fwdOrder = ["findSeriesIDsForTag: snapshot yield memory"] ∧ Generated.C10.fwdMemFirst = false) ∨
     (Generated.C10.fwdOrder = ["findSeriesIDsForTag: memory snapshot yield"] ∧ Generated.C10.fwdMemFirst = true)) := by
  decide

/-- `scanGroupingTags`: for every group-by key (outer loop) EVERY scanner of that key (inner loop) is
read; the only `continue` skips a scanner without the container; no `break`/`return`, no counter or
other bookkeeping that lives across keys — what `valuesFor` / `valueIdOf` model (per key, all
scanners of the key, last hit wins) -/
theorem tie_scan_grouping :
    Generated.C10.scanGroupingShape =
      ["0:seriesIDHighKey :=", "0:range g.tagKeys", "1:scanners :=", "1:range scanners",
       "2:lowSeriesIDs,tagValueIDs :=", "2:if lowSeriesIDs == nil", "3:continue",
       "2:call ctx.IterateLowSeriesIDs", "3:func-literal", "4:call fn"] := by decide

/-- the block arithmetic of `TrieBucketBuilder.Write` (`numBlocks` rounds UP, the last block is
clamped to `len(keys)`) and the two block sizes in use — what `numBlocks` / `blocksOf` mirror -/
theorem tie_trie_blocks :
    Generated.C10.trieBlockSplit =
      ["numBlocks := len(keys) / b.blockSize", "if len(keys)%b.blockSize != 0", "numBlocks++",
       "for i := 0; i < numBlocks; i++", "start := i * b.blockSize", "end := start + b.blockSize",
       "if end > len(keys)", "end = len(keys)", "Build(kvs.Keys[start:end], kvs.IDs[start:end])",
       "if err != nil", "if err != nil"] ∧
    Generated.C10.trieBlockSizes = ["math.MaxInt16", "math.MaxUint16"] := by decide

/-- `indexKVStore.Flush` purges the bucket cache once, inside the write-locked section after
`flusher.Close()` (see also `tie_flush_order` for the full event list) -/
theorem tie_cache_purge : Generated.C10.cachePurgeAtSwap = true := by decide

/-- `FindValuesByExpr`: equals and in go to the exact lookup `findValue`, only like goes to
`FindValuesByLike`, only regexp to `FindValuesByRegexp` — what `resolveAtom` models -/
theorem tie_resolve_dispatch :
    Generated.C10.resolveDispatch =
      ["*stmt.EqualsExpr -> s.findValue", "*stmt.InExpr -> s.findValue", "*stmt.LikeExpr -> s.FindValuesByLike",
       "*stmt.RegexExpr -> regexpCompile,s.FindValuesByRegexp"] := by decide

/-- `TrieBucket.Write`: per iterated key, the key and `itr.Value()` of the same iterator position are
appended together — what `mergeTries` models -/
theorem tie_trie_merge_pairing :
    Generated.C10.trieMergePairing =
      ["itr := kv.tree.NewPrefixIterator(nil)", "keys = append(keys, k)", "ids = append(ids, itr.Value())",
       "itr.Next()"] := by decide

/-- the other five snapshot+memory readers (`GetValues`, `CollectKVs`, `Suggest`, `getSeriesIDs`,
`GetGroupingContext`+`getGroupingScanners`): snapshot first (flag false) or memory first (flag true,
fixes/C10-memory-before-snapshot-rest.patch); the lists are the same with and without the yield lines -/
theorem tie_read_order_rest :
    ((Generated.C10.valuesOrder = ["GetValues: snapshot memory memory"] ∧ Generated.C10.valuesMemFirst = false) ∨
     (Generated.C10.valuesOrder = ["GetValues: memory memory snapshot"] ∧ Generated.C10.valuesMemFirst = true)) ∧
    ((Generated.C10.collectOrder = ["CollectKVs: snapshot memory memory"] ∧ Generated.C10.collectMemFirst = false) ∨
     (Generated.C10.collectOrder = ["CollectKVs: memory memory snapshot"] ∧ Generated.C10.collectMemFirst = true)) ∧
    ((Generated.C10.suggestOrder = ["Suggest: snapshot memory memory"] ∧ Generated.C10.suggestMemFirst = false) ∨
     (Generated.C10.suggestOrder = ["Suggest: memory memory snapshot"] ∧ Generated.C10.suggestMemFirst = true)) ∧
    ((Generated.C10.invGetOrder = ["getSeriesIDs: snapshot memory"] ∧ Generated.C10.invGetMemFirst = false) ∨
     (Generated.C10.invGetOrder = ["getSeriesIDs: memory snapshot"] ∧ Generated.C10.invGetMemFirst = true)) ∧
    ((Generated.C10.groupingOrder = ["GetGroupingContext: snapshot scanners", "getGroupingScanners: memory"] ∧
        Generated.C10.groupingMemFirst = false) ∨
     (Generated.C10.groupingOrder = ["GetGroupingContext: scanners", "getGroupingScanners: memory snapshot"] ∧
        Generated.C10.groupingMemFirst = true)) := by decide

/-! ## Non-vacuity -/

/-- Go's behaviour on literal patterns with an optional `^`: `^x` matches values starting with `x`
(literal prefix empty), `x` matches values containing `x` (literal prefix `x`) -/
def toyMatcher : Matcher :=
  { valid := fun _ => true
    isMatch := fun p v => match p with
      | 94 :: x => x.isPrefixOf v
      | _ => isInfix p v
    lit := fun p => match p with
      | 94 :: _ => []
      | _ => p }

/-- a matcher that satisfies `PrefixSound`: every pattern is anchored at the start -/
def anchoredMatcher : Matcher :=
  { valid := fun _ => true, isMatch := fun p v => p.isPrefixOf v, lit := fun p => p }

theorem anchoredMatcher_sound : anchoredMatcher.PrefixSound := fun _ _ h => h

def kHost : Bytes := [104]   -- "h"
def kZone : Bytes := [122]   -- "z"
def mCpu : Metric := [99]    -- "c"

/-- three series, a full flush of both databases between the second and the third, a second flush
and a compaction after it -/
def sampleOps : List Op :=
  [.write mCpu [(kHost, [97, 98, 99]), (kZone, [49])],
   .write mCpu [(kHost, [120, 97, 98, 99]), (kZone, [49])],
   .place .prepareMeta, .place .flushMeta, .place .prepareIndex, .place .flushIndex,
   .write mCpu [(kZone, [50])],
   .place .prepareMeta, .place .flushMeta, .place .prepareIndex, .place .flushIndex,
   .place .compactMeta, .place .compactIndex]

theorem sampleOps_valid : ValidOps sampleOps := by
  intro m t h
  simp [sampleOps] at h
  rcases h with ⟨_, rfl⟩ | ⟨_, rfl⟩ | ⟨_, rfl⟩ <;> decide

/-- the hypotheses of the theorems hold on a non-trivial state, and the conclusion is informative:
`host like 'ab*' or zone != '1'` selects series 0 and 2 out of three, from files and memory -/
example : WF (run flagsNow sampleOps State.init) :=
  (write_path_establishes_wf flagsNow sampleOps sampleOps_valid (Or.inr (by decide))).1

example :
    query flagsNow anchoredMatcher (run flagsNow sampleOps State.init) mCpu
      (.or (.atom (.like kHost [97, 98, 42])) (.not (.atom (.eq kZone [49])))) = .ok [0, 2] := by decide

example :
    groupBy flagsNow (run flagsNow sampleOps State.init) mCpu [kZone] [0, 2] =
      .ok [(0, [(1, some [49])]), (2, [(3, some [50])])] := by decide

example : (Expr.or (.atom (.like kHost [97, 98, 42])) (.not (.atom (.eq kZone [49])))).shaped = true := by decide

example (F : Flags) : NoCollision F (.or (.atom (.like kHost [97, 98, 42])) (.not (.atom (.eq kZone [49])))) := by
  intro a ha b hb h
  simp [Expr.atoms] at ha hb
  rcases ha with rfl | rfl <;> rcases hb with rfl | rfl <;> first | rfl | (cases F; simp [sameKey, Atom.rewrite, kHost, kZone, sLike, chEq] at h; try (split at h <;> simp at h))

/-- stopped INSIDE the index flush (forward file committed and its table dropped, inverted file
committed but `immutable` not yet cleared) the query answers as before the flush; a flush that
fails while the inverted file is written leaves the batch in the immutable table -/
def insideFlushOps : List Op :=
  [.write mCpu [(kHost, [97, 98, 99]), (kZone, [49])], .write mCpu [(kZone, [50])],
   .place .prepareIndex, .write mCpu [(kHost, [97, 98]), (kZone, [49])],
   .place .fwdWrite, .place .fwdCommit, .place .fwdDrop, .place .invWrite]

example :
    query flagsNow anchoredMatcher (run flagsNow (insideFlushOps ++ [.place .invCommit]) State.init) mCpu
      (.not (.atom (.eq kZone [50]))) = .ok [2, 0] ∧
    query flagsNow anchoredMatcher (run flagsNow (insideFlushOps ++ [.place .invFail]) State.init) mCpu
      (.not (.atom (.eq kZone [50]))) = .ok [2, 0] ∧
    (run flagsNow (insideFlushOps ++ [.place .invCommit]) State.init).inv.phase = .committed := by decide

/-- group by SEVERAL keys with the series spread over every kind of store: series 0,1 in the
level-1 file (flushed twice + compacted), 2 in a level-0 file, 3 in the immutable tables, 4 in the
mutable tables; series 4 lacks `zone` and is dropped, every other series gets exactly its two values -/
def spreadOps : List Op :=
  [.write mCpu [(kHost, [97]), (kZone, [49])], .place .prepareIndex, .place .flushIndex,
   .write mCpu [(kHost, [98]), (kZone, [50])], .place .prepareIndex, .place .flushIndex, .place .compactIndex,
   .write mCpu [(kHost, [99]), (kZone, [49])], .place .prepareIndex, .place .flushIndex,
   .write mCpu [(kHost, [97]), (kZone, [50])], .place .prepareIndex,
   .write mCpu [(kHost, [100])]]

example :
    groupBy flagsNow (run flagsNow spreadOps State.init) mCpu [kZone, kHost] [0, 1, 2, 3, 4] =
      .ok [(0, [(1, some [49]), (0, some [97])]), (1, [(3, some [50]), (2, some [98])]),
           (2, [(1, some [49]), (4, some [99])]), (3, [(3, some [50]), (0, some [97])])] ∧
    (run flagsNow spreadOps State.init).fwd.l1.length = 1 ∧ (run flagsNow spreadOps State.init).fwd.l0.length = 1 ∧
    (run flagsNow spreadOps State.init).fwd.imm.isSome = true ∧ (run flagsNow spreadOps State.init).fwd.mtb ≠ [] := by
  decide

/-- `host = 'a*'` selects only the series whose value is literally `a*`; `host like 'a*'` selects
every value starting with `a` -/
def starOps : List Op := [.write mCpu [(kHost, [97, 42])], .write mCpu [(kHost, [97, 98])], .write mCpu [(kHost, [42])]]

example :
    query flagsNow anchoredMatcher (run flagsNow starOps State.init) mCpu (.atom (.eq kHost [97, 42])) = .ok [0] ∧
    query flagsNow anchoredMatcher (run flagsNow starOps State.init) mCpu (.atom (.like kHost [97, 42])) = .ok [0, 1] ∧
    query flagsNow anchoredMatcher (run flagsNow starOps State.init) mCpu (.atom (.eq kHost [42])) = .ok [2] ∧
    query flagsNow anchoredMatcher (run flagsNow starOps State.init) mCpu (.not (.atom (.eq kHost [42]))) = .ok [0, 1] := by
  decide

/-! ## Witnesses of the repaired defects (flags of the source before the fix commits; each is still
replayed on the implementation on every run and must now PASS there) and of a wrong flush order -/

namespace Neg

/-- the facts of the unchanged tree -/
def flags0 : Flags :=
  { keyByRewrite := true, likeStarGuarded := false, rxLitPrefix := true, lutCumulative := false, prepareOnEmpty := true }

def twoSeries : State :=
  run flags0 [.write mCpu [(kHost, [97])], .write mCpu [(kHost, [98]), (kZone, [49])]] State.init

/-- **like-star-panic.** `host like '*'` (grammar-shaped, no collision): the reference semantics
selects both series that carry `host`; `FindValuesByLike` slices `likeSlice[1:0]` and panics. -/
theorem like_star_panics :
    query flags0 anchoredMatcher twoSeries mCpu (.atom (.like kHost [star])) = .error .panic ∧
    (Expr.atom (.like kHost [star])).eval anchoredMatcher [(kHost, [97])] = true := by decide

def collisionSeries : State :=
  run flags0 [.write mCpu [(kHost, [97, 44, 98])], .write mCpu [(kHost, [97])], .write mCpu [(kHost, [98])]] State.init

/-- `host in ('a,b') or host in ('a','b')` -/
def collisionCond : Expr :=
  .or (.atom (.inn kHost [[97, 44, 98]])) (.atom (.inn kHost [[97], [98]]))

/-- **rewrite-key-collision.** Both `in` filters rewrite to `h in (a,b)`; the second lookup
overwrites the first (both sides then select series 1 and 2), so series 0 (host = "a,b"), which
satisfies the condition, is not selected. -/
theorem rewrite_collision :
    collisionCond.shaped = true ∧
    (Atom.inn kHost [[97, 44, 98]]).rewrite = (Atom.inn kHost [[97], [98]]).rewrite ∧
    query flags0 anchoredMatcher collisionSeries mCpu collisionCond = .ok [1, 2, 1, 2] ∧
    collisionCond.eval anchoredMatcher [(kHost, [97, 44, 98])] = true := by decide

/-- with an injective slot key the same condition selects all three -/
theorem rewrite_collision_fixed :
    query { flags0 with keyByRewrite := false } anchoredMatcher collisionSeries mCpu collisionCond = .ok [0, 1, 2] := by
  decide

def rxWrites : List Op := [.write mCpu [(kHost, [97, 98, 99])], .write mCpu [(kHost, [120, 97, 98, 99])]]
def rxFlush : List Op := [.place .prepareMeta, .place .flushMeta]

/-- **regex-literal-prefix-skips-flushed-values.** `host =~ 'abc'` (unanchored; literal prefix
`abc`): while the dictionary entries are in memory both `abc` and `xabc` match; after the metadata
flush the trie is walked from the prefix `abc` and `xabc` is lost — the answer depends on the state. -/
theorem regex_prefix_state_dependent :
    query flags0 toyMatcher (run flags0 rxWrites State.init) mCpu (.atom (.rx kHost [97, 98, 99])) = .ok [0, 1] ∧
    query flags0 toyMatcher (run flags0 (rxWrites ++ rxFlush) State.init) mCpu (.atom (.rx kHost [97, 98, 99])) = .ok [0] ∧
    (Expr.atom (.rx kHost [97, 98, 99])).eval toyMatcher [(kHost, [120, 97, 98, 99])] = true ∧
    ¬ toyMatcher.PrefixSound := by
  refine ⟨by decide, by decide, by decide, ?_⟩
  intro h
  have := h [97] [120, 97] (by decide)
  revert this
  decide

/-- walking the trie from the root instead gives the same answer in both states -/
theorem regex_prefix_fixed :
    query { flags0 with rxLitPrefix := false } toyMatcher (run flags0 (rxWrites ++ rxFlush) State.init) mCpu
      (.atom (.rx kHost [97, 98, 99])) = .ok [0, 1] := by decide

/-- a forward entry with three containers: series 0, 65536, 131072 with value ids 10, 11, 12 -/
def threeContainers : List Container :=
  match buildFwdFile [(0, 0, 10), (0, 65536, 11), (0, 131072, 12)] with
  | (_, cs) :: _ => cs
  | [] => []

/-- **forward-lut-third-container.** `GetSeriesAndTagValue(2)` reads the value ids at offset
`lut[2] = card(container 1) = 1` instead of `card 0 + card 1 = 2`: series 131072 gets series 65536's
value id. The first two containers are read correctly; a cumulative table reads all three. -/
theorem lut_third_container :
    readContainer false threeContainers 2 = some [(0, 11)] ∧
    readContainer false threeContainers 1 = some [(0, 11)] ∧
    readContainer false threeContainers 0 = some [(0, 10)] ∧
    readContainer true threeContainers 2 = some [(0, 12)] := by decide

/-- the same through group-by on a state whose forward file holds the three containers -/
def lutState : State :=
  { schema := [((mCpu, kHost), 0)], keySeq := 1, valSeq := 13,
    series := [((mCpu, [(kHost, [97])]), 0), ((mCpu, [(kHost, [98])]), 65536), ((mCpu, [(kHost, [99])]), 131072)],
    written := [(mCpu, 0, [(kHost, [97])]), (mCpu, 65536, [(kHost, [98])]), (mCpu, 131072, [(kHost, [99])])],
    dict := { l0 := [[(0, [97], 10), (0, [98], 11), (0, [99], 12)]] },
    inv := { l0 := [[(10, 0), (11, 65536), (12, 131072)]] },
    fwd := { l0 := [buildFwdFile [(0, 0, 10), (0, 65536, 11), (0, 131072, 12)]] } }

theorem lut_groupby_wrong_value :
    groupBy flags0 lutState mCpu [kHost] [131072] = .ok [(131072, [(11, some [98])])] ∧
    groupBy { flags0 with lutCumulative := true } lutState mCpu [kHost] [131072] = .ok [(131072, [(12, some [99])])] := by
  decide

/-- the state in which `invertedIndex.flush` would be if it detached `immutable` at the START of the
flush (before the file is committed) instead of after `flusher.Close()`: the batch is in no table and
in no file -/
def detachedEarly : State :=
  let st := run flags0 [.write mCpu [(kHost, [97])], .place .prepareIndex, .place .invWrite] State.init
  { st with inv := { st.inv with imm := none } }

/-- **detach-before-commit.** With that order a query issued while the file is written — or after
the flush failed — misses every series of the batch (`host = 'a'` selects nothing although series 0
has it), whereas the current order answers `[0]` in the same phase. -/
theorem detach_before_commit_loses_postings :
    query flags0 anchoredMatcher detachedEarly mCpu (.atom (.eq kHost [97])) = .ok [] ∧
    query flags0 anchoredMatcher
      (run flags0 [.write mCpu [(kHost, [97])], .place .prepareIndex, .place .invWrite] State.init) mCpu
      (.atom (.eq kHost [97])) = .ok [0] ∧
    (Expr.atom (.eq kHost [97])).eval anchoredMatcher [(kHost, [97])] = true := by decide

/-- **parked-reader-misses-flushed-batch.** Read order "file snapshot first, memory tables later"
(`invMemFirst = false`): a query parked after it took the inverted family's snapshot while a
PrepareFlush + Flush of the index runs finds the batch neither in the old snapshot nor in the (now
cleared) immutable table: `host = 'a'` selects nothing although series 0 was written before the
query started. Reading the memory tables first finds it (in the table and again in the new file). -/
theorem snapshot_first_reader_misses_flushed_batch :
    let s1 := run flags0 [.write mCpu [(kHost, [97])]] State.init
    let s2 := run flags0 (placeOps [.prepareIndex, .flushIndex]) s1
    query flags0 anchoredMatcher
      (parkedState { dictScanMemFirst := false, invMemFirst := false, fwdMemFirst := false } .inverted s1 s2) mCpu
      (.atom (.eq kHost [97])) = .ok [] ∧
    query flags0 anchoredMatcher
      (parkedState { dictScanMemFirst := true, invMemFirst := true, fwdMemFirst := true } .inverted s1 s2) mCpu
      (.atom (.eq kHost [97])) = .ok [0, 0] ∧
    (Expr.atom (.eq kHost [97])).eval anchoredMatcher [(kHost, [97])] = true := by decide

/-- **truncated-block-count.** With `numBlocks = max 1 (len / bs)` (no rounding up) the loop writes
only `numBlocks * bs` keys: the lexicographically last `len % bs` values of the bucket are in no block,
and an equals lookup on one of them finds nothing. -/
theorem truncated_block_count_loses_tail :
    let p : DictPart := [(0, [97], 10), (0, [98], 11), (0, [99], 12)]
    let trunc := (List.range (max 1 (p.length / 2))).map (fun i => (p.drop (i * 2)).take 2)
    trunc.flatten = [(0, [97], 10), (0, [98], 11)] ∧ blocksFind trunc 0 [99] = none ∧
    blocksFind (blocksOf 2 p) 0 [99] = some 12 := by decide

/-- **purge-before-commit.** `Flush` purging the bucket cache BEFORE `flusher.Close()` (and not at the
snapshot swap): a lookup that takes the old snapshot and caches its bucket between the purge and the
swap leaves a stale bucket behind; after the completed flush the exact lookup of a flushed value
answers from it and finds nothing. -/
theorem purge_before_commit_leaves_stale_bucket :
    let s : KVStore := { imm := some [(0, [97], 5)] }
    let sched : List PStep := [.f .purge, .l (.take 0), .l (.add 0), .f .close, .f (.swap false)]
    sched ∈ merges [PStep.l (.take 0), PStep.l (.add 0)] ((flushOrder false).map PStep.f) ∧
    (sched.foldl pstep (s, {})).1.exactFind 0 [97] = none ∧
    (sched.foldl pstep (s, {})).1.snapFiles = [[(0, [97], 5)]] := by decide

/-- **level-order pairing.** Taking the ids of a trie in bulk in level order (by key length, as
`tree.Values()` does) and zipping them with the keys in iteration (lexicographic) order pairs `ab`
with the id of `b`. -/
theorem level_order_pairing_permutes :
    let t : List (Bytes × ValId) := [([97], 1), ([97, 98], 2), ([98], 3)]
    let levelIds : List ValId := [1, 3, 2]   -- a, b (length 1) then ab (length 2)
    ((trieIterate t).map (·.1)).zip levelIds = [([97], 1), ([97, 98], 3), ([98], 2)] ∧
    mergeTries [t] = [([97], 1), ([97, 98], 2), ([98], 3)] := by decide

/-- **parked-grouping / parked-collect.** Snapshot-first `GetGroupingContext`: parked across
PrepareFlush + Flush of the index, the only selected series is in no scanner (`ErrNotFound`);
snapshot-first `CollectKVs` parked across the metadata flush cannot name the value id. Memory first:
both are right. -/
theorem snapshot_first_grouping_misses_flushed_batch :
    let s1 := run flags0 [.write mCpu [(kHost, [97])]] State.init
    let si := run flags0 (placeOps [.prepareIndex, .flushIndex]) s1
    let sm := run flags0 (placeOps [.prepareMeta, .flushMeta]) s1
    let snapFirst : ReadOrder := { dictScanMemFirst := true, invMemFirst := true, fwdMemFirst := true, groupingMemFirst := false, collectMemFirst := false }
    let memFirst : ReadOrder := { dictScanMemFirst := true, invMemFirst := true, fwdMemFirst := true }
    groupBy flags0 (parkedState snapFirst .grouping s1 si) mCpu [kHost] [0] = .error .notFound ∧
    groupBy flags0 (parkedState memFirst .grouping s1 si) mCpu [kHost] [0] = .ok [(0, [(0, some [97])])] ∧
    groupBy flags0 (parkedState snapFirst .collect s1 sm) mCpu [kHost] [0] = .ok [(0, [(0, none)])] ∧
    groupBy flags0 (parkedState memFirst .collect s1 sm) mCpu [kHost] [0] = .ok [(0, [(0, some [97])])] := by decide

end Neg

end LinVerif.Props.C10
