/-
C04 (round 10) — the zone theorems of Props/C04Zone.lean without the hypothesis `ZoneOK`: C13's contract
is PROVED for daylight-saving zones given by one transition, generically over the transition
(Lemmas/C04DST.lean), and the target-family theorems are instantiated with it. Concrete rule sets:
America/New_York around 2024-11-03 (fall back, a 25-hour day) and Europe/Berlin around 2024-03-31
(spring forward, a 23-hour day; given as a transition table, the driver's `Zone.ofTransitions`).
-/
import LinVerif.Lemmas.C04DST
import LinVerif.Props.C04Zone

namespace LinVerif.Props.C04
open LinVerif.Rollup LinVerif.Calendar
open LinVerif.Interval (Zone)
open LinVerif.Lemmas.C13 (ZoneOK HourAligned localDay midnightOf monthStartDay nextMonthStartDay)
open LinVerif.Lemmas.C04 (TransOK)

/-- Every zone with one clock change `(at_, before → after)` whose wall clock just before and just after
the change lies strictly inside one local day `d` and that moves by whole hours satisfies C13's contract
(`mono`, `floor`, `round`) and has local days of a whole number of hours — for ALL offsets and transition
instants; both as `Zone.oneTransition` and as the transition table `Zone.ofTransitions before [(at_, after)]`
the driver builds. -/
theorem zone_ok_one_transition (before after at_ d : Int) (h : TransOK before after at_ d) :
    (ZoneOK (Zone.oneTransition before after at_) ∧ HourAligned (Zone.oneTransition before after at_))
    ∧ (ZoneOK (Zone.ofTransitions before [(at_, after)]) ∧ HourAligned (Zone.ofTransitions before [(at_, after)])) :=
  ⟨LinVerif.Lemmas.C04.oneTransition_ok before after at_ d h,
   LinVerif.Lemmas.C04.ofTransitions_one_ok before after at_ d h⟩

/-- the length of the local days of such a zone: 24 h, except the day of the change, which has
`24 h − (after − before)` -/
theorem day_lengths_one_transition (before after at_ d : Int) (h : TransOK before after at_ d) (n : Int) :
    midnightOf (Zone.oneTransition before after at_) (n + 1) - midnightOf (Zone.oneTransition before after at_) n =
      if n = d then (86400 - (after - before)) * 1000 else 86400000 := by
  rw [LinVerif.Lemmas.C04.one_midnight _ _ _ d h, LinVerif.Lemmas.C04.one_midnight _ _ _ d h]
  by_cases h1 : n ≤ d <;> by_cases h2 : n + 1 ≤ d <;> by_cases h3 : n = d <;>
    simp only [h1, h2, h3, if_true, if_false] <;> omega

/-- America/New_York, 2024-11-03 06:00:00Z: EDT (−4 h) → EST (−5 h); local day 20030 = 2024-11-03 -/
theorem newYorkFall2024_transOK : TransOK (-14400) (-18000) 1730613600 20030 := by
  constructor <;> decide

/-- Europe/Berlin, 2024-03-31 01:00:00Z: CET (+1 h) → CEST (+2 h); local day 19813 = 2024-03-31 -/
theorem berlinSpring2024_transOK : TransOK 3600 7200 1711846800 19813 := by
  constructor <;> decide

theorem newYorkFall2024_zoneOK : ZoneOK Zone.newYorkFall2024 ∧ HourAligned Zone.newYorkFall2024 :=
  (zone_ok_one_transition _ _ _ _ newYorkFall2024_transOK).1

/-- the rollup's month-type target family under a one-transition DST zone, with NO contract hypothesis:
for every day `n` (the day of 23 or 25 hours included), every hour family `f` that starts inside it, every
offset `x` inside the hour: the target calculator applied to the timestamp gives exactly the (segment,
family, family start) the rollup located; the family starts at the local midnight of day `n`, is named by
`n`'s day of month and its window contains the timestamp. -/
theorem target_family_contains_timestamps_month_dst (before after at_ d : Int) (h : TransOK before after at_ d)
    (src tgt n f x : Int) (hs : itype src = .day) (ht : itype tgt = .month) :
    let z := Zone.ofTransitions before [(at_, after)]
    0 ≤ midnightOf z n → 0 ≤ f → midnightOf z n + f * 3600000 < midnightOf z (n + 1) → (0 ≤ x ∧ x < 3600000) →
    let l := locateZ true z src tgt (segOfDayZ z n) f
    let ts := l.srcFamStart + x
    placeOfTsZ true z tgt ts = (l.tSegTime, l.tFamily, l.tFamStart, midnightOf z (n + 1) - 1) ∧
    l.tFamStart = midnightOf z n ∧ l.tFamily = (civilFromDays n).2.2 ∧
    l.tFamStart ≤ ts ∧ ts ≤ midnightOf z (n + 1) - 1 := by
  intro z hn h0 hin hx
  obtain ⟨hz, ha⟩ := (zone_ok_one_transition before after at_ d h).2
  exact target_family_contains_timestamps_month z hz ha src tgt n f x hs ht hn h0 hin hx

/-- the same for a year-type target -/
theorem target_family_contains_timestamps_year_dst (before after at_ d : Int) (h : TransOK before after at_ d)
    (src tgt n f x : Int) (hs : itype src = .day) (ht : itype tgt = .year) :
    let z := Zone.ofTransitions before [(at_, after)]
    0 ≤ midnightOf z n → 0 ≤ f → midnightOf z n + f * 3600000 < midnightOf z (n + 1) → (0 ≤ x ∧ x < 3600000) →
    let l := locateZ true z src tgt (segOfDayZ z n) f
    let ts := l.srcFamStart + x
    placeOfTsZ true z tgt ts
      = (l.tSegTime, l.tFamily, l.tFamStart, midnightOf z (nextMonthStartDay n) - 1) ∧
    l.tFamStart = midnightOf z (monthStartDay n) ∧ l.tFamily = (civilFromDays n).2.1 ∧
    l.tFamStart ≤ ts ∧ ts ≤ midnightOf z (nextMonthStartDay n) - 1 := by
  intro z hn h0 hin hx
  obtain ⟨hz, ha⟩ := (zone_ok_one_transition before after at_ d h).2
  exact target_family_contains_timestamps_year z hz ha src tgt n f x hs ht hn h0 hin hx

/-! ## non-vacuity -/

/-- 2024-11-03 in New York has 25 hours, 2024-03-31 in Berlin 23, their neighbours 24 -/
example :
    midnightOf Zone.newYorkFall2024 20031 - midnightOf Zone.newYorkFall2024 20030 = 25 * 3600000 ∧
    midnightOf Zone.newYorkFall2024 20030 - midnightOf Zone.newYorkFall2024 20029 = 24 * 3600000 ∧
    midnightOf (Zone.oneTransition 3600 7200 1711846800) 19814 - midnightOf (Zone.oneTransition 3600 7200 1711846800) 19813
      = 23 * 3600000 := by
  refine ⟨?_, ?_, ?_⟩
  · have := day_lengths_one_transition _ _ _ _ newYorkFall2024_transOK 20030
    simpa [Zone.newYorkFall2024] using this
  · have := day_lengths_one_transition _ _ _ _ newYorkFall2024_transOK 20029
    simpa [Zone.newYorkFall2024] using this
  · have := day_lengths_one_transition _ _ _ _ berlinSpring2024_transOK 19813
    simpa using this

end LinVerif.Props.C04
