/-
Property C08 — Replication: a follower's log is a gap-free, byte-identical copy of the leader's.

All theorems quantify over EVERY event sequence `evs : List Ev` of the model
(`LinVerif.Replication.run cfg evs`): a leader with TWO followers; leader appends interleaved with
replica steps of either follower carrying any connection fault (client creation, get-ack rpc, reset
rpc, stream creation, request lost, response lost) or a storage fault on the follower (its Put fails),
adding a follower to the partition at any time, follower restarts, a follower that lost its log,
snapshots of the leader's partition directory and restores of ANY saved image (= the leader loses its
log tail; older after newer included), leader restarts, follower offline/online notifications, leader
log Sync/GC, the expiry check that stops drained groups and destroys a drained partition;
and over both shapes `cfg` of the comparison that guards `ResetAppendIndex`.
Theorems are stated for follower A (fields without suffix); the model is symmetric under `St.swap`
and the invariant is proved for both followers (`no_holes_b`, `agreement_b`, ... are the B instances).
Helper lemmas: `LinVerif/Lemmas/C08Log.lean`, `C08Inv.lean`, `C08Step.lean`, `C08Run.lean`, `C08Live.lean`, `C08Sched.lean`, `C08Tok.lean`, `C08Plan.lean`.
-/
import LinVerif.Lemmas.C08Run
import LinVerif.Lemmas.C08Live
import LinVerif.Lemmas.C08Sched
import LinVerif.Lemmas.C08Tok
import LinVerif.Lemmas.C08Plan
import LinVerif.Lemmas.C08Wal
import LinVerif.Generated.C08

namespace LinVerif.Props.C08
open LinVerif.Replication

/-! ## 1. no holes -/

/-- The follower's log never has holes: every position it claims (`ack < i ≤ appended`) is readable. -/
theorem no_holes (cfg : Cfg) (evs : List Ev) (i : Int) :
    (run cfg evs).F.ack < i → i ≤ (run cfg evs).F.app → ∃ m, (run cfg evs).F.get i = some m :=
  (full_run cfg evs).a.fint.holes i

theorem no_holes_b (cfg : Cfg) (evs : List Ev) (i : Int) :
    (run cfg evs).F2.ack < i → i ≤ (run cfg evs).F2.app → ∃ m, (run cfg evs).F2.get i = some m :=
  (full_run cfg evs).b.fint.holes i

/-- The same for the leader's log (this is what makes `IgnoreMessage` unreachable). -/
theorem leader_no_holes (cfg : Cfg) (evs : List Ev) (i : Int) :
    (run cfg evs).L.ack < i → i ≤ (run cfg evs).L.app → ∃ m, (run cfg evs).L.get i = some m :=
  (full_run cfg evs).a.lint.holes i

/-! ## 2. agreement -/

/-- Histories in which the leader never loses its log tail: at every moment, a position held
by both logs holds the same bytes. -/
theorem agreement (cfg : Cfg) (evs : List Ev) (h : NoLoss evs) (i : Int) (m m' : Msg) :
    (run cfg evs).L.get i = some m → (run cfg evs).F.get i = some m' → m = m' :=
  fun hl hf => agreement_of_g (nlf_run cfg evs h).a.g hl hf

theorem agreement_b (cfg : Cfg) (evs : List Ev) (h : NoLoss evs) (i : Int) (m m' : Msg) :
    (run cfg evs).L.get i = some m → (run cfg evs).F2.get i = some m' → m = m' :=
  fun hl hf => agreement_of_g (nlf_run cfg evs h).b.g hl hf

/-- "A message the leader stores at position i is stored by a follower at position i or not at
all" (no tail loss): whatever the follower holds at `i` is what the leader's pages hold at `i`,
even after the leader has acknowledged/GC'ed past `i`; the follower is never ahead of the leader,
and its log never starts beyond the leader's ack for it. -/
theorem stored_at_same_position_or_not_at_all (cfg : Cfg) (evs : List Ev) (h : NoLoss evs) (i : Int) (m' : Msg) :
    (run cfg evs).F.get i = some m' →
      i ≤ (run cfg evs).L.app ∧ lookup i (run cfg evs).L.store = some m' :=
  (nlf_run cfg evs h).a.g i m'

theorem follower_base_within_ack (cfg : Cfg) (evs : List Ev) (h : NoLoss evs) :
    (run cfg evs).F.ack ≤ (run cfg evs).gack ∧ (run cfg evs).F.app ≤ (run cfg evs).L.app :=
  ⟨(nlf_run cfg evs h).a.f_ack, (nlf_run cfg evs h).a.f_app⟩

/-- All histories, including leader tail loss, at every moment: the positions the leader has
handed out to this follower and not yet seen acknowledged (`gack < i ≤ consumed`) agree. -/
theorem agreement_inflight (cfg : Cfg) (evs : List Ev) (i : Int) (m m' : Msg) :
    (run cfg evs).gack < i → i ≤ (run cfg evs).cons →
    (run cfg evs).L.get i = some m → (run cfg evs).F.get i = some m' → m = m' :=
  (full_run cfg evs).a.agr i m m'

/-- All histories, including leader tail loss: whenever the channel is synced (leader state
`ready` and the stream really there) and has not been disturbed by the other follower's handshake,
every position ABOVE the follower group's ack that both hold holds the same bytes.

Full-strength statement (no `gack < i`): "whenever the channel is synced, every position held by
both holds the same bytes" — FALSE of the code, see `Neg.agreement_synced_full_fails`. -/
theorem agreement_leader_loss_partial (cfg : Cfg) (evs : List Ev) (hs : Synced (run cfg evs))
    (hd : (run cfg evs).dz = false) (i : Int) (m m' : Msg) :
    (run cfg evs).gack < i →
    (run cfg evs).L.get i = some m → (run cfg evs).F.get i = some m' → m = m' := by
  intro hg hl hf
  have hb := full_run cfg evs
  have hc := hb.a.sync hs.1 hd (by rw [hs.2]; intro e; cases e)
  have hi := (get_some hf).2.1
  exact hb.a.agr i m m' hg (by omega) hl hf

/-! ## 3. acknowledgements are sound -/

/-- Whenever an event of follower A moves A's group ack, the new ack is a position the follower has
appended (covers `SetAckIndex` in Replica, in the handshake and in IgnoreMessage). -/
theorem ack_sound (cfg : Cfg) (evs : List Ev) (e : Ev) (he : e.who = some .a) (hg : (run cfg evs).gone = false)
    (hst : (run cfg evs).stopped = false) :
    (next cfg (run cfg evs) e).1.gack ≠ (run cfg evs).gack →
    (next cfg (run cfg evs) e).1.gack ≤ (next cfg (run cfg evs) e).1.F.app :=
  ((next_spec cfg _ e (full_run cfg evs)).pa he hg).ackok hst

/-- Adding a follower (or re-adding one whose group IsExpire had stopped) never makes the leader treat
a position it still holds as acknowledged: the group's ack stays, or it is at most the queue's own
acknowledged sequence. A follower that was never there starts exactly at the queue's ack. -/
theorem join_sound (cfg : Cfg) (evs : List Ev) (e : Ev) (he : e.who = some .a) (hg : (run cfg evs).gone = false)
    (hst : (run cfg evs).stopped = true) :
    (next cfg (run cfg evs) e).1.gack = (run cfg evs).gack ∨
    (next cfg (run cfg evs) e).1.gack ≤ (next cfg (run cfg evs) e).1.L.ack :=
  ((next_spec cfg _ e (full_run cfg evs)).pa he hg).joinok hst

/-- Leader-wide events other than restarts (append, snapshot, Sync/GC, expiry) never move a group's ack
nor touch a follower's log. -/
theorem ack_sound_leader_events (cfg : Cfg) (evs : List Ev) (e : Ev) (he : e.who = none) (hr : e.isRestart = false) :
    (next cfg (run cfg evs) e).1.gack = (run cfg evs).gack ∧ (next cfg (run cfg evs) e).1.F = (run cfg evs).F :=
  ⟨((next_spec cfg _ e (full_run cfg evs)).glob he hr).1, ((next_spec cfg _ e (full_run cfg evs)).glob he hr).2.2.1⟩

/-- Histories without leader tail loss: the OTHER follower's events never move A's group.
With tail loss this is false (`Neg.other_follower_moves_group`): `ResetAppendIndex` moves every group. -/
theorem ack_sound_other_partial (cfg : Cfg) (evs : List Ev) (h : NoLoss evs) (e : Ev) (he : e.who = some .b)
    (hg : (run cfg evs).gone = false) :
    (next cfg (run cfg evs) e).1.gack = (run cfg evs).gack ∧ (next cfg (run cfg evs) e).1.cons = (run cfg evs).cons := by
  have hp := (next_spec cfg _ e (full_run cfg evs)).pb he hg
  have hpl := frame_plain_of_nl hp.frame (nlf_swap (nlf_run cfg evs h)).a
  exact ⟨hpl.2.2.2.1, hpl.2.2.1⟩

/-- Histories without leader tail loss: every position an event of A newly acknowledges is held by
the follower at that moment. -/
theorem ack_covers (cfg : Cfg) (evs : List Ev) (h : NoLoss evs) (e : Ev) (he : e.who = some .a)
    (hg : (run cfg evs).gone = false) (hst : (run cfg evs).stopped = false) (i : Int) :
    (run cfg evs).gack < i → i ≤ (next cfg (run cfg evs) e).1.gack →
    ∃ m, (next cfg (run cfg evs) e).1.F.get i = some m := by
  intro h1 h2
  have hn := next_spec cfg _ e (full_run cfg evs)
  have hp := hn.pa he hg
  have hfa := (nlf_run cfg evs h).a.f_ack
  have hge := (full_run cfg evs).a.lint.gack_ge
  apply hn.full.a.fint.holes i
  · rcases hp.fack with x | x | x <;> omega
  · exact hp.cover hst i h1 h2

/-- A synced, undisturbed channel never treats a position as acknowledged that the follower has not appended. -/
theorem ack_sound_synced (cfg : Cfg) (evs : List Ev) (hs : Synced (run cfg evs)) (hd : (run cfg evs).dz = false) :
    (run cfg evs).gack ≤ (run cfg evs).F.app := by
  have hb := full_run cfg evs
  have hc := hb.a.sync hs.1 hd (by rw [hs.2]; intro e; cases e)
  have := hb.a.lint.gack_cons
  omega

/-- Histories without leader tail loss and without follower Put faults: the same without the ghost hypothesis. -/
theorem ack_sound_synced_noloss (cfg : Cfg) (evs : List Ev) (h : NoLoss evs) (hp : NoPutFault evs) (hs : Synced (run cfg evs)) :
    (run cfg evs).gack ≤ (run cfg evs).F.app :=
  ack_sound_synced cfg evs hs (dzf_run cfg evs h hp).dza

/-- A leader restart never moves the ack of a registered group (the re-open lift is a no-op). -/
theorem restart_keeps_ack (cfg : Cfg) (evs : List Ev) (hst : (run cfg evs).stopped = false)
    (hg : (run cfg evs).gone = false) :
    (next cfg (run cfg evs) .lrestart).1.gack = (run cfg evs).gack := by
  have ha := (full_run cfg evs).a.ackg hst
  have hbn : (run cfg evs).born = true := by
    cases hb : (run cfg evs).born with
    | true => rfl
    | false => have := ((full_run cfg evs).ubA hb).1; rw [hst] at this; cases this
  have e : (next cfg (run cfg evs) .lrestart).1 = reopenLeader (run cfg evs) (run cfg evs).image := by
    simp [next, hg, Ev.who]
  rw [e]
  show (if (run cfg evs).born then liftAck (run cfg evs).gack (run cfg evs).L.ack else -1) = _
  rw [hbn]
  simp only [if_true]
  unfold liftAck
  split <;> omega

/-- The leader never discards a position a follower has not acknowledged: the expiry check stops a
follower's group (and reports the partition expired) only when the group's ack has reached the
leader's appended index. -/
theorem expire_safe (cfg : Cfg) (evs : List Ev) (hg : (run cfg evs).gone = false) :
    ((next cfg (run cfg evs) .expire).1.stopped = true → (run cfg evs).stopped = false →
      (run cfg evs).L.app ≤ (run cfg evs).gack) ∧
    ((next cfg (run cfg evs) .expire).1.stopped2 = true → (run cfg evs).stopped2 = false →
      (run cfg evs).L.app ≤ (run cfg evs).gack2) ∧
    ((next cfg (run cfg evs) .expire).2 = .expired →
      ((run cfg evs).stopped = false → (run cfg evs).L.app ≤ (run cfg evs).gack) ∧
      ((run cfg evs).stopped2 = false → (run cfg evs).L.app ≤ (run cfg evs).gack2)) := by
  have hp := (next_spec cfg _ .expire (full_run cfg evs)).exp rfl hg
  exact ⟨hp.stopA_ok, hp.stopB_ok, hp.exp_ok⟩

/-! ## 4. resynchronisation -/

/-- A successful handshake (IsReady on a non-ready channel) leaves the channel `ready` with the
replica index at the follower's next index, which is the first position the follower lacks and
the leader still holds for this follower: `max (follower.next, groupAck + 1)` of the state before. -/
theorem resync_handshake (cfg : Cfg) (evs : List Ev) (f : Fault)
    (hn : (run cfg evs).chan ≠ .ready) (hok : (isReady cfg (run cfg evs) f).2 = true) :
    (isReady cfg (run cfg evs) f).1.chan = .ready ∧
    (isReady cfg (run cfg evs) f).1.cons + 1 = (isReady cfg (run cfg evs) f).1.F.app + 1 ∧
    (isReady cfg (run cfg evs) f).1.cons + 1 = max ((run cfg evs).F.app + 1) ((run cfg evs).gack + 1) := by
  have hb := full_run cfg evs
  unfold isReady at hok ⊢
  rw [if_neg hn] at hok ⊢
  split at hok
  · simp at hok
  · rename_i hl
    rw [if_neg hl]
    have hs := handshake_spec cfg (run cfg evs) f hb.a
    have h1 := hs.ok_ready hok
    have h2 := hs.ok_idx hok
    refine ⟨h1.1, by omega, ?_⟩
    rw [h2]
    split <;> omega

/-- On a synced, undisturbed channel the next index the leader sends is exactly the follower's next index. -/
theorem resync_sends_next (cfg : Cfg) (evs : List Ev) (hs : Synced (run cfg evs)) (hd : (run cfg evs).dz = false) :
    (run cfg evs).cons + 1 = (run cfg evs).F.app + 1 := by
  have hb := full_run cfg evs
  have hc := hb.a.sync hs.1 hd (by rw [hs.2]; intro e; cases e)
  omega

/-- No event of any history ever ends in IgnoreMessage; and no event of follower A ends in the
"answer ≠ sent index" branch of Replica ("TODO: need reset ack sequence?") unless the other
follower's handshake has moved A's group while A's channel was ready, or a Put on the follower failed
earlier and no handshake has happened since (ghost `dz`), or the follower's partition was closed under the
open stream (`closed`: every send is answered with ErrPartitionClosed), or this very event carries a follower Put fault.
Full-strength (no `dz`): false — two followers + leader tail loss, `Neg.mismatch_reachable`; a follower Put
fault, `Neg.put_fault_wedges_channel`. -/
theorem resync_unreachable_mismatch_partial (cfg : Cfg) (evs : List Ev) (e : Ev) :
    (next cfg (run cfg evs) e).2 ≠ .ignored ∧
    (e.who = some .a → (run cfg evs).dz = false → (run cfg evs).closed = false → e.putFault = false →
      (next cfg (run cfg evs) e).2 ≠ .mismatch) := by
  have hn := next_spec cfg _ e (full_run cfg evs)
  refine ⟨hn.ignored, fun he hd hcl hp => ?_⟩
  by_cases hg : (run cfg evs).gone = false
  · exact (hn.pa he hg).label.2 hd hcl hp
  · have := hn.goneKeep (by simpa using hg)
    rw [this.2]; simp

/-- Histories without leader tail loss and without follower Put faults: both branches are unreachable, for either follower. -/
theorem resync_unreachable_mismatch (cfg : Cfg) (evs : List Ev) (h : NoLoss evs) (hpf : NoPutFault evs) (e : Ev)
    (hpe : e.putFault = false) :
    (next cfg (run cfg evs) e).2 ≠ .ignored ∧ (next cfg (run cfg evs) e).2 ≠ .mismatch := by
  have hn := next_spec cfg _ e (full_run cfg evs)
  have hnl := dzf_run cfg evs h hpf
  refine ⟨hn.ignored, ?_⟩
  by_cases hg : (run cfg evs).gone = false
  · cases hw : e.who with
    | none =>
      cases e <;> simp [Ev.who] at hw
      all_goals (simp only [next, hg, Ev.who, Bool.false_eq_true, if_false]; try (split <;> simp))
      all_goals (try simp)
      · have := (expire_spec _ (full_run cfg evs)).lbl
        rcases this with x | x <;> rw [x] <;> simp
    | some w =>
      cases w with
      | a => exact (hn.pa hw hg).label.2 hnl.dza hnl.cla hpe
      | b => exact (hn.pb hw hg).label.2 hnl.dzb hnl.clb hpe
  · have := hn.goneKeep (by simpa using hg)
    rw [this.2]; simp

theorem next_step_a (cfg : Cfg) (s : St) (f : Fault) (hg : s.gone = false) (hst : s.stopped = false)
    (hs : s.parked = false) : next cfg s (.step .a f) = replicaStep cfg s f := by
  simp [next, hg, Ev.who, peerEv, hst, hs]

/-- Progress of a synced, undisturbed channel: with data pending and no fault, one step appends the
next leader message at the follower's next position, byte-identical, and acknowledges it. -/
theorem resync_progress (cfg : Cfg) (evs : List Ev) (hs : Synced (run cfg evs)) (hd : (run cfg evs).dz = false)
    (hcl : (run cfg evs).closed = false) (hg : (run cfg evs).gone = false) (hst : (run cfg evs).stopped = false)
    (hsusp : (run cfg evs).parked = false) (hp : (run cfg evs).F.app < (run cfg evs).L.app) :
    (next cfg (run cfg evs) (.step .a .none)).1.F.app = (run cfg evs).F.app + 1 ∧
    (next cfg (run cfg evs) (.step .a .none)).1.gack = (run cfg evs).F.app + 1 ∧
    (next cfg (run cfg evs) (.step .a .none)).1.F.get ((run cfg evs).F.app + 1)
      = (run cfg evs).L.get ((run cfg evs).F.app + 1) ∧
    Synced (next cfg (run cfg evs) (.step .a .none)).1 := by
  rw [next_step_a cfg _ _ hg hst hsusp]
  have h := replicaStep_none_progress cfg _ (full_run cfg evs).a hst hs hd hcl
  rw [if_pos hp] at h
  exact ⟨h.2.2.2.1, (h.2.2.2.2 hp).1, (h.2.2.2.2 hp).2, h.1⟩

/-- Resynchronisation needs no operator: from ANY reachable state whose channel is not ready
(after any fault), with the follower live and the loop not parked, one fault-free
`partition.replica` call ends with the channel synced. -/
theorem resync_one_step (cfg : Cfg) (evs : List Ev) (hn : (run cfg evs).chan ≠ .ready)
    (hg : (run cfg evs).gone = false) (hst : (run cfg evs).stopped = false)
    (hl : (run cfg evs).live = true) (hs : (run cfg evs).parked = false) :
    Synced (next cfg (run cfg evs) (.step .a .none)).1 := by
  rw [next_step_a cfg _ _ hg hst hs]
  exact replicaStep_none_syncs cfg _ (full_run cfg evs).a hst hn hl

/-- The same for a loop parked on an offline follower: the online notification alone resumes it
and, without a further fault, the channel ends synced. -/
theorem resync_online (cfg : Cfg) (evs : List Ev) (hn : (run cfg evs).chan ≠ .ready)
    (hg : (run cfg evs).gone = false) (hst : (run cfg evs).stopped = false)
    (hs : (run cfg evs).susp = true) :
    Synced (next cfg (run cfg evs) (.online .a .none)).1 := by
  simp only [next, hg, Ev.who, peerEv, onlineEv, hst, hs, Bool.false_eq_true, if_false, if_true]
  exact replicaStep_none_syncs cfg _ (invA_mk (full_run cfg evs).a rfl rfl rfl rfl rfl rfl rfl rfl hst.symm) rfl hn rfl

/-- A synced channel stays synced under fault-free steps: unconditionally in the tree as it is (where a
channel that is out of step stays `ready` and wedged); in the repaired shape of Replica's else-branch
when the channel is in step (`dz = false`) and the follower's partition is open — otherwise the mismatch forces a handshake, see
`resync_mismatch_forces_handshake`. -/
theorem resync_stays_synced (cfg : Cfg) (evs : List Ev) (h : Synced (run cfg evs))
    (hm : cfg.mfail = false ∨ ((run cfg evs).dz = false ∧ (run cfg evs).closed = false))
    (hg : (run cfg evs).gone = false) (hst : (run cfg evs).stopped = false) (hs : (run cfg evs).parked = false) :
    Synced (next cfg (run cfg evs) (.step .a .none)).1 := by
  rw [next_step_a cfg _ _ hg hst hs]
  have hb := full_run cfg evs
  refine replicaStep_none_stays cfg _ hb.a hst h ?_
  rcases hm with hm | hm
  · exact Or.inl hm
  · exact Or.inr ⟨hb.a.sync h.1 hm.1 (by rw [h.2]; intro e; cases e), hm.2⟩

/-- Repaired shape of Replica's else-branch: an event of follower A that ends in the mismatched-answer
branch leaves the channel in `failure`, so the next replica call runs the handshake (`resync_one_step`). -/
theorem resync_mismatch_forces_handshake (cfg : Cfg) (hm : cfg.mfail = true) (evs : List Ev) (f : Fault)
    (hg : (run cfg evs).gone = false) (hst : (run cfg evs).stopped = false) (hs : (run cfg evs).parked = false)
    (ho : (next cfg (run cfg evs) (.step .a f)).2 = .mismatch) :
    (next cfg (run cfg evs) (.step .a f)).1.chan = .failure := by
  rw [next_step_a cfg _ _ hg hst hs] at ho ⊢
  exact replicaStep_mismatch_fails cfg _ f hm ho

/-- Repaired shape: a storage fault on the follower (its Put fails while the stream is healthy) no longer
wedges the channel. From a synced, in-step channel with data pending: the call with the Put fault and
ONE further fault-free call end synced, with the refused message re-sent, appended byte-identical and
acknowledged — no stream fault needed. (In the tree as it is this is false: `Neg.put_fault_wedges_channel`.) -/
theorem resync_after_put_fault (cfg : Cfg) (hm : cfg.mfail = true) (evs : List Ev) (hsy : Synced (run cfg evs))
    (hd : (run cfg evs).dz = false) (hcl : (run cfg evs).closed = false) (hg : (run cfg evs).gone = false)
    (hst : (run cfg evs).stopped = false)
    (hl : (run cfg evs).live = true) (hs : (run cfg evs).susp = false) (hpk : (run cfg evs).parked = false)
    (hp : (run cfg evs).F.app < (run cfg evs).L.app) :
    Synced (run cfg (evs ++ [.step .a .put, .step .a .none])) ∧
    (run cfg (evs ++ [.step .a .put, .step .a .none])).F.app = (run cfg evs).F.app + 1 ∧
    (run cfg (evs ++ [.step .a .put, .step .a .none])).gack = (run cfg evs).F.app + 1 ∧
    (run cfg (evs ++ [.step .a .put, .step .a .none])).F.get ((run cfg evs).F.app + 1) =
      (run cfg evs).L.get ((run cfg evs).F.app + 1) := by
  have hb := full_run cfg evs
  have hf := replicaStep_flags cfg (run cfg evs) .put hl hs
  have hfp := replicaStep_parked cfg (run cfg evs) .put hl hpk hs
  have e1 : run cfg (evs ++ [.step .a .put, .step .a .none]) =
      (replicaStep cfg (replicaStep cfg (run cfg evs) .put).1 .none).1 := by
    have : evs ++ [Ev.step .a .put, Ev.step .a .none] = (evs ++ [Ev.step .a .put]) ++ [Ev.step .a .none] := by simp
    rw [this, run_snoc, run_snoc, next_step_a cfg _ _ hg hst hpk,
      next_step_a cfg _ _ (hf.2.2.2.trans hg) (hf.2.2.1.trans hst) hfp.1]
  rw [e1]
  exact replicaStep_after_put_fault cfg _ hb.a hst hsy hd hcl hp hl hm

/-- Liveness as a post-condition, repeated-fault case: after ANY history — any number and mix of
faults — two consecutive fault-free replica calls of a live, non-parked, registered follower end with
the channel synced; the only exception is a channel that is `ready` on a dead stream with nothing
to send (nothing is pending then, and the first later message makes the next call fail and the one
after that resynchronise). -/
theorem resync_two_steps (cfg : Cfg) (evs : List Ev)
    (hg : (run cfg evs).gone = false) (hst : (run cfg evs).stopped = false)
    (hl : (run cfg evs).live = true) (hs : (run cfg evs).susp = false) (hpk : (run cfg evs).parked = false) :
    Synced (run cfg (evs ++ [.step .a .none, .step .a .none])) ∨
    ((run cfg evs).chan = .ready ∧ (run cfg evs).stream = .broken ∧ (run cfg evs).L.app ≤ (run cfg evs).cons) := by
  have hb := full_run cfg evs
  have hf := replicaStep_flags cfg (run cfg evs) .none hl hs
  have e1 : run cfg (evs ++ [.step .a .none, .step .a .none]) =
      (replicaStep cfg (replicaStep cfg (run cfg evs) .none).1 .none).1 := by
    have : evs ++ [Ev.step .a .none, Ev.step .a .none] = (evs ++ [Ev.step .a .none]) ++ [Ev.step .a .none] := by simp
    rw [this, run_snoc, run_snoc, next_step_a cfg _ _ hg hst hpk,
      next_step_a cfg _ _ (hf.2.2.2.trans hg) (hf.2.2.1.trans hst) (replicaStep_parked cfg (run cfg evs) .none hl hpk hs).1]
  rw [e1]
  exact two_steps_sync cfg _ hb.a hb.bndA hst hl hs

/-- Catch-up: from a synced, undisturbed channel, `k` fault-free steps bring the follower to
`min (appended + k, leader appended)` and the channel stays synced. -/
theorem resync_catch_up (cfg : Cfg) (evs : List Ev) (k : Nat) (hsy : Synced (run cfg evs))
    (hd : (run cfg evs).dz = false) (hcl : (run cfg evs).closed = false) (hg : (run cfg evs).gone = false) (hst : (run cfg evs).stopped = false)
    (hl : (run cfg evs).live = true) (hs : (run cfg evs).susp = false) (hpk : (run cfg evs).parked = false) :
    Synced (run cfg (evs ++ List.replicate k (.step .a .none))) ∧
    (run cfg (evs ++ List.replicate k (.step .a .none))).F.app =
      min ((run cfg evs).F.app + k) (max (run cfg evs).F.app (run cfg evs).L.app) ∧
    (run cfg (evs ++ List.replicate k (.step .a .none))).L = (run cfg evs).L := by
  induction k generalizing evs with
  | zero =>
    have e0 : evs ++ List.replicate 0 (Ev.step .a .none) = evs := by simp
    rw [e0]
    exact ⟨hsy, by simp only [Int.natCast_zero, Int.add_zero]; omega, rfl⟩
  | succ k ih =>
    have hb := full_run cfg evs
    have hf := replicaStep_flags cfg (run cfg evs) .none hl hs
    have hp := replicaStep_none_progress cfg _ hb.a hst hsy hd hcl
    have e1 : run cfg (evs ++ [.step .a .none]) = (replicaStep cfg (run cfg evs) .none).1 := by
      rw [run_snoc, next_step_a cfg _ _ hg hst hpk]
    have hfp := replicaStep_parked cfg (run cfg evs) .none hl hpk hs
    have e2 : evs ++ List.replicate (k + 1) (Ev.step .a .none) = (evs ++ [Ev.step .a .none]) ++ List.replicate k (Ev.step .a .none) := by
      simp [List.replicate_succ]
    have := ih (evs ++ [.step .a .none]) (by rw [e1]; exact hp.1) (by rw [e1]; exact hp.2.1)
      (by rw [e1]; exact (replicaStep_spec cfg _ .none hb.a hst).cl hcl)
      (by rw [e1]; exact hf.2.2.2.trans hg) (by rw [e1]; exact hf.2.2.1.trans hst) (by rw [e1]; exact hf.1) (by rw [e1]; exact hf.2.1) (by rw [e1]; exact hfp.1)
    rw [e2]
    refine ⟨this.1, ?_, ?_⟩
    · rw [this.2.1, e1, hp.2.2.2.1, hp.2.2.1]
      split <;> omega
    · rw [this.2.2, e1, hp.2.2.1]

/-- The wake-up is never lost (plain blocking send in `handleNodeStateChangeEvent`, `cfg.wake`, or the token
shape `cfg.tok`): in every reachable
state a loop that is blocked in — or on its way into — `<-r.suspend` still has its suspend flag set, so
the next online notification wins the CAS and hands the loop its token. (With a non-blocking send this
is false: `Neg.wakeup_lost_if_nonblocking`.) -/
theorem online_never_lost (cfg : Cfg) (hw : (cfg.tok || cfg.wake) = true) (evs : List Ev) :
    ((run cfg evs).parked = true → (run cfg evs).susp = true) ∧
    ((run cfg evs).parked2 = true → (run cfg evs).susp2 = true) :=
  ⟨(wk_run cfg hw evs).a, (wk_run cfg hw evs).b⟩

/-- ... hence a parked loop is always released by the online notification, and without a further fault
the channel ends synced -/
theorem resync_parked_released (cfg : Cfg) (hw : (cfg.tok || cfg.wake) = true) (evs : List Ev) (hp : (run cfg evs).parked = true)
    (hn : (run cfg evs).chan ≠ .ready) (hg : (run cfg evs).gone = false) (hst : (run cfg evs).stopped = false) :
    Synced (next cfg (run cfg evs) (.online .a .none)).1 ∧ (next cfg (run cfg evs) (.online .a .none)).1.parked = false := by
  have hs := (wk_run cfg hw evs).a hp
  simp only [next, hg, Ev.who, peerEv, onlineEv, hst, hs, Bool.false_eq_true, if_false, if_true]
  exact ⟨replicaStep_none_syncs cfg _ (invA_mk (full_run cfg evs).a rfl rfl rfl rfl rfl rfl rfl rfl hst.symm) rfl hn rfl,
    (replicaStep_parked cfg _ .none rfl rfl rfl).1⟩

/-- The online notification may land at ANY point after the loop has marked itself suspended — in
particular between `isSuspend.CompareAndSwap(false, true)` and the receive on `r.suspend` (event
`steponl`): the blocking send waits for the receive, the loop is released at once, re-runs IsReady and,
without a further fault, ends synced and not parked. -/
theorem resync_online_in_window (cfg : Cfg) (hw : (cfg.tok || cfg.wake) = true) (evs : List Ev)
    (hn : (run cfg evs).chan ≠ .ready) (hl : (run cfg evs).live = false) (hp : (run cfg evs).parked = false)
    (hg : (run cfg evs).gone = false) (hst : (run cfg evs).stopped = false) :
    Synced (next cfg (run cfg evs) (.steponl .a .none)).1 ∧ (next cfg (run cfg evs) (.steponl .a .none)).1.parked = false := by
  have hc : (run cfg evs).stopped = false ∧ (run cfg evs).parked = false ∧ (run cfg evs).chan ≠ .ready ∧ (run cfg evs).live = false :=
    ⟨hst, hp, hn, hl⟩
  simp only [next, hg, Ev.who, peerEv, Bool.false_eq_true, if_false]
  rw [if_pos hc]
  simp only [hw, if_true]
  refine ⟨replicaStep_none_syncs cfg _
      (invA_mk (invc_notready (ch' := .failure) (st' := (run cfg evs).stream) (dz' := (run cfg evs).dz) (full_run cfg evs).a (fun x => by cases x))
        rfl rfl rfl rfl rfl rfl rfl rfl) hst (fun x => by cases x) rfl, ?_⟩
  refine (replicaStep_parked cfg _ .none ?_ ?_ ?_).1
  · rfl
  · exact hp
  · rfl

/-! ### the token shape of the suspend / wake-up handshake (`cfg.tok`, candidate repair fixes/C08-suspend-token.patch) -/

/-- TOKEN SHAPE, every event sequence, both followers: a registered replicator's loop is parked ONLY WHILE ITS
FOLLOWER IS OFFLINE, and `isSuspend` is set exactly while the loop is parked. This is the statement the tree as
it is violates (`Neg.online_before_suspend_mark_parks`: parked ∧ live, nothing pending — known finding
`online-notification-before-suspend-mark-lost`); no hypothesis about where the online notification lands. -/
theorem token_parked_only_while_offline (cfg : Cfg) (ht : cfg.tok = true) (evs : List Ev) :
    ((run cfg evs).stopped = false → (run cfg evs).parked = true → (run cfg evs).live = false) ∧
    ((run cfg evs).stopped2 = false → (run cfg evs).parked2 = true → (run cfg evs).live2 = false) ∧
    (run cfg evs).susp = (run cfg evs).parked ∧ (run cfg evs).susp2 = (run cfg evs).parked2 :=
  ⟨(tk_run cfg ht evs).pla, (tk_run cfg ht evs).plb, (tk_run cfg ht evs).eqa, (tk_run cfg ht evs).eqb⟩

/-- TOKEN SHAPE: the online notification handled BETWEEN IsReady's liveness test and its
`isSuspend.CompareAndSwap(false, true)` (event `steppre`, the window of the known finding) releases the loop:
the handler's token is waiting when the loop reaches its receive; without a further fault the call ends synced
and not parked — after ANY history. -/
theorem token_online_before_mark_released (cfg : Cfg) (ht : cfg.tok = true) (evs : List Ev)
    (hn : (run cfg evs).chan ≠ .ready) (hl : (run cfg evs).live = false) (hp : (run cfg evs).parked = false)
    (hg : (run cfg evs).gone = false) (hst : (run cfg evs).stopped = false) :
    Synced (next cfg (run cfg evs) (.steppre .a .none)).1 ∧ (next cfg (run cfg evs) (.steppre .a .none)).1.parked = false := by
  have hc : (run cfg evs).stopped = false ∧ (run cfg evs).parked = false ∧ (run cfg evs).chan ≠ .ready ∧ (run cfg evs).live = false :=
    ⟨hst, hp, hn, hl⟩
  simp only [next, hg, Ev.who, peerEv, Bool.false_eq_true, if_false]
  rw [if_pos hc]
  simp only [ht, if_true]
  refine ⟨replicaStep_none_syncs cfg _
      (invA_mk (invc_notready (ch' := .failure) (st' := (run cfg evs).stream) (dz' := (run cfg evs).dz) (full_run cfg evs).a (fun x => by cases x))
        rfl rfl rfl rfl rfl rfl rfl rfl) hst (fun x => by cases x) rfl, ?_⟩
  refine (replicaStep_parked cfg _ .none ?_ ?_ ?_).1
  · rfl
  · exact hp
  · rfl

/-! ### leader restart goes through `partition.recovery`; a follower partition closed under the open stream -/

/-- `partition.recovery`: re-opening the leader's partition (restart, or restart on an older disk
image) gives EVERY follower whose group directory exists its replicator back — whether or not that
follower is online at that moment — in state `init` without a stream and not parked; a follower
without a group directory gets none. -/
theorem restart_rebuilds_channels (cfg : Cfg) (evs : List Ev) (hg : (run cfg evs).gone = false) :
    (next cfg (run cfg evs) .lrestart).1.stopped = !(run cfg evs).born ∧
    (next cfg (run cfg evs) .lrestart).1.stopped2 = !(run cfg evs).born2 ∧
    (next cfg (run cfg evs) .lrestart).1.chan = .init ∧ (next cfg (run cfg evs) .lrestart).1.chan2 = .init ∧
    (next cfg (run cfg evs) .lrestart).1.parked = false ∧ (next cfg (run cfg evs) .lrestart).1.parked2 = false ∧
    (next cfg (run cfg evs) .lrestart).1.live = (run cfg evs).live ∧
    (next cfg (run cfg evs) .lrestart).1.live2 = (run cfg evs).live2 := by
  have e : (next cfg (run cfg evs) .lrestart).1 = reopenLeader (run cfg evs) (run cfg evs).image := by
    simp [next, hg, Ev.who]
  rw [e]
  exact ⟨rfl, rfl, rfl, rfl, rfl, rfl, rfl, rfl⟩

/-- the same for a restart on a kept disk image: the groups of the IMAGE decide -/
theorem restore_rebuilds_channels (cfg : Cfg) (evs : List Ev) (k : Nat) (im : Img) (rest : List Img)
    (hg : (run cfg evs).gone = false) (hk : (run cfg evs).imgs.drop k = im :: rest) :
    (next cfg (run cfg evs) (.lrestore k)).1.stopped = !im.born ∧
    (next cfg (run cfg evs) (.lrestore k)).1.stopped2 = !im.born2 ∧
    (next cfg (run cfg evs) (.lrestore k)).1.chan = .init ∧ (next cfg (run cfg evs) (.lrestore k)).1.chan2 = .init ∧
    (next cfg (run cfg evs) (.lrestore k)).1.parked = false ∧ (next cfg (run cfg evs) (.lrestore k)).1.parked2 = false := by
  have e : (next cfg (run cfg evs) (.lrestore k)).1 = { reopenLeader (run cfg evs) im with imgs := im :: rest } := by
    simp [next, hg, Ev.who, hk]
  rw [e]
  exact ⟨rfl, rfl, rfl, rfl, rfl, rfl⟩

/-- Restart through recovery keeps the replication invariants — `no_holes`, `agreement_inflight`,
`ack_sound_leader_events`, `restart_keeps_ack` hold for every history, restarts included — and the
channel resynchronises without an operator even when the follower is OFFLINE while the leader
recovers: restart, follower offline, the loop's first call parks, the online notification releases
it and the channel ends synced. -/
theorem restart_offline_then_online_resyncs (cfg : Cfg) (evs : List Ev) (hg : (run cfg evs).gone = false)
    (hb : (run cfg evs).born = true) :
    Synced (run cfg (evs ++ [.lrestart, .offline .a, .step .a .none, .online .a .none])) := by
  have e4 : evs ++ [Ev.lrestart, .offline .a, .step .a .none, .online .a .none] =
      (evs ++ [Ev.lrestart, .offline .a, .step .a .none]) ++ [.online .a .none] := by simp
  have e3 : evs ++ [Ev.lrestart, .offline .a, .step .a .none] = ((evs ++ [Ev.lrestart]) ++ [.offline .a]) ++ [.step .a .none] := by simp
  have r3 : run cfg (evs ++ [Ev.lrestart, .offline .a, .step .a .none]) =
      { reopenLeader (run cfg evs) (run cfg evs).image with live := false, chan := .failure, susp := true, parked := true } := by
    rw [e3, run_snoc, run_snoc, run_snoc]
    simp [next, hg, Ev.who, peerEv, replicaStep, isReady, reopenLeader, hb, St.image, brokenStream]
  rw [e4, run_snoc]
  apply resync_online
  · rw [r3]; intro x; cases x
  · rw [r3]; exact hg
  · rw [r3]; show (!(run cfg evs).born) = false; rw [hb]; rfl
  · rw [r3]

/-- A closed partition never acks: while the stream's handler holds a partition that was closed under
it (`ReplicaLog` returns `0, ErrPartitionClosed`), a replica call over that stream — with any fault,
at any replica index, index 0 included — appends nothing, leaves the group's ack where it is and never
ends in the acknowledged branch; with data pending the repaired shape of the else-branch ends in
`failure`, so the next call shakes hands, opens a new stream (whose handler resolves the current
partition) and resynchronises (`resync_one_step`, `resync_two_steps`). -/
theorem closed_never_acks (cfg : Cfg) (evs : List Ev) (f : Fault) (hcl : (run cfg evs).closed = true)
    (hr : (run cfg evs).chan = .ready) (hu : (run cfg evs).stream ≠ .none)
    (hg : (run cfg evs).gone = false) (hst : (run cfg evs).stopped = false) (hpk : (run cfg evs).parked = false) :
    (next cfg (run cfg evs) (.step .a f)).1.gack = (run cfg evs).gack ∧
    (next cfg (run cfg evs) (.step .a f)).1.F = (run cfg evs).F ∧
    (next cfg (run cfg evs) (.step .a f)).2 ≠ .acked ∧
    (cfg.mfail = true → (run cfg evs).cons < (run cfg evs).L.app →
      (next cfg (run cfg evs) (.step .a f)).1.chan = .failure) := by
  rw [next_step_a cfg _ _ hg hst hpk]
  exact replicaStep_closed_no_ack cfg _ f (full_run cfg evs).a hst hcl hr hu

/-- closing the follower's partition itself moves no ack and leaves the follower with an empty log -/
theorem fclose_keeps_ack (cfg : Cfg) (evs : List Ev) (hg : (run cfg evs).gone = false) :
    (next cfg (run cfg evs) (.fclose .a)).1.gack = (run cfg evs).gack ∧
    (next cfg (run cfg evs) (.fclose .a)).1.L = (run cfg evs).L ∧
    (next cfg (run cfg evs) (.fclose .a)).1.closed = true := by
  simp [next, hg, Ev.who, peerEv]

/-! ### liveness once the faults stop (repaired shape of Replica's else-branch) -/

/-- After ANY history — lost requests, follower restarts, a follower that lost or re-created its log or its
partition object under the open stream, leader restarts and tail loss, Put faults, offline/online cycles — two
consecutive fault-free replica calls of a live, non-parked, registered follower with something to send (or a
channel that is not ready) end IN STEP: ready on a live stream, the next index sent is the follower's next
index, and the stream's handler holds the follower's current partition. -/
theorem resync_two_steps_in_step (cfg : Cfg) (hm : cfg.mfail = true) (evs : List Ev)
    (hg : (run cfg evs).gone = false) (hst : (run cfg evs).stopped = false)
    (hl : (run cfg evs).live = true) (hs : (run cfg evs).susp = false) (hpk : (run cfg evs).parked = false)
    (hd : (run cfg evs).cons < (run cfg evs).L.app ∨ (run cfg evs).chan ≠ .ready) :
    InStep (run cfg (evs ++ [.step .a .none, .step .a .none])) := by
  have hb := full_run cfg evs
  have hf := replicaStep_flags cfg (run cfg evs) .none hl hs
  have e1 : run cfg (evs ++ [.step .a .none, .step .a .none]) =
      (replicaStep cfg (replicaStep cfg (run cfg evs) .none).1 .none).1 := by
    have : evs ++ [Ev.step .a .none, Ev.step .a .none] = (evs ++ [Ev.step .a .none]) ++ [Ev.step .a .none] := by simp
    rw [this, run_snoc, run_snoc, next_step_a cfg _ _ hg hst hpk,
      next_step_a cfg _ _ (hf.2.2.2.trans hg) (hf.2.2.1.trans hst) (replicaStep_parked cfg (run cfg evs) .none hl hpk hs).1]
  rw [e1]
  exact two_steps_in_step cfg hm _ hb.a hb.bndA hst hl hs hd

/-- Catch-up from a channel that is in step (no ghost needed): `k` fault-free steps bring the follower to
`min (appended + k, leader appended)`, the leader's log is untouched and the channel stays in step. -/
theorem in_step_catch_up (cfg : Cfg) (evs : List Ev) (k : Nat) (hi : InStep (run cfg evs))
    (hg : (run cfg evs).gone = false) (hst : (run cfg evs).stopped = false)
    (hl : (run cfg evs).live = true) (hs : (run cfg evs).susp = false) (hpk : (run cfg evs).parked = false) :
    InStep (run cfg (evs ++ List.replicate k (.step .a .none))) ∧
    (run cfg (evs ++ List.replicate k (.step .a .none))).F.app =
      min ((run cfg evs).F.app + k) (max (run cfg evs).F.app (run cfg evs).L.app) ∧
    (run cfg (evs ++ List.replicate k (.step .a .none))).L = (run cfg evs).L := by
  induction k generalizing evs with
  | zero =>
    have e0 : evs ++ List.replicate 0 (Ev.step .a .none) = evs := by simp
    rw [e0]
    exact ⟨hi, by simp only [Int.natCast_zero, Int.add_zero]; omega, rfl⟩
  | succ k ih =>
    have hb := full_run cfg evs
    have hf := replicaStep_flags cfg (run cfg evs) .none hl hs
    have hp := replicaStep_none_progress' cfg _ hb.a hst hi.1 hi.2.1 hi.2.2
    have e1 : run cfg (evs ++ [.step .a .none]) = (replicaStep cfg (run cfg evs) .none).1 := by
      rw [run_snoc, next_step_a cfg _ _ hg hst hpk]
    have hfp := replicaStep_parked cfg (run cfg evs) .none hl hpk hs
    have e2 : evs ++ List.replicate (k + 1) (Ev.step .a .none) = (evs ++ [Ev.step .a .none]) ++ List.replicate k (Ev.step .a .none) := by
      simp [List.replicate_succ]
    have := ih (evs ++ [.step .a .none]) (by rw [e1]; exact ⟨hp.1, hp.2.1.2.1, hp.2.1.2.2⟩)
      (by rw [e1]; exact hf.2.2.2.trans hg) (by rw [e1]; exact hf.2.2.1.trans hst) (by rw [e1]; exact hf.1) (by rw [e1]; exact hf.2.1) (by rw [e1]; exact hfp.1)
    rw [e2]
    refine ⟨this.1, ?_, ?_⟩
    · rw [this.2.1, e1, hp.2.2.2.1, hp.2.2.1]
      split <;> omega
    · rw [this.2.2, e1, hp.2.2.1]

/-- The channel resynchronises without operator action and the follower catches up: from ANY reachable
state of a live, non-parked, registered follower with something to send (or a channel that is not ready),
after two fault-free replica calls and enough further ones the channel is in step and the follower holds
every position up to the leader's appended index. -/
theorem eventually_caught_up (cfg : Cfg) (hm : cfg.mfail = true) (evs : List Ev)
    (hg : (run cfg evs).gone = false) (hst : (run cfg evs).stopped = false)
    (hl : (run cfg evs).live = true) (hs : (run cfg evs).susp = false) (hpk : (run cfg evs).parked = false)
    (hd : (run cfg evs).cons < (run cfg evs).L.app ∨ (run cfg evs).chan ≠ .ready) :
    ∃ K : Nat, ∀ k, K ≤ k →
      InStep (run cfg ((evs ++ [.step .a .none, .step .a .none]) ++ List.replicate k (.step .a .none))) ∧
      (run cfg ((evs ++ [.step .a .none, .step .a .none]) ++ List.replicate k (.step .a .none))).L.app ≤
        (run cfg ((evs ++ [.step .a .none, .step .a .none]) ++ List.replicate k (.step .a .none))).F.app := by
  have h2 := resync_two_steps_in_step cfg hm evs hg hst hl hs hpk hd
  have hf := replicaStep_flags cfg (run cfg evs) .none hl hs
  have hfp := replicaStep_parked cfg (run cfg evs) .none hl hpk hs
  have e1 : run cfg (evs ++ [.step .a .none]) = (replicaStep cfg (run cfg evs) .none).1 := by
    rw [run_snoc, next_step_a cfg _ _ hg hst hpk]
  have hg1 : (run cfg (evs ++ [.step .a .none])).gone = false := by rw [e1]; exact hf.2.2.2.trans hg
  have hst1 : (run cfg (evs ++ [.step .a .none])).stopped = false := by rw [e1]; exact hf.2.2.1.trans hst
  have hl1 : (run cfg (evs ++ [.step .a .none])).live = true := by rw [e1]; exact hf.1
  have hs1 : (run cfg (evs ++ [.step .a .none])).susp = false := by rw [e1]; exact hf.2.1
  have hpk1 : (run cfg (evs ++ [.step .a .none])).parked = false := by rw [e1]; exact hfp.1
  have hf' := replicaStep_flags cfg (run cfg (evs ++ [.step .a .none])) .none hl1 hs1
  have hfp' := replicaStep_parked cfg (run cfg (evs ++ [.step .a .none])) .none hl1 hpk1 hs1
  have e2' : evs ++ [Ev.step .a .none, Ev.step .a .none] = (evs ++ [Ev.step .a .none]) ++ [Ev.step .a .none] := by simp
  have e2 : run cfg (evs ++ [.step .a .none, .step .a .none]) = (replicaStep cfg (run cfg (evs ++ [.step .a .none])) .none).1 := by
    rw [e2', run_snoc, next_step_a cfg _ _ hg1 hst1 hpk1]
  refine ⟨((run cfg (evs ++ [.step .a .none, .step .a .none])).L.app - (run cfg (evs ++ [.step .a .none, .step .a .none])).F.app).toNat, fun k hk => ?_⟩
  have hc := in_step_catch_up cfg (evs ++ [.step .a .none, .step .a .none]) k h2
    (by rw [e2]; exact hf'.2.2.2.trans hg1) (by rw [e2]; exact hf'.2.2.1.trans hst1) (by rw [e2]; exact hf'.1)
    (by rw [e2]; exact hf'.2.1) (by rw [e2]; exact hfp'.1)
  refine ⟨hc.1, ?_⟩
  rw [hc.2.1, hc.2.2]
  omega

/-- ... and in histories without leader tail loss the follower ends with exactly the leader's appended index -/
theorem eventually_caught_up_noloss (cfg : Cfg) (hm : cfg.mfail = true) (evs : List Ev) (hn : NoLoss evs)
    (hg : (run cfg evs).gone = false) (hst : (run cfg evs).stopped = false)
    (hl : (run cfg evs).live = true) (hs : (run cfg evs).susp = false) (hpk : (run cfg evs).parked = false)
    (hd : (run cfg evs).cons < (run cfg evs).L.app ∨ (run cfg evs).chan ≠ .ready) :
    ∃ K : Nat, ∀ k, K ≤ k →
      Synced (run cfg ((evs ++ [.step .a .none, .step .a .none]) ++ List.replicate k (.step .a .none))) ∧
      (run cfg ((evs ++ [.step .a .none, .step .a .none]) ++ List.replicate k (.step .a .none))).F.app =
        (run cfg ((evs ++ [.step .a .none, .step .a .none]) ++ List.replicate k (.step .a .none))).L.app := by
  obtain ⟨K, hK⟩ := eventually_caught_up cfg hm evs hg hst hl hs hpk hd
  refine ⟨K, fun k hk => ?_⟩
  have h1 := hK k hk
  have hn' : NoLoss ((evs ++ [.step .a .none, .step .a .none]) ++ List.replicate k (.step .a .none)) := by
    intro e he j hj
    subst hj
    simp only [List.mem_append, List.mem_cons, List.mem_replicate, List.not_mem_nil, or_false] at he
    rcases he with (he | he | he) | he
    · exact hn _ he j rfl
    · cases he
    · cases he
    · cases he.2
  have := (nlf_run cfg _ hn').a.f_app
  exact ⟨h1.1.1, by omega⟩

/-- The follower's partition object closed and re-created under the leader's open, error-free stream (follower
WAL GC / Close): IsReady closes the stream on EVERY failure, so the handshake after the refusal is followed by a
new stream whose handler resolves the current partition; the follower catches up. (If the stream were kept
when a message is merely refused: `Neg.kept_stream_stays_closed`.) -/
theorem fclose_then_steps_resyncs (cfg : Cfg) (hm : cfg.mfail = true) (evs : List Ev) (m : Msg) (hm0 : m ≠ [])
    (hg : (run cfg evs).gone = false) (hst : (run cfg evs).stopped = false)
    (hl : (run cfg evs).live = true) (hs : (run cfg evs).susp = false) (hpk : (run cfg evs).parked = false)
    (hc : (run cfg evs).cons ≤ (run cfg evs).L.app) :
    ∃ K : Nat, ∀ k, K ≤ k →
      InStep (run cfg (((evs ++ [.fclose .a, .append m]) ++ [.step .a .none, .step .a .none]) ++ List.replicate k (.step .a .none))) ∧
      (run cfg (((evs ++ [.fclose .a, .append m]) ++ [.step .a .none, .step .a .none]) ++ List.replicate k (.step .a .none))).L.app ≤
        (run cfg (((evs ++ [.fclose .a, .append m]) ++ [.step .a .none, .step .a .none]) ++ List.replicate k (.step .a .none))).F.app := by
  have e : run cfg (evs ++ [.fclose .a, .append m]) =
      { (run cfg evs) with F := Log.empty, closed := true, dz := true, L := (run cfg evs).L.put m } := by
    have : evs ++ [Ev.fclose .a, Ev.append m] = (evs ++ [Ev.fclose .a]) ++ [Ev.append m] := by simp
    rw [this, run_snoc, run_snoc]
    simp [next, hg, Ev.who, peerEv, hm0]
  refine eventually_caught_up cfg hm _ ?_ ?_ ?_ ?_ ?_ ?_
  · rw [e]; exact hg
  · rw [e]; exact hst
  · rw [e]; exact hl
  · rw [e]; exact hs
  · rw [e]; exact hpk
  · rw [e]; left
    show (run cfg evs).cons < ((run cfg evs).L.put m).app
    simp only [Log.put]; omega

/-- A complete offline → online cycle of the follower as the leader's state manager sees it (the pooled
connection is closed and removed, every stream on it dies): the next handshake creates a NEW client stub —
`Conn.fresh_stub_alive` — on a newly dialled connection, and the follower catches up. (With a stub created
once and reused: `Neg.cached_stub_dead_after_offline`.) -/
theorem offline_online_then_steps_resyncs (cfg : Cfg) (hm : cfg.mfail = true) (evs : List Ev) (m : Msg) (hm0 : m ≠ [])
    (hg : (run cfg evs).gone = false) (hst : (run cfg evs).stopped = false)
    (hs : (run cfg evs).susp = false) (hpk : (run cfg evs).parked = false)
    (hc : (run cfg evs).cons ≤ (run cfg evs).L.app) :
    ∃ K : Nat, ∀ k, K ≤ k →
      InStep (run cfg (((evs ++ [.offline .a, .online .a .none, .append m]) ++ [.step .a .none, .step .a .none]) ++ List.replicate k (.step .a .none))) ∧
      (run cfg (((evs ++ [.offline .a, .online .a .none, .append m]) ++ [.step .a .none, .step .a .none]) ++ List.replicate k (.step .a .none))).L.app ≤
        (run cfg (((evs ++ [.offline .a, .online .a .none, .append m]) ++ [.step .a .none, .step .a .none]) ++ List.replicate k (.step .a .none))).F.app := by
  have e : run cfg (evs ++ [.offline .a, .online .a .none, .append m]) =
      { (run cfg evs) with live := true, stream := brokenStream (run cfg evs).stream, L := (run cfg evs).L.put m } := by
    have : evs ++ [Ev.offline .a, Ev.online .a .none, Ev.append m] = ((evs ++ [Ev.offline .a]) ++ [Ev.online .a .none]) ++ [Ev.append m] := by simp
    rw [this, run_snoc, run_snoc, run_snoc]
    simp [next, hg, Ev.who, peerEv, onlineEv, hst, hs, hm0]
  refine eventually_caught_up cfg hm _ ?_ ?_ ?_ ?_ ?_ ?_
  · rw [e]; exact hg
  · rw [e]; exact hst
  · rw [e]
  · rw [e]; exact hs
  · rw [e]; exact hpk
  · rw [e]; left
    show (run cfg evs).cons < ((run cfg evs).L.put m).app
    simp only [Log.put]; omega

/-- The expiry check stopped the follower's drained group and replicator while another group kept the
partition alive; a later write stream calls BuildReplicaForLeader: buildReplica's "already built" test reads
`p.replicators` — the map stopReplicator cleans (`Maps`, `Tie.buildReplica_exists_map`) — so the group is
registered again and a new replicator exists (state `init`, no stream, not parked), and the follower receives
what is written afterwards. -/
theorem join_after_expire_rebuilds (cfg : Cfg) (hm : cfg.mfail = true) (evs : List Ev)
    (hg : (run cfg evs).gone = false) (hstp : (run cfg evs).stopped = true) (hl : (run cfg evs).live = true) :
    (run cfg (evs ++ [.join .a])).stopped = false ∧ (run cfg (evs ++ [.join .a])).born = true ∧
    (run cfg (evs ++ [.join .a])).chan = .init ∧
    ∃ K : Nat, ∀ k, K ≤ k →
      InStep (run cfg (((evs ++ [.join .a]) ++ [.step .a .none, .step .a .none]) ++ List.replicate k (.step .a .none))) ∧
      (run cfg (((evs ++ [.join .a]) ++ [.step .a .none, .step .a .none]) ++ List.replicate k (.step .a .none))).L.app ≤
        (run cfg (((evs ++ [.join .a]) ++ [.step .a .none, .step .a .none]) ++ List.replicate k (.step .a .none))).F.app := by
  have e : (run cfg (evs ++ [.join .a])).stopped = false ∧ (run cfg (evs ++ [.join .a])).born = true ∧
      (run cfg (evs ++ [.join .a])).chan = .init ∧ (run cfg (evs ++ [.join .a])).gone = false ∧
      (run cfg (evs ++ [.join .a])).live = true ∧ (run cfg (evs ++ [.join .a])).susp = false ∧
      (run cfg (evs ++ [.join .a])).parked = false := by
    rw [run_snoc]
    simp only [next, hg, Ev.who, peerEv, hstp, Bool.false_eq_true, if_false, Bool.true_eq_false]
    split <;> (refine ⟨rfl, ?_, rfl, rfl, hl, rfl, rfl⟩; first | rfl | assumption)
  refine ⟨e.1, e.2.1, e.2.2.1, ?_⟩
  exact eventually_caught_up cfg hm _ e.2.2.2.1 e.1 e.2.2.2.2.1 e.2.2.2.2.2.1 e.2.2.2.2.2.2
    (Or.inr (by rw [e.2.2.1]; intro x; cases x))

/-! ### the two side models -/

/-- buildReplica publishes both maps, stopReplicator cleans `p.replicators` only: a follower in
`p.replicators` is always in `p.replicatorStatistics` (whichever map the test reads) -/
theorem maps_repl_imp_stats (t : Maps.Sel) (ops : List Maps.Op) :
    (Maps.run t ops).repl = true → (Maps.run t ops).stats = true := by
  unfold Maps.run
  suffices h : ∀ m : Maps.M, (m.repl = true → m.stats = true) →
      ((ops.foldl (Maps.step t) m).repl = true → (ops.foldl (Maps.step t) m).stats = true) from h _ (by intro x; cases x)
  induction ops with
  | nil => intro m hm; exact hm
  | cons o ops ih =>
    intro m hm
    apply ih
    cases o with
    | build =>
      simp only [Maps.step, Maps.build]
      split
      · exact hm
      · intro _; rfl
    | stop =>
      simp only [Maps.step, Maps.stop]
      split
      · intro x; cases x
      · exact hm

/-- test on `p.replicators` (the tree as it is): after ANY sequence of builds and stops, a build leaves the
follower with a replicator — in particular after stop + build -/
theorem maps_build_gives_replicator (ops : List Maps.Op) :
    (Maps.run .repl (ops ++ [.build])).repl = true := by
  unfold Maps.run
  rw [List.foldl_append]
  simp only [List.foldl, Maps.step]
  generalize List.foldl (Maps.step .repl) _ ops = m
  cases m with
  | mk r s => cases r <;> rfl

/-- per handshake (the tree as it is): whatever the pool went through, the stub the handshake creates is bound
to the open pooled connection — its calls go through -/
theorem conn_fresh_stub_alive (c : Conn.C) : Conn.stubAlive (Conn.handshakeClient true c) = true := by
  unfold Conn.handshakeClient Conn.getConn Conn.stubAlive
  cases hp : c.pool <;> simp [hp]

theorem conn_handshake_ok_after_any_history (ops : List Conn.Op) :
    (Conn.step true (Conn.run true ops) .handshake).2 = true := by
  simp only [Conn.step]
  exact conn_fresh_stub_alive _


/-! ## 4c. schedules: the suspend / wake-up handshake and the expiry tick as atomic steps (side models `Wake`, `Tick`)

`ss` ranges over ALL sequences of atomic steps of the two (three) threads — every interleaving. -/

/-- the shape of the wake-up the tree has, from the regenerated facts -/
def wakeShape : Wake.Shape :=
  if LinVerif.Generated.C08.suspendChanBuffered then .buffered
  else if LinVerif.Generated.C08.wakeSendBlocking then .blocking else .nonblocking

/-- NO LOST WAKE-UP, the tree as it is (unbuffered channel, plain blocking send), every interleaving of
(state events) ‖ (loop) — **partial**: under the hypothesis that no online notification is handled
between the loop's liveness test and its `isSuspend.CompareAndSwap(false, true)` (`hit = false`).
Then the loop is never left blocked in `<-r.suspend` with the follower live and no notification in
progress. The full statement (without `hit = false`) is FALSE for the tree as it is:
`Neg.wake_lost_before_mark` (known finding `online-notification-before-suspend-mark-lost`). With a
non-blocking send it is false even under the hypothesis: `Neg.wake_lost_if_nonblocking_sched`. -/
theorem wake_no_lost_wakeup_partial (ss : List Wake.Step) (hh : (Wake.run .blocking ss).hit = false) :
    ¬ Wake.Stuck (Wake.run .blocking ss) := by
  intro hs
  have hi := Wake.invB_run ss
  have h1 := hs.2.1
  have h2 := hs.2.2.1
  rcases hi.wait hh (Or.inr hs.1) with x | x | x
  · rw [x.1] at h1; cases h1
  · rw [x.2.1] at h2; cases h2
  · rw [x.2.1] at h2; cases h2

/-- ... and the handler's blocking send always finds its receiver: whenever the handler (which runs
inside the state manager's event loop, holding its mutex) is at the send, the loop has marked itself and
is at — or on its way to — the receive. Every interleaving, no hypothesis. -/
theorem wake_handler_send_finds_receiver (ss : List Wake.Step) (h : (Wake.run .blocking ss).hpc = .send) :
    (Wake.run .blocking ss).lpc = .marked ∨ (Wake.run .blocking ss).lpc = .recv := by
  have hi := Wake.invB_run ss
  cases hl : (Wake.run .blocking ss).lpc with
  | run => exact absurd h (hi.run hl).1
  | seen => exact absurd h (hi.seen' hl).1
  | marked => exact Or.inl rfl
  | recv => exact Or.inr rfl

/-- the flag and the handler's position always agree with where the loop is: a waiting loop either
still has `isSuspend = true` (the next notification will win the CAS) or the handler is already sending -/
theorem wake_flag_or_sender (ss : List Wake.Step)
    (h : (Wake.run .blocking ss).lpc = .marked ∨ (Wake.run .blocking ss).lpc = .recv) :
    ((Wake.run .blocking ss).susp = true ∧ (Wake.run .blocking ss).hpc ≠ .send) ∨
    ((Wake.run .blocking ss).susp = false ∧ (Wake.run .blocking ss).hpc = .send) :=
  (Wake.invB_run ss).wait' h

/-- NO LOST WAKE-UP at full strength for the candidate repair (`fixes/C08-suspend-token.patch`: channel
of capacity 1, the handler leaves a token on every NodeOnline, the loop clears the flag after the
receive): every interleaving, no hypothesis. -/
theorem wake_buffered_never_stuck (ss : List Wake.Step) : ¬ Wake.Stuck (Wake.run .buffered ss) := by
  intro hs
  have := (Wake.invT_run ss).tokd hs.2.1 hs.2.2.1 (Or.inr (Or.inr hs.1))
  rw [hs.2.2.2] at this
  cases this

example : (Wake.run .blocking [.off, .test, .mark, .block, .on, .cas, .take]).lpc = .run ∧
    (Wake.run .blocking [.off, .test, .mark, .on, .cas, .block, .take]).lpc = .run ∧
    (Wake.run .blocking [.off, .test, .mark, .on, .cas, .block]).hpc = .send ∧
    (Wake.run .buffered [.off, .test, .on, .cas, .mark, .block, .take]).lpc = .run := by decide

/-- A REPLICATOR WITH UN-ACKNOWLEDGED CONSUMED MESSAGES IS NEVER REMOVED: in every interleaving of
appenders, the replica loop's sub-steps (Consume / acknowledgement / lost answer) and the expiry tick's
sub-steps (emptiness test / stopReplicator), whenever the tick is about to stop the replicator and no
append landed since its test, the group has nothing consumed-but-unacknowledged, nothing in flight and
nothing pending. (With a test on `Pending()`: `Neg.tick_pending_test_removes_unacked`; with an append
between test and stop: `Neg.tick_append_between_test_and_stop`.) -/
theorem tick_never_removes_unacked (ss : List Tick.Step)
    (hv : (Tick.run true ss).verdict = true) (hl : (Tick.run true ss).late = false) :
    (Tick.run true ss).app ≤ (Tick.run true ss).gack ∧ (Tick.run true ss).cons = (Tick.run true ss).gack ∧
    (Tick.run true ss).infl = none := by
  have hi := Tick.inv_run ss
  have h := hi.verdict hv hl
  have h1 := hi.gc
  have h2 := hi.ca
  refine ⟨h, by omega, ?_⟩
  cases hf : (Tick.run true ss).infl with
  | none => rfl
  | some i => have := hi.infl i hf; omega

/-- acknowledged ≤ consumed ≤ appended in every interleaving -/
theorem tick_order (ss : List Tick.Step) :
    (Tick.run true ss).gack ≤ (Tick.run true ss).cons ∧ (Tick.run true ss).cons ≤ (Tick.run true ss).app :=
  ⟨(Tick.inv_run ss).gc, (Tick.inv_run ss).ca⟩

example : (Tick.run true [.append, .consume, .ack, .test]).verdict = true ∧
    (Tick.run true [.append, .consume, .lose, .test]).verdict = false ∧
    (Tick.run true [.append, .consume, .test, .ack]).verdict = false := by decide

/-! ## 5. ties to the regenerated facts (replica/*.go, app/storage/rpc/replica.go, pkg/queue/*.go) -/

/-! ### Round 13: one Partition object per log directory (`writeAheadLog.GetOrCreatePartition`, side model `WalOpen`)

The log model of this file has ONE set of append / consume / acknowledge cursors per leader log. On the code that is
the Partition object `GetOrCreatePartition` hands to every write stream. For EVERY number of write streams and EVERY
schedule of their atomic steps (enter, finish the open, write, drain), with the WAL mutex held from the lookup to the
store (the tree's shape, `Tie.wal_open_steps`): the log directory is opened at most once, at most one Partition object
exists, every stream that returned holds the stored one, a stream waits only while another one is inside the open (and
is released by it: after `go` nobody is blocked), and the follower never holds more than the leader accepted. -/
theorem wal_one_partition_per_log (n : Nat) (ss : List WalOpen.Step) :
    (WalOpen.run true n ss).opens ≤ 1 ∧ (WalOpen.run true n ss).parts ≤ 1 ∧
    (∀ i : Nat, (WalOpen.run true n ss).pcs[i]? = some WalOpen.Pc.done →
      (WalOpen.run true n ss).cached = true ∧ (WalOpen.run true n ss).parts = 1 ∧ (WalOpen.run true n ss).opens = 1) ∧
    (∀ i : Nat, (WalOpen.run true n ss).pcs[i]? = some WalOpen.Pc.blocked →
      (WalOpen.run true n ss).inOpen = 1 ∧ (WalOpen.run true n ss).cached = false) ∧
    (WalOpen.run true n ss).fol ≤ (WalOpen.run true n ss).app := by
  have h := Lemmas.C08Wal.inv_run n ss
  have hop : (WalOpen.run true n ss).opens ≤ 1 ∧ (WalOpen.run true n ss).parts ≤ 1 := by
    cases hc : (WalOpen.run true n ss).cached with
    | false => have := h.fresh hc; have := h.le1; omega
    | true => have := h.stored hc; omega
  refine ⟨hop.1, hop.2, ?_, ?_, h.fol⟩
  · intro i hi
    have hc := h.done i hi
    have := h.stored hc
    exact ⟨hc, this.1, this.2.1⟩
  · intro i hi
    have h1 := h.blocked i hi
    refine ⟨h1, ?_⟩
    cases hc : (WalOpen.run true n ss).cached with
    | false => rfl
    | true => have := h.stored hc; omega

/-- After a drain the follower holds exactly as many messages as the leader accepted — on every schedule. -/
theorem wal_drain_catches_up (n : Nat) (ss : List WalOpen.Step) :
    (WalOpen.run true n (ss ++ [.drain])).fol = (WalOpen.run true n (ss ++ [.drain])).app := by
  have hp := (wal_one_partition_per_log n ss).2.1
  have : WalOpen.run true n (ss ++ [.drain]) = WalOpen.step true (WalOpen.run true n ss) .drain := by
    simp [WalOpen.run, List.foldl_append]
  rw [this]
  simp [WalOpen.step, hp]

/-- Non-vacuity: two streams open the same new log at the same moment (the second waits for the mutex), both write. -/
example : (WalOpen.run true 3 [.call 0, .call 1, .go 0, .write 0, .write 1, .drain]) =
    { pcs := [.done, .done, .idle], inOpen := 0, cached := true, opens := 1, parts := 1, app := 2, fol := 2 } := by rfl
example : (WalOpen.run true 3 [.call 0, .call 1]).pcs = [.held, .blocked, .idle] := by decide

namespace Tie
open LinVerif.Generated

/-- partition.ReplicaLog: `appendIdx := AppendedSeq()+1; if replicaIdx != appendIdx { return appendIdx, nil }`,
a failed Put reports the regenerated index (-1 on the current tree), a successful one `appendIdx` -/
theorem replicaLog_eq (F : Log) (idx : Int) (m : Msg) (pf : Bool) :
    replicaLog F idx m pf =
      (if C08.replicaLogSkipCond idx (C08.followerAppendIdx F.app) = true then (F, C08.followerAppendIdx F.app)
       else if pf = true then (F, C08.replicaLogPutFailAck (C08.followerAppendIdx F.app))
       else (F.put m, C08.followerAppendIdx F.app)) := by
  unfold replicaLog C08.replicaLogSkipCond C08.followerAppendIdx C08.replicaLogPutFailAck
  by_cases h : idx = F.app + 1 <;> simp [h]

theorem replicaLog_returns : C08.replicaLogReturns =
    ["0, constants.ErrPartitionClosed", "appendIdx, nil", "-1, err", "appendIdx, nil"] := rfl

/-- partition.buildReplica (the `join` event): GetOrCreateConsumerGroup, then a replicator -/
theorem buildReplica_calls : C08.buildReplicaCalls =
    ["fmt.Sprintf", "log.GetOrCreateConsumerGroup", "shard.Database", "shard.Database().Name", "family.TimeRange",
     "newLocalReplicatorFn", "newRemoteReplicatorFn", "replicator.ReplicaState", "make", "make",
     "metrics.NewStorageReplicatorRunnerStatistics"] := rfl

theorem replicaLog_calls : C08.replicaLogCalls =
    ["closed.Load", "log.Queue", "log.Queue().AppendedSeq", "log.Queue", "log.Queue().Put"] := rfl

theorem replicaAckIndex_return : C08.replicaAckIndexReturn = "p.log.Queue().AppendedSeq()" := rfl

/-- partition.ResetReplicaIndex / ReplicaHandler.Reset: `SetAppendedSeq(idx - 1)` of the offered AppendIndex -/
theorem followerReset_eq (F : Log) (idx : Int) :
    followerReset F idx = F.setAppended (C08.followerResetSeq idx) := rfl

theorem handler_reset_arg : C08.handlerResetArg = "request.AppendIndex" := rfl

/-- ReplicaHandler.Replica: the answer carries the offered index and ReplicaLog's result -/
theorem handler_assigns : C08.handlerAssigns =
    ["resp.ReplicaIndex = req.ReplicaIndex", "resp.AckIndex = appendedIdx", "resp.Err = err.Error()"] := rfl

theorem handler_replicaLog_args : C08.handlerReplicaLogArgs = ["req.ReplicaIndex", "req.Record"] := rfl

/-- remoteReplicator.Replica acknowledges iff `resp.AckIndex == resp.ReplicaIndex`, with `resp.AckIndex` -/
theorem ackCond_eq (a r : Int) : C08.ackCond a r = decide (a = r) := rfl

/-- handleNodeStateChangeEvent: `state == NodeOnline`, `isSuspend.CompareAndSwap(true, false)`, then the
wake-up as a PLAIN BLOCKING send on `r.suspend` (the model's `Cfg.wake` is this fact); IsReady's only
receive is the one on `r.suspend` -/
theorem wake_send_blocking : C08.wakeSendBlocking = !C08.suspendChanBuffered := by decide
theorem online_handler_sends :
    (C08.suspendChanBuffered = false ∧ C08.onlineHandlerSends = ["plain: r.suspend <- struct{}{}"]) ∨
    (C08.suspendChanBuffered = true ∧ C08.onlineHandlerSends = ["select/default: r.suspend <- struct{}{}"]) := by decide
theorem online_handler_conds :
    (C08.suspendChanBuffered = false ∧ C08.onlineHandlerConds = ["state == models.NodeOnline", "r.isSuspend.CompareAndSwap(true, false)"]) ∨
    (C08.suspendChanBuffered = true ∧ C08.onlineHandlerConds = ["state == models.NodeOnline"]) := by decide
theorem isReady_recvs : C08.isReadyRecvs = ["<-r.suspend"] := rfl

/-- the suspend / wake-up handshake. EITHER the tree's shape: the channel is unbuffered, IsReady's offline branch is
unlock · CAS(false,true) · state.Store · receive · recursion (the Wake model's `mark`, `block`, `take`;
`test` is the `GetLiveNode` before the branch) — `blocking`; OR the token shape of fixes/C08-suspend-token.patch:
capacity 1, the handler's only test is `state == NodeOnline`, its send is a select with default, and the loop
clears `isSuspend` after the receive — `buffered`. Nothing else is accepted. -/
theorem suspend_chan_unbuffered :
    (C08.suspendChanBuffered = false ∧ C08.suspendChanMake = "suspend: make(chan struct{})") ∨
    (C08.suspendChanBuffered = true ∧ C08.suspendChanMake = "suspend: make(chan struct{}, 1)") := by decide
theorem offline_branch_steps :
    (C08.suspendChanBuffered = false ∧ C08.offlineBranchSteps =
      ["call r.rwMutex.Unlock", "if r.isSuspend.CompareAndSwap(false, true)", "call r.state.Store", "<-r.suspend", "call r.IsReady"]) ∨
    (C08.suspendChanBuffered = true ∧ C08.offlineBranchSteps =
      ["call r.rwMutex.Unlock", "if r.isSuspend.CompareAndSwap(false, true)", "call r.state.Store", "<-r.suspend",
       "call r.isSuspend.Store(false)", "call r.IsReady"]) := by decide
theorem wake_shape : wakeShape = (if C08.suspendChanBuffered then .buffered else .blocking) := by decide

/-- the main model's two window events ARE the Wake model's schedules (same flag / liveness / parked) -/
theorem steppre_is_wake_schedule (fixed mfail wake : Bool) :
    let s := run { fixed := fixed, mfail := mfail, wake := wake } [.offline .a, .steppre .a .none]
    let w := Wake.run .blocking [.off, .test, .on, .cas, .mark, .block]
    s.live = w.live ∧ s.susp = w.susp ∧ s.parked = decide (w.lpc = .recv) ∧ w.hpc = .idle ∧
    let s' := run { fixed := fixed, mfail := mfail, wake := wake, tok := true } [.offline .a, .steppre .a .none]
    let w' := Wake.run .buffered [.off, .test, .on, .cas, .mark, .block, .take]
    s'.live = w'.live ∧ s'.susp = w'.susp ∧ s'.parked = decide (w'.lpc = .recv) ∧ w'.hpc = .idle ∧ w'.tok = false := by
  cases fixed <;> cases mfail <;> cases wake <;> decide
theorem steponl_is_wake_schedule (fixed mfail : Bool) :
    let s := run { fixed := fixed, mfail := mfail, wake := true } [.offline .a, .steponl .a .none]
    let w := Wake.run .blocking [.off, .test, .mark, .on, .cas, .block, .take]
    s.live = w.live ∧ s.susp = w.susp ∧ s.parked = decide (w.lpc = .recv) ∧ w.hpc = .idle ∧
    let s' := run { fixed := fixed, mfail := mfail, wake := false } [.offline .a, .steponl .a .none]
    let w' := Wake.run .nonblocking [.off, .test, .mark, .on, .cas, .send, .block]
    s'.live = w'.live ∧ s'.susp = w'.susp ∧ s'.parked = decide (w'.lpc = .recv) ∧ w'.hpc = .idle ∧
    let s'' := run { fixed := fixed, mfail := mfail, wake := false, tok := true } [.offline .a, .steponl .a .none]
    let w'' := Wake.run .buffered [.off, .test, .mark, .on, .cas, .block, .take]
    s''.live = w''.live ∧ s''.susp = w''.susp ∧ s''.parked = decide (w''.lpc = .recv) ∧ w''.hpc = .idle ∧ w''.tok = false := by
  cases fixed <;> cases mfail <;> decide

/-- the expiry tick's emptiness test is `consumerGroup.IsEmpty` = appended ≤ ACKNOWLEDGED: the Tick model's
`emptyByAck = true` shape -/
theorem tick_empty_by_ack (t : Tick.T) (h1 : t.stopped = false) (h2 : t.verdict = false) :
    (Tick.step true t .test).verdict = C08.isEmptyCond t.app t.gack := by
  simp [Tick.step, h1, h2, C08.isEmptyCond]

theorem replica_ack_arg : C08.replicaAckArg = "resp.AckIndex" := rfl

theorem replica_calls : C08.replicaCalls =
    (if C08.mismatchSetsFailure then ["cli.Send", "state.Store", "cli.Recv", "state.Store", "r.SetAckIndex", "state.Store"]
     else ["cli.Send", "state.Store", "cli.Recv", "state.Store", "r.SetAckIndex"]) := by
  simp only [C08.replicaCalls, C08.mismatchSetsFailure]; rfl

theorem connect_calls : C08.connectCalls =
    ["state.Store", "encoding.JSONMarshal", "rpc.CreateOutgoingContextWithPairs", "replicaCli.Replica",
     "state.Store", "state.Store"] := rfl

/-- partition.replica: IsReady && Connect, Consume, GetMessage, IgnoreMessage | Replica -/
theorem partitionReplica_calls : C08.partitionReplicaCalls =
    ["defer:?", "replicator.IsReady", "replicator.Connect", "replicator.Consume", "replicator.GetMessage",
     "replicator.IgnoreMessage", "replicator.Replica"] := rfl

/-- consumerGroup.Ack: `ackSeq >= ts && ackSeq <= hs` -/
theorem ackGroup_eq (s : St) (a : Int) :
    ackGroup s a = (if C08.groupAckCond a s.gack s.cons = true then { s with gack := a } else s) := by
  simp only [ackGroup, C08.groupAckCond, decide_eq_true_eq, ge_iff_le]

/-- consumerGroup.consume with replicator.ReplicaIndex: head = consumed+1, `headSeq <= AppendedSeq()` -/
theorem consume_eq (s : St) :
    consume s = (if C08.consumeCond (C08.replicaIndexOf s.cons) s.L.app = true
      then ({ s with cons := C08.replicaIndexOf s.cons }, C08.replicaIndexOf s.cons) else (s, -1)) := by
  unfold consume C08.consumeCond C08.replicaIndexOf
  by_cases h : s.cons + 1 ≤ s.L.app <;> simp [h]

/-- replicator.IgnoreMessage: `currentAck+1 == replicaIdx` -/
theorem ignoreMessage_eq (s : St) (idx : Int) :
    ignoreMessage s idx = (if C08.ignoreCond s.gack idx = true then ackGroup s idx else s) := by
  simp only [ignoreMessage, C08.ignoreCond, decide_eq_true_eq]

/-- queue.Get / validateSequence: rejected iff `sequence > appended || sequence <= acknowledged` -/
theorem get_eq (l : Log) (i : Int) :
    l.get i = (if C08.getRejectCond i l.app l.ack = true then none else lookup i l.store) := by
  unfold Log.get C08.getRejectCond
  by_cases h : l.ack < i ∧ i ≤ l.app
  · rw [if_pos h, if_neg]
    simp only [decide_eq_true_eq]; omega
  · rw [if_neg h, if_pos]
    simp only [decide_eq_true_eq]; omega

/-- queue.SetAcknowledgedSeq: `seq > acknowledged && seq <= appended` -/
theorem setAck_eq (l : Log) (a : Int) :
    l.setAck a = (if C08.setAckCond a l.app l.ack = true then { l with ack := a } else l) := by
  simp only [Log.setAck, C08.setAckCond, decide_eq_true_eq, gt_iff_lt]

/-- queue.SetAppendedSeq stores both counters; fanOutQueue.SetAppendedSeq = queue + every group's SetSeq -/
theorem setAppended_stores : C08.queueSetAppendedStores = ["appendedSeq.Store(seq)", "acknowledgedSeq.Store(seq)"] := rfl
theorem setSeq_stores : C08.groupSetSeqStores = ["consumedSeq.Store(seq)", "acknowledgedSeq.Store(seq)"] := rfl
theorem fanout_setAppended_calls : C08.fanoutSetAppendedCalls = ["queue.SetAppendedSeq", "fo.SetSeq"] := rfl

/-- replicator.ResetReplicaIndex / ResetAppendIndex / AppendIndex -/
theorem resetReplicaIndex_eq (s : St) (idx : Int) :
    resetReplicaIndex s idx = { s with cons := C08.resetReplicaSeq idx } := rfl
theorem resetAppendIndex_eq (s : St) (idx : Int) :
    resetAppendIndex s idx =
      { s with
        L := s.L.setAppended (C08.resetAppendSeq idx)
        cons := C08.resetAppendSeq idx
        gack := C08.resetAppendSeq idx
        cons2 := if s.stopped2 then s.cons2 else C08.resetAppendSeq idx
        gack2 := if s.stopped2 then s.gack2 else C08.resetAppendSeq idx
        dz2 := if s.chan2 = .ready then true else s.dz2 } := rfl
theorem appendIndex_eq (a : Int) : C08.appendIndexOf a = a + 1 := rfl

/-- IsReady: the equality test, the two switch cases, the index formulas, the arguments of the
resets and of the ack, the double check -/
theorem isReady_ready_eq (r c : Int) :
    C08.readyEqCond (C08.nextReplicaIdx r) (C08.replicaIndexOf c) = decide (r + 1 = c + 1) := rfl
theorem isReady_behind (r a : Int) : C08.behindCond r a = decide (r < a) := rfl
theorem isReady_need_reset (a : Int) : C08.needResetReplicaIdx a = a + 1 := rfl
theorem isReady_double_check (n x : Int) : C08.doubleCheckCond n x = decide (n = x) := rfl
theorem isReady_reset_args : C08.isReadyResetArgs =
    ["needResetReplicaIdx", "nextReplicaIdx", "remoteLastReplicaAckIdx", "AppendIndex: needResetReplicaIdx"] := rfl

set_option linter.unusedSimpArgs false in
/-- the guard of ResetAppendIndex is the one the model is run with (`Cfg.fixed := aheadFixed`) -/
theorem isReady_ahead (r a : Int) :
    C08.aheadCond r (C08.nextReplicaIdx r) a = aheadFires { fixed := C08.aheadFixed, mfail := C08.mismatchSetsFailure, wake := C08.wakeSendBlocking } r a := by
  simp only [C08.aheadCond, C08.aheadFixed, C08.nextReplicaIdx, aheadFires]
  first
    | rfl
    | (simp only [Bool.false_eq_true, if_false, if_true, gt_iff_lt, ge_iff_le, decide_eq_decide]; omega)

/-- (the token shape of the suspend handshake has one more call in the offline branch: `isSuspend.Store` after the receive) -/
theorem isReady_calls : C08.isReadyCalls =
    ["state.Load", "stateMgr.GetLiveNode", "isSuspend.CompareAndSwap", "state.Store"] ++
    (if C08.suspendChanBuffered then ["isSuspend.Store"] else []) ++
    ["r.IsReady", "r.closeStream",
     "state.Store", "cliFct.CreateReplicaServiceClient", "state.Store", "state.Store", "r.getLastAckIdxFromReplica",
     "state.Store", "r.ReplicaIndex", "state.Store", "r.AppendIndex", "r.AckIndex", "state.Store", "replicaCli.Reset",
     "state.Store", "r.ResetReplicaIndex", "state.Store", "r.ResetAppendIndex", "state.Store", "r.ResetReplicaIndex",
     "r.SetAckIndex", "r.ReplicaIndex", "state.Store", "state.Store"] := by decide

/-- fanOutQueue.Sync: nothing without a registered group; else the minimum over the registered
groups starting from appended, applied when ≥ 0 -/
theorem syncGC_eq (s : St) :
    syncGC s =
      (if s.stopped = true ∧ s.stopped2 = true then s else
       let a1 := if s.stopped = false ∧ C08.syncMinCond s.gack s.L.app = true then s.gack else s.L.app
       let a2 := if s.stopped2 = false ∧ C08.syncMinCond s.gack2 a1 = true then s.gack2 else a1
       if C08.syncApplyCond a2 = true then { s with L := s.L.setAck a2 } else s) := by
  simp only [syncGC, C08.syncMinCond, C08.syncApplyCond, decide_eq_true_eq, ge_iff_le]
theorem sync_conds : C08.syncConds = ["len(fq.consumerGroups) == 0", "ts < ackSeq", "ackSeq >= 0"] := rfl

/-- partition.IsExpire: Sync, GC, the write-window test, then per registered group `!IsEmpty()` ⇒ has
data, else stopReplicator; `IsEmpty` is `appended <= acknowledged` -/
theorem isExpire_calls : C08.isExpireCalls =
    ["log.Sync", "log.Queue", "log.Queue().GC", "shard.Database", "shard.Database().GetOption",
     "opt.GetAcceptWritableRange", "family.TimeRange", "timeutil.Now", "log.ConsumerGroupNames",
     "log.GetOrCreateConsumerGroup", "consumerGroup.IsEmpty", "p.stopReplicator"] := rfl
theorem isExpire_conds : C08.isExpireConds =
    ["timeRange.End + ahead + 15 * timeutil.OneMinute > now", "!consumerGroup.IsEmpty()"] := rfl
theorem isEmpty_eq (qh a : Int) : C08.isEmptyCond qh a = decide (qh ≤ a) := rfl
theorem stopReplicator_calls : C08.stopReplicatorCalls =
    ["log.StopConsumerGroup", "models.ParseNodeID", "replicator.Close", "make"] := rfl
theorem fanout_stop_calls : C08.fanoutStopGroupCalls = ["consumerGroup.Close", "delete"] := rfl

/-- the model's `expire` stops follower A's group exactly under the generated drained test -/
theorem expire_stops_iff (s : St) :
    ((expire s).1.stopped = true ∧ s.stopped = false) ↔
    (s.stopped = false ∧ C08.isEmptyCond (syncGC s).L.app (syncGC s).gack = true) := by
  have hq := (Classical.em ((syncGC s).stopped = false ∧ (syncGC s).L.app ≤ (syncGC s).gack))
  have hst : (syncGC s).stopped = s.stopped := by
    have key : ∀ a : Int, (if 0 ≤ a then { s with L := s.L.setAck a } else s).stopped = s.stopped := by
      intro a; split <;> rfl
    unfold syncGC; split
    · rfl
    · exact key _
  unfold expire C08.isEmptyCond
  simp only [decide_eq_true_eq]
  generalize syncGC s = t at hq hst
  have hB : ∀ u : St, (if t.stopped2 = false ∧ t.L.app ≤ t.gack2 then stopB u else u).stopped = u.stopped := by
    intro u; split <;> rfl
  have hG : ∀ (c : Prop) [Decidable c] (u : St), (if c then (u, Out.idle) else ({ u with gone := true }, Out.expired)).1.stopped = u.stopped := by
    intro c _ u; split <;> rfl
  rw [hG, hB]
  rcases hq with hq | hq
  · rw [if_pos hq]
    rw [hst] at hq
    exact ⟨fun x => ⟨x.2, hq.2⟩, fun x => ⟨rfl, x.1⟩⟩
  · rw [if_neg hq]
    rw [hst] at hq ⊢
    constructor
    · intro x; rw [x.2] at x; cases x.1
    · intro x; exact (hq x).elim

/-- every branch condition of the functions the model mirrors, as source text -/
theorem isReady_conds : C08.isReadyConds =
    ["stateVal.state == models.ReplicatorReadyState", "!ok", "r.isSuspend.CompareAndSwap(false, true)", "err != nil",
     "err != nil", "nextReplicaIdx == localReplicaIdx", "remoteLastReplicaAckIdx < smallestAckIdx", "err != nil",
     (if C08.aheadFixed then "nextReplicaIdx > appendIdx" else "remoteLastReplicaAckIdx > appendIdx"),
     "newLocalReplicaIdx == nextReplicaIdx"] := by
  simp only [C08.isReadyConds, C08.aheadFixed]; rfl
theorem replica_conds : C08.replicaConds =
    (if C08.respErrChecked then ["err != nil", "err != nil", "resp.Err == \"\" && resp.AckIndex == resp.ReplicaIndex"]
     else ["err != nil", "err != nil", "resp.AckIndex == resp.ReplicaIndex"]) := by
  simp only [C08.replicaConds, C08.respErrChecked]; rfl
theorem partitionReplica_conds : C08.partitionReplicaConds =
    ["replicator.IsReady() && replicator.Connect()", "seq >= 0", "err != nil"] := rfl
/-- buildReplica's "already built" test reads `p.replicators` — the map stopReplicator cleans; it publishes
both maps, statistics first; stopReplicator tests and publishes `p.replicators` only (side model `Maps`; the
main model's `join` guard `s.stopped` is this test) -/
theorem buildReplica_exists_map : C08.buildReplicaExistsMaps = ["p.replicators"] := rfl
theorem buildReplica_publishes : C08.buildReplicaPublishes = ["p.replicatorStatistics", "p.replicators"] := rfl
theorem stopReplicator_maps :
    C08.stopReplicatorExistsMaps = ["p.replicators"] ∧ C08.stopReplicatorPublishes = ["p.replicators"] := ⟨rfl, rfl⟩
theorem maps_build_eq (m : Maps.M) :
    Maps.build .repl m = (if m.repl then m else { repl := true, stats := true }) := rfl
/-- the replica service client is created inside IsReady, unconditionally, i.e. by every handshake (side model
`Conn` with `perHandshake = true`); the stream is dropped unconditionally by IsReady's handshake and by Close -/
theorem create_client_sites : C08.createClientSites = ["IsReady"] := rfl
theorem close_stream_sites : C08.closeStreamSites = ["IsReady", "Close"] := rfl
theorem close_stream_conds : C08.closeStreamConds = ["r.replicaStream != nil", "err != nil"] := rfl
/-- the closed branch is modelled for the shape that checks `resp.Err` (fix 5d9ed1f): without the check the
closed partition's don't-care answer 0 would acknowledge replica index 0 -/
theorem resp_err_checked : C08.respErrChecked = true := rfl
/-- `ReplicaHandler.Replica` (follower side of the stream): resolves its partition once per stream, then
Recv / ReplicaLog / Send — an error of ReplicaLog (closed partition, failed Put) is only reported in `resp.Err` -/
theorem handler_conds : C08.handlerConds =
    ["err != nil", "err != nil", "err != nil", "err == io.EOF", "err != nil", "err != nil", "err != nil"] := rfl
theorem handler_calls : C08.handlerCalls =
    ["server.Context", "r.getReplicaStateFromCtx", "r.getOrCreatePartition", "p.BuildReplicaForFollower", "server.Recv",
     "p.ReplicaLog", "server.Send"] := rfl
/-- `partition.recovery`: one buildReplica per consumer-group directory, no other condition than its error -/
theorem recovery_conds : C08.recoveryConds = ["err != nil"] := rfl
theorem recovery_calls : C08.recoveryCalls = ["log.ConsumerGroupNames", "models.ParseNodeID", "p.buildReplica"] := rfl
theorem replicaLog_conds : C08.replicaLogConds = ["p.closed.Load()", "replicaIdx != appendIdx", "err != nil"] := rfl

/-- NewConsumerGroup: re-open lifts consumed to the (lifted) ack; a new group starts at the queue's ack -/
theorem liftAck_eq (g a : Int) : liftAck g a = (if C08.reopenLiftCond g a = true then a else g) := by
  simp only [liftAck, C08.reopenLiftCond, decide_eq_true_eq]
theorem liftCons_eq (c g : Int) : liftCons c g = (if C08.reopenConsumedCond c g = true then g else c) := by
  simp only [liftCons, C08.reopenConsumedCond, decide_eq_true_eq]
theorem newGroup_assigns : C08.newGroupAssigns =
    ["ackSeq := int64(-1)", "ackSeq = int64(metaPage.ReadUint64(consumerGroupAcknowledgedSeqOffset))",
     "ackSeq = ackOfQueue", "ackSeq = q.Queue().AcknowledgedSeq()", "consumedSeq := int64(-1)",
     "consumedSeq = int64(metaPage.ReadUint64(consumerGroupConsumedSeqOffset))", "consumedSeq = ackSeq",
     "consumedSeq = ackSeq"] := rfl

/-- **Whole-function tie of IsReady's handshake (round 12).** `C08.handshakePlan` is the decision tree
re-read from the source of `remoteReplicator.IsReady` on every run (from `r.closeStream()` to every
`return`: guards, local index formulas, accessor reads, rpcs with their error branches, state-changing
calls with their argument expressions, the state stored before each return). For EVERY state, EVERY fault
and every `cfg` run with the regenerated guard shape, the model's `handshake` is the interpretation of
that tree (`runPlan`, which knows what each primitive means and nothing about order, guards or arguments). -/
theorem handshake_plan_eq (cfg : Cfg) (hfx : cfg.fixed = C08.aheadFixed) (s : St) (f : Fault) :
    runPlan C08.handshakePlan s f = some (handshake cfg s f) :=
  handshake_eq_plan cfg (by rw [hfx]; rfl) s f

/-- hence `IsReady` on a live follower with a channel that is not ready -/
theorem isReady_plan_eq (cfg : Cfg) (hfx : cfg.fixed = C08.aheadFixed) (s : St) (f : Fault)
    (hn : s.chan ≠ .ready) (hl : s.live = true) :
    runPlan C08.handshakePlan s f = some (isReady cfg s f) := by
  rw [handshake_plan_eq cfg hfx]
  simp [isReady, hn, hl]

/-- **Whole-function tie of `remoteReplicator.Replica` (round 12).** `C08.replicaPlan idx` is the decision tree
re-read from the source of `Replica(idx, msg)` on every run (Send with its error branch, Recv with its error
branch, the test on the answer incl. `resp.Err`, `SetAckIndex` with its argument, the state stored on each
path). For EVERY state, index, message and fault the model's `replicaSend` — run with the regenerated shape of
the else-branch — leaves the state the interpretation of that tree leaves. -/
theorem replica_plan_eq (cfg : Cfg) (hm : cfg.mfail = C08.mismatchSetsFailure) (s : St) (idx : Int) (m : Msg) (f : Fault) :
    runSend m (C08.replicaPlan idx) s none f = some (replicaSend cfg s idx m f).1 :=
  replicaSend_eq_plan cfg (by rw [hm]; rfl) s idx m f


/-- `writeAheadLog.GetOrCreatePartition`: ONE critical section — lock, deferred unlock, lookup, the open (family, queue
files, partition, replica loop), store. This is what makes `WalOpen.step true` the model of the tree (driver C08Wal). -/
theorem wal_open_steps : C08.walOpenSteps =
    ["lock", "defer-unlock", "lookup", "open-family", "open-queue", "new-partition", "start-replica", "store"] := by decide

end Tie

/-- **The regenerated `Replica` acknowledges only what the follower appended** (every state, index, message,
fault — no reachability needed): interpreting the tree read from `Replica`'s source, the group's ack moves only
to the sent index, and only when the follower appended exactly this message at exactly that position. -/
theorem plan_replica_ack_sound (s s' : St) (idx : Int) (m : Msg) (f : Fault)
    (h : runSend m (LinVerif.Generated.C08.replicaPlan idx) s none f = some s') (hg : s'.gack ≠ s.gack) :
    s'.gack = idx ∧ idx = s.F.app + 1 ∧ s'.F = s.F.put m := by
  rw [Tie.replica_plan_eq { fixed := true, mfail := true, wake := true } rfl] at h
  have h' := Option.some.inj h
  subst h'
  revert hg
  unfold replicaSend replicaLog ackGroup
  by_cases h1 : s.stream ≠ .up ∨ f = .send
  · simp [h1]
  have hs : s.stream = .up := Classical.byContradiction fun h => h1 (Or.inl h)
  have hf : f ≠ .send := fun h => h1 (Or.inr h)
  by_cases h2 : f = .recv
  · subst h2; simp [hs]
  by_cases hc : s.closed = true
  · simp [hs, hf, h2, hc]
  by_cases hi : idx = s.F.app + 1
  · by_cases hp : f = .put
    · subst hp; simp [hs, hc, hi]
    · simp [hs, hf, h2, hc, hi, hp]
      split <;> simp
  · simp [hs, hf, h2, hc, hi]
    have : ¬ (s.F.app + 1 = idx) := fun h => hi h.symm
    simp [this]

/-- **The regenerated handshake meets the handshake's post-condition** (every event sequence, every fault):
whenever the decision tree read from IsReady's source, interpreted on a reachable state with a live follower
and a channel that is not ready, returns true, the channel is ready and the leader's next replica index =
the follower's next index = max(follower's next index before, group ack + 1) — "resumes from the first
position the follower lacks and the leader still holds". -/
theorem plan_resync_handshake (cfg : Cfg) (hfx : cfg.fixed = LinVerif.Generated.C08.aheadFixed)
    (evs : List Ev) (f : Fault) (s' : St)
    (hn : (run cfg evs).chan ≠ .ready) (hl : (run cfg evs).live = true)
    (h : runPlan LinVerif.Generated.C08.handshakePlan (run cfg evs) f = some (s', true)) :
    s'.chan = .ready ∧ s'.cons + 1 = s'.F.app + 1 ∧
      s'.cons + 1 = max ((run cfg evs).F.app + 1) ((run cfg evs).gack + 1) := by
  rw [Tie.isReady_plan_eq cfg hfx _ f hn hl] at h
  have h' : isReady cfg (run cfg evs) f = (s', true) := Option.some.inj h
  have hok : (isReady cfg (run cfg evs) f).2 = true := by rw [h']
  have := resync_handshake cfg evs f hn hok
  rw [h'] at this
  exact this

/-- **The regenerated handshake is sound** (every event sequence, every fault, whatever the channel state):
interpreting the decision tree read from IsReady's source on a reachable state never lowers the group's
ack, moves it only to a position the follower has appended (`SetAckIndex(remoteLastReplicaAckIdx)`), leaves
the follower's log alone unless the follower is behind the ack (the Reset branch), leaves the leader's log
alone unless the follower is ahead of it (the ResetAppendIndex branch), and a result `false` leaves the
channel in `failure` (the next loop iteration runs the handshake again). -/
theorem plan_handshake_sound (cfg : Cfg) (hfx : cfg.fixed = LinVerif.Generated.C08.aheadFixed)
    (evs : List Ev) (f : Fault) (s' : St) (b : Bool)
    (h : runPlan LinVerif.Generated.C08.handshakePlan (run cfg evs) f = some (s', b)) :
    (run cfg evs).gack ≤ s'.gack ∧
    (s'.gack ≠ (run cfg evs).gack → s'.gack ≤ s'.F.app) ∧
    (¬ ((run cfg evs).F.app < (run cfg evs).gack) → s'.F = (run cfg evs).F) ∧
    ((run cfg evs).F.app ≤ (run cfg evs).L.app → s'.L = (run cfg evs).L) ∧
    (b = false → s'.chan = .failure) := by
  rw [Tie.handshake_plan_eq cfg hfx] at h
  have h' : handshake cfg (run cfg evs) f = (s', b) := Option.some.inj h
  have hs := handshake_spec cfg (run cfg evs) f (full_run cfg evs).a
  rw [h'] at hs
  exact ⟨hs.gmono, hs.ackok, hs.fkeep, hs.lkeep, hs.fail⟩

/-! ## 6. non-vacuity -/

/-- `plan_replica_ack_sound`'s hypotheses are satisfiable: a synced channel with one message pending, consumed
and offered at index 1 — the regenerated tree of `Replica` moves the ack 0 -> 1 -/
example :
    ∃ s', runSend [2] (LinVerif.Generated.C08.replicaPlan 1)
        (consume (run { fixed := true, mfail := true, wake := true } [.append [1], .step .a .none, .append [2]])).1 none .none = some s' ∧
      s'.gack = 1 ∧
      (consume (run { fixed := true, mfail := true, wake := true } [.append [1], .step .a .none, .append [2]])).1.gack = 0 :=
  ⟨_, Tie.replica_plan_eq { fixed := true, mfail := true, wake := true } rfl _ _ _ _, by decide, by decide⟩

/-- `plan_resync_handshake`'s hypotheses are satisfiable in the rarely taken region: a message consumed by
the leader and never acknowledged (request lost) AND a follower that came back without its log — the
"follower behind the ack" branch with `consumed = ack + 1`: the follower is reset to ack + 1 = 1 (not to the
leader's current replica index 2), so position 1 is sent again. -/
example :
    let cfg : Cfg := { fixed := true, mfail := true, wake := true }
    let s := run cfg [.append [1], .append [2], .step .a .none, .step .a .send, .flose .a]
    s.chan ≠ .ready ∧ s.live = true ∧ s.cons = 1 ∧ s.gack = 0 ∧ s.F.app = -1 ∧
    (∃ s', runPlan LinVerif.Generated.C08.handshakePlan s .none = some (s', true) ∧
      s'.cons + 1 = 1 ∧ s'.F.app + 1 = 1) := by
  refine ⟨by decide, by decide, by decide, by decide, by decide, ?_⟩
  rw [Tie.handshake_plan_eq { fixed := true, mfail := true, wake := true } rfl]
  exact ⟨_, rfl, by decide, by decide⟩


/-- a history with a lost request and a follower restart that ends synced with follower A
holding two positions, while follower B got everything -/
def sample : List Ev :=
  [.join .b, .append [1], .append [2], .step .a .send, .step .a .none, .frestart .a, .append [3], .step .a .none, .step .a .none,
   .step .a .none, .step .b .none, .step .b .none, .step .b .none]

example : NoLoss sample := by
  intro e he k hk
  subst hk
  simp [sample] at he
example : Synced (run { fixed := true, mfail := false, wake := true } sample) := by decide
example : (run { fixed := true, mfail := false, wake := true } sample).F.app = 2 ∧ (run { fixed := true, mfail := false, wake := true } sample).gack = 2 ∧
    (run { fixed := true, mfail := false, wake := true } sample).F.get 1 = some [2] ∧ (run { fixed := true, mfail := false, wake := true } sample).F2.app = 2 := by decide
/-- `resync_progress`'s hypotheses are satisfiable -/
example : Synced (run { fixed := true, mfail := false, wake := true } [.append [1], .step .a .none, .append [2]]) ∧
    (run { fixed := true, mfail := false, wake := true } [.append [1], .step .a .none, .append [2]]).F.app <
      (run { fixed := true, mfail := false, wake := true } [.append [1], .step .a .none, .append [2]]).L.app := by decide
/-- `resync_handshake`'s hypotheses are satisfiable, in the branch that resets the follower -/
example : (run { fixed := true, mfail := false, wake := true } [.append [1], .step .a .none, .flose .a, .append [2], .step .a .none]).chan ≠ .ready ∧
    (isReady { fixed := true, mfail := false, wake := true } (run { fixed := true, mfail := false, wake := true } [.append [1], .step .a .none, .flose .a, .append [2], .step .a .none]) .none).2 = true ∧
    (isReady { fixed := true, mfail := false, wake := true } (run { fixed := true, mfail := false, wake := true } [.append [1], .step .a .none, .flose .a, .append [2], .step .a .none]) .none).1.F.ack = 0 := by
  decide
/-- `resync_one_step`'s, `resync_online`'s and `resync_two_steps`' hypotheses are satisfiable -/
example : (run { fixed := true, mfail := false, wake := true } [.append [1], .step .a .send]).chan ≠ .ready ∧
    (run { fixed := true, mfail := false, wake := true } [.append [1], .step .a .send]).live = true ∧
    (run { fixed := true, mfail := false, wake := true } [.append [1], .step .a .send]).susp = false := by decide
example : (run { fixed := true, mfail := false, wake := true } [.offline .a, .step .a .none]).chan ≠ .ready ∧
    (run { fixed := true, mfail := false, wake := true } [.offline .a, .step .a .none]).susp = true := by decide
/-- `expire_safe` is about a reachable situation: the expiry check stops a drained group, keeps an undrained one -/
example : (run { fixed := true, mfail := false, wake := true } [.join .b, .append [1], .step .a .none, .expire]).stopped = true ∧
    (run { fixed := true, mfail := false, wake := true } [.join .b, .append [1], .step .a .none, .expire]).stopped2 = false ∧
    (run { fixed := true, mfail := false, wake := true } [.join .b, .append [1], .step .a .none, .expire]).gone = false := by decide
/-- `join_sound`: a follower added to a partition whose log holds un-released messages starts at the
queue's ack and is sent the whole backlog -/
example : (run { fixed := true, mfail := false, wake := true } [.append [1], .append [2], .step .a .none, .join .b]).gack2 = -1 ∧
    (run { fixed := true, mfail := false, wake := true } [.append [1], .append [2], .step .a .none, .join .b, .step .b .none, .step .b .none]).F2.app = 1 := by
  decide
/-- restoring an OLDER image after a newer one is expressible -/
example : (run { fixed := true, mfail := false, wake := true } [.append [1], .lsnap, .append [2], .lsnap, .append [3], .lrestore 0, .lrestore 1]).L.app = 0 := by
  decide

/-- `closed_never_acks` at the boundary: the stream is opened before the first message exists, the follower's
partition is closed under it, the first message carries replica index 0 = the closed branch's answer 0:
not acknowledged, the state becomes `failure`; the next call resynchronises and the follower holds position 0 -/
example : (run { fixed := true, mfail := true, wake := true } [.step .a .none, .fclose .a, .append [1]]).closed = true ∧
    Synced (run { fixed := true, mfail := true, wake := true } [.step .a .none, .fclose .a, .append [1]]) ∧
    (run { fixed := true, mfail := true, wake := true } [.step .a .none, .fclose .a, .append [1], .step .a .none]).gack = -1 ∧
    (run { fixed := true, mfail := true, wake := true } [.step .a .none, .fclose .a, .append [1], .step .a .none]).chan = .failure ∧
    Synced (run { fixed := true, mfail := true, wake := true } [.step .a .none, .fclose .a, .append [1], .step .a .none, .step .a .none]) ∧
    (run { fixed := true, mfail := true, wake := true } [.step .a .none, .fclose .a, .append [1], .step .a .none, .step .a .none]).F.get 0 = some [1] ∧
    (run { fixed := true, mfail := true, wake := true } [.step .a .none, .fclose .a, .append [1], .step .a .none, .step .a .none]).gack = 0 := by
  decide
/-- `restart_offline_then_online_resyncs` with a backlog: the follower gets it after coming back -/
example : (run { fixed := true, mfail := true, wake := true }
      [.append [1], .offline .a, .step .a .none, .append [2], .lrestart, .step .a .none, .online .a .none, .step .a .none]).F.app = 1 ∧
    (run { fixed := true, mfail := true, wake := true }
      [.append [1], .offline .a, .step .a .none, .append [2], .lrestart, .step .a .none, .online .a .none, .step .a .none]).gack = 1 := by
  decide

/-- `fclose_then_steps_resyncs`, `offline_online_then_steps_resyncs`, `join_after_expire_rebuilds` on concrete histories
(HEAD configuration): the follower ends with the leader's appended index, in step -/
example : (run { fixed := true, mfail := true, wake := true }
      [.append [1], .step .a .none, .fclose .a, .append [2], .step .a .none, .step .a .none, .step .a .none]).F.app = 1 ∧
    Synced (run { fixed := true, mfail := true, wake := true }
      [.append [1], .step .a .none, .fclose .a, .append [2], .step .a .none, .step .a .none, .step .a .none]) := by decide
example : (run { fixed := true, mfail := true, wake := true }
      [.append [1], .step .a .none, .offline .a, .online .a .none, .append [2], .step .a .none, .step .a .none]).F.app = 1 ∧
    (run { fixed := true, mfail := true, wake := true }
      [.append [1], .step .a .none, .offline .a]).stream = .broken ∧
    Synced (run { fixed := true, mfail := true, wake := true }
      [.append [1], .step .a .none, .offline .a, .online .a .none, .append [2], .step .a .none, .step .a .none]) := by decide
example : (run { fixed := true, mfail := true, wake := true }
      [.join .b, .append [1], .step .a .none, .expire]).stopped = true ∧
    (run { fixed := true, mfail := true, wake := true }
      [.join .b, .append [1], .step .a .none, .expire]).gone = false ∧
    (run { fixed := true, mfail := true, wake := true }
      [.join .b, .append [1], .step .a .none, .expire, .join .a, .append [2], .step .a .none, .step .a .none]).F.app = 1 := by decide

/-! ## 7. where the code violates the property -/

namespace Neg

/-- (1) The leader loses its tail (restore of the image taken after 4 replicated messages),
re-appends three new messages — beyond what the follower holds — and only then handshakes:
neither reset branch fires, the group's ack jumps to the follower's appended index, the channel is
synced, and positions 4 and 5 hold different bytes on the two sides. -/
def witnessB : List Ev :=
  [.append [0xa0], .append [0xa1], .append [0xa2], .append [0xa3], .step .a .none, .step .a .none, .step .a .none, .step .a .none,
   .lsnap, .append [0xa4], .append [0xa5], .step .a .none, .step .a .none, .lrestore 0,
   .append [0xb4], .append [0xb5], .append [0xb6], .step .a .none]

theorem reappend_before_handshake (cfg : Cfg) :
    Synced (run cfg witnessB) ∧ (run cfg witnessB).dz = false ∧
    (run cfg witnessB).L.get 4 = some [0xb4] ∧ (run cfg witnessB).F.get 4 = some [0xa4] ∧
    (run cfg witnessB).L.get 5 = some [0xb5] ∧ (run cfg witnessB).F.get 5 = some [0xa5] ∧
    (run cfg witnessB).gack = 6 := by
  cases cfg with
  | mk fixed mfail wake tok => cases fixed <;> cases mfail <;> cases wake <;> cases tok <;> decide

/-- the full-strength agreement clause for histories with leader tail loss ("whenever the
channel is synced, a position held by both holds the same bytes") does not hold, for either shape
of the guard -/
theorem agreement_synced_full_fails (cfg : Cfg) :
    ¬ (∀ evs : List Ev, Synced (run cfg evs) → (run cfg evs).dz = false → ∀ i m m',
        (run cfg evs).L.get i = some m → (run cfg evs).F.get i = some m' → m = m') := by
  intro h
  have w := reappend_before_handshake cfg
  have := h witnessB w.1 w.2.1 4 _ _ w.2.2.1 w.2.2.2.1
  simp at this

/-- (2, repaired in the tree by fix 32eabc8) The follower is ahead of the restored leader by EXACTLY
one message. With the old guard `remoteLastReplicaAckIdx > appendIdx` (a sequence compared with an
index) `ResetAppendIndex` is skipped and the leader's next append lands on a position the follower
already holds. -/
def witnessD : List Ev :=
  [.append [0xa0], .append [0xa1], .append [0xa2], .append [0xa3], .step .a .none, .step .a .none, .step .a .none, .step .a .none,
   .lsnap, .append [0xa4], .step .a .none, .lrestore 0, .step .a .none, .append [0xb4], .append [0xb5], .step .a .none]

theorem follower_ahead_by_one :
    Synced (run { fixed := false, mfail := false, wake := true } witnessD) ∧
    (run { fixed := false, mfail := false, wake := true } witnessD).L.get 4 = some [0xb4] ∧ (run { fixed := false, mfail := false, wake := true } witnessD).F.get 4 = some [0xa4] ∧
    (run { fixed := false, mfail := false, wake := true } witnessD).F.get 5 = some [0xb5] ∧ (run { fixed := false, mfail := false, wake := true } witnessD).gack = 5 := by
  decide

theorem follower_ahead_by_one_fixed :
    Synced (run { fixed := true, mfail := false, wake := true } witnessD) ∧
    (run { fixed := true, mfail := false, wake := true } witnessD).L.get 4 = none ∧ (run { fixed := true, mfail := false, wake := true } witnessD).F.get 4 = some [0xa4] ∧
    (run { fixed := true, mfail := false, wake := true } witnessD).L.get 5 = some [0xb4] ∧ (run { fixed := true, mfail := false, wake := true } witnessD).F.get 5 = some [0xb4] ∧
    (run { fixed := true, mfail := false, wake := true } witnessD).L.get 6 = some [0xb5] := by
  decide

/-- (3) Two followers. Both have replicated 0..3; A also got 4..6; the leader loses its tail back to 3.
B's handshake finds nothing to do (`ready`). A's handshake finds A ahead and calls `ResetAppendIndex`,
i.e. `fanOutQueue.SetAppendedSeq`, which moves the queue AND EVERY group — B's too — to 6.
Now the leader treats 4..6 as acknowledged by B, which holds only 0..3, B's channel is still `ready`,
every later message is offered at an index B refuses (the "TODO: need reset" branch), nothing is
acknowledged and nothing ever triggers a new handshake: B never receives b7, b8. -/
def witnessE : List Ev :=
  [.join .b, .append [0xa0], .append [0xa1], .append [0xa2], .append [0xa3], .step .a .none, .step .a .none, .step .a .none, .step .a .none,
   .step .b .none, .step .b .none, .step .b .none, .step .b .none, .lsnap,
   .append [0xa4], .append [0xa5], .append [0xa6], .step .a .none, .step .a .none, .step .a .none, .lrestore 0,
   .step .b .none, .step .a .none, .append [0xb7], .step .b .none, .append [0xb8], .step .b .none, .step .a .none, .step .a .none]

/-- the history up to (and including) A's handshake: the moment `ResetAppendIndex` has moved B's group -/
def witnessE0 : List Ev := witnessE.take 23

/-- at that moment, in EITHER shape of Replica's else-branch: B's channel is `ready` on a live stream and
the leader treats 4..6 as acknowledged by B, which holds 0..3 -/
theorem other_follower_moves_group (cfg : Cfg) :
    (run cfg witnessE0).chan2 = .ready ∧ (run cfg witnessE0).stream2 = .up ∧ (run cfg witnessE0).dz2 = true ∧
    (run cfg witnessE0).gack2 = 6 ∧ (run cfg witnessE0).cons2 = 6 ∧ (run cfg witnessE0).F2.app = 3 ∧
    (run cfg witnessE0).L.ack = 6 := by
  cases cfg with
  | mk fixed mfail wake tok => cases fixed <;> cases mfail <;> cases wake <;> cases tok <;> decide

/-- the next message for B ends in the mismatched-answer branch (either shape) -/
theorem mismatch_reachable (cfg : Cfg) :
    (next cfg (run cfg (witnessE0 ++ [.append [0xb7]])) (.step .b .none)).2 = .mismatch := by
  cases cfg with
  | mk fixed mfail wake tok => cases fixed <;> cases mfail <;> cases wake <;> cases tok <;> decide

/-- the tree as it is: B's channel stays `ready`, every later message is refused, B never gets b7, b8 -/
theorem other_follower_wedged (fixed : Bool) :
    (run { fixed := fixed, mfail := false, wake := true } witnessE).chan2 = .ready ∧ (run { fixed := fixed, mfail := false, wake := true } witnessE).stream2 = .up ∧
    (run { fixed := fixed, mfail := false, wake := true } witnessE).gack2 = 6 ∧ (run { fixed := fixed, mfail := false, wake := true } witnessE).F2.app = 3 ∧
    (run { fixed := fixed, mfail := false, wake := true } witnessE).cons2 = 8 ∧ (run { fixed := fixed, mfail := false, wake := true } witnessE).F.app = 8 ∧
    (next { fixed := fixed, mfail := false, wake := true } (run { fixed := fixed, mfail := false, wake := true } (witnessE ++ [.append [0xb9]])) (.step .b .none)).2 = .mismatch := by
  cases fixed <;> decide

/-- the repaired shape: the first refused message puts B's channel into `failure`; the forced handshake
finds B behind the (moved) ack and resets B to 7: B gets b7 and b8 and the channel is in step again — but
B's log now starts after 6: positions 4..6 (dropped by the leader at `ResetAppendIndex`, counted as
acknowledged by B) never reach B. The wedge is gone, the unsound acknowledgement is not. -/
theorem other_follower_repaired (fixed : Bool) :
    (run { fixed := fixed, mfail := true, wake := true } (witnessE ++ [.step .b .none])).chan2 = .ready ∧
    (run { fixed := fixed, mfail := true, wake := true } (witnessE ++ [.step .b .none])).stream2 = .up ∧
    (run { fixed := fixed, mfail := true, wake := true } (witnessE ++ [.step .b .none])).dz2 = false ∧
    (run { fixed := fixed, mfail := true, wake := true } (witnessE ++ [.step .b .none])).F2.ack = 6 ∧
    (run { fixed := fixed, mfail := true, wake := true } (witnessE ++ [.step .b .none])).F2.app = 8 ∧
    (run { fixed := fixed, mfail := true, wake := true } (witnessE ++ [.step .b .none])).gack2 = 8 ∧
    (run { fixed := fixed, mfail := true, wake := true } (witnessE ++ [.step .b .none])).F2.get 8 = some [0xb8] ∧
    (run { fixed := fixed, mfail := true, wake := true } (witnessE ++ [.step .b .none])).F2.get 5 = none := by
  cases fixed <;> decide

/-- the un-hedged soundness clause ("a ready channel with a live stream never treats a position as
acknowledged that the follower has not appended") fails with two followers and leader tail loss, in
either shape of the guard and of Replica's else-branch -/
theorem ack_sound_synced_full_fails (cfg : Cfg) :
    ¬ (∀ evs : List Ev, (run cfg evs).chan2 = .ready → (run cfg evs).stream2 = .up →
        (run cfg evs).gack2 ≤ (run cfg evs).F2.app) := by
  intro h
  have w := other_follower_moves_group cfg
  have := h witnessE0 w.1 w.2.1
  rw [w.2.2.2.1, w.2.2.2.2.2.1] at this
  omega

/-- (4) A storage fault on the follower: its `Put` fails once while the connection is healthy. The
handler answers `AckIndex = -1` with `Err` set; the leader ignores `resp.Err`, sees -1 ≠ sent index
and takes the "TODO: need reset" branch: nothing is acknowledged (sound), but — in the tree as it is —
the channel stays `ready` with the replica index one past the follower's next index, so every later
message is refused and the channel does not resynchronise until something breaks the stream. -/
def witnessP : List Ev :=
  [.append [0xa0], .step .a .none, .append [0xa1], .step .a .put, .append [0xa2], .step .a .none, .append [0xa3], .step .a .none]

theorem put_fault_wedges_channel (fixed : Bool) :
    Synced (run { fixed := fixed, mfail := false, wake := true } witnessP) ∧ (run { fixed := fixed, mfail := false, wake := true } witnessP).gack = 0 ∧
    (run { fixed := fixed, mfail := false, wake := true } witnessP).F.app = 0 ∧
    (run { fixed := fixed, mfail := false, wake := true } witnessP).cons = 3 ∧ (run { fixed := fixed, mfail := false, wake := true } witnessP).L.app = 3 ∧
    (next { fixed := fixed, mfail := false, wake := true } (run { fixed := fixed, mfail := false, wake := true } (witnessP ++ [.append [0xa4]])) (.step .a .none)).2 = .mismatch := by
  cases fixed <;> decide

/-- ... and the first stream fault afterwards (noticed with the next message) repairs it -/
theorem put_fault_recovers_after_stream_fault (fixed : Bool) :
    Synced (run { fixed := fixed, mfail := false, wake := true } (witnessP ++ [.frestart .a, .append [0xa4], .step .a .none, .step .a .none, .step .a .none, .step .a .none, .step .a .none])) ∧
    (run { fixed := fixed, mfail := false, wake := true } (witnessP ++ [.frestart .a, .append [0xa4], .step .a .none, .step .a .none, .step .a .none, .step .a .none, .step .a .none])).F.app = 4 := by
  cases fixed <;> decide

/-- the repaired shape on the same history: the follower has caught up by the end, no stream fault needed
(the general statement is `resync_after_put_fault`) -/
theorem put_fault_repaired (fixed : Bool) :
    Synced (run { fixed := fixed, mfail := true, wake := true } (witnessP ++ [.step .a .none])) ∧
    (run { fixed := fixed, mfail := true, wake := true } (witnessP ++ [.step .a .none])).F.app = 3 ∧
    (run { fixed := fixed, mfail := true, wake := true } (witnessP ++ [.step .a .none])).gack = 3 := by
  cases fixed <;> decide

/-- (5, not in the tree: what `Tie.wake_send_blocking` and `online_never_lost` exclude) with a non-blocking
wake-up an online notification that lands between the loop's CAS and its receive is dropped: the loop is
parked with `isSuspend = false`, and no later notification can release it -/
theorem wakeup_lost_if_nonblocking (fixed mfail : Bool) :
    (run { fixed := fixed, mfail := mfail, wake := false } [.offline .a, .steponl .a .none]).parked = true ∧
    (run { fixed := fixed, mfail := mfail, wake := false } [.offline .a, .steponl .a .none]).susp = false ∧
    (run { fixed := fixed, mfail := mfail, wake := false } [.offline .a, .steponl .a .none, .offline .a, .online .a .none]).parked = true := by
  cases fixed <;> cases mfail <;> decide

/-- (6, known finding `online-notification-before-suspend-mark-lost`, the tree as it is) the follower's
online event is handled between the loop's liveness test and its `isSuspend.CompareAndSwap(false, true)`:
the handler's CAS(true,false) finds the flag still false and does nothing, the loop then marks itself and
blocks — Stuck: follower live, no notification in progress, loop in `<-r.suspend`. This is the region the
hypothesis `hit = false` of `wake_no_lost_wakeup_partial` excludes. -/
theorem wake_lost_before_mark :
    Wake.Stuck (Wake.run .blocking [.off, .test, .on, .cas, .mark, .block]) ∧
    (Wake.run .blocking [.off, .test, .on, .cas, .mark, .block]).hit = true ∧
    (Wake.run .blocking [.off, .test, .on, .cas, .mark, .block]).susp = true := by decide

/-- the same in the main model (event `steppre`; witness: repl case 13): the loop is parked with the follower
live, replica calls do nothing, appended messages stay un-replicated — until the follower bounces
(offline, online) once more, which releases it and the backlog arrives -/
theorem online_before_suspend_mark_parks (fixed mfail wake : Bool) :
    let cfg : Cfg := { fixed := fixed, mfail := mfail, wake := wake }
    let s := run cfg [.append [1], .offline .a, .steppre .a .none]
    s.live = true ∧ s.parked = true ∧ s.susp = true ∧
    (next cfg s (.step .a .none)).2 = .suspended ∧ (next cfg s (.step .a .none)).1.F.app = -1 ∧
    (run cfg [.append [1], .offline .a, .steppre .a .none, .offline .a, .online .a .none]).parked = false ∧
    (run cfg [.append [1], .offline .a, .steppre .a .none, .offline .a, .online .a .none]).F.app = 0 := by
  cases fixed <;> cases mfail <;> cases wake <;> decide

/-- the same witness in the token shape (fixes/C08-suspend-token.patch): the loop is released by the token the
handler left, the handshake runs and the pending message arrives — no bounce of the follower needed -/
theorem online_before_suspend_mark_repaired (fixed mfail wake : Bool) :
    let cfg : Cfg := { fixed := fixed, mfail := mfail, wake := wake, tok := true }
    let s := run cfg [.append [1], .offline .a, .steppre .a .none]
    s.live = true ∧ s.parked = false ∧ s.susp = false ∧ Synced s ∧ s.F.app = 0 ∧ s.gack = 0 := by
  cases fixed <;> cases mfail <;> cases wake <;> decide

/-- (not in the tree, seeded c08-7) a non-blocking send loses the wake-up in the window AFTER the mark — under
the very hypothesis (`hit = false`) that makes the blocking shape safe -/
theorem wake_lost_if_nonblocking_sched :
    Wake.Stuck (Wake.run .nonblocking [.off, .test, .mark, .on, .cas, .send, .block]) ∧
    (Wake.run .nonblocking [.off, .test, .mark, .on, .cas, .send, .block]).hit = false ∧
    (Wake.run .nonblocking [.off, .test, .mark, .on, .cas, .send, .block]).susp = false := by decide

/-- (not in the tree, seeded c08-17) an emptiness test on `Pending()` (appended − CONSUMED) lets the expiry
tick stop a replicator whose last message was consumed but never acknowledged -/
theorem tick_pending_test_removes_unacked :
    (Tick.run false [.append, .consume, .lose, .test]).verdict = true ∧
    (Tick.run false [.append, .consume, .lose, .test]).late = false ∧
    (Tick.run false [.append, .consume, .lose, .test]).gack < (Tick.run false [.append, .consume, .lose, .test]).app ∧
    (Tick.run false [.append, .consume, .lose, .test, .stop]).stopped = true := by decide

/-- (observation, the tree as it is; not replayed on the real code — there is no yield point inside IsExpire)
what the hypothesis `late = false` of `tick_never_removes_unacked` excludes: a WriteLog that lands between
IsExpire's emptiness test and its stopReplicator is consumed by the loop and the replicator is removed with
that message in flight -/
theorem tick_append_between_test_and_stop :
    (Tick.run true [.test, .append, .consume, .stop]).stopped = true ∧
    (Tick.run true [.test, .append, .consume, .stop]).infl = some 0 ∧
    (Tick.run true [.test, .append, .consume, .stop]).gack = -1 := by decide

/-- Why `partition.recovery` must rebuild the channel of an OFFLINE follower too: a registered group
without a replicator (`stopped`) is deaf — neither the online notification nor a loop iteration sends
anything, whatever the backlog. (`restart_rebuilds_channels`: recovery never leaves a group like that.) -/
theorem no_replicator_never_resyncs (cfg : Cfg) (s : St) (f : Fault) (hg : s.gone = false) (hs : s.stopped = true) :
    (next cfg s (.online .a f)).2 = .noreplicator ∧ (next cfg s (.online .a f)).1.F = s.F ∧
    (next cfg s (.step .a f)).2 = .noreplicator ∧ (next cfg s (.step .a f)).1 = s := by
  simp [next, hg, Ev.who, peerEv, onlineEv, hs]

/-- Why the leader must look at `resp.Err`: the closed partition's answer carries the don't-care index 0,
which equals the sent replica index exactly for the first message of a log -/
theorem closed_answer_collides_at_zero (F : Log) (idx : Int) :
    ((F, (0 : Int)).2 = idx) ↔ idx = 0 := by
  constructor <;> intro h <;> simp_all

/-- Why IsReady must drop the stream on EVERY failure, not only after a Send/Recv error: `Connect` on a kept
stream does not re-bind the follower's handler — it keeps the closed partition, and by `closed_never_acks`
every send is refused again, for ever -/
theorem kept_stream_stays_closed (s : St) (f : Fault) (hcl : s.closed = true) (hu : s.stream ≠ .none) :
    (connect s f).2 = true ∧ (connect s f).1.closed = true ∧ (connect s f).1.stream = s.stream := by
  unfold connect
  rw [if_pos hu]
  exact ⟨rfl, hcl, rfl⟩

/-- Why buildReplica's "already built" test must read `p.replicators`: with the test on
`p.replicatorStatistics` (never cleaned by stopReplicator) a follower stopped by the expiry check is never
rebuilt, however often BuildReplicaForLeader is called -/
theorem stale_statistics_blocks_rebuild (k : Nat) :
    (Maps.run .stats ([.build, .stop] ++ List.replicate k .build)).repl = false := by
  unfold Maps.run
  rw [List.foldl_append]
  have h0 : List.foldl (Maps.step .stats) { repl := false, stats := false } [.build, .stop] = { repl := false, stats := true } := by
    decide
  rw [h0]
  induction k with
  | zero => rfl
  | succ k ih =>
    rw [List.replicate_succ, List.foldl_cons]
    exact ih

/-- Why the client stub must be created by every handshake: a stub created once and reused is bound to the
connection of that time; after `onNodeFailure` closed and removed it, every later handshake fails, for ever -/
theorem cached_stub_dead_after_offline (k : Nat) :
    (Conn.step false (Conn.run false ([.handshake, .offline] ++ List.replicate k .handshake)) .handshake).2 = false := by
  have h : Conn.run false ([.handshake, .offline] ++ List.replicate k .handshake) = { pool := none, next := 1, stub := some 0 } := by
    unfold Conn.run
    rw [List.foldl_append]
    have h0 : List.foldl (fun c o => (Conn.step false c o).1) Conn.C.init [.handshake, .offline] = { pool := none, next := 1, stub := some 0 } := by
      decide
    rw [h0]
    induction k with
    | zero => rfl
    | succ k ih =>
      rw [List.replicate_succ, List.foldl_cons]
      exact ih
  rw [h]
  decide


/-- The shape with two critical sections (lookup; store) and no re-check: two streams entering together each open the
log directory — two Partition objects, two sets of cursors over the same files (what `wal_one_partition_per_log`
excludes for the tree's shape). -/
theorem wal_split_lock_opens_twice :
    (WalOpen.run false 2 [.call 0, .call 1, .go 0, .go 1]).parts = 2 ∧
    (WalOpen.run false 2 [.call 0, .call 1, .go 0, .go 1]).opens = 2 := by decide

end Neg

end LinVerif.Props.C08
