/-
Property C08 — Replication: a follower's log is a gap-free, byte-identical copy of the leader's.

All theorems quantify over EVERY event sequence `evs : List Ev` of the model
(`LinVerif.Replication.run cfg evs`): leader appends interleaved with replica steps carrying
any connection fault (client creation, get-ack rpc, reset rpc, stream creation, send, recv),
follower restarts, a follower that lost its log, snapshots and restores of the leader's
partition directory (= the leader loses its log tail), leader restarts, follower
offline/online notifications, leader log GC and a second consumer group holding GC back;
and over both shapes `cfg` of the comparison that guards `ResetAppendIndex`.
Helper lemmas: `LinVerif/Lemmas/C08Log.lean`, `LinVerif/Lemmas/C08Inv.lean`.
-/
import LinVerif.Lemmas.C08Inv
import LinVerif.Lemmas.C08Live
import LinVerif.Generated.C08

namespace LinVerif.Props.C08
open LinVerif.Replication

/-! ## 1. no holes -/

/-- The follower's log never has holes: every position it claims (`ack < i ≤ appended`) is readable. -/
theorem no_holes (cfg : Cfg) (evs : List Ev) (i : Int) :
    (run cfg evs).F.ack < i → i ≤ (run cfg evs).F.app → ∃ m, (run cfg evs).F.get i = some m :=
  (binv_run cfg evs).1.fint.holes i

/-- The same for the leader's log (this is what makes `IgnoreMessage` unreachable). -/
theorem leader_no_holes (cfg : Cfg) (evs : List Ev) (i : Int) :
    (run cfg evs).L.ack < i → i ≤ (run cfg evs).L.app → ∃ m, (run cfg evs).L.get i = some m :=
  (binv_run cfg evs).1.lint.holes i

/-! ## 2. agreement -/

/-- Histories in which the leader never loses its log tail: at every moment, a position held
by both logs holds the same bytes. -/
theorem agreement (cfg : Cfg) (evs : List Ev) (h : NoLoss evs) (i : Int) (m m' : Msg) :
    (run cfg evs).L.get i = some m → (run cfg evs).F.get i = some m' → m = m' :=
  fun hl hf => agreement_of_g (nl_run cfg evs h).g hl hf

/-- "A message the leader stores at position i is stored by a follower at position i or not at
all" (no tail loss): whatever the follower holds at `i` is what the leader's pages hold at `i`,
even after the leader has acknowledged/GC'ed past `i`; and the follower is never ahead. -/
theorem stored_at_same_position_or_not_at_all (cfg : Cfg) (evs : List Ev) (h : NoLoss evs) (i : Int) (m' : Msg) :
    (run cfg evs).F.get i = some m' →
      i ≤ (run cfg evs).L.app ∧ lookup i (run cfg evs).L.store = some m' :=
  (nl_run cfg evs h).g i m'

/-- All histories, including leader tail loss, at every moment: the positions the leader has
handed out to this follower and not yet seen acknowledged (`gack < i ≤ consumed`) agree. -/
theorem agreement_inflight (cfg : Cfg) (evs : List Ev) (i : Int) (m m' : Msg) :
    (run cfg evs).gack < i → i ≤ (run cfg evs).cons →
    (run cfg evs).L.get i = some m → (run cfg evs).F.get i = some m' → m = m' :=
  (binv_run cfg evs).1.agr i m m'

/-- All histories, including leader tail loss: whenever the channel is synced (leader state
`ready` and the stream really there), every position ABOVE the follower group's ack that both
hold holds the same bytes.

Full-strength statement (no `gack < i`): "whenever the channel is synced, every position held by
both holds the same bytes" — FALSE of the code, see `Neg.agreement_synced_full_fails`. -/
theorem agreement_leader_loss_partial (cfg : Cfg) (evs : List Ev) (hs : Synced (run cfg evs)) (i : Int) (m m' : Msg) :
    (run cfg evs).gack < i →
    (run cfg evs).L.get i = some m → (run cfg evs).F.get i = some m' → m = m' := by
  intro hg hl hf
  have hb := binv_run cfg evs
  have hc := hb.1.sync hs.1 (by rw [hs.2]; intro e; cases e)
  have hi := (get_some hf).2.1
  exact hb.1.agr i m m' hg (by omega) hl hf

/-! ## 3. acknowledgements are sound -/

/-- Whenever a non-restart event moves the follower group's ack, the new ack is a position the
follower has appended (covers `SetAckIndex` in Replica, in the handshake and in IgnoreMessage). -/
theorem ack_sound (cfg : Cfg) (evs : List Ev) (e : Ev) (he : e.isRestart = false) :
    (next cfg (run cfg evs) e).1.gack ≠ (run cfg evs).gack →
    (next cfg (run cfg evs) e).1.gack ≤ (next cfg (run cfg evs) e).1.F.app :=
  (next_spec cfg _ e (binv_run cfg evs)).ackok he

/-- A synced channel never treats a position as acknowledged that the follower has not appended. -/
theorem ack_sound_synced (cfg : Cfg) (evs : List Ev) (hs : Synced (run cfg evs)) :
    (run cfg evs).gack ≤ (run cfg evs).F.app := by
  have hb := binv_run cfg evs
  have hc := hb.1.sync hs.1 (by rw [hs.2]; intro e; cases e)
  have := hb.1.lint.gack_cons
  omega

/-- Restarts never move the group's ack (the re-open lift to the queue's ack is a no-op). -/
theorem restart_keeps_ack (cfg : Cfg) (evs : List Ev) :
    (next cfg (run cfg evs) .lrestart).1.gack = (run cfg evs).gack := by
  have hl := (binv_run cfg evs).1.lint
  simp only [next, reopenLeader]
  rw [if_neg (by have := hl.ack_gack; omega)]

/-! ## 4. resynchronisation -/

/-- A successful handshake (IsReady on a non-ready channel) leaves the channel `ready` with the
replica index at the follower's next index, which is the first position the follower lacks and
the leader still holds for this follower: `max (follower.next, groupAck + 1)` of the state before. -/
theorem resync_handshake (cfg : Cfg) (evs : List Ev) (f : Fault)
    (hn : (run cfg evs).chan ≠ .ready) (hok : (isReady cfg (run cfg evs) f).2 = true) :
    (isReady cfg (run cfg evs) f).1.chan = .ready ∧
    (isReady cfg (run cfg evs) f).1.cons + 1 = (isReady cfg (run cfg evs) f).1.F.app + 1 ∧
    (isReady cfg (run cfg evs) f).1.cons + 1 = max ((run cfg evs).F.app + 1) ((run cfg evs).gack + 1) := by
  have hb := binv_run cfg evs
  unfold isReady at hok ⊢
  rw [if_neg hn] at hok ⊢
  split at hok
  · simp at hok
  · rename_i hl
    rw [if_neg hl]
    have hs := handshake_spec cfg (run cfg evs) f hb.1
    have h1 := hs.ok_ready hok
    have h2 := hs.ok_idx hok
    refine ⟨h1.1, by omega, ?_⟩
    rw [h2]
    split <;> omega

/-- On a synced channel the next index the leader sends is exactly the follower's next index. -/
theorem resync_sends_next (cfg : Cfg) (evs : List Ev) (hs : Synced (run cfg evs)) :
    (run cfg evs).cons + 1 = (run cfg evs).F.app + 1 := by
  have hb := binv_run cfg evs
  have hc := hb.1.sync hs.1 (by rw [hs.2]; intro e; cases e)
  omega

/-- No event of any history ever ends in the "answer ≠ sent index" branch of Replica (the
"TODO: need reset ack sequence?" branch) nor in IgnoreMessage: both are unreachable under the
modelled faults. -/
theorem resync_unreachable_mismatch (cfg : Cfg) (evs : List Ev) (e : Ev) :
    (next cfg (run cfg evs) e).2 ≠ .mismatch ∧ (next cfg (run cfg evs) e).2 ≠ .ignored :=
  (next_spec cfg _ e (binv_run cfg evs)).label

/-- Progress of a synced channel: with data pending and no fault, one step appends the next
leader message at the follower's next position, byte-identical, and acknowledges it. -/
theorem resync_progress (cfg : Cfg) (evs : List Ev) (hs : Synced (run cfg evs))
    (hsusp : (run cfg evs).susp = false) (hd : (run cfg evs).cons < (run cfg evs).L.app) :
    (next cfg (run cfg evs) (.step .none)).2 = .acked ∧
    (next cfg (run cfg evs) (.step .none)).1.F.app = (run cfg evs).F.app + 1 ∧
    (next cfg (run cfg evs) (.step .none)).1.gack = (run cfg evs).F.app + 1 ∧
    (next cfg (run cfg evs) (.step .none)).1.F.get ((run cfg evs).F.app + 1)
      = (run cfg evs).L.get ((run cfg evs).F.app + 1) ∧
    Synced (next cfg (run cfg evs) (.step .none)).1 := by
  have hb := binv_run cfg evs
  generalize run cfg evs = s at *
  have hc : s.cons = s.F.app := hb.1.sync hs.1 (by rw [hs.2]; intro e; cases e)
  have hl := hb.1.lint
  have hf := hb.1.fint
  obtain ⟨m, hm⟩ := hl.holes (s.cons + 1) (by have := hl.ack_gack; have := hl.gack_cons; omega) (by omega)
  have hne : s.stream ≠ .none := by rw [hs.2]; intro e; cases e
  have hup : ¬ (s.stream ≠ .up ∨ Fault.none = Fault.send) := by
    rw [hs.2]; simp
  have hg : s.gack ≤ s.F.app + 1 ∧ s.F.app + 1 ≤ s.cons + 1 := by
    have := hl.gack_cons; omega
  have h1 : isReady cfg s .none = (s, true) := by
    unfold isReady; rw [if_pos hs.1]
  have h2 : connect s .none = (s, true) := by
    unfold connect; rw [if_pos hne]
  have h3 : sendPhase s .none =
      ({ s with cons := s.cons + 1, F := s.F.put m, gack := s.F.app + 1 }, Out.acked) := by
    unfold sendPhase consume
    rw [if_pos (by omega : s.cons + 1 ≤ s.L.app)]
    dsimp only
    rw [if_neg (by have := hl.ack_ge; have := hl.ack_gack; have := hl.gack_cons; omega : ¬ s.cons + 1 < 0), hm]
    dsimp only
    unfold replicaSend replicaLog
    dsimp only
    rw [if_neg hup, if_neg (by omega : ¬ s.cons + 1 ≠ s.F.app + 1)]
    dsimp only
    rw [if_neg (show ¬ Fault.none = Fault.recv by intro e; cases e), if_pos (by omega : s.F.app + 1 = s.cons + 1)]
    unfold ackGroup
    dsimp only
    rw [if_pos hg]
  have h4 : next cfg s (.step .none) =
      ({ s with cons := s.cons + 1, F := s.F.put m, gack := s.F.app + 1 }, Out.acked) := by
    simp only [next]
    rw [if_neg (by rw [hsusp]; simp)]
    unfold replicaStep
    rw [h1]
    dsimp only
    rw [if_pos rfl, h2]
    dsimp only
    rw [if_pos rfl, h3]
  rw [h4]
  dsimp only
  refine ⟨rfl, by simp only [Log.put], rfl, ?_, ⟨hs.1, hs.2⟩⟩
  rw [get_put_eq hf.ack_app, ← hc, hm]

/-- Resynchronisation needs no operator: from ANY reachable state whose channel is not ready
(after any fault), with the follower live and the loop not parked, one fault-free
`partition.replica` call ends with the channel synced. -/
theorem resync_one_step (cfg : Cfg) (evs : List Ev) (hn : (run cfg evs).chan ≠ .ready)
    (hl : (run cfg evs).live = true) (hs : (run cfg evs).susp = false) :
    Synced (next cfg (run cfg evs) (.step .none)).1 := by
  simp only [next]
  rw [if_neg (by rw [hs]; simp)]
  exact replicaStep_none_syncs cfg _ (binv_run cfg evs).1 hn hl

/-- The same for a loop parked on an offline follower: the online notification alone resumes it
and, without a further fault, the channel ends synced. -/
theorem resync_online (cfg : Cfg) (evs : List Ev) (hn : (run cfg evs).chan ≠ .ready)
    (hs : (run cfg evs).susp = true) :
    Synced (next cfg (run cfg evs) (.online .none)).1 := by
  simp only [next]
  rw [if_pos hs]
  exact replicaStep_none_syncs cfg _ (inv_mk (binv_run cfg evs).1 rfl rfl rfl rfl rfl rfl rfl) hn rfl

/-- A synced channel stays synced under fault-free steps. -/
theorem resync_stays_synced (cfg : Cfg) (evs : List Ev) (h : Synced (run cfg evs))
    (hs : (run cfg evs).susp = false) :
    Synced (next cfg (run cfg evs) (.step .none)).1 := by
  simp only [next]
  rw [if_neg (by rw [hs]; simp)]
  exact replicaStep_none_stays cfg _ h

/-! ## 5. ties to the regenerated facts (replica/*.go, app/storage/rpc/replica.go, pkg/queue/*.go) -/

namespace Tie
open LinVerif.Generated

/-- partition.ReplicaLog: `appendIdx := AppendedSeq()+1; if replicaIdx != appendIdx { return appendIdx }` -/
theorem replicaLog_eq (F : Log) (idx : Int) (m : Msg) :
    replicaLog F idx m =
      (if C08.replicaLogSkipCond idx (C08.followerAppendIdx F.app) = true then (F, C08.followerAppendIdx F.app)
       else (F.put m, C08.followerAppendIdx F.app)) := by
  unfold replicaLog C08.replicaLogSkipCond C08.followerAppendIdx
  by_cases h : idx = F.app + 1 <;> simp [h]

theorem replicaLog_calls : C08.replicaLogCalls =
    ["closed.Load", "log.Queue", "log.Queue().AppendedSeq", "log.Queue", "log.Queue().Put"] := rfl

theorem replicaAckIndex_return : C08.replicaAckIndexReturn = "p.log.Queue().AppendedSeq()" := rfl

/-- partition.ResetReplicaIndex / ReplicaHandler.Reset: `SetAppendedSeq(idx - 1)` of the offered AppendIndex -/
theorem followerReset_eq (F : Log) (idx : Int) :
    followerReset F idx = F.setAppended (C08.followerResetSeq idx) := rfl

theorem handler_reset_arg : C08.handlerResetArg = "request.AppendIndex" := rfl

/-- ReplicaHandler.Replica: the answer carries the offered index and ReplicaLog's result -/
theorem handler_assigns : C08.handlerAssigns =
    ["resp.ReplicaIndex = req.ReplicaIndex", "resp.AckIndex = appendedIdx", "resp.Err = err.Error()"] := rfl

theorem handler_replicaLog_args : C08.handlerReplicaLogArgs = ["req.ReplicaIndex", "req.Record"] := rfl

/-- remoteReplicator.Replica acknowledges iff `resp.AckIndex == resp.ReplicaIndex`, with `resp.AckIndex` -/
theorem ackCond_eq (a r : Int) : C08.ackCond a r = decide (a = r) := rfl

theorem replica_ack_arg : C08.replicaAckArg = "resp.AckIndex" := rfl

theorem replica_calls : C08.replicaCalls =
    ["cli.Send", "state.Store", "cli.Recv", "state.Store", "r.SetAckIndex"] := rfl

theorem connect_calls : C08.connectCalls =
    ["state.Store", "encoding.JSONMarshal", "rpc.CreateOutgoingContextWithPairs", "replicaCli.Replica",
     "state.Store", "state.Store"] := rfl

/-- partition.replica: IsReady && Connect, Consume, GetMessage, IgnoreMessage | Replica -/
theorem partitionReplica_calls : C08.partitionReplicaCalls =
    ["defer:?", "replicator.IsReady", "replicator.Connect", "replicator.Consume", "replicator.GetMessage",
     "replicator.IgnoreMessage", "replicator.Replica"] := rfl

/-- consumerGroup.Ack: `ackSeq >= ts && ackSeq <= hs` -/
theorem ackGroup_eq (s : St) (a : Int) :
    ackGroup s a = (if C08.groupAckCond a s.gack s.cons = true then { s with gack := a } else s) := by
  simp only [ackGroup, C08.groupAckCond, decide_eq_true_eq, ge_iff_le]

/-- consumerGroup.consume with replicator.ReplicaIndex: head = consumed+1, `headSeq <= AppendedSeq()` -/
theorem consume_eq (s : St) :
    consume s = (if C08.consumeCond (C08.replicaIndexOf s.cons) s.L.app = true
      then ({ s with cons := C08.replicaIndexOf s.cons }, C08.replicaIndexOf s.cons) else (s, -1)) := by
  unfold consume C08.consumeCond C08.replicaIndexOf
  by_cases h : s.cons + 1 ≤ s.L.app <;> simp [h]

/-- replicator.IgnoreMessage: `currentAck+1 == replicaIdx` -/
theorem ignoreMessage_eq (s : St) (idx : Int) :
    ignoreMessage s idx = (if C08.ignoreCond s.gack idx = true then ackGroup s idx else s) := by
  simp only [ignoreMessage, C08.ignoreCond, decide_eq_true_eq]

/-- queue.Get / validateSequence: rejected iff `sequence > appended || sequence <= acknowledged` -/
theorem get_eq (l : Log) (i : Int) :
    l.get i = (if C08.getRejectCond i l.app l.ack = true then none else lookup i l.store) := by
  unfold Log.get C08.getRejectCond
  by_cases h : l.ack < i ∧ i ≤ l.app
  · rw [if_pos h, if_neg]
    simp only [decide_eq_true_eq]; omega
  · rw [if_neg h, if_pos]
    simp only [decide_eq_true_eq]; omega

/-- queue.SetAcknowledgedSeq: `seq > acknowledged && seq <= appended` -/
theorem setAck_eq (l : Log) (a : Int) :
    l.setAck a = (if C08.setAckCond a l.app l.ack = true then { l with ack := a } else l) := by
  simp only [Log.setAck, C08.setAckCond, decide_eq_true_eq, gt_iff_lt]

/-- queue.SetAppendedSeq stores both counters; fanOutQueue.SetAppendedSeq = queue + every group's SetSeq -/
theorem setAppended_stores : C08.queueSetAppendedStores = ["appendedSeq.Store(seq)", "acknowledgedSeq.Store(seq)"] := rfl
theorem setSeq_stores : C08.groupSetSeqStores = ["consumedSeq.Store(seq)", "acknowledgedSeq.Store(seq)"] := rfl
theorem fanout_setAppended_calls : C08.fanoutSetAppendedCalls = ["queue.SetAppendedSeq", "fo.SetSeq"] := rfl

/-- replicator.ResetReplicaIndex / ResetAppendIndex / AppendIndex -/
theorem resetReplicaIndex_eq (s : St) (idx : Int) :
    resetReplicaIndex s idx = { s with cons := C08.resetReplicaSeq idx } := rfl
theorem resetAppendIndex_eq (s : St) (idx : Int) :
    resetAppendIndex s idx =
      { s with
        L := s.L.setAppended (C08.resetAppendSeq idx)
        cons := C08.resetAppendSeq idx
        gack := C08.resetAppendSeq idx
        oack := C08.resetAppendSeq idx } := rfl
theorem appendIndex_eq (a : Int) : C08.appendIndexOf a = a + 1 := rfl

/-- IsReady: the equality test, the two switch cases, the index formulas, the arguments of the
resets and of the ack, the double check -/
theorem isReady_ready_eq (r c : Int) :
    C08.readyEqCond (C08.nextReplicaIdx r) (C08.replicaIndexOf c) = decide (r + 1 = c + 1) := rfl
theorem isReady_behind (r a : Int) : C08.behindCond r a = decide (r < a) := rfl
theorem isReady_need_reset (a : Int) : C08.needResetReplicaIdx a = a + 1 := rfl
theorem isReady_double_check (n x : Int) : C08.doubleCheckCond n x = decide (n = x) := rfl
theorem isReady_reset_args : C08.isReadyResetArgs =
    ["needResetReplicaIdx", "nextReplicaIdx", "remoteLastReplicaAckIdx", "AppendIndex: needResetReplicaIdx"] := rfl

set_option linter.unusedSimpArgs false in
/-- the guard of ResetAppendIndex is the one the model is run with (`Cfg.fixed := aheadFixed`) -/
theorem isReady_ahead (r a : Int) :
    C08.aheadCond r (C08.nextReplicaIdx r) a = aheadFires { fixed := C08.aheadFixed } r a := by
  simp only [C08.aheadCond, C08.aheadFixed, C08.nextReplicaIdx, aheadFires]
  first
    | rfl
    | (simp only [Bool.false_eq_true, if_false, if_true, gt_iff_lt, ge_iff_le, decide_eq_decide]; omega)

theorem isReady_calls : C08.isReadyCalls =
    ["state.Load", "stateMgr.GetLiveNode", "isSuspend.CompareAndSwap", "state.Store", "r.IsReady", "r.closeStream",
     "state.Store", "cliFct.CreateReplicaServiceClient", "state.Store", "state.Store", "r.getLastAckIdxFromReplica",
     "state.Store", "r.ReplicaIndex", "state.Store", "r.AppendIndex", "r.AckIndex", "state.Store", "replicaCli.Reset",
     "state.Store", "r.ResetReplicaIndex", "state.Store", "r.ResetAppendIndex", "state.Store", "r.ResetReplicaIndex",
     "r.SetAckIndex", "r.ReplicaIndex", "state.Store", "state.Store"] := rfl

/-- NewConsumerGroup on re-open lifts the group's ack to the queue's ack -/
theorem reopen_lift (g a : Int) : C08.reopenLiftCond g a = decide (g < a) := rfl

/-- fanOutQueue.Sync (min over groups starting from appended, applied when ≥ 0) and IsExpire's prefix -/
theorem gc_eq (cfg : Cfg) (s : St) :
    (next cfg s .gc).1 =
      (let a1 := if C08.syncMinCond s.gack s.L.app = true then s.gack else s.L.app
       let a2 := if C08.syncMinCond s.oack a1 = true then s.oack else a1
       if C08.syncApplyCond a2 = true then { s with L := s.L.setAck a2 } else s) := by
  simp only [next, C08.syncMinCond, C08.syncApplyCond, decide_eq_true_eq, ge_iff_le]
theorem isExpire_calls : C08.isExpireCalls = ["log.Sync", "log.Queue", "log.Queue().GC"] := rfl

end Tie

/-! ## 6. non-vacuity -/

/-- a history with a send failure and a follower restart that ends synced with the follower
holding two positions -/
def sample : List Ev :=
  [.append [1], .append [2], .step .send, .step .none, .frestart, .append [3], .step .none, .step .none, .step .none]

example : NoLoss sample := by unfold NoLoss; decide
example : Synced (run { fixed := false } sample) := by decide
example : (run { fixed := false } sample).F.app = 2 ∧ (run { fixed := false } sample).gack = 2 ∧
    (run { fixed := false } sample).F.get 1 = some [2] := by decide
/-- `resync_progress`'s hypotheses are satisfiable -/
example : Synced (run { fixed := false } [.append [1], .step .none, .append [2]]) ∧
    (run { fixed := false } [.append [1], .step .none, .append [2]]).cons <
      (run { fixed := false } [.append [1], .step .none, .append [2]]).L.app := by decide
/-- `resync_handshake`'s hypotheses are satisfiable, in the branch that resets the follower -/
example : (run { fixed := false } [.append [1], .step .none, .flose, .append [2], .step .none]).chan ≠ .ready ∧
    (isReady { fixed := false } (run { fixed := false } [.append [1], .step .none, .flose, .append [2], .step .none]) .none).2 = true ∧
    (isReady { fixed := false } (run { fixed := false } [.append [1], .step .none, .flose, .append [2], .step .none]) .none).1.F.ack = 0 := by
  decide

/-- `resync_one_step`'s and `resync_online`'s hypotheses are satisfiable -/
example : (run { fixed := false } [.append [1], .step .send]).chan ≠ .ready ∧
    (run { fixed := false } [.append [1], .step .send]).live = true ∧
    (run { fixed := false } [.append [1], .step .send]).susp = false := by decide
example : (run { fixed := false } [.offline, .step .none]).chan ≠ .ready ∧
    (run { fixed := false } [.offline, .step .none]).susp = true := by decide

/-! ## 7. where the code violates the agreement clause -/

namespace Neg

/-- (b) The leader loses its tail (restore of the image taken after 4 replicated messages),
re-appends three new messages — beyond what the follower holds — and only then handshakes:
neither reset branch fires, the group's ack jumps to the follower's appended index, the channel is
synced, and positions 4 and 5 hold different bytes on the two sides. -/
def witnessB : List Ev :=
  [.append [0xa0], .append [0xa1], .append [0xa2], .append [0xa3], .step .none, .step .none, .step .none, .step .none,
   .lsnap, .append [0xa4], .append [0xa5], .step .none, .step .none, .lrestore,
   .append [0xb4], .append [0xb5], .append [0xb6], .step .none]

theorem reappend_before_handshake (cfg : Cfg) :
    Synced (run cfg witnessB) ∧
    (run cfg witnessB).L.get 4 = some [0xb4] ∧ (run cfg witnessB).F.get 4 = some [0xa4] ∧
    (run cfg witnessB).L.get 5 = some [0xb5] ∧ (run cfg witnessB).F.get 5 = some [0xa5] ∧
    (run cfg witnessB).gack = 6 := by
  cases cfg with
  | mk fixed => cases fixed <;> decide

/-- (d) The follower is ahead of the restored leader by EXACTLY one message. The guard
`remoteLastReplicaAckIdx > appendIdx` compares a sequence with an index (sequence+1), so it does
not fire; the replica index and the ack are moved past the leader's own append index, the channel
becomes ready, and the leader's next append lands on a position the follower already holds: different
bytes at position 4 while synced, and the leader's message b4 is never replicated. -/
def witnessD : List Ev :=
  [.append [0xa0], .append [0xa1], .append [0xa2], .append [0xa3], .step .none, .step .none, .step .none, .step .none,
   .lsnap, .append [0xa4], .step .none, .lrestore, .step .none, .append [0xb4], .append [0xb5], .step .none]

theorem follower_ahead_by_one :
    Synced (run { fixed := false } witnessD) ∧
    (run { fixed := false } witnessD).L.get 4 = some [0xb4] ∧ (run { fixed := false } witnessD).F.get 4 = some [0xa4] ∧
    (run { fixed := false } witnessD).F.get 5 = some [0xb5] ∧ (run { fixed := false } witnessD).gack = 5 := by
  decide

/-- with the comparison repaired (`nextReplicaIdx > appendIdx`) the same history keeps agreement:
the leader's append index is moved past the follower's log before the leader appends again -/
theorem follower_ahead_by_one_fixed :
    Synced (run { fixed := true } witnessD) ∧
    (run { fixed := true } witnessD).L.get 4 = none ∧ (run { fixed := true } witnessD).F.get 4 = some [0xa4] ∧
    (run { fixed := true } witnessD).L.get 5 = some [0xb4] ∧ (run { fixed := true } witnessD).F.get 5 = some [0xb4] ∧
    (run { fixed := true } witnessD).L.get 6 = some [0xb5] := by
  decide

/-- the full-strength agreement clause for histories with leader tail loss ("whenever the
channel is synced, a position held by both holds the same bytes") does not hold, for either shape
of the guard -/
theorem agreement_synced_full_fails (cfg : Cfg) :
    ¬ (∀ evs : List Ev, Synced (run cfg evs) → ∀ i m m',
        (run cfg evs).L.get i = some m → (run cfg evs).F.get i = some m' → m = m') := by
  intro h
  have w := reappend_before_handshake cfg
  have := h witnessB w.1 4 _ _ w.2.1 w.2.2.1
  simp at this

end Neg

end LinVerif.Props.C08
