/-
C13 (round 12) — concrete daylight-saving zones of the tz database satisfy the local-midnight contract.

Until now `ZoneOK` for a DST zone was correspondence-only (the DST pass diffs the real `time` package
against the transition-list zone model `Zone.ofTransitions`).  Here the zone model itself is proved:
* `dst_zone_satisfies_contract` — EVERY two-transition zone (initial offset, two offset changes) whose
  changes happen strictly inside a local day on the clock before and the clock after them, in local days
  that are not neighbours, with offsets below one day, satisfies `ZoneOK`; with whole-hour changes it is
  `HourAligned` too.  No bound on the offsets' values (half-hour changes, :30/:45 base offsets included).
* `tz_zones_satisfy_contract` — America/New_York and Australia/Lord_Howe in 1987, 2007 and 2024 (the
  values Go's `time` reports from the tz database; the driver's `dstzone` op diffs the table against the
  running tz database) satisfy `ZoneOK`; the New York zones are `HourAligned`, the Lord Howe zones are not
  (`Neg.lord_howe_not_hour_aligned` — the half-hour DST findings).
* `new_york_*` — the bucketing statements of C13 instantiated for New York 2024 (23- and 25-hour days).
The two-transition model is the real zone only inside the year it was taken from (before the first
change it keeps `off0` for ever): the theorem is about the model the harness diffs, the diff is the tie.
-/
import LinVerif.Lemmas.C13ZoneDst
import LinVerif.Props.C13

namespace LinVerif.Props.C13
open LinVerif.Interval LinVerif.Lemmas.C13

/-- every two-transition daylight-saving zone with the changes strictly inside non-neighbouring local
days satisfies the local-midnight contract; whole-hour changes make every local day whole hours long -/
theorem dst_zone_satisfies_contract (off0 a1 o1 a2 o2 d1 d2 : Int)
    (h : Dst2Margins off0 a1 o1 a2 o2 d1 d2) :
    ZoneOK (Zone.ofTransitions off0 [(a1, o1), (a2, o2)]) ∧
    ((o1 - off0) % 3600 = 0 → (o2 - o1) % 3600 = 0 →
      HourAligned (Zone.ofTransitions off0 [(a1, o1), (a2, o2)])) :=
  ⟨zone2_ok h, fun h1 h2 => zone2_hour_aligned h h1 h2⟩

/-- what `time.Date` resolves for a local midnight of such a zone: the offset of that local morning -/
theorem dst_zone_midnight_offset (off0 a1 o1 a2 o2 d1 d2 : Int) (h : Dst2Margins off0 a1 o1 a2 o2 d1 d2)
    (n : Int) :
    (Zone.ofTransitions off0 [(a1, o1), (a2, o2)]).offLocal (n * 86400)
      = if n ≤ d1 then off0 else if n ≤ d2 then o1 else o2 :=
  zone2_midnight_offset h n

/-- the tz-database zones of the DST pass (historical years) satisfy the contract; whole-hour ones are
hour-aligned -/
theorem tz_zones_satisfy_contract :
    ∀ e ∈ dstZones, ZoneOK e.2.zone ∧ (e.2.wholeHours = true → HourAligned e.2.zone) := by
  intro e he
  have hm : ∀ e ∈ dstZones, e.2.marginsOk = true := by decide
  exact ⟨dst2_zone_ok e.2 (hm e he), fun hw => dst2_zone_hour_aligned e.2 (hm e he) hw⟩

/-- America/New_York 2024 as the DST pass models it -/
def newYork2024 : Zone := Zone.ofTransitions (-18000) [(1710054000, -14400), (1730613600, -18000)]

theorem new_york_2024_ok : ZoneOK newYork2024 ∧ HourAligned newYork2024 := by
  have h := tz_zones_satisfy_contract ("America/New_York@2024",
    ⟨-18000, 1710054000, -14400, 1730613600, -18000, 19792, 20030⟩) (by simp [dstZones])
  exact ⟨h.1, h.2 (by decide)⟩

/-- C13's family statements for all three calculators under America/New_York 2024 — the 23-hour day
2024-03-10 and the 25-hour day 2024-11-03 included: containment, idempotence, tiling -/
theorem new_york_2024_families (c : Calc) (t : Int) (h0 : 0 ≤ t) :
    (calcFamilyTimeZ newYork2024 c t ≤ t ∧
      t ≤ calcFamilyEndTimeZ newYork2024 c (calcFamilyTimeZ newYork2024 c t)) ∧
    (∀ t', 0 ≤ t' → calcFamilyTimeZ newYork2024 c t ≤ t' →
      t' ≤ calcFamilyEndTimeZ newYork2024 c (calcFamilyTimeZ newYork2024 c t) →
      calcFamilyTimeZ newYork2024 c t' = calcFamilyTimeZ newYork2024 c t) ∧
    calcFamilyTimeZ newYork2024 c (calcFamilyEndTimeZ newYork2024 c (calcFamilyTimeZ newYork2024 c t) + 1)
      = calcFamilyEndTimeZ newYork2024 c (calcFamilyTimeZ newYork2024 c t) + 1 := by
  obtain ⟨hz, ha⟩ := new_york_2024_ok
  cases c
  · have h := zone_contract_day newYork2024 hz t h0
    exact ⟨h.1, (h.2 ha).1, (h.2 ha).2⟩
  · exact zone_contract_month_year newYork2024 hz .month (Or.inl rfl) t h0
  · exact zone_contract_month_year newYork2024 hz .year (Or.inr rfl) t h0

/-- and the slot statement (current slot rule) -/
theorem new_york_2024_slot (c : Calc) (t i : Int) (h0 : 0 ≤ t) (hi : 0 < i) :
    ∃ s, calcSlotV .quotient c t (calcFamilyTimeZ newYork2024 c t) i = some s ∧ 0 ≤ s ∧
      calcFamilyTimeZ newYork2024 c t + s * i ≤ t ∧ t < calcFamilyTimeZ newYork2024 c t + (s + 1) * i :=
  zone_contract_slot newYork2024 new_york_2024_ok.1 c t i h0 hi

namespace Neg

/-- Lord Howe 2024: the local day 2024-04-07 is 24.5 hours long — the zone satisfies `ZoneOK` but is
not `HourAligned` (the day-type findings `*/day@zonedst:Australia/Lord_Howe`) -/
theorem lord_howe_not_hour_aligned :
    ¬ HourAligned (Zone.ofTransitions 39600 [(1712415600, 37800), (1728142200, 39600)]) := by
  intro h
  have := h 19820
  revert this
  decide

end Neg

/-! ### non-vacuity: the 25-hour day of New York -/

example : midnightOf newYork2024 20031 - midnightOf newYork2024 20030 = 25 * 3600000 := by decide
example : midnightOf newYork2024 19793 - midnightOf newYork2024 19792 = 23 * 3600000 := by decide
/-- 2024-11-04T04:30:00Z = 23:30 EST on the 25-hour day: month-type family = that local day -/
example : calcFamilyTimeZ newYork2024 .month 1730694600000 = 1730606400000 ∧
    calcFamilyEndTimeZ newYork2024 .month 1730606400000 = 1730696399999 := by decide

end LinVerif.Props.C13
