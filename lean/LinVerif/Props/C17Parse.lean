/-
C17, round 10 — property theorems about the parser side:

* the field-expression stack machine (`visitFieldExpr` / `completeFuncExpr` / `setExprParam` / …)
  builds, for EVERY derivation of `fieldExpr`, exactly the derivation's tree (induction over
  derivations, arbitrary non-empty stack), what a top-level derivation does in the select list and
  in a sort field, what `boolExpr` derivations build for HAVING, `check()` of order by;
* for EVERY sequence of listener calls: every number literal in the parser state is finite, so an
  ACCEPTED statement is complete, finite and survives the wire — the remaining hypotheses of
  `accepted_statement_survives_wire` are discharged;
* a returned statement shares no mutable memory with the parser (reuse histories of the parser
  object);
* the string-literal obligations of the text layer, one per literal kind.
-/
import LinVerif.Props.C17
import LinVerif.Lemmas.C17Parse

namespace LinVerif.Props.C17
open LinVerif.Json LinVerif.Stmt

/-! ## ties -/

theorem tie_fieldMachine : Generated.C17.fieldMachine = fieldMachineTable := rfl
theorem tie_parserObject : Generated.C17.parserObject = parserObjectTable := rfl
theorem tie_funcTypes : Generated.C17.funcTypes = funcTypeTable := by decide
theorem tie_funcNameSwitch : Generated.C17.funcNameSwitch = funcNameSwitchTable := by decide

/-- the model's `supportOrderBy` / `funcTypeName` are the regenerated table -/
theorem funcType_table_model :
    funcTypeTable.all (fun t => supportOrderBy t.2.1 == t.2.2.2 && funcTypeName t.2.1 == t.2.2.1) = true := by
  decide

/-- the operator numbers `visitFieldExpr` pushes are `stmt.MUL/DIV/ADD/SUB` of the BinaryOP table -/
theorem fieldAlt_ops_in_table :
    [("MUL", ArOp.mul), ("DIV", .div), ("ADD", .add), ("SUB", .sub)].all
      (fun p => binaryOpTable.any (fun t => t.1 == p.1 && t.2.1 == p.2.code)) = true := by decide

/-! ## the derivation's tree -/

/-- THE nested field expression: for every derivation and every state with a node on the stack,
the walk hands the derivation's tree to that node by `setExprParam` and touches nothing else but
`allFields` (a `*` anywhere), `fieldNames` (select list only) and `err` (number out of range) -/
theorem field_built_from_derivation (rw : Expr → Option String) (d : FExpr) (st : PState)
    (top : Expr) (rest : List Expr) (hs : st.stack = top :: rest) (hp : st.panicked = false) :
    prun rw st d.walk = applyNested st top rest d :=
  nested_walk rw d st top rest hs hp

/-- function-call parameters: appended in order, operand-less ones left out -/
theorem params_built_from_derivations (rw : Expr → Option String) (ds : List FExpr) (st : PState)
    (fn : Int) (acc rest : List Expr) (hs : st.stack = .call fn acc :: rest) (hp : st.panicked = false) :
    (prun rw st (walkList ds)).stack = .call fn (acc ++ treeList ds) :: rest := by
  rw [nested_walkList rw ds st _ rest hs hp]
  simp [applyNestedList, foldl_setParamOn_call]

mutual
/-- a plain derivation (every alternative supplies an operand) denotes its abstract syntax tree -/
theorem plain_tree : ∀ d : FExpr, d.plain = true → d.tree = some d.ast
  | .bin o l r, h => by
    simp only [FExpr.plain, Bool.and_eq_true] at h
    simp [FExpr.tree, FExpr.ast, plain_tree l h.1, plain_tree r h.2]
  | .paren e, h => by
    simp only [FExpr.plain] at h
    simp [FExpr.tree, FExpr.ast, plain_tree e h]
  | .call fn ps, h => by
    simp only [FExpr.plain] at h
    simp [FExpr.tree, FExpr.ast, plain_treeList ps h]
  | .ident n, _ => by simp [FExpr.tree, FExpr.ast]
  | .num v, h => by
    simp only [FExpr.plain] at h
    simp [FExpr.tree, FExpr.ast, h]
  | .dur, h => by simp [FExpr.plain] at h
  | .star, h => by simp [FExpr.plain] at h
theorem plain_treeList : ∀ ds : List FExpr, plainList ds = true → treeList ds = astList ds
  | [], _ => rfl
  | d :: ds, h => by
    simp only [plainList, Bool.and_eq_true] at h
    simp [treeList, astList, plain_tree d h.1, plain_treeList ds h.2]
end

mutual
/-- … and that tree is complete (`isCompleteExpr`) with finite numbers, hence well formed -/
theorem plain_ast_wellFormed : ∀ d : FExpr, d.plain = true → d.ast.wellFormed = true
  | .bin o l r, h => by
    simp only [FExpr.plain, Bool.and_eq_true] at h
    simp [FExpr.ast, Expr.wellFormed, plain_ast_wellFormed l h.1, plain_ast_wellFormed r h.2]
  | .paren e, h => by
    simp only [FExpr.plain] at h
    simp [FExpr.ast, Expr.wellFormed, plain_ast_wellFormed e h]
  | .call fn ps, h => by
    simp only [FExpr.plain] at h
    simp [FExpr.ast, Expr.wellFormed, plain_astList_wellFormed ps h]
  | .ident n, _ => by simp [FExpr.ast, Expr.wellFormed]
  | .num v, h => by
    simp only [FExpr.plain] at h
    simp [FExpr.ast, Expr.wellFormed, h]
  | .dur, h => by simp [FExpr.plain] at h
  | .star, h => by simp [FExpr.plain] at h
theorem plain_astList_wellFormed : ∀ ds : List FExpr, plainList ds = true → wellFormedList (astList ds) = true
  | [], _ => rfl
  | d :: ds, h => by
    simp only [plainList, Bool.and_eq_true] at h
    simp [astList, wellFormedList, plain_ast_wellFormed d h.1, plain_astList_wellFormed ds h.2]
end

/-- the built tree IS the derivation's tree and well formed: below a parenthesis the machine leaves
exactly `ParenExpr{ast}` -/
theorem plain_field_is_ast (rw : Expr → Option String) (d : FExpr) (hd : d.plain = true) (st : PState)
    (rest : List Expr) (hs : st.stack = .paren .nil :: rest) (hp : st.panicked = false) :
    (prun rw st d.walk).stack = .paren d.ast :: rest ∧ d.ast.wellFormed = true := by
  rw [nested_walk rw d st _ rest hs hp]
  simp [applyNested, plain_tree d hd, setParamOn, plain_ast_wellFormed d hd]

/-! ## top-level derivations: select list, sort field -/

/-- one entry of the select list (stack empty): a field / call / parenthesis / arithmetic tree is
appended as a `SelectItem`, `*` sets `allFields`, a bare number or duration is dropped, a call's
`Rewrite()` name is recorded (or panics on a missing operand) -/
theorem select_item_built_from_derivation (rw : Expr → Option String) (d : FExpr) (st : PState)
    (hs : st.stack = []) (hp : st.panicked = false) (ho : st.hasOrderBy = false) (hh : st.having = false) :
    prun rw st d.walk = selectTop rw st d := by
  obtain ⟨stack, sel, fns, all, ob, cur, hob, hav, hst, err, pan⟩ := st
  simp only at hs hp ho hh; subst hs; subst hp; subst ho; subst hh
  cases d with
  | star => simp [FExpr.walk, prun, pstep, selectTop, FExpr.topItem, FExpr.tree, FExpr.hasStar, FExpr.idents, FExpr.rangeErr]
  | dur => simp [FExpr.walk, prun, pstep, selectTop, FExpr.topItem, FExpr.tree, FExpr.hasStar, FExpr.idents, FExpr.rangeErr]
  | num v =>
    by_cases hv : v.isFinite <;>
    simp [FExpr.walk, prun, pstep, selectTop, FExpr.topItem, FExpr.hasStar, FExpr.idents, FExpr.rangeErr, hv]
  | ident n =>
    simp [FExpr.walk, prun, pstep, selectTop, FExpr.topItem, FExpr.tree, FExpr.hasStar, FExpr.idents,
      FExpr.rangeErr, FExpr.isCall]
  | paren e =>
    simp only [FExpr.walk, prun_cons, prun_append]
    simp only [pstep, PState.push, Bool.false_eq_true, if_false]
    rw [nested_walk rw e _ (.paren .nil) [] rfl rfl]
    cases he : e.tree <;>
    simp [prun, applyNested, setExprParam, setParamOn, selectTop, FExpr.topItem, FExpr.tree, FExpr.hasStar,
      FExpr.idents, FExpr.rangeErr, FExpr.isCall, he] <;> rfl
  | bin o l r =>
    simp only [FExpr.walk, prun_cons, prun_append]
    have hpush : pstep rw ⟨[], sel, fns, all, ob, cur, false, false, hst, err, false⟩ (.enterField o.alt)
        = ⟨[.binary .nil .nil o.code], sel, fns, all, ob, cur, false, false, hst, err, false⟩ := by
      cases o <;> simp [pstep, PState.push, ArOp.alt, ArOp.code]
    rw [hpush, nested_walk rw l _ (.binary .nil .nil o.code) [] rfl rfl]
    rw [nested_walk rw r _ _ [] rfl rfl]
    have hexit : ∀ (s : PState) (c : Expr), s.panicked = false → s.having = false → s.stack = [c] →
        pstep rw s (.exitField o.alt) =
          { s with stack := [], selectItems := s.selectItems ++ [.selectItem c ""] } := by
      intro s c hp hh hs
      obtain ⟨stack, sel, fns, all, ob, cur, hob, hav, hst, err, pan⟩ := s
      simp only at hs hp hh; subst hs; subst hp; subst hh
      cases o <;> simp [pstep, ArOp.alt, setExprParam]
    rw [prun_nil, hexit _ _ rfl rfl rfl]
    cases hlt : l.tree with
    | none =>
      cases hrt : r.tree <;>
      simp [applyNested, selectTop, FExpr.topItem, FExpr.tree, FExpr.hasStar, FExpr.idents, FExpr.rangeErr,
        FExpr.isCall, hlt, hrt, setParamOn_binary_left, Bool.or_assoc] <;>
      (cases l.rangeErr <;> cases r.rangeErr <;> simp)
    | some a =>
      have ha := tree_ne_nil l a hlt
      cases hrt : r.tree <;>
      simp [applyNested, selectTop, FExpr.topItem, FExpr.tree, FExpr.hasStar, FExpr.idents, FExpr.rangeErr,
        FExpr.isCall, hlt, hrt, setParamOn_binary_left, setParamOn_binary_right _ _ _ ha, Bool.or_assoc] <;>
      (cases l.rangeErr <;> cases r.rangeErr <;> simp)
  | call fn ps =>
    simp only [FExpr.walk, prun_cons, prun_append]
    simp only [pstep, PState.push, Bool.false_eq_true, if_false]
    rw [nested_walkList rw ps _ (.call fn []) [] rfl rfl]
    cases hrw : rw (.call fn (treeList ps)) <;>
    simp [prun, pstep, applyNestedList, setExprParam, foldl_setParamOn_call, selectTop, FExpr.topItem,
      FExpr.tree, FExpr.hasStar, FExpr.idents, FExpr.rangeErr, FExpr.isCall, hrw] <;> rfl

/-- the expression of a sort field (stack empty, `hasOrderBy`): a call or a field becomes the
order-by node's expression; a parenthesis / arithmetic expression is NOT — it lands in the select
list and the node keeps a nil expression, which `check()` + `validation()` then reject -/
theorem sort_item_built_from_derivation (rw : Expr → Option String) (d : FExpr) (st : PState)
    (desc : Bool) (e₀ : Expr) (hs : st.stack = []) (hp : st.panicked = false) (ho : st.hasOrderBy = true)
    (hh : st.having = false) (hc : st.curOrderBy = some (e₀, desc)) :
    prun rw st d.walk = sortTop st desc e₀ d := by
  obtain ⟨stack, sel, fns, all, ob, cur, hob, hav, hst, err, pan⟩ := st
  simp only at hs hp ho hh hc; subst hs; subst hp; subst ho; subst hh; subst hc
  cases d with
  | star => simp [FExpr.walk, prun, pstep, sortTop, FExpr.topItem, FExpr.tree, FExpr.hasStar, FExpr.rangeErr]
  | dur => simp [FExpr.walk, prun, pstep, sortTop, FExpr.topItem, FExpr.tree, FExpr.hasStar, FExpr.rangeErr]
  | num v =>
    by_cases hv : v.isFinite <;>
    simp [FExpr.walk, prun, pstep, sortTop, FExpr.topItem, FExpr.hasStar, FExpr.rangeErr, hv]
  | ident n =>
    simp [FExpr.walk, prun, pstep, sortTop, FExpr.topItem, FExpr.tree, FExpr.hasStar,
      FExpr.rangeErr, FExpr.isCall, FExpr.isIdent]
  | paren e =>
    simp only [FExpr.walk, prun_cons, prun_append]
    simp only [pstep, PState.push, Bool.false_eq_true, if_false]
    rw [nested_walk rw e _ (.paren .nil) [] rfl rfl]
    cases he : e.tree <;>
    simp [prun, applyNested, setExprParam, setParamOn, sortTop, FExpr.topItem, FExpr.tree, FExpr.hasStar,
      FExpr.rangeErr, FExpr.isCall, FExpr.isIdent, he] <;> rfl
  | bin o l r =>
    simp only [FExpr.walk, prun_cons, prun_append]
    have hpush : pstep rw ⟨[], sel, fns, all, ob, some (e₀, desc), true, false, hst, err, false⟩ (.enterField o.alt)
        = ⟨[.binary .nil .nil o.code], sel, fns, all, ob, some (e₀, desc), true, false, hst, err, false⟩ := by
      cases o <;> simp [pstep, PState.push, ArOp.alt, ArOp.code]
    rw [hpush, nested_walk rw l _ (.binary .nil .nil o.code) [] rfl rfl]
    rw [nested_walk rw r _ _ [] rfl rfl]
    have hexit : ∀ (s : PState) (c : Expr), s.panicked = false → s.having = false → s.stack = [c] →
        pstep rw s (.exitField o.alt) =
          { s with stack := [], selectItems := s.selectItems ++ [.selectItem c ""] } := by
      intro s c hp hh hs
      obtain ⟨stack, sel, fns, all, ob, cur, hob, hav, hst, err, pan⟩ := s
      simp only at hs hp hh; subst hs; subst hp; subst hh
      cases o <;> simp [pstep, ArOp.alt, setExprParam]
    rw [prun_nil, hexit _ _ rfl rfl rfl]
    cases hlt : l.tree with
    | none =>
      cases hrt : r.tree <;>
      simp [applyNested, sortTop, FExpr.topItem, FExpr.tree, FExpr.hasStar, FExpr.rangeErr,
        FExpr.isCall, FExpr.isIdent, hlt, hrt, setParamOn_binary_left, Bool.or_assoc] <;>
      (cases l.rangeErr <;> cases r.rangeErr <;> simp)
    | some a =>
      have ha := tree_ne_nil l a hlt
      cases hrt : r.tree <;>
      simp [applyNested, sortTop, FExpr.topItem, FExpr.tree, FExpr.hasStar, FExpr.rangeErr,
        FExpr.isCall, FExpr.isIdent, hlt, hrt, setParamOn_binary_left, setParamOn_binary_right _ _ _ ha, Bool.or_assoc] <;>
      (cases l.rangeErr <;> cases r.rangeErr <;> simp)
  | call fn ps =>
    simp only [FExpr.walk, prun_cons, prun_append]
    simp only [pstep, PState.push, Bool.false_eq_true, if_false]
    rw [nested_walkList rw ps _ (.call fn []) [] rfl rfl]
    simp [prun, pstep, applyNestedList, setExprParam, foldl_setParamOn_call, sortTop, FExpr.topItem,
      FExpr.tree, FExpr.hasStar, FExpr.rangeErr, FExpr.isCall] <;> rfl

/-! ## `check()` of order by -/

/-- `check()`, branch by branch: a field must be a select name -/
theorem checkOrderBy_field (rw : Expr → Option String) (names : List String) (n : String) :
    checkOrderBy rw names (.field n) = if names.contains n then .ok () else .error .orderByField := rfl

/-- a call must be a supported function … -/
theorem checkOrderBy_unsupported (rw : Expr → Option String) (names : List String) (fn : Int) (ps : List Expr)
    (h : supportOrderBy fn = false) : checkOrderBy rw names (.call fn ps) = .error .orderByFunc := by
  simp [checkOrderBy, h]

/-- … with exactly one parameter … -/
theorem checkOrderBy_params (rw : Expr → Option String) (names : List String) (fn : Int) (ps : List Expr)
    (h : supportOrderBy fn = true) (hl : ps.length ≠ 1) :
    checkOrderBy rw names (.call fn ps) = .error .orderByParams := by
  match ps, hl with
  | [], _ => simp [checkOrderBy, h]
  | [_], hl => simp at hl
  | _ :: _ :: _, _ => simp [checkOrderBy, h]

/-- … whose `Rewrite()` is a select name (a missing operand inside it panics) -/
theorem checkOrderBy_call (rw : Expr → Option String) (names : List String) (fn : Int) (p : Expr)
    (h : supportOrderBy fn = true) :
    checkOrderBy rw names (.call fn [p]) =
      match rw p with
      | none => .error .panic
      | some s => if names.contains s then .ok () else .error .orderByField := by
  cases hrw : rw p <;> simp [checkOrderBy, h, hrw]

/-- any other expression — in particular the nil one a parenthesis / arithmetic sort field leaves —
is looked up under the EMPTY name -/
theorem checkOrderBy_nil (rw : Expr → Option String) (names : List String) :
    checkOrderBy rw names .nil = if names.contains "" then .ok () else .error .orderByField := rfl

/-- a sort field whose expression stayed nil is accepted by `check()` only if the empty name was
selected, and then `validation()` (`isCompleteExpr` of the order-by item) rejects the statement -/
theorem nil_orderBy_rejected (d : Bool) (rest : List Expr) :
    completeList (rest ++ [.orderBy .nil d]) = false := by
  induction rest with
  | nil => simp [completeList, Expr.complete]
  | cons x xs ih => simp [completeList, ih]

/-! ## HAVING -/

theorem cmpTree_of_setParam (op : Int) (l r : FExpr) :
    (match r.tree with
      | some x => setParamOn (match l.tree with
          | some x => setParamOn (.binary .nil .nil op) x
          | none => .binary .nil .nil op) x
      | none => (match l.tree with
          | some x => setParamOn (.binary .nil .nil op) x
          | none => .binary .nil .nil op)) = cmpTree op l r := by
  cases hlt : l.tree with
  | none => cases hrt : r.tree <;> simp [cmpTree, hlt, hrt, setParamOn_binary_left]
  | some a =>
    have ha := tree_ne_nil l a hlt
    cases hrt : r.tree <;> simp [cmpTree, hlt, hrt, setParamOn_binary_left, setParamOn_binary_right _ _ _ ha]

theorem bexpr_tree_ne_nil (b : BExpr) : b.tree ≠ .nil := by
  cases b with
  | paren b => simp [BExpr.tree]
  | logic op l r => simp [BExpr.tree]
  | atom op l r =>
    simp only [BExpr.tree, cmpTree]
    cases l.tree <;> cases r.tree <;> simp

/-- THE having expression: for every derivation of `boolExpr`, in HAVING mode (no order by yet): on
an empty stack the walk leaves exactly the derivation's tree on the stack; below a node it hands the
tree to that node -/
theorem bool_built_from_derivation (rw : Expr → Option String) : ∀ (b : BExpr) (st : PState),
    st.panicked = false → st.having = true → st.hasOrderBy = false →
    (st.stack = [] → prun rw st b.walk = applyBool st [b.tree] b) ∧
    (∀ top rest, st.stack = top :: rest → prun rw st b.walk = applyBool st (setParamOn top b.tree :: rest) b) := by
  intro b
  induction b with
  | atom op l r =>
    intro st hp hh ho
    obtain ⟨stack, sel, fns, all, ob, cur, hob, hav, hst, err, pan⟩ := st
    simp only at hp hh ho; subst hp; subst hh; subst ho
    constructor
    · intro hs; simp only at hs; subst hs
      simp only [BExpr.walk, prun_cons, prun_append]
      simp only [pstep, PState.push, Bool.false_eq_true, if_false]
      rw [nested_walk rw l _ (.binary .nil .nil op) [] rfl rfl]
      rw [nested_walk rw r _ _ [] rfl rfl]
      have hc := cmpTree_of_setParam op l r
      simp only [applyNested]
      simp [prun, pstep, applyBool, BExpr.tree, BExpr.hasStar, BExpr.rangeErr, Bool.or_assoc]
      cases l.rangeErr <;> cases r.rangeErr <;> simp <;> first | exact hc | exact congrArg _ hc
    · intro top rest hs; simp only at hs; subst hs
      simp only [BExpr.walk, prun_cons, prun_append]
      simp only [pstep, PState.push, Bool.false_eq_true, if_false]
      rw [nested_walk rw l _ (.binary .nil .nil op) (top :: rest) rfl rfl]
      rw [nested_walk rw r _ _ (top :: rest) rfl rfl]
      have hc := cmpTree_of_setParam op l r
      simp only [applyNested]
      simp [prun, pstep, applyBool, BExpr.tree, BExpr.hasStar, BExpr.rangeErr, Bool.or_assoc, setExprParam]
      cases l.rangeErr <;> cases r.rangeErr <;> simp <;> first | exact hc | exact congrArg _ hc
  | paren b ih =>
    intro st hp hh ho
    obtain ⟨stack, sel, fns, all, ob, cur, hob, hav, hst, err, pan⟩ := st
    simp only at hp hh ho; subst hp; subst hh; subst ho
    constructor
    · intro hs; simp only at hs; subst hs
      simp only [BExpr.walk, prun_cons, prun_append]
      simp only [pstep, PState.push, Bool.false_eq_true, if_false]
      rw [(ih _ rfl rfl rfl).2 (.paren .nil) [] rfl]
      simp [prun, pstep, applyBool, BExpr.tree, BExpr.hasStar, BExpr.rangeErr, setParamOn] <;> rfl
    · intro top rest hs; simp only at hs; subst hs
      simp only [BExpr.walk, prun_cons, prun_append]
      simp only [pstep, PState.push, Bool.false_eq_true, if_false]
      rw [(ih _ rfl rfl rfl).2 (.paren .nil) (top :: rest) rfl]
      simp [prun, pstep, applyBool, BExpr.tree, BExpr.hasStar, BExpr.rangeErr, setParamOn, setExprParam] <;> rfl
  | logic op l r ihl ihr =>
    intro st hp hh ho
    obtain ⟨stack, sel, fns, all, ob, cur, hob, hav, hst, err, pan⟩ := st
    simp only at hp hh ho; subst hp; subst hh; subst ho
    have hl := bexpr_tree_ne_nil l
    constructor
    · intro hs; simp only at hs; subst hs
      simp only [BExpr.walk, prun_cons, prun_append]
      simp only [pstep, PState.push, Bool.false_eq_true, if_false]
      rw [(ihl _ rfl rfl rfl).2 (.binary .nil .nil op) [] rfl]
      rw [(ihr _ rfl rfl rfl).2 _ [] rfl]
      simp [prun, pstep, applyBool, BExpr.tree, BExpr.hasStar, BExpr.rangeErr, setParamOn_binary_left,
        setParamOn_binary_right _ _ _ hl, Bool.or_assoc]
      cases l.rangeErr <;> cases r.rangeErr <;> simp
    · intro top rest hs; simp only at hs; subst hs
      simp only [BExpr.walk, prun_cons, prun_append]
      simp only [pstep, PState.push, Bool.false_eq_true, if_false]
      rw [(ihl _ rfl rfl rfl).2 (.binary .nil .nil op) (top :: rest) rfl]
      rw [(ihr _ rfl rfl rfl).2 _ (top :: rest) rfl]
      simp [prun, pstep, applyBool, BExpr.tree, BExpr.hasStar, BExpr.rangeErr, setParamOn_binary_left,
        setParamOn_binary_right _ _ _ hl, Bool.or_assoc, setExprParam]
      cases l.rangeErr <;> cases r.rangeErr <;> simp

/-- `having <boolExpr>` on an empty stack: `havingStmt` is the derivation's tree, the stack is
empty again, the select list and the order-by list are untouched -/
theorem having_built_from_derivation (rw : Expr → Option String) (b : BExpr) (st : PState)
    (hs : st.stack = []) (hp : st.panicked = false) (hh : st.having = false) (ho : st.hasOrderBy = false) :
    prun rw st (.enterHaving :: (b.walk ++ [.exitHaving])) =
      { st with havingStmt := b.tree, allFields := st.allFields || b.hasStar,
                err := if b.rangeErr then some .parseFloat else st.err } := by
  obtain ⟨stack, sel, fns, all, ob, cur, hob, hav, hst, err, pan⟩ := st
  simp only at hs hp hh ho; subst hs; subst hp; subst hh; subst ho
  simp only [prun_cons, prun_append]
  simp only [pstep, Bool.false_eq_true, if_false]
  rw [(bool_built_from_derivation rw b _ rfl rfl rfl).1 rfl]
  simp [prun, pstep, applyBool]

/-! ## every walk: finite numbers, accepted ⇒ survives the wire -/

theorem nfl_append (a b : List Expr) :
    numbersFiniteList (a ++ b) = (numbersFiniteList a && numbersFiniteList b) := by
  induction a with
  | nil => simp [numbersFiniteList]
  | cons x xs ih => simp [numbersFiniteList, ih, Bool.and_assoc]

theorem nf_setParamOn (top p : Expr) (ht : top.numbersFinite = true) (hp : p.numbersFinite = true) :
    (setParamOn top p).numbersFinite = true := by
  unfold setParamOn
  split <;> simp_all [Expr.numbersFinite, nfl_append, numbersFiniteList]

theorem nfl_setExprParam (s : List Expr) (p : Expr) (hs : numbersFiniteList s = true)
    (hp : p.numbersFinite = true) : numbersFiniteList (setExprParam s p) = true := by
  cases s with
  | nil => rfl
  | cons t r =>
    simp only [numbersFiniteList, Bool.and_eq_true] at hs
    simp [setExprParam, numbersFiniteList, nf_setParamOn t p hs.1 hp, hs.2]

theorem nfl_dropLast (l : List Expr) (h : numbersFiniteList l = true) : numbersFiniteList l.dropLast = true := by
  induction l with
  | nil => rfl
  | cons x xs ih =>
    cases xs with
    | nil => rfl
    | cons y ys =>
      simp only [numbersFiniteList, Bool.and_eq_true] at h
      simp only [List.dropLast_cons₂, numbersFiniteList, Bool.and_eq_true]
      exact ⟨h.1, ih (by simpa [numbersFiniteList] using h.2)⟩

theorem nfl_getLast (l : List Expr) (x : Expr) (h : numbersFiniteList l = true) (hx : l.getLast? = some x) :
    x.numbersFinite = true := by
  induction l with
  | nil => simp at hx
  | cons y ys ih =>
    simp only [numbersFiniteList, Bool.and_eq_true] at h
    cases ys with
    | nil => simp at hx; subst hx; exact h.1
    | cons z zs => exact ih h.2 (by simpa [List.getLast?_cons_cons] using hx)

/-- one listener call keeps every number finite — for EVERY call, in every state -/
theorem pstep_numsFinite (rw : Expr → Option String) (st : PState) (ev : PEv) (hev : ev.numOk = true)
    (h : st.numsFinite = true) : (pstep rw st ev).numsFinite = true := by
  obtain ⟨stack, sel, fns, all, ob, cur, hob, hav, hst, err, pan⟩ := st
  simp only [PState.numsFinite, Bool.and_eq_true] at h
  obtain ⟨⟨⟨⟨h1, h2⟩, h3⟩, h4⟩, h5⟩ := h
  cases pan with
  | true => simp [pstep, PState.numsFinite, h1, h2, h3, h4, h5]
  | false =>
  cases ev with
  | resetStack => simp [pstep, PState.numsFinite, numbersFiniteList, h2, h3, h4, h5]
  | enterField a =>
    cases a <;> simp [pstep, PState.push, PState.numsFinite, numbersFiniteList, Expr.numbersFinite, h1, h2, h3, h4, h5]
  | funcName fn =>
    simp only [pstep, Bool.false_eq_true, if_false]
    split
    · rename_i f ps rest
      simp only [numbersFiniteList, Expr.numbersFinite, Bool.and_eq_true] at h1
      simp [PState.numsFinite, numbersFiniteList, Expr.numbersFinite, h1.1, h1.2, h2, h3, h4, h5]
    · simp [PState.numsFinite, h1, h2, h3, h4, h5]
  | exitFunc =>
    simp only [pstep, Bool.false_eq_true, if_false]
    split
    · simp [PState.numsFinite, numbersFiniteList, h2, h3, h4, h5]
    · rename_i c rest
      simp only [numbersFiniteList, Bool.and_eq_true] at h1
      have hr := nfl_setExprParam rest c h1.2 h1.1
      split
      · split
        · split
          · simp [PState.numsFinite, h1, h2, h3, h4, h5, numbersFiniteList]
          · simp [PState.numsFinite, hr, h2, h3, h5, h1.1]
        · split
          · split
            · simp [PState.numsFinite, h1, h2, h3, h4, h5, numbersFiniteList]
            · simp [PState.numsFinite, hr, h2, h3, h4, h5, nfl_append, numbersFiniteList, Expr.numbersFinite, h1.1]
          · simp [PState.numsFinite, hr, h2, h3, h4, h5]
      · simp [PState.numsFinite, hr, h2, h3, h4, h5]
  | exitField a =>
    cases a <;> simp only [pstep, Bool.false_eq_true, if_false] <;>
    first
    | (simp [PState.numsFinite, h1, h2, h3, h4, h5]; done)
    | (split
       · simp [PState.numsFinite, numbersFiniteList, h2, h3, h4, h5]
       · rename_i c rest
         simp only [numbersFiniteList, Bool.and_eq_true] at h1
         have hr := nfl_setExprParam rest c h1.2 h1.1
         split <;>
         simp [PState.numsFinite, hr, h2, h3, h4, h5, nfl_append, numbersFiniteList, Expr.numbersFinite, h1.1])
  | atomIdent n =>
    have hf : (Expr.field n).numbersFinite = true := rfl
    have hr := nfl_setExprParam stack (.field n) h1 hf
    simp only [pstep, Bool.false_eq_true, if_false]
    split
    · split
      · split
        · simp [PState.numsFinite, h1, h2, h3, h4, h5]
        · simp [PState.numsFinite, h1, h2, h3, h5, Expr.numbersFinite]
      · simp [PState.numsFinite, hr, h2, h3, h4, h5]
    · split <;> split <;>
      simp [PState.numsFinite, hr, h1, h2, h3, h4, h5, nfl_append, numbersFiniteList, Expr.numbersFinite]
  | atomNum v re =>
    simp only [pstep, Bool.false_eq_true, if_false]
    split
    · simp [PState.numsFinite, h1, h2, h3, h4, h5]
    · rename_i hre
      have hv : v.isFinite = true := by simpa [PEv.numOk, hre] using hev
      have hr := nfl_setExprParam stack (.number v) h1 (by simpa [Expr.numbersFinite] using hv)
      split <;> simp [PState.numsFinite, hr, h1, h2, h3, h4, h5]
  | alias a =>
    simp only [pstep, Bool.false_eq_true, if_false]
    split
    · rename_i e al hl
      have hx := nfl_getLast sel _ h2 hl
      simp [PState.numsFinite, h1, h3, h4, h5, nfl_append, nfl_dropLast sel h2, numbersFiniteList]
      simpa [Expr.numbersFinite] using hx
    · simp [PState.numsFinite, h1, h2, h3, h4, h5]
  | enterSort d => simp [pstep, PState.numsFinite, Expr.numbersFinite, h1, h2, h3, h5]
  | exitSort =>
    simp only [pstep, Bool.false_eq_true, if_false]
    split
    · rename_i e d
      split <;>
      simp_all [PState.numsFinite, nfl_append, numbersFiniteList, Expr.numbersFinite]
    · simp [PState.numsFinite, h1, h2, h3, h5]
  | enterHaving => simp [pstep, PState.numsFinite, h1, h2, h3, h4, h5]
  | exitHaving =>
    simp only [pstep, Bool.false_eq_true, if_false]
    split
    · simp [PState.numsFinite, numbersFiniteList, h2, h3, h4, h5]
    · simp only [numbersFiniteList, Bool.and_eq_true] at h1
      simp [PState.numsFinite, h1.1, h1.2, h2, h3, h4]
  | enterBool a =>
    cases a <;> simp [pstep, PState.push, PState.numsFinite, numbersFiniteList, Expr.numbersFinite, h1, h2, h3, h4, h5]
  | boolAtom op =>
    simp [pstep, PState.push, PState.numsFinite, numbersFiniteList, Expr.numbersFinite, h1, h2, h3, h4, h5]
  | exitBool =>
    simp only [pstep, Bool.false_eq_true, if_false]
    split
    · simp [PState.numsFinite, numbersFiniteList, h2, h3, h4, h5]
    · rename_i c rest
      split
      · simp [PState.numsFinite, h1, h2, h3, h4, h5]
      · simp only [numbersFiniteList, Bool.and_eq_true] at h1
        simp [PState.numsFinite, nfl_setExprParam rest c h1.2 h1.1, h2, h3, h4, h5]

/-- … hence any sequence of listener calls, from a fresh parser -/
theorem prun_numsFinite (rw : Expr → Option String) (evs : List PEv) (hev : evs.all PEv.numOk = true)
    (st : PState) (h : st.numsFinite = true) : (prun rw st evs).numsFinite = true := by
  induction evs generalizing st with
  | nil => exact h
  | cons e es ih =>
    simp only [List.all_cons, Bool.and_eq_true] at hev
    exact ih hev.2 _ (pstep_numsFinite rw st e hev.1 h)

theorem init_numsFinite : PState.init.numsFinite = true := rfl

mutual
theorem walk_numOk : ∀ d : FExpr, d.walk.all PEv.numOk = true
  | .bin o l r => by simp [FExpr.walk, PEv.numOk, walk_numOk l, walk_numOk r]
  | .paren e => by simp [FExpr.walk, PEv.numOk, walk_numOk e]
  | .call fn ps => by simp [FExpr.walk, PEv.numOk, walkList_numOk ps]
  | .ident n => by simp [FExpr.walk, PEv.numOk]
  | .num v => by cases h : v.isFinite <;> simp [FExpr.walk, PEv.numOk, h]
  | .dur => by simp [FExpr.walk, PEv.numOk]
  | .star => by simp [FExpr.walk, PEv.numOk]
theorem walkList_numOk : ∀ ds : List FExpr, (walkList ds).all PEv.numOk = true
  | [] => rfl
  | d :: ds => by simp [walkList, walk_numOk d, walkList_numOk ds]
end

/-- what `build()` accepts is complete (`validation()` checked it) and finite (invariant) -/
theorem built_validated_finite (rw : Expr → Option String) (evs : List PEv) (hev : evs.all PEv.numOk = true)
    (b : Built) (hb : buildFields (prun rw PState.init evs) = .ok b) :
    completeList b.selectItems = true ∧ completeList b.orderBy = true ∧
    (match b.having with | .nil => true | h => h.complete) = true ∧
    numbersFiniteList b.selectItems = true ∧ numbersFiniteList b.orderBy = true ∧
    b.having.numbersFinite = true := by
  have hn := prun_numsFinite rw evs hev _ init_numsFinite
  generalize prun rw PState.init evs = st at hb hn
  simp only [PState.numsFinite, Bool.and_eq_true] at hn
  unfold buildFields at hb
  split at hb
  · simp at hb
  · split at hb
    · simp at hb
    · split at hb
      · simp at hb
      · split at hb
        · simp at hb
        · split at hb
          · simp at hb
          · split at hb
            · simp at hb
            · injection hb with hb
              subst hb
              rename_i _ _ _ hs ho hh
              refine ⟨by simpa using hs, by simpa using ho, ?_, hn.1.1.1.2, hn.1.1.2, hn.2⟩
              revert hh
              cases st.havingStmt <;> simp [havingIncomplete]

/-- ACCEPTED ⇒ SURVIVES THE WIRE, with nothing about the select list / having / order by left to
assume: they are whatever the field-expression machine built from ANY sequence of listener calls
(`evs`; in particular the walk of any derivation), accepted by `validation()`; the condition comes
from a derivation of `tagFilterExpr`, the interval from `parseDuration` -/
theorem parsed_statement_survives_wire (rw : Expr → Option String) (evs : List PEv)
    (hev : evs.all PEv.numOk = true) (b : Built)
    (hb : buildFields (prun rw PState.init evs) = .ok b)
    (q : Query) (hsel : q.selectItems = b.selectItems) (hhav : q.having = b.having)
    (hord : q.orderByItems = b.orderBy)
    (c : Option Cond) (cond₀ : Expr)
    (hcond : q.condition = match c with
      | none => .nil
      | some c => (tagRun ⟨[], cond₀⟩ c.walk).condition)
    (hint : q.interval = 0 ∨ ∃ cs tok u, (tok, u) ∈ durationUnitTable ∧
      parseDuration cs (some u) = .ok q.interval)
    (hst : q.storageInterval = 0) :
    leafStatement (payloadOf q) = .ok q := by
  obtain ⟨h1, h2, h3, h4, h5, h6⟩ := built_validated_finite rw evs hev b hb
  apply accepted_statement_survives_wire q c cond₀ hcond hint hst
  · simp only [Query.validated, hsel, hhav, hord, h1, h2, Bool.true_and]
    exact h3
  · rw [hsel]; exact h4
  · rw [hord]; exact h5
  · rw [hhav]; exact h6

/-- non-vacuity: `select sum(f), g as gg from … having max(f) > 1 order by g desc` is accepted -/
example :
    (buildFields (prun (rewriteWith (fun _ => "1.00")) PState.init
      (QDeriv.walk { fields := [⟨.call 1 [.ident "f"], none⟩, ⟨.ident "g", some "gg"⟩],
                     having := some (.atom 9 (.call 3 [.ident "f"]) (.num ⟨0x3FF0000000000000⟩)),
                     sorts := [⟨.ident "g", true⟩] }))).toOption.map (fun b => b.orderBy)
      = some [.orderBy (.field "g") true] := by rfl

/-! ## a returned statement shares no mutable memory with the parser -/

/-- with the code's policy (a new parser object per statement: `tie_parserObject`) every statement
handed out reads, after ANY history of later parses, exactly as when it was returned -/
theorem parse_results_stable_fresh (sels : List (List Expr)) : observedAfter .fresh sels = sels := by
  have key : ∀ (sels : List (List Expr)) (h : Heap) (p : ParserObj),
      (parseHistory .fresh h p sels).1.arrays = h.arrays ++ sels ∧
      (parseHistory .fresh h p sels).2 = List.range' h.arrays.length sels.length := by
    intro sels
    induction sels with
    | nil => intro h p; simp [parseHistory]
    | cons s ss ih =>
      intro h p
      have := ih ⟨h.arrays ++ [s]⟩ ⟨some h.arrays.length⟩
      simp only [parseHistory, parseUnder, Heap.alloc]
      constructor
      · simp [this.1]
      · simp [this.2, List.range'_succ]
  have k := key sels ⟨[]⟩ ⟨none⟩
  unfold observedAfter
  generalize parseHistory .fresh ⟨[]⟩ ⟨none⟩ sels = r at k
  obtain ⟨h, as⟩ := r
  simp only [List.nil_append, List.length_nil] at k
  simp only [k.2]
  apply List.ext_getElem
  · simp
  · intro i h1 h2
    simp [Heap.get, k.1, List.getElem?_eq_getElem h2]

/-- parse A, then parse B: A still reads as A -/
theorem parse_A_then_B_keeps_A (a b : List Expr) : (observedAfter .fresh [a, b]).head? = some a := by
  rw [parse_results_stable_fresh]; rfl

namespace Neg

/-- a pooled parser that keeps `selectItems[:0]` hands the SAME backing array to the next statement:
after parsing B the statement returned for A reads as B (the seeded c17-22 mechanism) -/
theorem pooled_parser_overwrites_previous_statement :
    observedAfter .pooled [[.selectItem (.field "a") ""], [.selectItem (.field "b") ""]]
      = [[.selectItem (.field "b") ""], [.selectItem (.field "b") ""]] := by
  rfl

/-- `order by f + g` never yields an order-by item: the tree goes to the select list, the sort
field keeps a nil expression and `check()` refuses it -/
theorem orderBy_arithmetic_goes_to_select :
    let st := prun (rewriteWith (fun _ => "")) PState.init
      (QDeriv.walk { fields := [⟨.ident "f", none⟩, ⟨.ident "g", none⟩], having := none,
                     sorts := [⟨.bin .add (.ident "f") (.ident "g"), false⟩] })
    st.selectItems.length = 3 ∧ st.orderBy = [] ∧ st.err = some .orderByField := ⟨rfl, rfl, rfl⟩

/-- `* + f`: the operand-less `*` shifts `f` into the LEFT slot and leaves the right one nil —
accepted by the grammar, rejected by `validation()` -/
theorem star_operand_shifts_left :
    (FExpr.bin .add .star (.ident "f")).tree = some (.binary (.field "f") .nil 3) ∧
    buildFields (prun (rewriteWith (fun _ => "")) PState.init
      (QDeriv.walk { fields := [⟨.bin .add .star (.ident "f"), none⟩], having := none, sorts := [] }))
      = .error .incompleteSelect := ⟨rfl, rfl⟩

end Neg

/-! ## string literals: what the text layer owes, per literal kind -/

/-- every place a string literal of the statement text ends up in a wire value -/
inductive LiteralKind where
  | tagValue | tagKey | inValue | likePattern | regexPattern | fieldName | alias
  | metricName | nsName | groupByKey
  deriving DecidableEq, Repr

/-- the smallest wire value that carries a literal of the given kind -/
def LiteralKind.carrier (k : LiteralKind) (s : String) : Json :=
  match k with
  | .tagValue => marshal (.equals "k" s)
  | .tagKey => marshal (.equals s "v")
  | .inValue => marshal (.inE "k" [s])
  | .likePattern => marshal (.like "k" s)
  | .regexPattern => marshal (.regex "k" s)
  | .fieldName => marshal (.field s)
  | .alias => marshal (.selectItem (.field "f") s)
  | .metricName => marshalQuery { zeroQ with metricName := s }
  | .nsName => marshalQuery { zeroQ with ns := s }
  | .groupByKey => marshalQuery { zeroQ with groupBy := [s] }

/-- the model never merges two literals: different strings give different wire values, for every
kind and EVERY pair of Lean strings (all code points, control characters and non-BMP included) -/
theorem literal_carrier_injective (k : LiteralKind) (s t : String) (h : k.carrier s = k.carrier t) : s = t := by
  have mq : ∀ q1 q2 : Query, q1.wellFormed = true → q2.wellFormed = true →
      marshalQuery q1 = marshalQuery q2 → q1.wireImage = q2.wireImage := by
    intro q1 q2 h1 h2 h
    have r1 := query_roundtrip_exact q1
    have r2 := query_roundtrip_exact q2
    rw [h, r2] at r1
    simp [h1, h2] at r1
    exact r1.symm
  cases k with
  | tagValue => simp [LiteralKind.carrier, marshal] at h; exact h
  | tagKey => simp [LiteralKind.carrier, marshal] at h; exact h
  | inValue => simp [LiteralKind.carrier, marshal, strArr] at h; exact h
  | likePattern => simp [LiteralKind.carrier, marshal] at h; exact h
  | regexPattern => simp [LiteralKind.carrier, marshal] at h; exact h
  | fieldName => simp [LiteralKind.carrier, marshal] at h; exact h
  | alias => simp [LiteralKind.carrier, marshal] at h; exact h
  | metricName =>
    have := congrArg Query.metricName (mq _ _ rfl rfl h)
    simpa [Query.wireImage, zeroQ] using this
  | nsName =>
    have := congrArg Query.ns (mq _ _ rfl rfl h)
    simpa [Query.wireImage, zeroQ] using this
  | groupByKey =>
    have := congrArg Query.groupBy (mq _ _ rfl rfl h)
    simpa [Query.wireImage, zeroQ] using this

theorem literal_carrier_wireOk (k : LiteralKind) (s : String) : (k.carrier s).wireOk = true := by
  cases k <;> first
    | exact marshal_wireOk _
    | exact marshalQuery_wireOk _

/-- THE obligation of the text layer per literal kind: any `TextCodec` (i.e. any encoder that has a
decoder) writes different literals as different bytes — for every string, so an encoder that is
only right on printable ASCII is not an instance -/
theorem wire_literal_injective (C : TextCodec) (k : LiteralKind) (s t : String)
    (h : C.encode (k.carrier s) = C.encode (k.carrier t)) : s = t :=
  literal_carrier_injective k s t
    (textCodec_encode_injective C _ _ (literal_carrier_wireOk k s) (literal_carrier_wireOk k t) h)

/-- … and the literal arrives: decode ∘ encode gives the literal's carrier back -/
theorem wire_literal_roundtrip (C : TextCodec) (k : LiteralKind) (s : String) :
    C.parse (C.encode (k.carrier s)) = .ok (k.carrier s) :=
  C.parse_encode _ (literal_carrier_wireOk k s)

namespace Neg

/-- a string writer that maps two different literals to one text (e.g. a quoting routine that emits
`\x01` for U+0001, which the enclosing JSON encoder rejects and replaces by `null`, so every such
value reads as the zero value) has no decoder: it cannot be the text layer (seeded c17-21) -/
theorem lossy_string_writer_has_no_decoder {T : Type} (encode : Json → T) (k : LiteralKind) (s t : String)
    (hne : s ≠ t) (hc : encode (k.carrier s) = encode (k.carrier t)) :
    ¬ ∃ parse : T → Except Err Json, ∀ j : Json, j.wireOk = true → parse (encode j) = .ok j :=
  lossy_encoder_has_no_decoder encode _ _ (literal_carrier_wireOk k s) (literal_carrier_wireOk k t)
    (fun h => hne (literal_carrier_injective k s t h)) hc

end Neg

end LinVerif.Props.C17
