/-
C04 — the slots of a whole year-type family (a calendar month), for EVERY day of the month
(28, 29, 30 or 31 days), as theorems over the calendar model; and the exact condition under which a
slot rule of the shape `((ts - base) % K) / interval` (the day calculator's shape) is the quotient rule on
a family. A year-type family is the only family whose length is not a constant: a fixed modulus
(`timeutil.OneMonth` = 30 days) is right for months of ≤ 30 days and wraps the 31st day onto day 1.
(`slot_placement_year*` state the placement per source family; here the statement is about the
target calculator over the whole target family, with no interval guard.)
-/
import LinVerif.Lemmas.C04Family

set_option linter.unusedSimpArgs false
set_option linter.unusedVariables false
namespace LinVerif.Props.C04
open LinVerif.Rollup LinVerif.Lemmas.C04

/-- the facts about the slot of one timestamp `ts` of the year-type family that starts at day `M`:
`slot` is what `(*year).CalcSlot(ts, M·1d, iv)` returns -/
structure YearSlotOK (M : Int) (iv : Nat) (ts slot : Int) : Prop where
  /-- slot range of a family: at most 31 days of at least one hour each -/
  range : 0 ≤ slot ∧ slot < 744
  /-- `rollup.CalcSlot` (`uint16(...)`) returns it unchanged -/
  noWrap : ∀ src sF, (⟨src, iv, sF, M * oneDay⟩ : R).calcSlot ts = slot
  /-- the slot's time window contains the timestamp -/
  window : M * oneDay + slot * iv ≤ ts ∧ ts < M * oneDay + (slot + 1) * iv
  /-- the slot lies in the block of the timestamp's day of month (`k = dayNo ts - M` = day − 1) -/
  block : Int.tdiv ((dayNo ts - M) * oneDay) iv ≤ slot ∧
          slot ≤ Int.tdiv ((dayNo ts - M + 1) * oneDay - 1) iv
  /-- for intervals dividing a day (1h, 2h, …, 1d) every day of the month owns its own `1d / iv` slots -/
  ladder : (iv : Int) ∣ oneDay →
    slot = (dayNo ts - M) * (oneDay / iv) + (ts - dayNo ts * oneDay) / iv ∧
    0 ≤ (ts - dayNo ts * oneDay) / iv ∧ (ts - dayNo ts * oneDay) / iv < oneDay / iv

/-- **Every day of the month.** For a year-type family that starts at day `M` and ends before day `N`
with `N - M ≤ 31` (any month length), every year-type interval (`≥ 1h`; NO divisibility guard) and every
timestamp of the family: the calculator's slot is in `[0, 744)`, survives the `uint16` conversion,
its window contains the timestamp, and it lies in the block of slots of the timestamp's own day of
month — the 31st day gets slots `720..743` of a 1h family, not those of another day. -/
theorem year_family_slots (M N : Int) (iv : Nat) (ts : Int) (hty : itype (iv : Int) = .year)
    (h0 : M * oneDay ≤ ts) (h1 : ts < N * oneDay) (hL : N - M ≤ 31) :
    YearSlotOK M iv ts (calcSlotOf .year ts (M * oneDay) iv) := by
  have hiv36 : 3600000 ≤ iv := by have := (itype_year_iff iv).1 hty; omega
  have hiv : 0 < iv := by omega
  obtain ⟨o, ho⟩ : ∃ o : Nat, ts - M * oneDay = o := ⟨(ts - M * oneDay).toNat, by omega⟩
  have hoF : o < 31 * 86400000 := by unfold oneDay at *; omega
  have hslot : calcSlotOf .year ts (M * oneDay) iv = ((o / iv : Nat) : Int) := by
    show Int.tdiv (ts - M * oneDay) (iv : Int) = _
    rw [ho, tdiv_cast]
  have hq : o / iv < 744 := by
    have : o / iv ≤ o / 3600000 := Nat.div_le_div_left hiv36 (by norm_num)
    omega
  have hw := slot_window o iv hiv
  -- day of month and offset inside the day
  have hts : ts = M * 86400000 + (o : Int) := by unfold oneDay at ho; omega
  have hdn : dayNo ts = M + ((o / 86400000 : Nat) : Int) := by
    unfold dayNo oneDay; rw [hts]; push_cast; omega
  have hk : dayNo ts - M = ((o / 86400000 : Nat) : Int) := by omega
  have hx : ts - dayNo ts * oneDay = ((o % 86400000 : Nat) : Int) := by
    rw [hdn, hts]; unfold oneDay; push_cast; omega
  have hdecomp : o = (o / 86400000) * 86400000 + o % 86400000 := by omega
  have hxlt : o % 86400000 < 86400000 := Nat.mod_lt _ (by norm_num)
  rw [hslot]
  refine ⟨⟨Int.natCast_nonneg _, by exact_mod_cast hq⟩, ?_, ?_, ?_, ?_⟩
  · intro src sF
    rw [R.calcSlot, show itype (⟨src, iv, sF, M * oneDay⟩ : R).target = .year from hty]
    show u16 (Int.tdiv (ts - M * oneDay) (iv : Int)) = _
    rw [ho, tdiv_cast, u16_of_lt _ (by omega)]
  · have e : ts = M * oneDay + (o : Int) := by omega
    constructor
    · rw [e]; have := hw.1; push_cast at this ⊢; nlinarith [this]
    · rw [e]; have := hw.2; push_cast at this ⊢; nlinarith [this]
  · have hb := day_block_bounds (o / 86400000) (o % 86400000) iv hiv hxlt
    rw [← hdecomp] at hb
    rw [hk]
    have e1 : ((o / 86400000 : Nat) : Int) * oneDay = ((o / 86400000 * 86400000 : Nat) : Int) := by
      unfold oneDay; push_cast; ring
    have e2 : (((o / 86400000 : Nat) : Int) + 1) * oneDay - 1 =
        (((o / 86400000 + 1) * 86400000 - 1 : Nat) : Int) := by
      unfold oneDay; push_cast; omega
    rw [e1, e2, tdiv_cast, tdiv_cast]
    exact ⟨by exact_mod_cast hb.1, by exact_mod_cast hb.2⟩
  · intro hd
    have hd' : iv ∣ 86400000 := by
      have : (iv : Int) ∣ ((86400000 : Nat) : Int) := by simpa [oneDay] using hd
      exact Int.natCast_dvd_natCast.1 this
    have hb := day_block_slot (o / 86400000) (o % 86400000) iv hiv hd' hxlt
    rw [← hdecomp] at hb
    rw [hk, hx]
    have e3 : oneDay / (iv : Int) = ((86400000 / iv : Nat) : Int) := by unfold oneDay; push_cast; rfl
    have e4 : ((o % 86400000 : Nat) : Int) / (iv : Int) = ((o % 86400000 / iv : Nat) : Int) := by
      push_cast; rfl
    rw [e3, e4]
    refine ⟨by exact_mod_cast hb.1, Int.natCast_nonneg _, by exact_mod_cast hb.2⟩

/-- two timestamps of one year-type family are put into the same slot iff they lie in the same
window of the target interval — no two days of the month share a slot. -/
theorem year_family_slot_injective (M N : Int) (iv : Nat) (ts ts' : Int) (hty : itype (iv : Int) = .year)
    (h0 : M * oneDay ≤ ts) (h0' : M * oneDay ≤ ts') :
    calcSlotOf .year ts (M * oneDay) iv = calcSlotOf .year ts' (M * oneDay) iv ↔
    ∃ q : Nat, M * oneDay + q * iv ≤ ts ∧ ts < M * oneDay + (q + 1) * iv ∧
               M * oneDay + q * iv ≤ ts' ∧ ts' < M * oneDay + (q + 1) * iv := by
  have hiv : 0 < iv := by have := (itype_year_iff iv).1 hty; omega
  obtain ⟨o, ho⟩ : ∃ o : Nat, ts - M * oneDay = o := ⟨(ts - M * oneDay).toNat, by omega⟩
  obtain ⟨o', ho'⟩ : ∃ o : Nat, ts' - M * oneDay = o := ⟨(ts' - M * oneDay).toNat, by omega⟩
  show Int.tdiv (ts - M * oneDay) (iv : Int) = Int.tdiv (ts' - M * oneDay) (iv : Int) ↔ _
  rw [ho, ho', tdiv_cast, tdiv_cast, Int.natCast_inj, same_slot_iff_same_window o o' iv hiv]
  have e : ts = M * oneDay + (o : Int) := by omega
  have e' : ts' = M * oneDay + (o' : Int) := by omega
  constructor
  · rintro ⟨q, a, b, c, d⟩
    refine ⟨q, ?_, ?_, ?_, ?_⟩
    · rw [e]; have : ((iv * q : Nat) : Int) ≤ o := by exact_mod_cast a
      push_cast at this; nlinarith [this]
    · rw [e]; have : (o : Int) < ((iv * (q + 1) : Nat) : Int) := by exact_mod_cast b
      push_cast at this; nlinarith [this]
    · rw [e']; have : ((iv * q : Nat) : Int) ≤ o' := by exact_mod_cast c
      push_cast at this; nlinarith [this]
    · rw [e']; have : (o' : Int) < ((iv * (q + 1) : Nat) : Int) := by exact_mod_cast d
      push_cast at this; nlinarith [this]
  · rintro ⟨q, a, b, c, d⟩
    rw [e] at a b; rw [e'] at c d
    refine ⟨q, ?_, ?_, ?_, ?_⟩
    · have : ((iv * q : Nat) : Int) ≤ o := by push_cast; nlinarith [a]
      exact_mod_cast this
    · have : (o : Int) < ((iv * (q + 1) : Nat) : Int) := by push_cast; nlinarith [b]
      exact_mod_cast this
    · have : ((iv * q : Nat) : Int) ≤ o' := by push_cast; nlinarith [c]
      exact_mod_cast this
    · have : (o' : Int) < ((iv * (q + 1) : Nat) : Int) := by push_cast; nlinarith [d]
      exact_mod_cast this

/-- **Gregorian instance, no calendar hypothesis.** For every timestamp `ts` (any day of any month)
and every year-type interval: the family the year calculator names for `ts`
(`CalcSegmentTime` → `CalcFamily` → `CalcFamilyStartTime` / `CalcFamilyEndTime`) starts at the first
of `ts`'s month, is 28..31 days long, contains `ts`, and `CalcSlot(ts, familyStart, iv)` satisfies
`YearSlotOK`. -/
theorem year_family_slots_greg (ts : Int) (iv : Nat) (hty : itype (iv : Int) = .year) :
    let seg := calcSegmentTime stdCal .year ts
    let fam := calcFamily stdCal .year ts seg
    let fs := calcFamilyStartTime stdCal .year seg fam
    let fe := calcFamilyEndTime stdCal .year fs
    fs = stdCal.monthStart (dayNo ts) * oneDay ∧ fs ≤ ts ∧ ts ≤ fe ∧
    28 * oneDay ≤ fe + 1 - fs ∧ fe + 1 - fs ≤ 31 * oneDay ∧
    YearSlotOK (stdCal.monthStart (dayNo ts)) iv ts (calcSlotOf .year ts fs iv) := by
  intro seg fam fs fe
  have hok := stdCal_okAt (dayNo ts)
  obtain ⟨l1, l2, l3, l4, _⟩ := stdCal_month_length (dayNo ts)
  have hfs : fs = stdCal.monthStart (dayNo ts) * oneDay := by
    show stdCal.monthStartIn (dayNo (stdCal.yearStart (dayNo ts) * oneDay)) (stdCal.monthNo (dayNo ts)) * oneDay = _
    rw [dayNo_mul, hok.inYear]
  have hfe : fe = stdCal.monthNext (stdCal.monthStart (dayNo ts)) * oneDay - 1 := by
    show stdCal.monthNext (dayNo fs) * oneDay - 1 = _
    rw [hfs, dayNo_mul]
  have hd : dayNo ts * 86400000 ≤ ts ∧ ts < dayNo ts * 86400000 + 86400000 := by
    unfold dayNo oneDay; omega
  have hlo : stdCal.monthStart (dayNo ts) * oneDay ≤ ts := by unfold oneDay; omega
  have hhi : ts < stdCal.monthNext (stdCal.monthStart (dayNo ts)) * oneDay := by unfold oneDay; omega
  refine ⟨hfs, by rw [hfs]; exact hlo, by rw [hfe]; omega, ?_, ?_, ?_⟩
  · rw [hfe, hfs]; unfold oneDay; omega
  · rw [hfe, hfs]; unfold oneDay; omega
  · rw [hfs]
    exact year_family_slots _ _ iv ts hty hlo hhi (by omega)

/-- **The modulus shape, exactly.** A slot rule `((ts - base) % K) / iv` (Go's `%`, `/`) gives the
quotient slot for every timestamp of a family of `F` milliseconds iff `F ≤ K` (for `0 < iv ≤ K`):
right for the day calculator (`K` = 1h = the family), right for a month-type family with `K` = 1d,
and for a year-type family right only with a modulus of at least the month's real length. -/
theorem slot_modulus_exact_iff (K F iv : Nat) (hiv : 0 < iv) (hK : iv ≤ K) (base : Int) :
    (∀ ts : Int, base ≤ ts → ts < base + F →
        Int.tdiv (Int.tmod (ts - base) K) iv = Int.tdiv (ts - base) iv) ↔ F ≤ K := by
  rw [← modSlot_agrees_iff K F iv hiv hK]
  constructor
  · intro h x hx
    have := h (base + x) (by omega) (by omega)
    rw [show base + (x : Int) - base = (x : Int) by omega, tmod_cast, tdiv_cast, tdiv_cast] at this
    exact_mod_cast this
  · intro h ts a b
    obtain ⟨x, hx⟩ : ∃ x : Nat, ts - base = x := ⟨(ts - base).toNat, by omega⟩
    rw [hx, tmod_cast, tdiv_cast, tdiv_cast]
    have := h x (by omega)
    unfold modSlot at this
    exact_mod_cast this

/-- `timeutil.OneMonth`: a fixed 30 days -/
def oneMonth30 : Nat := 30 * 86400000

/-- For the Gregorian month of ANY day `d` and any year-type interval of at most 30 days: the rule
"offset modulo `OneMonth`" is the year calculator's rule on the whole family iff the month has at most
30 days. (So it passes every test on days 1..30 and every test in Feb/Apr/Jun/Sep/Nov.) -/
theorem thirty_day_modulus_exact_on_month (d : Int) (iv : Nat) (hty : itype (iv : Int) = .year)
    (hiv : iv ≤ oneMonth30) :
    let M := stdCal.monthStart d
    let L := stdCal.monthNext M - M
    (∀ ts : Int, M * oneDay ≤ ts → ts < stdCal.monthNext M * oneDay →
        Int.tdiv (Int.tmod (ts - M * oneDay) oneMonth30) iv = calcSlotOf .year ts (M * oneDay) iv) ↔ L ≤ 30 := by
  intro M L
  obtain ⟨l1, l2, _, _, _⟩ := stdCal_month_length d
  have l1' : 28 ≤ stdCal.monthNext M - M := l1
  have l2' : stdCal.monthNext M - M ≤ 31 := l2
  have hL : L = stdCal.monthNext M - M := rfl
  clear_value L
  have hivpos : 0 < iv := by have := (itype_year_iff iv).1 hty; omega
  obtain ⟨Ln, hLn⟩ : ∃ n : Nat, L = n := ⟨L.toNat, by omega⟩
  have hend : stdCal.monthNext M * oneDay = M * oneDay + ((Ln * 86400000 : Nat) : Int) := by
    have : stdCal.monthNext M = M + Ln := by omega
    rw [this]; unfold oneDay; push_cast; ring
  have key := slot_modulus_exact_iff oneMonth30 (Ln * 86400000) iv hivpos hiv (M * oneDay)
  rw [hend]
  show (∀ ts : Int, M * oneDay ≤ ts → ts < M * oneDay + ((Ln * 86400000 : Nat) : Int) →
      Int.tdiv (Int.tmod (ts - M * oneDay) oneMonth30) iv = Int.tdiv (ts - M * oneDay) iv) ↔ _
  rw [key, hLn]
  unfold oneMonth30
  omega

/-- on the 31st day the modded rule returns exactly the slot of the timestamp 30 days earlier (a
timestamp of day 1): right aggregate, wrong coarse slot, colliding with day 1's data -/
theorem thirty_day_modulus_wraps_day31 (M : Int) (iv : Nat) (ts : Int)
    (h0 : (M + 30) * oneDay ≤ ts) (h1 : ts < (M + 31) * oneDay) :
    Int.tdiv (Int.tmod (ts - M * oneDay) oneMonth30) iv =
      calcSlotOf .year (ts - 30 * oneDay) (M * oneDay) iv := by
  obtain ⟨o, ho⟩ : ∃ o : Nat, ts - M * oneDay = o := ⟨(ts - M * oneDay).toNat, by unfold oneDay at *; omega⟩
  have hlo : oneMonth30 ≤ o := by unfold oneMonth30; unfold oneDay at *; omega
  have hhi : o < 2 * oneMonth30 := by unfold oneMonth30; unfold oneDay at *; omega
  show _ = Int.tdiv (ts - 30 * oneDay - M * oneDay) iv
  have e : ts - 30 * oneDay - M * oneDay = ((o - oneMonth30 : Nat) : Int) := by
    unfold oneMonth30 at *; unfold oneDay at *; omega
  rw [ho, e, tmod_cast, tdiv_cast, tdiv_cast]
  have := modSlot_wraps oneMonth30 o iv hlo hhi
  unfold modSlot at this
  exact_mod_cast this

namespace Neg
/-- c04-25's shape on a concrete input: July 2019 starts at day 18078; 2019-07-31T00:00Z with the 1h
interval — the calculator's slot is 720, the modded rule gives 0, the slot of 2019-07-01T00:00Z. -/
theorem modulus_30d_collides_day31_with_day1 :
    calcSlotOf .year ((18078 + 30) * oneDay) (18078 * oneDay) 3600000 = 720 ∧
    Int.tdiv (Int.tmod ((18078 + 30) * oneDay - 18078 * oneDay) oneMonth30) 3600000 = 0 ∧
    calcSlotOf .year (18078 * oneDay) (18078 * oneDay) 3600000 = 0 ∧
    stdCal.monthStart (18078 + 30) = 18078 ∧ stdCal.monthNext 18078 - 18078 = 31 := by decide
end Neg

/-! ### non-vacuity: all four month lengths occur, day 29/30/31 get their own blocks -/

-- February 2019 (28), February 2020 (29), April 2019 (30), July 2019 (31)
example : stdCal.monthNext (stdCal.monthStart 17950) - stdCal.monthStart 17950 = 28 := by decide
example : stdCal.monthNext (stdCal.monthStart 18320) - stdCal.monthStart 18320 = 29 := by decide
example : stdCal.monthNext (stdCal.monthStart 18000) - stdCal.monthStart 18000 = 30 := by decide
example : stdCal.monthNext (stdCal.monthStart 18100) - stdCal.monthStart 18100 = 31 := by decide
-- 2019-07-31T13:00Z, 1h: slot 733 (= 30·24 + 13); 2020-02-29T23:00Z, 2h: slot 347 (= 28·12 + 11)
example : calcSlotOf .year (18108 * oneDay + 13 * oneHour) (stdCal.monthStart 18108 * oneDay) 3600000 = 733 := by decide
example : calcSlotOf .year (18321 * oneDay + 23 * oneHour) (stdCal.monthStart 18321 * oneDay) 7200000 = 347 := by decide
example : YearSlotOK 18078 3600000 (18108 * oneDay + 13 * oneHour) 733 := by
  have := year_family_slots 18078 18109 3600000 (18108 * oneDay + 13 * oneHour) (by decide) (by decide) (by decide) (by decide)
  have e : calcSlotOf .year (18108 * oneDay + 13 * oneHour) (18078 * oneDay) ((3600000 : Nat) : Int) = 733 := by decide
  rw [e] at this; exact this
-- July 2019 is outside the 30-day modulus, April 2019 inside
example : ¬ (stdCal.monthNext (stdCal.monthStart 18100) - stdCal.monthStart 18100 ≤ 30) := by decide
example : stdCal.monthNext (stdCal.monthStart 18000) - stdCal.monthStart 18000 ≤ 30 := by decide

end LinVerif.Props.C04
