/-
C12 (second module) — "a shard or node that holds no matching data never turns a non-empty answer
into an error", on the leaf side: the leaf's grouping-collect protocol
(LeafGroupingContext fork/complete/collect/reduceTagValues, StorageExecuteContext's grouping tag
value ids, LeafExecuteContext.waitCollectGroupingTagsCompleted / SendResponse) never makes the leaf
sit out its task deadline, whatever its shards hold — model `LinVerif.LeafCollect`.

All statements quantify over EVERY number of group-by keys, EVERY dictionary (`known`), EVERY
event list allowed by the pipeline's discipline (`Valid`: any number of shards / stages, any
interleaving of their forks, id collections and completions, any lookup failures) — no bounds.
-/
import LinVerif.Lemmas.C12Collect
import LinVerif.Driver.C12
import LinVerif.Generated.C12

namespace LinVerif.Props.C12
open LinVerif.LeafCollect

/-- `close(collectGroupingTagsCompleted)` runs at most once, for EVERY event list (disciplined or
not): the countdown `collectRelatedTasks` passes zero once. A second close would panic the leaf. -/
theorem leaf_close_at_most_once (known : Nat → Nat → Bool) (w : WaitOn) (k : Nat) (evs : List Ev) :
    ((G.new k).run known w evs).closes ≤ 1 := by
  have h0 : InvClose (G.new k) := by
    refine ⟨?_⟩
    dsimp only [G.new]
    by_cases hk : k = 0
    · left; exact ⟨hk, rfl⟩
    · right; refine ⟨by omega, Or.inl ⟨?_, ?_, rfl⟩⟩ <;> omega
  have hrun : ∀ (evs : List Ev) (g : G), InvClose g → InvClose (g.run known w evs) := by
    intro evs
    induction evs with
    | nil => intro g h; exact h
    | cons e es ih => intro g h; exact ih _ (invClose_step e h)
  obtain ⟨h⟩ := hrun evs _ h0
  rcases h with ⟨_, hc⟩ | ⟨_, hI⟩
  · omega
  · rcases hI with ⟨_, _, hc⟩ | ⟨_, hc⟩ <;> omega

/-- With the wait guarded by `HasGroupingTagValueIDs()` (the code) a leaf NEVER answers with its
task deadline: not when no shard of the plan is local (no stage ever forked), not when its shards
hold no matching series, not when some dictionary lookup fails, in no interleaving. -/
theorem leaf_never_waits_for_deadline (known : Nat → Nat → Bool) (k : Nat) (evs : List Ev)
    (hv : Valid known .hasIDs (G.new k) evs) :
    ((G.new k).run known .hasIDs evs).answer ≠ some .deadline :=
  (inv_run evs _ (inv_new known k) hv).ans

/-- When the pipeline's completion callback runs (`send` allowed: no stage pending) and no lookup
error was sent before, the leaf answers with its result set at once, and the dictionary it
translates with (`tagValuesMap`) is the complete collection of every tag value id any shard
produced — also those collected after an earlier pass had already closed the channel. -/
theorem leaf_answers_when_pipeline_completes (known : Nat → Nat → Bool) (k : Nat) (evs : List Ev)
    (hv : Valid known .hasIDs (G.new k) (evs ++ [.send]))
    (hnone : ((G.new k).run known .hasIDs evs).answer = none) :
    let g := (G.new k).run known .hasIDs (evs ++ [.send])
    g.answer = some .ok ∧ g.maps = mapsFrom known 0 g.ids := by
  intro g
  obtain ⟨hv1, hv2⟩ := valid_append evs [.send] _ hv
  have hI := inv_run evs _ (inv_new known k) hv1
  have hsend : Ev.allowed ((G.new k).run known .hasIDs evs) .send = true := by
    have : Ev.allowed ((G.new k).run known .hasIDs evs) .send = true ∧ True := by
      simpa [Valid, validB] using hv2
    exact this.1
  have hg : g = ((G.new k).run known .hasIDs evs).send .hasIDs := by
    show (G.new k).run known .hasIDs (evs ++ [.send]) = _
    rw [run_append]; rfl
  generalize (G.new k).run known .hasIDs evs = g0 at hI hsend hnone hg
  have hp : g0.pending = 0 := by simpa [Ev.allowed] using hsend
  have hnb : g0.blocks .hasIDs = false := by
    unfold G.blocks G.waits
    cases hany : g0.anyIds with
    | false => simp
    | true =>
      rcases hI.wait hany with h | h | h
      · omega
      · simp [h]
      · rw [hnone] at h; simp at h
  have hm : g0.maps = mapsFrom known 0 g0.ids := by
    rcases hI.maps hp with h | h
    · rw [hnone] at h; simp at h
    · exact h
  clear_value g
  subst hg
  unfold G.send
  rw [hnone]
  simp only [Option.isSome_none, Bool.false_eq_true, if_false, hnb]
  constructor <;> first | trivial | rfl | exact hm

/-- ... so every group key made of collected ids the dictionary knows is rendered id by id, never
as `tag_value_not_found` (which would collapse distinct groups into one). -/
theorem leaf_translation_complete (known : Nat → Nat → Bool) (k : Nat) (evs : List Ev)
    (hv : Valid known .hasIDs (G.new k) (evs ++ [.send]))
    (hnone : ((G.new k).run known .hasIDs evs).answer = none)
    (key : List Nat)
    (hcov : Covered known 0 ((G.new k).run known .hasIDs (evs ++ [.send])).ids key)
    (hmemo : ((G.new k).run known .hasIDs (evs ++ [.send])).memo = []) :
    (((G.new k).run known .hasIDs (evs ++ [.send])).translate key).2 = key.map some := by
  have h := (leaf_answers_when_pipeline_completes known k evs hv hnone).2
  unfold G.translate
  rw [hmemo]
  simp only [List.find?_nil]
  rw [h]
  exact lookupAll_covered _ _ _ hcov

/-- the situation of a target node without a local shard (or with an empty shard list): no event
at all before the callback — the leaf answers at once, for every number of group-by keys -/
theorem idle_leaf_answers_at_once (k : Nat) :
    ((G.new k).send .hasIDs).answer = some .ok := by
  unfold G.send G.blocks G.waits G.anyIds
  simp [G.new]


/-! ### the same at the granularity of the atomic steps (`GI`): Dec / Load / body are separate steps
of a stage's completion, and any other stage's steps may fall between them -/

/-- the collect channel is closed at most once for EVERY sequence of atomic steps -/
theorem leaf_close_at_most_once_interleaved (known : Nat → Nat → Bool) (w : WaitOn) (k : Nat) (evs : List EvI) :
    ((GI.new k).run known w evs).g.closes ≤ 1 := by
  have h0 : InvCloseI (GI.new k) := by
    refine ⟨?_, by simp [GI.new, G.new]⟩
    dsimp only [GI.new, G.new]
    by_cases hk : k = 0
    · left; exact ⟨hk, rfl⟩
    · right; refine ⟨by omega, Or.inl ⟨?_, ?_, rfl⟩⟩ <;> omega
  have hrun : ∀ (evs : List EvI) (s : GI), InvCloseI s → InvCloseI (s.run known w evs) := by
    intro evs
    induction evs with
    | nil => intro s h; exact h
    | cons e es ih => intro s h; exact ih _ (invCloseI_step e h)
  obtain ⟨h, _⟩ := hrun evs _ h0
  rcases h with ⟨_, hc⟩ | ⟨_, hI⟩
  · omega
  · rcases hI with ⟨_, _, hc⟩ | ⟨_, hc⟩ <;> omega

/-- for EVERY interleaving of the stages' atomic steps the leaf never answers with its deadline -/
theorem leaf_never_waits_for_deadline_interleaved (known : Nat → Nat → Bool) (k : Nat) (evs : List EvI)
    (hv : ValidI known .hasIDs (GI.new k) evs) :
    ((GI.new k).run known .hasIDs evs).g.answer ≠ some .deadline :=
  (invI_run evs _ (invI_new known k) hv).ans

/-- ... and when the callback runs it answers ok with the complete dictionary -/
theorem leaf_answers_when_pipeline_completes_interleaved (known : Nat → Nat → Bool) (k : Nat) (evs : List EvI)
    (hv : ValidI known .hasIDs (GI.new k) (evs ++ [.send]))
    (hnone : ((GI.new k).run known .hasIDs evs).g.answer = none) :
    let s := (GI.new k).run known .hasIDs (evs ++ [.send])
    s.g.answer = some .ok ∧ s.g.maps = mapsFrom known 0 s.g.ids := by
  intro s
  obtain ⟨hv1, hv2⟩ := validI_append evs [.send] _ hv
  have hI := invI_run evs _ (invI_new known k) hv1
  have hsend : EvI.allowed ((GI.new k).run known .hasIDs evs) .send = true := by
    have : EvI.allowed ((GI.new k).run known .hasIDs evs) .send = true ∧ True := by
      simpa [ValidI, validI] using hv2
    exact this.1
  have hs : s = ((GI.new k).run known .hasIDs evs).step known .hasIDs .send := by
    show (GI.new k).run known .hasIDs (evs ++ [.send]) = _
    rw [runI_append]; rfl
  generalize (GI.new k).run known .hasIDs evs = s0 at hI hsend hnone hs
  have hp : s0.g.pending = 0 ∧ s0.ndec = 0 ∧ s0.nload0 = 0 := by
    have : (s0.g.pending = 0 ∧ s0.ndec = 0) ∧ s0.nload0 = 0 := by simpa [EvI.allowed] using hsend
    exact ⟨this.1.1, this.1.2, this.2⟩
  have hnb : s0.g.blocks .hasIDs = false := by
    unfold G.blocks G.waits
    cases hany : s0.g.anyIds with
    | false => simp
    | true =>
      rcases hI.wait hany with h | h | h | h | h
      · omega
      · simp [h]
      · rw [hnone] at h; simp at h
      · omega
      · omega
  have hm : s0.g.maps = mapsFrom known 0 s0.g.ids := by
    rcases hI.maps hp.1 with h | h | h | h
    · rw [hnone] at h; simp at h
    · exact h
    · omega
    · omega
  clear_value s
  subst hs
  simp only [GI.step]
  unfold G.send
  rw [hnone]
  simp only [Option.isSome_none, Bool.false_eq_true, if_false, hnb]
  constructor <;> first | trivial | rfl | exact hm

/-- non-vacuity: two stages; the first one's Dec / Load / body are spread over the second one's fork,
id collection and completion; a stale body runs last -/
example :
    let known : Nat → Nat → Bool := fun _ _ => true
    let evs : List EvI := [.spawn, .dec, .load, .spawn, .ids [3], .body none, .dec, .load, .body none, .send]
    let s := (GI.new 1).run known .hasIDs evs
    ValidI known .hasIDs (GI.new 1) evs ∧ s.g.answer = some .ok ∧ s.g.closes = 1 ∧ s.g.maps = [some [3]] := by
  decide

namespace Neg

/-- The rewrite "wait whenever the query has GROUP BY": the same idle leaf sits in the `select`
until its deadline and answers `context deadline exceeded`, for every k ≥ 1 — the root then fails a
query that the other nodes answered completely. -/
theorem wait_on_group_by_blocks_idle_leaf (known : Nat → Nat → Bool) (k : Nat) (hk : 0 < k) :
    Valid known .hasGroupBy (G.new k) [.send] ∧
    ((G.new k).run known .hasGroupBy [.send]).answer = some .deadline := by
  refine ⟨by simp [Valid, validB, Ev.allowed, G.new], ?_⟩
  show ((G.new k).send .hasGroupBy).answer = _
  unfold G.send G.blocks G.waits
  have : (k != 0) = true := by simp; omega
  simp [G.new, this]

/-- getTagValues's memo is never invalidated: a key rendered BEFORE the collect stays
`tag_value_not_found` after it (unreachable under the discipline — BuildResultSet renders keys only
after the wait; kept as the model's statement of what the code does) -/
theorem translate_before_collect_sticks :
    let known : Nat → Nat → Bool := fun _ _ => true
    let g0 := ((G.new 1).fork.addIDs [7])
    let g1 := (g0.translate [7]).1
    let g2 := g1.complete known none
    (g2.translate [7]).2 = [none] ∧ ((g0.complete known none).translate [7]).2 = [some 7] := by
  decide

end Neg

/-! ### ties to the source -/

/-- the `WaitOn` the model driver runs with (from the regenerated fact `leafWaitCond`) -/
abbrev currentWait : WaitOn := LinVerif.Driver.C12.currentWait

open LinVerif.Generated.C12 in
/-- `waitCollectGroupingTagsCompleted` waits under `HasGroupingTagValueIDs()`, in a `select`
between the task context and the collect channel -/
theorem generated_leaf_wait :
    leafWaitCond = "ctx.StorageExecuteCtx.HasGroupingTagValueIDs()" ∧
    leafWaitCases = ["<-ctx.TaskCtx.Ctx.Done()", "<-ctx.GroupingCtx.collectGroupingTagsCompleted"] ∧
    currentWait = .hasIDs := by decide

open LinVerif.Generated.C12 in
/-- the statements the model's fork / complete / collect / reduceTagValues / HasGroupingTagValueIDs /
SendResponse mirror -/
theorem generated_leaf_collect :
    forkGroupingSteps = ["if ctx.groupingRelatedTasks.Load() == 0 && ctx.leafExecuteCtx.StorageExecuteCtx.Query.HasGroupBy()", "  ctx.leafExecuteCtx.Tracker.SetGroupingCollectStageValues(…)", "ctx.groupingRelatedTasks.Inc()"] ∧
    completeGroupingSteps = ["ctx.groupingRelatedTasks.Dec()", "ctx.collectGroupByTagValues()"] ∧
    collectGuard = "ctx.groupingRelatedTasks.Load() != 0 || !storageExecuteCtx.Query.HasGroupBy()" ∧
    collectLoopSteps = ["range idx := storageExecuteCtx.GroupByTags", "  tagKey := storageExecuteCtx.GroupByTags[idx]", "  tagValueIDs := storageExecuteCtx.GroupingTagValueIDs[idx]", "  tagIndex := idx", "  if tagValueIDs == nil || tagValueIDs.IsEmpty()", "    ctx.reduceTagValues(tagIndex, nil)", "    continue", "  tagValues := make(map[uint32]string)", "  err := metaDB.CollectTagValues(tagKey.ID, tagValueIDs, tagValues)", "  if err != nil", "    ctx.leafExecuteCtx.Tracker.SetGroupingCollectStageValues(…)", "    ctx.leafExecuteCtx.SendResponse(err)", "    return", "  ctx.reduceTagValues(tagIndex, tagValues)"] ∧
    reduceTagValuesSteps = ["ctx.mutex.Lock()", "defer ctx.mutex.Unlock()", "ctx.tagValuesMap[tagKeyIndex] = tagValues", "if ctx.collectRelatedTasks.Dec() == 0", "  close(ctx.collectGroupingTagsCompleted)"] ∧
    hasGroupingIDsSteps = ["ctx.mutex.Lock()", "defer ctx.mutex.Unlock()", "range idx := ctx.GroupingTagValueIDs", "  tIDs := ctx.GroupingTagValueIDs[idx]", "  if tIDs != nil && !tIDs.IsEmpty()", "    return true", "return false"] ∧
    collectIDsSteps = ["ctx.mutex.Lock()", "range idx, tagValueID := tagValueIDs", "  tIDs := ctx.GroupingTagValueIDs[idx]", "  if tIDs == nil", "    ctx.GroupingTagValueIDs[idx] = roaring.BitmapOf(tagValueID)", "  else", "    ctx.GroupingTagValueIDs[idx].Add(tagValueID)", "ctx.mutex.Unlock()"] ∧
    sendResponseSteps = ["if ctx.completed.CompareAndSwap(false, true)", "  defer ctx.StorageExecuteCtx.Release()", "  if err != nil", "    ctx.sendResponse(nil, err)", "    return", "  if err := ctx.waitCollectGroupingTagsCompleted(); err != nil", "    ctx.sendResponse(nil, err)", "    return", "  resultSet := ctx.ReduceCtx.BuildResultSet(ctx.LeafNode, ctx.Receivers)", "  ctx.Tracker.Complete()", "  ctx.sendResponse(resultSet, nil)"] ∧
    collectCountdownInit = "*atomic.NewInt32(int32(groupByKenLen))" := by decide

/-- the theorems above are about the wait the source has now -/
theorem current_leaf_wait_never_blocks (h : currentWait = .hasIDs)
    (known : Nat → Nat → Bool) (k : Nat) (evs : List Ev)
    (hv : Valid known currentWait (G.new k) evs) :
    ((G.new k).run known currentWait evs).answer ≠ some .deadline := by
  rw [h] at hv ⊢
  exact leaf_never_waits_for_deadline known k evs hv

/-- non-vacuity: two shards, two keys, ids collected after a first pass had already closed the
channel, then the callback — allowed by the discipline, answered, fully translated -/
example :
    let known : Nat → Nat → Bool := fun _ v => v != 9
    let evs : List Ev := [.fork, .complete none, .fork, .ids [3, 4], .fork, .ids [5, 9],
      .complete none, .complete none, .send]
    let g := (G.new 2).run known .hasIDs evs
    Valid known .hasIDs (G.new 2) evs ∧ g.answer = some .ok ∧ g.closes = 1 ∧ g.remaining = -2 ∧ g.maps = [some [3, 5], some [4]] ∧
    (g.translate [5, 4]).2 = [some 5, some 4] ∧ (g.translate [5, 9]).2 = [some 5, none] := by
  decide

end LinVerif.Props.C12
