/-
C13 (round 9) — planner boundaries and the range lookup under fixed-offset zones.

* `planner_auto_group_one_bucket`: with auto group-by time the planned range fits into ONE query
  interval bucket starting at the planned start (the interval is a multiple of the storage interval
  that is at least `End' − Start' + storage`).
* `planner_collapsed_iff_same_slot`: the planned range collapses to one storage slot
  (`Start' = End'`) exactly when the requested start and end lie in one storage slot — the point
  range / "range shorter than the interval" region that `Shard.GetDataFamilies` and `CalcSlotRange`
  then see (`get_data_families_exact` and `slot_range_exact` hold for `start = stop`).
* `zone_get_data_families_exact`: `intervalSegment/segment.GetDataFamilies` under `time.Local` = any
  fixed-offset zone (fractional offsets included) returns exactly the existing families whose range
  intersects the query range.
-/
import LinVerif.Props.C13
import LinVerif.Lemmas.C13ZoneLookup

namespace LinVerif.Props.C13
open LinVerif.Interval

/-- auto group-by time: the planned range lies inside one bucket of the returned query interval -/
theorem planner_auto_group_one_bucket (st : Stmt) (ivs : List Int) (p : Plan) (hpos : ∀ i ∈ ivs, 0 < i)
    (hs0 : 0 ≤ st.range.start) (hse : st.range.start ≤ st.range.stop) (hauto : st.autoGroupByTime = true)
    (h : calcTimeRangeAndInterval st ivs = some p) :
    p.range.stop - p.range.start + p.storageInterval ≤ p.interval ∧
      p.range.stop < p.range.start + p.interval := by
  have hm := planner_interval_stored st ivs p h
  cases ivs with
  | nil => simp [calcTimeRangeAndInterval] at h
  | cons i0 r =>
    simp only [calcTimeRangeAndInterval, hauto, if_true] at h
    split at h
    · simp at h
    · rename_i s hs
      split at h
      · rename_i a b ha hb
        cases h
        have hp : 0 < s := hpos _ hm
        obtain ⟨ra, ea, ⟨ka, hka⟩, la, ua, _⟩ := Lemmas.C13.truncate_spec hs0 hp
        obtain ⟨rb, eb, ⟨kb, hkb⟩, lb, ub, _⟩ := Lemmas.C13.truncate_spec (by omega : 0 ≤ st.range.stop) hp
        rw [ea] at ha; rw [eb] at hb; cases ha; cases hb
        simp only
        -- the final interval q is at least b - a + s = (kb - ka + 1) * s
        generalize hq0 : calcQueryInterval st.range (if st.interval ≤ 0 then i0 else st.interval) = q0
        have hab : a ≤ b := by
          rw [hka, hkb]
          have hlt : s * ka < s * (kb + 1) := by rw [Int.mul_add]; omega
          have : ka ≤ kb := by
            have := Int.lt_of_mul_lt_mul_left hlt (Int.le_of_lt hp)
            omega
          exact Int.mul_le_mul_of_nonneg_left this (Int.le_of_lt hp)
        have hq : b - a + s ≤ (if q0 < b - a + s then b - a + s else q0) := by
          split <;> omega
        generalize (if q0 < b - a + s then b - a + s else q0) = q at hq
        have hsq : s ≤ q := by omega
        have hr := (Lemmas.C13.ratio_spec (q := q) hp).2 hsq
        rw [hr]
        have hk : (kb - ka + 1) * s ≤ q := by
          have : (kb - ka + 1) * s = b - a + s := by
            rw [hka, hkb, Int.add_mul, Int.sub_mul, Int.mul_comm kb, Int.mul_comm ka]; omega
          omega
        have hdiv : kb - ka + 1 ≤ q / s := Int.le_ediv_of_mul_le hp hk
        have hmul : s * (kb - ka + 1) ≤ s * (q / s) := Int.mul_le_mul_of_nonneg_left hdiv (Int.le_of_lt hp)
        have he : s * (kb - ka + 1) = b - a + s := by
          rw [hka, hkb, Int.mul_add, Int.mul_sub]; omega
        constructor <;> omega
      · simp at h

/-- the planned range is one storage slot exactly when the requested start and end share a slot -/
theorem planner_collapsed_iff_same_slot (st : Stmt) (ivs : List Int) (p : Plan) (hpos : ∀ i ∈ ivs, 0 < i)
    (h : calcTimeRangeAndInterval st ivs = some p) :
    p.range.start = p.range.stop ↔
      Int.tdiv st.range.start p.storageInterval = Int.tdiv st.range.stop p.storageInterval := by
  have hm := planner_interval_stored st ivs p h
  cases ivs with
  | nil => simp [calcTimeRangeAndInterval] at h
  | cons i0 r =>
    simp only [calcTimeRangeAndInterval] at h
    split at h
    · simp at h
    · rename_i s hs
      split at h
      · rename_i a b ha hb
        cases h
        have hp : 0 < s := hpos _ hm
        have hne : s ≠ 0 := by omega
        simp only [truncate, hne, if_false, Option.some.injEq] at ha hb
        simp only
        rw [← ha, ← hb]
        constructor
        · intro e; exact Int.eq_of_mul_eq_mul_right hne e
        · intro e; rw [e]
      · simp at h

/-- a point query `[t, t]` is planned as one storage slot -/
theorem planner_point_range (st : Stmt) (ivs : List Int) (p : Plan) (hpos : ∀ i ∈ ivs, 0 < i)
    (hpt : st.range.start = st.range.stop) (h : calcTimeRangeAndInterval st ivs = some p) :
    p.range.start = p.range.stop :=
  (planner_collapsed_iff_same_slot st ivs p hpos h).2 (by rw [hpt])

/-- `Shard.GetDataFamilies` with `time.Local` = ANY fixed-offset zone (offset in seconds, fractional
hours included: +05:30, +05:45, −03:30 …), every calculator, every list of existing families (given
by the timestamps they were created for, in any number of segments), every range `start ≤ stop`
(point ranges included): `x` is returned iff `x` is the start of an existing family whose range
`[s, e]` (in the zone) intersects the query range. Guard: instants and local times `≥ 0` (excludes
the first `|offset|` hours of 1970 in zones west of Greenwich). -/
theorem zone_get_data_families_exact (off : Int) (c : Calc) (q : TimeRange) (ts : List Int)
    (hq0 : 0 ≤ q.start) (hq1 : 0 ≤ q.start + 1000 * off) (hq : q.start ≤ q.stop)
    (hts : ∀ t ∈ ts, 0 ≤ t ∧ 0 ≤ t + 1000 * off) (x : Int) :
    x ∈ getDataFamiliesZ (Zone.fixed off) c q ts ↔
      ∃ t ∈ ts, x = calcFamilyTimeZ (Zone.fixed off) c t ∧ calcFamilyTimeZ (Zone.fixed off) c t ≤ q.stop ∧
        q.start ≤ calcFamilyEndTimeZ (Zone.fixed off) c (calcFamilyTimeZ (Zone.fixed off) c t) :=
  Lemmas.C13.getDataFamiliesZ_mem off c q ts hq0 hq1 hq hts x

/-- a written timestamp inside the query range has its family returned (any fixed-offset zone) -/
theorem zone_query_finds_written_family (off : Int) (c : Calc) (q : TimeRange) (ts : List Int) (t : Int)
    (hq0 : 0 ≤ q.start) (hq1 : 0 ≤ q.start + 1000 * off)
    (hts : ∀ t ∈ ts, 0 ≤ t ∧ 0 ≤ t + 1000 * off) (hm : t ∈ ts) (h1 : q.start ≤ t) (h2 : t ≤ q.stop) :
    calcFamilyTimeZ (Zone.fixed off) c t ∈ getDataFamiliesZ (Zone.fixed off) c q ts := by
  have hc := zone_family_contains off c t (hts t hm).1 (hts t hm).2
  exact (zone_get_data_families_exact off c q ts hq0 hq1 (by omega) hts _).2
    ⟨t, hm, rfl, by omega, by omega⟩

/-- non-vacuity, +05:30: the point query at a family's last millisecond returns that family, the
point query one millisecond later the next one -/
example :
    getDataFamiliesZ (Zone.fixed 19800) .day ⟨1709616599999, 1709616599999⟩ [1709613001000, 1709616600005]
      = [1709613000000] ∧
    getDataFamiliesZ (Zone.fixed 19800) .day ⟨1709616600000, 1709616600000⟩ [1709613001000, 1709616600005]
      = [1709616600000] := by decide

end LinVerif.Props.C13
