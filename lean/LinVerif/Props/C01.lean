/-
C01 — KV store: a committed flush is atomic and durable across a crash.

Property theorems over the model of kv/version (manifest, version set), kv/store.go, kv/family.go,
kv/flusher.go, kv/compact_job.go (Model/Manifest.lean, Model/KvFs.lean, Spec/C01History.lean).
Quantifier: every history of open / create-family / flush / compaction / rollup-bookkeeping / close
operations with process deaths, and every point between two file-system operations.
-/
import LinVerif.Lemmas.C01Reach
import LinVerif.Lemmas.C01Cleanup
import LinVerif.Lemmas.C01Pending
import LinVerif.Lemmas.C01Entries
import LinVerif.Lemmas.C01Torn
import LinVerif.Lemmas.C01Family
import LinVerif.Lemmas.C01Sched
import LinVerif.Lemmas.C01CreateFam
import LinVerif.Model.C01Switch
import LinVerif.Lemmas.C01Close
import LinVerif.Model.C01Alias
import LinVerif.Lemmas.C01Writer
import LinVerif.Generated.C04
import LinVerif.Generated.C01

namespace LinVerif.Props.C01
open LinVerif LinVerif.Kv

/-! ## 1. recovery after a crash at any file-system operation -/

/-- **recover_prefix.** For every history `items` (with process deaths anywhere), every further
operation `o` and every `k`: reopening the disk left after the first `k` file-system operations of
`o` SUCCEEDS, and the recovered families / versions are exactly those of the committed state before
`o` or those after `o` (the operation in flight is all-or-nothing); every table the recovered
versions reference is on the recovered disk, complete, with the content it has in that committed
state (`Consistent … a` of the disk after recovery, field `tables`). -/
theorem recover_prefix (cfg : Cfg) (items : List Item) (s s' : St) (o : Op) (ops : List FsOp) (k : Nat)
    (hreach : execAll cfg St.init items = some s) (hop : runOp cfg s o = some (s', ops)) :
    ∃ a mr, (Committed cfg s a ∨ Committed cfg s' a) ∧
      (openStore cfg (applyFsList s.disk (ops.take k))).1 = some mr ∧
      mr.info = a.info ∧ mr.vs.fams = a.fams ∧
      Consistent cfg (applyFsList (applyFsList s.disk (ops.take k)) (openStore cfg (applyFsList s.disk (ops.take k))).2) a := by
  have hg := good_execAll (good_init cfg) hreach
  obtain ⟨a, ha, hc⟩ := (runOp_atomic hg hop).1 k
  obtain ⟨mr, hm, _, hf, hi, hpre, _⟩ := open_consistent cfg _ a ha
  refine ⟨a, mr, hc, hm, hi, hf, ?_⟩
  have := hpre (openStore cfg (applyFsList s.disk (ops.take k))).2.length
  rw [List.take_length] at this
  exact this

/-- the same for the disk of any reachable state (after complete operations and deaths): it always
reopens, to a committed state; for an open store that state is its in-memory state. -/
theorem reachable_recovers (cfg : Cfg) (items : List Item) (s : St) (hreach : execAll cfg St.init items = some s) :
    ∃ a mr, Committed cfg s a ∧ (openStore cfg s.disk).1 = some mr ∧ mr.info = a.info ∧ mr.vs.fams = a.fams := by
  have hg := good_execAll (good_init cfg) hreach
  obtain ⟨mem, d⟩ := s
  cases mem with
  | none =>
    obtain ⟨a, ha⟩ := hg
    obtain ⟨mr, hm, _, hf, hi, _, _⟩ := open_consistent cfg d a ha
    exact ⟨a, mr, ha, hm, hi, hf⟩
  | some m =>
    obtain ⟨hinv, hcfg⟩ := hg
    subst hcfg
    obtain ⟨mr, hm, _, hf, hi, _, _⟩ := open_consistent m.cfg d _ hinv.cons
    exact ⟨_, mr, rfl, hm, hi, hf⟩

/-- (c) **roll-over invariant.** Recovery from a consistent disk keeps the disk consistent with
the SAME committed state after every prefix of recovery's own trace (new manifest created and
filled while CURRENT still names the old one; CURRENT switched by one rename; other manifests and
unreferenced tables removed only afterwards): a crash during recovery, any number of times,
loses nothing. -/
theorem rollover_invariant (cfg : Cfg) (d : Disk) (a : Abs) (h : Consistent cfg d a) (k : Nat) :
    Consistent cfg (applyFsList d ((openStore cfg d).2.take k)) a := by
  obtain ⟨_, _, _, _, _, hpre, _⟩ := open_consistent cfg d a h
  exact hpre k

/-- creating a manifest truncates: whatever a file of that name held before (records of an earlier,
crashed roll-over, a partial record) is gone -/
theorem createManifest_truncates (d : Disk) (n : Int) :
    Map.lookup (applyFs d (.createManifest n)).manifests n = some ⟨[], false⟩ := by
  simp [applyFs, Map.lookup_upsert_self]

/-- **roll-over over a partial earlier file.** Put ANY content — complete records of a crashed
roll-over, a partial record, a torn tail — into a manifest file that CURRENT does not name (in
particular into the `MANIFEST-n` the next open will re-use): the disk stays consistent with the same
committed state, the next open succeeds with that state, and so does every prefix of it. -/
theorem rollover_over_partial_manifest (cfg : Cfg) (d : Disk) (a : Abs) (h : Consistent cfg d a)
    (n : Int) (junk : Manifest) (hn : d.current ≠ some n) :
    let dj : Disk := { d with manifests := Map.upsert d.manifests n junk }
    (∃ mr, (openStore cfg dj).1 = some mr ∧ mr.info = a.info ∧ mr.vs.fams = a.fams) ∧
    ∀ k, Consistent cfg (applyFsList dj ((openStore cfg dj).2.take k)) a := by
  intro dj
  have hj : Consistent cfg dj a := h.junk_manifest cfg n junk hn
  obtain ⟨mr, hm, _, hf, hi, hpre, _⟩ := open_consistent cfg dj a hj
  exact ⟨⟨mr, hm, hi, hf⟩, hpre⟩

/-- the session numbering that makes re-use safe: in every reachable open state the manifest file in
use has a number below the next file number, and (`Consistent.recov`) the number the NEXT open will
create is above the number CURRENT names — an open never re-creates the live manifest, also after
sessions without any commit. -/
theorem next_manifest_is_not_current (cfg : Cfg) (items : List Item) (s : St)
    (hreach : execAll cfg St.init items = some s) :
    ∃ a, Consistent cfg s.disk a ∧
      ∀ j, s.disk.current = some j → (recoverVS cfg s.disk).2 = true ∧ j < (recoverVS cfg s.disk).1.manifestNo := by
  have hg := good_execAll (good_init cfg) hreach
  obtain ⟨mem, d⟩ := s
  have hc : ∃ a, Consistent cfg d a := by
    cases mem with
    | none => exact hg
    | some m => obtain ⟨hinv, hcfg⟩ := hg; subst hcfg; exact ⟨_, hinv.cons⟩
  obtain ⟨a, ha⟩ := hc
  refine ⟨a, ha, ?_⟩
  intro j hj
  obtain ⟨vs, hrec, _, _, _, _, hcur⟩ := ha.recov
  rw [hrec]
  exact ⟨rfl, hcur j hj⟩

/-- (a) **snapshot / replay round trip**: replay (records of snapshot s) = s, with the numbers advanced
by the store record. -/
theorem snapshot_replay_roundtrip (s : VS) (n : Nat) (h : s.WF n) :
    replayRecs (VS.init n (s.fams.map (·.id))) ((snapshot s).map marshal) = (⟨s.fams, s.next, s.next + 1⟩, true) := by
  have := replay_snapshot s n h []
  simpa [replayRecs] using this

/-- (b) **each commit is at most one appended record** to the manifest the journal has open. -/
theorem commit_is_one_record (m m' : Mem) (fid : Int) (logs : List Log) (ops : List FsOp)
    (h : commitEditLog m fid logs = some (m', ops)) :
    (logs = [] ∧ ops = [] ∧ m' = m) ∨
    (ops = [FsOp.appendRec m.journal (marshal ⟨fid, logs ++ [.nextFileNumber m.vs.next]⟩)] ∧
      applyEL m.vs ⟨fid, logs ++ [.nextFileNumber m.vs.next]⟩ = some m'.vs) := by
  unfold commitEditLog at h
  by_cases hl : logs = []
  · simp only [hl, if_true, Option.some.injEq, Prod.mk.injEq] at h
    exact Or.inl ⟨hl, h.2.symm, h.1.symm⟩
  · simp only [hl, if_false] at h
    split at h
    · simp at h
    · split at h
      · simp at h
      · rename_i vs' hap
        simp only [Option.some.injEq, Prod.mk.injEq] at h
        obtain ⟨rfl, rfl⟩ := h
        exact Or.inr ⟨rfl, hap⟩

/-! ## 2. a half-written table is never visible -/

/-- **no_partial_visible.** After recovery from any crash image of any history, every table the
recovered versions reference exists and is complete; and every table file still present in a
family directory after recovery's cleanup is live for the recovered version (a level file or a
file waiting for rollup) — so an orphan, in particular a half-written table, has been removed. -/
theorem no_partial_visible (cfg : Cfg) (items : List Item) (s s' : St) (o : Op) (ops : List FsOp) (k : Nat)
    (hreach : execAll cfg St.init items = some s) (hop : runOp cfg s o = some (s', ops)) :
    ∃ mr, (openStore cfg (applyFsList s.disk (ops.take k))).1 = some mr ∧
      let dk := applyFsList s.disk (ops.take k)
      let dr := applyFsList dk (openStore cfg dk).2
      (∀ fo ∈ mr.info, ∀ v, mr.vs.verOf fo.id = some v →
        (∀ e ∈ v.files, ∃ t, dr.table fo.name e.1.2 = some t ∧ t.complete = true) ∧
        (∀ g t, dr.table fo.name g = some t → g ∈ liveFiles [] v)) := by
  obtain ⟨a, mr, _, hm, hi, hf, hcons⟩ := recover_prefix cfg items s s' o ops k hreach hop
  refine ⟨mr, hm, ?_⟩
  intro dk dr fo hfo v hv
  have hg := good_execAll (good_init cfg) hreach
  obtain ⟨a0, ha0, _⟩ := (runOp_atomic hg hop).1 k
  obtain ⟨vs, hrec, _⟩ := ha0.recov
  have hopen := openStore_ok cfg dk vs hrec
  have hmr : mr.vs = vs ∧ mr.info = dk.options.getD [] := by
    rw [hopen] at hm
    simp only [Option.some.injEq] at hm
    subst hm
    simp [Mem.info, List.map_map, Function.comp_def]
  refine ⟨?_, ?_⟩
  · intro e he
    obtain ⟨fv, hfv, hfid, hfver⟩ := verOf_some hv
    obtain ⟨t, ht⟩ := hcons.tables fo.name e.1.2
      ⟨fo, by rw [← hi]; exact hfo, rfl, fv, by rw [← hf]; exact hfv, hfid, e, by rw [hfver]; exact he, rfl⟩
    exact ⟨t, ht.2.2, ht.2.1⟩
  · intro g t ht
    exact open_cleanup cfg dk vs hrec fo (by rw [← hmr.2]; exact hfo) v (by rw [← hmr.1]; exact hv) g t ht

/-- **a table created by an unfinished writer is never deleted.** In every reachable state with the
store open, no operation (in particular no compaction cleanup of the same family, interleaved
between a flusher's first Add and its Commit) removes a table whose number is a pending output of the
family owning the directory; an open flusher's table number is pending from its creation on. -/
theorem unfinished_writer_table_never_deleted (cfg : Cfg) (items : List Item) (s s' : St) (m : Mem) (o : Op)
    (ops : List FsOp) (hreach : execAll cfg St.init items = some s) (hm : s.mem = some m)
    (hop : runOp cfg s o = some (s', ops)) (f : Fam) (hf : f ∈ m.fams) :
    (∀ fl n c, f.flusher = some fl → fl.builder = some (n, c) → n ∈ f.pending) ∧
    ∀ g, FsOp.removeTable f.opt.name g ∈ ops → g ∉ f.pending := by
  have hg := good_execAll (good_init cfg) hreach
  refine ⟨?_, fun g hrm => pending_never_removed hg hm hop hrm hf rfl⟩
  simp only [Good, hm] at hg
  intro fl n c hfl hb
  exact hg.1.builder f hf fl hfl n c hb

/-- **failed_table_write_commits_nothing.** A flush whose table close fails (I/O error on the final
buffer flush) performs no file-system operation of the commit: no record is appended, the version
set, the family list and hence the committed state are those before the flush (`OpOK` with an empty
trace: the disk is unchanged and still consistent with the state before); only the pending output
is dropped, so the partial table is an unreferenced orphan that the next cleanup removes
(`no_partial_visible`). -/
theorem failed_table_write_commits_nothing (cfg : Cfg) (items : List Item) (s : St) (m m' : Mem) (name : Nat)
    (ops : List FsOp) (hreach : execAll cfg St.init items = some s) (hm : s.mem = some m)
    (hf : flushFail m name = some (m', ops)) :
    ops = [] ∧ m'.vs = m.vs ∧ m'.info = m.info ∧ absOf m' s.disk = absOf m s.disk ∧ Inv m' s.disk := by
  have hg := good_execAll (good_init cfg) hreach
  simp only [Good, hm] at hg
  obtain ⟨h1, h2, h3, hok⟩ := flushFail_ok hg.1 hf
  subst h1
  exact ⟨rfl, h2, h3, by simp [absOf, h2, h3], by simpa [applyFsList] using hok.inv⟩

/-- **createFamily_crash_atomic.** CreateFamily of a new family is two file-system operations
(OPTIONS replaced, then the directory made). Kill the process at any cut (before, between, after) and
reopen: the family is there with its option, or it is not there and `CreateFamily(name, option)`
succeeds on the reopened store — the family in flight is never "neither present nor creatable". -/
theorem createFamily_crash_atomic (cfg : Cfg) (items : List Item) (s : St) (m m' : Mem) (name : Nat) (thr : Int)
    (ops : List FsOp) (k : Nat) (hreach : execAll cfg St.init items = some s) (hm : s.mem = some m)
    (hc : createFamily m s.disk name thr = some (m', ops)) :
    let dk := applyFsList s.disk (ops.take k)
    ∃ mr, (openStore cfg dk).1 = some mr ∧
      ((mr.info = m'.info ∧ (mr.fam? name).isSome) ∨
       (mr.info = m.info ∧ (createFamily mr (applyFsList dk (openStore cfg dk).2) name thr).isSome)) := by
  intro dk
  have hg := good_execAll (good_init cfg) hreach
  simp only [Good, hm] at hg
  obtain ⟨hinv, hcfg⟩ := hg
  subst hcfg
  have hok := createFamily_ok hinv hc
  have famOfInfo : ∀ (mr : Mem) (info : List FamOpt), mr.info = info → (∃ o ∈ info, o.name = name) → (mr.fam? name).isSome := by
    intro mr info hi ⟨o, ho, hon⟩
    rw [← hi] at ho
    simp only [Mem.info, List.mem_map] at ho
    obtain ⟨f, hf, rfl⟩ := ho
    simp only [Mem.fam?, List.find?_isSome]
    exact ⟨f, hf, by simpa using hon⟩
  -- the new family is named in the state after
  have hafter : ∃ o ∈ m'.info, o.name = name := by
    unfold createFamily at hc
    cases hf : m.fam? name with
    | some f =>
      simp only [hf, Option.some.injEq, Prod.mk.injEq] at hc
      obtain ⟨rfl, _⟩ := hc
      obtain ⟨hfm, hfn⟩ := fam?_some hf
      exact ⟨f.opt, by simp only [Mem.info, List.mem_map]; exact ⟨f, hfm, rfl⟩, hfn⟩
    | none =>
      simp only [hf] at hc
      split at hc
      · simp at hc
      · simp only [Option.some.injEq, Prod.mk.injEq] at hc
        obtain ⟨rfl, _⟩ := hc
        exact ⟨⟨name, m.familySeq + 1, thr⟩, by simp [Mem.info], rfl⟩
  rcases hok.prefixes k with hcons | hcons
  · -- consistent with the state before: either the family existed already, or this is the cut before OPTIONS
    obtain ⟨mr, hmr, _, _, hinfo, _, _⟩ := open_consistent m.cfg dk _ hcons
    refine ⟨mr, hmr, ?_⟩
    cases hf : m.fam? name with
    | some f =>
      left
      unfold createFamily at hc
      simp only [hf, Option.some.injEq, Prod.mk.injEq] at hc
      obtain ⟨rfl, _⟩ := hc
      exact ⟨hinfo, famOfInfo mr _ hinfo hafter⟩
    | none =>
      right
      refine ⟨hinfo, ?_⟩
      have hnone : ∀ fo ∈ m.info, fo.name ≠ name := by
        intro fo hfo e
        simp only [Mem.info, List.mem_map] at hfo
        obtain ⟨f, hfm, rfl⟩ := hfo
        have := List.find?_eq_none.mp hf f hfm
        simp only [decide_eq_true_eq] at this
        exact this e
      -- the cut is k = 0: a later prefix has the new OPTIONS
      unfold createFamily at hc
      simp only [hf] at hc
      by_cases hdir : (Map.lookup s.disk.famDirs name).isSome = true
      · simp [hdir] at hc
      · simp only [hdir, Bool.false_eq_true, if_false, Option.some.injEq, Prod.mk.injEq] at hc
        obtain ⟨rfl, rfl⟩ := hc
        have hk0 : dk = s.disk := by
          cases k with
          | zero => rfl
          | succ k =>
            exfalso
            have hopts := hcons.opts
            have : dk.options.getD [] = m.info ++ [⟨name, m.familySeq + 1, thr⟩] := by
              cases k with
              | zero => simp [dk, applyFsList, applyFs, Mem.info]
              | succ k =>
                simp only [dk, List.take_succ_cons, applyFsList, List.foldl_cons]
                cases k <;> simp [applyFs, Mem.info, options_frame] <;> (split <;> simp [Mem.info])
            rw [this] at hopts
            have := congrArg List.length hopts
            simp [absOf] at this
        obtain ⟨vs, hrec, _⟩ := hcons.recov
        have hfd := open_famDirs_other m.cfg dk vs hrec name (by rw [hcons.opts]; exact hnone)
        have hmrf : mr.fam? name = none := by
          simp only [Mem.fam?, List.find?_eq_none, decide_eq_true_eq]
          intro f hfm e
          have hinfo' : mr.info = m.info := hinfo
          have : f.opt ∈ m.info := by rw [← hinfo']; simp only [Mem.info, List.mem_map]; exact ⟨f, hfm, rfl⟩
          exact hnone _ this e
        have hd2 : (Map.lookup (applyFsList dk (openStore m.cfg dk).2).famDirs name).isSome = false := by
          rw [hfd, hk0]; simpa using hdir
        simp [createFamily, hmrf, hd2]
  · obtain ⟨mr, hmr, _, _, hinfo, _, _⟩ := open_consistent m.cfg dk _ hcons
    exact ⟨mr, hmr, Or.inl ⟨hinfo, famOfInfo mr _ hinfo hafter⟩⟩

/-! ## 3. file numbers handed out after recovery are fresh -/

/-- **fileno_fresh.** In every reachable state with the store open (in particular right after any
recovery), the next file number is greater than every table number any family version mentions
(level files and rollup files), than every pending output, and than the number of the manifest
file in use; and the number a flush / compaction output receives IS that next number. -/
theorem fileno_fresh (cfg : Cfg) (items : List Item) (s : St) (m : Mem)
    (hreach : execAll cfg St.init items = some s) (hm : s.mem = some m) :
    (∀ f ∈ m.vs.fams, ∀ x ∈ f.ver.nums, x < m.vs.next) ∧
    (∀ f ∈ m.fams, ∀ x ∈ f.pending, x < m.vs.next) ∧
    m.journal < m.vs.next ∧ s.disk.current = some m.journal := by
  have hg := good_execAll (good_init cfg) hreach
  simp only [Good, hm] at hg
  exact ⟨hg.1.nums, fun f hf x hx => (hg.1.pend f hf x hx).1, hg.1.jlt, hg.1.cur⟩

/-- the table a flush creates gets exactly the next file number (NextFileNumber returns the value before the increment) -/
theorem flush_allocates_next (m m' : Mem) (name : Nat) (kvs : List (Nat × Nat)) (seqs : List (Int × Int))
    (ops : List FsOp) (h : flushStart m name kvs seqs = some (m', ops)) :
    ops = [] ∨ (ops = [FsOp.createTable name m.vs.next] ∧ m'.vs.next = m.vs.next + 1) := by
  unfold flushStart at h
  split at h
  · simp at h
  · split at h
    · simp at h
    · split at h
      · simp only [Option.some.injEq, Prod.mk.injEq] at h; exact Or.inl h.2.symm
      · simp only [Option.some.injEq, Prod.mk.injEq] at h
        obtain ⟨rfl, rfl⟩ := h
        exact Or.inr ⟨rfl, rfl⟩

/-- keep the calls of `l` that are named in `steps` -/
def only (steps l : List String) : List String := l.filter (fun c => steps.contains c)

/-! ## 3b. concurrent committers of one store (flushes / compactions / bookkeeping commits of its families)

The histories above are sequences of complete operations. Concurrent goroutines interleave at the
atomic steps the code has: number allocation (`NextFileNumber`, under `vs.mutex`), the part of
`CommitFamilyEditLog` before `vs.mutex.Lock()`, and its critical section. What a committer has read
when it reaches the lock is the regenerated fact `Generated.C01.commitBeforeLockCalls`. -/

/-- regenerated step order: "nextFileNumber is read and logged under vs.mutex" -/
def nextReadUnderLock : Bool :=
  !(Generated.C01.commitBeforeLockCalls.contains readNextStep) && Generated.C01.commitUnderLockCalls.contains readNextStep &&
    Generated.C01.commitLockHeldToReturn

theorem tie_commit_next_under_lock : nextReadUnderLock = true := by decide

/-- CommitFamilyEditLog split at `vs.mutex.Lock()`: before it only the family lookup; under it (held to
return) the read of nextFileNumber, Add, persist, GetSnapshot (base of the clone), apply, appendVersion —
in this order. NextFileNumber allocates under the same mutex. -/
theorem tie_commit_lock_split :
    only (commitBeforeLockSteps ++ commitUnderLockSteps) Generated.C01.commitBeforeLockCalls = commitBeforeLockSteps ∧
    only (commitBeforeLockSteps ++ commitUnderLockSteps) Generated.C01.commitUnderLockCalls = commitUnderLockSteps ∧
    Generated.C01.commitLockHeldToReturn = true ∧
    only ["mutex.Lock", "defer:mutex.Unlock", "nextFileNumber.Inc"] Generated.C01.nextFileNumberCalls
      = ["mutex.Lock", "defer:mutex.Unlock", "nextFileNumber.Inc"] := by decide

/-- with the split the source has, a committer reaches the lock holding nothing of the version set's state -/
theorem commit_reads_nothing_before_lock (m : Mem) (fid : Int) :
    commitRead Generated.C01.commitBeforeLockCalls m fid = ⟨none, none⟩ :=
  commitRead_none _ (by decide) (by decide) m fid

/-- the critical section with nothing read before it is the model's atomic commit -/
theorem commitLocked_is_commitEditLog (m : Mem) (fid : Int) (logs : List Log) :
    commitLocked m fid logs (commitRead Generated.C01.commitBeforeLockCalls m fid) = commitEditLog m fid logs := by
  rw [commit_reads_nothing_before_lock, commitLocked_none]

/-- **interleaved_commits_refine_history.** Every concurrent execution — complete operations of any
goroutine interleaved in any way with any number of commits in flight (each split at `vs.mutex.Lock()`
as the source splits it) — reaches exactly the state of a sequential history: the one in which each
commit runs at its critical section. Hence every theorem above about reachable states holds for all
interleavings. (In-flight commits of this theorem are commits through `family.commitEditLog` of
bookkeeping edit logs; a flush's / compaction's commit is covered at the level of the allocator by
`fileno_fresh_interleaved`.) -/
theorem interleaved_commits_refine_history (cfg : Cfg) (steps : List Step) (s' : St) (infl' : List InFlight)
    (h : runSteps Generated.C01.commitBeforeLockCalls cfg St.init [] steps = some (s', infl')) :
    execAll cfg St.init (project [] steps) = some s' :=
  interleaved_refines _ (by decide) (by decide) cfg steps St.init [] s' infl' (by simp) h

/-- file numbers stay fresh in every state a concurrent execution reaches -/
theorem fileno_fresh_concurrent (cfg : Cfg) (steps : List Step) (s' : St) (infl' : List InFlight) (m : Mem)
    (h : runSteps Generated.C01.commitBeforeLockCalls cfg St.init [] steps = some (s', infl')) (hm : s'.mem = some m) :
    (∀ f ∈ m.vs.fams, ∀ x ∈ f.ver.nums, x < m.vs.next) ∧ (∀ f ∈ m.fams, ∀ x ∈ f.pending, x < m.vs.next) ∧
    m.journal < m.vs.next :=
  let r := fileno_fresh cfg _ s' m (interleaved_commits_refine_history cfg steps s' infl' h) hm
  ⟨r.1, r.2.1, r.2.2.1⟩

/-- **fileno_fresh_interleaved.** Any number of goroutines allocating table numbers and committing
(flushes, compaction outputs, commits without a table), every interleaving of the atomic steps
alloc / enter-commit / critical-section, with the read of nextFileNumber where the source has it:
in every reachable state (i) every number ever handed out is below the live allocator, and (ii) the
allocator recovered from the manifest (replay of the NextFileNumber logs in append order — the value
persisted LAST wins) is above every table number any record references: a table created after a crash
at this point never reuses the number of a referenced file. -/
theorem fileno_fresh_interleaved (n0 : Int) (evs : List KvSched.Ev) (s : KvSched.S)
    (h : KvSched.run nextReadUnderLock (KvSched.S.init n0) evs = some s) :
    (∀ x ∈ s.handed, x < s.next) ∧
    (∀ r ∈ s.recs, ∀ x ∈ r.1, x < KvSched.replayNext n0 s.recs) ∧
    (s.recs ≠ [] → KvSched.replayNext n0 s.recs ≤ s.next) := by
  rw [tie_commit_next_under_lock] at h
  have hi := KvSched.run_inv n0 evs _ s (KvSched.inv_init n0) h
  exact ⟨hi.handed, hi.fresh, fun hne => hi.below.resolve_right hne⟩

/-- the model's allocator step after a logged number is the version set's `setNumbers` (tied to
setNextFileNumberWithoutLock by `tie_setNumbers`) -/
theorem tie_sched_afterLog (n : Int) : KvSched.afterLog n = Generated.C01.nextAfterNext n := rfl

/-! ## 4. codec round trips -/

theorem uvarint_roundtrip (n : Nat) (rest : Bytes) : getUvarint (putUvarint n ++ rest) = some (n, rest) :=
  getUvarint_put n rest

theorem varint_roundtrip (i : Int) (rest : Bytes) : getVarint (putVarint i ++ rest) = some (i, rest) :=
  getVarint_put i rest

/-- Decode ∘ Encode = id for each of the eight edit-log kinds -/
theorem log_roundtrip (l : Log) : decodeLog l.tag (encodeLog l) = some l := by
  have := decodeLog_encodeLog l []
  simpa using this

/-- editLog.unmarshal ∘ editLog.marshal = id -/
theorem editlog_roundtrip (el : EditLog) : unmarshal (marshal el) = some el := unmarshal_marshal el

/-- **entries_roundtrip.** The manifest file's entry framing (pkg/bufioutil): reading back the file
written by the entry writer for ANY list of records returns exactly those records and ends cleanly —
for every total size and every read-buffer size `B ≥ 1`, i.e. wherever the reader's buffer boundaries
fall inside the entries (io.ReadFull keeps reading across a boundary; a single Read would come back
short). This is what lets the disk model hold a manifest as its list of records. -/
theorem entries_roundtrip (B : Nat) (hB : 1 ≤ B) (recs : List Bytes) :
    readEntries B (writeEntries recs) = (recs, true) :=
  readEntriesF_spec B hB recs ⟨[], writeEntries recs⟩ _ (by simp [RState.stream]) (Nat.le_refl _)

/-- the manifest of a store: records of edit logs, framed as entries, read back and decoded -/
theorem manifest_file_roundtrip (B : Nat) (hB : 1 ≤ B) (els : List EditLog) :
    (readEntries B (writeEntries (els.map marshal))).1.map unmarshal = els.map some := by
  rw [entries_roundtrip B hB]
  simp [List.map_map, Function.comp_def, unmarshal_marshal]

/-! ## 5. ties to the regenerated facts (a changed constant / formula / step order breaks these) -/

theorem tie_log_tags :
    (Log.newFile 0 0 0 0 0).tag = Generated.C01.newFileLog ∧ (Log.deleteFile 0 0).tag = Generated.C01.deleteFileLog ∧
    (Log.nextFileNumber 0).tag = Generated.C01.nextFileNumberLog ∧ (Log.newRollupFile 0 0).tag = Generated.C01.newRollupFileLog ∧
    (Log.deleteRollupFile 0 0).tag = Generated.C01.deleteRollupFileLog ∧
    (Log.newReferenceFile [] 0 0).tag = Generated.C01.newReferenceFileLog ∧
    (Log.deleteReferenceFile [] 0 0).tag = Generated.C01.deleteReferenceFileLog ∧
    (Log.sequence 0 0).tag = Generated.C01.sequenceNumberLog := by decide

theorem tie_storeFamilyID : storeFamilyID = Generated.C01.storeFamilyID := rfl

theorem tie_init_numbers (n : Nat) (ids : List Int) :
    (VS.init n ids).manifestNo = Generated.C01.initManifestFileNumber ∧
    (VS.init n ids).next = Generated.C01.initNextFileNumber := ⟨rfl, rfl⟩

/-- setNextFileNumberWithoutLock: manifestFileNumber := next, nextFileNumber := next + 1 -/
theorem tie_setNumbers (s : VS) (n : Int) :
    (setNumbers s (.nextFileNumber n)).manifestNo = Generated.C01.manifestAfterNext n ∧
    (setNumbers s (.nextFileNumber n)).next = Generated.C01.nextAfterNext n := ⟨rfl, rfl⟩

/-- NextFileNumber returns the incremented counter minus one = the old counter (what flushStart uses) -/
theorem tie_alloc (next : Int) : Generated.C01.allocReturn (next + 1) = next := by
  simp [Generated.C01.allocReturn]

theorem tie_names :
    Generated.C01.manifestPrefix = "MANIFEST-" ∧ Generated.C01.manifestFormat = "%s%06d" ∧
    Generated.C01.tableFormat = "%06d.%s" ∧ Generated.C01.sstSuffix = "sst" ∧ Generated.C01.currentName = "CURRENT" ∧
    Generated.C01.tmpSuffix = "tmp" ∧ Generated.C01.lock = "LOCK" ∧ Generated.C01.options = "OPTIONS" := by decide

theorem tie_flushCommit_order : only flushCommitSteps Generated.C01.flushCommitCalls = flushCommitSteps := by decide
theorem tie_initJournal_order : only initJournalSteps Generated.C01.initJournalCalls = initJournalSteps := by decide
theorem tie_setCurrent_order : only setCurrentSteps Generated.C01.setCurrentCalls = setCurrentSteps := by decide
theorem tie_commit_order : only commitSteps Generated.C01.commitFamilyEditLogCalls = commitSteps := by decide
theorem tie_persist_order : only persistEditLogsSteps Generated.C01.persistEditLogsCalls = persistEditLogsSteps := by decide
theorem tie_recover_order : only recoverSteps Generated.C01.recoverCalls = recoverSteps := by decide
theorem tie_newStore_order : only newStoreSteps Generated.C01.newStoreCalls = newStoreSteps := by decide
theorem tie_newStore_defer_order : only openDeferSteps Generated.C01.newStoreDeferCalls = openDeferSteps := by decide
theorem tie_createSnapshot_order : only createSnapshotSteps Generated.C01.createSnapshotCalls = createSnapshotSteps := by decide
theorem tie_famSnapshot_order : only famSnapshotSteps Generated.C01.createFamilySnapshotCalls = famSnapshotSteps := by decide
theorem tie_newTableBuilder_order : only newTableBuilderSteps Generated.C01.newTableBuilderCalls = newTableBuilderSteps := by decide
theorem tie_installCompaction_order :
    only installCompactionSteps Generated.C01.installCompactionResultsCalls = installCompactionSteps := by decide
theorem tie_moveCompaction_order : only moveCompactionSteps Generated.C01.moveCompactionCalls = moveCompactionSteps := by decide
theorem tie_compaction_defer_order : Generated.C01.backgroundCompactionJobDeferCalls = compactionDeferSteps := by decide
theorem tie_createFamily_order : only createFamilySteps Generated.C01.createFamilyCalls = createFamilySteps := by decide

/-- storeBuilder.Close hands the error of the final `writer.Close()` (buffer flush + file close) to
Commit: the result is NAMED, the deferred closure assigns it, and no local declaration shadows it -/
theorem tie_builder_close_error :
    Generated.C01.builderCloseResultNames = ["err"] ∧ "err" ∈ Generated.C01.builderCloseDeferAssigned ∧
    "err" ∉ Generated.C01.builderCloseVarDecls ∧ Generated.C01.builderCloseDeferCalls = ["writer.Close"] := by decide

/-- bufioEntryReader.Next reads the length with binary.ReadUvarint and the content with io.ReadFull
(no bare `Read` / `ReadByte` on the buffered reader); bufioEntryWriter.Write puts the uvarint
length, then the content; both buffers have the size the design assumes -/
theorem tie_entry_reader :
    only ["binary.ReadUvarint", "io.ReadFull", "r.Read", "r.ReadByte", "io.ReadAtLeast"] Generated.C01.entryReaderNextCalls
      = entryReaderSteps := by decide
theorem tie_entry_writer :
    only ["binary.PutUvarint", "w.Write", "f.Write"] Generated.C01.entryWriterWriteCalls = entryWriterSteps ∧
    Generated.C01.entryWriterSyncCalls = ["w.Flush", "f.Sync"] := by decide
theorem tie_buffer_sizes :
    Generated.C01.defaultReadBufferSize = 262144 ∧ Generated.C01.defaultWriteBufferSize = 262144 := by decide

/-- the rollup job (family_rollup.go `rollup()`, regenerated by C04's extractor): the source family's
DeleteRollupFile record is committed BEFORE the target family's reference files are cleaned — the order
the rollup-bookkeeping records of this model (`editCommit`) are assumed to arrive in -/
theorem tie_rollup_bookkeeping_order :
    only ["commitEditLog", "cleanReferenceFiles"] Generated.C04.rollupSteps = ["commitEditLog", "cleanReferenceFiles"] ∧
    Generated.C04.cleanReferenceSteps = ["CreateDeleteReferenceFile", "commitEditLog"] := by decide

/-- the model's initJournal trace is literally driven by the step list -/
theorem initJournal_trace (vs : VS) :
    initJournalOps vs = FsOp.createManifest vs.manifestNo ::
      ((snapshot vs).map (fun el => FsOp.appendRec vs.manifestNo (marshal el)) ++
        [FsOp.writeCurrentTmp vs.manifestNo, FsOp.renameCurrent]) := initJournalOps_eq vs

/-! ## 5b. the switch of the live manifest is ONE file-system operation (seed c01-22)

`tie_setCurrent_order` above only fixes the relative order of the two calls the model knows. The
statements below are about EVERY file-system call setCurrent makes now (`ioCalls` of the regenerated
call list: everything not known to be pure): an added remove / rewrite of CURRENT changes the list the
theorem runs. -/

/-- regenerated: the file-system calls of setCurrent are exactly the tmp write and the rename -/
theorem tie_setCurrent_io : C01Switch.ioCalls Generated.C01.setCurrentCalls = setCurrentSteps := by decide

/-- **current_switch_atomic.** At every point between two file-system operations of setCurrent (every
prefix `k` of its regenerated file-system calls), CURRENT names the old manifest or the new one — it
is never missing and never anything else; recovery therefore always replays a complete manifest and
never takes the "brand-new store" path on a store that has one. -/
theorem current_switch_atomic (old n : Int) (t : Option Int) (k : Nat) :
    let c := C01Switch.runCur n ⟨some old, t⟩ ((C01Switch.ioCalls Generated.C01.setCurrentCalls).take k)
    c.current = some old ∨ c.current = some n := by
  rw [tie_setCurrent_io]
  match k with
  | 0 => simp [C01Switch.runCur]
  | 1 => simp [C01Switch.runCur, setCurrentSteps, C01Switch.stepCur]
  | k + 2 => simp [C01Switch.runCur, setCurrentSteps, C01Switch.stepCur]

/-- the disk model's setCurrent is that list: same CURRENT after every prefix -/
theorem switch_model_agrees (d : Disk) (n : Int) (k : Nat) :
    (applyFsList d ((setCurrentOps n).take k)).current =
      (C01Switch.runCur n ⟨d.current, d.currentTmp⟩ ((C01Switch.ioCalls Generated.C01.setCurrentCalls).take k)).current := by
  rw [tie_setCurrent_io]
  have h : setCurrentOps n = [FsOp.writeCurrentTmp n, FsOp.renameCurrent] := by
    simp [setCurrentOps, setCurrentSteps]
  rw [h]
  match k with
  | 0 => simp [C01Switch.runCur, applyFsList]
  | 1 => simp [C01Switch.runCur, applyFsList, setCurrentSteps, C01Switch.stepCur, applyFs]
  | k + 2 => simp [C01Switch.runCur, applyFsList, setCurrentSteps, C01Switch.stepCur, applyFs]

/-! ## 5c. concurrent creators of one family (seed c01-21)

`store.CreateFamily` as the atomic steps the code has (Model/C01CreateFam.lean): the read-locked lookup,
then the write-lock region. Whether that region — "is the family new", id assignment, OPTIONS, the open
(mkdir + family version), the publication — is ONE atomic step is the regenerated fact below. -/

/-- regenerated: `defer s.rwMutex.Unlock()` follows the Lock directly, no explicit Unlock / second Lock
afterwards, and the one publication `s.families[name] = family` is after the Lock -/
def createFamilyHeld : Bool :=
  Generated.C01.createFamilyLockHeldToReturn && Generated.C01.createFamilyPublishesAfterLock == 1

/-- the creators' model as the source stands now -/
def cfCfg : C01CF.Cfg := ⟨createFamilyHeld, Generated.C01.createFamilyRechecksUnderLock⟩

theorem cfCfg_is_driver_cfg : cfCfg = ⟨Generated.C01.createFamilyLockHeldToReturn && Generated.C01.createFamilyPublishesAfterLock == 1,
    Generated.C01.createFamilyRechecksUnderLock⟩ := rfl

theorem tie_createFamily_lock_region :
    createFamilyHeld = true ∧
    only ["fileutil.Exist", "familySeq.Inc", "s.dumpStoreInfo", "newFamilyFunc"] Generated.C01.createFamilyUnderLockCalls
      = ["fileutil.Exist", "familySeq.Inc", "s.dumpStoreInfo", "newFamilyFunc"] ∧
    only ["s.dumpStoreInfo", "newFamilyFunc"] Generated.C01.createFamilyCalls = createFamilySteps := by decide

/-- **createFamily_one_id_per_name.** For ANY number of goroutines calling CreateFamily with any names and
EVERY interleaving of their atomic steps (and of flushes / cleanups through the handles): all handles
ever returned for one family name carry the same id, and that id is the one OPTIONS holds, the one the
version set's family version has, the one storeInfo has. Every commit through any handle is therefore
journaled under an id that recovery (which reads OPTIONS first) knows: the store stays reopenable.
Distinct names have distinct ids. Proved for the lock region the source has NOW (`cfCfg`). -/
theorem createFamily_one_id_per_name (steps : List C01CF.Step) :
    let s := C01CF.run cfCfg C01CF.St.init steps
    (∀ nm h₁ h₂, (nm, h₁) ∈ s.opened → (nm, h₂) ∈ s.opened → h₁.id = h₂.id) ∧
    (∀ nm h, (nm, h) ∈ s.opened → s.options nm = some h.id ∧ s.fvs nm = some h.id ∧ s.info nm = some h.id) ∧
    (∀ a b h₁ h₂, (a, h₁) ∈ s.opened → (b, h₂) ∈ s.opened → h₁.id = h₂.id → a = b) := by
  have hheld : cfCfg.held = true := by decide
  have hi := C01CF.inv_run cfCfg hheld steps C01CF.inv_init
  refine ⟨?_, ?_, ?_⟩
  · intro nm h₁ h₂ m₁ m₂
    have e₁ := hi.opened_info nm h₁ m₁
    have e₂ := hi.opened_info nm h₂ m₂
    rw [e₁] at e₂
    exact Option.some.inj e₂
  · intro nm h m
    exact ⟨(hi.options_info nm).trans (hi.opened_info nm h m), hi.opened_fv nm h m, hi.opened_info nm h m⟩
  · intro a b h₁ h₂ m₁ m₂ he
    exact hi.info_inj a b h₁.id (hi.opened_info a h₁ m₁) (he ▸ hi.opened_info b h₂ m₂)

/-- the same from any state in which the ids agree (e.g. the state after an open), for any re-check setting -/
theorem createFamily_keeps_ids (recheck : Bool) (s : C01CF.St) (hi : C01CF.Inv s) (steps : List C01CF.Step) :
    C01CF.Inv (C01CF.run ⟨true, recheck⟩ s steps) :=
  C01CF.inv_run ⟨true, recheck⟩ rfl steps hi

/-- **createFamily_one_object_with_recheck.** When CreateFamily looks `s.families` up again under the write
lock, every interleaving hands out ONE family object per name (so one pendingOutputs set per family, which
is what `unfinished_writer_table_never_deleted` assumes). The source as it stands does NOT re-check: see
`Neg.concurrent_creators_get_two_family_objects`. -/
theorem createFamily_one_object_with_recheck (steps : List C01CF.Step) :
    let s := C01CF.run ⟨true, true⟩ C01CF.St.init steps
    ∀ nm h₁ h₂, (nm, h₁) ∈ s.opened → (nm, h₂) ∈ s.opened → h₁ = h₂ := by
  intro s nm h₁ h₂ m₁ m₂
  have hs := C01CF.single_run ⟨true, true⟩ rfl rfl steps C01CF.single_init
  have e₁ := hs nm h₁ m₁
  have e₂ := hs nm h₂ m₂
  rw [e₁] at e₂
  exact Option.some.inj e₂

/-- a cleanup through a family object never removes a pending output of THAT object -/
theorem cleanup_keeps_own_pending (cfg : C01CF.Cfg) (s : C01CF.St) (hid nm n : Nat)
    (hp : n ∈ s.pending hid) (ht : n ∈ s.tables nm) :
    n ∈ (C01CF.step cfg s (.cleanup hid nm)).tables nm := by
  simp only [C01CF.step, C01CF.upd_same, List.mem_filter]
  exact ⟨ht, by simp [hp]⟩

/-! ## 6. non-vacuity: the hypotheses are satisfiable by a non-trivial history -/

def exCfg : Cfg := ⟨2, [300000]⟩

/-- open, create a family, flush two keys with a sequence, die right after the table was closed
(before the record), reopen, flush again, commit, compact (trivial move), close, reopen. -/
def exHistory : List Item :=
  [.run .openS, .run (.createFamily 10 1), .run (.flushStart 10 [(1, 100), (3, 7)] [(1, 5)]),
   .die (.flushCommit 10 55) 1, .run .openS, .run (.flushStart 10 [(2, 9)] []), .run (.flushCommit 10 40),
   .run (.compact 10 0), .run .close, .run .openS]

example : (execAll exCfg St.init exHistory).isSome = true := by decide

/-- after that history the family has one file at level 1 holding key 2, nothing from the flush that died -/
example : ((execAll exCfg St.init exHistory).bind (fun s => s.mem)).map
    (fun m => m.vs.fams.map (fun f => f.ver.files.map (fun e => (e.1.1, e.1.2)))) = some [[(1, 3)]] := by decide

/-- a flusher holding an uncommitted table while a compaction of the same family merges and cleans up,
then committing; an idle session; an open that dies inside the snapshot, re-opened twice -/
def exHistory2 : List Item :=
  [.run .openS, .run (.createFamily 10 2), .run (.flushStart 10 [(1, 1)] []), .run (.flushCommit 10 30),
   .run (.flushStart 10 [(1, 2), (5, 5)] []), .run (.flushCommit 10 30),
   .run (.flushStart 10 [(2, 7)] [(1, 9)]), .run (.compact 10 33), .run (.flushCommit 10 30),
   .run .close, .run .openS, .run .close, .die .openS 3, .run .openS, .run .close, .run .openS]

example : ((execAll exCfg St.init exHistory2).bind (fun s => s.mem)).map
    (fun m => m.vs.fams.map (fun f => f.ver.files.map (fun e => (e.1.1, e.1.2)))) = some [[(1, 7), (0, 6)]] := by decide

/-! ## 7. observation outside the quantifier (torn single write) — NOT a violation of C01 -/

namespace Observations

/-- a store directory whose manifest (named by CURRENT) ends in a torn record -/
def tornDisk : Disk :=
  ⟨true, some [], false, some 1, none, [(1, ⟨[marshal ⟨storeFamilyID, [.nextFileNumber 2]⟩], true⟩)], []⟩

/-- newStore fails on it, and its deferred deleteObsoleteFiles then removes MANIFEST-1 — the manifest
CURRENT names — because manifestFileNumber was already advanced by the records replayed so far. -/
theorem torn_tail_open_deletes_live_manifest :
    (openStore ⟨2, []⟩ tornDisk).1 = none ∧ FsOp.removeManifest 1 ∈ (openStore ⟨2, []⟩ tornDisk).2 := by decide

/-- after that, every further open fails ("create journal reader error"): the store is lost. -/
theorem torn_tail_store_lost :
    (openStore ⟨2, []⟩ (applyFsList tornDisk (openStore ⟨2, []⟩ tornDisk).2)).1 = none := by decide

/-- what the entry reader does with a torn tail, precisely (outside C01's quantifier):
(i) a tail that is only a complete length header — the content entirely missing — is dropped silently:
every earlier record is read, the loop ends cleanly, all earlier commits are durable;
(ii) a tail whose content is partly present is an error: recovery fails (and see `torn_tail_destroys_store`). -/
theorem torn_tail_reading (B : Nat) (hB : 1 ≤ B) (recs : List Bytes) (n : Nat) (a : Bytes) :
    (0 < n → readEntries B (writeEntries recs ++ putUvarint n) = (recs, true)) ∧
    (a ≠ [] → a.length < n → readEntries B (writeEntries recs ++ (putUvarint n ++ a)) = (recs, false)) :=
  ⟨torn_tail_header_only B hB recs n, torn_tail_partial_content B hB recs n a⟩

/-- the torn-tail defect for EVERY consistent disk (not only the example above): with an
error-producing torn record at the end of the live manifest, newStore fails and its deferred cleanup
removes that very manifest. -/
theorem torn_tail_destroys_any_store (cfg : Cfg) (d : Disk) (a : Abs) (h : Consistent cfg d a) (j : Int) (mf : Manifest)
    (hc : d.current = some j) (hl : Map.lookup d.manifests j = some mf) :
    let dt : Disk := { d with manifests := Map.upsert d.manifests j { mf with torn := true } }
    (openStore cfg dt).1 = none ∧ FsOp.removeManifest j ∈ (openStore cfg dt).2 :=
  torn_tail_destroys_store cfg d a h j mf hc hl

/-- a header-only torn tail is "harmless" for the records before it, but when the dropped record is the
store record of a snapshot (NextFileNumber), recovery starts from the initial numbers: the next file
number (2) is not above the referenced table (5). Snapshot of one family with file 5, store record lost. -/
theorem header_only_tail_can_lose_next_number :
    let d : Disk := ⟨true, some [⟨10, 1, 0⟩], false, some 7, none,
      [(7, ⟨[marshal ⟨1, [.newFile 0 5 1 2 30]⟩], false⟩)], [(10, [(5, ⟨true, [(1, 1)]⟩)])]⟩
    ((openStore ⟨2, []⟩ d).1.map (fun m => (m.vs.next, m.vs.fams.map (fun f => f.ver.files.map (fun e => e.1.2)))))
      = some (2, [[5]]) := by decide

/-- why io.ReadFull matters: with a single `Read` per entry (what a buffered reader looks like it
could do) an entry that straddles a buffer boundary comes back short and the next entry is misframed.
Buffer of 4 bytes, two entries of 6 and 2 bytes. -/
theorem single_read_misframes :
    readEntries 4 (writeEntries [[1, 2, 3, 4, 5, 6], [7, 8]]) = ([[1, 2, 3, 4, 5, 6], [7, 8]], true) ∧
    readEntriesShortF 4 20 ⟨[], writeEntries [[1, 2, 3, 4, 5, 6], [7, 8]]⟩ ≠ ([[1, 2, 3, 4, 5, 6], [7, 8]], true) := by
  decide

end Observations

/-! ## 8. counterfactual: CreateFamily with the two steps swapped (directory first, OPTIONS second) -/

namespace Counterfactual

/-- a store with no family, open; `mkdirFam 10` done, the OPTIONS write not yet: the cut between the swapped steps -/
def afterMkdirOnly : Disk :=
  applyFs (applyFsList Disk.empty (openStore ⟨2, []⟩ Disk.empty).2) (.mkdirFam 10)

/-- reopening that disk shows no family 10, and CreateFamily(10) fails (the directory exists, no option
is known): with the swapped order the family in flight is neither present nor creatable. The real
order (OPTIONS first) is tied by `tie_createFamily_order` and covered by `createFamily_crash_atomic`. -/
theorem swapped_order_family_stuck :
    ((openStore ⟨2, []⟩ afterMkdirOnly).1.map (fun m => (m.fam? 10).isSome)) = some false ∧
    ((openStore ⟨2, []⟩ afterMkdirOnly).1.bind
      (fun m => createFamily m (applyFsList afterMkdirOnly (openStore ⟨2, []⟩ afterMkdirOnly).2) 10 0)).isNone = true := by
  decide

/-- the read of nextFileNumber moved BEFORE `vs.mutex.Lock()` (`underLock = false`): committer 0 enters
(captures 2), committer 1 allocates 2, commits (logs 3), allocates 4, commits (logs 5), then committer 0
runs its critical section and appends the stale 2 as the LAST record: the live allocator falls back to 3
and the allocator recovered from the manifest is 3 although table 4 is referenced. -/
theorem next_read_before_lock_reuses :
    (KvSched.run false (KvSched.S.init 2)
      [.enter 0, .alloc 1, .enter 1, .locked 1, .alloc 1, .enter 1, .locked 1, .locked 0]).map
      (fun s => (s.next, KvSched.replayNext 2 s.recs, s.recs)) = some (3, 3, [([2], 3), ([4], 5), ([], 2)]) := by
  decide

/-- the same on the full model: a commit that took the family's version before the lock installs a
version without the table a concurrent flush of the same family committed in between (lost update),
while the manifest holds both records -/
theorem snapshot_before_lock_loses_commit :
    let m0 : Mem := ⟨⟨2, []⟩, [⟨⟨10, 1, 4⟩, [], none⟩], 1, ⟨[⟨1, Version.empty 2⟩], 1, 2⟩, 1⟩
    let pre := commitRead ["vs.GetFamilyVersion", readVersionStep] m0 1
    ((commitEditLog m0 1 [.newFile 0 2 1 1 30]).bind (fun r =>
      (commitLocked r.1 1 [.newReferenceFile [] 7 3] pre).map (fun r2 => (r2.1.vs.verOf 1).map (fun v => v.files.length))))
      = some (some 0) := by
  decide

/-- setCurrent with a remove of the previous CURRENT between the tmp write and the rename (seed c01-22):
after two of its three file-system operations there is no CURRENT -/
theorem remove_before_rename_no_current :
    (C01Switch.runCur 5 ⟨some 1, none⟩ (["writeFileFunc", "removeFunc", "renameFunc"].take 2)).current = none := by decide

/-- … and a store directory that holds a committed flush but no CURRENT is opened as a brand-new store:
the family comes up without files and newStore's deferred cleanup removes the manifest and the table -/
theorem no_current_recovers_empty_and_deletes :
    let d := ((execAll exCfg St.init [.run .openS, .run (.createFamily 10 1), .run (.flushStart 10 [(1, 100)] []),
      .run (.flushCommit 10 55), .run .close]).map (·.disk)).getD Disk.empty
    let d' : Disk := { d with current := none }
    ((openStore exCfg d).1.map (fun m => m.vs.fams.map (fun f => f.ver.files.length))) = some [1] ∧
    ((openStore exCfg d').1.map (fun m => m.vs.fams.map (fun f => f.ver.files.length))) = some [0] ∧
    FsOp.removeTable 10 2 ∈ (openStore exCfg d').2 := by decide

/-- CreateFamily with the open OUTSIDE the write lock (seed c01-21: Unlock after the OPTIONS dump, newFamily
unlocked, Lock again to publish): creator 0 stops between the dump and its mkdir, creator 1 runs through
(the directory does not exist: a second id, OPTIONS rewritten), creator 0 continues. Handle 0 carries id 1,
OPTIONS holds 2: commits through handle 0 are journaled under an id recovery does not know. -/
theorem open_outside_lock_two_ids :
    let s := C01CF.run ⟨false, false⟩ C01CF.St.init (C01CF.raceSchedule ⟨false, false⟩ 11 "pre-mkfam")
    s.opened = [(11, ⟨0, 2⟩), (11, ⟨1, 1⟩)] ∧ s.options 11 = some 2 ∧ s.fvs 11 = some 2 := by decide

end Counterfactual

/-! ## 10. round 10 — close waits for every started background job; a flush commit is ONE record that carries
its rollup marks; decoded logs own their bytes -/

section Round10
open LinVerif.Model

/-- the WaitGroup protocol as the source has it NOW: `condition.Add(1)` precedes the go statement in BOTH
starters of background jobs (family.compact, family.rollup), a flusher is counted synchronously, and
family.close waits -/
def closeCfg : C01Close.Cfg :=
  ⟨C01Close.addBeforeGoOf Generated.C01.compactStartSteps && C01Close.addBeforeGoOf Generated.C01.rollupStartSteps &&
     Generated.C01.newFlusherCalls.head? == some "condition.Add",
   Generated.C01.familyCloseCalls.contains "condition.Wait"⟩

/-- regenerated step-order fact: Add(1) precedes the go statement (c01-18 moves it into the goroutine: the
list becomes `[CAS, "go", "go:condition.Add", …]` and this fails by name) -/
theorem tie_job_start_add_before_go : closeCfg = ⟨true, true⟩ := by decide

/-- store.close waits for the families' jobs BEFORE it releases the table cache, the journal and the LOCK -/
theorem tie_store_close_order :
    only ["f.close", "cache.Close", "versions.Destroy", "lock.Unlock"] Generated.C01.storeCloseCalls =
      ["f.close", "cache.Close", "versions.Destroy", "lock.Unlock"] := by decide

/-- **close_waits_for_started_jobs.** For EVERY interleaving (any step list: any number of job starts of any
family, the jobs' first statements / work steps / Done in any order, the CloseStore call, Wait's return): no
job executes a step after Wait returned, the WaitGroup never goes negative, and once Wait has returned no
started job is unfinished. Stated for `closeCfg`, i.e. for the start / close code as regenerated from the
source. This is what makes `compact` followed by `close` in a history the two complete operations the model
of histories (`Spec/C01History`) takes them to be. -/
theorem close_waits_for_started_jobs (steps : List C01Close.Step) :
    let s := C01Close.run closeCfg {} steps
    s.late = 0 ∧ s.neg = false ∧ (s.closed = true → s.spawned = 0 ∧ s.running = 0) := by
  rw [tie_job_start_add_before_go]
  have h := C01Close.inv_run C01Close.inv_init steps
  refine ⟨h.late, h.neg, fun hc => ?_⟩
  have h0 := (h.closed hc).2
  have hcnt := h.count
  omega

/-- **jobs_complete_before_close.** After ANY execution in which Wait has returned, a job's first statement
and a job's work step are not enabled (they leave the state unchanged): every operation of every started job
precedes the close's own operations (cache.Close, versions.Destroy, lock.Unlock). -/
theorem jobs_complete_before_close (pre : List C01Close.Step)
    (hc : (C01Close.run closeCfg {} pre).closed = true) :
    C01Close.step closeCfg (C01Close.run closeCfg {} pre) .work = C01Close.run closeCfg {} pre ∧
    C01Close.step closeCfg (C01Close.run closeCfg {} pre) .first = C01Close.run closeCfg {} pre ∧
    C01Close.step closeCfg (C01Close.run closeCfg {} pre) .start = C01Close.run closeCfg {} pre := by
  have h := close_waits_for_started_jobs pre
  simp only at h
  obtain ⟨_, _, h3⟩ := h
  obtain ⟨hs, hr⟩ := h3 hc
  have hcl : (C01Close.run closeCfg {} pre).closing = true := by
    have hi := C01Close.inv_run C01Close.inv_init pre
    rw [tie_job_start_add_before_go] at hc
    have := (hi.closed hc).1
    rw [tie_job_start_add_before_go]; exact this
  refine ⟨?_, ?_, ?_⟩
  · simp [C01Close.step, hr]
  · simp [C01Close.step, hs]
  · simp [C01Close.step, hcl]

/-- **flush_commit_carries_marks.** A flush commit of a flusher with a table appends exactly ONE manifest
record (after the table close), and that record holds the table's NewFile log AND its rollup mark for every
target interval of the store: by `recover_prefix` the table and its marks are recovered together or not at all. -/
theorem flush_commit_carries_marks (m m' : Mem) (name size : Nat) (ops : List FsOp) (f : Fam) (fl : Flusher)
    (n : Int) (c : List (Nat × Nat))
    (hf : m.fam? name = some f) (hfl : f.flusher = some fl) (hb : fl.builder = some (n, c))
    (h : flushCommit m name size = some (m', ops)) :
    ∃ logs, ops = [FsOp.closeTable name n c, FsOp.appendRec m.journal (marshal ⟨f.opt.id, logs ++ [.nextFileNumber m.vs.next]⟩)] ∧
      Log.newFile 0 n (minKey c) (maxKey c) size ∈ logs ∧ ∀ i ∈ m.cfg.rollup, Log.newRollupFile n i ∈ logs := by
  unfold flushCommit at h
  simp only [hf, hfl, hb] at h
  split at h
  · simp at h
  · rename_i m1 ops1 hce
    simp only [Option.some.injEq, Prod.mk.injEq] at h
    rcases commit_is_one_record _ _ _ _ _ hce with ⟨hnil, _, _⟩ | ⟨hops, _⟩
    · exfalso
      simp [flushCommitSteps] at hnil
    · rw [hops] at h
      exact ⟨_, h.2.symm, by simp [flushCommitSteps], by
        intro i hi
        simp [flushCommitSteps]
        exact hi⟩

/-- the store-name decoders take copies: no call in kv/version/log.go hands out a view of the record
(stream.Reader.ReadSlice, strutil.ByteSlice2String, package unsafe); both decoders read the name with ReadBytes
and convert with string(..) -/
def logDecodersCopy : Bool :=
  Generated.C01.logViewCalls.isEmpty &&
  only ["reader.ReadBytes", "string"] Generated.C01.newReferenceFileDecodeCalls == ["reader.ReadBytes", "string"] &&
  only ["reader.ReadBytes", "string"] Generated.C01.deleteReferenceFileDecodeCalls == ["reader.ReadBytes", "string"]

theorem tie_log_decoders_copy : logDecodersCopy = true := by decide

/-- **recovered_names_are_written_names.** For every manifest (any records, names anywhere inside them, any
lengths — so any pattern of buffer re-use and re-allocation in the entry reader): replay with the decoders as
regenerated from the source recovers every reference record's store name as it was written. -/
theorem recovered_names_are_written_names (recs : List C01Alias.Rec) :
    C01Alias.recoverNames logDecodersCopy recs = recs.map C01Alias.Rec.name := by
  rw [tie_log_decoders_copy]; exact C01Alias.recoverNames_copies recs

end Round10

namespace Counterfactual
open LinVerif.Model

/-- c01-18's shape on the model: with `Add(1)` as the goroutine's first statement, Compact() returns, CloseStore's
Wait sees a zero counter and returns, then the job executes two steps and finishes — on a closed store -/
theorem add_inside_goroutine_close_returns_early :
    let s := C01Close.run ⟨false, true⟩ {} C01Close.lateSchedule
    s.closed = true ∧ s.late = 2 ∧ s.finished = 1 := by decide

/-- the same schedule with the Add before the go statement: Wait is not enabled while the job lives -/
theorem add_before_go_same_schedule_waits :
    let s := C01Close.run ⟨true, true⟩ {} C01Close.lateSchedule
    s.closed = false ∧ s.late = 0 ∧ s.finished = 1 := by decide

/-- c01-17's shape on the model: a reference record named "seg" followed by a record of the same length with
other bytes at the name's offsets; with a VIEW instead of a copy the recovered name is the later record's bytes -/
theorem aliased_store_name_changes :
    C01Alias.recoverNames false [⟨[6, 2, 3, 115, 101, 103], 3, 3⟩, ⟨[0, 4, 9, 9, 9, 9], 0, 0⟩] = [[9, 9, 9], []] ∧
    C01Alias.recoverNames true [⟨[6, 2, 3, 115, 101, 103], 3, 3⟩, ⟨[0, 4, 9, 9, 9, 9], 0, 0⟩] = [[115, 101, 103], []] := by
  decide

/-- c01-16's shape on the model: the flush's data logs and its rollup marks committed as TWO records
(`flushCommit` under a configuration without rollup targets = the data record; `editCommit` = the marks). The
disk between the two records recovers to the table WITHOUT marks — neither the state before the flush nor
the state after it. -/
def splitHistory : List Item :=
  [.run .openS, .run (.createFamily 10 1), .run (.flushStart 10 [(1, 100)] []), .run (.flushCommit 10 55)]

theorem split_flush_commit_half_applied :
    (((execAll ⟨2, []⟩ St.init splitHistory).bind (fun s => (openStore ⟨2, [300000]⟩ s.disk).1)).map
      (fun m => m.vs.fams.map (fun f => (f.ver.files.map (fun e => e.1.2), f.ver.rollup)))) = some [([2], [])] ∧
    (((execAll ⟨2, [300000]⟩ St.init splitHistory).bind (fun s => (openStore ⟨2, [300000]⟩ s.disk).1)).map
      (fun m => m.vs.fams.map (fun f => (f.ver.files.map (fun e => e.1.2), f.ver.rollup)))) = some [([2], [(2, [300000])])] := by
  decide

end Counterfactual

/-! ## 8c. Round 12 — the buffered writer under the manifest (pkg/bufioutil bufioEntryWriter over bufio.Writer)

The disk model holds a manifest as the list of its records and treats "append a record" as one file-system
operation. Underneath, `persistEditLogs` hands the record to a bufio.Writer (user-space buffer of
`defaultWriteBufferSize` bytes) and then calls `Sync` — the ONLY thing on that path that moves the buffer
to the file. A process kill keeps the file and loses the buffer. Model: `Model/C01Writer.lean` (`BW`). -/
section Round12
open LinVerif.Kv.BW

/-- which records persistEditLogs syncs: read off the regenerated loop body (`persistLoopSteps`) -/
def persistSyncs : Bytes → Bool := fun _ => syncsEveryRecord Generated.C01.persistLoopSteps

/-- the loop body of persistEditLogs: marshal, Write, Sync — each on every iteration (none of them inside a
nested if / switch / loop body), no other call on the writer, and no jump (continue / break / goto / success
return) that would leave the iteration between them; the only exits are the error returns -/
theorem tie_persist_syncs_every_record :
    only ["editLog.marshal", "writer.Write", "writer.Sync", "writer.Flush", "writer.Close", "writer.Reset",
          "guarded:editLog.marshal", "guarded:writer.Write", "guarded:writer.Sync", "guarded:writer.Flush",
          "guarded:writer.Close", "guarded:writer.Reset", "continue", "break", "goto", "return-nil",
          "guarded:continue", "guarded:break", "guarded:goto", "guarded:return-nil"] Generated.C01.persistLoopSteps
      = persistEditLogsSteps ∧
    syncsEveryRecord Generated.C01.persistLoopSteps = true := by decide

/-- Flush = bufio Flush; Close = bufio Flush then file close; a new writer truncates (os.Create) and gets a
bufio.Writer; Destroy closes (hence flushes) the manifest writer -/
theorem tie_entry_writer_flush_close :
    Generated.C01.entryWriterFlushCalls = ["w.Flush"] ∧ Generated.C01.entryWriterCloseCalls = ["w.Flush", "f.Close"] ∧
    Generated.C01.newEntryWriterCalls = ["os.Create", "bufio.NewWriterSize"] ∧
    only ["manifest.Close"] Generated.C01.versionSetDestroyCalls = ["manifest.Close"] := by decide

theorem persistSyncs_all : persistSyncs = fun _ => true := by
  funext _
  show syncsEveryRecord Generated.C01.persistLoopSteps = true
  decide

/-- the writer loses and invents nothing: for EVERY buffer size and EVERY sequence of Write / Flush / Sync /
Close, file ++ buffer is exactly the framed records handed over, in order, and the buffer stays within B -/
theorem writer_conserves_stream (B : Nat) (ops : List WOp) :
    (runW B WState.init ops).file ++ (runW B WState.init ops).buf = written ops ∧
    (runW B WState.init ops).buf.length ≤ B := by
  refine ⟨?_, runW_bound B ops WState.init (by simp [WState.init])⟩
  have := runW_stream B ops WState.init
  simpa [WState.stream, WState.init] using this

/-- after a Flush / Sync / Close everything written before is in the file and nothing is buffered -/
theorem sync_makes_everything_written_durable (B : Nat) (ops : List WOp) (o : WOp)
    (ho : o = .sync ∨ o = .flush ∨ o = .close) :
    runW B WState.init (ops ++ [o]) = ⟨written ops, []⟩ := by
  rw [runW_append]
  have h := runW_stream B ops WState.init
  have : runW B (runW B WState.init ops) [o] = flush (runW B WState.init ops) := by
    rcases ho with rfl | rfl | rfl <;> simp [runW, stepW]
  rw [this, flush_eq, h]
  simp [WState.stream, WState.init]

/-- what the disk model assumes of `appendRec`: with persistEditLogs as the source has it (the sync predicate
is the regenerated one), after persisting ANY list of records through a writer of ANY buffer size the buffer
is empty, the FILE — what a process kill leaves — holds exactly the framed records, and the entry reader
(any read-buffer size) returns exactly those records with a clean end -/
theorem persisted_records_survive_kill (B B' : Nat) (hB' : 1 ≤ B') (recs : List Bytes) :
    (persistW B persistSyncs WState.init recs).buf = [] ∧
    (persistW B persistSyncs WState.init recs).file = writeEntries recs ∧
    readEntries B' (persistW B persistSyncs WState.init recs).file = (recs, true) := by
  rw [persistSyncs_all, persistW_all]
  cases recs with
  | nil => exact ⟨rfl, rfl, entries_roundtrip B' hB' []⟩
  | cons r t =>
    have hf : (WState.init.stream ++ writeEntries (r :: t)) = writeEntries (r :: t) := by simp [WState.stream, WState.init]
    refine ⟨rfl, hf, ?_⟩
    show readEntries B' (WState.init.stream ++ writeEntries (r :: t)) = _
    rw [hf]; exact entries_roundtrip B' hB' _

/-- a kill INSIDE persistEditLogs (after any write(2) call of it, any buffer size, records of any size — also
larger than the buffer): the file holds every earlier record completely, followed by a prefix of ONE record
(`Observations.torn_tail_reading` says how the reader treats such a prefix) -/
theorem kill_during_persist_keeps_synced_records (B : Nat) (recs : List Bytes) (f : Bytes)
    (hf : f ∈ persistImages B persistSyncs WState.init recs) :
    ∃ i, i < recs.length ∧ writeEntries (recs.take i) <+: f ∧ f <+: writeEntries (recs.take (i + 1)) := by
  rw [persistSyncs_all] at hf
  obtain ⟨i, hi, h1, h2⟩ := persistImages_all B recs WState.init rfl f hf
  exact ⟨i, hi, by simpa [WState.init] using h1, by simpa [WState.init] using h2⟩

/-- non-vacuity: buffer of 4 bytes, a 6-byte record (header buffered; the content fills the buffer, which is
flushed: a file with HALF a record; the rest is buffered until the Sync), a 1-byte record (in the buffer until its Sync) -/
example : persistImages 4 persistSyncs WState.init [[1, 2, 3, 4, 5, 6], [7]] =
    [[6, 1, 2, 3], [6, 1, 2, 3, 4, 5, 6], [6, 1, 2, 3, 4, 5, 6, 1, 7]] := by
  rw [persistSyncs_all]; decide
example : runW 4 WState.init [.write [1, 2], .write [3, 4, 5], .flush, .write [9]] = ⟨[2, 1, 2, 3, 3, 4, 5], [1, 9]⟩ := by decide

/-- table files (bufioStreamWriter: the same bufio.Writer, no headers): after Close the file is exactly the
chunks written, for every buffer size and every chunking — "the table is flushed+closed before its NewFile
record is appended" makes the table COMPLETE -/
theorem closed_table_is_complete (B : Nat) (chunks : List Bytes) :
    flush (streamWrites B WState.init chunks) = ⟨chunks.flatten, []⟩ := by
  rw [flush_eq, streamWrites_stream]
  simp [WState.stream, WState.init]

/-- … and before the Close the file is a prefix of the table, missing at most one buffer: a half-written table -/
theorem unclosed_table_is_prefix (B : Nat) (chunks : List Bytes) :
    (streamWrites B WState.init chunks).file <+: chunks.flatten ∧
    chunks.flatten.length ≤ (streamWrites B WState.init chunks).file.length + B := by
  have h := streamWrites_stream B chunks WState.init
  have hb := streamWrites_bound B chunks WState.init (by simp [WState.init])
  have e : WState.init.stream = [] := rfl
  rw [e, List.nil_append] at h
  unfold WState.stream at h
  refine ⟨⟨_, h⟩, ?_⟩
  rw [← h, List.length_append]
  omega

theorem tie_stream_writer :
    only ["binary.PutUvarint", "w.Write", "f.Write"] Generated.C01.streamWriterWriteCalls = ["w.Write"] := by decide

example : streamWrites 4 WState.init [[1, 2, 3], [4, 5, 6], [7]] = ⟨[1, 2, 3, 4], [5, 6, 7]⟩ := by decide

end Round12

namespace Counterfactual
open LinVerif.Kv.BW

/-- a record written without the Sync that fits the buffer does not reach the file at all (any buffer size,
any file content before): a kill then loses it although persistEditLogs returned success -/
theorem unsynced_record_stays_in_buffer (B : Nat) (s : WState) (r : Bytes) (hs : s.buf = [])
    (h : (writeEntry r).length ≤ B) :
    (persistW B (fun _ => false) s [r]).file = s.file ∧ (persistW B (fun _ => false) s [r]).buf = writeEntry r := by
  obtain ⟨f, b⟩ := s
  simp only at hs; subst hs
  have h1 : (putUvarint r.length).length ≤ B := by simp [writeEntry] at h; omega
  have h2 : r.length ≤ B - (putUvarint r.length).length := by simp [writeEntry] at h; omega
  simp [persistW, entryWrite, entryWriteT, bwriteT, h1, h2, writeEntry]

/-- the seeded shape (c01-25): Sync only for records "with a file log" (here: longer than 3 bytes). The last
record of a snapshot (the store record, no file log) stays in the buffer: the file read back lacks it -/
theorem sync_skipped_for_some_records_loses_last :
    let s := persistW 262144 (fun r => decide (3 < r.length)) WState.init [[1, 2, 3, 4, 5], [9]]
    s.file = writeEntry [1, 2, 3, 4, 5] ∧ s.buf = writeEntry [9] ∧
    readEntries 262144 s.file = ([[1, 2, 3, 4, 5]], true) := by decide

end Counterfactual

/-! ## 9. proved negation: two concurrent creators of one new family get two family OBJECTS

`store.CreateFamily` does not look `s.families` up again after taking the write lock. Both creators miss in
the read-locked lookup; the second one finds the directory, builds a SECOND family object (same id, same
family version, its own pendingOutputs) and overwrites `s.families[name]`. The first caller keeps its
object. A table being written through one object is not a pending output of the other: the other's
deleteObsoleteFiles removes it, the flush then commits a table that is gone. -/
namespace Neg

/-- the schedule: both miss, both run the write-lock region one after the other -/
def twoCreators : List C01CF.Step := [.fast 0 11, .fast 1 11, .region 0, .region 1]

theorem concurrent_creators_get_two_family_objects :
    let s := C01CF.run ⟨true, false⟩ C01CF.St.init twoCreators
    s.opened = [(11, ⟨0, 1⟩), (11, ⟨1, 1⟩)] ∧ s.fams 11 = some ⟨1, 1⟩ := by decide

/-- a flusher of object 0 has table 7 open, object 1 (the published one) cleans up, the flusher commits:
table 7 is referenced by the current version and is not in the directory -/
theorem second_object_cleanup_deletes_unfinished_table :
    let s := C01CF.run ⟨true, false⟩ C01CF.St.init (twoCreators ++ [.fstart 0 11 7, .cleanup 1 11, .fcommit 0 11 7])
    s.live 11 = [7] ∧ s.tables 11 = [] := by decide

/-- with the re-check the same schedule hands out one object and the table survives -/
theorem recheck_repairs_it :
    let s := C01CF.run ⟨true, true⟩ C01CF.St.init (twoCreators ++ [.fstart 0 11 7, .cleanup 0 11, .fcommit 0 11 7])
    s.opened = [(11, ⟨0, 1⟩), (11, ⟨0, 1⟩)] ∧ s.live 11 = [7] ∧ s.tables 11 = [7] := by decide

end Neg

end LinVerif.Props.C01
