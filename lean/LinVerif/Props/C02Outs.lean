/-
Property C02, round 12 — a compaction with SEVERAL output tables against concurrent deleteObsoleteFiles.

Model: Model/CompactOuts.lean (pending-output bookkeeping of kv/compact_job.go: an output table is opened by
`newTableBuilder` (number allocated + marked pending + file created), finished when it reached maxFileSize
(recorded in `compactionState.outputs` only), listed by a version at `installCompactionResults`, and its
pending mark is released only by the deferred `cleanupCompaction`).  All theorems quantify over every
schedule of the job's steps, any number of concurrent `deleteObsoleteFiles` calls (each one four-phased) and
releases of older versions: `Reachable cfg tables nf s`.

The part of the property statement covered here: "No file that … an unfinished writer … still needs is ever
deleted" for the tables a compaction has FINISHED but not yet committed, and "a reader that starts later
sees every commit" in the form: every table the installed version lists is in the directory.
The variant in which finishCompactionOutputFile itself releases the mark (regenerated fact
`finishOutputReleasesPending`) is refuted on a concrete schedule under `namespace Neg`.
-/
import LinVerif.Lemmas.C02Outs
import LinVerif.Generated.C02

namespace LinVerif.Props.C02
open LinVerif.CompactOuts

/-- the model variant the current source selects -/
def outsCfg : Cfg := { earlyRelease := Generated.C02.finishOutputReleasesPending }

theorem source_finish_keeps_pending : outsCfg.earlyRelease = false := rfl
theorem tie_compactReleaseSites : Generated.C02.compactPendingReleaseSites = Code.releaseSites := rfl
theorem tie_finishOutput : Generated.C02.finishOutputCalls = Code.finishOutput := rfl
theorem tie_openOutput : Generated.C02.openOutputCalls = Code.openOutput := rfl
theorem tie_pendingMarkSites : Generated.C02.pendingMarkSites = Code.pendingMarkSites := rfl

/-- the model's steps change `pending` exactly where the code's sites are: only `open` adds a mark and only
`cleanup` removes one (every other action leaves the set as it is) -/
theorem pending_changes_only_in_open_and_cleanup {s s' : St} (a : Act) (hs : step outsCfg s a = some s')
    (ha : a ≠ .open) (hc : a ≠ .cleanup) : s'.pending = s.pending := by
  have he := source_finish_keeps_pending
  cases a <;> simp only [step, he] at hs <;> (try split at hs) <;> (try split at hs) <;>
    first
    | (cases hs; done)
    | (cases hs; rfl)
    | (cases hs; simp; done)
    | contradiction

section
variable {tables : List Nat} {nf : Nat} (h0 : ∀ f, f ∈ tables → f < nf)
include h0

theorem multi_output_invariant {s : St} (h : Reachable outsCfg tables nf s) : Inv s :=
  inv_reachable source_finish_keeps_pending h0 h

/-- while the compaction is unfinished, its open builder's table and every finished output are in the
directory and still marked pending -/
theorem finished_output_kept_until_commit {s : St} (h : Reachable outsCfg tables nf s) (f : Nat)
    (hw : s.wphase = .merging) (hf : s.builder = some f ∨ f ∈ s.outputs) : f ∈ s.disk ∧ f ∈ s.pending :=
  have hi := multi_output_invariant h0 h
  ⟨hi.needed_disk f (Or.inr (Or.inr ⟨hw, hf⟩)), hi.owned_pending f ⟨hw, hf⟩⟩

/-- every table a registered version lists is in the directory -/
theorem listed_tables_in_directory {s : St} (h : Reachable outsCfg tables nf s) (f : Nat)
    (hf : f ∈ s.cur ∨ f ∈ s.old) : f ∈ s.disk :=
  (multi_output_invariant h0 h).needed_disk f (by rcases hf with h | h <;> simp [Needed, h])

/-- whatever a deleteObsoleteFiles has decided to unlink is needed by nobody — in every later state until it
is done, whatever the compaction and the other cleaners did in between -/
theorem unlink_targets_unneeded {s : St} (h : Reachable outsCfg tables nf s) (i f : Nat)
    (hp : (s.cl i).phase = .actived) (hf : f ∈ (s.cl i).todo) : ¬ Needed s f :=
  ((multi_output_invariant h0 h).cl_todo i hp f hf).2

/-- the unlink step keeps every needed table -/
theorem unlink_step_keeps_needed {s s' : St} (h : Reachable outsCfg tables nf s) (i : Nat)
    (hs : step outsCfg s (.cDel i) = some s') (f : Nat) (hn : Needed s f) : f ∈ s'.disk := by
  have hi := multi_output_invariant h0 h
  simp only [step] at hs
  split at hs
  · rename_i hp
    split at hs
    · rename_i g rest ht
      cases hs
      have hg := (hi.cl_todo i hp g (by simp [ht])).2
      have hd := hi.needed_disk f hn
      simp only [setCl, List.mem_filter, decide_eq_true_eq, ne_eq]
      exact ⟨hd, fun e => hg (e ▸ hn)⟩
    · cases hs
  · cases hs

/-- the commit lists every finished output, and all of them are in the directory -/
theorem installed_outputs_listed_and_present {s s' : St} (h : Reachable outsCfg tables nf s)
    (hs : step outsCfg s .install = some s') (f : Nat) (hf : f ∈ s.outputs) : f ∈ s'.cur ∧ f ∈ s'.disk := by
  have hi' := multi_output_invariant h0 (Reachable.step _ h hs)
  simp only [step] at hs
  split at hs
  · cases hs
    have hc : f ∈ s.cur.filter (· ∉ s.inputs) ++ s.outputs := by simp [hf]
    exact ⟨hc, hi'.needed_disk f (Or.inl hc)⟩
  · cases hs

/-- no step other than the deferred cleanup releases the pending mark of a table the job owns -/
theorem owned_mark_survives_every_step {s s' : St} (h : Reachable outsCfg tables nf s) (a : Act)
    (hs : step outsCfg s a = some s') (f : Nat) (ho : Owned s f) : f ∈ s'.pending := by
  have hp := (multi_output_invariant h0 h).owned_pending f ho
  have hc := source_finish_keeps_pending
  obtain ⟨hw, _⟩ := ho
  cases a <;> simp only [step, hc] at hs <;> (try split at hs) <;> (try split at hs) <;>
    first
    | (cases hs; done)
    | (cases hs; simp_all [setCl]; done)
    | (cases hs; simp_all [setCl] <;> grind)
end

/-- non-vacuity: a first compaction left tables 1 and 2 obsolete; a second one has finished output 5, has
output 6 open, and a whole deleteObsoleteFiles runs in that window: it unlinks 1 and 2 only; after the commit
the current version lists 5 and 6 and both are in the directory. -/
def okSched : List Act :=
  [.start [1, 2], .open, .finish, .install, .cleanup, .drop 1, .drop 2,
   .start [3], .open, .finish, .open, .cList 0, .cPend 0, .cActive 0, .cDel 0, .cDel 0, .cDone 0,
   .finish, .install, .cleanup]

example : (run outsCfg (init [1, 2] 3) okSched).map (fun s => (s.cur, s.disk, s.pending, s.old)) =
    some ([5, 6], [3, 5, 6], [], [3]) := by decide

example : ∃ s, Reachable outsCfg [1, 2] 3 s ∧ s.wphase = .merging ∧ s.outputs = [5] ∧ s.builder = some 6 := by
  refine ⟨_, .step .open (.step .finish (.step .open (.step (.start [3]) (.step (.drop 2) (.step (.drop 1)
    (.step .cleanup (.step .install (.step .finish (.step .open (.step (.start [1, 2]) .init rfl) rfl) rfl)
    rfl) rfl) rfl) rfl) rfl) rfl) rfl) rfl, ?_, ?_, ?_⟩ <;> rfl

namespace Neg
/-- the same window when finishCompactionOutputFile releases the mark itself: the cleaner's delete list now
contains the finished output 5. -/
def earlySched : List Act :=
  [.start [1, 2], .open, .finish, .install, .cleanup, .drop 1, .drop 2,
   .start [3], .open, .finish, .open, .cList 0, .cPend 0, .cActive 0, .cDel 0, .cDel 0, .cDel 0, .cDone 0,
   .finish, .install, .cleanup]

/-- with `earlyRelease = true` the committed version lists table 5, which a concurrent cleanup unlinked
while the compaction was still merging. -/
theorem early_release_unlinks_finished_output :
    (run { earlyRelease := true } (init [1, 2] 3) earlySched).map (fun s => (s.cur, s.disk)) =
      some ([5, 6], [3, 6]) := by decide

/-- the same schedule is not even enabled in the source's variant: its third unlink has no target -/
theorem source_variant_has_no_third_unlink : (run outsCfg (init [1, 2] 3) earlySched).isNone = true := by decide
end Neg

end LinVerif.Props.C02
